(** C01, "start before finish" (strengthened): the worker loss, one [step], whole histories.

    The worker loss is where the cross-layer part of the invariant is used: when [EvWLost w] is
    emitted, every task the job layer shows Running whose current start names the root worker [w] has
    just been put back to Waiting - because the core shows it running on [w] (invariant [IQ]), hence
    (worker-set invariant [WI], bijection [CB] of a reachable state) it is in the lost worker's
    assigned set, resp. is its multi-node task, and so in the list handed to [process_worker_lost]. *)
From HQ Require Import Base.Prelude Cluster.Types Cluster.Core Cluster.Reactor Cluster.Worker Cluster.Server Cluster.Sys Cluster.Monitors Cluster.RejHyp Cluster.ProofsJob Cluster.ProofsMore Cluster.ProofsTerminal Cluster.ProofsStep Cluster.ProofsFinal Cluster.BijBase Cluster.BijCore Cluster.BijHq Cluster.BijSt Cluster.BijReact Cluster.BijFinal Cluster.FrameGen Cluster.CrashFrame Cluster.InvWBase Cluster.InvWView Cluster.InvWCore Cluster.InvWServer Cluster.InvWFinal Cluster.InvQStep Cluster.InvAll Cluster.InvBundle Cluster.ProofsOnce Cluster.StartFinBase Cluster.StartFinJob Cluster.StartFin2Base Cluster.StartFin2Core Cluster.StartFin2Job.
From Coq Require Import ZArith Lia Sorting.Sorted.
Local Open Scope N_scope.

Arguments N.add : simpl never.
Arguments N.sub : simpl never.

(** * Facts about a reachable state *)
Lemma jr_in_core sy o t : INV sy -> task_state (sy, o) t = Some JR ->
  exists tk, find_task (c_tasks (s_core sy)) t = Some tk /\ t_state tk <> Finished.
Proof.
  intros HI Ht. pose proof (inv_cb _ HI) as HC.
  assert (Ha : active (sy, []) t).
  { rewrite task_state_jt in Ht. unfold active. change (jt (sy, o) (fst t)) with (jt (sy, []) (fst t)) in Ht.
    destruct (jt (sy, []) (fst t)) as [l|]; [|discriminate]. exists l. split; [reflexivity | right; exact Ht]. }
  apply (cb_b _ HC) in Ha. apply find_task_present in Ha. destruct Ha as (tk & Hf). exists tk. split; [exact Hf|].
  destruct (inv_qs _ HI) as (_ & Hq & _). destruct (find_task_some _ _ _ Hf) as [Hin _]. specialize (Hq tk Hin). cbv zeta in Hq.
  intros E. rewrite E in Hq. exact Hq.
Qed.

Lemma root_state c t tk w : core_root c t w -> find_task (c_tasks c) t = Some tk -> rootok (t_state tk) w.
Proof. intros Hr Hf. destruct (find_task_some _ _ _ Hf) as [Hin Hid]. exact (Hr tk Hin Hid). Qed.

Lemma perm_order_set order ts x : perm_of_set order ts = true -> In x order -> tid_mem x ts = true.
Proof.
  unfold perm_of_set. intros H Hin. apply andb_true_iff in H. destruct H as [H _]. apply andb_true_iff in H. destruct H as [_ H].
  rewrite forallb_forall in H. exact (H x Hin).
Qed.
Lemma perm_set_order order ts x : perm_of_set order ts = true -> tid_mem x ts = true -> In x order.
Proof.
  unfold perm_of_set. intros H Hm. apply andb_true_iff in H. destruct H as [_ H].
  rewrite forallb_forall in H. apply sf_tid_mem_In. apply H. apply sf_tid_mem_In. exact Hm.
Qed.

Lemma lost_prefilled_other l : forall c c' x, lost_prefilled c l = Ok c' -> ~ In x l ->
  find_task (c_tasks c') x = find_task (c_tasks c) x.
Proof.
  induction l as [|id r IH]; cbn [lost_prefilled]; intros c c' x H Hn; [inversion H; reflexivity|].
  apply bind_ok in H. destruct H as (t & Ht & H). apply bind_ok in H. destruct H as (q & _ & H). apply bind_ok in H. destruct H as (q' & _ & H).
  rewrite (IH _ _ x H) by (intros Hx; apply Hn; right; exact Hx).
  cbn [c_tasks with_queues upd_task with_tasks]. rewrite find_set_task. cbn [t_id with_state with_inst].
  destruct (find_task_some _ _ _ (get_task_find _ _ _ Ht)) as [_ Hid]. rewrite Hid.
  destruct (tid_eqb x id) eqn:E; [|reflexivity]. apply tid_eqb_eq in E. exfalso. apply Hn. left. symmetry. exact E.
Qed.

(** * The worker loss *)
Lemma IQ_lost s s5 s6 w running reason (N : tid -> Prop) pre :
  hq_of s5 = hq_of s -> snd s5 = snd s -> RKN N (core_of s) (core_of s5) ->
  (forall t w', task_state s t = Some JR -> core_root (core_of s) t w' -> (w' = w \/ N t) -> In t running) ->
  process_worker_lost s5 w running reason = Ok s6 ->
  IQ s pre -> IQ s6 pre.
Proof.
  intros Hq Hs Hk HP H [HF HL]. unfold process_worker_lost in H. apply bind_ok in H. destruct H as (s5' & Hw & H). inversion H; subst. clear H.
  destruct (set_waiting_all_spec _ _ _ Hw) as (C1 & S1 & J1).
  unfold IQ. change (snd (emit s5' (OEv (EvWLost w reason)))) with (snd s5' ++ [OEv (EvWLost w reason)]). rewrite S1, Hs, app_assoc. split.
  - apply FAS2c_snoc; [exact HF | intros t Eo; discriminate].
  - intros t Ht. change (task_state (emit s5' (OEv (EvWLost w reason))) t) with (task_state s5' t) in Ht.
    destruct (J1 t Ht) as [Ht5 Hnr]. rewrite (task_state_same _ _ _ Hq) in Ht5.
    destruct (HL t Ht5) as (w' & Hc & Hr). exists w'. split.
    + rewrite cur_snoc, Hc. unfold cur_step. cbn [kind_of]. destruct (N.eqb w' w) eqn:E; [|reflexivity].
      apply N.eqb_eq in E. exfalso. apply Hnr. eapply HP; [exact Ht5 | exact Hr | left; exact E].
    + change (core_of (emit s5' (OEv (EvWLost w reason)))) with (core_of s5'). rewrite C1. eapply core_root_frame; [exact Hk | | exact Hr].
      intros Hn. apply Hnr. eapply HP; [exact Ht5 | exact Hr | right; exact Hn].
Qed.

(** The lost worker's own part of [on_remove_worker]: the frame, and "Running with root [w] or
    touched => in the running list". *)
Lemma lost_sets_spec sy o w wk c2 running retracted ao po :
  INV sy ->
  find_worker (c_workers (s_core sy)) w = Some wk ->
  (let c0 := with_workers (s_core sy) (del_worker (c_workers (s_core sy)) w) in
   match w_assign wk with
   | Sn a p _ =>
       if negb (perm_of_set ao a && perm_of_set po p) then Disabled
       else do c1 <- lost_prefilled c0 po; lost_assigned c1 ao [] []
   | Mn mt root =>
       do t <- get_task (c_tasks c0) mt;
       match t_state t with
       | RunningMN ws =>
           match ws with
           | w0 :: rest =>
               if N.eqb w w0 then
                 do c1 <- reset_mn_all c0 rest;
                 let t2 := with_inst (with_state t (Waiting 0)) (t_inst t + 1) in
                 let c2 := upd_task c1 t2 in
                 do (qs, ret) <- add_ready_task (c_queues c2) t2;
                 Ok (with_queues c2 qs, [mt], ret)
               else
                 Ok (upd_task c0 (with_state t (RunningMN (filter (fun x => negb (N.eqb x w)) ws))), [], [])
           | [] => Panic 186
           end
       | _ => Panic 187
       end
   end) = Ok (c2, running, retracted) ->
  exists N : tid -> Prop, RKN N (s_core sy) c2 /\
    forall t w', task_state (sy, o) t = Some JR -> core_root (s_core sy) t w' -> (w' = w \/ N t) -> In t running.
Proof.
  intros HI Ew Hr. cbv zeta in Hr.
  pose proof (inv_w _ HI) as HW. pose proof (cb_s _ (inv_cb _ HI)) as HCS. change (CS (s_core sy)) in HCS.
  set (c := s_core sy) in *. set (c0 := with_workers c (del_worker (c_workers c) w)) in *.
  (* what the invariants say about a Running task of the job layer *)
  assert (Hplace : forall t tk, find_task (c_tasks c) t = Some tk ->
            match t_state tk with
            | Running w1 _ => exists wk1 a p f, find_worker (c_workers c) w1 = Some wk1 /\ w_assign wk1 = Sn a p f /\ tid_mem t a = true
            | RunningMN ws => forall w1, In w1 ws -> exists wk1 root, find_worker (c_workers c) w1 = Some wk1 /\ w_assign wk1 = Mn t root
            | _ => True
            end).
  { intros t tk Hf. destruct (find_task_some _ _ _ Hf) as [Hin Hid]. pose proof (WI_task_places c HW HCS tk Hin) as X. rewrite Hid in X.
    destruct (t_state tk); try exact I; exact X. }
  (* a task the job layer shows Running, with its task record and root *)
  assert (Hjr_tk : forall t w', task_state (sy, o) t = Some JR -> core_root c t w' ->
            exists tk, find_task (c_tasks c) t = Some tk /\
              ((exists rv, t_state tk = Running w' rv) \/ (exists rest, t_state tk = RunningMN (w' :: rest)))).
  { intros t w' Hjr Hroot. destruct (jr_in_core sy o t HI Hjr) as (tk & Hf & Hnf). exists tk. split; [exact Hf|].
    pose proof (root_state _ _ _ _ Hroot Hf) as Hrk.
    destruct (t_state tk) as [n|w1 rv1|w1|w1|w1 rv1|ws|]; cbn in Hrk; try contradiction.
    - left. exists rv1. rewrite Hrk. reflexivity.
    - destruct ws as [|w1 rest]; [contradiction|]. right. exists rest. rewrite Hrk. reflexivity. }
  destruct (w_assign wk) as [a p f|mt root] eqn:Ea.
  - (* single-node worker *)
    destruct (negb (perm_of_set ao a && perm_of_set po p)) eqn:Ep; [discriminate|].
    apply negb_false_iff in Ep. apply andb_true_iff in Ep. destruct Ep as [Pa Pp].
    apply bind_ok in Hr. destruct Hr as (c1 & Hlp & Hla).
    exists (fun x => In x ao \/ In x po). split.
    + eapply (RKN_trans _ _ c0); [apply RKN_eq; reflexivity|].
      eapply RKN_trans; [eapply lost_prefilled_RK; [|exact Hlp]; intros id Hid; right; exact Hid|].
      eapply lost_assigned_RK; [|exact Hla]. intros id Hid. left. exact Hid.
    + intros t w' Hjr Hroot Hor.
      destruct (Hjr_tk t w' Hjr Hroot) as (tk & Hf & Hst).
      pose proof (Hplace t tk Hf) as Hpl.
      assert (HA : In t ao -> pl (t_state tk) = PA w \/ pl (t_state tk) = PR).
      { intros Hx. destruct (WI_member_A c w wk a p f t tk HW Ew Ea (perm_order_set _ _ _ Pa Hx) Hf) as [X|[X _]]; [left | right]; exact X. }
      assert (HP : In t po -> pl (t_state tk) = PP w).
      { intros Hx. exact (WI_member_P c w wk a p f t tk HW Ew Ea (perm_order_set _ _ _ Pp Hx) Hf). }
      destruct Hst as [(rv & Est)|(rest & Est)]; rewrite Est in Hpl, HA, HP; cbn [pl] in HA, HP.
      * (* Running w' rv *)
        assert (Ew' : w' = w).
        { destruct Hor as [E|[Hx|Hx]]; [exact E | | specialize (HP Hx); discriminate].
          destruct (HA Hx) as [X|X]; [inversion X; reflexivity | discriminate]. }
        subst w'. destruct Hpl as (wk1 & a1 & p1 & f1 & Ew1 & Ea1 & Hm).
        rewrite Ew in Ew1. inversion Ew1; subst wk1. rewrite Ea in Ea1. inversion Ea1; subst a1 p1 f1.
        assert (Hao : In t ao) by (eapply perm_set_order; eassumption).
        assert (Hnp : ~ In t po) by (intros Hx; specialize (HP Hx); discriminate).
        assert (Hf1 : find_task (c_tasks c1) t = Some tk) by (rewrite (lost_prefilled_other _ _ _ t Hlp Hnp); exact Hf).
        exact (lost_assigned_running _ _ _ _ _ _ _ t tk w rv Hla Hao Hf1 Est).
      * (* RunningMN (w' :: rest): impossible on a single-node worker / in its sets *)
        exfalso. destruct Hor as [E|[Hx|Hx]].
        -- subst w'. destruct (Hpl w (or_introl eq_refl)) as (wk1 & root1 & Ew1 & Ea1).
           rewrite Ew in Ew1. inversion Ew1; subst wk1. rewrite Ea in Ea1. discriminate.
        -- destruct (HA Hx) as [X|X]; discriminate.
        -- specialize (HP Hx). discriminate.
  - (* multi-node worker *)
    apply bind_ok in Hr. destruct Hr as (t0 & Ht0 & Hr).
    assert (Hf0 : find_task (c_tasks c) mt = Some t0) by (apply get_task_find in Ht0; exact Ht0).
    destruct (find_task_some _ _ _ Hf0) as [Hin0 Hid0].
    destruct (t_state t0) as [| | | | |ws0|] eqn:Est0; try discriminate.
    destruct ws0 as [|w0 rest0]; [discriminate|].
    (* a Running task of the job layer with root [w] is the worker's multi-node task *)
    assert (Hmn : forall t, task_state (sy, o) t = Some JR -> core_root c t w -> t = mt /\ w0 = w).
    { intros t Hjr Hroot. destruct (Hjr_tk t w Hjr Hroot) as (tk & Hf & Hst). pose proof (Hplace t tk Hf) as Hpl.
      destruct Hst as [(rv & Est)|(rest & Est)]; rewrite Est in Hpl.
      - exfalso. destruct Hpl as (wk1 & a1 & p1 & f1 & Ew1 & Ea1 & _). rewrite Ew in Ew1. inversion Ew1; subst wk1. rewrite Ea in Ea1. discriminate.
      - destruct (Hpl w (or_introl eq_refl)) as (wk1 & root1 & Ew1 & Ea1). rewrite Ew in Ew1. inversion Ew1; subst wk1.
        rewrite Ea in Ea1. inversion Ea1; subst. split; [reflexivity|].
        rewrite Hf0 in Hf. inversion Hf; subst tk. rewrite Est0 in Est. inversion Est; reflexivity. }
    destruct (N.eqb w w0) eqn:Eww.
    + apply bind_ok in Hr. destruct Hr as (c1 & Hc1 & Hr). apply bind_ok in Hr. destruct Hr as ([qs ret] & _ & Hr). inversion Hr; subst c2 running retracted.
      exists (fun y => y = mt). split.
      * match goal with |- RKN _ c ?cx => match cx with context [upd_task c1 ?x] => apply (RKN_updN_gen (fun y => y = mt) c c1 x cx) end end;
          [exact (reset_mn_all_tasks _ _ _ Hc1) | exact Hid0 | reflexivity].
      * intros t w' Hjr Hroot [E|E]; [|left; symmetry; exact E]. subst w'. left. symmetry. exact (proj1 (Hmn t Hjr Hroot)).
    + inversion Hr; subst c2 running retracted. exists (fun _ => False). split.
      * match goal with |- RKN _ c ?cx => match cx with context [upd_task c0 ?x] => apply (RKN_upd_gen (fun _ => False) c c0 x cx t0) end end;
          [reflexivity | exact Hin0 | reflexivity | | reflexivity].
        rewrite Est0. intros w1 H1. cbn [t_state with_state filter]. rewrite (N.eqb_sym w0 w), Eww. cbn [negb]. exact H1.
      * intros t w' Hjr Hroot [E|[]]. subst w'. exfalso. destruct (Hmn t Hjr Hroot) as [_ E0]. subst w0. rewrite N.eqb_refl in Eww. discriminate.
Qed.

Lemma SQ_on_remove_worker s w reason ao po to s' :
  INV (fst s) -> on_remove_worker s w reason ao po to = Ok s' -> SQ s s'.
Proof.
  intros HI Hc pre HIQ. unfold on_remove_worker in Hc.
  destruct (find_worker (c_workers (core_of s)) w) as [wk|] eqn:Ew; [|discriminate].
  apply bind_ok in Hc. destruct Hc as ([[c2 running] retracted] & Hr & Hc).
  destruct (negb (perm_of_set to _)); [discriminate|].
  apply bind_ok in Hc. destruct Hc as (s3 & H3 & Hc). apply bind_ok in Hc. destruct Hc as (s4 & H4 & Hc).
  apply bind_ok in Hc. destruct Hc as (s6 & H6 & Hc). apply bind_ok in Hc. destruct Hc as (s7 & H7 & Hc). inversion Hc; subst.
  destruct s as [sy o]. cbn [fst] in HI.
  destruct (lost_sets_spec sy o w wk c2 running retracted ao po HI Ew Hr) as (N & Hk & HP).
  pose proof (lost_retracting_same _ _ _ _ H3) as Q3. unfold hq_same in Q3. pose proof (lost_retracting_snd _ _ _ _ H3) as S3.
  pose proof (process_retracted_hq _ _ _ H4) as Q4. pose proof (process_retracted_snd _ _ _ H4) as S4.
  set (s5 := broadcast s4 (DLostWorker w)) in *.
  assert (I6 : IQ s6 pre).
  { eapply (IQ_lost (sy, o) s5 s6 w running reason N pre); [ | | | exact HP | exact H6 | exact HIQ].
    - change (hq_of s4 = hq_of (sy, o)). rewrite Q4, Q3. reflexivity.
    - change (snd s4 = o). rewrite S4, S3. reflexivity.
    - change (RKN N (s_core sy) (core_of s4)).
      eapply RKN_trans; [exact Hk|]. eapply RKN_trans; [|exact (process_retracted_RK N _ _ _ H4)].
      exact (lost_retracting_RK N _ _ _ _ H3). }
  apply (SQ_same s7 (ask_scheduling s7)); [reflexivity | reflexivity | reflexivity|].
  exact (SQ_lost_fail_running _ _ _ _ H7 pre I6).
Qed.

(** * One step of the whole system, and whole histories *)
Theorem SQ_step s o s' outs : INV s -> step s o = Ok (s', outs) -> SQ (s, []) (s', outs).
Proof.
  intros HI H.
  assert (HTS : TS (s_core s)) by (apply TS_CS; exact (cb_s _ (inv_cb _ HI))).
  destruct o; cbn [step] in H.
  - unfold on_new_worker in H. inversion H; subst.
    eapply (SQ_ext _ _ [OEv (EvWConn _); ONewWorker _]); [reflexivity | reflexivity | apply nojr_same; reflexivity | reflexivity].
  - destruct (find_proc _ w); [|discriminate]. eapply SQ_on_remove_worker; [exact HI | exact H].
  - destruct (bad_submit_lengths _ _); [inversion H; subst; eapply (SQ_ext _ _ [_]); [reflexivity | reflexivity | apply nojr_same; reflexivity | reflexivity]|]. eapply SQ_submit_array; exact H.
  - destruct (bad_graph_rq _ _); [inversion H; subst; eapply (SQ_ext _ _ [_]); [reflexivity | reflexivity | apply nojr_same; reflexivity | reflexivity]|]. destruct (dead_dep _ _ _); [inversion H; subst; eapply (SQ_ext _ _ [_]); [reflexivity | reflexivity | apply nojr_same; reflexivity | reflexivity]|].
    eapply SQ_submit_graph; exact H.
  - unfold handle_open in H.
    match type of H with Ok ?x = _ => assert (Hx : (s', outs) = x) by congruence; rewrite Hx; clear Hx H end.
    eapply (SQ_trans _ (hq_with (s, []) _ _)); [apply SQ_quiet; [reflexivity | reflexivity | apply nojr_new_job]|].
    eapply SQ_trans; apply SQ_emit_silent; reflexivity.
  - eapply SQ_close; exact H.
  - eapply SQ_cancel; exact H.
  - eapply SQ_forget; exact H.
  - destruct (find_proc _ w) as [p|]; [|discriminate]. destruct (p_down p); [discriminate|].
    inv_binds H. inversion H; subst.
    eapply (SQ_ext _ _ (ODown _ _ :: map OLaunch _)); [reflexivity | cbn [forallb]; apply silent_launch | apply nojr_same; reflexivity | reflexivity].
  - destruct (find_proc _ w) as [p|]; [|discriminate]. destruct (p_up p) as [|m rest]; [discriminate|].
    destruct m.
    + match type of H with on_task_update ?s1 _ _ = _ =>
        eapply (SQ_trans _ s1); [eapply (SQ_ext _ _ [_]); [reflexivity | reflexivity | apply nojr_same; reflexivity | reflexivity]
                                | eapply SQ_on_task_update; [exact HTS | exact H]] end.
    + match type of H with on_retract_response ?s1 _ _ = _ =>
        eapply (SQ_trans _ s1); [eapply (SQ_ext _ _ [_]); [reflexivity | reflexivity | apply nojr_same; reflexivity | reflexivity]|] end.
      apply SQ_core0; [eapply on_retract_response_same; exact H | | eapply on_retract_response_RK; exact H].
      unfold on_retract_response in H. destruct (retract_response_states _ w ids []) as [c' groups].
      apply bind_ok in H. destruct H as (s2 & H & H2).
      assert (Es : snd (s', outs) = snd s2) by (destruct (retract_wakes _ _ _ _); inversion H2; subst; reflexivity).
      rewrite Es, (send_redirected_snd _ _ _ H). reflexivity.
  - destruct (c_flag (s_core s)); [|discriminate].
    apply SQ_core0; [eapply run_scheduling_same; exact H | eapply run_scheduling_snd; exact H | eapply run_scheduling_RK; exact H].
  - destruct (find_proc _ w) as [p|]; [|discriminate]. inv_binds H. inversion H; subst.
    eapply (SQ_ext _ _ (map OLaunch _)); [reflexivity | apply silent_launch | apply nojr_same; reflexivity | reflexivity].
  - destruct (find_proc _ w) as [p|]; [|discriminate]. inversion H; subst. apply SQ_same; reflexivity.
  - inversion H; subst. apply SQ_same; reflexivity.
  - inv_binds H. inversion H; subst. eapply (SQ_ext _ _ [_]); [reflexivity | reflexivity | apply nojr_same; reflexivity | reflexivity].
Qed.

Theorem run_IQ ops : forall s pre s' outs,
  along INV s ops -> IQ (s, []) pre -> run s ops = Ok (s', outs) -> IQ (s', []) (pre ++ outs).
Proof.
  induction ops as [|o r IH]; cbn [run along]; intros s pre s' outs [HI HA] I H.
  - inversion H; subst. rewrite app_nil_r. exact I.
  - apply bind_ok in H. destruct H as ([s1 o1] & H1 & H). apply bind_ok in H. destruct H as ([s2 o2] & H2 & H). inversion H; subst.
    rewrite H1 in HA. rewrite app_assoc. eapply IH; [exact HA | | exact H2].
    pose proof (SQ_step _ _ _ _ HI H1 pre I) as I1. unfold IQ in *. cbn [snd] in *. rewrite app_nil_r. exact I1.
Qed.
