(** C03, the dependency invariant, part 7: new tasks ([register_deps], [add_new_tasks],
    [on_new_tasks]).  A new task keeps the dependencies that are in the core, registers itself as
    their consumer and starts with the number of kept dependencies as its counter.  What is needed
    from outside: no task already in the core lists a new id as a dependency (the job layer
    guarantees it: dependencies are known task ids, new ids are unknown). *)
From HQ Require Import Base.Prelude Cluster.Types Cluster.Core Cluster.Reactor Cluster.Worker Cluster.Server Cluster.Sys Cluster.ProofsJob Cluster.ProofsMore Cluster.ProofsTerminal Cluster.ProofsStep Cluster.BijBase Cluster.BijCore Cluster.BijHq Cluster.BijSt Cluster.BijReact Cluster.FrameGen Cluster.CrashFrame Cluster.InvDBase Cluster.InvDMap Cluster.InvDSpec Cluster.InvDRem Cluster.InvDReact.
From Coq Require Import ZArith Lia Sorting.Sorted.
Local Open Scope N_scope.

Arguments N.add : simpl never.
Arguments N.sub : simpl never.

Lemma register_deps_fm deps : forall c id kept count c' kept' count',
  NoDup deps -> (forall x t, fm c x = Some t -> t_state t <> Finished) ->
  register_deps c id deps kept count = (c', kept', count') ->
  (TS c -> TS c') /\
  (forall x, fm c' x = regm (fm c) deps id x) /\
  kept' = kept ++ filter (inm (fm c)) deps /\
  count' = count + N.of_nat (length (filter (inm (fm c)) deps)).
Proof.
  induction deps as [|d r IH]; cbn [register_deps]; intros c id kept count c' kept' count' Hnd Hnf H.
  - inversion H; subst. split; [auto|]. split; [|split; [rewrite app_nil_r; reflexivity | cbn; lia]].
    intros x. unfold regm. cbn [tid_mem]. destruct (fm c' x); reflexivity.
  - inversion Hnd as [|? ? Hn Hr]; subst.
    destruct (find_task (c_tasks c) d) as [dep|] eqn:Ef.
    + destruct (find_task_some _ _ _ Ef) as [_ Hid].
      set (dep' := with_consumers dep (tid_insert id (t_consumers dep))) in *.
      set (c1 := upd_task c dep') in *.
      assert (F1 : forall x, fm c1 x = mupd (fm c) d dep' x) by (intros x; unfold c1; rewrite fm_upd; cbn [t_id dep' with_consumers]; rewrite Hid; reflexivity).
      assert (Hnf1 : forall x t, fm c1 x = Some t -> t_state t <> Finished).
      { intros x t Ex. rewrite F1 in Ex. unfold mupd in Ex. destruct (tid_eqb x d); [inversion Ex; subst; cbn; eapply Hnf; exact Ef | eapply Hnf; exact Ex]. }
      assert (Hfin : is_finished dep = false).
      { unfold is_finished. pose proof (Hnf _ _ Ef) as Hx. destruct (t_state dep); try reflexivity. congruence. }
      rewrite Hfin in H.
      destruct (IH _ _ _ _ _ _ _ Hr Hnf1 H) as (T1 & F2 & K2 & C2).
      assert (Hinm : forall y, inm (fm c1) y = inm (fm c) y).
      { intros y. unfold inm. rewrite F1. unfold mupd. destruct (tid_eqb y d) eqn:E; [|reflexivity]. apply tid_eqb_eq in E. subst y. unfold fm. rewrite Ef. reflexivity. }
      assert (Hfl : filter (inm (fm c1)) r = filter (inm (fm c)) r).
      { clear -Hinm. induction r as [|h t IHr]; [reflexivity|]. cbn [filter]. rewrite Hinm, IHr. reflexivity. }
      assert (Hd : inm (fm c) d = true) by (unfold inm, fm; rewrite Ef; reflexivity).
      split; [|split; [|split]].
      * intros Hs. apply T1. apply (upd_task_TS c dep' dep); [exact Hs | cbn; rewrite Hid; exact Ef].
      * intros x. rewrite F2. unfold regm. rewrite F1. unfold mupd. cbn [tid_mem].
        destruct (tid_eqb x d) eqn:E.
        -- apply tid_eqb_eq in E. subst x. cbn [orb]. apply tid_mem_nIn in Hn. rewrite Hn. unfold fm. rewrite Ef. reflexivity.
        -- cbn [orb]. reflexivity.
      * rewrite K2, Hfl. cbn [filter]. rewrite Hd, <- app_assoc. reflexivity.
      * rewrite C2, Hfl. cbn [filter]. rewrite Hd. cbn [length]. lia.
    + destruct (IH _ _ _ _ _ _ _ Hr Hnf H) as (T1 & F2 & K2 & C2).
      assert (Hd : inm (fm c) d = false) by (unfold inm, fm; rewrite Ef; reflexivity).
      split; [exact T1|]. split; [|split].
      * intros x. rewrite F2. unfold regm. cbn [tid_mem]. destruct (tid_eqb x d) eqn:E; [|reflexivity].
        apply tid_eqb_eq in E. subst x. unfold fm. rewrite Ef. reflexivity.
      * rewrite K2. cbn [filter]. rewrite Hd. reflexivity.
      * rewrite C2. cbn [filter]. rewrite Hd. reflexivity.
Qed.

Lemma register_deps_dom deps : forall c id kept count c' kept' count',
  register_deps c id deps kept count = (c', kept', count') -> forall x, inm (fm c') x = inm (fm c) x.
Proof.
  induction deps as [|d r IH]; cbn [register_deps]; intros c id kept count c' kept' count' H x; [inversion H; reflexivity|].
  destruct (find_task (c_tasks c) d) as [dep|] eqn:Ef; [|eapply IH; exact H].
  rewrite (IH _ _ _ _ _ _ _ H x). unfold inm. rewrite fm_upd. unfold mupd. cbn [t_id with_consumers].
  destruct (find_task_some _ _ _ Ef) as [_ Hid]. rewrite Hid.
  destruct (tid_eqb x d) eqn:E; [|reflexivity]. apply tid_eqb_eq in E. subst x. unfold fm. rewrite Ef. reflexivity.
Qed.

(** The model refuses (panic 231) an id that is already in the core. *)
Lemma add_new_ids_fresh ts : forall c ret c' ret',
  add_new_tasks c ts ret = Ok (c', ret') ->
  (forall t, In t ts -> fm c (t_id t) = None) /\ (forall x, inm (fm c) x = true -> inm (fm c') x = true).
Proof.
  induction ts as [|t r IH]; cbn [add_new_tasks]; intros c ret c' ret' H; [inversion H; subst; split; [intros t [] | auto]|].
  destruct (register_deps c (t_id t) (t_deps t) [] 0) as [[c1 kept] count] eqn:Er.
  pose proof (register_deps_dom _ _ _ _ _ _ _ _ Er) as D1.
  apply bind_ok in H. destruct H as ([c2 rt] & H2 & H).
  assert (E2 : c_tasks c2 = c_tasks c1).
  { destruct (N.eqb count 0); [|inversion H2; reflexivity]. inv_binds H2. inversion H2; reflexivity. }
  destruct (find_task (c_tasks c2) (t_id t)) eqn:Ef; [discriminate|].
  destruct (IH _ _ _ _ H) as [I1 I2].
  assert (Hmono : forall x, inm (fm c) x = true -> inm (fm (upd_task c2 (with_state (with_deps t kept) (Waiting count)))) x = true).
  { intros x Hx. unfold inm. rewrite fm_upd. unfold mupd. destruct (tid_eqb x _); [reflexivity|].
    rewrite <- D1 in Hx. unfold inm, fm in *. rewrite E2. exact Hx. }
  split.
  - intros t' [<-|Hin].
    + rewrite E2 in Ef. apply inm_false. rewrite <- D1. apply inm_false. exact Ef.
    + specialize (I1 _ Hin). apply inm_false. apply inm_false in I1.
      destruct (inm (fm c) (t_id t')) eqn:E; [|reflexivity]. rewrite (Hmono _ E) in I1. discriminate.
  - intros x Hx. apply I2, Hmono, Hx.
Qed.

Definition new_wf (t : task) : Prop := NoDup (t_deps t) /\ t_consumers t = [].

(** Where the tasks of the new map come from. *)
Definition grown (ts : list task) (m m' : tmap) : Prop :=
  forall x tx', m' x = Some tx' ->
    (exists tx, m x = Some tx /\ t_deps tx' = t_deps tx) \/
    (exists t, In t ts /\ x = t_id t /\ incl (t_deps tx') (t_deps t) /\ forall d, In d (t_deps tx') -> m' d <> None).

Lemma add_new_tasks_DI ts : forall c ret c' ret',
  GD c -> Forall new_wf ts ->
  (forall t x tx, In t ts -> fm c x = Some tx -> ~ In (t_id t) (t_deps tx)) ->
  add_new_tasks c ts ret = Ok (c', ret') ->
  GD c' /\ grown ts (fm c) (fm c').
Proof.
  induction ts as [|t r IH]; cbn [add_new_tasks]; intros c ret c' ret' G Hwf Hnd H.
  - inversion H; subst. split; [exact G|]. intros x tx' Ex. left. eauto.
  - pose proof (add_new_ids_fresh (t :: r) c ret c' ret') as Hfr. cbn [add_new_tasks] in Hfr. specialize (Hfr H).
    destruct Hfr as [Hfresh Hmono].
    inversion Hwf as [|? ? [Hnodup Hnc] Hwf']; subst. destruct G as [Hs D].
    destruct (register_deps c (t_id t) (t_deps t) [] 0) as [[c1 kept] count] eqn:Er.
    destruct (register_deps_fm _ _ _ _ _ _ _ _ Hnodup (fun x tx => dx_nofin _ _ D x tx) Er) as (T1 & F1 & K1 & C1).
    cbn [app] in K1. rewrite N.add_0_l in C1.
    apply bind_ok in H. destruct H as ([c2 rt] & H2 & H).
    assert (E2 : c_tasks c2 = c_tasks c1).
    { destruct (N.eqb count 0); [|inversion H2; reflexivity]. inv_binds H2. inversion H2; reflexivity. }
    destruct (find_task (c_tasks c2) (t_id t)) eqn:Ef; [discriminate|].
    set (t1 := with_state (with_deps t kept) (Waiting count)) in *.
    set (c3 := upd_task c2 t1) in *.
    assert (F3 : forall x, fm c3 x = mupd (regm (fm c) (t_deps t) (t_id t)) (t_id t)
                                          (with_state (with_deps t kept) (Waiting (N.of_nat (length kept)))) x).
    { intros x. unfold c3. rewrite fm_upd. cbn [t_id t1 with_state with_deps]. unfold mupd.
      destruct (tid_eqb x (t_id t)); [unfold t1; rewrite C1, <- K1; reflexivity|]. unfold fm at 1. rewrite E2. apply F1. }
    assert (Hid_fresh : fm c (t_id t) = None) by (apply Hfresh; left; reflexivity).
    assert (D3 : DI (fm c3)).
    { eapply (DI_add (fm c) (fm c3) t kept D Hid_fresh); [|exact Hnodup | exact Hnc | exact K1 | exact F3].
      intros x tx Ex. eapply Hnd; [left; reflexivity | exact Ex]. }
    assert (T3 : TS c3).
    { unfold TS, c3, upd_task. cbn [c_tasks with_tasks]. apply set_task_new_sorted; [rewrite E2; apply T1; exact Hs | exact Ef]. }
    destruct (add_new_ids_fresh _ _ _ _ _ H) as [Hfresh3 Hmono3].
    assert (Hdom3 : forall x, inm (fm c) x = true -> inm (fm c3) x = true).
    { intros x Hx. unfold inm. rewrite F3. unfold mupd, regm. destruct (tid_eqb x (t_id t)); [reflexivity|].
      unfold inm in Hx. destruct (fm c x); [destruct (tid_mem x (t_deps t)); reflexivity | discriminate]. }
    assert (Hsrc3 : forall x tx3, fm c3 x = Some tx3 ->
              (x = t_id t /\ tx3 = t1) \/ (exists tx, fm c x = Some tx /\ t_deps tx3 = t_deps tx)).
    { intros x tx3 Ex. rewrite F3 in Ex. unfold mupd, regm in Ex. destruct (tid_eqb x (t_id t)) eqn:E.
      - apply tid_eqb_eq in E. left. split; [exact E|]. inversion Ex. unfold t1. rewrite C1, <- K1. reflexivity.
      - right. destruct (fm c x) as [tx|]; [|discriminate]. exists tx. split; [reflexivity|].
        destruct (tid_mem x (t_deps t)); inversion Ex; reflexivity. }
    assert (Hkept : forall d, In d kept -> In d (t_deps t) /\ inm (fm c) d = true) by (intros d; rewrite K1; apply filter_In).
    assert (Hnd3 : forall t' x tx3, In t' r -> fm c3 x = Some tx3 -> ~ In (t_id t') (t_deps tx3)).
    { intros t' x tx3 Hin Ex Hdep. destruct (Hsrc3 _ _ Ex) as [[-> ->]|(tx & Etx & Ed)].
      - cbn in Hdep. apply Hkept in Hdep. destruct Hdep as [_ Hdep]. apply Hdom3 in Hdep.
        pose proof (Hfresh3 _ Hin) as Hn. apply inm_false in Hn. congruence.
      - rewrite Ed in Hdep. eapply Hnd; [right; exact Hin | exact Etx | exact Hdep]. }
    destruct (IH c3 _ _ _ (conj T3 D3) Hwf' Hnd3 H) as [G' Gr'].
    split; [exact G'|].
    intros x tx' Ex. destruct (Gr' _ _ Ex) as [(tx3 & E3 & Ed3)|(t' & Hin & -> & Hincl & Hdom)].
    + destruct (Hsrc3 _ _ E3) as [[-> ->]|(tx & Etx & Ed)].
      * right. exists t. split; [left; reflexivity|]. split; [reflexivity|]. rewrite Ed3. cbn [t_deps t1 with_state with_deps]. split.
        -- intros d Hd. apply Hkept in Hd. apply Hd.
        -- intros d Hd. apply Hkept in Hd. destruct Hd as [_ Hd]. apply Hdom3, Hmono3 in Hd. apply inm_true in Hd. destruct Hd as (y & Hy). congruence.
      * left. exists tx. split; [exact Etx | congruence].
    + right. exists t'. split; [right; exact Hin|]. split; [reflexivity|]. split; assumption.
Qed.

Lemma on_new_tasks_DI s ts s' :
  GD (core_of s) -> Forall new_wf ts ->
  (forall t x tx, In t ts -> fm (core_of s) x = Some tx -> ~ In (t_id t) (t_deps tx)) ->
  on_new_tasks s ts = Ok s' ->
  GD (core_of s') /\ grown ts (fm (core_of s)) (fm (core_of s')).
Proof.
  intros G Hwf Hnd H. unfold on_new_tasks in H.
  destruct ts as [|t0 tr] eqn:Ets; [inversion H; subst; split; [exact G|]; intros x tx' Ex; left; eauto|].
  rewrite <- Ets in *. clear Ets.
  apply bind_ok in H. destruct H as ([c' retracted] & Ha & H). apply bind_ok in H. destruct H as (s1 & Hr & H). inversion H; subst.
  destruct (add_new_tasks_DI _ _ _ _ _ G Hwf Hnd Ha) as [G1 Gr1].
  pose proof (process_retracted_scr _ _ _ Hr) as S1. cbn in S1.
  pose proof (RL_scr _ _ G1 S1) as [G2 _].
  split; [eapply GD_tasks; [|exact G2]; reflexivity|].
  change (grown ts (fm (core_of s)) (fm (core_of s1))).
  destruct S1 as [_ S1].
  intros x tx' Ex. destruct (SC_some' _ _ _ _ S1 Ex) as (tx1 & E1 & (_ & Hd & _) & _).
  destruct (Gr1 _ _ E1) as [(tx & Etx & Ed)|(t & Hin & -> & Hincl & Hdom)].
  - left. exists tx. split; [exact Etx | congruence].
  - right. exists t. split; [exact Hin|]. split; [reflexivity|]. rewrite Hd. split; [exact Hincl|].
    intros d Hdd. specialize (Hdom d Hdd). specialize (S1 d). destruct (fm c' d); [|congruence].
    destruct (fm (core_of s1) d); [discriminate | contradiction].
Qed.
