(** The tako server core: task queues (taskqueue.rs), server-side worker bookkeeping
    (server/worker.rs, workerload.rs), [Core::remove_task] (core.rs).
    Panic sites are numbered; the table is in DESIGN.md (Appendix B). *)
From HQ Require Import Base.Prelude Cluster.Types.
From Coq Require Import ZArith.
Local Open Scope N_scope.

(** * Sorted id lists *)
Fixpoint tid_mem (x : tid) (l : list tid) : bool :=
  match l with [] => false | h :: t => tid_eqb x h || tid_mem x t end.
Fixpoint tid_insert (x : tid) (l : list tid) : list tid :=
  match l with
  | [] => [x]
  | h :: t => if tid_eqb x h then l else if tid_ltb x h then x :: l else h :: tid_insert x t
  end.
Fixpoint tid_remove (x : tid) (l : list tid) : list tid :=
  match l with [] => [] | h :: t => if tid_eqb x h then t else h :: tid_remove x t end.
Definition tid_insert_all (xs l : list tid) : list tid := fold_left (fun acc x => tid_insert x acc) xs l.

Fixpoint n_mem (x : N) (l : list N) : bool :=
  match l with [] => false | h :: t => N.eqb x h || n_mem x t end.
Fixpoint nn_mem (x : N * N) (l : list (N * N)) : bool :=
  match l with [] => false | h :: t => (N.eqb (fst x) (fst h) && N.eqb (snd x) (snd h)) || nn_mem x t end.
Definition nn_ltb (a b : N * N) := tid_ltb a b.
Definition nn_insert (x : N * N) (l : list (N * N)) : list (N * N) := tid_insert x l.
Definition nn_remove (x : N * N) (l : list (N * N)) : list (N * N) := tid_remove x l.

(** * Tasks *)
Fixpoint find_task (ts : list task) (id : tid) : option task :=
  match ts with [] => None | h :: t => if tid_eqb id (t_id h) then Some h else find_task t id end.
Fixpoint set_task (ts : list task) (x : task) : list task :=
  match ts with
  | [] => [x]
  | h :: t => if tid_eqb (t_id x) (t_id h) then x :: t
              else if tid_ltb (t_id x) (t_id h) then x :: ts else h :: set_task t x
  end.
Fixpoint del_task (ts : list task) (id : tid) : list task :=
  match ts with [] => [] | h :: t => if tid_eqb id (t_id h) then t else h :: del_task t id end.

Definition with_state (t : task) (s : tstate) : task :=
  mkTask (t_id t) s (t_deps t) (t_consumers t) (t_rq t) (t_prio t) (t_inst t) (t_crash t) (t_climit t) (t_tlim t).
Definition with_inst (t : task) (i : N) : task :=
  mkTask (t_id t) (t_state t) (t_deps t) (t_consumers t) (t_rq t) (t_prio t) i (t_crash t) (t_climit t) (t_tlim t).
Definition with_crash (t : task) (c : N) : task :=
  mkTask (t_id t) (t_state t) (t_deps t) (t_consumers t) (t_rq t) (t_prio t) (t_inst t) c (t_climit t) (t_tlim t).
Definition with_consumers (t : task) (c : list tid) : task :=
  mkTask (t_id t) (t_state t) (t_deps t) c (t_rq t) (t_prio t) (t_inst t) (t_crash t) (t_climit t) (t_tlim t).
Definition with_deps (t : task) (d : list tid) : task :=
  mkTask (t_id t) (t_state t) d (t_consumers t) (t_rq t) (t_prio t) (t_inst t) (t_crash t) (t_climit t) (t_tlim t).

Definition is_waiting (t : task) := match t_state t with Waiting _ => true | _ => false end.
Definition is_ready (t : task) := match t_state t with Waiting 0 => true | _ => false end.
Definition is_finished (t : task) := match t_state t with Finished => true | _ => false end.

(** * Resource vectors (workerload.rs) *)
Fixpoint res_fits (have ask : list N) : bool :=
  match have, ask with
  | _, [] => true
  | [], a :: t => N.eqb a 0 && res_fits [] t
  | h :: ht, a :: t => N.leb a h && res_fits ht t
  end.
(** [WorkerResources::remove]: saturating subtraction. *)
Fixpoint res_sub (have ask : list N) : list N :=
  match have, ask with
  | h :: ht, a :: t => (h - a) :: res_sub ht t
  | _, _ => have
  end.
Fixpoint res_add (have ask : list N) : list N :=
  match have, ask with
  | h :: ht, a :: t => (h + a) :: res_add ht t
  | _, _ => have
  end.
(** [WorkerResources::add] after the repair of the counter drift (finding F23 / F29): what is given
    back never lifts the counter above the worker's total [cap]. *)
Fixpoint res_add_cap (have ask cap : list N) : list N :=
  match have, ask with
  | h :: ht, a :: t =>
      match cap with
      | c :: ct => N.min (h + a) c :: res_add_cap ht t ct
      | [] => (h + a) :: res_add_cap ht t []
      end
  | _, _ => have
  end.
(** Would [res_sub] saturate? (the overbooking the real code hides, C05) *)
Definition res_underflows (have ask : list N) : bool := negb (res_fits have ask).

(** * Server-side workers *)
Fixpoint find_worker (ws : list sworker) (id : wid) : option sworker :=
  match ws with [] => None | h :: t => if N.eqb id (w_id h) then Some h else find_worker t id end.
Fixpoint set_worker (ws : list sworker) (x : sworker) : list sworker :=
  match ws with
  | [] => [x]
  | h :: t => if N.eqb (w_id x) (w_id h) then x :: t
              else if N.ltb (w_id x) (w_id h) then x :: ws else h :: set_worker t x
  end.
Fixpoint del_worker (ws : list sworker) (id : wid) : list sworker :=
  match ws with [] => [] | h :: t => if N.eqb id (w_id h) then t else h :: del_worker t id end.

Definition with_assign (w : sworker) (a : wassign) : sworker :=
  mkSW (w_id w) a (w_res w) (w_blocked w) (w_group w) (w_stopping w).
Definition with_blocked (w : sworker) (b : list (N * N)) : sworker :=
  mkSW (w_id w) (w_assign w) (w_res w) b (w_group w) (w_stopping w).

(** [Worker::is_free] *)
Definition worker_is_free (w : sworker) : bool :=
  match w_assign w with
  | Sn a p _ => match a, p with [], [] => negb (w_stopping w) | _, _ => false end
  | Mn _ _ => false
  end.

Definition insert_sn_task (w : sworker) (t : tid) (rq : list N) : res sworker :=
  match w_assign w with
  | Sn a p f => if tid_mem t a then Panic 101 else Ok (with_assign w (Sn (tid_insert t a) p (res_sub f rq)))
  | Mn _ _ => Panic 102
  end.
Definition insert_prefill_task (w : sworker) (t : tid) : res sworker :=
  match w_assign w with
  | Sn a p f => if tid_mem t p then Panic 103 else Ok (with_assign w (Sn a (tid_insert t p) f))
  | Mn _ _ => Panic 104
  end.
Definition remove_prefill_task (w : sworker) (t : tid) : res sworker :=
  match w_assign w with
  | Sn a p f => if tid_mem t p then Ok (with_assign w (Sn a (tid_remove t p) f)) else Panic 105
  | Mn _ _ => Panic 106
  end.
Definition task_from_prefilled_to_started (w : sworker) (t : tid) (rq : list N) : res sworker :=
  match w_assign w with
  | Sn a p f =>
      if negb (tid_mem t p) then Panic 107
      else if tid_mem t a then Panic 108
      else Ok (with_assign w (Sn (tid_insert t a) (tid_remove t p) (res_sub f rq)))
  | Mn _ _ => Panic 109
  end.
Definition remove_sn_task (w : sworker) (t : tid) (rq : list N) : res sworker :=
  match w_assign w with
  | Sn a p f => if tid_mem t a then Ok (with_assign w (Sn (tid_remove t a) p (res_add_cap f rq (w_res w)))) else Panic 110
  | Mn _ _ => Panic 111
  end.
Definition set_mn_task (w : sworker) (t : tid) (root : bool) : res sworker :=
  if worker_is_free w then Ok (with_assign w (Mn t root)) else Panic 112.
Definition reset_mn_task (w : sworker) : sworker := with_assign w (Sn [] [] (w_res w)).

(** [worker_map.get_worker_mut]: panics on an unknown id (site 120). *)
Definition get_worker (ws : list sworker) (id : wid) : res sworker :=
  match find_worker ws id with Some w => Ok w | None => Panic 120 end.
(** [task_map.get_task(_mut)]: panics on an unknown id (site 121). *)
Definition get_task (ts : list task) (id : tid) : res task :=
  match find_task ts id with Some t => Ok t | None => Panic 121 end.

(** * Task queues (taskqueue.rs) *)
Definition empty_queue : queue := mkQ [] None.

Fixpoint qe_add (es : list qentry) (id : tid) (p : Z) : list qentry :=
  match es with
  | [] => [mkQE p false [id]]
  | e :: t =>
      if Z.eqb (qe_prio e) p then mkQE p true (tid_insert id (qe_ids e)) :: t
      else if Z.ltb (qe_prio e) p then mkQE p false [id] :: es
      else e :: qe_add t id p
  end.
(** [TaskQueue::add] *)
Definition q_add (q : queue) (id : tid) (p : Z) : queue := mkQ (qe_add (q_ready q) id p) (q_prefill q).

Fixpoint qe_add_many (es : list qentry) (ids : list tid) (p : Z) : list qentry :=
  match es with
  | [] => [mkQE p true ids]
  | e :: t =>
      if Z.eqb (qe_prio e) p then mkQE p true (tid_insert_all ids (qe_ids e)) :: t
      else if Z.ltb (qe_prio e) p then mkQE p true ids :: es
      else e :: qe_add_many t ids p
  end.
(** [TaskQueue::add_many] *)
Definition q_add_many (q : queue) (ids : list tid) (p : Z) : queue :=
  match ids with [] => q | _ => mkQ (qe_add_many (q_ready q) ids p) (q_prefill q) end.

(** [TaskQueue::check_dispose_prefill]; returns the queue and the retracted ids. *)
Definition q_check_dispose_prefill (q : queue) (p : Z) : queue * list tid :=
  match q_prefill q with
  | Some (pp, ts) => if Z.ltb pp p then (q_add_many (mkQ (q_ready q) None) ts pp, ts) else (q, [])
  | None => (q, [])
  end.

Fixpoint qe_remove (es : list qentry) (id : tid) (p : Z) : res (list qentry) :=
  match es with
  | [] => Ok []
  | e :: t =>
      if Z.eqb (qe_prio e) p then
        if qe_more e then
          let ids := tid_remove id (qe_ids e) in
          match ids with [] => Ok t | _ => Ok (mkQE p true ids :: t) end
        else
          (* OneOrMoreTaskIds::One(v): assert_eq!( *v, task_id) *)
          if tid_mem id (qe_ids e) then Ok t else Panic 130
      else do t' <- qe_remove t id p; Ok (e :: t')
  end.
(** [TaskQueue::remove] *)
Definition q_remove (q : queue) (id : tid) (p : Z) : res queue :=
  match q_prefill q with
  | Some (pp, ts) =>
      if Z.eqb p pp && tid_mem id ts then Ok (mkQ (q_ready q) (Some (pp, tid_remove id ts)))
      else do r <- qe_remove (q_ready q) id p; Ok (mkQ r (q_prefill q))
  | None => do r <- qe_remove (q_ready q) id p; Ok (mkQ r None)
  end.

(** [TaskQueue::remove_prefilled] *)
Definition q_remove_prefilled (q : queue) (id : tid) : res queue :=
  match q_prefill q with
  | None => Panic 131
  | Some (pp, ts) =>
      if tid_mem id ts then
        match tid_remove id ts with
        | [] => Ok (mkQ (q_ready q) None)
        | ts' => Ok (mkQ (q_ready q) (Some (pp, ts')))
        end
      else Panic 132
  end.

(** [TaskQueue::move_prefilled_task_to_ready] *)
Definition q_move_prefilled_to_ready (q : queue) (id : tid) : res queue :=
  match q_prefill q with
  | None => Panic 133
  | Some (pp, ts) =>
      if tid_mem id ts then
        let pf := match tid_remove id ts with [] => None | ts' => Some (pp, ts') end in
        Ok (q_add (mkQ (q_ready q) pf) id pp)
      else Panic 134
  end.

Definition q_top_priority (q : queue) : option Z :=
  match q_ready q with [] => None | e :: _ => Some (qe_prio e) end.

(** [TaskQueue::top_size_no_prefill] *)
Definition q_top_size_no_prefill (q : queue) : N :=
  match q_ready q with
  | [] => 0
  | e :: _ =>
      match q_prefill q with
      | Some (pp, _) => if Z.eqb pp (qe_prio e) then N.of_nat (length (qe_ids e)) else 0
      | None => N.of_nat (length (qe_ids e))
      end
  end.

Definition q_top_task_ids (q : queue) : list tid :=
  match q_ready q with [] => [] | e :: _ => qe_ids e end.

(** [take_from_entry] on the first entry: takes up to [count] smallest ids. Returns
    (taken, remaining entries, remaining count). An entry [One] is always taken whole. *)
Fixpoint take_n {A} (n : nat) (l : list A) : list A * list A :=
  match n, l with
  | O, _ => ([], l)
  | _, [] => ([], [])
  | S k, h :: t => let '(a, b) := take_n k t in (h :: a, b)
  end.

Definition take_from_first (es : list qentry) (count : N) : res (list tid * list qentry * N) :=
  match es with
  | [] => Panic 135      (* queue.first_entry().unwrap() *)
  | e :: t =>
      if qe_more e then
        let '(a, b) := take_n (N.to_nat count) (qe_ids e) in
        let cnt := (count - N.of_nat (length a))%N in
        match b with
        | [] => Ok (a, t, cnt)
        | _ => Ok (a, mkQE (qe_prio e) true b :: t, cnt)
        end
      else
        (* One(x): `*count -= 1` (u32 underflow panics in debug when count = 0) *)
        if N.eqb count 0 then Panic 136 else Ok (qe_ids e, t, (count - 1)%N)
  end.

(** Repeatedly take from the first entry while [count > 0] (the `while count > 0` loops of
    [take_tasks]); fuel = number of entries + 1. *)
Fixpoint take_loop (fuel : nat) (es : list qentry) (count : N) (acc : list tid) : res (list tid * list qentry) :=
  if N.eqb count 0 then Ok (acc, es)
  else match fuel with
       | O => Panic 137
       | S k =>
           do (a, es', c') <- take_from_first es count;
           take_loop k es' c' (acc ++ a)
       end.

(** [drain_prefill]: takes tasks from the prefill set in its hash-iteration order [order]
    (witness: must enumerate exactly the set). *)
Definition perm_of_set (order ts : list tid) : bool :=
  N.eqb (N.of_nat (length order)) (N.of_nat (length ts))
  && forallb (fun x => tid_mem x ts) order
  && forallb (fun x => tid_mem x order) ts.

Definition drain_prefill (pf : option (Z * list tid)) (order : list tid) (count : N)
  : res (list tid * option (Z * list tid) * N) :=
  match pf with
  | None => Ok ([], None, count)
  | Some (pp, ts) =>
      if negb (perm_of_set order ts) then Disabled
      else
        let '(a, _) := take_n (N.to_nat count) order in
        let rest := fold_left (fun acc x => tid_remove x acc) a ts in
        let c' := (count - N.of_nat (length a))%N in
        match rest with
        | [] => Ok (a, None, c')
        | _ => Ok (a, Some (pp, rest), c')
        end
  end.

(** [TaskQueue::take_tasks] *)
Definition q_take_tasks (q : queue) (count : N) (pf_order : list tid) : res (list tid * queue) :=
  let fuel := S (length (q_ready q)) in
  match q_prefill q with
  | None =>
      do (ids, es) <- take_loop fuel (q_ready q) count [];
      Ok (ids, mkQ es None)
  | Some (pp, _) =>
      if match q_top_priority q with Some tp => Z.eqb tp pp | None => false end then
        do (a, es1, c1) <- (if N.ltb 0 count then take_from_first (q_ready q) count else Ok ([], q_ready q, count));
        do (b, pf, c2) <- drain_prefill (q_prefill q) pf_order c1;
        do (c, es2) <- take_loop fuel es1 c2 [];
        Ok (a ++ b ++ c, mkQ es2 pf)
      else
        do (b, pf, c2) <- drain_prefill (q_prefill q) pf_order count;
        do (c, es2) <- take_loop fuel (q_ready q) c2 [];
        Ok (b ++ c, mkQ es2 pf)
  end.

(** [TaskQueue::take_one] *)
Definition q_take_one (q : queue) : option (tid * queue) :=
  match q_ready q with
  | [] => None
  | e :: t =>
      match qe_ids e with
      | [] => None
      | x :: rest =>
          if qe_more e then
            match rest with
            | [] => Some (x, mkQ t (q_prefill q))
            | _ => Some (x, mkQ (mkQE (qe_prio e) true rest :: t) (q_prefill q))
            end
          else Some (x, mkQ t (q_prefill q))
      end
  end.

(** [TaskQueue::take_tasks_for_prefill] *)
Definition q_take_tasks_for_prefill (q : queue) (count : N) : res (list tid * queue) :=
  match q_ready q with
  | [] => Panic 138
  | e :: _ =>
      do (ids, es, _) <- take_from_first (q_ready q) count;
      match q_prefill q with
      | Some (pp, ts) =>
          if Z.eqb pp (qe_prio e) then Ok (ids, mkQ es (Some (pp, tid_insert_all ids ts))) else Panic 139
      | None => Ok (ids, mkQ es (Some (qe_prio e, tid_insert_all ids [])))
      end
  end.

(** Queues indexed by rq id *)
Fixpoint nth_queue (qs : list queue) (i : nat) : res queue :=
  match qs, i with
  | [], _ => Panic 140            (* index out of bounds *)
  | q :: _, O => Ok q
  | _ :: t, S k => nth_queue t k
  end.
Fixpoint set_queue (qs : list queue) (i : nat) (q : queue) : list queue :=
  match qs, i with
  | [], _ => []
  | _ :: t, O => q :: t
  | h :: t, S k => h :: set_queue t k q
  end.

(** [TaskQueues::add_ready_task]: dispose lower-priority prefill sets of ALL queues, then add. *)
Fixpoint dispose_all (qs : list queue) (p : Z) : list queue * list tid :=
  match qs with
  | [] => ([], [])
  | q :: t =>
      let '(q', r) := q_check_dispose_prefill q p in
      let '(t', r') := dispose_all t p in
      (q' :: t', r ++ r')
  end.
Definition add_ready_task (qs : list queue) (t : task) : res (list queue * list tid) :=
  let '(qs1, retracted) := dispose_all qs (t_prio t) in
  do q <- nth_queue qs1 (N.to_nat (t_rq t));
  Ok (set_queue qs1 (N.to_nat (t_rq t)) (q_add q (t_id t) (t_prio t)), retracted).

(** [TaskQueues::top_priority] (Priority::new(0) when empty, i.e. below every user priority) *)
Definition queues_top_priority (qs : list queue) : option Z :=
  fold_left (fun acc q => match acc, q_top_priority q with
                          | Some a, Some b => Some (Z.max a b)
                          | None, x => x
                          | x, None => x
                          end) qs None.

(** * Redirects *)
Fixpoint find_redirect (rs : list (tid * (wid * N))) (t : tid) : option (wid * N) :=
  match rs with [] => None | (k, v) :: r => if tid_eqb t k then Some v else find_redirect r t end.
Fixpoint del_redirect (rs : list (tid * (wid * N))) (t : tid) : list (tid * (wid * N)) :=
  match rs with [] => [] | (k, v) :: r => if tid_eqb t k then r else (k, v) :: del_redirect r t end.
Fixpoint set_redirect (rs : list (tid * (wid * N))) (t : tid) (v : wid * N) : list (tid * (wid * N)) :=
  match rs with
  | [] => [(t, v)]
  | (k, v0) :: r => if tid_eqb t k then (t, v) :: r else if tid_ltb t k then (t, v) :: rs else (k, v0) :: set_redirect r t v
  end.

(** * Request definitions *)
Definition get_rq (rqs : list rqdef) (rq : N) : res rqdef :=
  match nth_error rqs (N.to_nat rq) with Some r => Ok r | None => Panic 141 end.
Definition rq_is_mn (r : rqdef) : bool := N.ltb 0 (rq_nodes r).

(** * Core updates *)
Definition with_tasks (c : core) (ts : list task) : core :=
  mkCore ts (c_workers c) (c_queues c) (c_redirects c) (c_rqs c) (c_flag c) (c_wcounter c) (c_reserve c) (c_maxfill c).
Definition with_workers (c : core) (ws : list sworker) : core :=
  mkCore (c_tasks c) ws (c_queues c) (c_redirects c) (c_rqs c) (c_flag c) (c_wcounter c) (c_reserve c) (c_maxfill c).
Definition with_queues (c : core) (qs : list queue) : core :=
  mkCore (c_tasks c) (c_workers c) qs (c_redirects c) (c_rqs c) (c_flag c) (c_wcounter c) (c_reserve c) (c_maxfill c).
Definition with_redirects (c : core) (rs : list (tid * (wid * N))) : core :=
  mkCore (c_tasks c) (c_workers c) (c_queues c) rs (c_rqs c) (c_flag c) (c_wcounter c) (c_reserve c) (c_maxfill c).
Definition with_flag (c : core) (f : bool) : core :=
  mkCore (c_tasks c) (c_workers c) (c_queues c) (c_redirects c) (c_rqs c) f (c_wcounter c) (c_reserve c) (c_maxfill c).
Definition with_rqs (c : core) (r : list rqdef) (qs : list queue) : core :=
  mkCore (c_tasks c) (c_workers c) qs (c_redirects c) r (c_flag c) (c_wcounter c) (c_reserve c) (c_maxfill c).
Definition with_wcounter (c : core) (n : N) : core :=
  mkCore (c_tasks c) (c_workers c) (c_queues c) (c_redirects c) (c_rqs c) (c_flag c) n (c_reserve c) (c_maxfill c).

Definition upd_task (c : core) (t : task) : core := with_tasks c (set_task (c_tasks c) t).
Definition upd_worker (c : core) (w : sworker) : core := with_workers c (set_worker (c_workers c) w).

(** Remove consumer [cid] from every still existing dependency of a task (core.rs remove_task). *)
Fixpoint remove_consumer_from (ts : list task) (deps : list tid) (cid : tid) : res (list task) :=
  match deps with
  | [] => Ok ts
  | d :: r =>
      match find_task ts d with
      | Some input =>
          if tid_mem cid (t_consumers input)
          then remove_consumer_from (set_task ts (with_consumers input (tid_remove cid (t_consumers input)))) r cid
          else Panic 150    (* assert!(input.remove_consumer(task_id)) *)
      | None => remove_consumer_from ts r cid
      end
  end.

(** [Core::remove_task] (after the fix: only ready tasks are dequeued). Returns the old state. *)
Definition remove_task (c : core) (id : tid) : res (core * tstate) :=
  match find_task (c_tasks c) id with
  | None => Panic 151    (* expect("Trying to remove non-existent task") *)
  | Some t =>
      let c1 := with_tasks c (del_task (c_tasks c) id) in
      match t_state t with
      | Waiting n =>
          do c2 <- (if N.eqb n 0 then
                      do q <- nth_queue (c_queues c1) (N.to_nat (t_rq t));
                      do q' <- q_remove q id (t_prio t);
                      Ok (with_queues c1 (set_queue (c_queues c1) (N.to_nat (t_rq t)) q'))
                    else Ok c1);
          if N.ltb 0 n then
            do ts <- remove_consumer_from (c_tasks c2) (t_deps t) id;
            Ok (with_tasks c2 ts, t_state t)
          else Ok (c2, t_state t)
      | s => Ok (c1, s)
      end
  end.
