(** C02 "at rest", part 3: a task the core knows is never stop-cancelled on a worker.
    [SCN s]: if the future of task [x] on some worker process carries the stop flag [SCancel], the
    core does not know [x] (any more).  A worker sets that flag only when it processes a CancelTasks
    message, and the protocol invariant says that such a message never names a task the core knows;
    a task that has left the core never comes back. *)
From HQ Require Import Base.Prelude Cluster.Types Cluster.Core Cluster.Reactor Cluster.Worker Cluster.Server Cluster.Sys Cluster.Monitors Cluster.RejHyp Cluster.ProofsFinal Cluster.BijBase Cluster.BijFinal Cluster.InvWBase Cluster.InvDStep Cluster.InvBundle Cluster.InvProcsDef Cluster.NoPanicL0 Cluster.NoPanicU0 Cluster.NoPanicU1 Cluster.NoPanicU2 Cluster.NoPanicU3 Cluster.NoPanicU4 Cluster.NoPanicU20 Cluster.ExecU10 Cluster.ExecU11 Cluster.ExecU13 Cluster.RestU2.
From Coq Require Import ZArith Lia Sorting.Sorted.
Local Open Scope N_scope.

Notation tid_eqb_eq := NoPanicU1.tid_eqb_eq.
Notation tid_eqb_refl := NoPanicU1.tid_eqb_refl.

Definition scan (p : wproc) (x : tid) : Prop := fu_find (p_futures p) x = Some (Some SCancel).
Definition SCN (s : sys) : Prop := forall p x, In p (s_procs s) -> scan p x -> find_task (c_tasks (s_core s)) x = None.

(** * Futures *)
Lemma fu_find_set l t v x : fu_find (fu_set l t v) x = if tid_eqb x t then Some v else fu_find l x.
Proof.
  induction l as [|[k v0] r IH]; cbn [fu_set fu_find]; [destruct (tid_eqb x t); reflexivity|].
  destruct (tid_eqb t k) eqn:E1.
  - apply tid_eqb_eq in E1. subst k. cbn [fu_find]. destruct (tid_eqb x t); reflexivity.
  - destruct (tid_ltb t k); cbn [fu_find].
    + destruct (tid_eqb x t); reflexivity.
    + rewrite IH. destruct (tid_eqb x k) eqn:E2; [|reflexivity]. apply tid_eqb_eq in E2. subst k.
      destruct (tid_eqb x t) eqn:E3; [apply tid_eqb_eq in E3; subst; rewrite tid_eqb_refl in E1; discriminate | reflexivity].
Qed.

Lemma fu_find_del (l : list (tid * option stopkind)) t x v : fu_find (run_del l t) x = Some v -> exists v0, fu_find l x = Some v0.
Proof.
  induction l as [|[k v0] r IH]; cbn [run_del fu_find]; [discriminate|].
  destruct (tid_eqb t k); [intros H; destruct (tid_eqb x k); eauto|]. cbn [fu_find]. destruct (tid_eqb x k); [eauto | exact IH].
Qed.

(** the loops of a worker only create futures without a stop flag *)
Lemma try_start_scan q t rv pre alloc q1 u l st x : try_start_task q t rv pre alloc = (q1, u, l, st) -> scan q1 x -> scan q x.
Proof.
  unfold try_start_task, scan. destruct (tid_mem (wt_id t) (p_failnext q)); intros H; inversion H; subst; cbn [p_futures wp_failnext wp_upd]; [auto|].
  rewrite fu_find_set. destruct (tid_eqb x (wt_id t)); [discriminate | auto].
Qed.
Lemma prefill_loop_scan fuel x : forall q rq rv alloc ups ls q' ups' ls' used,
  prefill_loop fuel q rq rv alloc ups ls = (q', ups', ls', used) -> scan q' x -> scan q x.
Proof.
  induction fuel as [|k IH]; intros q rq rv alloc ups ls q' ups' ls' used H; cbn [prefill_loop] in H; [inversion H; subst; auto|].
  destruct (pop_last (bl_get (p_backlog q) rq)) as [[t rest]|]; [|inversion H; subst; auto].
  destruct (bl_has (p_backlog q) rq); [|inversion H; subst; auto].
  destruct (try_start_task (wp_backlog q (bl_set (p_backlog q) rq rest)) t rv true alloc) as [[[q1 u] l] started] eqn:Et.
  pose proof (try_start_scan _ _ _ _ _ _ _ _ _ x Et) as H1.
  destruct started; [inversion H; subst; exact H1 | intros Hs; apply H1; eapply IH; eassumption].
Qed.
Lemma compute_loop_scan ts x : forall q ups ls q' ups' ls', compute_loop q ts ups ls = Ok (q', ups', ls') -> scan q' x -> scan q x.
Proof.
  induction ts as [|ct r IH]; intros q ups ls q' ups' ls' H; cbn [compute_loop] in H; [inversion H; subst; auto|].
  destruct (ct_rv ct) as [rv|].
  - apply bind_ok in H. destruct H as (rq & _ & H). destruct (negb (N.eqb rv 0)); [discriminate|].
    destruct (res_fits (p_free q) (rq_res rq)).
    + match type of H with context [try_start_task ?p0 ?t rv false ?a] => destruct (try_start_task p0 t rv false a) as [[[q1 u] l] started] eqn:Et end.
      pose proof (try_start_scan _ _ _ _ _ _ _ _ _ x Et) as H1.
      destruct started; [intros Hs; apply H1; eapply IH; eassumption|].
      match type of H with context [prefill_loop ?f q1 ?a ?b ?c ?d ?e] => destruct (prefill_loop f q1 a b c d e) as [[[q2 u2] l2] usd] eqn:Ep end.
      intros Hs. apply H1. eapply prefill_loop_scan; [exact Ep|]. eapply IH; eassumption.
    + intros Hs. exact (IH _ _ _ _ _ _ H Hs).
  - intros Hs. exact (IH _ _ _ _ _ _ H Hs).
Qed.

Lemma cancel_fold_scan ids x : forall q, scan (fold_left cancel_task ids q) x -> scan q x \/ In x ids.
Proof.
  induction ids as [|i r IH]; intros q Hs; [left; exact Hs|]. cbn [fold_left] in Hs. destruct (IH _ Hs) as [A|A]; [|right; right; exact A].
  unfold cancel_task, scan in A. destruct (run_find (p_running q) i).
  - destruct (fu_find (p_futures q) i) as [[k|]|] eqn:Ef; try (left; exact A). cbn [p_futures wp_futures wp_upd] in A. rewrite fu_find_set in A.
    destruct (tid_eqb x i) eqn:E; [apply tid_eqb_eq in E; subst; right; left; reflexivity | left; exact A].
  - left. exact A.
Qed.

Lemma pwm_scan p m order p' ls x : process_worker_message p m order = Ok (p', ls) -> scan p' x ->
  scan p x \/ exists ids, m = DCancel ids /\ In x ids.
Proof.
  intros H Hs. destruct m as [ts|ids|ids|w0|w0|rq def|]; cbn [process_worker_message] in H.
  - apply bind_ok in H. destruct H as ([[p1 ups] ls1] & H1 & H). left. eapply compute_loop_scan; [exact H1|].
    destruct ups; inversion H; subst; exact Hs.
  - destruct (negb _); [discriminate|]. destruct (retract_from _ _ _ _) as [b out]. left. destruct ids; inversion H; subst; exact Hs.
  - inversion H; subst. destruct (cancel_fold_scan _ _ _ Hs) as [A|A]; [left; exact A | right; eauto].
  - inversion H; subst. left. exact Hs.
  - inversion H; subst. left. exact Hs.
  - destruct (N.eqb _ _); [|discriminate]. inversion H; subst. left. exact Hs.
  - inversion H; subst. left. exact Hs.
Qed.

Lemma fu_find_run_del (l : list (tid * option stopkind)) t x : StronglySorted tlt (map fst l) ->
  fu_find (run_del l t) x = if tid_eqb x t then None else fu_find l x.
Proof.
  intros Hs. destruct (tid_eqb x t) eqn:E.
  - apply tid_eqb_eq in E. subst x. apply fu_find_none. rewrite run_del_keys. apply kdel_not_in. exact Hs.
  - clear Hs. induction l as [|[k v] r IH]; cbn [run_del fu_find]; [reflexivity|].
    destruct (tid_eqb t k) eqn:E1.
    + apply tid_eqb_eq in E1. subst k. rewrite E. reflexivity.
    + cbn [fu_find]. destruct (tid_eqb x k); [reflexivity | exact IH].
Qed.

Lemma task_end_scan p t how p' ls x : StronglySorted tlt (map fst (p_futures p)) -> task_end p t how = Ok (p', ls) -> scan p' x -> scan p x.
Proof.
  intros Hsf H Hs. unfold task_end in H. destruct (fu_find (p_futures p) t) as [stop|]; [|discriminate].
  destruct (run_find (p_running p) t) as [rv|]; [|discriminate]. destruct (al_find (p_alloc p) t) as [[|rq alloc]|]; try discriminate.
  match type of H with context [prefill_loop ?f ?q0 ?a ?b ?c ?u0 []] => destruct (prefill_loop f q0 a b c u0 []) as [[[p1 ups1] ls1] usd] eqn:Ep end.
  match type of H with (let '(_, _) := ?e in _) = _ => destruct e as [p2 ups2] eqn:E2 end.
  assert (E : p_futures p2 = p_futures p1) by (destruct (negb usd); inversion E2; subst; reflexivity).
  assert (Hs1 : scan p1 x) by (unfold scan in *; rewrite <- E; destruct ups2; inversion H; subst; exact Hs).
  pose proof (prefill_loop_scan _ x _ _ _ _ _ _ _ _ _ _ Ep Hs1) as Hs0. unfold scan in Hs0. cbn [p_futures wp_upd] in Hs0.
  rewrite (fu_find_run_del _ _ _ Hsf) in Hs0. destruct (tid_eqb x t); [discriminate | exact Hs0].
Qed.

Lemma timer_fold_scan ts x : forall q, scan (fold_left timer_fire ts q) x -> scan q x.
Proof.
  induction ts as [|t r IH]; intros q Hs; [exact Hs|]. cbn [fold_left] in Hs. specialize (IH _ Hs). unfold timer_fire, scan in IH.
  cbn [p_futures wp_timers wp_upd] in IH. destruct (fu_find (p_futures q) t) as [[k|]|] eqn:Ef; try exact IH.
  cbn [p_futures wp_futures wp_upd] in IH. rewrite fu_find_set in IH. destruct (tid_eqb x t); [discriminate | exact IH].
Qed.

(** * The invariant *)
Lemma scan_seen s p x : PROTO s -> In p (s_procs s) -> scan p x -> seen (s_hq s) x = true.
Proof.
  intros HP Hp Hs. pose proof (pr_sorted _ HP) as Hps. pose proof (in_find_proc _ _ Hps Hp) as Hf.
  apply (pr_seen _ HP _ p x Hf). unfold proc_tids. apply in_app_iff. right. apply in_app_iff. right. apply in_app_iff. right.
  rewrite <- (lok_fut _ (proj1 (local_ok_LOK _) (pr_local _ HP _ _ Hf))). eapply fu_find_some_in. exact Hs.
Qed.

Lemma no_can_present s w p x t : PROTO s -> find_proc (s_procs s) w = Some p -> find_task (c_tasks (s_core s)) x = Some t ->
  forall ids rest, p_down p = DCancel ids :: rest -> ~ In x ids.
Proof.
  intros HP Hp Hf ids rest Ed Hin. pose proof (pr_words _ HP w p x t Hp Hf) as Hl. rewrite Ed in Hl.
  change (DCancel ids :: rest) with ([DCancel ids] ++ rest) in Hl. rewrite ditems_app in Hl. cbn [ditems flat_map ditems_msg] in Hl. rewrite app_nil_r in Hl.
  destruct (dcan_in x ids Hin) as (more & Em). unfold dcan in Em. rewrite Em in Hl. cbn [app] in Hl. exact (LW_can _ _ _ _ Hl).
Qed.

Theorem step_SCN s o s' outs : INV s -> INV s' -> PROTO s -> PROTO s' -> SCN s -> step s o = Ok (s', outs) -> SCN s'.
Proof.
  intros HI HI' HP HP' HS H. pose proof (pr_sorted _ HP) as Hps. pose proof (pr_sorted _ HP') as Hps'.
  assert (Hsrv : match o with OpConnect _ _ | OpDDown _ _ | OpEnd _ _ _ | OpFailNext _ _ | OpTimer => False | _ => True end -> SCN s').
  { intros Ho p' x Hp' Hsc. destruct (find_task (c_tasks (s_core s')) x) as [t'|] eqn:Ef; [|reflexivity]. exfalso.
    destruct (step_body s o s' outs Ho HI HP H _ p' (in_find_proc _ _ Hps' Hp')) as (p & Hp & Efu & _).
    destruct (NoPanicL0.find_proc_some _ _ _ Hp) as [Hin _].
    assert (Hsc0 : scan p x) by (unfold scan in *; rewrite <- Efu; exact Hsc).
    pose proof (HS p x Hin Hsc0) as Hn.
    pose proof (new_unseen s s' outs x t' HI HI' (G_step _ _ _ _ (inv_fresh _ HI) H) Hn Ef) as Hu.
    rewrite (scan_seen s p x HP Hin Hsc0) in Hu. discriminate. }
  assert (Hset : forall w p p', find_proc (s_procs s) w = Some p -> s' = with_procs s (set_proc (s_procs s) p') ->
            (forall x, scan p' x -> scan p x \/ find_task (c_tasks (s_core s)) x = None) -> SCN s').
  { intros w p p' Hp -> Hsc q x Hq Hs. cbn [s_procs with_procs s_core] in *. destruct (in_set_proc _ _ _ Hq) as [->|Hq'].
    - destruct (Hsc x Hs) as [A|A]; [exact (HS p x (proj1 (NoPanicL0.find_proc_some _ _ _ Hp)) A) | exact A].
    - exact (HS q x Hq' Hs). }
  destruct o; try (apply Hsrv; exact I); clear Hsrv.
  - (* connect *) cbn [step] in H. unfold on_new_worker in H. cbv zeta in H. inversion H; subst s' outs. clear H.
    intros q x Hq Hs. cbn [fst snd emit ask_scheduling st_core with_core with_procs broadcast core_of s_core s_procs s_hq] in Hq |- *.
    destruct (in_set_proc _ _ _ Hq) as [->|Hq']; [cbn in Hs; discriminate|].
    apply in_map_iff in Hq'. destruct Hq' as (q0 & <- & Hin). exact (HS q0 x Hin Hs).
  - (* ddown *) cbn [step] in H. destruct (find_proc (s_procs s) w) as [p|] eqn:Hp; [|discriminate].
    destruct (p_down p) as [|m rest] eqn:Ed; [discriminate|]. apply bind_ok in H. destruct H as ([p' ls] & Hm & H). inversion H; subst s' outs. clear H.
    apply (Hset w p p' Hp eq_refl). intros x Hs. destruct (pwm_scan _ _ _ _ _ x Hm Hs) as [A|(ids & -> & Hin)]; [left; exact A|]. right.
    destruct (find_task (c_tasks (s_core s)) x) as [t|] eqn:Ef; [|reflexivity]. exfalso. exact (no_can_present s w p x t HP Hp Ef ids rest Ed Hin).
  - (* end *) cbn [step] in H. destruct (find_proc (s_procs s) w) as [p|] eqn:Hp; [|discriminate].
    apply bind_ok in H. destruct H as ([p' ls] & Hm & H). inversion H; subst s' outs. clear H.
    apply (Hset w p p' Hp eq_refl). intros x Hs. left. eapply task_end_scan; [|exact Hm | exact Hs].
    pose proof (proj1 (local_ok_LOK _) (pr_local _ HP _ _ Hp)) as HL. rewrite (lok_fut _ HL). exact (lok_sorted _ HL).
  - (* failnext *) cbn [step] in H. destruct (find_proc (s_procs s) w) as [p|] eqn:Hp; [|discriminate]. inversion H; subst s' outs.
    apply (Hset w p _ Hp eq_refl). intros x Hs. left. exact Hs.
  - (* timer *) cbn [step] in H. inversion H; subst s' outs. intros q x Hq Hs. cbn [s_procs with_procs s_core] in *.
    apply in_map_iff in Hq. destruct Hq as (q0 & <- & Hin). exact (HS q0 x Hin (timer_fold_scan _ _ _ Hs)).
Qed.

Theorem reachable_SCN ops : forall reserve maxfill s outs,
  Forall op_wf ops -> ops_ok (init_sys reserve maxfill) ops = true -> run (init_sys reserve maxfill) ops = Ok (s, outs) -> SCN s.
Proof.
  induction ops as [|o pre IH] using rev_ind; intros reserve maxfill s outs Hwf Hok H.
  - cbn in H. inversion H; subst. intros p x [].
  - pose proof (proj1 (reachable_PROTO _ _ _ _ _ Hwf Hok H)) as HP'. pose proof (reachable_INV_ops _ _ _ _ _ Hwf Hok H) as HI'.
    apply Forall_app in Hwf. destruct Hwf as [Hwf1 Hwf2]. destruct (ops_ok_snoc _ _ _ Hok) as [Hok1 _].
    destruct (run_app _ _ _ _ _ H) as (s1 & o1 & o2 & H1 & H2 & ->). cbn [run] in H2. apply bind_ok in H2. destruct H2 as ([s2 o3] & Hs & H2). cbn in H2. inversion H2; subst s2 o2. clear H2.
    eapply step_SCN; [exact (reachable_INV_ops _ _ _ _ _ Hwf1 Hok1 H1) | exact HI' | exact (proj1 (reachable_PROTO _ _ _ _ _ Hwf1 Hok1 H1)) | exact HP' | exact (IH _ _ _ _ Hwf1 Hok1 H1) | exact Hs].
Qed.
