(** C14 / C03, "tasks are aborted only with a cause", part 6: the item list, and the monitor's
    dependency entries versus the dependency lists the core keeps.

    Items.  [items_of_stepK known o outs] builds the items of one operation as the driver
    (ocaml/cluster/driver.ml) does: an event gives [IEv], a launch [ILaunch], the response
    [RSubmitOk j _ ids] gives [ISubmitted j tasks] where, for a task-graph submit, [tasks] are the
    (id, raw dependencies) of the graph of the operation and, for an array submit, the ids of the
    response that are NOT yet [known j] (the driver remembers per job the ids of the last response),
    without dependencies.  [run_items'] threads that table through the history exactly like the
    driver.

    [KD s D]: every task of the core of [s] has an entry in the monitor's accumulator [D] - the one
    [find] returns - and that entry lists every dependency the core keeps for the task.  Preserved
    by an accepted graph submit ([KD_accept_graph]), an accepted array submit
    ([KD_accept_array]) and by every step that answers no submit and keeps the dependency lists. *)
From HQ Require Import Base.Prelude Cluster.Types Cluster.Core Cluster.Reactor Cluster.Worker Cluster.Server Cluster.Sys Cluster.Monitors Cluster.ProofsJob Cluster.ProofsMore Cluster.ProofsTerminal Cluster.ProofsStep Cluster.ProofsFinal Cluster.BijBase Cluster.BijCore Cluster.BijHq Cluster.BijSt Cluster.BijReact Cluster.BijFinal Cluster.ProofsOnce Cluster.InvDBase Cluster.InvDSpec Cluster.InvDRem Cluster.InvDNew Cluster.InvDStep Cluster.DepOrderBase Cluster.DepOrderReact Cluster.DepOrderSubmit Cluster.DepOrderJournal Cluster.AbortCauseBase Cluster.AbortCauseJob Cluster.AbortCauseSubmit.
From Coq Require Import ZArith Lia FinFun.
Local Open Scope N_scope.

Arguments N.add : simpl never.
Arguments N.sub : simpl never.

(** * Items *)
Definition sub_tasksK (known : N -> list N) (o : op) (j : N) (ids : list N) : list (N * list N) :=
  match o with
  | OpSubmitG _ _ ts _ => map (fun g => (gt_id g, gt_deps g)) ts
  | _ => map (fun i => (i, [])) (filter (fun i => negb (n_mem i (known j))) ids)
  end.
Definition item_of_outK (known : N -> list N) (o : op) (x : out) : list item :=
  match x with
  | OEv e => [IEv e]
  | OLaunch l => [ILaunch l]
  | OResp (RSubmitOk j _ ids) => [ISubmitted j (sub_tasksK known o j ids)]
  | _ => []
  end.
Definition items_of_stepK (known : N -> list N) (o : op) (outs : list out) : list item := flat_map (item_of_outK known o) outs.

(** The driver's table: job -> ids of the last accepted submit's response. *)
Definition kn_get (kn : list (N * list N)) (j : N) : list N :=
  match find (fun e => N.eqb (fst e) j) kn with Some e => snd e | None => [] end.
Definition kn_upd1 (kn : list (N * list N)) (x : out) : list (N * list N) :=
  match x with OResp (RSubmitOk j _ ids) => (j, ids) :: kn | _ => kn end.
Definition kn_upd (kn : list (N * list N)) (outs : list out) : list (N * list N) := fold_left kn_upd1 outs kn.

Fixpoint run_items' (kn : list (N * list N)) (s : sys) (ops : list op) : res (sys * list item) :=
  match ops with
  | [] => Ok (s, [])
  | o :: r =>
      do (s1, o1) <- step s o;
      do (s2, i2) <- run_items' (kn_upd kn o1) s1 r;
      Ok (s2, items_of_stepK (kn_get kn) o o1 ++ i2)
  end.

Lemma item_single kn o x : item_of_outK kn o x = [] \/ exists i, item_of_outK kn o x = [i].
Proof. destruct x as [e|l|r| | | |]; cbn [item_of_outK]; eauto. destruct r; eauto. Qed.

Lemma item_ev kn o x e : item_of_outK kn o x = [IEv e] -> x = OEv e.
Proof. destruct x as [e0|l|r| | | |]; cbn [item_of_outK]; try discriminate; [intros H; inversion H; reflexivity|]. destruct r; discriminate. Qed.

Lemma items_app kn o a b : items_of_stepK kn o (a ++ b) = items_of_stepK kn o a ++ items_of_stepK kn o b.
Proof. unfold items_of_stepK. apply flat_map_app. Qed.

Lemma items_NS kn o outs : NS outs -> forall D, jdeps D (items_of_stepK kn o outs) = D.
Proof.
  induction outs as [|x r IH]; intros Hn D; [reflexivity|].
  unfold NS in Hn. cbn [forallb] in Hn. apply andb_true_iff in Hn. destruct Hn as [H1 H2].
  unfold items_of_stepK. cbn [flat_map]. fold (items_of_stepK kn o r).
  destruct x as [e|l|rs| | | |]; cbn [item_of_outK app jdeps]; try (apply IH; exact H2).
  destruct rs; cbn [app jdeps]; try (apply IH; exact H2). discriminate.
Qed.

Lemma infailed_items kn o k outs : infailed k (items_of_stepK kn o outs) = onfailed k outs.
Proof.
  induction outs as [|x r IH]; [reflexivity|].
  unfold items_of_stepK. cbn [flat_map]. fold (items_of_stepK kn o r). rewrite infailed_app, IH. cbn [onfailed].
  destruct x as [e|l|rs| | | |]; cbn [item_of_outK infailed ifailed1 ofailed1]; try lia.
  destruct rs; cbn [infailed ifailed1]; lia.
Qed.

Lemma NS_app_l a b : NS (a ++ b) -> NS a.
Proof. unfold NS. rewrite forallb_app. intros H. apply andb_true_iff in H. apply H. Qed.

(** * Lookups in the monitor's accumulator *)
Lemma dfind_app_notin (N0 D : list (tid * list tid)) x :
  (forall e, In e N0 -> fst e <> x) -> dfind (N0 ++ D) x = dfind D x.
Proof.
  intros H. unfold dfind. induction N0 as [|[k ds] r IH]; [reflexivity|].
  cbn [app find fst]. destruct (tid_eqb k x) eqn:E.
  - apply tid_eqb_eq in E. exfalso. apply (H (k, ds)); [left; reflexivity | exact E].
  - apply IH. intros e He. apply H. right; exact He.
Qed.

Lemma dfind_app_in (N0 D : list (tid * list tid)) x ds :
  NoDup (map fst N0) -> In (x, ds) N0 -> dfind (N0 ++ D) x = Some ds.
Proof.
  unfold dfind. induction N0 as [|[k ds0] r IH]; intros Nd Hin; [destruct Hin|].
  cbn [map fst] in Nd. inversion Nd as [|? ? Hn Nd']; subst.
  cbn [app find fst]. destruct Hin as [Hin|Hin].
  - inversion Hin; subst. rewrite tid_eqb_refl'. reflexivity.
  - destruct (tid_eqb k x) eqn:E.
    + apply tid_eqb_eq in E. subst k. exfalso. apply Hn. apply in_map_iff. exists (x, ds). split; [reflexivity | exact Hin].
    + apply IH; assumption.
Qed.

Lemma dfind_app_key (N0 D : list (tid * list tid)) x :
  In x (map fst N0) -> exists ds, dfind (N0 ++ D) x = Some ds /\ exists e, In e N0 /\ snd e = ds.
Proof.
  unfold dfind. induction N0 as [|[k ds0] r IH]; intros Hin; [destruct Hin|].
  cbn [app find fst]. destruct (tid_eqb k x) eqn:E.
  - exists ds0. split; [reflexivity|]. exists (k, ds0). split; [left; reflexivity | reflexivity].
  - cbn [map fst In] in Hin. destruct Hin as [Hin|Hin]; [subst k; rewrite tid_eqb_refl' in E; discriminate|].
    destruct (IH Hin) as (ds & A & e & B & C). exists ds. split; [exact A|]. exists e. split; [right; exact B | exact C].
Qed.

Lemma dedup_sorted_sub l : forall acc j x, In x (dedup_sorted l acc j) -> (exists d0, x = (j, d0) /\ In d0 l) \/ In x acc.
Proof.
  induction l as [|h t IH]; cbn [dedup_sorted]; intros acc j x H; [right; exact H|].
  destruct (IH _ _ _ H) as [(d0 & E & Hd)|Hacc]; [left; exists d0; split; [exact E | right; exact Hd]|].
  destruct (tid_insert_sub _ _ _ Hacc) as [->|Hin]; [left; exists h; split; [reflexivity | left; reflexivity] | right; exact Hin].
Qed.

(** * Kept dependencies are raw dependencies *)
Definition KD (s : sys) (D : list (tid * list tid)) : Prop :=
  forall x tx, fm (s_core s) x = Some tx -> exists ds, dfind D x = Some ds /\ incl (t_deps tx) ds.

Lemma KD_dsub s s' D : dsub (fm (s_core s)) (fm (s_core s')) -> KD s D -> KD s' D.
Proof. intros S H x tx' Ex. destruct (S _ _ Ex) as (tx & Et & Ed). rewrite Ed. exact (H _ _ Et). Qed.

(** A task of the core before an accepted submit is none of the attached ids. *)
Lemma old_not_attached s jid ids tasks s' outs j j' ev n x tx i :
  fresh (s, []) -> CB (s, []) -> ACC s jid ids tasks s' outs j j' ev n ->
  fm (s_core s) x = Some tx -> x = (jid, i) -> ~ In i ids.
Proof.
  intros F HC A Ex -> Hin.
  pose proof (core_task_active (s, []) _ _ HC Ex) as (l & Hl & Ha). cbn [fst snd] in Hl, Ha.
  unfold jt, hq_of in Hl. cbn [fst] in Hl.
  destruct (find_job (h_jobs (s_hq s)) jid) as [jb|] eqn:Ef; [|discriminate]. cbn [option_map] in Hl. inversion Hl; subst l.
  destruct (ac_src _ _ _ _ _ _ _ _ _ _ A) as [Hs|(Hc & _)].
  - rewrite Ef in Hs. inversion Hs; subst jb.
    pose proof (attach_ids_fresh _ _ _ (ac_attach _ _ _ _ _ _ _ _ _ _ A) _ Hin) as Hn. rewrite Hn in Ha. destruct Ha; discriminate.
  - pose proof (F _ (find_job_in _ _ _ Ef)) as Hlt. rewrite (find_job_id _ _ _ Ef) in Hlt. unfold cnt_of, hq_of in Hlt. cbn [fst] in Hlt. lia.
Qed.

Lemma KD_accept_graph kn s jid jobsel rqs ts mf tasks s' outs D :
  fresh (s, []) -> CB (s, []) -> ACCEPT s jid (map gt_id ts) tasks s' outs ->
  (forall t, In t tasks -> exists g, In g ts /\ t_id t = (jid, gt_id g) /\ t_deps t = dedup_sorted (gt_deps g) [] jid) ->
  KD s D -> KD s' (jdeps D (items_of_stepK kn (OpSubmitG jobsel rqs ts mf) outs)).
Proof.
  intros F HC (j & j' & ev & n & A) Htasks HD.
  rewrite (ac_outs _ _ _ _ _ _ _ _ _ _ A). unfold items_of_stepK. cbn [flat_map item_of_outK sub_tasksK app jdeps].
  set (N0 := sub_edges jid (map (fun g => (gt_id g, gt_deps g)) ts)).
  destruct (attach_ids_facts _ _ _ (ac_attach _ _ _ _ _ _ _ _ _ _ A)) as (Nd & _).
  assert (Hkeys : map fst N0 = map (fun g => (jid, gt_id g)) ts).
  { unfold N0, sub_edges. rewrite !map_map. reflexivity. }
  assert (NdN : NoDup (map fst N0)).
  { rewrite Hkeys. rewrite <- (map_map gt_id (fun i => (jid, i))). apply Injective_map_NoDup; [|exact Nd].
    intros a b E. inversion E; reflexivity. }
  intros x tx' Ex. destruct (ac_grown _ _ _ _ _ _ _ _ _ _ A _ _ Ex) as [(tx & Et & Ed)|(t & Hin & -> & Hincl & _)].
  - destruct (HD _ _ Et) as (ds & Hf & Hi). exists ds. split; [|rewrite Ed; exact Hi].
    rewrite dfind_app_notin; [exact Hf|]. intros e He Hk.
    assert (Hx : In x (map fst N0)) by (rewrite <- Hk; apply in_map; exact He).
    rewrite Hkeys in Hx. apply in_map_iff in Hx. destruct Hx as (g & Eg & Hg).
    apply (old_not_attached _ _ _ _ _ _ _ _ _ _ _ _ (gt_id g) F HC A Et (eq_sym Eg)). apply in_map. exact Hg.
  - destruct (Htasks _ Hin) as (g & Hg & Eid & Edeps). rewrite Eid.
    exists (map (fun d => (jid, d)) (gt_deps g)). split.
    + apply dfind_app_in; [exact NdN|]. unfold N0, sub_edges. apply in_map_iff. exists (gt_id g, gt_deps g). split; [reflexivity|].
      apply in_map_iff. exists g. split; [reflexivity | exact Hg].
    + intros d Hd. apply Hincl in Hd. rewrite Edeps in Hd.
      destruct (dedup_sorted_sub _ _ _ _ Hd) as [(d0 & -> & Hd0)|[]]. apply in_map. exact Hd0.
Qed.

Lemma KD_accept_array kn s o jid ids tasks s' outs D :
  (match o with OpSubmitG _ _ _ _ => False | _ => True end) ->
  fresh (s, []) -> CB (s, []) -> ACCEPT s jid ids tasks s' outs -> (forall t, In t tasks -> t_deps t = []) ->
  (forall j j' ev n, ACC s jid ids tasks s' outs j j' ev n -> forall i, n_mem i (kn jid) = true <-> jt_find (j_tasks j) i <> None) ->
  KD s D -> KD s' (jdeps D (items_of_stepK kn o outs)).
Proof.
  intros Ho F HC (j & j' & ev & n & A) Htasks Hkn HD. specialize (Hkn _ _ _ _ A).
  rewrite (ac_outs _ _ _ _ _ _ _ _ _ _ A). unfold items_of_stepK. cbn [flat_map item_of_outK app jdeps].
  set (fresh_ids := filter (fun i => negb (n_mem i (kn jid))) (map fst (j_tasks j'))).
  assert (Est : sub_tasksK kn o jid (map fst (j_tasks j')) = map (fun i => (i, [])) fresh_ids) by (destruct o; try reflexivity; destruct Ho).
  rewrite Est. clear Est.
  set (N0 := sub_edges jid (map (fun i : N => (i, @nil N)) fresh_ids)).
  destruct (attach_ids_facts _ _ _ (ac_attach _ _ _ _ _ _ _ _ _ _ A)) as (_ & _ & _ & _ & Dm).
  pose proof (attach_ids_fresh _ _ _ (ac_attach _ _ _ _ _ _ _ _ _ _ A)) as Hfr.
  assert (Hfresh : forall i, In i fresh_ids <-> In i ids).
  { intros i. unfold fresh_ids. rewrite filter_In, <- jt_find_dom, Dm. split.
    - intros [[Hi|Hi] Hm]; [exact Hi|]. apply negb_true_iff in Hm. apply Hkn in Hi. congruence.
    - intros Hi. split; [left; exact Hi|]. apply negb_true_iff. destruct (n_mem i (kn jid)) eqn:E; [|reflexivity].
      apply Hkn in E. rewrite (Hfr _ Hi) in E. exfalso. apply E. reflexivity. }
  assert (Hkeys : forall x, In x (map fst N0) <-> exists i, x = (jid, i) /\ In i ids).
  { intros x. unfold N0, sub_edges. rewrite !map_map. cbn [fst]. rewrite in_map_iff. split.
    - intros (i & <- & Hi). exists i. split; [reflexivity | apply Hfresh; exact Hi].
    - intros (i & -> & Hi). exists i. split; [reflexivity | apply Hfresh; exact Hi]. }
  assert (Hnil : forall e, In e N0 -> snd e = []).
  { intros e He. unfold N0, sub_edges in He. rewrite map_map in He. apply in_map_iff in He. destruct He as (i & <- & _). reflexivity. }
  intros x tx' Ex. destruct (ac_grown _ _ _ _ _ _ _ _ _ _ A _ _ Ex) as [(tx & Et & Ed)|(t & Hin & -> & Hincl & _)].
  - destruct (HD _ _ Et) as (ds & Hf & Hi). exists ds. split; [|rewrite Ed; exact Hi].
    rewrite dfind_app_notin; [exact Hf|]. intros e He Hk.
    assert (Hx : In x (map fst N0)) by (rewrite <- Hk; apply in_map; exact He).
    apply Hkeys in Hx. destruct Hx as (i & Ei & Hi2).
    exact (old_not_attached _ _ _ _ _ _ _ _ _ _ _ _ i F HC A Et Ei Hi2).
  - assert (Hk : In (t_id t) (map fst N0)).
    { apply Hkeys. assert (Hm : In (t_id t) (map t_id tasks)) by (apply in_map; exact Hin).
      rewrite (ac_ids _ _ _ _ _ _ _ _ _ _ A) in Hm. apply in_map_iff in Hm. destruct Hm as (i & Ei & Hi). exists i. split; [symmetry; exact Ei | exact Hi]. }
    destruct (dfind_app_key N0 D _ Hk) as (ds & Hf & _). exists ds. split; [exact Hf|].
    intros d Hd. apply Hincl in Hd. rewrite (Htasks _ Hin) in Hd. destruct Hd.
Qed.

Print Assumptions KD_accept_graph.
Print Assumptions KD_accept_array.
