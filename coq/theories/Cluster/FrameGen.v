(** Generic frame lemmas: any projection [P] of a task that the state / instance setters do not
    touch is left unchanged, task by task, by everything in the core that only moves tasks between
    states, queues and workers (same proofs as [BijCore], where [P] = consumers).
    Instantiated for the crash counter and crash limit (C07). *)
From HQ Require Import Base.Prelude Cluster.Types Cluster.Core Cluster.Reactor Cluster.Worker Cluster.Server Cluster.Sys Cluster.ProofsJob Cluster.ProofsMore Cluster.ProofsTerminal Cluster.ProofsStep Cluster.BijBase Cluster.BijCore Cluster.BijHq Cluster.BijSt.
From Coq Require Import ZArith Lia Sorting.Sorted.
Local Open Scope N_scope.

Arguments N.add : simpl never.
Arguments N.sub : simpl never.

Definition TS (c : core) : Prop := StronglySorted tlt (map t_id (c_tasks c)).

Section Proj.
Variable A : Type.
Variable P : task -> A.
Hypothesis P_state : forall t s, P (with_state t s) = P t.
Hypothesis P_inst : forall t i, P (with_inst t i) = P t.

Definition pkey (t : task) : tid * A := (t_id t, P t).
Definition pkeys (c : core) : list (tid * A) := map pkey (c_tasks c).

Lemma map_fst_pkeys ts : map fst (map pkey ts) = map t_id ts.
Proof. rewrite map_map. reflexivity. Qed.

Lemma PS_keys c c' : pkeys c' = pkeys c -> TS c -> TS c'.
Proof. unfold TS, pkeys. intros E. rewrite <- (map_fst_pkeys (c_tasks c')), E, map_fst_pkeys. auto. Qed.

Lemma set_task_pkeys ts x t :
  StronglySorted tlt (map t_id ts) -> find_task ts (t_id x) = Some t -> P x = P t ->
  map pkey (set_task ts x) = map pkey ts.
Proof.
  induction ts as [|h r IH]; cbn [find_task set_task map]; [discriminate|]. intros Hs Hf Hc.
  destruct (tid_eqb (t_id x) (t_id h)) eqn:E.
  - inversion Hf; subst. apply tid_eqb_eq in E. cbn [map]. unfold pkey. rewrite E, Hc. reflexivity.
  - destruct (find_task_some _ _ _ Hf) as [Hin Hid].
    assert (tlt (t_id h) (t_id x)) as Hlt.
    { rewrite <- Hid. eapply sorted_head_lt; [exact Hs|]. apply in_map. exact Hin. }
    destruct (tid_ltb (t_id x) (t_id h)) eqn:L.
    + exfalso. eapply tlt_irrefl. eapply tlt_trans; [exact Hlt | exact L].
    + cbn [map]. f_equal. apply IH; [inversion Hs; assumption | exact Hf | exact Hc].
Qed.

Lemma upd_task_pframe c id t x :
  TS c -> find_task (c_tasks c) id = Some t -> t_id x = t_id t -> P x = P t ->
  pkeys (upd_task c x) = pkeys c.
Proof.
  intros Hs Hf Hi Hc. unfold pkeys, upd_task. cbn.
  destruct (find_task_some _ _ _ Hf) as [_ Hid].
  eapply set_task_pkeys; [exact Hs | rewrite Hi, Hid; exact Hf | exact Hc].
Qed.

Ltac pside := rewrite ?P_state, ?P_inst; reflexivity.

Ltac pframe_upd :=
  match goal with
  | Hs : TS ?c, Hf : find_task (c_tasks ?c) ?id = Some ?t |- pkeys (upd_task ?c ?x) = pkeys ?c =>
      apply (upd_task_pframe c id t x Hs Hf); [reflexivity | pside]
  | Hs : TS ?c, Hg : get_task (c_tasks ?c) ?id = Ok ?t |- pkeys (upd_task ?c ?x) = pkeys ?c =>
      apply (upd_task_pframe c id t x Hs (get_task_find _ _ _ Hg)); [reflexivity | pside]
  end.

Ltac pframe_step IH H E Hs :=
  eapply eq_trans; [eapply IH; cycle 1; [exact H | eapply PS_keys; [exact E | exact Hs]] | exact E].

(** * Reactor: frame lemmas *)
Lemma retract_states_pframe ids : forall c acc c' acc',
  TS c -> retract_states c ids acc = Ok (c', acc') -> pkeys c' = pkeys c.
Proof.
  induction ids as [|id r IH]; cbn [retract_states]; intros c acc c' acc' Hs H; [inversion H; reflexivity|].
  apply bind_ok in H. destruct H as (t & Ht & H).
  destruct (t_state t); try discriminate.
  apply bind_ok in H. destruct H as (wk & _ & H). apply bind_ok in H. destruct H as (wk' & _ & H).
  assert (E : pkeys (upd_worker (upd_task c (with_state t (Retracting w))) wk') = pkeys c) by (change (pkeys (upd_task c (with_state t (Retracting w))) = pkeys c); pframe_upd).
  pframe_step IH H E Hs.
Qed.

Lemma try_remove_redirection_pframe c t c' : try_remove_redirection c t = Ok c' -> pkeys c' = pkeys c.
Proof.
  unfold try_remove_redirection. destruct (find_redirect _ _) as [[w rv]|]; intros H; inv_binds H; inversion H; reflexivity.
Qed.

Lemma reset_mn_workers_pframe ws : forall c id c', reset_mn_workers c ws id = Ok c' -> pkeys c' = pkeys c.
Proof.
  induction ws as [|w r IH]; cbn [reset_mn_workers]; intros c id c' H; [inversion H; reflexivity|].
  apply bind_ok in H. destruct H as (wk & _ & H). destruct (w_assign wk); [discriminate|].
  destruct (tid_eqb t id); [|discriminate]. rewrite (IH _ _ _ H). reflexivity.
Qed.

Lemma reset_mn_all_pframe ws : forall c c', reset_mn_all c ws = Ok c' -> pkeys c' = pkeys c.
Proof.
  induction ws as [|w r IH]; cbn [reset_mn_all]; intros c c' H; [inversion H; reflexivity|].
  apply bind_ok in H. destruct H as (wk & _ & H). rewrite (IH _ _ H). reflexivity.
Qed.

Lemma wake_consumers_pframe csm : forall c ret c' ret',
  TS c -> wake_consumers c csm ret = Ok (c', ret') -> pkeys c' = pkeys c.
Proof.
  induction csm as [|x r IH]; cbn [wake_consumers]; intros c ret c' ret' Hs H; [inversion H; reflexivity|].
  apply bind_ok in H. destruct H as (t & Ht & H).
  destruct (t_state t) as [n| | | | | |] eqn:Est; try discriminate.
  destruct (N.eqb n 0); [discriminate|].
  assert (E : pkeys (upd_task c (with_state t (Waiting (n - 1)))) = pkeys c) by pframe_upd.
  destruct (N.eqb (n - 1) 0).
  - apply bind_ok in H. destruct H as ([qs rt] & _ & H).
    pframe_step IH H E Hs.
  - pframe_step IH H E Hs.
Qed.

Lemma retract_response_states_pframe ids : forall c w acc c' acc',
  TS c -> retract_response_states c w ids acc = (c', acc') -> pkeys c' = pkeys c.
Proof.
  induction ids as [|id r IH]; cbn [retract_response_states]; intros c w acc c' acc' Hs H; [inversion H; reflexivity|].
  destruct (find_task (c_tasks c) id) as [t|] eqn:Ef; [|eapply IH; eassumption].
  destruct (t_state t); try (eapply IH; eassumption).
  destruct (N.eqb w w0); [|eapply IH; eassumption].
  destruct (find_redirect _ id) as [[target rv]|].
  - assert (E : pkeys (upd_task (with_redirects c (del_redirect (c_redirects c) id)) (with_state t (Assigned target rv))) = pkeys c).
    { apply (upd_task_pframe (with_redirects c (del_redirect (c_redirects c) id)) id t); [exact Hs | exact Ef | reflexivity | pside]. }
    pframe_step IH H E Hs.
  - assert (E : pkeys (upd_task c (with_state t (Waiting 0))) = pkeys c) by pframe_upd.
    pframe_step IH H E Hs.
Qed.

(** * Server: frame lemmas *)
Lemma lost_prefilled_pframe l : forall c c', TS c -> lost_prefilled c l = Ok c' -> pkeys c' = pkeys c.
Proof.
  induction l as [|id r IH]; cbn [lost_prefilled]; intros c c' Hs H; [inversion H; reflexivity|].
  apply bind_ok in H. destruct H as (t & Ht & H). apply bind_ok in H. destruct H as (q & _ & H).
  apply bind_ok in H. destruct H as (q' & _ & H).
  assert (E : pkeys (upd_task c (with_state (with_inst t (t_inst t + 1)) (Waiting 0))) = pkeys c) by pframe_upd.
  pframe_step IH H E Hs.
Qed.

Lemma lost_assigned_pframe l : forall c running ret c' running' ret',
  TS c -> lost_assigned c l running ret = Ok (c', running', ret') -> pkeys c' = pkeys c.
Proof.
  induction l as [|id r IH]; cbn [lost_assigned]; intros c running ret c' running' ret' Hs H; [inversion H; reflexivity|].
  apply bind_ok in H. destruct H as (t & Ht & H). apply bind_ok in H. destruct H as ([[c1 t1] running1] & H1 & H).
  apply bind_ok in H. destruct H as ([qs rt] & _ & H).
  assert (E1 : pkeys c1 = pkeys c /\ c_tasks c1 = c_tasks c /\ t_id t1 = t_id t /\ P t1 = P t).
  { destruct (t_state t); try (inversion H1; subst; repeat split; try reflexivity; pside).
    destruct (find_redirect _ id); inversion H1; subst; repeat split; reflexivity. }
  destruct E1 as (E1 & Et & Ei & Ec).
  assert (E : pkeys (upd_task c1 (with_inst t1 (t_inst t1 + 1))) = pkeys c).
  { rewrite <- E1. apply (upd_task_pframe c1 id t); [eapply PS_keys; [exact E1 | exact Hs] | rewrite Et; apply get_task_find; exact Ht | exact Ei | rewrite P_inst; exact Ec]. }
  pframe_step IH H E Hs.
Qed.

Lemma map_one_pframe c m id w v rqres c' m' : TS c -> map_one c m id w v rqres = Ok (c', m') -> pkeys c' = pkeys c.
Proof.
  intros Hs H. unfold map_one in H.
  apply bind_ok in H. destruct H as (wk & _ & H). apply bind_ok in H. destruct H as (wk' & _ & H).
  apply bind_ok in H. destruct H as (t & Ht & H).
  assert (Hf : find_task (c_tasks c) id = Some t) by (apply get_task_find; exact Ht).
  destruct (t_state t); try discriminate.
  - inversion H; subst. apply (upd_task_pframe (upd_worker c wk') id t); [exact Hs | exact Hf | reflexivity | pside].
  - destruct (find_worker _ w0) as [wo|]; [|discriminate].
    apply bind_ok in H. destruct H as (wo' & _ & H).
    destruct (find_redirect _ id); [discriminate|]. inversion H; subst.
    match goal with |- pkeys (upd_task ?cc _) = _ => apply (upd_task_pframe cc id t); [exact Hs | exact Hf | reflexivity | pside] end.
  - destruct (find_redirect _ id) as [[ot vo]|].
    + inv_binds H. inversion H; subst. reflexivity.
    + inversion H; subst. reflexivity.
Qed.

Lemma rr_pass_pframe counts : forall c m tasks v rqres c' m' counts' rest,
  TS c -> rr_pass c m counts tasks v rqres = Ok (c', m', counts', rest) -> pkeys c' = pkeys c.
Proof.
  induction counts as [|[w n] r IH]; intros c m tasks v rqres c' m' counts' rest Hs H.
  - destruct tasks; cbn [rr_pass] in H; inversion H; reflexivity.
  - destruct tasks as [|id tl]; cbn [rr_pass] in H; [inversion H; reflexivity|].
    destruct (N.ltb 0 n).
    + apply bind_ok in H. destruct H as ([c1 m1] & H1 & H).
      apply bind_ok in H. destruct H as ([[[c2 m2] r'] tl'] & H2 & H). inversion H; subst.
      pose proof (map_one_pframe _ _ _ _ _ _ _ _ Hs H1) as E1.
      pframe_step IH H2 E1 Hs.
    + apply bind_ok in H. destruct H as ([[[c2 m2] r'] tl'] & H2 & H). inversion H; subst.
      eapply IH; eassumption.
Qed.

Lemma rr_loop_pframe fuel : forall c m counts tasks v rqres c' m',
  TS c -> rr_loop fuel c m counts tasks v rqres = Ok (c', m') -> pkeys c' = pkeys c.
Proof.
  induction fuel as [|k IH]; intros c m counts tasks v rqres c' m' Hs H; destruct tasks as [|id tl]; cbn [rr_loop] in H;
    try (inversion H; reflexivity); try discriminate.
  apply bind_ok in H. destruct H as ([[[c1 m1] counts1] rest] & H1 & H).
  pose proof (rr_pass_pframe _ _ _ _ _ _ _ _ _ _ Hs H1) as E1.
  pframe_step IH H E1 Hs.
Qed.

Lemma map_sn_pframe sol l : forall c m c' m', TS c -> map_sn c m sol l = Ok (c', m') -> pkeys c' = pkeys c.
Proof.
  induction l as [|[[rq v] counts] r IH]; cbn [map_sn]; intros c m c' m' Hs H; [inversion H; reflexivity|].
  apply bind_ok in H. destruct H as (rqd & _ & H). apply bind_ok in H. destruct H as (q & _ & H).
  apply bind_ok in H. destruct H as ([tasks q'] & _ & H). apply bind_ok in H. destruct H as ([c2 m2] & H2 & H).
  pose proof (rr_loop_pframe _ (with_queues c (set_queue (c_queues c) (N.to_nat rq) q')) _ _ _ _ _ _ _ Hs H2) as E2.
  change (pkeys c2 = pkeys c) in E2.
  pframe_step IH H E2 Hs.
Qed.

Lemma set_mn_workers_pframe l : forall c id first c', set_mn_workers c id l first = Ok c' -> pkeys c' = pkeys c.
Proof.
  induction l as [|w r IH]; cbn [set_mn_workers]; intros c id first c' H; [inversion H; reflexivity|].
  apply bind_ok in H. destruct H as (wk & _ & H). apply bind_ok in H. destruct H as (wk' & _ & H).
  rewrite (IH _ _ _ _ H). reflexivity.
Qed.

Lemma map_mn_sets_pframe sets : forall c rq mn c' mn', TS c -> map_mn_sets c rq mn sets = Ok (c', mn') -> pkeys c' = pkeys c.
Proof.
  induction sets as [|ws r IH]; cbn [map_mn_sets]; intros c rq mn c' mn' Hs H; [inversion H; reflexivity|].
  apply bind_ok in H. destruct H as (q & _ & H). destruct (q_take_one q) as [[id q']|]; [|discriminate].
  apply bind_ok in H. destruct H as (c2 & H2 & H). apply bind_ok in H. destruct H as (t & Ht & H).
  destruct (t_state t) as [n| | | | | |]; try discriminate. destruct n; [|discriminate].
  pose proof (set_mn_workers_pframe _ _ _ _ _ H2) as E2. change (pkeys c2 = pkeys c) in E2.
  assert (Hs2 : TS c2) by (eapply PS_keys; [exact E2 | exact Hs]).
  assert (E : pkeys (upd_task c2 (with_state t (RunningMN ws))) = pkeys c2) by pframe_upd.
  assert (E3 : pkeys (upd_task c2 (with_state t (RunningMN ws))) = pkeys c) by (rewrite E; exact E2).
  pframe_step IH H E3 Hs.
Qed.

Lemma map_mn_pframe l : forall c mn c' mn', TS c -> map_mn c mn l = Ok (c', mn') -> pkeys c' = pkeys c.
Proof.
  induction l as [|[[rq v] sets] r IH]; cbn [map_mn]; intros c mn c' mn' Hs H; [inversion H; reflexivity|].
  apply bind_ok in H. destruct H as ([c1 mn1] & H1 & H).
  pose proof (map_mn_sets_pframe _ _ _ _ _ _ Hs H1) as E1.
  pframe_step IH H E1 Hs.
Qed.

Lemma prefill_mark_pframe l : forall c w c', TS c -> prefill_mark c w l = Ok c' -> pkeys c' = pkeys c.
Proof.
  induction l as [|id r IH]; cbn [prefill_mark]; intros c w c' Hs H; [inversion H; reflexivity|].
  apply bind_ok in H. destruct H as (t & Ht & H). destruct (negb (is_waiting t)); [discriminate|].
  apply bind_ok in H. destruct H as (wk & _ & H). apply bind_ok in H. destruct H as (wk' & _ & H).
  assert (E : pkeys (upd_task c (with_state t (Prefilled w))) = pkeys c) by pframe_upd.
  pframe_step IH H E Hs.
Qed.

Lemma prefill_workers_pframe ws : forall c m qi psize c' m', TS c -> prefill_workers c m qi psize ws = Ok (c', m') -> pkeys c' = pkeys c.
Proof.
  induction ws as [|w r IH]; cbn [prefill_workers]; intros c m qi psize c' m' Hs H; [inversion H; reflexivity|].
  apply bind_ok in H. destruct H as (q & _ & H). apply bind_ok in H. destruct H as ([ids q'] & _ & H).
  apply bind_ok in H. destruct H as (c2 & H2 & H).
  pose proof (prefill_mark_pframe _ (with_queues c (set_queue (c_queues c) qi q')) _ _ Hs H2) as E2. change (pkeys c2 = pkeys c) in E2.
  pframe_step IH H E2 Hs.
Qed.

Lemma prefill_queues_pframe n : forall c m worder qi top c' m',
  TS c -> prefill_queues c m worder qi n top = Ok (c', m') -> pkeys c' = pkeys c.
Proof.
  induction n as [|k IH]; cbn [prefill_queues]; intros c m worder qi top c' m' Hs H; [inversion H; reflexivity|].
  apply bind_ok in H. destruct H as (q & _ & H).
  destruct (q_top_priority q) as [tp|]; [|eapply IH; eassumption].
  destruct (negb (Z.eqb tp top)); [eapply IH; eassumption|].
  destruct (N.eqb _ 0); [eapply IH; eassumption|].
  destruct (existsb _ (q_top_task_ids q)).
  - destruct (forallb _ (q_top_task_ids q)); [eapply IH; eassumption | discriminate].
  - match type of H with match ?ws with [] => _ | _ => _ end = _ => destruct ws eqn:Ews end; [eapply IH; eassumption|].
    destruct (N.eqb _ 0); [eapply IH; eassumption|].
    apply bind_ok in H. destruct H as ([c1 m1] & H1 & H).
    pose proof (prefill_workers_pframe _ _ _ _ _ _ _ Hs H1) as E1.
    pframe_step IH H E1 Hs.
Qed.


(** * The same at the level of [st] *)
Definition PK (s : st) : list (tid * A) := pkeys (core_of s).

Lemma process_retracted_PK s r s' : TS (core_of s) -> process_retracted s r = Ok s' -> PK s' = PK s.
Proof.
  unfold process_retracted. intros Hs H. destruct r; [inversion H; reflexivity|].
  apply bind_ok in H. destruct H as ([c' groups] & H1 & H). unfold PK. rewrite (send_all_core _ _ _ H).
  eapply retract_states_pframe; [exact Hs | exact H1].
Qed.


Lemma task_running_spec_P s w id rv s' b :
  TS (core_of s) -> task_running s w id rv = Ok (s', b) -> PK s' = PK s /\ forall x, active s' x <-> active s x.
Proof.
  intros Hs H. unfold task_running in H.
  destruct (find_task (c_tasks (core_of s)) id) as [t|] eqn:Ef; [|inversion H; subst; split; reflexivity].
  apply bind_ok in H. destruct H as (rq & _ & H). apply bind_ok in H. destruct H as ([s1 ws] & H1 & H).
  apply bind_ok in H. destruct H as (s2 & H2 & H). inversion H; subst.
  destruct (process_task_started_active _ _ _ _ _ _ H2) as [C2 A2].
  assert (E1 : PK s1 = PK s /\ hq_of s1 = hq_of s).
  { destruct (t_state t); try discriminate.
    - destruct (negb (N.eqb w0 w)); [discriminate|]. destruct (negb (N.eqb rv0 rv)); [discriminate|]. inversion H1; subst.
      split; [|reflexivity]. unfold PK. cbn. apply (upd_task_pframe (core_of s) id t); [exact Hs | exact Ef | reflexivity | pside].
    - destruct (negb (N.eqb w0 w)); [discriminate|]. inv_binds H1. inversion H1; subst.
      split; [|reflexivity]. unfold PK. cbn. apply (upd_task_pframe (core_of s) id t); [exact Hs | exact Ef | reflexivity | pside].
    - destruct (negb (N.eqb w0 w)); [discriminate|].
      apply bind_ok in H1. destruct H1 as (c1 & Hc1 & H1). inv_binds H1. inversion H1; subst.
      split; [|reflexivity]. unfold PK. cbn.
      pose proof (try_remove_redirection_pframe _ _ _ Hc1) as F1. pose proof (try_remove_redirection_tasks _ _ _ Hc1) as T1.
      change (pkeys c1 = pkeys (core_of s)) in F1. change (c_tasks c1 = c_tasks (core_of s)) in T1.
      transitivity (pkeys c1); [|exact F1].
      change (pkeys (upd_task c1 (with_state t (Running w rv))) = pkeys c1).
      apply (upd_task_pframe c1 id t); [eapply PS_keys; [exact F1 | exact Hs] | rewrite T1; exact Ef | reflexivity | pside].
    - destruct ws0; [discriminate|]. destruct (N.eqb w0 w); [|discriminate]. inversion H1; subst. split; reflexivity. }
  destruct E1 as [E1 Eh]. split.
  - unfold PK in *. rewrite C2. exact E1.
  - intros x. rewrite A2. apply active_same. apply jt_same. exact Eh.
Qed.


Lemma requeue_PK s t c1 s' b :
  TS (core_of s) -> c_tasks c1 = c_tasks (core_of s) -> find_task (c_tasks (core_of s)) (t_id t) = Some t ->
  (do (qs, ret) <- add_ready_task (c_queues c1) (with_state t (Waiting 0));
   do s'' <- process_retracted (st_core s (with_queues (upd_task c1 (with_state t (Waiting 0))) qs)) ret;
   Ok (s'', true)) = Ok (s', b) -> PK s' = PK s.
Proof.
  intros Hs Et Ef Hx. inv_binds Hx. inversion Hx; subst.
  assert (Ek : pkeys c1 = PK s) by (unfold PK, pkeys; rewrite Et; reflexivity).
  assert (Eu : pkeys (upd_task c1 (with_state t (Waiting 0))) = PK s).
  { rewrite <- Ek. apply (upd_task_pframe c1 (t_id t) t); [eapply PS_keys; [exact Ek | exact Hs] | rewrite Et; exact Ef | reflexivity | pside]. }
  match goal with X : process_retracted ?s0 _ = Ok _ |- _ =>
    rewrite (process_retracted_PK s0 _ _ (PS_keys _ _ Eu Hs) X) end.
  exact Eu.
Qed.


Lemma task_reject_PK s w id rv s' b : TS (core_of s) -> task_reject s w id rv = Ok (s', b) -> PK s' = PK s.
Proof.
  intros Hs H. unfold task_reject in H.
  destruct (find_task (c_tasks (core_of s)) id) as [t|] eqn:Ef; [|inversion H; subst; reflexivity].
  destruct (find_task_some _ _ _ Ef) as [_ Hid].
  assert (Ef' : find_task (c_tasks (core_of s)) (t_id t) = Some t) by (rewrite Hid; exact Ef).
  apply bind_ok in H. destruct H as (wk & _ & H). apply bind_ok in H. destruct H as (rq & _ & H).
  apply bind_ok in H. destruct H as ([c1 cont] & Hr & H).
  assert (Et : c_tasks c1 = c_tasks (core_of s)).
  { destruct (t_state t); try discriminate.
    - destruct (negb (N.eqb w w0)); [inversion Hr; reflexivity|].
      destruct rv as [v|]; [|inversion Hr; reflexivity].
      destruct (N.eqb v rv0); [inv_binds Hr|]; inversion Hr; reflexivity.
    - inv_binds Hr. inversion Hr; reflexivity.
    - destruct (negb (N.eqb w w0)); inversion Hr; reflexivity. }
  destruct (t_state t) eqn:Est; try (eapply requeue_PK; eassumption).
  destruct cont.
  - destruct (find_redirect (c_redirects c1) id) as [[target rvt]|].
    + apply bind_ok in H. destruct H as (s1 & H1 & H). inversion H; subst.
      unfold PK. rewrite (send_worker_core _ _ _ _ H1).
      assert (Ek : pkeys c1 = pkeys (core_of s)) by (unfold pkeys; rewrite Et; reflexivity).
      transitivity (pkeys c1); [|exact Ek].
      match goal with |- pkeys (core_of (st_core _ (upd_task ?cc ?x))) = _ =>
        change (pkeys (upd_task cc x) = pkeys cc); apply (upd_task_pframe cc (t_id t) t) end;
        [eapply PS_keys; [exact Ek | exact Hs] | cbn; rewrite Et; exact Ef' | reflexivity | pside].
    + eapply requeue_PK; eassumption.
  - inversion H; subst. unfold PK, pkeys. cbn. rewrite Et. reflexivity.
Qed.


Lemma on_retract_response_PK s w ids s' : TS (core_of s) -> on_retract_response s w ids = Ok s' -> PK s' = PK s.
Proof.
  unfold on_retract_response. intros Hs H. destruct (retract_response_states _ w ids []) as [c' groups] eqn:E.
  apply bind_ok in H. destruct H as (s2 & H & H2).
  assert (E2 : PK s' = PK s2) by (destruct (retract_wakes _ _ _ _); inversion H2; subst s'; reflexivity).
  rewrite E2. unfold PK. rewrite (send_redirected_core _ _ _ H). cbn. eapply retract_response_states_pframe; [exact Hs | exact E].
Qed.


Lemma lost_retracting_PK l : forall s w s', TS (core_of s) -> lost_retracting s w l = Ok s' -> PK s' = PK s.
Proof.
  induction l as [|id r IH]; cbn [lost_retracting]; intros s w s' Hs H; [inversion H; reflexivity|].
  apply bind_ok in H. destruct H as (t & Ht & H). apply get_task_find in Ht.
  destruct (t_state t); try (eapply IH; eassumption).
  destruct (N.eqb w w0); [|eapply IH; eassumption].
  destruct (find_redirect _ id) as [[target rv]|].
  - apply bind_ok in H. destruct H as (s1 & H1 & H).
    assert (E : PK s1 = PK s).
    { unfold PK. rewrite (send_worker_core _ _ _ _ H1). cbn.
      apply (upd_task_pframe (with_redirects (core_of s) (del_redirect (c_redirects (core_of s)) id)) id t); [exact Hs | exact Ht | reflexivity | pside]. }
    rewrite <- E. eapply IH; [eapply PS_keys; [exact E | exact Hs] | exact H].
  - match type of H with lost_retracting ?s1 _ _ = _ => assert (E : PK s1 = PK s) end.
    { unfold PK. cbn. apply (upd_task_pframe (core_of s) id t); [exact Hs | exact Ht | reflexivity | pside]. }
    rewrite <- E. eapply IH; [eapply PS_keys; [exact E | exact Hs] | exact H].
Qed.


Lemma run_scheduling_PK s sol s' : TS (core_of s) -> run_scheduling s sol = Ok s' -> PK s' = PK s.
Proof.
  unfold run_scheduling. intros Hs H. destruct (negb (perm_of_set _ _)); [discriminate|].
  apply bind_ok in H. destruct H as ([c1 m1] & H1 & H).
  apply bind_ok in H. destruct H as ([c2 mn] & H2 & H).
  apply bind_ok in H. destruct H as ([c3 m3] & H3 & H).
  apply bind_ok in H. destruct H as (s1 & H4 & H).
  apply bind_ok in H. destruct H as (s2 & H5 & H). inversion H; subst.
  pose proof (map_sn_pframe _ _ _ _ _ _ Hs H1) as E1.
  assert (Hs1 : TS c1) by (eapply PS_keys; [exact E1 | exact Hs]).
  pose proof (map_mn_pframe _ _ _ _ _ Hs1 H2) as E2.
  assert (Hs2 : TS c2) by (eapply PS_keys; [exact E2 | exact Hs1]).
  assert (E3 : pkeys c3 = pkeys c2).
  { destruct (queues_top_priority (c_queues c2)); [|inversion H3; reflexivity].
    eapply prefill_queues_pframe; [exact Hs2 | exact H3]. }
  unfold PK. change (pkeys (core_of s2) = pkeys (core_of s)).
  rewrite (send_mn_core _ _ _ H5), (send_mapping_core _ _ _ H4).
  change (pkeys c3 = pkeys (core_of s)). rewrite E3, E2, E1. reflexivity.
Qed.

End Proj.
