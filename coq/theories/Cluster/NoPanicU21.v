(** A REACHABLE PANIC of the server when it processes a worker's message ([OpDUp]), found while
    proving the totality of [task_running]: site 102, [insert_sn_task] on a worker that has a
    multi-node assignment.

    History (all hypotheses of the development hold on it: [op_wf], [run_fresh], [ops_ok] of
    NoPanicU0.v, [sol_ok] of NoPanicS7.v on both scheduler answers; [proto_ok] holds in every
    state including the one that panics):
      - worker 1 runs task (1,0) and has task (2,0) of the same request class in its backlog
        (prefilled);
      - the job of (1,0) is cancelled: the server takes (1,0) out of the worker's set at once and
        sends CancelTasks;
      - a task of higher priority is submitted: the prefill set is disposed, (2,0) becomes
        Retracting (worker 1), it is taken out of the worker's prefilled set, RetractTasks is sent;
        worker 1 is now FREE for the server ([worker_is_free]: both sets empty);
      - the scheduler places the new multi-node task on worker 1: the worker's assignment becomes
        [Mn];
      - the worker processes CancelTasks (a stop signal only), the cancelled task ends
        ([EndFollowStop]: no message about (1,0)), and the tail of [handle_task_future]
        ([prefill_loop]) starts (2,0) from the backlog - the RetractTasks message has not been
        processed yet - and reports URunningPrefilled (2,0);
      - the server processes it: [task_running], state Retracting (worker 1) -> the redirection is
        removed, the task becomes Running on worker 1, and [worker.insert_sn_task] finds the
        multi-node assignment: `Mn _ _ => Panic 102`.
    The protocol invariant does not exclude it because nothing is wrong with the messages: the race
    between "retracting" and "the worker starts the task itself" is legal (the server handles it in
    [task_running]), but a worker with a task in state Retracting is treated as free. *)
From HQ Require Import Base.Prelude Cluster.Types Cluster.Core Cluster.Reactor Cluster.Worker Cluster.Server Cluster.Sys Cluster.RejHyp Cluster.BijFinal Cluster.NoPanicS7 Cluster.NoPanicU0.
From Coq Require Import ZArith.
Local Open Scope N_scope.

Definition rqa : rqdef := mkRq 0 [1; 0; 0].
Definition rqmn : rqdef := mkRq 1 [0; 0; 0].
Definition sol_a : solution := mkSol [(0, 0, [(1, 1)])] [] [1] [].
Definition sol_b : solution := mkSol [] [(1, 0, [[1]])] [1] [].
Definition h102_pre : list op :=
  [OpConnect [2; 0; 0] 0;
   OpSubmit None [] None rqa 0%Z CUnl false None;      (* job 1: task (1,0) *)
   OpSubmit None [] None rqa 0%Z CUnl false None].     (* job 2: task (2,0) *)
Definition h102_mid : list op :=
  [OpDDown 1 []; OpDDown 1 []; OpDUp 1;                (* (1,0) runs on worker 1, (2,0) is in its backlog *)
   OpCancel 1;                                          (* (1,0) cancelled *)
   OpSubmit None [] None rqmn 5%Z CUnl false None].    (* job 3 (multi-node, higher priority): (2,0) is retracted *)
Definition h102_post : list op :=
  [OpDDown 1 [];                                        (* CancelTasks: stop signal *)
   OpEnd 1 (1, 0) EndFollowStop].                       (* the cancelled task ends; the worker starts (2,0) *)
Definition h102 : list op := h102_pre ++ [OpSched sol_a] ++ h102_mid ++ [OpSched sol_b] ++ h102_post.

Example panic_102_reachable :
  Forall op_wf h102 /\
  run_fresh (init_sys 0 2) (h102 ++ [OpDUp 1]) = true /\
  ops_ok (init_sys 0 2) (h102 ++ [OpDUp 1]) = true /\
  check_run 0 (init_sys 0 2) h102 = None /\
  (exists s1 o1, run (init_sys 0 2) h102_pre = Ok (s1, o1) /\ sol_ok (s_core s1) sol_a = true) /\
  (exists s2 o2, run (init_sys 0 2) (h102_pre ++ [OpSched sol_a] ++ h102_mid) = Ok (s2, o2) /\ sol_ok (s_core s2) sol_b = true) /\
  exists s outs, run (init_sys 0 2) h102 = Ok (s, outs) /\ proto_ok s = true /\ step s (OpDUp 1) = Panic 102.
Proof.
  split; [repeat constructor|]. split; [vm_compute; reflexivity|]. split; [vm_compute; reflexivity|]. split; [vm_compute; reflexivity|].
  split.
  { destruct (run (init_sys 0 2) h102_pre) as [[s1 o1]| |] eqn:E; [|vm_compute in E; discriminate | vm_compute in E; discriminate].
    exists s1, o1. split; [reflexivity|]. vm_compute in E. inversion E; subst. vm_compute. reflexivity. }
  split.
  { destruct (run (init_sys 0 2) (h102_pre ++ [OpSched sol_a] ++ h102_mid)) as [[s2 o2]| |] eqn:E; [|vm_compute in E; discriminate | vm_compute in E; discriminate].
    exists s2, o2. split; [reflexivity|]. vm_compute in E. inversion E; subst. vm_compute. reflexivity. }
  destruct (run (init_sys 0 2) h102) as [[s outs]| |] eqn:E; [|vm_compute in E; discriminate | vm_compute in E; discriminate].
  exists s, outs. split; [reflexivity|]. vm_compute in E. inversion E; subst. split; vm_compute; reflexivity.
Qed.
