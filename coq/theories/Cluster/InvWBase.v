(** Worker-set invariant, part 1: the sorted collections of the server core (id sets of a worker,
    the worker map, the redirect map) and their lookup / update laws. *)
From HQ Require Import Base.Prelude Cluster.Types Cluster.Core Cluster.Reactor Cluster.Worker Cluster.Server Cluster.Sys Cluster.ProofsJob Cluster.ProofsMore Cluster.ProofsStep Cluster.BijBase Cluster.BijCore.
From Coq Require Import ZArith Lia Sorting.Sorted.
Local Open Scope N_scope.

Arguments N.add : simpl never.
Arguments N.sub : simpl never.

(** * Sorted id sets *)
Definition tsorted (l : list tid) : Prop := StronglySorted tlt l.

Lemma tid_eqb_refl' x : tid_eqb x x = true.
Proof. apply tid_eqb_eq. reflexivity. Qed.

Lemma tid_mem_true_in x l : tid_mem x l = true <-> In x l.
Proof.
  induction l as [|h t IH]; cbn [tid_mem In]; [split; [discriminate | intros []]|].
  rewrite orb_true_iff, IH, tid_eqb_eq. split; intros [H|H]; auto.
Qed.

Lemma tid_mem_insert x y l : tid_mem x (tid_insert y l) = tid_eqb x y || tid_mem x l.
Proof.
  induction l as [|h t IH]; cbn [tid_insert tid_mem]; [reflexivity|].
  destruct (tid_eqb y h) eqn:E1.
  - apply tid_eqb_eq in E1. subst h. cbn [tid_mem]. destruct (tid_eqb x y); reflexivity.
  - destruct (tid_ltb y h); cbn [tid_mem]; [reflexivity|]. rewrite IH.
    destruct (tid_eqb x y), (tid_eqb x h); reflexivity.
Qed.

Lemma tid_insert_sorted x l : tsorted l -> tsorted (tid_insert x l).
Proof.
  unfold tsorted. induction l as [|h t IH]; cbn [tid_insert]; intros Hs; [constructor; constructor|].
  destruct (tid_eqb x h) eqn:E; [exact Hs|].
  destruct (tid_ltb x h) eqn:L.
  - constructor; [exact Hs|]. constructor; [exact L|]. rewrite Forall_forall. intros y Hy.
    eapply tlt_trans; [exact L|]. eapply sorted_head_lt; eassumption.
  - inversion Hs as [|? ? Hs' Hall]; subst. constructor; [apply IH; exact Hs'|].
    rewrite Forall_forall in *. intros y Hy. destruct (tid_insert_in _ _ _ Hy) as [->|Hin]; [|auto].
    apply tlt_total; [exact E | exact L].
Qed.

Lemma tid_mem_remove_other x y l : tid_eqb x y = false -> tid_mem x (tid_remove y l) = tid_mem x l.
Proof.
  intros Hne. induction l as [|h t IH]; cbn [tid_remove tid_mem]; [reflexivity|].
  destruct (tid_eqb y h) eqn:E.
  - apply tid_eqb_eq in E. subst h. rewrite Hne. reflexivity.
  - cbn [tid_mem]. rewrite IH. reflexivity.
Qed.

Lemma tid_mem_remove_same x l : tsorted l -> tid_mem x (tid_remove x l) = false.
Proof.
  unfold tsorted. induction l as [|h t IH]; cbn [tid_remove]; intros Hs; [reflexivity|].
  inversion Hs as [|? ? Hs' Hall]; subst.
  destruct (tid_eqb x h) eqn:E.
  - apply tid_eqb_eq in E. subst h. destruct (tid_mem x t) eqn:M; [|reflexivity].
    apply tid_mem_true_in in M. rewrite Forall_forall in Hall. exfalso. exact (tlt_irrefl _ (Hall _ M)).
  - cbn [tid_mem]. rewrite E. apply IH. exact Hs'.
Qed.

Lemma tid_mem_remove x y l : tsorted l -> tid_mem x (tid_remove y l) = negb (tid_eqb x y) && tid_mem x l.
Proof.
  intros Hs. destruct (tid_eqb x y) eqn:E.
  - apply tid_eqb_eq in E. subst y. rewrite tid_mem_remove_same by exact Hs. reflexivity.
  - rewrite tid_mem_remove_other by exact E. reflexivity.
Qed.

Lemma tid_remove_sorted x l : tsorted l -> tsorted (tid_remove x l).
Proof.
  unfold tsorted. induction l as [|h t IH]; cbn [tid_remove]; intros Hs; [constructor|].
  inversion Hs as [|? ? Hs' Hall]; subst. destruct (tid_eqb x h); [exact Hs'|].
  constructor; [apply IH; exact Hs'|]. rewrite Forall_forall in *. intros y Hy. apply Hall.
  eapply tid_remove_incl; exact Hy.
Qed.

(** * The worker map *)
Definition wsorted (ws : list sworker) : Prop := StronglySorted N.lt (map w_id ws).

Lemma find_worker_some ws w wk : find_worker ws w = Some wk -> In wk ws /\ w_id wk = w.
Proof.
  induction ws as [|h r IH]; cbn [find_worker]; [discriminate|].
  destruct (N.eqb w (w_id h)) eqn:E.
  - intros H; inversion H; subst. apply N.eqb_eq in E. split; [left; reflexivity | symmetry; exact E].
  - intros H. destruct (IH H). split; [right; assumption | assumption].
Qed.

Lemma find_set_worker ws x w : find_worker (set_worker ws x) w = if N.eqb w (w_id x) then Some x else find_worker ws w.
Proof.
  induction ws as [|h r IH]; cbn [set_worker find_worker]; [reflexivity|].
  destruct (N.eqb (w_id x) (w_id h)) eqn:E1.
  - apply N.eqb_eq in E1. cbn [find_worker]. rewrite <- E1. destruct (N.eqb w (w_id x)); reflexivity.
  - destruct (N.ltb (w_id x) (w_id h)); cbn [find_worker]; [reflexivity|].
    destruct (N.eqb w (w_id h)) eqn:E2.
    + apply N.eqb_eq in E2. subst w. rewrite N.eqb_sym, E1. reflexivity.
    + exact IH.
Qed.

Lemma set_worker_ids ws x y : In y (map w_id (set_worker ws x)) -> y = w_id x \/ In y (map w_id ws).
Proof.
  induction ws as [|h r IH]; cbn [set_worker map In]; [intros [H|[]]; auto|].
  destruct (N.eqb (w_id x) (w_id h)); cbn [map In]; [intros [H|H]; auto|].
  destruct (N.ltb (w_id x) (w_id h)); cbn [map In]; [intros [H|[H|H]]; auto|].
  intros [H|H]; [auto|]. destruct (IH H); auto.
Qed.

Lemma set_worker_sorted ws x : wsorted ws -> wsorted (set_worker ws x).
Proof.
  unfold wsorted. induction ws as [|h r IH]; cbn [set_worker map]; intros Hs; [constructor; constructor|].
  inversion Hs as [|? ? Hs' Hall]; subst.
  destruct (N.eqb (w_id x) (w_id h)) eqn:E1.
  - apply N.eqb_eq in E1. cbn [map]. rewrite E1. constructor; assumption.
  - destruct (N.ltb (w_id x) (w_id h)) eqn:E2; cbn [map].
    + apply N.ltb_lt in E2. constructor; [exact Hs|]. constructor; [exact E2|].
      rewrite Forall_forall in *. intros y Hy. specialize (Hall _ Hy). lia.
    + constructor; [apply IH; exact Hs'|]. rewrite Forall_forall in *. intros y Hy.
      destruct (set_worker_ids _ _ _ Hy) as [->|Hy']; [|apply Hall; exact Hy'].
      apply N.eqb_neq in E1. apply N.ltb_ge in E2. lia.
Qed.

Lemma find_worker_none ws w : ~ In w (map w_id ws) -> find_worker ws w = None.
Proof.
  induction ws as [|h r IH]; cbn [find_worker map In]; [reflexivity|]. intros Hn.
  destruct (N.eqb w (w_id h)) eqn:E; [apply N.eqb_eq in E; exfalso; apply Hn; left; auto|].
  apply IH. intros X. apply Hn. right. exact X.
Qed.

Lemma find_del_worker ws x w : wsorted ws -> find_worker (del_worker ws x) w = if N.eqb w x then None else find_worker ws w.
Proof.
  unfold wsorted. induction ws as [|h r IH]; cbn [del_worker find_worker map]; intros Hs; [destruct (N.eqb w x); reflexivity|].
  inversion Hs as [|? ? Hs' Hall]; subst.
  destruct (N.eqb x (w_id h)) eqn:E1.
  - apply N.eqb_eq in E1. subst x. destruct (N.eqb w (w_id h)) eqn:E2; [|reflexivity].
    apply N.eqb_eq in E2. subst w. apply find_worker_none. intros Hin. rewrite Forall_forall in Hall.
    specialize (Hall _ Hin). lia.
  - cbn [find_worker]. destruct (N.eqb w (w_id h)) eqn:E2.
    + apply N.eqb_eq in E2. subst w. rewrite N.eqb_sym, E1. reflexivity.
    + apply IH. exact Hs'.
Qed.

Lemma del_worker_incl ws x y : In y (map w_id (del_worker ws x)) -> In y (map w_id ws).
Proof.
  induction ws as [|h r IH]; cbn [del_worker map In]; [auto|].
  destruct (N.eqb x (w_id h)); [intros H; right; exact H|]. cbn [map In]. intros [H|H]; auto.
Qed.

Lemma del_worker_sorted ws x : wsorted ws -> wsorted (del_worker ws x).
Proof.
  unfold wsorted. induction ws as [|h r IH]; cbn [del_worker map]; intros Hs; [constructor|].
  inversion Hs as [|? ? Hs' Hall]; subst. destruct (N.eqb x (w_id h)); [exact Hs'|].
  cbn [map]. constructor; [apply IH; exact Hs'|]. rewrite Forall_forall in *. intros y Hy. apply Hall.
  eapply del_worker_incl; exact Hy.
Qed.

Lemma in_find_worker ws wk : wsorted ws -> In wk ws -> find_worker ws (w_id wk) = Some wk.
Proof.
  unfold wsorted. induction ws as [|h r IH]; cbn [find_worker map]; intros Hs Hin; [destruct Hin|].
  inversion Hs as [|? ? Hs' Hall]; subst. destruct Hin as [->|Hin]; [rewrite N.eqb_refl; reflexivity|].
  destruct (N.eqb (w_id wk) (w_id h)) eqn:E; [|apply IH; assumption].
  apply N.eqb_eq in E. rewrite Forall_forall in Hall. specialize (Hall (w_id wk) (in_map w_id _ _ Hin)). lia.
Qed.

(** * The redirect map *)
Definition rsorted (rs : list (tid * (wid * N))) : Prop := StronglySorted tlt (map fst rs).

Lemma find_set_redirect rs t v x : find_redirect (set_redirect rs t v) x = if tid_eqb x t then Some v else find_redirect rs x.
Proof.
  induction rs as [|[k v0] r IH]; cbn [set_redirect find_redirect]; [reflexivity|].
  destruct (tid_eqb t k) eqn:E1.
  - apply tid_eqb_eq in E1. subst k. cbn [find_redirect]. destruct (tid_eqb x t); reflexivity.
  - destruct (tid_ltb t k); cbn [find_redirect]; [reflexivity|].
    destruct (tid_eqb x k) eqn:E2.
    + apply tid_eqb_eq in E2. subst x. rewrite tid_eqb_sym, E1. reflexivity.
    + exact IH.
Qed.

Lemma set_redirect_keys rs t v y : In y (map fst (set_redirect rs t v)) -> y = t \/ In y (map fst rs).
Proof.
  induction rs as [|[k v0] r IH]; cbn [set_redirect map fst In]; [intros [H|[]]; auto|].
  destruct (tid_eqb t k) eqn:E; cbn [map fst In]; [intros [H|H]; auto|].
  destruct (tid_ltb t k); cbn [map fst In]; [intros [H|[H|H]]; auto|].
  intros [H|H]; [auto|]. destruct (IH H); auto.
Qed.

Lemma set_redirect_sorted rs t v : rsorted rs -> rsorted (set_redirect rs t v).
Proof.
  unfold rsorted. induction rs as [|[k v0] r IH]; cbn [set_redirect map fst]; intros Hs; [constructor; constructor|].
  inversion Hs as [|? ? Hs' Hall]; subst.
  destruct (tid_eqb t k) eqn:E1.
  - apply tid_eqb_eq in E1. subst k. cbn [map fst]. constructor; assumption.
  - destruct (tid_ltb t k) eqn:E2; cbn [map fst].
    + constructor; [exact Hs|]. constructor; [exact E2|].
      rewrite Forall_forall in *. intros y Hy. eapply tlt_trans; [exact E2 | apply Hall; exact Hy].
    + constructor; [apply IH; exact Hs'|]. rewrite Forall_forall in *. intros y Hy.
      destruct (set_redirect_keys _ _ _ _ Hy) as [->|Hy']; [|apply Hall; exact Hy'].
      apply tlt_total; assumption.
Qed.

Lemma find_redirect_none rs x : ~ In x (map fst rs) -> find_redirect rs x = None.
Proof.
  induction rs as [|[k v] r IH]; cbn [find_redirect map fst In]; [reflexivity|]. intros Hn.
  destruct (tid_eqb x k) eqn:E; [apply tid_eqb_eq in E; exfalso; apply Hn; left; auto|].
  apply IH. intros X. apply Hn. right. exact X.
Qed.

Lemma find_del_redirect rs t x : rsorted rs -> find_redirect (del_redirect rs t) x = if tid_eqb x t then None else find_redirect rs x.
Proof.
  unfold rsorted. induction rs as [|[k v] r IH]; cbn [del_redirect find_redirect map fst]; intros Hs; [destruct (tid_eqb x t); reflexivity|].
  inversion Hs as [|? ? Hs' Hall]; subst.
  destruct (tid_eqb t k) eqn:E1.
  - apply tid_eqb_eq in E1. subst k. destruct (tid_eqb x t) eqn:E2; [|reflexivity].
    apply tid_eqb_eq in E2. subst x. apply find_redirect_none. intros Hin. rewrite Forall_forall in Hall.
    exact (tlt_irrefl _ (Hall _ Hin)).
  - cbn [find_redirect]. destruct (tid_eqb x k) eqn:E2.
    + apply tid_eqb_eq in E2. subst x. rewrite tid_eqb_sym, E1. reflexivity.
    + apply IH. exact Hs'.
Qed.

Lemma del_redirect_incl rs t y : In y (map fst (del_redirect rs t)) -> In y (map fst rs).
Proof.
  induction rs as [|[k v] r IH]; cbn [del_redirect map fst In]; [auto|].
  destruct (tid_eqb t k); [intros H; right; exact H|]. cbn [map fst In]. intros [H|H]; auto.
Qed.

Lemma del_redirect_sorted rs t : rsorted rs -> rsorted (del_redirect rs t).
Proof.
  unfold rsorted. induction rs as [|[k v] r IH]; cbn [del_redirect map fst]; intros Hs; [constructor|].
  inversion Hs as [|? ? Hs' Hall]; subst. destruct (tid_eqb t k); [exact Hs'|].
  cbn [map fst]. constructor; [apply IH; exact Hs'|]. rewrite Forall_forall in *. intros y Hy. apply Hall.
  eapply del_redirect_incl; exact Hy.
Qed.

(** * The task map: deletion *)
Lemma find_del_task' ts x id :
  StronglySorted tlt (map t_id ts) -> find_task (del_task ts x) id = if tid_eqb id x then None else find_task ts id.
Proof.
  induction ts as [|h r IH]; cbn [del_task find_task map]; intros Hs; [destruct (tid_eqb id x); reflexivity|].
  inversion Hs as [|? ? Hs' Hall]; subst.
  destruct (tid_eqb x (t_id h)) eqn:E1.
  - apply tid_eqb_eq in E1. subst x. destruct (tid_eqb id (t_id h)) eqn:E2; [|reflexivity].
    apply tid_eqb_eq in E2. subst id. apply find_task_none. intros Hin. rewrite Forall_forall in Hall.
    exact (tlt_irrefl _ (Hall _ Hin)).
  - cbn [find_task]. destruct (tid_eqb id (t_id h)) eqn:E2.
    + apply tid_eqb_eq in E2. subst id. rewrite tid_eqb_sym, E1. reflexivity.
    + apply IH. exact Hs'.
Qed.

Lemma in_find_task ts t : StronglySorted tlt (map t_id ts) -> In t ts -> find_task ts (t_id t) = Some t.
Proof.
  induction ts as [|h r IH]; cbn [find_task map]; intros Hs Hin; [destruct Hin|].
  inversion Hs as [|? ? Hs' Hall]; subst. destruct Hin as [->|Hin]; [rewrite tid_eqb_refl'; reflexivity|].
  destruct (tid_eqb (t_id t) (t_id h)) eqn:E; [|apply IH; assumption].
  apply tid_eqb_eq in E. rewrite Forall_forall in Hall. specialize (Hall (t_id t) (in_map t_id _ _ Hin)).
  rewrite E in Hall. exfalso. exact (tlt_irrefl _ Hall).
Qed.
