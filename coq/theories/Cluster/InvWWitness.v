(** The worker-set invariant is FALSE for the model when the solver answer (the witness of
    [OpSched]) is unconstrained: [map_mn] places a task of a SINGLE-node request on a worker as a
    multi-node task (state [RunningMN], worker assignment [Mn]); when that task then fails,
    [task_failed] looks at the REQUEST ([rq_is_mn rq] = false), finds no single-node state and releases
    nothing (branch [| _ => Ok c]); the task is removed while the worker keeps [Mn t].
    No panic on the way.  The history is excluded exactly by the [UFailed] case of
    [RejHyp.reject_fresh] (added because of this witness): [run_fresh] is false on it. *)
From HQ Require Import Base.Prelude Cluster.Types Cluster.Core Cluster.Reactor Cluster.Worker Cluster.Server Cluster.Sys Cluster.Monitors Cluster.RejHyp.
From Coq Require Import ZArith.
Local Open Scope N_scope.

Definition mn_on_sn_ops : list op :=
  [OpConnect [4;0;0] 0;
   OpSubmit None [] None (mkRq 0 [1;0;0]) 0%Z CUnl false None;
   OpSched (mkSol [] [(0,0,[[1]])] [1] []);          (* multi-node placement for request 0, which is single-node *)
   OpFailNext 1 (1,0);
   OpDDown 1 [];                                      (* NewRq *)
   OpDDown 1 [];                                      (* ComputeTasks: the launch fails *)
   OpDUp 1].                                          (* TaskFailed reaches the server *)

Example worker_sets_invariant_false :
  run_fresh (init_sys 0 0) mn_on_sn_ops = false /\
  exists s outs, run (init_sys 0 0) mn_on_sn_ops = Ok (s, outs) /\
    c_tasks (s_core s) = [] /\
    (exists wk, c_workers (s_core s) = [wk] /\ w_assign wk = Mn (1,0) true) /\
    forallb (worker_sets_ok (s_core s)) (c_workers (s_core s)) = false.
Proof.
  split; [vm_compute; reflexivity|].
  destruct (run (init_sys 0 0) mn_on_sn_ops) as [[s outs]| |] eqn:E; [|vm_compute in E; discriminate | vm_compute in E; discriminate].
  exists s, outs. split; [reflexivity|]. vm_compute in E. inversion E; subst. cbn.
  split; [reflexivity|]. split; [eexists; split; reflexivity | reflexivity].
Qed.
