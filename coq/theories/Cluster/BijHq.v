(** C02 bijection, part 3: what the job layer's functions do to the set of ACTIVE (waiting or
    running) tasks, and that they never touch the core. *)
From HQ Require Import Base.Prelude Cluster.Types Cluster.Core Cluster.Reactor Cluster.Worker Cluster.Server Cluster.Sys Cluster.ProofsJob Cluster.ProofsMore Cluster.ProofsTerminal Cluster.ProofsStep Cluster.BijBase.
From Coq Require Import ZArith Lia.
Local Open Scope N_scope.

Arguments N.add : simpl never.
Arguments N.sub : simpl never.

Definition core_same (s s' : st) : Prop := core_of s' = core_of s.

Lemma jt_get s id site j : hq_get_job s id site = Ok j -> jt s id = Some (j_tasks j) /\ j_id j = id.
Proof.
  unfold hq_get_job, jt, hq_of. destruct (find_job _ id) as [j0|] eqn:E; [|discriminate].
  intros H; inversion H; subst. split; [reflexivity | eapply find_job_id; exact E].
Qed.

(** * check_termination *)
Lemma check_termination_jt s jid s' : check_termination s jid = Ok s' -> core_same s s' /\ forall id, jt s' id = jt s id.
Proof.
  unfold check_termination. intros H. apply bind_ok in H. destruct H as (j & Hj & H).
  apply bind_ok in H. destruct H as (na & _ & H).
  destruct (jt_get _ _ _ _ Hj) as [Ej Eid].
  destruct na; [|inversion H; subst; split; [reflexivity | auto]].
  destruct (j_open j); inversion H; subst; (split; [reflexivity|]); [auto|].
  intros id. rewrite jt_emit, jt_set_job. cbn [j_id job_upd j_tasks].
  destruct (N.eqb id (j_id j)) eqn:E; [apply N.eqb_eq in E; subst id; symmetry; exact Ej | reflexivity].
Qed.

(** * One task changes its state *)
Lemma active_set_one s s' t l v v' :
  jt s (fst t) = Some l -> jt_find l (snd t) = Some v ->
  (forall id, jt s' id = if N.eqb id (fst t) then Some (jt_set l (snd t) v') else jt s id) ->
  forall x, active s' x <-> (if tid_eqb x t then jactive (Some v') else active s x).
Proof.
  intros Hl Hv E x. unfold active. rewrite E.
  destruct (N.eqb (fst x) (fst t)) eqn:E1.
  - apply N.eqb_eq in E1. unfold tid_eqb. rewrite E1, N.eqb_refl. cbn [andb].
    rewrite Hl. destruct (N.eqb (snd x) (snd t)) eqn:E2.
    + split.
      * intros (l0 & Hl0 & Ha). inversion Hl0; subst l0. rewrite jt_find_set, E2 in Ha. exact Ha.
      * intros Ha. eexists. split; [reflexivity|]. rewrite jt_find_set, E2. exact Ha.
    + split.
      * intros (l0 & Hl0 & Ha). inversion Hl0; subst l0. rewrite jt_find_set, E2 in Ha. eauto.
      * intros (l0 & Hl0 & Ha). inversion Hl0; subst l0. eexists. split; [reflexivity|]. rewrite jt_find_set, E2. exact Ha.
  - unfold tid_eqb. rewrite E1. cbn [andb]. reflexivity.
Qed.

Lemma active_unchanged_one s s' t l v v' :
  jt s (fst t) = Some l -> jt_find l (snd t) = Some v -> jactive (Some v) -> jactive (Some v') ->
  (forall id, jt s' id = if N.eqb id (fst t) then Some (jt_set l (snd t) v') else jt s id) ->
  forall x, active s' x <-> active s x.
Proof.
  intros Hl Hv A A' E x. rewrite (active_set_one _ _ _ _ _ _ Hl Hv E).
  destruct (tid_eqb x t) eqn:Ex; [|reflexivity]. apply tid_eqb_eq in Ex. subst x.
  split; [intros _; exists l; split; [exact Hl | rewrite Hv; exact A] | intros _; exact A'].
Qed.

Lemma active_removed_one s s' t l v v' :
  jt s (fst t) = Some l -> jt_find l (snd t) = Some v -> ~ jactive (Some v') ->
  (forall id, jt s' id = if N.eqb id (fst t) then Some (jt_set l (snd t) v') else jt s id) ->
  forall x, active s' x <-> active s x /\ x <> t.
Proof.
  intros Hl Hv A' E x. rewrite (active_set_one _ _ _ _ _ _ Hl Hv E).
  destruct (tid_eqb x t) eqn:Ex.
  - apply tid_eqb_eq in Ex. subst x. split; [intros H; contradiction | intros [_ H]; congruence].
  - apply tid_eqb_neq in Ex. tauto.
Qed.

Lemma not_active_F : ~ jactive (Some JF). Proof. intros [H|H]; discriminate. Qed.
Lemma not_active_X : ~ jactive (Some JX). Proof. intros [H|H]; discriminate. Qed.
Lemma not_active_C : ~ jactive (Some JC). Proof. intros [H|H]; discriminate. Qed.
Lemma not_active_A : ~ jactive (Some JA). Proof. intros [H|H]; discriminate. Qed.
Lemma active_W : jactive (Some JW). Proof. left; reflexivity. Qed.
Lemma active_R : jactive (Some JR). Proof. right; reflexivity. Qed.

Lemma process_task_started_active s t i ws rv s' :
  process_task_started s t i ws rv = Ok s' -> core_same s s' /\ forall x, active s' x <-> active s x.
Proof.
  unfold process_task_started. intros H. apply bind_ok in H. destruct H as (j & Hj & H).
  destruct (jt_get _ _ _ _ Hj) as [Ej Eid].
  destruct (jt_find (j_tasks j) (snd t)) as [v|] eqn:Ef; [|discriminate].
  inversion H; subst. split; [reflexivity|].
  destruct v; try (apply active_same; intros id; rewrite jt_emit, jt_set_job;
    destruct (N.eqb id (j_id j)) eqn:E; [apply N.eqb_eq in E; subst id; rewrite Eid; symmetry; exact Ej | reflexivity]).
  eapply (active_unchanged_one s _ t _ JW JR Ej Ef active_W active_R).
  intros id. rewrite jt_emit, jt_set_job. cbn [j_id job_upd j_tasks]. rewrite Eid. reflexivity.
Qed.

Lemma process_task_finished_active s t s' :
  process_task_finished s t = Ok s' -> core_same s s' /\ forall x, active s' x <-> active s x /\ x <> t.
Proof.
  unfold process_task_finished. intros H. apply bind_ok in H. destruct H as (j & Hj & H).
  destruct (jt_get _ _ _ _ Hj) as [Ej Eid].
  destruct (jt_find (j_tasks j) (snd t)) as [v|] eqn:Ef; [|discriminate].
  destruct v; try discriminate. apply bind_ok in H. destruct H as (nr & _ & H).
  destruct (check_termination_jt _ _ _ H) as [C1 J1]. split; [unfold core_same in *; rewrite C1; reflexivity|].
  eapply (active_removed_one s _ t _ JR JF Ej Ef not_active_F).
  intros id. rewrite J1, jt_emit, jt_set_job. cbn [j_id job_upd j_tasks]. rewrite Eid. reflexivity.
Qed.

Lemma set_waiting_state_active s t s' :
  set_waiting_state s t = Ok s' -> core_same s s' /\ forall x, active s' x <-> active s x.
Proof.
  unfold set_waiting_state. intros H. apply bind_ok in H. destruct H as (j & Hj & H).
  destruct (jt_get _ _ _ _ Hj) as [Ej Eid].
  destruct (jt_find (j_tasks j) (snd t)) as [v|] eqn:Ef; [|discriminate].
  destruct v; try (inversion H; subst; split; [reflexivity | reflexivity]).
  apply bind_ok in H. destruct H as (nr & _ & H). inversion H; subst. split; [reflexivity|].
  eapply (active_unchanged_one s _ t _ JR JW Ej Ef active_R active_W).
  intros id. rewrite jt_set_job. cbn [j_id job_upd j_tasks]. rewrite Eid. reflexivity.
Qed.

Lemma set_waiting_all_active ts : forall s s',
  set_waiting_all s ts = Ok s' -> core_same s s' /\ forall x, active s' x <-> active s x.
Proof.
  induction ts as [|t r IH]; cbn [set_waiting_all]; intros s s' H; [inversion H; subst; split; reflexivity|].
  apply bind_ok in H. destruct H as (s1 & H1 & H).
  destruct (set_waiting_state_active _ _ _ H1) as [C1 A1]. destruct (IH _ _ H) as [C2 A2].
  split; [unfold core_same in *; congruence|]. intros x. rewrite A2, A1. reflexivity.
Qed.

Lemma process_worker_lost_active s w running reason s' :
  process_worker_lost s w running reason = Ok s' -> core_same s s' /\ forall x, active s' x <-> active s x.
Proof.
  unfold process_worker_lost. intros H. apply bind_ok in H. destruct H as (s1 & H1 & H). inversion H; subst.
  destruct (set_waiting_all_active _ _ _ H1) as [C1 A1]. split; [exact C1 | exact A1].
Qed.

(** * Marking a list of tasks canceled / aborted *)
Definition snd_mem (k : N) (ids : list tid) : bool := existsb (fun t => N.eqb (snd t) k) ids.

Lemma mark_tasks_find target site ids : forall j j',
  mark_tasks j ids target site = Ok j' ->
  j_id j' = j_id j /\
  (forall t, In t ids -> fst t = j_id j) /\
  (forall k, jt_find (j_tasks j') k = if snd_mem k ids then Some target else jt_find (j_tasks j) k).
Proof.
  induction ids as [|t r IH]; cbn [mark_tasks snd_mem existsb]; intros j j' H.
  - inversion H; subst. split; [reflexivity | split; [intros t [] | reflexivity]].
  - destruct (negb (N.eqb (fst t) (j_id j))) eqn:Ej; [discriminate|].
    apply negb_false_iff in Ej. apply N.eqb_eq in Ej.
    destruct (jt_find (j_tasks j) (snd t)) as [v|] eqn:Ef; [|discriminate].
    assert (Hstep : forall j1, j_id j1 = j_id j -> j_tasks j1 = jt_set (j_tasks j) (snd t) target ->
              mark_tasks j1 r target site = Ok j' ->
              j_id j' = j_id j /\ (forall t0, t = t0 \/ In t0 r -> fst t0 = j_id j) /\
              (forall k, jt_find (j_tasks j') k = if N.eqb (snd t) k || existsb (fun t0 => N.eqb (snd t0) k) r then Some target else jt_find (j_tasks j) k)).
    { intros j1 Hid Ht H1. destruct (IH _ _ H1) as (I1 & I2 & I3). split; [congruence|]. split.
      - intros t0 [<-|Hin]; [exact Ej | rewrite <- Hid; apply I2; exact Hin].
      - intros k. rewrite I3. fold (snd_mem k r). destruct (snd_mem k r); [rewrite orb_true_r; reflexivity|].
        rewrite orb_false_r, Ht, jt_find_set. rewrite (N.eqb_sym k). reflexivity. }
    destruct v; try discriminate.
    + eapply Hstep; [| |exact H]; reflexivity.
    + apply bind_ok in H. destruct H as (nr & _ & H). eapply Hstep; [| |exact H]; reflexivity.
Qed.

Lemma snd_mem_in k ids jid : (forall t, In t ids -> fst t = jid) -> (snd_mem k ids = true <-> In (jid, k) ids).
Proof.
  intros Hj. unfold snd_mem. rewrite existsb_exists. split.
  - intros (t & Hin & E). apply N.eqb_eq in E. specialize (Hj _ Hin). destruct t as [a b]. cbn in *. subst. exact Hin.
  - intros Hin. exists (jid, k). split; [exact Hin | apply N.eqb_refl].
Qed.

(** The common shape of [abort_tasks] and [set_cancel_state]. *)
Lemma mark_active s jid j j1 j2 ids target site s2 :
  ~ jactive (Some target) ->
  hq_get_job s jid 207 = Ok j -> mark_tasks j ids target site = Ok j1 ->
  j_id j2 = j_id j1 -> j_tasks j2 = j_tasks j1 ->
  (forall id, jt s2 id = jt (hq_set_job s j2) id) ->
  forall x, active s2 x <-> active s x /\ ~ In x ids.
Proof.
  intros Hna Hj Hm Hid Ht E x. destruct (jt_get _ _ _ _ Hj) as [Ej Eid].
  destruct (mark_tasks_find _ _ _ _ _ Hm) as (M1 & M2 & M3).
  unfold active. rewrite E, jt_set_job, Hid, M1, Eid, Ht.
  destruct (N.eqb (fst x) jid) eqn:E1.
  - apply N.eqb_eq in E1. rewrite E1, Ej. rewrite Eid in M2.
    pose proof (snd_mem_in (snd x) ids jid M2) as Hmem.
    assert (Hx : x = (jid, snd x)) by (destruct x; cbn in *; subst; reflexivity).
    split.
    + intros (l0 & Hl0 & Ha). inversion Hl0; subst l0. rewrite M3 in Ha.
      destruct (snd_mem (snd x) ids) eqn:Em; [contradiction|].
      split; [eauto|]. intros Hin. rewrite Hx in Hin. apply Hmem in Hin. congruence.
    + intros [(l0 & Hl0 & Ha) Hn]. inversion Hl0; subst l0. eexists. split; [reflexivity|]. rewrite M3.
      destruct (snd_mem (snd x) ids) eqn:Em; [exfalso; apply Hn; rewrite Hx; apply Hmem; reflexivity | exact Ha].
  - split; [intros H; split; [exact H|] | intros [H _]; exact H].
    intros Hin. apply M2 in Hin. rewrite Eid in Hin. rewrite Hin, N.eqb_refl in E1. discriminate.
Qed.

Lemma abort_tasks_active s jid ids s' :
  abort_tasks s jid ids = Ok s' -> core_same s s' /\ forall x, active s' x <-> active s x /\ ~ In x ids.
Proof.
  unfold abort_tasks. destruct ids as [|i0 ir] eqn:Eids; [intros H; inversion H; subst; split; [reflexivity | intros x; cbn; tauto]|].
  rewrite <- Eids. intros H. apply bind_ok in H. destruct H as (j & Hj & H). apply bind_ok in H. destruct H as (j1 & Hm & H).
  destruct (check_termination_jt _ _ _ H) as [C1 J1]. split; [unfold core_same in *; rewrite C1; reflexivity|].
  match type of H with check_termination (emit (hq_set_job s ?j2) _) _ = _ =>
    eapply (mark_active s jid j j1 j2 ids JA 206 s' not_active_A Hj Hm) end; [reflexivity | reflexivity|].
  intros id. rewrite J1, jt_emit. reflexivity.
Qed.

Lemma set_cancel_state_active s jid ids s' :
  set_cancel_state s jid ids = Ok s' -> core_same s s' /\ forall x, active s' x <-> active s x /\ ~ In x ids.
Proof.
  unfold set_cancel_state. destruct ids as [|i0 ir] eqn:Eids; [intros H; inversion H; subst; split; [reflexivity | intros x; cbn; tauto]|].
  rewrite <- Eids. intros H. apply bind_ok in H. destruct H as (j & Hj & H). apply bind_ok in H. destruct H as (j1 & Hm & H).
  destruct (check_termination_jt _ _ _ H) as [C1 J1]. split; [unfold core_same in *; rewrite C1; reflexivity|].
  match type of H with check_termination (emit (emit (hq_set_job s ?j2) _) _) _ = _ =>
    eapply (mark_active s jid j j1 j2 ids JC 205 s' not_active_C Hj Hm) end; [reflexivity | reflexivity|].
  intros id. rewrite J1, !jt_emit. reflexivity.
Qed.

(** * The list of tasks without outcome *)
Lemma jsorted_find l k v : jsorted l -> In (k, v) l -> jt_find l k = Some v.
Proof.
  induction l as [|[k0 v0] r IH]; [intros _ []|]. intros Hs [Heq|Hin]; cbn [jt_find].
  - inversion Heq; subst. rewrite N.eqb_refl. reflexivity.
  - cbn in Hs. destruct Hs as [Hlt Hs']. destruct (N.eqb k k0) eqn:E.
    + apply N.eqb_eq in E. subst k0. specialize (Hlt _ _ Hin). lia.
    + apply IH; assumption.
Qed.

Lemma non_finished_in j x :
  jsorted (j_tasks j) ->
  (In x (non_finished_task_ids j) <-> fst x = j_id j /\ jactive (jt_find (j_tasks j) (snd x))).
Proof.
  intros Hs. unfold non_finished_task_ids. rewrite in_map_iff. split.
  - intros ([k v] & Ex & Hin). apply filter_In in Hin. destruct Hin as [Hin Hv]. cbn in *. subst x. cbn.
    split; [reflexivity|]. rewrite (jsorted_find _ _ _ Hs Hin). destruct v; try discriminate; [left | right]; reflexivity.
  - intros [Hj Ha]. destruct (jt_find (j_tasks j) (snd x)) as [v|] eqn:Ef; [|destruct Ha; discriminate].
    exists (snd x, v). split; [destruct x; cbn in *; subst; reflexivity|].
    apply filter_In. split; [apply jt_find_in; exact Ef|]. cbn. destruct Ha as [Ha|Ha]; inversion Ha; reflexivity.
Qed.
