(** C14 / C03, "tasks are aborted only with a cause", part 4: every operation that creates no job.

    [step_plain]: for a state with the proved invariants ([INV]) and an operation other than a
    submit / open, the outputs of the step satisfy the clean form [AC], the jobs change as [JE]
    says (no job appears, limits and ids unchanged, failure counters grow by the [EvFailed] events,
    no submit is answered), and every task of the core after the step was there before with the
    same dependency list ([dsub]). *)
From HQ Require Import Base.Prelude Cluster.Types Cluster.Core Cluster.Reactor Cluster.Worker Cluster.Server Cluster.Sys Cluster.Monitors Cluster.ProofsJob Cluster.ProofsMore Cluster.ProofsTerminal Cluster.ProofsStep Cluster.ProofsFinal Cluster.BijBase Cluster.BijCore Cluster.BijHq Cluster.BijSt Cluster.BijReact Cluster.BijFinal Cluster.ProofsOnce Cluster.StartFinBase Cluster.RejHyp Cluster.InvWFinal Cluster.InvQStep Cluster.InvDBase Cluster.InvDMap Cluster.InvDSpec Cluster.InvDRem Cluster.InvDReact Cluster.InvDSched Cluster.InvDHq Cluster.InvDStep Cluster.InvAll Cluster.InvBundle Cluster.DepOrderBase Cluster.DepOrderReact Cluster.DepOrderStep Cluster.AbortCauseBase Cluster.AbortCauseJob Cluster.AbortCauseReact.
From Coq Require Import ZArith Lia.
Local Open Scope N_scope.

Arguments N.add : simpl never.
Arguments N.sub : simpl never.

(** * Worker loss (the split of DepOrderStep.v, with the job-layer frame added) *)
Lemma on_remove_worker_split2 s w reason a p t s' :
  W s -> QA (core_of s) -> WSTMT (core_of s) -> on_remove_worker s w reason a p t = Ok s' ->
  exists s6 s7 running, LK s s6 /\ JQ s s6 /\ lost_fail_running s6 reason running = Ok s7 /\ s' = ask_scheduling s7.
Proof.
  intros HW Q HWS H. unfold on_remove_worker in H.
  destruct (find_worker _ w) as [wk|] eqn:Efw; [|discriminate].
  apply bind_ok in H. destruct H as ([[c2 running] retracted] & Hr & H).
  set (c0 := with_workers (core_of s) (del_worker (c_workers (core_of s)) w)) in *.
  pose proof (w_cb _ HW) as HC.
  assert (Hs0 : CS c0) by exact (cb_s _ HC).
  assert (E2 : keys c2 = K s /\ scr (core_of s) c2).
  { destruct (w_assign wk) as [a0 p0 f0|mt root] eqn:Ea.
    - destruct (negb _) eqn:Eperm; [discriminate|]. apply negb_false_iff in Eperm. apply andb_true_iff in Eperm. destruct Eperm as [Pa Pp].
      apply bind_ok in Hr. destruct Hr as (c1 & Hp & Hr).
      pose proof (lost_prefilled_frame _ _ _ Hs0 Hp) as E1.
      assert (Q0 : QA c0) by (eapply QA_tasks_queues; [| |exact Q]; reflexivity).
      destruct (lost_prefilled_QA _ _ _ Q0 Hp) as [S1 _].
      assert (S01 : scr (core_of s) c1) by (eapply scr_trans; [apply (scr_tasks _ c0); reflexivity | exact S1]).
      split.
      + rewrite (lost_assigned_frame _ _ _ _ _ _ _ (CS_keys _ _ E1 Hs0) Hr). exact E1.
      + eapply scr_trans; [exact S01|]. eapply lost_assigned_scr; [|exact Hr].
        eapply zlist_scr; [exact S01|]. intros id tk Hin Ef. eapply (WSTMT_assigned _ _ _ _ _ _ HWS Efw Ea); [|exact Ef].
        eapply perm_of_set_sub; eassumption.
    - apply bind_ok in Hr. destruct Hr as (tk & Ht & Hr). pose proof (get_task_find _ _ _ Ht) as Ht'.
      destruct (t_state tk) eqn:Est; try discriminate. destruct ws as [|w0 rest]; [discriminate|].
      destruct (N.eqb w w0).
      + apply bind_ok in Hr. destruct Hr as (c1 & Hc1 & Hr). apply bind_ok in Hr. destruct Hr as ([qs ret] & _ & Hr).
        inversion Hr; subst.
        pose proof (reset_mn_all_frame _ _ _ Hc1) as E1.
        pose proof (reset_mn_all_tasks _ _ _ Hc1) as T1.
        split.
        * change (keys (upd_task c1 (with_inst (with_state tk (Waiting 0)) (t_inst tk + 1))) = K s).
          transitivity (keys c1); [|exact E1].
          apply (upd_task_frame c1 mt tk); [eapply CS_keys; [exact E1 | exact Hs0] | rewrite T1; exact Ht' | reflexivity | reflexivity].
        * eapply (scr_upd _ c1 _ mt tk); [exact T1 | exact Ht' | reflexivity | edges | cbn; ststep].
      + inversion Hr; subst. split.
        * apply (upd_task_frame c0 mt tk); [exact Hs0 | exact Ht' | reflexivity | reflexivity].
        * eapply (scr_upd _ c0 _ mt tk); [reflexivity | exact Ht' | reflexivity | edges | ststep]. }
  destruct E2 as [E2 S2].
  destruct (negb (perm_of_set t _)); [discriminate|].
  apply bind_ok in H. destruct H as (s3 & H3 & H). apply bind_ok in H. destruct H as (s4 & H4 & H).
  apply bind_ok in H. destruct H as (s6 & H6 & H). apply bind_ok in H. destruct H as (s7 & H7 & H). inversion H; subst.
  exists s6, s7, running.
  match type of H3 with lost_retracting ?sx _ _ = _ => set (s2 := sx) in * end.
  assert (HC2 : CB s2) by (eapply CB_same; [exact E2 | reflexivity | exact HC]).
  pose proof (lost_retracting_K _ _ _ _ (cb_s _ HC2) H3) as K3. pose proof (lost_retracting_same _ _ _ _ H3) as Q3.
  assert (HC3 : CB s3) by (eapply CB_same; [exact K3 | exact Q3 | exact HC2]).
  pose proof (process_retracted_K _ _ _ (cb_s _ HC3) H4) as K4. pose proof (process_retracted_hq _ _ _ H4) as Q4.
  pose proof (lost_retracting_scr _ _ _ _ H3) as S3. cbn in S3.
  pose proof (process_retracted_scr _ _ _ H4) as S4.
  pose proof (lost_retracting_snd _ _ _ _ H3) as N3. pose proof (process_retracted_snd _ _ _ H4) as N4.
  set (s5 := broadcast s4 (DLostWorker w)) in *.
  assert (Eh5 : hq_of s5 = hq_of s) by (change (hq_of s4 = hq_of s); unfold hq_same in Q3; rewrite Q4, Q3; reflexivity).
  assert (Es5 : snd s5 = snd s) by (change (snd s4 = snd s); rewrite N4, N3; reflexivity).
  split; [|split; [|split; [exact H7 | reflexivity]]].
  - assert (L5 : LK s s5).
    { apply (LK_quiet s s5 []); [| | reflexivity |].
      - apply W_same_keys.
        + change (scr (core_of s) (core_of s4)). eapply scr_trans; [exact S2|]. eapply scr_trans; [exact S3 | exact S4].
        + change (K s4 = K s). rewrite K4, K3. exact E2.
        + exact Eh5.
      - rewrite app_nil_r. exact Es5.
      - intros _ x Hx. apply (active_same s s5); [apply jt_same; exact Eh5 | exact Hx]. }
    eapply LK_trans; [exact L5|].
    destruct (process_worker_lost_active _ _ _ _ _ H6) as [C6 A6]. unfold core_same in C6.
    destruct (process_worker_lost_ext _ _ _ _ _ H6) as (q & Eq & Hq).
    apply (LK_quiet s5 s6 q); [| exact Eq | exact Hq | intros _ x Hx; apply A6; exact Hx].
    intros HW5. apply (W_next s5 s6 HW5).
    + rewrite C6. apply RL_refl. exact (w_gd _ HW5).
    + eapply CB_frame; [unfold K; rewrite C6; reflexivity | exact A6 | exact (w_cb _ HW5)].
    + eapply process_worker_lost_ok; [exact (w_hok _ HW5) | exact H6].
    + eapply process_worker_lost_KL; exact H6.
  - eapply (JQ_start s5 s); [exact Eh5 | exact Es5 | eapply process_worker_lost_JQ; exact H6].
Qed.

Lemma AK_on_remove_worker s w reason a p t s' :
  QA (core_of s) -> WSTMT (core_of s) -> on_remove_worker s w reason a p t = Ok s' -> AK s s'.
Proof.
  intros Q HWS H. split; [eapply LK_on_remove_worker; eassumption|]. intros HW.
  destruct (on_remove_worker_split2 _ _ _ _ _ _ _ HW Q HWS H) as (s6 & s7 & running & L6 & Q6 & H7 & ->).
  assert (A : AK s (ask_scheduling s7)).
  { eapply AK_trans; [apply AK_quiet; [exact L6 | exact Q6]|].
    eapply AK_trans; [eapply AK_lost_fail_running; exact H7|].
    apply AK_quiet; [apply LK_same_tasks; reflexivity | apply JQ_same; reflexivity]. }
  exact (proj2 A HW).
Qed.

(** * Frames *)
Lemma JE_same_ext s s' ext : hq_of s' = hq_of s -> forallb nsb ext = true -> forallb nfb ext = true -> JE s s' ext.
Proof.
  intros E N F. constructor; [exact N | | unfold cnt_of; rewrite E; reflexivity | intros k H; exfalso; apply H; apply onfailed_nf; exact F].
  intros k j' H. unfold jobs in *. rewrite E in H. exists j'. split; [exact H|]. split; [reflexivity|]. split; [apply same_ids_refl|].
  rewrite (onfailed_nf _ _ F). lia.
Qed.

Lemma forallb_launch (f : out -> bool) ls : (forall l, f (OLaunch l) = true) -> forallb f (map OLaunch ls) = true.
Proof. intros H. induction ls as [|l r IH]; [reflexivity|]. cbn [map forallb]. rewrite H, IH. reflexivity. Qed.

Lemma AC_shift s0 s q ext :
  core_of s0 = core_of s -> hq_of s0 = hq_of s -> NA q -> forallb nfb q = true -> AC s ext -> AC s0 (q ++ ext).
Proof.
  intros Ec Eh Aq Fq C pre ts post x E Hx. destruct (app_decomp _ _ _ _ _ E) as [(m & Em & _)|(m & Em & Ep)].
  - exfalso. apply (NA_in _ ts Aq). rewrite Em. apply in_elt.
  - destruct (C m ts post x Ep Hx) as [A|(j & mf & A & B & D)]; [left; rewrite Ec; exact A|].
    right. exists j, mf. unfold jobs in *. rewrite Eh. split; [exact A|]. split; [exact B|].
    rewrite Em, onfailed_app, (onfailed_nf _ _ Fq). lia.
Qed.

Lemma dsub_tasks c c' : c_tasks c' = c_tasks c -> dsub (fm c) (fm c').
Proof. intros E. apply dsub_ext. intros x. unfold fm. rewrite E. reflexivity. Qed.
Lemma scr_dsub c c' : scr c c' -> dsub (fm c) (fm c').
Proof. intros [_ S]. apply SC_dsub. exact S. Qed.

Lemma find_job_del_some js id k j : find_job (del_job js id) k = Some j -> find_job js k = Some j.
Proof.
  destruct (N.eq_dec k id) as [->|Hne]; [rewrite find_job_del_same; discriminate|].
  rewrite find_job_del by exact Hne. auto.
Qed.

Ltac jq_emit := match goal with |- JQ (?s, []) (?s, [?o]) => exact (JQ_emit (s, []) o eq_refl eq_refl eq_refl) end.

(** * One operation *)
Definition is_creating (o : op) : bool :=
  match o with OpSubmit _ _ _ _ _ _ _ _ | OpSubmitG _ _ _ _ | OpOpen _ => true | _ => false end.

Record PLAIN (s s' : sys) (outs : list out) : Prop := mkPLAIN {
  pl_je : JE (s, []) (s', outs) outs;
  pl_ac : AC (s, []) outs;
  pl_dsub : dsub (fm (s_core s)) (fm (s_core s'))
}.

Lemma PLAIN_quiet s s' outs :
  hq_of (s', outs) = hq_of (s, []) -> forallb nsb outs = true -> forallb nfb outs = true -> NA outs ->
  dsub (fm (s_core s)) (fm (s_core s')) -> PLAIN s s' outs.
Proof. intros E N F A S. constructor; [apply JE_same_ext; assumption | apply AC_NA; exact A | exact S]. Qed.

Lemma PLAIN_JQ s s' outs : JQ (s, []) (s', outs) -> dsub (fm (s_core s)) (fm (s_core s')) -> PLAIN s s' outs.
Proof.
  intros (ext & E & J & A) S. cbn [snd app] in E. subst ext. constructor; [exact J | apply AC_NA; exact A | exact S].
Qed.

Theorem step_plain s o s' outs :
  INV s -> is_creating o = false -> step s o = Ok (s', outs) -> PLAIN s s' outs.
Proof.
  intros HI Hc H. pose proof (INV_W _ HI) as HW.
  assert (HQA : QA (s_core s)).
  { apply QSTMT_QA. destruct (inv_qs _ HI) as (_ & Q1 & Q2 & _). split; assumption. }
  destruct o; try discriminate Hc; cbn [step] in H.
  - (* connect *)
    unfold on_new_worker in H. inversion H; subst. apply PLAIN_quiet; try reflexivity. apply dsub_tasks. reflexivity.
  - (* worker lost *)
    destruct (find_proc _ w); [|discriminate].
    pose proof (AK_on_remove_worker (s, []) _ _ _ _ _ _ HQA (WI_worker_sets_ok _ (inv_w _ HI)) H) as A.
    destruct A as [L A]. destruct (A HW) as (ext & E & J & C). cbn [snd app] in E. subst ext.
    destruct (L HW) as (_ & S & _). constructor; [exact J | exact C | exact S].
  - (* close *)
    unfold handle_close in H.
    destruct (find_job (hq_jobs (s, [])) j) as [jb|] eqn:Ef;
      [|inversion H; subst; apply PLAIN_quiet; try reflexivity; apply dsub_refl].
    destruct (j_open jb) eqn:Eo; [|inversion H; subst; apply PLAIN_quiet; try reflexivity; apply dsub_refl].
    apply bind_ok in H. destruct H as (s1 & H1 & H). inversion H; subst s' outs. clear H.
    apply PLAIN_JQ.
    + assert (Hf : find_job (jobs (s, [])) (j_id jb) = Some jb) by (rewrite (find_job_id _ _ _ Ef); exact Ef).
      match type of H1 with check_termination (emit (hq_set_job _ ?jx) ?o1) _ = _ =>
        eapply (JQ_set_then (s, []) jb jx o1); [exact Hf | reflexivity | apply same_ids_refl | reflexivity | reflexivity | reflexivity | reflexivity | reflexivity|] end.
      eapply JQ_trans; [eapply check_termination_JQ; exact H1 | apply JQ_emit; reflexivity].
    + apply dsub_tasks. destruct (check_termination_jt _ _ _ H1) as [C1 _]. unfold core_same in C1.
      change (c_tasks (core_of s1) = c_tasks (s_core s)). rewrite C1. reflexivity.
  - (* cancel *)
    assert (S : dsub (fm (s_core s)) (fm (s_core s'))).
    { destruct (LK_handle_cancel _ _ _ H HW) as (_ & S & _). exact S. }
    apply PLAIN_JQ; [|exact S]. unfold handle_cancel in H.
    destruct (find_job (hq_jobs (s, [])) j) as [jb|] eqn:Ef; [|inversion H; subst; jq_emit].
    destruct (non_finished_task_ids jb) as [|i0 ir] eqn:En; [inversion H; subst; jq_emit|].
    apply bind_ok in H. destruct H as (s1 & H1 & H). apply bind_ok in H. destruct H as (al & _ & H).
    apply bind_ok in H. destruct H as (s2 & H2 & H). inversion H; subst s' outs. clear H.
    eapply JQ_trans; [apply JQ_same; [eapply on_cancel_tasks_hq; exact H1 | eapply on_cancel_tasks_snd; exact H1]|].
    eapply JQ_trans; [eapply set_cancel_state_JQ; exact H2 | apply JQ_emit; reflexivity].
  - (* forget *)
    unfold handle_forget in H. destruct (find_job _ j) as [jb|] eqn:Ef; [|inversion H; subst; apply PLAIN_quiet; try reflexivity; apply dsub_refl].
    apply bind_ok in H. destruct H as (na & _ & H).
    destruct (negb (j_open jb) && na); inversion H; subst; [|apply PLAIN_quiet; try reflexivity; apply dsub_refl].
    constructor; [|apply AC_NA; reflexivity | apply dsub_refl].
    constructor; [reflexivity | | reflexivity | intros k Hk; exfalso; apply Hk; reflexivity].
    intros k j' Hj'. unfold jobs, hq_of, emit, hq_with in Hj'. cbn [fst s_hq with_hq h_jobs] in Hj'.
    apply find_job_del_some in Hj'. exists j'. split; [exact Hj'|]. split; [reflexivity|]. split; [apply same_ids_refl|]. cbn [onfailed ofailed1]. lia.
  - (* message to a worker *)
    destruct (find_proc _ w) as [p|]; [|discriminate]. destruct (p_down p); [discriminate|].
    inv_binds H. inversion H; subst. apply PLAIN_quiet; [reflexivity | | | | apply dsub_refl].
    + cbn [forallb nsb]. apply forallb_launch. reflexivity.
    + cbn [forallb nfb]. apply forallb_launch. reflexivity.
    + unfold NA. cbn [forallb nab]. apply forallb_launch. reflexivity.
  - (* message from a worker *)
    destruct (find_proc _ w) as [p|]; [|discriminate]. destruct (p_up p) as [|m rest]; [discriminate|].
    destruct m.
    + match type of H with on_task_update ?s1 _ _ = _ => pose proof (AK_on_task_update s1 _ _ _ H) as [L A]; set (sx := s1) in * end.
      assert (HWx : W sx) by (apply (proj1 (W_same_keys (s, []) sx (scr_tasks _ _ eq_refl) eq_refl eq_refl HW))).
      destruct (A HWx) as (ext & E & J & C). cbn [snd sx] in E. subst outs.
      destruct (L HWx) as (_ & S & _).
      constructor; [| apply (AC_shift (s, []) sx); try reflexivity; exact C | exact S].
      eapply JE_trans; [|exact J]. apply JE_same_ext; reflexivity.
    + pose proof H as H0. unfold on_retract_response in H. destruct (retract_response_states _ w ids []) as [c' groups] eqn:Er.
      apply bind_ok in H. destruct H as (s2 & H & H2).
      assert (Eo : outs = snd s2) by (destruct (retract_wakes _ _ _ _); inversion H2; subst; reflexivity).
      pose proof (send_redirected_snd _ _ _ H) as Es. cbn [snd st_core] in Es. rewrite Es in Eo. subst outs.
      apply PLAIN_quiet; try reflexivity.
      * exact (on_retract_response_same _ _ _ _ H0).
      * apply scr_dsub.
        match goal with |- scr _ (s_core s') => change (s_core s') with (core_of (s', [OUp w (URetractResponse ids)])) end.
        match type of H0 with on_retract_response ?s1 _ _ = _ =>
          apply (on_retract_response_scr s1 w ids); exact H0 end.
  - (* scheduling *)
    destruct (c_flag (s_core s)); [|discriminate].
    pose proof (run_scheduling_snd _ _ _ H) as Es. cbn [snd] in Es. subst outs.
    apply PLAIN_quiet; try reflexivity; [exact (run_scheduling_same _ _ _ H)|].
    apply scr_dsub. exact (run_scheduling_scr (s, []) _ _ HQA H).
  - destruct (find_proc _ w) as [p|]; [|discriminate]. inv_binds H. inversion H; subst.
    apply PLAIN_quiet; [reflexivity | | | | apply dsub_refl]; apply forallb_launch; reflexivity.
  - destruct (find_proc _ w) as [p|]; [|discriminate]. inversion H; subst. apply PLAIN_quiet; try reflexivity. apply dsub_refl.
  - inversion H; subst. apply PLAIN_quiet; try reflexivity. apply dsub_refl.
  - inv_binds H. inversion H; subst. apply PLAIN_quiet; try reflexivity. apply dsub_refl.
Qed.

Print Assumptions step_plain.
