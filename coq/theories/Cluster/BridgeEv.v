(** Bridge, part 2: one lemma per journal record kind (job-layer transition vs. [Gen.gstep]). *)
From HQ Require Import Base.Prelude Cluster.Types Cluster.Core Cluster.Reactor Cluster.Worker Cluster.Server Cluster.Sys Cluster.ProofsJob Cluster.ProofsMore.
From HQ Require Journal.Event Journal.Restore Journal.Gen Journal.Maps.
From HQ Require Import Cluster.Bridge Cluster.BridgeRel.
From Coq Require Import ZArith Lia.
Require Import ZifyBool ZifyN ZifyNat.
Local Open Scope N_scope.
Arguments N.add : simpl never.
Arguments N.ltb : simpl never.
Arguments N.eqb : simpl never.

(** [h'] is [h] with job [j] replaced by [jb']. *)
Definition UPD (h h' : hq) (j : N) (jb' : job) : Prop :=
  (forall id, find_job (h_jobs h') id = if N.eqb id j then Some jb' else find_job (h_jobs h) id)
  /\ h_counter h' = h_counter h.

Lemma RelJ_upd2 h h' g g1 j jb' gj' :
  RelJ h g -> UPD h h' j jb' -> j_completed jb' = false ->
  Event.lookup j (Gen.g_jobs g1) = Some gj' -> JRel jb' gj' ->
  (forall id, id <> j -> Event.lookup id (Gen.g_jobs g1) = Event.lookup id (Gen.g_jobs g)) ->
  Gen.g_max_job g1 = Gen.g_max_job g ->
  RelJ h' g1.
Proof.
  intros [HJ HM] [Hf Hc] Hcm Hl HR Ho Hmx. split; [|rewrite Hmx, Hc; exact HM].
  intros id. rewrite Hf. destruct (N.eqb id j) eqn:E.
  - apply N.eqb_eq in E. subst id. rewrite Hcm. eexists; split; [exact Hl | exact HR].
  - assert (id <> j) by (intros ->; rewrite N.eqb_refl in E; discriminate). rewrite Ho by assumption. exact (HJ id).
Qed.

Lemma RelJ_upd1 h h' g j jb' gj' :
  RelJ h g -> UPD h h' j jb' -> j_completed jb' = false -> JRel jb' gj' ->
  RelJ h' (Gen.g_set_jobs g (Event.insert j gj' (Gen.g_jobs g))).
Proof.
  intros HR HU Hc HJ. eapply RelJ_upd2; [exact HR | exact HU | exact Hc | | exact HJ | | reflexivity].
  - cbn. apply Maps.lookup_insert_eq.
  - intros id Hn. cbn. apply Maps.lookup_insert_neq. exact Hn.
Qed.

Lemma task_rel_upd jt jt' gt t v' x :
  task_rel jt gt ->
  (forall t', t' <> t -> jt_find jt' t' = jt_find jt t') -> jt_find jt' t = Some v' ->
  st_rel v' (Gen.gt_state x) ->
  task_rel jt' (Event.insert t x gt).
Proof.
  intros H Ho Hs Hst t'. rewrite Maps.lookup_insert. destruct (N.eqb t' t) eqn:E.
  - apply N.eqb_eq in E. subst t'. rewrite Hs. exact Hst.
  - assert (t' <> t) by (intros ->; rewrite N.eqb_refl in E; discriminate).
    rewrite Ho by assumption. apply H.
Qed.

Lemma task_rel_lookup jt gt t v : task_rel jt gt -> jt_find jt t = Some v ->
  exists x, Event.lookup t gt = Some x /\ st_rel v (Gen.gt_state x).
Proof. intros H Hf. specialize (H t). rewrite Hf in H. destruct (Event.lookup t gt) as [x|]; [eauto | contradiction]. Qed.

Lemma task_rel_lookup_inv jt gt t x : task_rel jt gt -> Event.lookup t gt = Some x ->
  exists v, jt_find jt t = Some v /\ st_rel v (Gen.gt_state x).
Proof. intros H Hl. specialize (H t). rewrite Hl in H. destruct (jt_find jt t) as [v|]; [eauto | contradiction]. Qed.

Lemma JRel_set jb jb' gj t v' x :
  JRel jb gj -> j_open jb' = j_open jb ->
  (forall t', t' <> t -> jt_find (j_tasks jb') t' = jt_find (j_tasks jb) t') -> jt_find (j_tasks jb') t = Some v' ->
  st_rel v' (Gen.gt_state x) ->
  JRel jb' (Gen.gj_set_task gj t x).
Proof.
  intros (Ho & Hn & Ht) Ho' Hother Hs Hst. split; [cbn; congruence|]. split; [apply nodup_set_task; exact Hn|].
  cbn. eapply task_rel_upd; eassumption.
Qed.

(** A closed job without pending tasks is terminated in [G]. *)
Lemma JRel_terminated jb gj :
  JRel jb gj -> j_open jb = false -> cnt (j_tasks jb) JR = 0 -> cnt (j_tasks jb) JW = 0 -> Gen.job_terminated gj = true.
Proof.
  intros (Ho & Hn & Ht) Hop Hr Hw. unfold Gen.job_terminated. rewrite Ho, Hop. cbn [negb andb].
  apply Bool.negb_true_iff. unfold Gen.job_active.
  destruct (existsb _ _) eqn:E; [|reflexivity]. exfalso.
  apply existsb_exists in E. destruct E as ([t x] & Hin & Hx). cbn [snd] in Hx. apply Bool.negb_true_iff in Hx.
  pose proof (Maps.in_lookup _ _ _ Hn Hin) as Hl.
  destruct (task_rel_lookup_inv _ _ _ _ Ht Hl) as (v & Hf & Hst).
  pose proof (cnt_pos _ _ _ Hf) as Hp. rewrite (g_terminal_st _ _ Hst) in Hx. destruct v; try discriminate; lia.
Qed.

(** A job with a pending task is active in [G]. *)
Lemma JRel_active jb gj t v : JRel jb gj -> jt_find (j_tasks jb) t = Some v -> (v = JW \/ v = JR) -> Gen.job_active gj = true.
Proof.
  intros (_ & _ & Ht) Hf Hv. destruct (task_rel_lookup _ _ _ _ Ht Hf) as (x & Hl & Hst).
  unfold Gen.job_active. apply existsb_exists. exists (t, x). split; [apply Maps.lookup_in; exact Hl|].
  cbn [snd]. rewrite (g_terminal_st _ _ Hst). destruct Hv as [-> | ->]; reflexivity.
Qed.

(** * TaskStarted (core record) *)
Lemma ev_started h h' j t inst ws jb jb' v :
  find_job (h_jobs h) j = Some jb -> jt_find (j_tasks jb) t = Some v -> UPD h h' j jb' ->
  j_completed jb' = j_completed jb -> j_open jb' = j_open jb ->
  (forall t', t' <> t -> jt_find (j_tasks jb') t' = jt_find (j_tasks jb) t') ->
  jt_find (j_tasks jb') t = Some (match v with JW => JR | _ => v end) ->
  SimE h [Event.ETaskStarted j t inst ws] h'.
Proof.
  intros Hfj Hft HU Hcm Hop Hother Hnew. apply SimE_one. intros g HR. cbn [Gen.gstep core_event].
  destruct (Event.lookup j (Gen.g_jobs g)) as [gj|] eqn:Elj; [|reflexivity].
  destruct (Event.lookup t (Gen.gj_tasks gj)) as [x|] eqn:Elt; [|reflexivity].
  destruct (Gen.gt_state x) eqn:Es; try reflexivity. destruct ws as [|w0 wr]; [reflexivity|].
  destruct (_ && _); [|reflexivity].
  destruct (RelJ_job_inv _ _ _ _ _ HR Hfj Elj) as (Hc & HJ).
  pose proof HJ as (_ & _ & Ht). specialize (Ht t). rewrite Hft, Elt, Es in Ht.
  eapply RelJ_upd1; [exact HR | exact HU | congruence|].
  eapply JRel_set; [exact HJ | exact Hop | exact Hother | exact Hnew|].
  cbn. destruct v; cbn in Ht |- *; try discriminate; reflexivity.
Qed.

(** * TaskFinished (core record) *)
Lemma ev_finished h h' j t jb jb' :
  find_job (h_jobs h) j = Some jb -> UPD h h' j jb' ->
  j_completed jb' = j_completed jb -> j_open jb' = j_open jb ->
  (forall t', t' <> t -> jt_find (j_tasks jb') t' = jt_find (j_tasks jb) t') ->
  jt_find (j_tasks jb') t = Some JF ->
  SimE h [Event.ETaskFinished j t] h'.
Proof.
  intros Hfj HU Hcm Hop Hother Hnew. apply SimE_one. intros g HR. cbn [Gen.gstep core_event].
  destruct (Event.lookup j (Gen.g_jobs g)) as [gj|] eqn:Elj; [|reflexivity].
  destruct (Event.lookup t (Gen.gj_tasks gj)) as [x|] eqn:Elt; [|reflexivity].
  destruct (Gen.gt_state x) eqn:Es; try reflexivity.
  destruct (RelJ_job_inv _ _ _ _ _ HR Hfj Elj) as (Hc & HJ).
  eapply RelJ_upd1; [exact HR | exact HU | congruence|].
  eapply JRel_set; [exact HJ | exact Hop | exact Hother | exact Hnew | reflexivity].
Qed.

(** * TaskFailed: never rejected *)
Lemma ev_failed h h' j t jb jb' v :
  JOK jb -> find_job (h_jobs h) j = Some jb -> jt_find (j_tasks jb) t = Some v -> (v = JW \/ v = JR) -> UPD h h' j jb' ->
  j_completed jb' = j_completed jb -> j_open jb' = j_open jb ->
  (forall t', t' <> t -> jt_find (j_tasks jb') t' = jt_find (j_tasks jb) t') ->
  jt_find (j_tasks jb') t = Some JX ->
  SimE h [Event.ETaskFailed j t] h'.
Proof.
  intros Hok Hfj Hft Hv HU Hcm Hop Hother Hnew. apply SimE_one. intros g HR. cbn [Gen.gstep core_event].
  assert (Hc : j_completed jb = false).
  { destruct (j_completed jb) eqn:E; [|reflexivity]. destruct (completed_no_pending _ _ _ Hok E Hft). destruct Hv; contradiction. }
  destruct (RelJ_job _ _ _ _ HR Hfj Hc) as (gj & Elj & HJ). rewrite Elj.
  pose proof HJ as (_ & _ & Ht). destruct (task_rel_lookup _ _ _ _ Ht Hft) as (x & Elt & Hst). rewrite Elt.
  rewrite (g_terminal_st _ _ Hst). replace (match v with JW | JR => false | _ => true end) with false by (destruct Hv as [-> | ->]; reflexivity).
  eapply RelJ_upd1; [exact HR | exact HU | congruence|].
  eapply JRel_set; [exact HJ | exact Hop | exact Hother | exact Hnew | reflexivity].
Qed.

(** * TasksCanceled / TasksAborted: never rejected *)
Definition gterm_of (target : jstate) : Gen.gstate := match target with JC => Gen.GCanceled | _ => Gen.GAborted end.

Lemma job_upd_id j a b c d e f g0 : j_id (job_upd j a b c d e f g0) = j_id j. Proof. reflexivity. Qed.

Lemma mark_fold target site : (target = JC \/ target = JA) -> forall ids jb jb1 g gj,
  mark_tasks jb ids target site = Ok jb1 ->
  Event.lookup (j_id jb) (Gen.g_jobs g) = Some gj -> JRel jb gj ->
  exists g1 gj1, fold_left (Gen.g_term_one (gterm_of target)) ids (Some g) = Some g1
    /\ Event.lookup (j_id jb) (Gen.g_jobs g1) = Some gj1 /\ JRel jb1 gj1
    /\ (forall id, id <> j_id jb -> Event.lookup id (Gen.g_jobs g1) = Event.lookup id (Gen.g_jobs g))
    /\ Gen.g_max_job g1 = Gen.g_max_job g
    /\ j_id jb1 = j_id jb /\ j_open jb1 = j_open jb /\ j_completed jb1 = j_completed jb.
Proof.
  intros Htg. induction ids as [|t r IH]; intros jb jb1 g gj Hm Hl HJ; cbn [mark_tasks] in Hm.
  - inversion Hm; subst. exists g, gj. cbn [fold_left]. split; [reflexivity|]. split; [exact Hl|]. split; [exact HJ|].
    split; [intros; reflexivity|]. split; [reflexivity|]. split; [reflexivity|]. split; reflexivity.
  - destruct (negb (N.eqb (fst t) (j_id jb))) eqn:Eid; [discriminate|].
    apply Bool.negb_false_iff in Eid. apply N.eqb_eq in Eid.
    destruct (jt_find (j_tasks jb) (snd t)) as [v|] eqn:Ef; [|discriminate].
    assert (Hstep : forall jb2, j_id jb2 = j_id jb -> j_open jb2 = j_open jb -> j_completed jb2 = j_completed jb ->
              j_tasks jb2 = jt_set (j_tasks jb) (snd t) target -> (v = JW \/ v = JR) ->
              mark_tasks jb2 r target site = Ok jb1 ->
              exists g1 gj1, fold_left (Gen.g_term_one (gterm_of target)) (t :: r) (Some g) = Some g1
                /\ Event.lookup (j_id jb) (Gen.g_jobs g1) = Some gj1 /\ JRel jb1 gj1
                /\ (forall id, id <> j_id jb -> Event.lookup id (Gen.g_jobs g1) = Event.lookup id (Gen.g_jobs g))
                /\ Gen.g_max_job g1 = Gen.g_max_job g
                /\ j_id jb1 = j_id jb /\ j_open jb1 = j_open jb /\ j_completed jb1 = j_completed jb).
    { intros jb2 Hid Hop Hcm Htk Hv Hm2.
      pose proof HJ as (_ & _ & Ht). destruct (task_rel_lookup _ _ _ _ Ht Ef) as (x & Elt & Hst).
      cbn [fold_left]. unfold Gen.g_term_one at 2. destruct t as [tj tt]. cbn [fst snd] in *. subst tj.
      rewrite Hl, Elt, (g_terminal_st _ _ Hst).
      replace (match v with JW | JR => false | _ => true end) with false by (destruct Hv as [-> | ->]; reflexivity).
      set (x' := Gen.mkGT (gterm_of target) (Gen.gt_last x) (Gen.gt_ws x) (Gen.gt_crash x)).
      set (g2 := Gen.g_upd_task g (j_id jb) gj tt x').
      assert (Hl2 : Event.lookup (j_id jb2) (Gen.g_jobs g2) = Some (Gen.gj_set_task gj tt x')).
      { rewrite Hid. cbn. apply Maps.lookup_insert_eq. }
      assert (HJ2 : JRel jb2 (Gen.gj_set_task gj tt x')).
      { eapply JRel_set; [exact HJ | exact Hop | | |].
        - intros t' Hn. rewrite Htk. apply jt_find_set_other. exact Hn.
        - rewrite Htk. apply jt_find_set_same.
        - cbn. destruct Htg as [-> | ->]; reflexivity. }
      destruct (IH jb2 jb1 g2 _ Hm2 Hl2 HJ2) as (g1 & gj1 & Hf & Hl1 & HJ1 & Ho1 & Hmx & Hi1 & Hop1 & Hc1).
      exists g1, gj1. split; [exact Hf|]. rewrite Hid in *. split; [exact Hl1|]. split; [exact HJ1|].
      split; [|split; [exact Hmx | repeat split; congruence]].
      intros id Hn. rewrite (Ho1 id Hn). cbn. apply Maps.lookup_insert_neq. exact Hn. }
    destruct v; try discriminate.
    + eapply Hstep; [| | | | left; reflexivity | exact Hm]; reflexivity.
    + apply bind_ok in Hm. destruct Hm as (nr & _ & Hm).
      eapply Hstep; [| | | | right; reflexivity | exact Hm]; reflexivity.
Qed.

Lemma ev_term target site h h' ids jb jb1 jb' :
  (target = JC \/ target = JA) -> JOK jb -> ids <> [] ->
  find_job (h_jobs h) (j_id jb) = Some jb -> mark_tasks jb ids target site = Ok jb1 -> UPD h h' (j_id jb) jb' ->
  j_completed jb' = j_completed jb1 -> j_open jb' = j_open jb1 -> j_tasks jb' = j_tasks jb1 ->
  SimE h [match target with JC => Event.ETasksCanceled ids | _ => Event.ETasksAborted ids end] h'.
Proof.
  intros Htg Hok Hne Hfj Hm HU Hcm Hop Htk. apply SimE_one. intros g HR.
  assert (Hc : j_completed jb = false).
  { destruct (j_completed jb) eqn:E; [|reflexivity]. exfalso. destruct ids as [|t r]; [congruence|]. cbn [mark_tasks] in Hm.
    destruct (negb _); [discriminate|]. destruct (jt_find (j_tasks jb) (snd t)) as [v|] eqn:Ef; [|discriminate].
    destruct (completed_no_pending _ _ _ Hok E Ef). destruct v; try discriminate; congruence. }
  destruct (RelJ_job _ _ _ _ HR Hfj Hc) as (gj & Elj & HJ).
  destruct (mark_fold target site Htg ids jb jb1 g gj Hm Elj HJ) as (g1 & gj1 & Hf & Hl1 & HJ1 & Ho1 & Hmx & Hi1 & Hop1 & Hc1).
  assert (E : Gen.gstep g (match target with JC => Event.ETasksCanceled ids | _ => Event.ETasksAborted ids end) = Some g1).
  { destruct Htg as [-> | ->]; cbn [Gen.gstep gterm_of] in *; exact Hf. }
  rewrite E. eapply RelJ_upd2; [exact HR | exact HU | congruence | exact Hl1 | | exact Ho1 | exact Hmx].
  destruct HJ1 as (A & B & C). split; [congruence|]. split; [exact B|]. rewrite Htk. exact C.
Qed.

(** * JobCancel: never rejected *)
Lemma ev_jobcancel h jb t v :
  JOK jb -> find_job (h_jobs h) (j_id jb) = Some jb -> jt_find (j_tasks jb) t = Some v -> (v = JW \/ v = JR) ->
  SimE h [Event.EJobCancel (j_id jb)] h.
Proof.
  intros Hok Hfj Hft Hv. apply SimE_one. intros g HR. cbn [Gen.gstep].
  assert (Hc : j_completed jb = false).
  { destruct (j_completed jb) eqn:E; [|reflexivity]. destruct (completed_no_pending _ _ _ Hok E Hft). destruct Hv; contradiction. }
  destruct (RelJ_job _ _ _ _ HR Hfj Hc) as (gj & Elj & HJ). rewrite Elj, (JRel_active _ _ _ _ HJ Hft Hv). exact HR.
Qed.

(** * JobCompleted: never rejected *)
Lemma ev_completed h h' jb jb' :
  find_job (h_jobs h) (j_id jb) = Some jb -> j_completed jb = false ->
  j_open jb = false -> cnt (j_tasks jb) JR = 0 -> cnt (j_tasks jb) JW = 0 ->
  UPD h h' (j_id jb) jb' -> j_completed jb' = true ->
  SimE h [Event.EJobCompleted (j_id jb)] h'.
Proof.
  intros Hfj Hc Hop Hr Hw [Hf Hcn] Hc'. apply SimE_one. intros g HR. cbn [Gen.gstep].
  destruct (RelJ_job _ _ _ _ HR Hfj Hc) as (gj & Elj & HJ). rewrite Elj, (JRel_terminated _ _ HJ Hop Hr Hw).
  destruct HR as [HJs HM]. split; [|cbn; rewrite Hcn; exact HM].
  intros id. rewrite Hf. cbn [Gen.g_set_jobs Gen.g_jobs]. rewrite Maps.lookup_remove.
  destruct (N.eqb id (j_id jb)) eqn:E; [rewrite Hc'; reflexivity|]. exact (HJs id).
Qed.

(** * JobOpen: never rejected *)
Lemma ev_open_new h h' mf :
  (forall id, find_job (h_jobs h') id = if N.eqb id (h_counter h) then Some (mkJob (h_counter h) true [] 0 0 0 0 0 false mf) else find_job (h_jobs h) id) ->
  h_counter h' = h_counter h + 1 ->
  SimE h [Event.EJobOpen (h_counter h)] h'.
Proof.
  intros Hf Hcn. apply SimE_one. intros g [HJ HM]. cbn [Gen.gstep].
  replace (Gen.g_max_job g <? h_counter h) with true by lia.
  split; [|cbn; lia]. intros id. rewrite Hf. cbn [Gen.g_jobs]. rewrite Maps.lookup_insert.
  destruct (N.eqb id (h_counter h)); [|exact (HJ id)].
  cbn [j_completed]. eexists. split; [reflexivity|]. split; [reflexivity|]. split; [constructor|]. intros t. cbn. exact I.
Qed.

(** * JobClose: never rejected *)
Lemma ev_close h h' jb jb' :
  JOK jb -> find_job (h_jobs h) (j_id jb) = Some jb -> j_open jb = true -> UPD h h' (j_id jb) jb' ->
  j_completed jb' = j_completed jb -> j_open jb' = false -> j_tasks jb' = j_tasks jb ->
  SimE h [Event.EJobClose (j_id jb)] h'.
Proof.
  intros Hok Hfj Hop HU Hcm Hop' Htk. apply SimE_one. intros g HR. cbn [Gen.gstep].
  assert (Hc : j_completed jb = false).
  { destruct (j_completed jb) eqn:E; [|reflexivity]. destruct Hok as [_ _ _ _ _ _ Cm]. destruct (Cm E). congruence. }
  destruct (RelJ_job _ _ _ _ HR Hfj Hc) as (gj & Elj & (Ho & Hn & Ht)). rewrite Elj, Ho, Hop.
  eapply RelJ_upd1; [exact HR | exact HU | congruence|].
  split; [cbn; congruence|]. split; [exact Hn|]. cbn. rewrite Htk. exact Ht.
Qed.

(** * WorkerConnected / WorkerLost (core records): the job part of the relation is kept *)
Lemma ev_wconn h w : SimE h [Event.EWorkerConnected w None] h.
Proof.
  apply SimE_one. intros g [HJ HM]. cbn [Gen.gstep core_event]. destruct (_ <? _); [|reflexivity].
  split; [exact HJ | exact HM].
Qed.

Lemma g_lose_terminal w f x : Gen.g_terminal (Gen.gt_state (Gen.g_lose_task w f x)) = Gen.g_terminal (Gen.gt_state x).
Proof.
  unfold Gen.g_lose_task. destruct (Gen.gt_state x) eqn:E; try (rewrite E; reflexivity).
  destruct (Gen.gt_ws x); [rewrite E; reflexivity|]. destruct (N.eqb _ _); [reflexivity | rewrite E; reflexivity].
Qed.

Lemma g_lose_st v w f x : st_rel v (Gen.gt_state x) -> st_rel v (Gen.gt_state (Gen.g_lose_task w f x)).
Proof.
  intros H. destruct v; cbn in *; try (rewrite g_lose_terminal; exact H);
  unfold Gen.g_lose_task; rewrite H; cbn; exact H.
Qed.

Lemma JRel_lose jb gj w f : JRel jb gj -> JRel jb (Gen.g_lose_job w f gj).
Proof.
  intros (Ho & Hn & Ht). split; [exact Ho|]. split.
  - unfold Gen.g_lose_job. cbn [Gen.gj_tasks]. rewrite (Maps.keys_map_values (fun kv => Gen.g_lose_task w f (snd kv))). exact Hn.
  - intros t. unfold Gen.g_lose_job. cbn [Gen.gj_tasks]. rewrite Maps.lookup_map_values. specialize (Ht t).
    destruct (jt_find (j_tasks jb) t) as [v|], (Event.lookup t (Gen.gj_tasks gj)) as [x|]; cbn [option_map]; try exact Ht.
    apply g_lose_st. exact Ht.
Qed.


Lemma existsb_map {A B} (f : A -> B) (p : B -> bool) l : existsb p (List.map f l) = existsb (fun a => p (f a)) l.
Proof. induction l as [|a r IH]; cbn; [reflexivity | rewrite IH; reflexivity]. Qed.

Lemma existsb_ext' {A} (p q : A -> bool) l : (forall a, p a = q a) -> existsb p l = existsb q l.
Proof. intros H. induction l as [|a r IH]; cbn; [reflexivity | rewrite H, IH; reflexivity]. Qed.

Lemma lose_terminated gj w f : Gen.job_terminated gj = true -> Gen.job_terminated (Gen.g_lose_job w f gj) = true.
Proof.
  unfold Gen.job_terminated, Gen.job_active, Gen.g_lose_job. cbn [Gen.gj_open Gen.gj_tasks]. intros H. rewrite existsb_map.
  erewrite existsb_ext'; [exact H|]. intros kv. cbn [snd]. rewrite g_lose_terminal. reflexivity.
Qed.

Lemma ev_wlost h w r : SimE h [Event.EWorkerLost w r] h.
Proof.
  apply SimE_one. intros g [HJ HM]. cbn [Gen.gstep core_event]. destruct (Event.memN _ _); [|reflexivity].
  split; [|exact HM]. intros j. cbn [Gen.g_jobs]. rewrite Maps.lookup_map_values. specialize (HJ j).
  destruct (find_job (h_jobs h) j) as [jb|].
  - destruct (j_completed jb); [rewrite HJ; reflexivity|]. destruct HJ as (gj & Hl & HR). rewrite Hl. cbn [option_map].
    eexists. split; [reflexivity | apply JRel_lose; exact HR].
  - destruct (Event.lookup j (Gen.g_jobs g)) as [gj|]; cbn [option_map]; [apply lose_terminated; exact HJ | exact I].
Qed.
