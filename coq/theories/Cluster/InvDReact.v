(** C03, the dependency invariant, part 5: the reactor's entry points keep the invariant
    ([task_finished], [on_cancel_tasks], [task_failed], [on_task_update], worker loss). *)
From HQ Require Import Base.Prelude Cluster.Types Cluster.Core Cluster.Reactor Cluster.Worker Cluster.Server Cluster.Sys Cluster.ProofsJob Cluster.ProofsMore Cluster.ProofsTerminal Cluster.ProofsStep Cluster.BijBase Cluster.BijCore Cluster.BijHq Cluster.BijSt Cluster.BijReact Cluster.FrameGen Cluster.CrashFrame Cluster.InvDBase Cluster.InvDMap Cluster.InvDSpec Cluster.InvDRem.
From Coq Require Import ZArith Lia Sorting.Sorted.
Local Open Scope N_scope.

Arguments N.add : simpl never.
Arguments N.sub : simpl never.

Lemma fm_upd c x y : fm (upd_task c x) y = mupd (fm c) (t_id x) x y.
Proof. unfold fm, upd_task, mupd. cbn [c_tasks with_tasks]. apply find_set_task. Qed.

(** Removal of a task that is not waiting: a plain deletion. *)
Lemma remove_task_fm_nw c id c' stt :
  TS c -> remove_task c id = Ok (c', stt) -> (forall n, stt <> Waiting n) ->
  TS c' /\ forall x, fm c' x = mdel (fm c) id x.
Proof.
  intros Hs H Hnw. pose proof (remove_task_csub _ _ _ _ Hs H) as [Hs' _]. split; [exact Hs'|].
  unfold remove_task in H. destruct (find_task (c_tasks c) id) as [t|] eqn:Ef; [|discriminate].
  destruct (t_state t) eqn:Est; try (inversion H; subst; intros x; unfold fm at 1; cbn [c_tasks with_tasks]; apply fm_del; exact Hs).
  exfalso. apply bind_ok in H. destruct H as (c2 & _ & H).
  destruct (N.ltb 0 unfinished_deps); [apply bind_ok in H; destruct H as (ts & _ & H)|]; inversion H; subst; eapply Hnw; reflexivity.
Qed.

(** * [task_finished] *)
Lemma task_finished_RL s w id s' b : GD (core_of s) -> task_finished s w id = Ok (s', b) -> RL (core_of s) (core_of s').
Proof.
  intros [Hs D] H. unfold task_finished in H.
  destruct (find_task (c_tasks (core_of s)) id) as [t|] eqn:Ef; [|inversion H; subst; apply RL_refl; split; assumption].
  destruct (find_task_some _ _ _ Ef) as [_ Hid].
  apply bind_ok in H. destruct H as (rq & _ & H). apply bind_ok in H. destruct H as (c1 & H1 & H).
  assert (Et : c_tasks c1 = c_tasks (core_of s) /\ is_waiting t = false).
  { unfold is_waiting. destruct (t_state t); try discriminate.
    - split; [|reflexivity]. destruct (negb (N.eqb w0 w)); [discriminate|]. inv_binds H1. inversion H1; reflexivity.
    - split; [|reflexivity]. destruct (negb (N.eqb w0 w)); [discriminate|]. eapply try_remove_redirection_tasks; exact H1.
    - split; [|reflexivity]. destruct (negb (N.eqb w0 w)); [discriminate|]. inv_binds H1. inversion H1; reflexivity.
    - split; [|reflexivity]. destruct ws; [discriminate|]. destruct (N.eqb w0 w); [|discriminate]. eapply reset_mn_workers_tasks; exact H1. }
  destruct Et as [Et Hnw]. cbv zeta in H.
  set (tF := with_state t Finished) in *.
  apply bind_ok in H. destruct H as (s1 & Hf & H).
  destruct (process_task_finished_active _ _ _ Hf) as [C1 _]. unfold core_same in C1. cbn in C1.
  apply bind_ok in H. destruct H as ([c3 retracted] & Hw & H).
  apply bind_ok in H. destruct H as (s2 & Hr & H).
  apply bind_ok in H. destruct H as ([c4 stt] & Hrm & H).
  destruct stt; try discriminate. inversion H; subst s' b. clear H.
  rewrite C1 in Hw.
  (* the map after marking the task finished *)
  assert (T2 : TS (upd_task c1 tF)).
  { apply (upd_task_TS c1 tF t); [unfold TS; rewrite Et; exact Hs | cbn; rewrite Et, Hid; exact Ef]. }
  assert (F2 : forall x, fm (upd_task c1 tF) x = mupd (fm (core_of s)) id tF x).
  { intros x. rewrite fm_upd. cbn [t_id tF with_state]. rewrite Hid. unfold mupd, fm. rewrite Et. reflexivity. }
  destruct (wake_consumers_fm _ _ _ _ _ (dx_nc _ _ D _ _ Ef) Hw) as [T3 F3].
  pose proof (process_retracted_scr _ _ _ Hr) as [T4 S4]. cbn in T4, S4.
  destruct (remove_task_fm_nw _ _ _ _ (T4 (T3 T2)) Hrm) as [T5 F5]; [intros n; discriminate|].
  (* the woken map without the finished task *)
  pose (A := fun x => mdel (fm c3) id x).
  assert (EA : forall x, A x = woken (mdel (fm (core_of s)) id) (t_consumers t) x).
  { intros x. unfold A, mdel. rewrite F3. unfold woken. cbn [t_consumers tF with_state]. rewrite F2. unfold mupd, mdel.
    destruct (tid_eqb x id); [destruct (tid_mem x (t_consumers t)); reflexivity | reflexivity]. }
  pose proof (DI_finish _ A id t D Ef Hnw EA) as DA.
  assert (SA : SC A (fm c4)) by (eapply (SC_del _ _ A (fm c4) id S4); [intros x; reflexivity | exact F5]).
  split; [split; [exact T5 | eapply DI_SC; [exact DA | exact SA]]|].
  cbn [core_of st_core fst with_core s_core].
  eapply dsub_trans; [|apply SC_dsub; exact SA].
  intros x t' Ex. rewrite EA in Ex. unfold woken, mdel in Ex.
  destruct (tid_eqb x id); [destruct (tid_mem x (t_consumers t)); discriminate|].
  destruct (fm (core_of s) x) as [tx|] eqn:Etx; [|destruct (tid_mem x (t_consumers t)); discriminate].
  exists tx. split; [reflexivity|]. destruct (tid_mem x (t_consumers t)); cbn in Ex; inversion Ex; [|reflexivity].
  destruct (dec_state_edges tx) as (_ & Hd & _). exact Hd.
Qed.

(** * [on_cancel_tasks] *)
Lemma cancel_release_closed ts ids : forall s tu ru s' tu' ru',
  DI (find_task ts) -> c_tasks (core_of s) = ts -> cclosed (find_task ts) tu ->
  cancel_release s ids tu ru = Ok (s', tu', ru') -> cclosed (find_task ts) tu'.
Proof.
  intros s tu ru s' tu' ru' D. revert s tu ru s' tu' ru'.
  induction ids as [|id r IH]; cbn [cancel_release]; intros s tu ru s' tu' ru' Es Hc H; [inversion H; subst; exact Hc|].
  destruct (find_task (c_tasks (core_of s)) id) as [t|] eqn:Ef; [|eapply IH; eassumption].
  apply bind_ok in H. destruct H as (csm & Hcs & H). apply bind_ok in H. destruct H as (rq & _ & H).
  rewrite Es in Ef, Hcs.
  assert (W : WFc ts) by (eapply (DX_WFc [] (mkCore ts [] [] [] [] false 0 0 0)); exact D).
  assert (Hdom : forall y, In y (t_consumers t) -> find_task ts y <> None).
  { intros y Hy. destruct (dx_cons _ _ D _ _ _ Ef Hy) as (ct & Ec & _). congruence. }
  destruct (recursive_consumers_closed ts t csm W (dx_nc _ _ D _ _ Ef) Hdom Hcs) as [I1 I2].
  assert (Hc' : cclosed (find_task ts) (tid_insert_all csm (tid_insert id tu))).
  { intros x tx y Hx Ex Hy. apply tia_in. apply tia_in in Hx. destruct Hx as [Hx|Hx]; [left; eapply I2; eassumption|].
    destruct (tid_insert_sub _ _ _ Hx) as [->|Hx'].
    - rewrite Ef in Ex. inversion Ex; subst tx. left. apply I1. exact Hy.
    - right. apply tid_insert_old. eapply Hc; eassumption. }
  destruct (t_state t); try discriminate.
  - eapply IH; [|exact Hc'|exact H]. exact Es.
  - inv_binds H. eapply IH; [|exact Hc'|exact H]. exact Es.
  - inv_binds H. eapply IH; [|exact Hc'|exact H]. exact Es.
  - apply bind_ok in H. destruct H as (c' & Hc1 & H). eapply IH; [|exact Hc'|exact H].
    cbn. rewrite (try_remove_redirection_tasks _ _ _ Hc1). exact Es.
  - inv_binds H. eapply IH; [|exact Hc'|exact H]. exact Es.
  - apply bind_ok in H. destruct H as (c' & Hc1 & H). destruct ws; [discriminate|]. eapply IH; [|exact Hc'|exact H].
    cbn. rewrite (reset_mn_all_tasks _ _ _ Hc1). exact Es.
Qed.

Lemma on_cancel_tasks_RL s ids s' : GD (core_of s) -> on_cancel_tasks s ids = Ok s' -> RL (core_of s) (core_of s').
Proof.
  intros [Hs D] H. unfold on_cancel_tasks in H.
  apply bind_ok in H. destruct H as ([[s1 tu] ru] & H1 & H). apply bind_ok in H. destruct H as (c' & H2 & H).
  pose proof (cancel_release_tasks _ _ _ _ _ _ _ H1) as E1.
  assert (Hcl : cclosed (fm (core_of s)) tu).
  { eapply (cancel_release_closed (c_tasks (core_of s)) ids s [] [] s1 tu ru); [exact D | reflexivity | intros x tx y [] | exact H1]. }
  rewrite (send_all_core _ _ _ H). cbn [core_of st_core fst with_core s_core].
  assert (Hs1 : TS (core_of s1)) by (unfold TS; rewrite E1; exact Hs).
  assert (Efm : fm (core_of s1) = fm (core_of s)) by (unfold fm; rewrite E1; reflexivity).
  assert (D1 : DX tu (fm (core_of s1))) by (rewrite Efm; apply DX_start; [exact D | exact Hcl]).
  destruct (remove_tasks_batched_DX tu tu _ _ Hs1 D1 (incl_refl _) H2) as (T2 & D2 & N2 & _ & S2).
  split; [split; [exact T2 | eapply DX_end; [exact D2 | exact N2]] | rewrite <- Efm; exact S2].
Qed.

(** * [task_failed] *)
Lemma task_failed_RL s w id k s' : GD (core_of s) -> task_failed s w id k = Ok s' -> RL (core_of s) (core_of s').
Proof.
  intros [Hs D] H. unfold task_failed in H.
  destruct (find_task (c_tasks (core_of s)) id) as [t|] eqn:Ef; [|inversion H; subst; apply RL_refl; split; assumption].
  apply bind_ok in H. destruct H as (rq & _ & H). apply bind_ok in H. destruct H as (c1 & H1 & H).
  assert (Et : c_tasks c1 = c_tasks (core_of s)).
  { destruct w as [wkr|].
    - destruct (rq_is_mn rq).
      + destruct (t_state t); try discriminate. destruct ws as [|w0 ws]; [discriminate|].
        destruct (N.eqb w0 wkr); [|discriminate]. eapply reset_mn_workers_tasks; exact H1.
      + destruct (t_state t); try (inversion H1; reflexivity).
        * destruct (negb (N.eqb wkr w)); [discriminate|]. inv_binds H1. inversion H1; reflexivity.
        * destruct (negb (N.eqb wkr w)); [discriminate|]. inv_binds H1. inversion H1; reflexivity.
        * destruct (negb (N.eqb wkr w)); [discriminate|]. eapply try_remove_redirection_tasks; exact H1.
        * destruct (negb (N.eqb wkr w)); [discriminate|]. inv_binds H1. inversion H1; reflexivity.
    - destruct (is_waiting t); inversion H1; reflexivity. }
  assert (Efm : fm c1 = fm (core_of s)) by (unfold fm; rewrite Et; reflexivity).
  assert (Hs1 : TS c1) by (unfold TS; rewrite Et; exact Hs).
  apply bind_ok in H. destruct H as (csm & Hcs & H). rewrite Et in Hcs.
  assert (W : WFc (c_tasks (core_of s))) by (eapply DX_WFc; exact D).
  assert (Hdom : forall y, In y (t_consumers t) -> find_task (c_tasks (core_of s)) y <> None).
  { intros y Hy. destruct (dx_cons _ _ D _ _ _ Ef Hy) as (ct & Ec & _). unfold fm in Ec. congruence. }
  destruct (recursive_consumers_closed _ t csm W (dx_nc _ _ D _ _ Ef) Hdom Hcs) as [I1 I2].
  pose proof (closed_with_root (fm (core_of s)) csm id t Ef I1 I2) as Hcl.
  set (X := csm ++ [id]) in *.
  assert (D1 : DX X (fm c1)) by (rewrite Efm; apply DX_start; [exact D | exact Hcl]).
  apply bind_ok in H. destruct H as (c2 & H2 & H).
  assert (Hi1 : incl csm X) by (intros x Hx; apply in_app_iff; left; exact Hx).
  destruct (remove_waiting_consumers_DX X csm _ _ Hs1 D1 Hi1 H2) as (T2 & D2 & N2 & _ & S2).
  apply bind_ok in H. destruct H as ([c3 stt] & H3 & H).
  assert (Hi2 : In id X) by (apply in_app_iff; right; left; reflexivity).
  destruct (remove_task_DX X _ _ _ _ T2 D2 Hi2 H3) as (T3 & D3 & N3 & K3 & S3).
  assert (G3 : GD c3).
  { split; [exact T3|]. eapply DX_end; [exact D3|]. intros x Hx. apply in_app_iff in Hx.
    destruct Hx as [Hx|[<-|[]]]; [apply K3, N2; exact Hx | exact N3]. }
  assert (R3 : RL (core_of s) c3).
  { split; [exact G3|]. rewrite <- Efm. eapply dsub_trans; eassumption. }
  apply bind_ok in H. destruct H as (u & _ & H).
  apply bind_ok in H. destruct H as ([s1 cancel_ids] & H4 & H).
  pose proof (process_task_failed_core _ _ _ _ _ _ H4) as C4. cbn in C4.
  destruct cancel_ids as [|c0 cr].
  - inversion H; subst s'. rewrite C4. exact R3.
  - eapply RL_trans; [exact R3|]. rewrite <- C4. eapply on_cancel_tasks_RL; [rewrite C4; exact G3 | exact H].
Qed.

(** * Updates from a worker *)
Lemma apply_updates_RL us : forall s w need s' need',
  GD (core_of s) -> apply_updates s w us need = Ok (s', need') -> RL (core_of s) (core_of s').
Proof.
  induction us as [|u r IH]; cbn [apply_updates]; intros s w need s' need' G H; [inversion H; subst; apply RL_refl; exact G|].
  apply bind_ok in H. destruct H as ([s1 n1] & Hu & H).
  assert (R1 : RL (core_of s) (core_of s1)).
  { destruct u.
    - eapply task_finished_RL; eassumption.
    - apply bind_ok in Hu. destruct Hu as (sx & Hf & Hu). inversion Hu; subst. eapply task_failed_RL; eassumption.
    - apply RL_scr; [exact G | eapply task_running_scr; exact Hu].
    - apply RL_scr; [exact G | eapply task_running_scr; exact Hu].
    - apply RL_scr; [exact G | eapply task_reject_scr; exact Hu].
    - apply bind_ok in Hu. destruct Hu as (sx & Hf & Hu). inversion Hu; subst.
      apply RL_scr; [exact G | apply scr_tasks; eapply request_enabled_tasks; exact Hf]. }
  eapply RL_trans; [exact R1 | eapply IH; [exact (proj1 R1) | exact H]].
Qed.

Lemma on_task_update_RL s w us s' : GD (core_of s) -> on_task_update s w us = Ok s' -> RL (core_of s) (core_of s').
Proof.
  intros G H. unfold on_task_update in H. apply bind_ok in H. destruct H as ([s1 need] & Hu & H).
  pose proof (apply_updates_RL _ _ _ _ _ _ G Hu) as R1.
  destruct (need && _); inversion H; subst; exact R1.
Qed.

(** * Worker loss: the crash-limit handling *)
Lemma lost_fail_running_RL l : forall s reason s',
  GD (core_of s) -> lost_fail_running s reason l = Ok s' -> RL (core_of s) (core_of s').
Proof.
  induction l as [|id r IH]; cbn [lost_fail_running]; intros s reason s' G H; [inversion H; subst; apply RL_refl; exact G|].
  destruct (find_task (c_tasks (core_of s)) id) as [t|] eqn:Ef; [|eapply IH; eassumption].
  assert (Hcrash : forall t', same_edges t t' -> t_state t' = t_state t ->
            RL (core_of s) (core_of (st_core s (upd_task (core_of s) t')))).
  { intros t' He Hst. apply RL_scr; [exact G|]. cbn.
    eapply (scr_upd _ (core_of s) _ id t); [reflexivity | exact Ef | reflexivity | exact He | left; exact Hst]. }
  assert (Hfail : forall s0 kind, RL (core_of s) (core_of s0) -> (do s1 <- task_failed s0 None id kind; lost_fail_running s1 reason r) = Ok s' ->
            RL (core_of s) (core_of s')).
  { intros s0 kind R0 H0. apply bind_ok in H0. destruct H0 as (s1 & Hf & H0).
    pose proof (task_failed_RL _ _ _ _ _ (proj1 R0) Hf) as R1.
    eapply RL_trans; [exact R0|]. eapply RL_trans; [exact R1 | eapply IH; [exact (proj1 R1) | exact H0]]. }
  destruct (t_climit t).
  - eapply Hfail; [apply RL_refl; exact G | exact H].
  - destruct (reason_is_failure reason); [|eapply IH; eassumption].
    destruct (increment_crash_counter t) as [t' limit] eqn:Ei.
    assert (Hi : same_edges t t' /\ t_state t' = t_state t) by (unfold increment_crash_counter in Ei; inversion Ei; subst; split; [edges | reflexivity]).
    pose proof (Hcrash t' (proj1 Hi) (proj2 Hi)) as R0. destruct limit.
    + eapply Hfail; [exact R0 | exact H].
    + eapply RL_trans; [exact R0 | eapply IH; [exact (proj1 R0) | exact H]].
  - destruct (reason_is_failure reason); [|eapply IH; eassumption].
    destruct (increment_crash_counter t) as [t' limit] eqn:Ei.
    assert (Hi : same_edges t t' /\ t_state t' = t_state t) by (unfold increment_crash_counter in Ei; inversion Ei; subst; split; [edges | reflexivity]).
    pose proof (Hcrash t' (proj1 Hi) (proj2 Hi)) as R0. destruct limit.
    + eapply Hfail; [exact R0 | exact H].
    + eapply RL_trans; [exact R0 | eapply IH; [exact (proj1 R0) | exact H]].
Qed.
