(** C13, atomic submits: a submit that is answered with an error changes nothing; a submit that is
    accepted registers every one of its ids in the job (Waiting) - and, by the bijection theorem,
    hands every one of them to the scheduler. *)
From HQ Require Import Base.Prelude Cluster.Types Cluster.Core Cluster.Reactor Cluster.Worker Cluster.Server Cluster.Sys Cluster.ProofsJob Cluster.ProofsStep.
From Coq Require Import ZArith Lia.
Local Open Scope N_scope.

Definition is_submit_err (o : out) : bool := match o with OResp (RSubmitErr _ _) => true | _ => false end.
Definition is_submit_ok (o : out) : bool := match o with OResp (RSubmitOk _ _ _) => true | _ => false end.

Lemma existsb_app_one {A} (f : A -> bool) l x : existsb f (l ++ [x]) = existsb f l || f x.
Proof. rewrite existsb_app. cbn. rewrite orb_false_r. reflexivity. Qed.

(** A rejected array submit leaves the whole system state untouched. *)
Theorem submit_array_rejected_no_effect s jobsel ids entries rq prio cl tlim mf s' outs :
  step s (OpSubmit jobsel ids entries rq prio cl tlim mf) = Ok (s', outs) ->
  existsb is_submit_err outs = true -> s' = s.
Proof.
  cbn [step]. intros H He. destruct (bad_submit_lengths _ _); [inversion H; reflexivity|]. unfold handle_submit_array in H.
  match type of H with (match ?x with Some _ => _ | None => _ end) = _ => destruct x end; [inversion H; reflexivity|].
  apply bind_ok in H. destruct H as ([acc s1] & Hr & H).
  destruct acc as [[[jid is_new] ids']|].
  - (* accepted: the response is RSubmitOk, never an error *)
    exfalso. cbv zeta in H.
    match type of H with context [get_or_create_rq ?sx rq] => destruct (get_or_create_rq sx rq) as [s4 rqi] eqn:Erq end.
    apply bind_ok in H. destruct H as (j & _ & H). apply bind_ok in H. destruct H as (j' & _ & H).
    apply bind_ok in H. destruct H as (s6 & H6 & H).
    unfold submit_ok_resp in H. apply bind_ok in H. destruct H as (jx & _ & H).
    assert (Hx : (s', outs) = emit s6 (OResp (RSubmitOk jid (job_n_tasks jx) (map fst (j_tasks jx))))) by congruence.
    assert (Ho : outs = snd s6 ++ [OResp (RSubmitOk jid (job_n_tasks jx) (map fst (j_tasks jx)))]) by (inversion Hx; reflexivity).
    rewrite Ho, existsb_app_one in He. cbn in He. rewrite orb_false_r in He.
    (* no error response was emitted before either *)
    pose proof (on_new_tasks_hq _ _ _ H6) as _.
    assert (Hs6 : snd s6 = snd s4).
    { unfold on_new_tasks in H6. destruct (map _ _); [inversion H6; reflexivity|].
      apply bind_ok in H6. destruct H6 as ([c' r] & _ & H6). apply bind_ok in H6. destruct H6 as (sr & Hrr & H6). inversion H6; subst.
      unfold process_retracted in Hrr. destruct r; [inversion Hrr; reflexivity|].
      apply bind_ok in Hrr. destruct Hrr as ([c2 g] & _ & Hrr).
      assert (forall msgs sa sb, send_all sa msgs = Ok sb -> snd sb = snd sa) as Hsa.
      { clear. induction msgs as [|[w m] r IH]; cbn [send_all]; intros sa sb H; [inversion H; reflexivity|].
        apply bind_ok in H. destruct H as (s1 & H1 & H). rewrite (IH _ _ H).
        unfold send_worker in H1. destruct (find_proc _ w); inversion H1; reflexivity. }
      cbn. rewrite (Hsa _ _ _ Hrr). reflexivity. }
    assert (Hs4 : snd s4 = snd s1 ++ [OEv (EvSubmit jid is_new (N.of_nat (length ids')))]).
    { unfold get_or_create_rq in Erq. destruct (rq_index _ rq 0); inversion Erq; subst; destruct is_new; reflexivity. }
    assert (Hs1 : snd s1 = []).
    { destruct jobsel as [j0|].
      - destruct (find_job (hq_jobs (s, [])) j0) as [jb|]; [|inversion Hr].
        destruct (negb (j_open jb)); inversion Hr; subst; reflexivity.
      - inversion Hr; subst. reflexivity. }
    rewrite Hs6, Hs4, Hs1 in He. cbn in He. discriminate.
  - (* rejected *)
    assert (E1 : fst s1 = s).
    { destruct jobsel as [jid|]; [|inversion Hr].
      destruct (find_job (hq_jobs (s, [])) jid) as [j|]; [|inversion Hr; subst; reflexivity].
      destruct (negb (j_open j)); inversion Hr; subst; reflexivity. }
    assert (Hx : s' = fst s1).
    { destruct jobsel; [match type of H with (match ?x with Some _ => _ | None => _ end) = _ => destruct x end|];
        inversion H; reflexivity. }
    rewrite Hx. exact E1.
Qed.

(** A rejected graph submit leaves the whole system state untouched. *)
Theorem submit_graph_rejected_no_effect s jobsel rqs ts mf s' outs :
  step s (OpSubmitG jobsel rqs ts mf) = Ok (s', outs) ->
  existsb is_submit_ok outs = false -> s' = s.
Proof.
  cbn [step]. intros H He. destruct (bad_graph_rq _ _); [inversion H; reflexivity|]. destruct (dead_dep _ _ _); [inversion H; reflexivity|]. unfold handle_submit_graph in H.
  apply bind_ok in H. destruct H as (v1 & _ & H).
  match type of H with (match ?x with Some _ => _ | None => _ end) = _ => destruct x end; [inversion H; reflexivity|].
  apply bind_ok in H. destruct H as ([acc s1] & Hr & H).
  destruct acc as [[jid is_new]|].
  - exfalso. cbv zeta in H.
    match type of H with context [fold_left ?f rqs (?sx, [])] => destruct (fold_left f rqs (sx, [])) as [s4 rqis] eqn:Erq end.
    apply bind_ok in H. destruct H as (j & _ & H). apply bind_ok in H. destruct H as (j' & _ & H).
    apply bind_ok in H. destruct H as (tasks & _ & H). apply bind_ok in H. destruct H as (s6 & H6 & H).
    unfold submit_ok_resp in H. apply bind_ok in H. destruct H as (jx & _ & H).
    assert (Hx : (s', outs) = emit s6 (OResp (RSubmitOk jid (job_n_tasks jx) (map fst (j_tasks jx))))) by congruence.
    assert (Ho : outs = snd s6 ++ [OResp (RSubmitOk jid (job_n_tasks jx) (map fst (j_tasks jx)))]) by (inversion Hx; reflexivity).
    rewrite Ho, existsb_app_one in He. cbn in He. rewrite orb_true_r in He. discriminate.
  - assert (E1 : fst s1 = s).
    { destruct jobsel as [jid|]; [|inversion Hr].
      destruct (find_job (hq_jobs (s, [])) jid) as [j|]; [|inversion Hr; subst; reflexivity].
      destruct (negb (j_open j)); inversion Hr; subst; reflexivity. }
    assert (Hx : s' = fst s1) by (inversion H; reflexivity). rewrite Hx. exact E1.
Qed.
