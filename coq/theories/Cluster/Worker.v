(** A worker process: worker/reactor.rs (compute_tasks, try_alloc_and_start_task, prefill_loop,
    try_start_task, the tail of handle_task_future), worker/state.rs (cancel_task, retract_tasks)
    and the dispatch of worker/rpc.rs (process_worker_message).

    Abstractions: the resource allocator is reduced to whole-unit amounts on single-group
    resources, where [try_allocate] succeeds iff the request fits the free amounts (the general
    allocator is the subject of component `alloc`); the launcher is the harness' fake
    [TaskLauncher] whose futures end when the harness says so. *)
From HQ Require Import Base.Prelude Cluster.Types Cluster.Core.
From Coq Require Import ZArith.
Local Open Scope N_scope.

Definition wp_upd (p : wproc) backlog running alloc blocked free futures timers failnext rqs down up : wproc :=
  mkWP (p_id p) backlog running alloc blocked (p_total p) free futures timers failnext rqs down up.

Definition wp_backlog (p : wproc) b := wp_upd p b (p_running p) (p_alloc p) (p_blocked p) (p_free p) (p_futures p) (p_timers p) (p_failnext p) (p_rqs p) (p_down p) (p_up p).
Definition wp_blocked (p : wproc) b := wp_upd p (p_backlog p) (p_running p) (p_alloc p) b (p_free p) (p_futures p) (p_timers p) (p_failnext p) (p_rqs p) (p_down p) (p_up p).
Definition wp_free (p : wproc) f := wp_upd p (p_backlog p) (p_running p) (p_alloc p) (p_blocked p) f (p_futures p) (p_timers p) (p_failnext p) (p_rqs p) (p_down p) (p_up p).
Definition wp_futures (p : wproc) f := wp_upd p (p_backlog p) (p_running p) (p_alloc p) (p_blocked p) (p_free p) f (p_timers p) (p_failnext p) (p_rqs p) (p_down p) (p_up p).
Definition wp_timers (p : wproc) t := wp_upd p (p_backlog p) (p_running p) (p_alloc p) (p_blocked p) (p_free p) (p_futures p) t (p_failnext p) (p_rqs p) (p_down p) (p_up p).
Definition wp_failnext (p : wproc) f := wp_upd p (p_backlog p) (p_running p) (p_alloc p) (p_blocked p) (p_free p) (p_futures p) (p_timers p) f (p_rqs p) (p_down p) (p_up p).
Definition wp_rqs (p : wproc) r := wp_upd p (p_backlog p) (p_running p) (p_alloc p) (p_blocked p) (p_free p) (p_futures p) (p_timers p) (p_failnext p) r (p_down p) (p_up p).
Definition wp_down (p : wproc) d := wp_upd p (p_backlog p) (p_running p) (p_alloc p) (p_blocked p) (p_free p) (p_futures p) (p_timers p) (p_failnext p) (p_rqs p) d (p_up p).
Definition wp_up (p : wproc) u := wp_upd p (p_backlog p) (p_running p) (p_alloc p) (p_blocked p) (p_free p) (p_futures p) (p_timers p) (p_failnext p) (p_rqs p) (p_down p) u.

Definition send_up (p : wproc) (m : umsg) : wproc := wp_up p (p_up p ++ [m]).

(** backlog: assoc list rq -> Vec<Task>, kept sorted by rq *)
Fixpoint bl_get (b : list (N * list wtask)) (rq : N) : list wtask :=
  match b with [] => [] | (k, v) :: r => if N.eqb rq k then v else bl_get r rq end.
Fixpoint bl_set (b : list (N * list wtask)) (rq : N) (v : list wtask) : list (N * list wtask) :=
  match b with
  | [] => [(rq, v)]
  | (k, v0) :: r => if N.eqb rq k then (rq, v) :: r else if N.ltb rq k then (rq, v) :: b else (k, v0) :: bl_set r rq v
  end.
Fixpoint bl_has (b : list (N * list wtask)) (rq : N) : bool :=
  match b with [] => false | (k, _) :: r => N.eqb rq k || bl_has r rq end.

(** Vec::pop: last element *)
Fixpoint pop_last {A} (l : list A) : option (A * list A) :=
  match l with
  | [] => None
  | [x] => Some (x, [])
  | h :: t => match pop_last t with Some (x, r) => Some (x, h :: r) | None => None end
  end.

Fixpoint run_find (l : list (tid * N)) (t : tid) : option N :=
  match l with [] => None | (k, v) :: r => if tid_eqb t k then Some v else run_find r t end.
Fixpoint run_set (l : list (tid * N)) (t : tid) (v : N) : list (tid * N) :=
  match l with
  | [] => [(t, v)]
  | (k, v0) :: r => if tid_eqb t k then (t, v) :: r else if tid_ltb t k then (t, v) :: l else (k, v0) :: run_set r t v
  end.
Fixpoint run_del {V} (l : list (tid * V)) (t : tid) : list (tid * V) :=
  match l with [] => [] | (k, v) :: r => if tid_eqb t k then r else (k, v) :: run_del r t end.
Fixpoint al_find (l : list (tid * list N)) (t : tid) : option (list N) :=
  match l with [] => None | (k, v) :: r => if tid_eqb t k then Some v else al_find r t end.
Fixpoint al_set (l : list (tid * list N)) (t : tid) (v : list N) : list (tid * list N) :=
  match l with
  | [] => [(t, v)]
  | (k, v0) :: r => if tid_eqb t k then (t, v) :: r else if tid_ltb t k then (t, v) :: l else (k, v0) :: al_set r t v
  end.
Fixpoint fu_find (l : list (tid * option stopkind)) (t : tid) : option (option stopkind) :=
  match l with [] => None | (k, v) :: r => if tid_eqb t k then Some v else fu_find r t end.
Fixpoint fu_set (l : list (tid * option stopkind)) (t : tid) (v : option stopkind) : list (tid * option stopkind) :=
  match l with
  | [] => [(t, v)]
  | (k, v0) :: r => if tid_eqb t k then (t, v) :: r else if tid_ltb t k then (t, v) :: l else (k, v0) :: fu_set r t v
  end.

Definition p_get_rq (p : wproc) (rq : N) : res rqdef :=
  match nth_error (p_rqs p) (N.to_nat rq) with Some r => Ok r | None => Panic 300 end.

(** [launch_task] + the bookkeeping of [try_start_task]. Returns (proc, updates, launches, started). *)
Definition try_start_task (p : wproc) (t : wtask) (rv : N) (prefilled : bool) (alloc : list N)
  : wproc * list wupdate * list launch * bool :=
  let fail := tid_mem (wt_id t) (p_failnext p) in
  let l := mkLaunch (p_id p) (wt_id t) (wt_inst t) rv (wt_nodes t) (negb fail) alloc in
  if fail then
    (wp_failnext p (tid_remove (wt_id t) (p_failnext p)), [UFailed (wt_id t) FLaunch], [l], false)
  else
    let p1 := wp_upd p (p_backlog p) (run_set (p_running p) (wt_id t) rv) (al_set (p_alloc p) (wt_id t) (wt_rq t :: alloc))
                     (p_blocked p) (p_free p) (fu_set (p_futures p) (wt_id t) None)
                     (if wt_tlim t then tid_insert (wt_id t) (p_timers p) else p_timers p)
                     (p_failnext p) (p_rqs p) (p_down p) (p_up p) in
    (p1, [if prefilled then URunningPrefilled (wt_id t) rv else URunning (wt_id t) rv], [l], true).

(** [prefill_loop]: hand the allocation over to backlog tasks of the same request until one starts;
    otherwise release it. Returns used = true if a task took the allocation. *)
Fixpoint prefill_loop (fuel : nat) (p : wproc) (rq rv : N) (alloc : list N) (ups : list wupdate) (ls : list launch)
  : wproc * list wupdate * list launch * bool :=
  match fuel with
  | O => (wp_free p (res_add (p_free p) alloc), ups, ls, false)
  | S k =>
      match pop_last (bl_get (p_backlog p) rq) with
      | Some (t, rest) =>
          if bl_has (p_backlog p) rq then
            let p0 := wp_backlog p (bl_set (p_backlog p) rq rest) in
            let '(p1, u, l, started) := try_start_task p0 t rv true alloc in
            if started then (p1, ups ++ u, ls ++ l, true)
            else prefill_loop k p1 rq rv alloc (ups ++ u) (ls ++ l)
          else (wp_free p (res_add (p_free p) alloc), ups, ls, false)
      | None => (wp_free p (res_add (p_free p) alloc), ups, ls, false)
      end
  end.

Definition backlog_size (p : wproc) : nat := fold_left (fun acc kv => acc + length (snd kv))%nat (p_backlog p) O.

(** [compute_tasks] *)
Fixpoint compute_loop (p : wproc) (ts : list ctask) (ups : list wupdate) (ls : list launch) : res (wproc * list wupdate * list launch) :=
  match ts with
  | [] => Ok (p, ups, ls)
  | ct :: r =>
      let t := mkWT (ct_id ct) (ct_inst ct) (ct_rq ct) (ct_tlim ct) (ct_nodes ct) in
      match ct_rv ct with
      | None =>
          compute_loop (wp_backlog p (bl_set (p_backlog p) (ct_rq ct) (bl_get (p_backlog p) (ct_rq ct) ++ [t]))) r ups ls
      | Some rv =>
          do rq <- p_get_rq p (ct_rq ct);
          if negb (N.eqb rv 0) then Panic 301          (* single-variant requests only: rqv.get(rv) *)
          else if res_fits (p_free p) (rq_res rq) then
            let p0 := wp_free p (res_sub (p_free p) (rq_res rq)) in
            let '(p1, u, l, started) := try_start_task p0 t rv false (rq_res rq) in
            if started then compute_loop p1 r (ups ++ u) (ls ++ l)
            else
              let '(p2, u2, l2, _) := prefill_loop (S (backlog_size p1)) p1 (ct_rq ct) rv (rq_res rq) (ups ++ u) (ls ++ l) in
              compute_loop p2 r u2 l2
          else
            let b := if nn_mem (ct_rq ct, rv) (p_blocked p) then p_blocked p else nn_insert (ct_rq ct, rv) (p_blocked p) in
            compute_loop (wp_blocked p b) r (ups ++ [UReject (ct_id ct) (Some rv)]) ls
      end
  end.

(** [WorkerState::retract_tasks]; [rq_order] = iteration order of the backlog map (witness). *)
Fixpoint retract_from (b : list (N * list wtask)) (order : list N) (ids : list tid) (out : list tid)
  : list (N * list wtask) * list tid :=
  match order with
  | [] => (b, out)
  | rq :: r =>
      let ts := bl_get b rq in
      let keep := filter (fun t => negb (tid_mem (wt_id t) ids)) ts in
      let gone := map wt_id (filter (fun t => tid_mem (wt_id t) ids) ts) in
      retract_from (if bl_has b rq then bl_set b rq keep else b) r ids (out ++ gone)
  end.

Definition n_perm (a b : list N) : bool :=
  N.eqb (N.of_nat (length a)) (N.of_nat (length b)) && forallb (fun x => n_mem x b) a && forallb (fun x => n_mem x a) b.

(** [WorkerState::cancel_task] (after the fix: also drops the task from the backlog) *)
Definition cancel_task (p : wproc) (t : tid) : wproc :=
  match run_find (p_running p) t with
  | Some _ =>
      match fu_find (p_futures p) t with
      | Some None => wp_futures p (fu_set (p_futures p) t (Some SCancel))
      | _ => p
      end
  | None =>
      wp_backlog p (map (fun kv => (fst kv, filter (fun x => negb (tid_eqb (wt_id x) t)) (snd kv))) (p_backlog p))
  end.

(** [process_worker_message]; returns the launcher calls made. *)
Definition process_worker_message (p : wproc) (m : dmsg) (rq_order : list N) : res (wproc * list launch) :=
  match m with
  | DCompute ts =>
      do (p1, ups, ls) <- compute_loop p ts [] [];
      match ups with
      | [] => Ok (p1, ls)
      | _ => Ok (send_up p1 (UUpdates ups), ls)
      end
  | DRetract ids =>
      if negb (n_perm rq_order (map fst (p_backlog p))) then Disabled
      else
        let '(b, out) := retract_from (p_backlog p) rq_order ids [] in
        let p1 := wp_backlog p b in
        match ids with
        | [] => Ok (p1, [])
        | _ => Ok (send_up p1 (URetractResponse out), [])
        end
  | DCancel ids => Ok (fold_left cancel_task ids p, [])
  | DNewWorker _ => Ok (p, [])
  | DLostWorker _ => Ok (p, [])
  | DNewRq rq def =>
      if N.eqb rq (N.of_nat (length (p_rqs p))) then Ok (wp_rqs p (p_rqs p ++ [def]), [])
      else Panic 302          (* assert_eq!(rq_id, new_id) *)
  | DStop => Ok (p, [])
  end.

(** How the harness ends a launched task future. *)
Inductive endkind := EndOk | EndFail | EndFollowStop.

(** The tail of [handle_task_future] once the task future has resolved.
    ([p_alloc] stores, per running task, its request id followed by the amounts it holds.) *)
Definition task_end (p : wproc) (t : tid) (how : endkind) : res (wproc * list launch) :=
  match fu_find (p_futures p) t with
  | None => Disabled
  | Some stop =>
      match run_find (p_running p) t, al_find (p_alloc p) t with
      | Some rv, Some (rq :: alloc) =>
          let p0 := wp_upd p (p_backlog p) (run_del (p_running p) t) (run_del (p_alloc p) t) (p_blocked p) (p_free p)
                           (run_del (p_futures p) t) (tid_remove t (p_timers p)) (p_failnext p) (p_rqs p) (p_down p) (p_up p) in
          let ups0 :=
              match how with
              | EndOk => [UFinished t]
              | EndFail => [UFailed t FTask]
              | EndFollowStop =>
                  match stop with
                  | Some SCancel => []
                  | Some STimeout => [UFailed t FTimeLimit]
                  | None => [UFinished t]
                  end
              end in
          let '(p1, ups1, ls, used) := prefill_loop (S (backlog_size p0)) p0 rq rv alloc ups0 [] in
          let '(p2, ups2) :=
              if negb used then
                let en := filter (fun b => match nth_error (p_rqs p1) (N.to_nat (fst b)) with
                                           | Some r => res_fits (p_free p1) (rq_res r)
                                           | None => false
                                           end) (p_blocked p1) in
                (wp_blocked p1 (filter (fun b => negb (nn_mem b en)) (p_blocked p1)),
                 ups1 ++ map (fun b => UEnable (fst b) (snd b)) en)
              else (p1, ups1) in
          match ups2 with
          | [] => Ok (p2, ls)
          | _ => Ok (send_up p2 (UUpdates ups2), ls)
          end
      | _, _ => Panic 303       (* state.remove_running_task(task_id).unwrap() *)
      end
  end.

(** The time-limit timer of a running task fires: the stop(Timeout) signal is sent
    (the first stop signal wins). *)
Definition timer_fire (p : wproc) (t : tid) : wproc :=
  let p1 := wp_timers p (tid_remove t (p_timers p)) in
  match fu_find (p_futures p1) t with
  | Some None => wp_futures p1 (fu_set (p_futures p1) t (Some STimeout))
  | _ => p1
  end.
