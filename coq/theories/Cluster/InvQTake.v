(** The queue invariant, part 2: the taking functions of taskqueue.rs ([take_tasks], [take_one],
    [take_tasks_for_prefill]) and the notion "id [x] is placed at [pl] in queue [q]". *)
From HQ Require Import Base.Prelude Cluster.Types Cluster.Core Cluster.Reactor Cluster.Worker Cluster.Server Cluster.Sys Cluster.Monitors Cluster.ProofsJob Cluster.ProofsMore Cluster.ProofsStep Cluster.BijBase Cluster.BijCore Cluster.BijHq Cluster.BijSt Cluster.InvQBase.
From Coq Require Import ZArith Lia Sorting.Sorted.
Local Open Scope N_scope.

Arguments N.add : simpl never.
Arguments N.sub : simpl never.

(** [TakeQ q q' a]: [q'] is [q] without the ids [a]; each taken id left the priority level it was at. *)
Record TakeQ (q q' : queue) (a : list tid) : Prop := mkTakeQ {
  tk_wf : WFQ q';
  tk_r_sub : forall p x, RdyAt q' p x -> RdyAt q p x;
  tk_p_sub : forall p x, PfAt q' p x -> PfAt q p x;
  tk_r_keep : forall p x, RdyAt q p x -> RdyAt q' p x \/ In x a;
  tk_p_keep : forall p x, PfAt q p x -> PfAt q' p x \/ In x a;
  tk_gone : forall x, In x a -> exists p0, (RdyAt q p0 x /\ ~ RdyAt q' p0 x) \/ (PfAt q p0 x /\ ~ PfAt q' p0 x)
}.

Lemma TakeQ_refl q : WFQ q -> TakeQ q q [].
Proof. intros W. constructor; auto. intros x []. Qed.

Lemma TakeQ_trans q q1 q2 a b : TakeQ q q1 a -> TakeQ q1 q2 b -> TakeQ q q2 (a ++ b).
Proof.
  intros [W1 RS1 PS1 RK1 PK1 G1] [W2 RS2 PS2 RK2 PK2 G2]. constructor; auto.
  - intros p x H. destruct (RK1 _ _ H) as [H1|H1]; [|right; apply in_or_app; auto].
    destruct (RK2 _ _ H1) as [H2|H2]; [left; exact H2 | right; apply in_or_app; auto].
  - intros p x H. destruct (PK1 _ _ H) as [H1|H1]; [|right; apply in_or_app; auto].
    destruct (PK2 _ _ H1) as [H2|H2]; [left; exact H2 | right; apply in_or_app; auto].
  - intros x Hx. apply in_app_or in Hx. destruct Hx as [Hx|Hx].
    + destruct (G1 _ Hx) as (p0 & [[A B]|[A B]]); exists p0; [left | right]; (split; [exact A | intros C; apply B; auto]).
    + destruct (G2 _ Hx) as (p0 & [[A B]|[A B]]); exists p0; [left | right]; (split; [auto | exact B]).
Qed.

(** * [take_from_entry] on the first entry *)
Lemma take_from_first_spec e t pf count a es' c :
  WFQ (mkQ (e :: t) pf) -> take_from_first (e :: t) count = Ok (a, es', c) ->
  TakeQ (mkQ (e :: t) pf) (mkQ es' pf) a /\ (forall x, In x a -> In x (qe_ids e) /\ ~ EAt es' (qe_prio e) x).
Proof.
  intros [W1 W2] H. cbn [q_ready q_prefill] in W1, W2. destruct (WFE_inv _ _ W1) as (He & B & Wt).
  assert (Hnot : forall x, ~ EAt t (qe_prio e) x) by (intros x Hx; exact (WFE_head_notin _ _ _ _ W1 Hx eq_refl)).
  (* the whole entry is taken *)
  assert (Hall : a = qe_ids e -> es' = t ->
                 TakeQ (mkQ (e :: t) pf) (mkQ es' pf) a /\ (forall x, In x a -> In x (qe_ids e) /\ ~ EAt es' (qe_prio e) x)).
  { intros -> ->. split.
    - constructor; unfold RdyAt, PfAt; cbn [q_ready q_prefill]; auto.
      + split; assumption.
      + intros p x Hx. apply EAt_cons. right. exact Hx.
      + intros p x Hx. apply EAt_cons in Hx. destruct Hx as [[_ Hx]|Hx]; auto.
      + intros x Hx. exists (qe_prio e). left. split; [apply EAt_cons; left; auto | apply Hnot].
    - intros x Hx. split; [exact Hx | apply Hnot]. }
  unfold take_from_first in H. destruct (qe_more e) eqn:Em.
  - destruct (take_n (N.to_nat count) (qe_ids e)) as [a0 b] eqn:Et.
    pose proof (take_n_app _ _ _ _ Et) as Eab.
    destruct (SL_app a0 b) as (Sa & Sb & Dab); [rewrite <- Eab; apply He|].
    destruct b as [|b0 bb] eqn:Eb.
    + inversion H; subst. apply Hall; [rewrite Eab, app_nil_r; reflexivity | reflexivity].
    + rewrite <- Eb in *. clear Eb. inversion H; subst. clear H.
      assert (Hno : forall x, In x a -> ~ EAt (mkQE (qe_prio e) true b :: t) (qe_prio e) x).
      { intros x Hx Hc. apply EAt_cons in Hc. cbn [qe_prio qe_ids] in Hc. destruct Hc as [[_ Hc]|Hc]; [exact (Dab _ Hx Hc) | exact (Hnot _ Hc)]. }
      split.
      * constructor; unfold RdyAt, PfAt; cbn [q_ready q_prefill]; auto.
        -- split; [|exact W2]. cbn [q_ready]. apply WFE_cons; [split; [exact Sb | discriminate] | exact B | exact Wt].
        -- intros p x Hx. apply EAt_cons in Hx. apply EAt_cons. cbn [qe_prio qe_ids] in Hx.
           destruct Hx as [[Hp Hx]|Hx]; [left; split; [exact Hp | rewrite Eab; apply in_or_app; auto] | right; exact Hx].
        -- intros p x Hx. apply EAt_cons in Hx. rewrite EAt_cons. cbn [qe_prio qe_ids].
           destruct Hx as [[Hp Hx]|Hx]; [|left; right; exact Hx].
           rewrite Eab in Hx. apply in_app_or in Hx. destruct Hx as [Hx|Hx]; [right; exact Hx | left; left; auto].
        -- intros x Hx. exists (qe_prio e). left. split; [apply EAt_cons; left; split; [reflexivity | rewrite Eab; apply in_or_app; auto] | apply Hno; exact Hx].
      * intros x Hx. split; [rewrite Eab; apply in_or_app; auto | apply Hno; exact Hx].
  - destruct (N.eqb count 0); [discriminate|]. inversion H; subst. apply Hall; reflexivity.
Qed.

Lemma take_from_first_TakeQ es pf count a es' c :
  WFQ (mkQ es pf) -> take_from_first es count = Ok (a, es', c) -> TakeQ (mkQ es pf) (mkQ es' pf) a.
Proof.
  intros W H. destruct es as [|e t]; [discriminate|]. eapply take_from_first_spec; eassumption.
Qed.

(** * The `while count > 0` loop *)
Lemma take_loop_spec pf fuel : forall es count acc ids es',
  WFQ (mkQ es pf) -> take_loop fuel es count acc = Ok (ids, es') ->
  exists a, ids = acc ++ a /\ TakeQ (mkQ es pf) (mkQ es' pf) a.
Proof.
  induction fuel as [|k IH]; intros es count acc ids es' W H; cbn [take_loop] in H.
  - destruct (N.eqb count 0); [|discriminate]. inversion H; subst. exists []. split; [rewrite app_nil_r; reflexivity | apply TakeQ_refl; exact W].
  - destruct (N.eqb count 0).
    + inversion H; subst. exists []. split; [rewrite app_nil_r; reflexivity | apply TakeQ_refl; exact W].
    + apply bind_ok in H. destruct H as ([[a es1] c1] & H1 & H).
      pose proof (take_from_first_TakeQ _ _ _ _ _ _ W H1) as T1.
      destruct (IH _ _ _ _ _ (tk_wf _ _ _ T1) H) as (b & Eb & T2).
      exists (a ++ b). split; [rewrite Eb, app_assoc; reflexivity | eapply TakeQ_trans; eassumption].
Qed.

(** * [drain_prefill] *)
Lemma drain_prefill_spec es pf order count a pf' c :
  WFQ (mkQ es pf) -> drain_prefill pf order count = Ok (a, pf', c) -> TakeQ (mkQ es pf) (mkQ es pf') a.
Proof.
  intros W H. unfold drain_prefill in H. destruct pf as [[pp ts]|]; [|inversion H; subst; apply TakeQ_refl; exact W].
  destruct (perm_of_set order ts) eqn:Eperm; [|discriminate]. cbn [negb] in H.
  destruct (take_n (N.to_nat count) order) as [a0 rest0] eqn:Et.
  pose proof (take_n_app _ _ _ _ Et) as Eab.
  destruct W as [W1 W2]. cbn [q_ready q_prefill] in W1, W2.
  destruct (fold_rem_spec a0 ts W2) as [RS RI].
  assert (Ha : forall x, In x a0 -> In x ts).
  { intros x Hx. unfold perm_of_set in Eperm. apply andb_true_iff in Eperm. destruct Eperm as [Eperm _].
    apply andb_true_iff in Eperm. destruct Eperm as [_ Eperm]. rewrite forallb_forall in Eperm.
    apply tmem_in. apply Eperm. rewrite Eab. apply in_or_app. auto. }
  set (rest := fold_left (fun acc x => tid_remove x acc) a0 ts) in *.
  assert (Hgen : a = a0 -> WFP pf' -> (forall p x, PAt pf' p x <-> p = pp /\ In x rest) -> TakeQ (mkQ es (Some (pp, ts))) (mkQ es pf') a).
  { intros -> Wp Hp. constructor; unfold RdyAt, PfAt; cbn [q_ready q_prefill]; auto.
    - split; assumption.
    - intros p x Hx. apply Hp in Hx. apply PAt_some. split; [apply Hx | apply RI; apply Hx].
    - intros p x Hx. apply PAt_some in Hx. destruct Hx as [-> Hx].
      destruct (in_dec tid_dec x a0) as [I|N]; [right; exact I | left; apply Hp; split; [reflexivity | apply RI; auto]].
    - intros x Hx. exists pp. right. split; [apply PAt_some; auto|]. intros Hc. apply Hp in Hc. destruct Hc as [_ Hc]. apply RI in Hc. apply Hc. exact Hx. }
  destruct rest as [|r0 rr] eqn:Er; inversion H; subst; clear H.
  - apply Hgen; [reflexivity | exact I |]. intros p x. rewrite PAt_none. cbn. tauto.
  - apply Hgen; [reflexivity | exact RS |]. intros p x. apply PAt_some.
Qed.

(** * [TaskQueue::take_tasks] *)
Lemma q_take_tasks_spec q count order ids q' : WFQ q -> q_take_tasks q count order = Ok (ids, q') -> TakeQ q q' ids.
Proof.
  intros W H. destruct q as [es pf]. unfold q_take_tasks in H. cbn [q_ready q_prefill] in H.
  destruct pf as [[pp ts]|].
  - destruct (match q_top_priority (mkQ es (Some (pp, ts))) with Some tp => Z.eqb tp pp | None => false end).
    + apply bind_ok in H. destruct H as ([[a es1] c1] & H1 & H).
      apply bind_ok in H. destruct H as ([[b pf1] c2] & H2 & H).
      apply bind_ok in H. destruct H as ([c es2] & H3 & H). inversion H; subst; clear H.
      assert (T1 : TakeQ (mkQ es (Some (pp, ts))) (mkQ es1 (Some (pp, ts))) a).
      { destruct (N.ltb 0 count); [eapply take_from_first_TakeQ; eassumption | inversion H1; subst; apply TakeQ_refl; exact W]. }
      pose proof (drain_prefill_spec _ _ _ _ _ _ _ (tk_wf _ _ _ T1) H2) as T2.
      destruct (take_loop_spec pf1 _ _ _ _ _ _ (tk_wf _ _ _ T2) H3) as (c' & Ec & T3). cbn [app] in Ec. subst c'.
      eapply TakeQ_trans; [exact T1 | eapply TakeQ_trans; [exact T2 | exact T3]].
    + apply bind_ok in H. destruct H as ([[b pf1] c2] & H2 & H).
      apply bind_ok in H. destruct H as ([c es2] & H3 & H). inversion H; subst; clear H.
      pose proof (drain_prefill_spec _ _ _ _ _ _ _ W H2) as T2.
      destruct (take_loop_spec pf1 _ _ _ _ _ _ (tk_wf _ _ _ T2) H3) as (c' & Ec & T3). cbn [app] in Ec. subst c'.
      eapply TakeQ_trans; [exact T2 | exact T3].
  - apply bind_ok in H. destruct H as ([ids0 es2] & H3 & H). inversion H; subst; clear H.
    destruct (take_loop_spec None _ _ _ _ _ _ W H3) as (c' & Ec & T3). cbn [app] in Ec. subst c'. exact T3.
Qed.

(** * [TaskQueue::take_one] *)
Lemma q_take_one_spec q x q' : WFQ q -> q_take_one q = Some (x, q') -> TakeQ q q' [x].
Proof.
  intros W H. destruct q as [es pf]. unfold q_take_one in H. cbn [q_ready q_prefill] in H.
  destruct es as [|e t]; [discriminate|]. destruct (qe_ids e) as [|x0 rest] eqn:Ei; [discriminate|].
  (* [take_one] is [take_from_first] with count 1 *)
  assert (Ht : exists c, take_from_first (e :: t) 1 = Ok ([x], q_ready q', c) /\ q_prefill q' = pf).
  { unfold take_from_first. destruct (qe_more e) eqn:Em.
    - rewrite Ei. change (N.to_nat 1) with 1%nat.
      destruct rest as [|r0 rr]; inversion H; subst; cbn [take_n q_ready q_prefill]; eexists; split; reflexivity.
    - inversion H; subst. cbn [N.eqb]. rewrite Ei.
      destruct W as [W1 _]. cbn in W1. destruct (WFE_inv _ _ W1) as ((_ & Hone) & _). destruct (Hone Em) as (y & Ey).
      rewrite Ei in Ey. inversion Ey; subst. change (N.eqb 1 0) with false. cbn [q_ready q_prefill]. eexists; split; reflexivity. }
  destruct Ht as (c & Ht & Ep). destruct q' as [es' pf']. cbn [q_ready q_prefill] in Ht, Ep. subst pf'.
  eapply take_from_first_TakeQ; eassumption.
Qed.

(** * [TaskQueue::take_tasks_for_prefill] *)
Record MoveQ (q q' : queue) (a : list tid) (pe : Z) : Prop := mkMoveQ {
  mv_wf : WFQ q';
  mv_from : forall x, In x a -> RdyAt q pe x /\ ~ RdyAt q' pe x;
  mv_r_sub : forall p x, RdyAt q' p x -> RdyAt q p x;
  mv_r_keep : forall p x, RdyAt q p x -> RdyAt q' p x \/ In x a;
  mv_p : forall p x, PfAt q' p x <-> PfAt q p x \/ (In x a /\ p = pe)
}.

Lemma q_take_prefill_spec q count ids q' : WFQ q -> q_take_tasks_for_prefill q count = Ok (ids, q') ->
  exists pe, MoveQ q q' ids pe.
Proof.
  intros W H. destruct q as [es pf]. unfold q_take_tasks_for_prefill in H. cbn [q_ready q_prefill] in H.
  destruct es as [|e t]; [discriminate|].
  apply bind_ok in H. destruct H as ([[a es1] c1] & H1 & H).
  destruct (take_from_first_spec _ _ _ _ _ _ _ W H1) as [T1 F1].
  exists (qe_prio e).
  assert (Hgen : forall pf', WFP pf' -> (forall p x, PAt pf' p x <-> PAt pf p x \/ (In x a /\ p = qe_prio e)) ->
                 MoveQ (mkQ (e :: t) pf) (mkQ es1 pf') a (qe_prio e)).
  { intros pf' Wp Hp. constructor; unfold RdyAt, PfAt; cbn [q_ready q_prefill].
    - split; [exact (proj1 (tk_wf _ _ _ T1)) | exact Wp].
    - intros x Hx. destruct (F1 _ Hx) as [A B]. split; [apply EAt_cons; left; auto | exact B].
    - exact (tk_r_sub _ _ _ T1).
    - exact (tk_r_keep _ _ _ T1).
    - exact Hp. }
  destruct W as [_ W2]. cbn [q_prefill] in W2.
  destruct pf as [[pp ts]|].
  - destruct (Z.eqb pp (qe_prio e)) eqn:Ep; [|discriminate]. apply Z.eqb_eq in Ep. inversion H; subst; clear H.
    apply Hgen; [cbn; apply tinsall_SL; exact W2|].
    intros p x. rewrite !PAt_some, tinsall_iff. tauto.
  - inversion H; subst; clear H. apply Hgen; [cbn; apply tinsall_SL; apply SL_nil|].
    intros p x. rewrite PAt_none, PAt_some, tinsall_iff. cbn [In]. tauto.
Qed.

(** * Placement *)
Inductive place := Nowhere | Ready | Prefill.

Definition placed (q : queue) (pl : place) (pr : Z) (x : tid) : Prop :=
  match pl with
  | Ready => (forall p, RdyAt q p x <-> p = pr) /\ (forall p, ~ PfAt q p x)
  | Prefill => (forall p, PfAt q p x <-> p = pr) /\ (forall p, ~ RdyAt q p x)
  | Nowhere => (forall p, ~ RdyAt q p x) /\ (forall p, ~ PfAt q p x)
  end.

Lemma placed_same q q' pl pr x :
  (forall p, RdyAt q' p x <-> RdyAt q p x) -> (forall p, PfAt q' p x <-> PfAt q p x) ->
  placed q pl pr x -> placed q' pl pr x.
Proof.
  intros HR HP. destruct pl; cbn; intros [A B]; split; intros p; try rewrite HR; try rewrite HP; auto.
Qed.

Lemma placed_member q pl pr x : placed q pl pr x -> member q x -> pl <> Nowhere.
Proof. intros H (p & [M|M]) ->; destruct H as [A B]; [exact (A _ M) | exact (B _ M)]. Qed.

Lemma placed_nowhere q pr pr' x : placed q Nowhere pr x -> placed q Nowhere pr' x.
Proof. intros H. exact H. Qed.

Lemma placed_not_member q pr x : ~ member q x -> placed q Nowhere pr x.
Proof. intros H. split; intros p M; apply H; exists p; auto. Qed.

Lemma placed_take_other q q' a pl pr x : TakeQ q q' a -> ~ In x a -> placed q pl pr x -> placed q' pl pr x.
Proof.
  intros T N. destruct pl; cbn; intros [A B]; split; intros p.
  - intros M. exact (A _ (tk_r_sub _ _ _ T _ _ M)).
  - intros M. exact (B _ (tk_p_sub _ _ _ T _ _ M)).
  - split; [intros M; apply A; exact (tk_r_sub _ _ _ T _ _ M)|].
    intros ->. destruct (tk_r_keep _ _ _ T pr x) as [M|M]; [apply A; reflexivity | exact M | contradiction].
  - intros M. exact (B _ (tk_p_sub _ _ _ T _ _ M)).
  - split; [intros M; apply A; exact (tk_p_sub _ _ _ T _ _ M)|].
    intros ->. destruct (tk_p_keep _ _ _ T pr x) as [M|M]; [apply A; reflexivity | exact M | contradiction].
  - intros M. exact (B _ (tk_r_sub _ _ _ T _ _ M)).
Qed.

Lemma placed_take_in q q' a pl pr x : TakeQ q q' a -> In x a -> placed q pl pr x -> placed q' Nowhere pr x.
Proof.
  intros T Hin H. destruct (tk_gone _ _ _ T _ Hin) as (p0 & G). destruct pl; cbn in H; destruct H as [A B].
  - exfalso. destruct G as [[G _]|[G _]]; [exact (A _ G) | exact (B _ G)].
  - split; intros p M.
    + pose proof (tk_r_sub _ _ _ T _ _ M) as M0. apply A in M0. subst p.
      destruct G as [[G1 G2]|[G1 _]]; [|exact (B _ G1)]. apply A in G1. subst p0. exact (G2 M).
    + exact (B _ (tk_p_sub _ _ _ T _ _ M)).
  - split; intros p M.
    + exact (B _ (tk_r_sub _ _ _ T _ _ M)).
    + pose proof (tk_p_sub _ _ _ T _ _ M) as M0. apply A in M0. subst p.
      destruct G as [[G1 _]|[G1 G2]]; [exact (B _ G1)|]. apply A in G1. subst p0. exact (G2 M).
Qed.

Lemma TakeQ_member q q' a x : TakeQ q q' a -> member q' x -> member q x.
Proof. intros T (p & [M|M]); exists p; [left; exact (tk_r_sub _ _ _ T _ _ M) | right; exact (tk_p_sub _ _ _ T _ _ M)]. Qed.
Lemma TakeQ_taken_member q q' a x : TakeQ q q' a -> In x a -> member q x.
Proof. intros T Hin. destruct (tk_gone _ _ _ T _ Hin) as (p0 & [[G _]|[G _]]); exists p0; auto. Qed.

Lemma placed_move_other q q' a pe pl pr x : MoveQ q q' a pe -> ~ In x a -> placed q pl pr x -> placed q' pl pr x.
Proof.
  intros T N. destruct pl; cbn; intros [A B]; split; intros p.
  - intros M. exact (A _ (mv_r_sub _ _ _ _ T _ _ M)).
  - intros M. apply (mv_p _ _ _ _ T) in M. destruct M as [M|[M _]]; [exact (B _ M) | contradiction].
  - split; [intros M; apply A; exact (mv_r_sub _ _ _ _ T _ _ M)|].
    intros ->. destruct (mv_r_keep _ _ _ _ T pr x) as [M|M]; [apply A; reflexivity | exact M | contradiction].
  - intros M. apply (mv_p _ _ _ _ T) in M. destruct M as [M|[M _]]; [exact (B _ M) | contradiction].
  - rewrite (mv_p _ _ _ _ T). split; [intros [M|[M _]]; [apply A; exact M | contradiction] | intros ->; left; apply A; reflexivity].
  - intros M. exact (B _ (mv_r_sub _ _ _ _ T _ _ M)).
Qed.

Lemma placed_move_in q q' a pe pl pr x : MoveQ q q' a pe -> In x a -> placed q pl pr x -> pl = Ready /\ placed q' Prefill pr x.
Proof.
  intros T Hin H. destruct (mv_from _ _ _ _ T _ Hin) as [F1 F2]. destruct pl; cbn in H; destruct H as [A B].
  - exfalso. exact (A _ F1).
  - split; [reflexivity|]. pose proof (proj1 (A _) F1) as E. subst pe. split; intros p.
    + rewrite (mv_p _ _ _ _ T). split; [intros [M|[_ M]]; [exfalso; exact (B _ M) | exact M] | intros ->; right; auto].
    + intros M. pose proof (mv_r_sub _ _ _ _ T _ _ M) as M0. apply A in M0. subst p. exact (F2 M).
  - exfalso. exact (B _ F1).
Qed.

Lemma MoveQ_member q q' a pe x : MoveQ q q' a pe -> member q' x -> member q x.
Proof.
  intros T (p & [M|M]); [exists p; left; exact (mv_r_sub _ _ _ _ T _ _ M)|].
  apply (mv_p _ _ _ _ T) in M. destruct M as [M|[M _]]; [exists p; right; exact M|].
  exists pe. left. apply (mv_from _ _ _ _ T _ M).
Qed.
