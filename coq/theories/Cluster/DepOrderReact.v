(** C03 across a restart, part 2: the reactor.

    [LK s s']: a piece of the server's execution that starts in a state satisfying the proved
    invariants [W] (dependency counters / consumer lists exact [GD], core tasks = active job tasks
    [CB], job counters [HOK], dependencies within the job [DJ]) ends in such a state, keeps the
    dependency lists of the surviving tasks ([dsub]), and the events [ext] it appends are
    dependency-closed w.r.t. the edges of the core it started from ([jc (cdep ..)]): when an event
    kills [t], every dependent of [t] that was in the core is named by the same or an earlier
    event of [ext].  [EVx]: a task that stops being active got a terminal event.

    Proved for [task_finished], [task_failed] (the heart: dependents' abort BEFORE the failure,
    then the rest of the job), the other worker updates, [on_task_update], [lost_fail_running]. *)
From HQ Require Import Base.Prelude Cluster.Types Cluster.Core Cluster.Reactor Cluster.Worker Cluster.Server Cluster.Sys Cluster.Monitors Cluster.ProofsJob Cluster.ProofsMore Cluster.ProofsTerminal Cluster.ProofsStep Cluster.ProofsFinal Cluster.BijBase Cluster.BijCore Cluster.BijHq Cluster.BijSt Cluster.BijReact Cluster.ProofsOnce Cluster.StartFinBase Cluster.InvDBase Cluster.InvDMap Cluster.InvDSpec Cluster.InvDRem Cluster.InvDReact Cluster.InvDHq Cluster.InvDStep Cluster.DepOrderBase.
From Coq Require Import ZArith Lia.
Local Open Scope N_scope.

Arguments N.add : simpl never.
Arguments N.sub : simpl never.

Record W (s : st) : Prop := mkW { w_gd : GD (core_of s); w_cb : CB s; w_hok : HOK (hq_of s); w_dj : DJ s }.

Definition EVx (s s' : st) (ext : list out) : Prop :=
  forall x, active s x -> active s' x \/ In x (terminal_ids ext).

Definition NoT : tid -> Prop := fun _ => False.

Definition LK (s s' : st) : Prop :=
  W s -> W s' /\ dsub (fm (core_of s)) (fm (core_of s')) /\
  exists ext, snd s' = snd s ++ ext /\ jc (cdep (core_of s)) NoT ext /\ EVx s s' ext.

Lemma W_next s s' : W s -> RL (core_of s) (core_of s') -> CB s' -> HOK (hq_of s') -> KL s s' ->
  W s' /\ dsub (fm (core_of s)) (fm (core_of s')).
Proof.
  intros HW [G' S] HC' Hok' HK. split; [|exact S].
  constructor; [exact G' | exact HC' | exact Hok' | eapply DJ_step; [exact (w_dj _ HW) | exact S | exact HK]].
Qed.

Lemma core_task_active s x tx : CB s -> find_task (c_tasks (core_of s)) x = Some tx -> active s x.
Proof. intros HC Ex. apply (cb_b _ HC). apply find_task_present. exists tx. exact Ex. Qed.

Lemma active_core_task s x : CB s -> active s x -> exists tx, find_task (c_tasks (core_of s)) x = Some tx.
Proof. intros HC Ha. apply (cb_b _ HC) in Ha. apply find_task_present in Ha. exact Ha. Qed.

(** An edge of the core survives, or its dependent got a terminal event. *)
Lemma cdep_step s s' ext :
  CB s -> CB s' -> dsub (fm (core_of s)) (fm (core_of s')) -> EVx s s' ext ->
  forall x t, cdep (core_of s) x t -> cdep (core_of s') x t \/ In x (terminal_ids ext).
Proof.
  intros HC HC' S EV x t (tx & Ex & Ht).
  destruct (EV x (core_task_active _ _ _ HC Ex)) as [Ha|Hin]; [|right; exact Hin].
  left. destruct (active_core_task _ _ HC' Ha) as (tx' & Ex').
  destruct (S _ _ Ex') as (t0 & E0 & Ed). unfold fm in E0. rewrite Ex in E0. inversion E0; subst t0.
  exists tx'. split; [exact Ex' | rewrite Ed; exact Ht].
Qed.

Lemma LK_refl s : LK s s.
Proof.
  intros HW. split; [exact HW|]. split; [apply dsub_refl|]. exists []. rewrite app_nil_r.
  split; [reflexivity|]. split; [exact I|]. intros x Hx; left; exact Hx.
Qed.

Lemma LK_trans s1 s2 s3 : LK s1 s2 -> LK s2 s3 -> LK s1 s3.
Proof.
  intros A B HW1. destruct (A HW1) as (HW2 & S12 & e1 & E1 & J1 & V1).
  destruct (B HW2) as (HW3 & S23 & e2 & E2 & J2 & V2).
  split; [exact HW3|]. split; [eapply dsub_trans; eassumption|].
  exists (e1 ++ e2). split; [rewrite E2, E1, app_assoc; reflexivity|]. split.
  - apply jc_app. split; [exact J1|]. eapply jc_weaken; [| |exact J2].
    + intros x t Hd. destruct (cdep_step _ _ _ (w_cb _ HW1) (w_cb _ HW2) S12 V1 _ _ Hd) as [Hc|Hin]; [left; exact Hc | right; left; exact Hin].
    + intros x [].
  - intros x Hx. rewrite terminal_ids_app. destruct (V1 x Hx) as [H2|Hin]; [|right; apply in_app_iff; left; exact Hin].
    destruct (V2 x H2) as [H3|Hin]; [left; exact H3 | right; apply in_app_iff; right; exact Hin].
Qed.

(** A piece that emits no terminal event and keeps the active tasks. *)
Lemma LK_quiet s s' q :
  (W s -> W s' /\ dsub (fm (core_of s)) (fm (core_of s'))) ->
  snd s' = snd s ++ q -> terminal_ids q = [] -> (W s -> forall x, active s x -> active s' x) -> LK s s'.
Proof.
  intros HWn E Hq Ha HW. destruct (HWn HW) as [HW' S]. split; [exact HW'|]. split; [exact S|].
  exists q. split; [exact E|]. split; [apply jc_quiet; exact Hq|]. intros x Hx; left; apply (Ha HW); exact Hx.
Qed.

(** * [task_finished] *)
Lemma LK_task_finished s w id s' b : task_finished s w id = Ok (s', b) -> LK s s'.
Proof.
  intros H HW.
  destruct (W_next s s' HW (task_finished_RL _ _ _ _ _ (w_gd _ HW) H) (task_finished_CB _ _ _ _ _ (w_cb _ HW) H)
              (task_finished_ok _ _ _ _ _ (w_hok _ HW) H) (task_finished_KL _ _ _ _ _ H)) as [HW' Hds].
  split; [exact HW'|]. split; [exact Hds|].
  unfold task_finished in H.
  destruct (find_task (c_tasks (core_of s)) id) as [t|] eqn:Ef.
  2:{ inversion H; subst. exists []. rewrite app_nil_r. split; [reflexivity|]. split; [exact I|]. intros x Hx; left; exact Hx. }
  apply bind_ok in H. destruct H as (rq & _ & H). apply bind_ok in H. destruct H as (c1 & H1 & H). cbv zeta in H.
  apply bind_ok in H. destruct H as (s1 & Hf & H).
  apply bind_ok in H. destruct H as ([c3 retracted] & Hw & H).
  apply bind_ok in H. destruct H as (s2 & Hr & H).
  apply bind_ok in H. destruct H as ([c4 stt] & Hrm & H).
  destruct stt; try discriminate. inversion H; subst s' b. clear H.
  destruct (process_task_finished_ext _ _ _ Hf) as (ext & E & [Et B]). cbn [snd st_core] in E.
  destruct (process_task_finished_active _ _ _ Hf) as [_ A1].
  pose proof (process_retracted_snd _ _ _ Hr) as S2. cbn [snd st_core] in S2.
  pose proof (process_retracted_hq _ _ _ Hr) as Q2.
  exists ext. split; [cbn [snd st_core]; rewrite S2; exact E|]. split.
  - apply B. intros t' x [].
  - intros x Hx. destruct (tid_dec x id) as [->|Hne]; [right; rewrite Et; left; reflexivity|].
    left. apply (active_same s1 (st_core s2 c4)); [apply jt_same; exact Q2|].
    apply A1. split; [|exact Hne]. apply (active_same s (st_core s _)); [intros; reflexivity | exact Hx].
Qed.

(** * [task_failed] *)
Lemma LK_task_failed s w id k s' : task_failed s w id k = Ok s' -> LK s s'.
Proof.
  intros H HW.
  destruct (W_next s s' HW (task_failed_RL _ _ _ _ _ (w_gd _ HW) H) (task_failed_CB _ _ _ _ _ (w_hok _ HW) (w_cb _ HW) H)
              (task_failed_ok _ _ _ _ _ (w_hok _ HW) H) (task_failed_KL _ _ _ _ _ H)) as [HW' Hds].
  split; [exact HW'|]. split; [exact Hds|].
  destruct HW as [[Hs D] HC Hok HJ].
  unfold task_failed in H.
  destruct (find_task (c_tasks (core_of s)) id) as [t|] eqn:Ef.
  2:{ inversion H; subst. exists []. rewrite app_nil_r. split; [reflexivity|]. split; [exact I|]. intros x Hx; left; exact Hx. }
  apply bind_ok in H. destruct H as (rq & _ & H). apply bind_ok in H. destruct H as (c1 & H1 & H).
  assert (Et : c_tasks c1 = c_tasks (core_of s)).
  { destruct w as [wkr|].
    - destruct (rq_is_mn rq).
      + destruct (t_state t); try discriminate. destruct ws as [|w0 ws]; [discriminate|].
        destruct (N.eqb w0 wkr); [|discriminate]. eapply reset_mn_workers_tasks; exact H1.
      + destruct (t_state t); try (inversion H1; reflexivity).
        * destruct (negb (N.eqb wkr w)); [discriminate|]. inv_binds H1. inversion H1; reflexivity.
        * destruct (negb (N.eqb wkr w)); [discriminate|]. inv_binds H1. inversion H1; reflexivity.
        * destruct (negb (N.eqb wkr w)); [discriminate|]. eapply try_remove_redirection_tasks; exact H1.
        * destruct (negb (N.eqb wkr w)); [discriminate|]. inv_binds H1. inversion H1; reflexivity.
    - destruct (is_waiting t); inversion H1; reflexivity. }
  apply bind_ok in H. destruct H as (csm & Hcs & H). rewrite Et in Hcs.
  assert (Wf : WFc (c_tasks (core_of s))) by (eapply DX_WFc; exact D).
  assert (Hdom : forall y, In y (t_consumers t) -> find_task (c_tasks (core_of s)) y <> None).
  { intros y Hy. destruct (dx_cons _ _ D _ _ _ Ef Hy) as (ct & Ec & _). unfold fm in Ec. congruence. }
  destruct (recursive_consumers_closed _ t csm Wf (dx_nc _ _ D _ _ Ef) Hdom Hcs) as [I1 I2].
  pose proof (recursive_consumers_dom _ t csm Wf Hdom Hcs) as I3.
  apply bind_ok in H. destruct H as (c2 & H2 & H).
  apply bind_ok in H. destruct H as ([c3 stt] & H3 & H).
  apply bind_ok in H. destruct H as (u & _ & H).
  apply bind_ok in H. destruct H as ([s1 cancel_ids] & H4 & H).
  destruct (process_task_failed_active (st_core s c3) id csm k s1 cancel_ids Hok H4) as (_ & A4 & J4 & N4).
  destruct (process_task_failed_ext _ _ _ _ _ _ H4) as (e1 & e2 & e3 & E4 & [T1 B1] & [T2 B2] & [T3 B3]). cbn [snd st_core] in E4.
  assert (Hsnd : snd s' = snd s1 /\ hq_of s' = hq_of s1).
  { destruct cancel_ids; [inversion H; subst; split; reflexivity|].
    split; [eapply on_cancel_tasks_snd; exact H | eapply on_cancel_tasks_hq; exact H]. }
  exists (e1 ++ e2 ++ e3). split; [rewrite (proj1 Hsnd); exact E4|]. split.
  - apply jc_app. split.
    + (* the dependents' abort: the transitive consumers are closed *)
      apply B1. intros t' x Ht' (tx & Ex & Hd). left.
      destruct (find_task (c_tasks (core_of s)) t') as [dt|] eqn:Edt; [|exfalso; exact (I3 _ Ht' Edt)].
      eapply I2; [exact Ht' | exact Edt|]. exact (dx_deps _ _ D x tx t' dt Ex Hd Edt).
    + apply jc_app. split.
      * (* the failure itself: its direct dependents were just aborted *)
        apply B2. intros t' x [<-|[]] (tx & Ex & Hd). right. left. rewrite T1. apply I1.
        exact (dx_deps _ _ D x tx id t Ex Hd Ef).
      * (* the failure limit: every other active task of the job *)
        apply B3. intros t' x Ht' (tx & Ex & Hd). rewrite T1, T2.
        destruct (in_dec tid_dec x csm) as [Ic|Nc]; [right; right; left; exact Ic|].
        destruct (tid_dec x id) as [->|Ni]; [right; left; left; reflexivity|].
        left. apply N4; [intros E0; rewrite E0 in Ht'; destruct Ht' | | | exact Nc | exact Ni].
        -- destruct (HJ x tx t' Ex Hd) as [Hj _]. rewrite <- Hj. apply J4. exact Ht'.
        -- apply (active_same s (st_core s c3)); [intros; reflexivity|]. eapply core_task_active; [exact HC | exact Ex].
  - intros x Hx. rewrite !terminal_ids_app, T1, T2, T3.
    destruct (in_dec tid_dec x csm) as [Ic|Nc]; [right; apply in_app_iff; left; exact Ic|].
    destruct (tid_dec x id) as [->|Ni]; [right; apply in_app_iff; right; left; reflexivity|].
    destruct (in_dec tid_dec x cancel_ids) as [Ik|Nk]; [right; apply in_app_iff; right; right; exact Ik|].
    left. apply (active_same s1 s'); [apply jt_same; exact (proj2 Hsnd)|].
    apply A4. split; [|split; [exact Nc | split; [exact Ni | exact Nk]]].
    apply (active_same s (st_core s c3)); [intros; reflexivity | exact Hx].
Qed.

(** * The other worker updates *)
Lemma task_running_ext s w id rv s' b :
  task_running s w id rv = Ok (s', b) -> exists q, snd s' = snd s ++ q /\ terminal_ids q = [].
Proof.
  intros Hc. unfold task_running in Hc.
  destruct (find_task _ id) as [t|]; [|inversion Hc; subst; exists []; rewrite app_nil_r; split; reflexivity].
  apply bind_ok in Hc. destruct Hc as (rq & _ & Hc). apply bind_ok in Hc. destruct Hc as ([s1 ws] & Hm & Hc).
  apply bind_ok in Hc. destruct Hc as (s2 & H2 & Hc). inversion Hc; subst.
  destruct (process_task_started_ext _ _ _ _ _ _ H2) as (q & Eq & Hq). exists q. split; [|exact Hq]. rewrite Eq. f_equal.
  destruct (t_state t); try discriminate.
  - destruct (negb (N.eqb w0 w)); [discriminate|]. destruct (negb (N.eqb rv0 rv)); [discriminate|]. inversion Hm; subst. reflexivity.
  - destruct (negb (N.eqb w0 w)); [discriminate|]. inv_binds Hm. inversion Hm; subst. reflexivity.
  - destruct (negb (N.eqb w0 w)); [discriminate|]. inv_binds Hm. inversion Hm; subst. reflexivity.
  - destruct ws0; [discriminate|]. destruct (N.eqb w0 w); [|discriminate]. inversion Hm; subst. reflexivity.
Qed.

(** One update as a one-element [apply_updates]: the invariants come from the existing lemmas. *)
Lemma single_update s w u need s1 n1 :
  match u with
  | UFinished t => task_finished s w t
  | UFailed t k => do s' <- task_failed s (Some w) t k; Ok (s', true)
  | URunning t rv | URunningPrefilled t rv => task_running s w t rv
  | UReject t rv => task_reject s w t rv
  | UEnable rq rv => do s' <- request_enabled s w rq rv; Ok (s', true)
  end = Ok (s1, n1) ->
  apply_updates s w [u] need = Ok (s1, need || n1).
Proof. intros Hu. cbn [apply_updates]. rewrite Hu. reflexivity. Qed.

Lemma W_apply_updates us s w need s' need' :
  apply_updates s w us need = Ok (s', need') -> W s -> W s' /\ dsub (fm (core_of s)) (fm (core_of s')).
Proof.
  intros H HW. apply (W_next s s' HW).
  - eapply apply_updates_RL; [exact (w_gd _ HW) | exact H].
  - eapply apply_updates_CB; [exact (w_hok _ HW) | exact (w_cb _ HW) | exact H].
  - eapply apply_updates_ok; [exact (w_hok _ HW) | exact H].
  - eapply apply_updates_KL; exact H.
Qed.

Lemma LK_apply_updates us : forall s w need s' need', apply_updates s w us need = Ok (s', need') -> LK s s'.
Proof.
  induction us as [|u r IH]; cbn [apply_updates]; intros s w need s' need' H; [inversion H; subst; apply LK_refl|].
  apply bind_ok in H. destruct H as ([s1 n1] & Hu & H).
  eapply LK_trans; [|eapply IH; exact H].
  pose proof (single_update _ _ _ need _ _ Hu) as Hsingle.
  destruct u.
  - eapply LK_task_finished; exact Hu.
  - apply bind_ok in Hu. destruct Hu as (sx & Hf & Hu). inversion Hu; subst. eapply LK_task_failed; exact Hf.
  - destruct (task_running_ext _ _ _ _ _ _ Hu) as (q & Eq & Hq).
    eapply (LK_quiet s s1 q); [eapply W_apply_updates; exact Hsingle | exact Eq | exact Hq|].
    intros HW x Hx. apply (proj2 (task_running_spec _ _ _ _ _ _ (cb_s _ (w_cb _ HW)) Hu)). exact Hx.
  - destruct (task_running_ext _ _ _ _ _ _ Hu) as (q & Eq & Hq).
    eapply (LK_quiet s s1 q); [eapply W_apply_updates; exact Hsingle | exact Eq | exact Hq|].
    intros HW x Hx. apply (proj2 (task_running_spec _ _ _ _ _ _ (cb_s _ (w_cb _ HW)) Hu)). exact Hx.
  - eapply (LK_quiet s s1 []); [eapply W_apply_updates; exact Hsingle | rewrite app_nil_r; eapply task_reject_snd; exact Hu | reflexivity|].
    intros _ x Hx. apply (active_same s s1); [apply jt_same; eapply task_reject_same; exact Hu | exact Hx].
  - apply bind_ok in Hu. destruct Hu as (sx & Hf & Hu). inversion Hu; subst.
    eapply (LK_quiet s s1 []); [eapply W_apply_updates; exact Hsingle | | reflexivity|].
    + rewrite app_nil_r. unfold request_enabled in Hf. inv_binds Hf. inversion Hf; subst. reflexivity.
    + intros _ x Hx. apply (active_same s s1); [apply jt_same; eapply request_enabled_same; exact Hf | exact Hx].
Qed.

(** * Pieces that leave the task ids, edges and the job layer alone *)
Lemma W_same_keys s s' :
  scr (core_of s) (core_of s') -> K s' = K s -> hq_of s' = hq_of s -> W s -> W s' /\ dsub (fm (core_of s)) (fm (core_of s')).
Proof.
  intros S EK Eh HW. apply (W_next s s' HW).
  - apply RL_scr; [exact (w_gd _ HW) | exact S].
  - eapply CB_same; [exact EK | exact Eh | exact (w_cb _ HW)].
  - rewrite Eh. exact (w_hok _ HW).
  - apply KL_same. exact Eh.
Qed.

Lemma LK_same_tasks s s' :
  c_tasks (core_of s') = c_tasks (core_of s) -> hq_of s' = hq_of s -> snd s' = snd s -> LK s s'.
Proof.
  intros Et Eh Es. apply (LK_quiet s s' []); [| rewrite app_nil_r; exact Es | reflexivity |].
  - apply W_same_keys; [apply scr_tasks; exact Et | unfold K, keys; rewrite Et; reflexivity | exact Eh].
  - intros _ x Hx. apply (active_same s s'); [apply jt_same; exact Eh | exact Hx].
Qed.

(** One task changes neither its state nor its edges (the crash counter). *)
Lemma LK_upd_same s id t t' :
  find_task (c_tasks (core_of s)) id = Some t -> same_edges t t' -> t_state t' = t_state t ->
  LK s (st_core s (upd_task (core_of s) t')).
Proof.
  intros Ef He Hst. apply (LK_quiet s _ []); [| rewrite app_nil_r; reflexivity | reflexivity | intros _ x Hx; exact Hx].
  intros HW. apply W_same_keys; [| | reflexivity | exact HW].
  - cbn. eapply (scr_upd _ (core_of s) _ id t); [reflexivity | exact Ef | reflexivity | exact He | left; exact Hst].
  - unfold K. cbn. destruct He as (Hi & _ & Hc).
    apply (upd_task_frame (core_of s) id t); [exact (cb_s _ (w_cb _ HW)) | exact Ef | exact Hi | exact Hc].
Qed.

Lemma LK_on_task_update s w us s' : on_task_update s w us = Ok s' -> LK s s'.
Proof.
  intros H. unfold on_task_update in H. apply bind_ok in H. destruct H as ([s1 need] & Hu & H).
  pose proof (LK_apply_updates _ _ _ _ _ _ Hu) as L1.
  destruct (need && _); inversion H; subst; [|exact L1].
  eapply LK_trans; [exact L1 | apply LK_same_tasks; reflexivity].
Qed.

(** * Worker loss: the crash-limit failures *)
Lemma LK_lost_fail_running l : forall s reason s', lost_fail_running s reason l = Ok s' -> LK s s'.
Proof.
  induction l as [|id r IH]; cbn [lost_fail_running]; intros s reason s' H; [inversion H; subst; apply LK_refl|].
  destruct (find_task (c_tasks (core_of s)) id) as [t|] eqn:Ef; [|eapply IH; exact H].
  assert (Hfail : forall s0 kind, LK s s0 -> (do s1 <- task_failed s0 None id kind; lost_fail_running s1 reason r) = Ok s' -> LK s s').
  { intros s0 kind L0 H0. apply bind_ok in H0. destruct H0 as (s1 & Hf & H0).
    eapply LK_trans; [exact L0|]. eapply LK_trans; [eapply LK_task_failed; exact Hf | eapply IH; exact H0]. }
  destruct (t_climit t).
  - eapply Hfail; [apply LK_refl | exact H].
  - destruct (reason_is_failure reason); [|eapply IH; exact H].
    destruct (increment_crash_counter t) as [t' limit] eqn:Ei.
    assert (Hi : same_edges t t' /\ t_state t' = t_state t) by (unfold increment_crash_counter in Ei; inversion Ei; subst; split; [repeat split | reflexivity]).
    pose proof (LK_upd_same s id t t' Ef (proj1 Hi) (proj2 Hi)) as L0. destruct limit.
    + eapply Hfail; [exact L0 | exact H].
    + eapply LK_trans; [exact L0 | eapply IH; exact H].
  - destruct (reason_is_failure reason); [|eapply IH; exact H].
    destruct (increment_crash_counter t) as [t' limit] eqn:Ei.
    assert (Hi : same_edges t t' /\ t_state t' = t_state t) by (unfold increment_crash_counter in Ei; inversion Ei; subst; split; [repeat split | reflexivity]).
    pose proof (LK_upd_same s id t t' Ef (proj1 Hi) (proj2 Hi)) as L0. destruct limit.
    + eapply Hfail; [exact L0 | exact H].
    + eapply LK_trans; [exact L0 | eapply IH; exact H].
Qed.
