(** C02 "no task lost or stuck", the safety part of the progress half: WHEN THE SYSTEM IS AT REST NO
    TASK IS IN AN IN-BETWEEN STATE.  Part 1: what the protocol invariant [PROTO] alone gives.

    [at_rest s]: the scheduler has nothing to do ([c_flag] off) and every worker process has empty
    channels, no running task and no task future (the definition of the monitor
    `task-in-limbo-at-rest` of ocaml/cluster/driver.ml).

    [at_rest_states_PROTO]: in a reachable state at rest every task of the core is
      - [Waiting _], or
      - [Prefilled w] with its entry still in the backlog of [w] (a worker at rest can hold backlog
        entries: a prefilled task whose predecessor ended before the prefill message arrived waits
        for the scheduler, whose answers the model does not force to make progress), or
      - [Running w _] / [RunningMN (w :: _)] with the process of [w] holding NOTHING about it.
    The last case is not excluded by [PROTO]: its word language accepts the empty word for these
    views, because a worker ends a task SILENTLY when its future was stopped by a cancel request,
    and the words do not record stop flags.  It is excluded in RestU*.v, part 2, by the extra
    invariant "a task the core knows is never stop-cancelled on a worker". *)
From HQ Require Import Base.Prelude Cluster.Types Cluster.Core Cluster.Reactor Cluster.Worker Cluster.Server Cluster.Sys Cluster.Monitors Cluster.RejHyp Cluster.BijBase Cluster.BijFinal Cluster.InvWBase Cluster.InvWView Cluster.InvWCore Cluster.InvQBase Cluster.InvQInv Cluster.InvQStep Cluster.InvDStep Cluster.InvBundle Cluster.InvProcsDef Cluster.NoPanicC1 Cluster.NoPanicC2 Cluster.InvWX1 Cluster.InvWX3 Cluster.NoPanicL0 Cluster.NoPanicU0 Cluster.NoPanicU1 Cluster.NoPanicU2 Cluster.NoPanicU20 Cluster.ExecU10.
From Coq Require Import ZArith Lia Sorting.Sorted.
Local Open Scope N_scope.

Definition quiet_proc (p : wproc) : Prop := p_down p = [] /\ p_up p = [] /\ p_running p = [] /\ p_futures p = [].
Definition at_rest (s : sys) : Prop := c_flag (s_core s) = false /\ forall p, In p (s_procs s) -> quiet_proc p.

Definition is_nilb {A} (l : list A) : bool := match l with [] => true | _ => false end.
Definition at_restb (s : sys) : bool :=
  negb (c_flag (s_core s)) && forallb (fun p => is_nilb (p_down p) && is_nilb (p_up p) && is_nilb (p_running p) && is_nilb (p_futures p)) (s_procs s).
Lemma at_restb_ok s : at_restb s = true <-> at_rest s.
Proof.
  unfold at_restb, at_rest, quiet_proc. rewrite andb_true_iff, negb_true_iff, forallb_forall. apply and_iff_compat_l.
  split; intros H p Hp; specialize (H p Hp).
  - rewrite !andb_true_iff in H. destruct H as [[[A B] C] D]. destruct (p_down p), (p_up p), (p_running p), (p_futures p); try discriminate; auto.
  - destruct H as (-> & -> & -> & ->). reflexivity.
Qed.

(** the word of a task at a quiet process *)
Lemma quiet_word p x : quiet_proc p -> uitems x (p_up p) = [] /\ ditems x (p_down p) = [] /\
  local p x = match bl_count x (p_backlog p) with O => LNone | S O => LBack | _ => LBad end.
Proof. intros (-> & -> & Hr & _). unfold local. rewrite Hr. cbn. auto. Qed.

Lemma lang_quiet v L : lang v [] L [] = true -> (forall rv, L <> LRun rv) ->
  (v = VN /\ L = LNone) \/ (v = VP /\ L = LBack) \/ ((exists rv, v = VR rv) /\ L = LNone) \/ (v = VM true /\ L = LNone).
Proof.
  intros H Hn. lang_auto H; try (exfalso; eapply Hn; reflexivity).
  - right. right. left. split; [eexists; reflexivity | reflexivity].
Qed.

Theorem at_rest_states_PROTO s : INV s -> PW s -> RWA (s_core s) -> MNE (s_core s) -> PROTO s -> at_rest s ->
  forall x t, find_task (c_tasks (s_core s)) x = Some t ->
    match t_state t with
    | Waiting _ => True
    | Prefilled w => exists p, find_proc (s_procs s) w = Some p /\ bl_count x (p_backlog p) = 1%nat
    | Running w _ => exists p, find_proc (s_procs s) w = Some p /\ bl_count x (p_backlog p) = O
    | RunningMN (w :: _) => exists p, find_proc (s_procs s) w = Some p /\ bl_count x (p_backlog p) = O
    | _ => False
    end.
Proof.
  intros HI HPW HR HM HP [_ Hq] x t Hf. pose proof (inv_w _ HI) as HW.
  assert (Hproc : forall w, find_worker (c_workers (s_core s)) w <> None -> exists p, find_proc (s_procs s) w = Some p).
  { intros w Hw. pose proof (PW_PWc s [] HPW w Hw) as X. unfold has_proc in X. cbn in X. destruct (find_proc (s_procs s) w) as [p|]; [eauto | congruence]. }
  assert (Hword : forall w p, find_proc (s_procs s) w = Some p ->
            let v := view_of (t_state t) w (job_running (s_hq s) x) in
            (v = VN /\ bl_count x (p_backlog p) = O) \/ (v = VP /\ bl_count x (p_backlog p) = 1%nat) \/
            (((exists rv, v = VR rv) \/ v = VM true) /\ bl_count x (p_backlog p) = O)).
  { intros w p Hp v. pose proof (pr_words _ HP w p x t Hp Hf) as Hl.
    destruct (quiet_word p x (Hq p (proj1 (NoPanicL0.find_proc_some _ _ _ Hp)))) as (EU & ED & EL). rewrite EU, ED, EL in Hl.
    assert (Hn : forall rv, match bl_count x (p_backlog p) with O => LNone | S O => LBack | _ => LBad end <> LRun rv) by (intros rv; destruct (bl_count x (p_backlog p)) as [|[|k]]; discriminate).
    destruct (lang_quiet _ _ Hl Hn) as [[A B]|[[A B]|[[A B]|[A B]]]]; destruct (bl_count x (p_backlog p)) as [|[|k]]; try discriminate; auto 6. }
  destruct (find_task_some _ _ _ Hf) as [Hin Hid].
  destruct (t_state t) as [n|w rv|w|w|w rv|[|w ws]|] eqn:Est; [exact I | | | | | | |].
  - (* Assigned *) destruct (WIX_A _ _ x t w HW eq_refl Hf) as (wk & a & p0 & f & Hw & _); [rewrite Est; reflexivity|].
    destruct (Hproc w ltac:(congruence)) as (p & Hp). specialize (Hword w p Hp). cbn [view_of] in Hword. rewrite N.eqb_refl in Hword.
    destruct Hword as [[A _]|[[A _]|[[(rv0 & A)|A] _]]]; discriminate.
  - (* Prefilled *) destruct (WIX_P _ _ x t w HW eq_refl Hf) as (wk & a & p0 & f & Hw & _); [rewrite Est; reflexivity|].
    destruct (Hproc w ltac:(congruence)) as (p & Hp). specialize (Hword w p Hp). cbn [view_of] in Hword. rewrite N.eqb_refl in Hword.
    destruct Hword as [[A _]|[[_ B]|[[(rv0 & A)|A] _]]]; try discriminate. exists p. auto.
  - (* Retracting *) destruct (HR t w Hin Est) as (wk & Hw).
    destruct (Hproc w ltac:(congruence)) as (p & Hp). specialize (Hword w p Hp). cbn [view_of] in Hword. rewrite N.eqb_refl in Hword.
    destruct Hword as [[A _]|[[A _]|[[(rv0 & A)|A] _]]]; discriminate.
  - (* Running *) destruct (WIX_A _ _ x t w HW eq_refl Hf) as (wk & a & p0 & f & Hw & _); [rewrite Est; reflexivity|].
    destruct (Hproc w ltac:(congruence)) as (p & Hp). specialize (Hword w p Hp). cbn [view_of] in Hword. rewrite N.eqb_refl in Hword.
    destruct Hword as [[A _]|[[A _]|[_ B]]]; try discriminate. exists p. auto.
  - (* RunningMN [] *) exact (HM t Hin Est).
  - (* RunningMN *) destruct (WIX_M _ _ x t (w :: ws) w HW eq_refl Hf) as (wk & root & Hw & _); [rewrite Est; reflexivity | left; reflexivity|].
    destruct (Hproc w ltac:(congruence)) as (p & Hp). specialize (Hword w p Hp). cbn [view_of] in Hword. rewrite N.eqb_refl in Hword.
    destruct Hword as [[A _]|[[A _]|[_ B]]]; try discriminate. exists p. auto.
  - (* Finished *) exact (qv_fin _ _ _ _ _ _ (inv_q _ HI) _ _ Hf Est).
Qed.
