(** C09 for client requests, part 3: [on_cancel_tasks] is total on a state satisfying the
    invariants, and so is [handle_cancel]. *)
From HQ Require Import Base.Prelude Cluster.Types Cluster.Core Cluster.Reactor Cluster.Worker Cluster.Server Cluster.Sys Cluster.Monitors Cluster.ProofsJob Cluster.ProofsMore Cluster.ProofsStep Cluster.ProofsFinal Cluster.BijBase Cluster.BijCore Cluster.BijHq Cluster.BijSt Cluster.BijReact Cluster.BijFinal Cluster.FrameGen Cluster.CrashFrame Cluster.InvWBase Cluster.InvWView Cluster.InvWCore Cluster.InvWReact Cluster.InvWReact2 Cluster.InvQBase Cluster.InvQTake Cluster.InvQInv Cluster.InvQOps Cluster.InvQNoDup Cluster.InvQReact Cluster.InvQStep Cluster.InvDBase Cluster.InvDSpec Cluster.InvDMap Cluster.InvDRem Cluster.InvDReact Cluster.InvDStep Cluster.InvProcsDef Cluster.NoPanicC1 Cluster.NoPanicC2.
From Coq Require Import ZArith Lia Sorting.Sorted.
Local Open Scope N_scope.

Arguments N.add : simpl never.
Arguments N.sub : simpl never.

Lemma MNE_tasks c c' : c_tasks c' = c_tasks c -> MNE c -> MNE c'.
Proof. unfold MNE. intros ->. auto. Qed.

Lemma RWA_dom c c' : c_tasks c' = c_tasks c -> wdom c c' -> RWA c -> RWA c'.
Proof.
  intros Et Hd H t w Hin Hst. rewrite Et in Hin. destruct (H t w Hin Hst) as (wk & Hw).
  destruct (find_worker (c_workers c') w) eqn:E; [eauto|]. exfalso. apply (proj2 (Hd w)); [rewrite Hw; discriminate | exact E].
Qed.

(** * The collected consumers are core tasks *)
Lemma collect_consumers_live fuel : forall ts frontier acc r, WFc ts ->
  (forall x, In x frontier -> find_task ts x <> None) -> (forall x, In x acc -> find_task ts x <> None) ->
  collect_consumers fuel ts frontier acc = Ok r -> forall x, In x r -> find_task ts x <> None.
Proof.
  induction fuel as [|k IH]; intros ts frontier acc r W Hf Ha H; destruct frontier as [|id rest]; cbn [collect_consumers] in H;
    try (inversion H; subst; exact Ha).
  apply bind_ok in H. destruct H as (t & Ht & H). apply get_task_find in Ht.
  eapply IH; [exact W | | | exact H].
  - intros x Hx. apply in_app_iff in Hx. destruct Hx as [Hx|Hx]; [apply Hf; right; exact Hx|].
    apply filter_In in Hx. destruct Hx as [Hx _]. apply (proj2 (W _ _ Ht)). exact Hx.
  - intros x Hx. apply tinsall_iff in Hx. destruct Hx as [Hx|Hx]; [|apply Ha; exact Hx].
    apply filter_In in Hx. destruct Hx as [Hx _]. apply (proj2 (W _ _ Ht)). exact Hx.
Qed.

Lemma recursive_consumers_live ts id t csm : WFc ts -> find_task ts id = Some t -> recursive_consumers ts t = Ok csm ->
  forall x, In x csm -> find_task ts x <> None.
Proof.
  intros W Hf H. unfold recursive_consumers in H. eapply collect_consumers_live; [exact W | | | exact H].
  - apply (proj2 (W _ _ Hf)).
  - intros x Hx. apply tinsall_iff in Hx. destruct Hx as [Hx|[]]. apply (proj2 (W _ _ Hf)). exact Hx.
Qed.

(** * Worker domain *)
Lemma try_remove_redirection_wdom c t c' : try_remove_redirection c t = Ok c' -> wdom c c'.
Proof.
  unfold try_remove_redirection. destruct (find_redirect _ _) as [[w rv]|]; intros H.
  - apply bind_ok in H. destruct H as (wk & Hw & H). apply bind_ok in H. destruct H as (rq & _ & H).
    apply bind_ok in H. destruct H as (wk' & Hrm & H). inversion H; subst.
    apply get_worker_find in Hw. destruct (remove_sn_task_spec _ _ _ _ Hrm) as [Hid _].
    apply (wdom_upd (with_redirects c (del_redirect (c_redirects c) (t_id t))) wk' wk). cbn. rewrite Hid, (proj2 (find_worker_some _ _ _ Hw)). exact Hw.
  - inv_binds H. inversion H; subst. apply wdom_workers; reflexivity.
Qed.

Lemma reset_mn_all_wdom l c c' : reset_mn_all c l = Ok c' -> wdom c c'.
Proof.
  intros H w. destruct (reset_mn_all_spec _ _ _ H) as (_ & _ & _ & _ & Hfw). rewrite Hfw.
  destruct (n_mem w l); [|tauto]. destruct (find_worker (c_workers c) w); cbn; split; congruence.
Qed.

(** * [try_remove_redirection] *)
Lemma try_remove_redirection_tot X L c id t w :
  WIX X c -> QI (exL Nowhere L none) [] c -> find_task (c_tasks c) id = Some t -> t_state t = Retracting w -> ~ In id L ->
  exists c', try_remove_redirection c t = Ok c'.
Proof.
  intros HW V Hf Hst HnL. destruct (find_task_some _ _ _ Hf) as [_ Hid].
  unfold try_remove_redirection. rewrite Hid.
  destruct (find_redirect (c_redirects c) id) as [[w' rv]|] eqn:Er.
  - destruct (WIX_R _ _ _ _ _ HW Er) as (wk & a & p & f & Hw & Ea & Hm).
    rewrite (get_worker_ok _ _ _ Hw). cbn [bind].
    destruct (get_rq_tot (c_rqs c) (t_rq t)) as (rq & ->).
    { rewrite <- (qv_len _ _ _ _ _ _ V). exact (qv_rq _ _ _ _ _ _ V _ _ Hf). }
    cbn [bind]. destruct (remove_sn_task_tot wk id (rq_res rq) a p f Ea Hm) as (wk' & -> & _). eexists; reflexivity.
  - destruct (QV_queue _ _ _ _ _ _ _ _ V Hf) as (q & Hq & Hwf & Hp).
    rewrite (proj2 (nth_queue_ok _ _ _) Hq). cbn [bind].
    unfold exp_place in Hp. rewrite (exL_notin _ _ _ _ HnL) in Hp. unfold none in Hp. rewrite Hst in Hp. cbn [nat_place] in Hp. rewrite Er in Hp.
    destruct (q_remove_tot q id (t_prio t) Hwf (or_introl (placed_ready_at _ _ _ Hp))) as (q' & ->). eexists; reflexivity.
Qed.

(** * [cancel_release] *)
Lemma cancel_release_tot ids : forall s tu ru X L,
  WIX X (core_of s) -> QI (exL Nowhere L none) [] (core_of s) -> WFc (c_tasks (core_of s)) ->
  MNE (core_of s) -> RWA (core_of s) ->
  NoDup ids -> (forall i, In i ids -> X i = false) -> (forall i, In i ids -> ~ In i L) ->
  (forall x t, In x L -> find_task (c_tasks (core_of s)) x = Some t -> is_waiting t = false) ->
  (forall w l, In (w, l) ru -> find_worker (c_workers (core_of s)) w <> None) ->
  SL tu -> (forall x, In x tu -> find_task (c_tasks (core_of s)) x <> None) ->
  exists s' tu' ru' L', cancel_release s ids tu ru = Ok (s', tu', ru') /\
    QI (exL Nowhere L' none) [] (core_of s') /\
    (forall x, In x L -> In x L') /\
    (forall x t, In x ids -> find_task (c_tasks (core_of s)) x = Some t -> is_waiting t = true \/ In x L') /\
    (forall x t, In x L' -> find_task (c_tasks (core_of s)) x = Some t -> is_waiting t = false) /\
    (forall w l, In (w, l) ru' -> find_worker (c_workers (core_of s)) w <> None) /\
    SL tu' /\ (forall x, In x tu' -> find_task (c_tasks (core_of s)) x <> None) /\
    s_procs (fst s') = s_procs (fst s).
Proof.
  induction ids as [|id r IH]; intros s tu ru X L HW V W Hmn Hrw Hnd HX HL HLw Hru Htu Htul.
  - exists s, tu, ru, L. split; [reflexivity|]. split; [exact V|]. split; [auto|]. split; [intros x t []|].
    split; [exact HLw|]. split; [exact Hru|]. split; [exact Htu|]. split; [exact Htul | reflexivity].
  - inversion Hnd as [|? ? Hni Hnd']; subst.
    destruct (find_task (c_tasks (core_of s)) id) as [t|] eqn:Hf.
    2:{ destruct (IH s tu ru X L HW V W Hmn Hrw Hnd' (fun i Hi => HX i (or_intror Hi)) (fun i Hi => HL i (or_intror Hi)) HLw Hru Htu Htul)
          as (s' & tu' & ru' & L' & Hc & P1 & P2 & P3 & P4 & P5 & P6 & P7 & P8).
        exists s', tu', ru', L'. split; [cbn [cancel_release]; rewrite Hf; exact Hc|].
        split; [exact P1|]. split; [exact P2|]. split; [intros x t0 [<-|Hx] Hf0; [congruence | eapply P3; eassumption]|].
        split; [exact P4|]. split; [exact P5|]. split; [exact P6|]. split; [exact P7 | exact P8]. }
    destruct (find_task_some _ _ _ Hf) as [Hint Hid].
    assert (Hxid : X id = false) by (apply HX; left; reflexivity).
    assert (HnL : ~ In id L) by (apply HL; left; reflexivity).
    destruct (recursive_consumers_tot _ _ _ W Hf) as (csm & Hcs).
    pose proof (recursive_consumers_live _ _ _ _ W Hf Hcs) as Hcsl.
    destruct (get_rq_tot (c_rqs (core_of s)) (t_rq t)) as (rq & Hrq).
    { rewrite <- (qv_len _ _ _ _ _ _ V). exact (qv_rq _ _ _ _ _ _ V _ _ Hf). }
    set (tu1 := tid_insert_all csm (tid_insert id tu)).
    assert (Htu1 : SL tu1) by (apply tinsall_SL, tins_SL; exact Htu).
    assert (Htul1 : forall x, In x tu1 -> find_task (c_tasks (core_of s)) x <> None).
    { intros x Hx. apply tinsall_iff in Hx. destruct Hx as [Hx|Hx]; [apply Hcsl; exact Hx|].
      apply tins_iff in Hx. destruct Hx as [->|Hx]; [congruence | apply Htul; exact Hx]. }
    (* every branch continues from a state reached by the single step *)
    assert (Hgen : forall s1 ru1,
      (forall r', cancel_release s (id :: r') tu ru = cancel_release s1 r' tu1 ru1) ->
      (is_waiting t = true -> qsame (core_of s) (core_of s1)) ->
      wdom (core_of s) (core_of s1) -> s_procs (fst s1) = s_procs (fst s) ->
      (forall w l, In (w, l) ru1 -> find_worker (c_workers (core_of s)) w <> None) ->
      exists s' tu' ru' L', cancel_release s (id :: r) tu ru = Ok (s', tu', ru') /\
        QI (exL Nowhere L' none) [] (core_of s') /\
        (forall x, In x L -> In x L') /\
        (forall x t0, In x (id :: r) -> find_task (c_tasks (core_of s)) x = Some t0 -> is_waiting t0 = true \/ In x L') /\
        (forall x t0, In x L' -> find_task (c_tasks (core_of s)) x = Some t0 -> is_waiting t0 = false) /\
        (forall w l, In (w, l) ru' -> find_worker (c_workers (core_of s)) w <> None) /\
        SL tu' /\ (forall x, In x tu' -> find_task (c_tasks (core_of s)) x <> None) /\
        s_procs (fst s') = s_procs (fst s)).
    { intros s1 ru1 Hstep Hqs Hd Hpr Hru1.
      assert (H1 : cancel_release s [id] tu ru = Ok (s1, tu1, ru1)) by (rewrite Hstep; reflexivity).
      assert (Hnd1 : NoDup [id]) by (constructor; [intros [] | constructor]).
      assert (HX1 : forall i, In i [id] -> X i = false) by (intros i [<-|[]]; exact Hxid).
      pose proof (cancel_release_WIX [id] s tu ru X s1 tu1 ru1 HW Hnd1 HX1 H1) as HW1.
      pose proof (cancel_release_tasks _ _ _ _ _ _ _ H1) as Et.
      assert (HQ : exists L1, QI (exL Nowhere L1 none) [] (core_of s1) /\ (forall x, In x L -> In x L1) /\
                     (forall x, In x L1 -> In x L \/ (x = id /\ is_waiting t = false)) /\ (is_waiting t = true \/ In id L1)).
      { destruct (is_waiting t) eqn:Ew.
        - exists L. split; [apply (QI_same _ _ (core_of s)); [apply Hqs; reflexivity | exact V]|]. split; [auto|]. split; [auto | left; reflexivity].
        - destruct (cancel_release_QI [] [id] s tu ru s1 tu1 ru1 L V H1) as (L1 & V1 & _ & A3 & A4 & A5).
          exists L1. split; [exact V1|]. split; [exact A3|]. split.
          + intros x Hx. destruct (A4 x Hx) as [Hx'|[[<-|[]] _]]; [left; exact Hx' | right; split; reflexivity].
          + destruct (A5 id t (or_introl eq_refl) Hf) as [Hw|Hl]; [congruence | right; exact Hl]. }
      destruct HQ as (L1 & V1 & A3 & A4 & A5).
      destruct (IH s1 tu1 ru1 (fun i => tid_mem i [id] || X i) L1 HW1 V1) as (s' & tu' & ru' & L' & Hc & P1 & P2 & P3 & P4 & P5 & P6 & P7 & P8).
      - rewrite Et. exact W.
      - eapply MNE_tasks; [exact Et | exact Hmn].
      - eapply RWA_dom; [exact Et | exact Hd | exact Hrw].
      - exact Hnd'.
      - intros i Hi. cbn [tid_mem]. rewrite (HX i (or_intror Hi)).
        destruct (tid_eqb i id) eqn:E; [apply tid_eqb_eq in E; subst i; contradiction | reflexivity].
      - intros i Hi Hi1. destruct (A4 i Hi1) as [Hl|[-> _]]; [exact (HL i (or_intror Hi) Hl) | contradiction].
      - intros x t0 Hx Hf0. rewrite Et in Hf0. destruct (A4 x Hx) as [Hl|[-> Hw]]; [eapply HLw; eassumption | congruence].
      - intros w l Hin. apply Hd. eapply Hru1. exact Hin.
      - exact Htu1.
      - intros x Hx. rewrite Et. apply Htul1. exact Hx.
      - exists s', tu', ru', L'. split; [rewrite Hstep; exact Hc|]. split; [exact P1|]. split; [auto|]. split.
        { intros x t0 [<-|Hx] Hf0.
          - rewrite Hf in Hf0. inversion Hf0; subst t0. destruct A5 as [Hw|Hl]; [left; exact Hw | right; apply P2; exact Hl].
          - eapply P3; [exact Hx | rewrite Et; exact Hf0]. }
        split; [intros x t0 Hx Hf0; eapply P4; [exact Hx | rewrite Et; exact Hf0]|].
        split; [intros w l Hin; apply Hd; eapply P5; exact Hin|].
        split; [exact P6|]. split; [intros x Hx; rewrite <- Et; apply P7; exact Hx | congruence]. }
    assert (Hadd : forall w, find_worker (c_workers (core_of s)) w <> None ->
              forall w' l, In (w', l) (group_add w id ru) -> find_worker (c_workers (core_of s)) w' <> None).
    { intros w Hw w' l Hin. destruct (group_add_keys _ _ _ _ _ Hin) as [->|(v0 & Hv0)]; [exact Hw | eapply Hru; exact Hv0]. }
    (* single-node release *)
    assert (Hsn : forall w, pl (t_state t) = PA w -> (forall r', cancel_release s (id :: r') tu ru =
                    (do wk <- get_worker (c_workers (core_of s)) w; do wk' <- remove_sn_task wk id (rq_res rq);
                     cancel_release (ask_scheduling (st_core s (upd_worker (core_of s) wk'))) r' tu1 (group_add w id ru))) ->
              exists s' tu' ru' L', cancel_release s (id :: r) tu ru = Ok (s', tu', ru') /\
                QI (exL Nowhere L' none) [] (core_of s') /\
                (forall x, In x L -> In x L') /\
                (forall x t0, In x (id :: r) -> find_task (c_tasks (core_of s)) x = Some t0 -> is_waiting t0 = true \/ In x L') /\
                (forall x t0, In x L' -> find_task (c_tasks (core_of s)) x = Some t0 -> is_waiting t0 = false) /\
                (forall w l, In (w, l) ru' -> find_worker (c_workers (core_of s)) w <> None) /\
                SL tu' /\ (forall x, In x tu' -> find_task (c_tasks (core_of s)) x <> None) /\
                s_procs (fst s') = s_procs (fst s)).
    { intros w Hp Hunf.
      destruct (WIX_A X _ id t w HW Hxid Hf Hp) as (wk & a & p & f & Hw & Ea & Hm).
      destruct (remove_sn_task_tot wk id (rq_res rq) a p f Ea Hm) as (wk' & Hrm & Hwid).
      apply (Hgen (ask_scheduling (st_core s (upd_worker (core_of s) wk'))) (group_add w id ru)).
      - intros r'. rewrite Hunf, (get_worker_ok _ _ _ Hw). cbn [bind]. rewrite Hrm. reflexivity.
      - intros Hw'. exfalso. unfold is_waiting in Hw'. revert Hp Hw'. destruct (t_state t); cbn; intros Hp Hw'; first [discriminate Hp | discriminate Hw'].
      - apply (wdom_trans _ (upd_worker (core_of s) wk')); [|apply wdom_workers; reflexivity].
        apply (wdom_upd _ wk' wk). rewrite Hwid, (proj2 (find_worker_some _ _ _ Hw)). exact Hw.
      - reflexivity.
      - apply Hadd. rewrite Hw. discriminate. }
    destruct (t_state t) as [n|w rv|w|w|w rv|ws|] eqn:Est.
    + (* Waiting *)
      apply (Hgen (ask_scheduling s) ru).
      * intros r'. cbn [cancel_release]. rewrite Hf. cbn [bind]. rewrite Hcs. cbn [bind]. rewrite Hrq. cbn [bind]. rewrite Est. reflexivity.
      * intros _. repeat split; reflexivity.
      * apply wdom_workers. reflexivity.
      * reflexivity.
      * exact Hru.
    + (* Assigned *)
      apply (Hsn w); [first [reflexivity | rewrite Est; reflexivity]|]. intros r'. cbn [cancel_release]. rewrite Hf. cbn [bind]. rewrite Hcs. cbn [bind]. rewrite Hrq. cbn [bind]. rewrite Est. reflexivity.
    + (* Prefilled *)
      destruct (QV_queue _ _ _ _ _ _ _ _ V Hf) as (q & Hq & Hwf & Hp).
      unfold exp_place in Hp. rewrite (exL_notin _ _ _ _ HnL) in Hp. unfold none in Hp. rewrite Est in Hp. cbn [nat_place] in Hp.
      destruct (q_remove_prefilled_tot q id _ (placed_prefill_at _ _ _ Hp)) as (q' & Hq').
      destruct (WIX_P X _ id t w HW Hxid Hf) as (wk & a & p & f & Hw & Ea & Hm); [rewrite Est; reflexivity|].
      destruct (remove_prefill_task_tot wk id a p f Ea Hm) as (wk' & Hrm & Hwid).
      apply (Hgen (st_core s (upd_worker (with_queues (core_of s) (set_queue (c_queues (core_of s)) (N.to_nat (t_rq t)) q')) wk')) (group_add w id ru)).
      * intros r'. cbn [cancel_release]. rewrite Hf. cbn [bind]. rewrite Hcs. cbn [bind]. rewrite Hrq. cbn [bind]. rewrite Est.
        rewrite (proj2 (nth_queue_ok _ _ _) Hq). cbn [bind]. rewrite Hq'. cbn [bind].
        rewrite (get_worker_ok _ _ _ Hw). cbn [bind]. rewrite Hrm. reflexivity.
      * intros Hw'. exfalso. unfold is_waiting in Hw'. rewrite Est in Hw'. discriminate.
      * apply (wdom_trans _ (with_queues (core_of s) (set_queue (c_queues (core_of s)) (N.to_nat (t_rq t)) q'))); [apply wdom_workers; reflexivity|].
        apply (wdom_upd _ wk' wk). rewrite Hwid, (proj2 (find_worker_some _ _ _ Hw)). exact Hw.
      * reflexivity.
      * apply Hadd. rewrite Hw. discriminate.
    + (* Retracting *)
      destruct (try_remove_redirection_tot X L _ id t w HW V Hf Est HnL) as (c' & Hc').
      destruct (Hrw t w Hint Est) as (wkr & Hwr).
      apply (Hgen (ask_scheduling (st_core s c')) (group_add w id ru)).
      * intros r'. cbn [cancel_release]. rewrite Hf. cbn [bind]. rewrite Hcs. cbn [bind]. rewrite Hrq. cbn [bind]. rewrite Est.
        rewrite Hc'. reflexivity.
      * intros Hw'. exfalso. unfold is_waiting in Hw'. rewrite Est in Hw'. discriminate.
      * apply (wdom_trans _ c'); [eapply try_remove_redirection_wdom; exact Hc' | apply wdom_workers; reflexivity].
      * reflexivity.
      * apply Hadd. rewrite Hwr. discriminate.
    + (* Running *)
      apply (Hsn w); [first [reflexivity | rewrite Est; reflexivity]|]. intros r'. cbn [cancel_release]. rewrite Hf. cbn [bind]. rewrite Hcs. cbn [bind]. rewrite Hrq. cbn [bind]. rewrite Est. reflexivity.
    + (* RunningMN *)
      destruct (reset_mn_all_tot ws (core_of s)) as (c' & Hc').
      { intros w Hw. destruct (WIX_M X _ id t ws w HW Hxid Hf) as (wk & root & Hfw & _); [rewrite Est; reflexivity | exact Hw | congruence]. }
      destruct ws as [|w0 ws']; [exfalso; exact (Hmn t Hint Est)|].
      apply (Hgen (ask_scheduling (st_core s c')) (group_add w0 id ru)).
      * intros r'. cbn [cancel_release]. rewrite Hf. cbn [bind]. rewrite Hcs. cbn [bind]. rewrite Hrq. cbn [bind]. rewrite Est.
        rewrite Hc'. reflexivity.
      * intros Hw'. exfalso. unfold is_waiting in Hw'. rewrite Est in Hw'. discriminate.
      * apply (wdom_trans _ c'); [eapply reset_mn_all_wdom; exact Hc' | apply wdom_workers; reflexivity].
      * reflexivity.
      * apply Hadd. destruct (WIX_M X _ id t (w0 :: ws') w0 HW Hxid Hf) as (wk & root & Hfw & _); [rewrite Est; reflexivity | left; reflexivity | congruence].
    + (* Finished *)
      exfalso. exact (qv_fin _ _ _ _ _ _ V _ _ Hf Est).
Qed.

(** * [remove_task] *)
Lemma remove_task_tot ex X c id t :
  QI ex [] c -> DX X (fm c) -> find_task (c_tasks c) id = Some t ->
  (t_state t = Waiting 0 -> ex id = None) ->
  exists c' stt, remove_task c id = Ok (c', stt).
Proof.
  intros V D Hf Hex. unfold remove_task. rewrite Hf.
  destruct (t_state t) as [n|w rv|w|w|w rv|ws|] eqn:Est; try (eexists; eexists; reflexivity).
  destruct (N.eqb n 0) eqn:En.
  - apply N.eqb_eq in En. subst n.
    destruct (QV_queue _ _ _ _ _ _ _ _ V Hf) as (q & Hq & Hwf & Hp).
    unfold exp_place in Hp. rewrite (Hex eq_refl), Est in Hp. cbn in Hp.
    cbn [with_tasks c_queues]. rewrite (proj2 (nth_queue_ok _ _ _) Hq). cbn [bind].
    destruct (q_remove_tot q id (t_prio t) Hwf (or_introl (placed_ready_at _ _ _ Hp))) as (q' & ->). cbn [bind].
    eexists; eexists; reflexivity.
  - cbn [bind]. assert (El : N.ltb 0 n = true) by (apply N.ltb_lt; apply N.eqb_neq in En; lia). rewrite El.
    destruct (rcf_tot (t_deps t) (c_tasks (with_tasks c (del_task (c_tasks c) id))) id) as (ts' & ->).
    + exact (dx_nd _ _ D _ _ Hf).
    + intros d dt Hd Hfd. cbn [with_tasks c_tasks] in Hfd. rewrite (find_del_task' _ _ _ (qv_ts _ _ _ _ _ _ V)) in Hfd.
      destruct (tid_eqb d id); [discriminate|]. exact (dx_deps _ _ D _ _ _ _ Hf Hd Hfd).
    + eexists; eexists; reflexivity.
Qed.

Lemma remove_tasks_batched_tot ex X l : forall c,
  lax ex -> CS c -> QI ex [] c -> DX X (fm c) -> NoDup l -> incl l X ->
  (forall x, In x l -> find_task (c_tasks c) x <> None) ->
  (forall x t, In x l -> find_task (c_tasks c) x = Some t ->
     (is_waiting t = true /\ ex x = None) \/ (is_waiting t = false /\ ex x = Some Nowhere)) ->
  exists c', remove_tasks_batched c l = Ok c'.
Proof.
  induction l as [|id r IH]; intros c Hlax Hs V D Hnd Hinc Hlive Hpre; [eexists; reflexivity|].
  inversion Hnd as [|? ? Hni Hnd']; subst. cbn [remove_tasks_batched].
  destruct (find_task (c_tasks c) id) as [t|] eqn:Hf; [|exfalso; apply (Hlive id); [left; reflexivity | exact Hf]].
  destruct (remove_task_tot ex X c id t V D Hf) as (c1 & stt & H1).
  { intros Est. destruct (Hpre id t (or_introl eq_refl) Hf) as [[_ E]|[E _]]; [exact E|]. unfold is_waiting in E. rewrite Est in E. discriminate. }
  rewrite H1. cbn [bind].
  destruct (remove_task_QI ex [] [] c id c1 stt Hlax V H1) as (V1 & S1 & G1 & N1 & R1 & _).
  { intros t0 Ht0. eapply nowhere_pre; [exact V | exact Ht0|]. rewrite Hf in Ht0. inversion Ht0; subst t0.
    destruct (Hpre id t (or_introl eq_refl) Hf) as [[E _]|[_ E]]; [left; exact E | right; exact E]. }
  { intros x []. }
  destruct (remove_task_shrinks _ _ _ _ Hs H1) as [Sh _].
  destruct (remove_task_DX X c id c1 stt (CS_sorted _ Hs) D (Hinc id (or_introl eq_refl)) H1) as (_ & D1 & _).
  apply (IH c1 Hlax (shr_sorted _ _ _ Sh) V1 D1 Hnd').
  - intros x Hx. apply Hinc. right. exact Hx.
  - intros x Hx. assert (Hp : present (keys c1) x).
    { apply (shr_dom _ _ _ Sh). split.
      - apply find_task_present. destruct (find_task (c_tasks c) x) as [tx|] eqn:E; [eauto | exfalso; exact (Hlive x (or_intror Hx) E)].
      - intros [<-|[]]. contradiction. }
    apply find_task_present in Hp. destruct Hp as (tx & Etx). congruence.
  - intros x t1 Hx Hf1. destruct (S1 _ _ Hf1) as (t0 & Hf0 & Hst).
    destruct (Hpre x t0 (or_intror Hx) Hf0) as [[A B]|[A B]]; [left | right]; (split; [unfold is_waiting in *; rewrite <- Hst; exact A | exact B]).
Qed.

Lemma sorted_empty_tu : SL ([] : list tid). Proof. apply SL_nil. Qed.

(** * [on_cancel_tasks] *)
Theorem on_cancel_tasks_tot s ids :
  WI (core_of s) -> QI none [] (core_of s) -> GD (core_of s) -> CS (core_of s) -> KD (K s) ->
  MNE (core_of s) -> RWA (core_of s) -> PWc s -> NoDup ids ->
  (forall x t y, find_task (c_tasks (core_of s)) x = Some t -> In y ids -> fst x = fst y -> In x ids \/ is_waiting t = true) ->
  exists s', on_cancel_tasks s ids = Ok s'.
Proof.
  intros HW V [Hts D] Hs Hd Hmn Hrw Hpw Hnd Hcl. unfold on_cancel_tasks.
  assert (W : WFc (c_tasks (core_of s))) by (eapply DX_WFc; exact D).
  destruct (cancel_release_tot ids s [] [] x0 [] HW) as (s1 & tu & ru & L' & H1 & V1 & _ & P3 & P4 & P5 & P6 & P7 & P8).
  { unfold QI in *. eapply QV_ext; [exact V|]. intros x t _. reflexivity. }
  { exact W. } { exact Hmn. } { exact Hrw. } { exact Hnd. } { intros i _. reflexivity. } { intros i _ []. }
  { intros x t []. } { intros w l []. } { apply SL_nil. } { intros x []. }
  rewrite H1. cbn [bind].
  destruct (cancel_release_spec _ _ _ _ _ _ _ Hd H1) as (E1 & _ & I3 & I4).
  pose proof (cancel_release_tasks _ _ _ _ _ _ _ H1) as Et.
  assert (Hs1 : CS (core_of s1)) by (eapply CS_keys; [exact E1 | exact Hs]).
  assert (Hcc : cclosed (fm (core_of s)) tu).
  { eapply (cancel_release_closed (c_tasks (core_of s)) ids s [] [] s1 tu ru); [exact D | reflexivity | intros x tx y [] | exact H1]. }
  assert (Efm : fm (core_of s1) = fm (core_of s)) by (unfold fm; rewrite Et; reflexivity).
  assert (D1 : DX tu (fm (core_of s1))) by (rewrite Efm; apply DX_start; [exact D | exact Hcc]).
  destruct (remove_tasks_batched_tot (exL Nowhere L' none) tu tu (core_of s1)) as (c' & H2).
  { apply lax_exL, lax_none. } { exact Hs1. } { exact V1. } { exact D1. } { apply SL_NoDup. exact P6. } { apply incl_refl. }
  { intros x Hx. rewrite Et. apply P7. exact Hx. }
  { intros x t Hx Hf. rewrite Et in Hf.
    assert (Hor : is_waiting t = true \/ In x L').
    { destruct (I4 _ Hx) as [[]|(y & Hy & Hpy & Hfy)]. destruct (Hcl _ _ _ Hf Hy Hfy) as [Hin|Hw]; [eapply P3; eassumption | left; exact Hw]. }
    destruct (is_waiting t) eqn:Ew.
    - left. split; [reflexivity|]. apply exL_notin. intros Hl. rewrite (P4 x t Hl Hf) in Ew. discriminate.
    - right. split; [reflexivity|]. destruct Hor as [Hw|Hl]; [discriminate | apply exL_in; exact Hl]. }
  rewrite H2. cbn [bind]. apply send_all_tot. intros w m Hin.
  apply in_map_iff in Hin. destruct Hin as ([w0 l0] & E & Hin). cbn in E. inversion E; subst.
  unfold has_proc. cbn [st_core fst with_core s_procs]. rewrite P8. apply Hpw. eapply P5. exact Hin.
Qed.

(** * [handle_cancel] *)
Lemma filter_length_le {A} (p : A -> bool) l : (length (filter p l) <= length l)%nat.
Proof. induction l as [|h t IH]; cbn [filter length]; [lia|]. destruct (p h); cbn [length]; lia. Qed.

Theorem handle_cancel_tot s jid :
  HOK (hq_of s) -> CB s -> WI (core_of s) -> QI none [] (core_of s) -> GD (core_of s) ->
  MNE (core_of s) -> RWA (core_of s) -> PWc s ->
  exists s', handle_cancel s jid = Ok s'.
Proof.
  intros Hok HC HW V HG Hmn Hrw Hpw. unfold handle_cancel.
  destruct (find_job (hq_jobs s) jid) as [j|] eqn:Ef; [|eexists; reflexivity].
  pose proof (Hok _ (find_job_in _ _ _ Ef)) as Hj. pose proof (find_job_id _ _ _ Ef) as Hjid.
  destruct (non_finished_task_ids j) as [|i0 ir] eqn:En; [eexists; reflexivity|]. cbv iota. rewrite <- En.
  assert (Hjt : jt s jid = Some (j_tasks j)) by (unfold jt, hq_of; unfold hq_jobs in Ef; rewrite Ef; reflexivity).
  destruct (on_cancel_tasks_tot s (non_finished_task_ids j)) as (s1 & H1); try assumption.
  { exact (cb_s _ HC). } { exact (cb_d _ HC). } { apply nodup_non_finished. exact (jok_sorted _ Hj). }
  { intros x t y Hf Hy Hfy. left. apply (non_finished_in _ _ (jok_sorted _ Hj)) in Hy. destruct Hy as [Hy1 _].
    assert (Hp : present (K s) x) by (apply find_task_present; eauto).
    apply (cb_b _ HC) in Hp. destruct Hp as (l & Hl & Ha). rewrite Hfy, Hy1, Hjid, Hjt in Hl. inversion Hl; subst l.
    apply (non_finished_in _ _ (jok_sorted _ Hj)). split; [congruence | exact Ha]. }
  rewrite H1. cbn [bind].
  assert (Hle : N.ltb (job_n_tasks j) (N.of_nat (length (non_finished_task_ids j))) = false).
  { apply N.ltb_ge. unfold job_n_tasks, non_finished_task_ids. rewrite map_length.
    pose proof (filter_length_le (fun kv : N * jstate => match snd kv with JW | JR => true | _ => false end) (j_tasks j)). lia. }
  unfold Reactor.csub. rewrite Hle. cbn [bind].
  pose proof (on_cancel_tasks_hq _ _ _ H1) as Ehq.
  destruct (set_cancel_state_tot s1 jid (non_finished_task_ids j) j) as (s2 & H2).
  { rewrite Ehq. exact Hok. }
  { unfold hq_jobs. change (h_jobs (s_hq (fst s1))) with (h_jobs (hq_of s1)). rewrite Ehq. exact Ef. }
  { apply nodup_non_finished. exact (jok_sorted _ Hj). }
  { intros t Ht. apply (non_finished_in _ _ (jok_sorted _ Hj)) in Ht. destruct Ht as [A B]. split; [congruence | exact B]. }
  rewrite H2. cbn [bind]. eexists; reflexivity.
Qed.
