(** C02 bijection, part 4: the reactor's functions on the whole state - frame lemmas at the level
    of [st], the specification of [on_cancel_tasks]. *)
From HQ Require Import Base.Prelude Cluster.Types Cluster.Core Cluster.Reactor Cluster.Worker Cluster.Server Cluster.Sys Cluster.ProofsJob Cluster.ProofsMore Cluster.ProofsTerminal Cluster.ProofsStep Cluster.BijBase Cluster.BijCore Cluster.BijHq.
From Coq Require Import ZArith Lia Sorting.Sorted.
Local Open Scope N_scope.

Arguments N.add : simpl never.
Arguments N.sub : simpl never.

Definition K (s : st) : list (tid * list tid) := keys (core_of s).

(** * Sending never touches the core *)
Lemma send_worker_core s w m s' : send_worker s w m = Ok s' -> core_of s' = core_of s.
Proof. unfold send_worker. destruct (find_proc _ w); [|discriminate]. intros H; inversion H; reflexivity. Qed.
Lemma send_all_core msgs : forall s s', send_all s msgs = Ok s' -> core_of s' = core_of s.
Proof.
  induction msgs as [|[w m] r IH]; cbn [send_all]; intros s s' H; [inversion H; reflexivity|].
  apply bind_ok in H. destruct H as (s1 & H1 & H). rewrite (IH _ _ H). eapply send_worker_core; exact H1.
Qed.

Lemma process_retracted_K s r s' : CS (core_of s) -> process_retracted s r = Ok s' -> K s' = K s.
Proof.
  unfold process_retracted. intros Hs H. destruct r; [inversion H; reflexivity|].
  apply bind_ok in H. destruct H as ([c' groups] & H1 & H). unfold K. rewrite (send_all_core _ _ _ H).
  eapply retract_states_frame; [exact Hs | exact H1].
Qed.

(** * Transitive consumers stay within the job *)
Lemma tid_insert_keeps x l y : In y l -> In y (tid_insert x l).
Proof.
  induction l as [|h t IH]; cbn [tid_insert]; [intros []|].
  destruct (tid_eqb x h); [auto|]. destruct (tid_ltb x h); [intros H; right; exact H|].
  intros [H|H]; [left; exact H | right; apply IH; exact H].
Qed.
Lemma tid_insert_has x l : In x (tid_insert x l).
Proof.
  induction l as [|h t IH]; cbn [tid_insert]; [left; reflexivity|].
  destruct (tid_eqb x h) eqn:E; [apply tid_eqb_eq in E; subst; left; reflexivity|].
  destruct (tid_ltb x h); [left; reflexivity | right; exact IH].
Qed.
Lemma tid_insert_all_in xs : forall l y, In y (tid_insert_all xs l) -> In y xs \/ In y l.
Proof.
  unfold tid_insert_all. induction xs as [|x r IH]; cbn [fold_left]; intros l y H; [auto|].
  destruct (IH _ _ H) as [H1|H1]; [left; right; exact H1|].
  destruct (tid_insert_in _ _ _ H1) as [->|H2]; [left; left; reflexivity | right; exact H2].
Qed.
Lemma tid_insert_all_keeps xs : forall l y, In y l -> In y (tid_insert_all xs l).
Proof.
  unfold tid_insert_all. induction xs as [|x r IH]; cbn [fold_left]; intros l y H; [exact H|].
  apply IH. apply tid_insert_keeps. exact H.
Qed.

Lemma collect_consumers_job fuel : forall ts frontier acc r j,
  KD (map key ts) -> (forall x, In x frontier -> fst x = j) -> (forall x, In x acc -> fst x = j) ->
  collect_consumers fuel ts frontier acc = Ok r -> forall x, In x r -> fst x = j.
Proof.
  induction fuel as [|k IH]; intros ts frontier acc r j Hd Hf Ha H; destruct frontier as [|id rest]; cbn [collect_consumers] in H;
    try (inversion H; subst; exact Ha).
  apply bind_ok in H. destruct H as (t & Ht & H).
  apply get_task_find in Ht. destruct (find_task_some _ _ _ Ht) as [Hin Hid].
  assert (Hc : forall x, In x (t_consumers t) -> fst x = j).
  { intros x Hx. rewrite <- (Hf id (or_introl eq_refl)), <- Hid. eapply Hd; [|exact Hx].
    change (In (key t) (map key ts)). apply in_map. exact Hin. }
  eapply IH; [exact Hd | | | exact H].
  - intros x Hx. apply in_app_iff in Hx. destruct Hx as [Hx|Hx]; [apply Hf; right; exact Hx|].
    apply filter_In in Hx. apply Hc. apply Hx.
  - intros x Hx. destruct (tid_insert_all_in _ _ _ Hx) as [H1|H1]; [|apply Ha; exact H1].
    apply filter_In in H1. apply Hc. apply H1.
Qed.

Lemma recursive_consumers_job ts t csm :
  KD (map key ts) -> In t ts -> recursive_consumers ts t = Ok csm -> forall x, In x csm -> fst x = fst (t_id t).
Proof.
  intros Hd Hin H. unfold recursive_consumers in H.
  assert (Hc : forall x, In x (t_consumers t) -> fst x = fst (t_id t)).
  { intros x Hx. eapply Hd; [|exact Hx]. change (In (key t) (map key ts)). apply in_map. exact Hin. }
  eapply collect_consumers_job; [exact Hd | exact Hc | | exact H].
  intros x Hx. destruct (tid_insert_all_in _ _ _ Hx) as [H1|[]]. apply Hc. exact H1.
Qed.

Lemma try_remove_redirection_tasks c t c' : try_remove_redirection c t = Ok c' -> c_tasks c' = c_tasks c.
Proof.
  unfold try_remove_redirection. destruct (find_redirect _ _) as [[w rv]|]; intros H; inv_binds H; inversion H; reflexivity.
Qed.

(** * [on_cancel_tasks] *)
Lemma cancel_release_spec ids : forall s tu ru s' tu' ru',
  KD (K s) ->
  cancel_release s ids tu ru = Ok (s', tu', ru') ->
  K s' = K s /\
  (forall x, In x tu -> In x tu') /\
  (forall y, In y ids -> present (K s) y -> In y tu') /\
  (forall x, In x tu' -> In x tu \/ exists y, In y ids /\ present (K s) y /\ fst x = fst y).
Proof.
  induction ids as [|id r IH]; cbn [cancel_release]; intros s tu ru s' tu' ru' Hd H.
  - inversion H; subst. split; [reflexivity|]. split; [auto|]. split; [intros y []|]. auto.
  - destruct (find_task (c_tasks (core_of s)) id) as [t|] eqn:Ef.
    + destruct (find_task_some _ _ _ Ef) as [Hin Hid].
      assert (Hp : present (K s) id) by (apply find_task_present; eauto).
      apply bind_ok in H. destruct H as (csm & Hcs & H).
      pose proof (recursive_consumers_job _ _ _ Hd Hin Hcs) as Hjob. rewrite Hid in Hjob.
      apply bind_ok in H. destruct H as (rq & _ & H).
      set (tu1 := tid_insert_all csm (tid_insert id tu)) in *.
      (* every branch continues with a state that has the same keys *)
      assert (Hgen : forall s1 ru1, K s1 = K s -> cancel_release s1 r tu1 ru1 = Ok (s', tu', ru') ->
                K s' = K s /\ (forall x, In x tu -> In x tu') /\
                (forall y, id = y \/ In y r -> present (K s) y -> In y tu') /\
                (forall x, In x tu' -> In x tu \/ exists y, (id = y \/ In y r) /\ present (K s) y /\ fst x = fst y)).
      { intros s1 ru1 E1 H1. assert (Hd1 : KD (K s1)) by (rewrite E1; exact Hd).
        destruct (IH _ _ _ _ _ _ Hd1 H1) as (I1 & I2 & I3 & I4). rewrite E1 in *.
        split; [exact I1|]. split.
        { intros x Hx. apply I2. apply tid_insert_all_keeps. apply tid_insert_keeps. exact Hx. }
        split.
        { intros y [<-|Hy] Hpy; [apply I2; apply tid_insert_all_keeps; apply tid_insert_has | apply I3; assumption]. }
        intros x Hx. destruct (I4 x Hx) as [Hx1|(y & Hy & Hpy & Hf)].
        - destruct (tid_insert_all_in _ _ _ Hx1) as [Hc|Hc].
          + right. exists id. split; [left; reflexivity | split; [exact Hp | apply Hjob; exact Hc]].
          + destruct (tid_insert_in _ _ _ Hc) as [->|Hc2]; [right; exists id; auto | left; exact Hc2].
        - right. exists y. auto. }
      destruct (t_state t).
      * eapply Hgen; [|exact H]. reflexivity.
      * inv_binds H. eapply Hgen; [|exact H]. reflexivity.
      * inv_binds H. eapply Hgen; [|exact H]. reflexivity.
      * apply bind_ok in H. destruct H as (c' & Hc' & H). eapply Hgen; [|exact H].
        unfold K. cbn. eapply try_remove_redirection_frame; exact Hc'.
      * inv_binds H. eapply Hgen; [|exact H]. reflexivity.
      * apply bind_ok in H. destruct H as (c' & Hc' & H). destruct ws; [discriminate|]. eapply Hgen; [|exact H].
        unfold K. cbn. eapply reset_mn_all_frame; exact Hc'.
      * discriminate.
    + destruct (IH _ _ _ _ _ _ Hd H) as (I1 & I2 & I3 & I4). split; [exact I1|]. split; [exact I2|]. split.
      * intros y [<-|Hy] Hpy; [|apply I3; assumption].
        apply find_task_present in Hpy. destruct Hpy as (t & Ht). unfold K in Ht. congruence.
      * intros x Hx. destruct (I4 x Hx) as [H1|(y & Hy & Hpy & Hf)]; [left; exact H1 | right; exists y; split; [right; exact Hy | split; assumption]].
Qed.

Lemma on_cancel_tasks_spec s ids s' :
  CS (core_of s) -> KD (K s) -> on_cancel_tasks s ids = Ok s' ->
  exists X, shrinks (K s) (K s') X /\
    (forall y, In y ids -> present (K s) y -> In y X) /\
    (forall x, In x X -> present (K s) x /\ exists y, In y ids /\ present (K s) y /\ fst x = fst y).
Proof.
  intros Hs Hd H. unfold on_cancel_tasks in H.
  apply bind_ok in H. destruct H as ([[s1 tu] ru] & H1 & H). apply bind_ok in H. destruct H as (c' & H2 & H).
  destruct (cancel_release_spec _ _ _ _ _ _ _ Hd H1) as (E1 & _ & I3 & I4).
  assert (Hs1 : CS (core_of s1)) by (eapply CS_keys; [exact E1 | exact Hs]).
  destruct (remove_tasks_batched_shrinks _ _ _ Hs1 H2) as [S2 P2].
  exists tu. unfold K in *. rewrite (send_all_core _ _ _ H). cbn. rewrite <- E1. split; [exact S2|]. split.
  - intros y Hy Hpy. rewrite E1 in Hpy. apply I3; assumption.
  - intros x Hx. rewrite Forall_forall in P2. split; [apply P2; exact Hx|].
    destruct (I4 x Hx) as [[]|(y & Hy & Hpy & Hf)]. exists y. rewrite E1. auto.
Qed.

(** * Updates from workers: the key-preserving ones *)
Lemma task_running_spec s w id rv s' b :
  CS (core_of s) -> task_running s w id rv = Ok (s', b) -> K s' = K s /\ forall x, active s' x <-> active s x.
Proof.
  intros Hs H. unfold task_running in H.
  destruct (find_task (c_tasks (core_of s)) id) as [t|] eqn:Ef; [|inversion H; subst; split; reflexivity].
  apply bind_ok in H. destruct H as (rq & _ & H). apply bind_ok in H. destruct H as ([s1 ws] & H1 & H).
  apply bind_ok in H. destruct H as (s2 & H2 & H). inversion H; subst.
  destruct (process_task_started_active _ _ _ _ _ _ H2) as [C2 A2].
  assert (E1 : K s1 = K s /\ hq_of s1 = hq_of s).
  { destruct (t_state t); try discriminate.
    - destruct (negb (N.eqb w0 w)); [discriminate|]. destruct (negb (N.eqb rv0 rv)); [discriminate|]. inversion H1; subst.
      split; [|reflexivity]. unfold K. cbn. apply (upd_task_frame (core_of s) id t); [exact Hs | exact Ef | reflexivity | reflexivity].
    - destruct (negb (N.eqb w0 w)); [discriminate|]. inv_binds H1. inversion H1; subst.
      split; [|reflexivity]. unfold K. cbn. apply (upd_task_frame (core_of s) id t); [exact Hs | exact Ef | reflexivity | reflexivity].
    - destruct (negb (N.eqb w0 w)); [discriminate|].
      apply bind_ok in H1. destruct H1 as (c1 & Hc1 & H1). inv_binds H1. inversion H1; subst.
      split; [|reflexivity]. unfold K. cbn.
      pose proof (try_remove_redirection_frame _ _ _ Hc1) as F1. pose proof (try_remove_redirection_tasks _ _ _ Hc1) as T1.
      change (keys c1 = keys (core_of s)) in F1. change (c_tasks c1 = c_tasks (core_of s)) in T1.
      transitivity (keys c1); [|exact F1].
      change (keys (upd_task c1 (with_state t (Running w rv))) = keys c1).
      apply (upd_task_frame c1 id t); [eapply CS_keys; [exact F1 | exact Hs] | rewrite T1; exact Ef | reflexivity | reflexivity].
    - destruct ws0; [discriminate|]. destruct (N.eqb w0 w); [|discriminate]. inversion H1; subst. split; reflexivity. }
  destruct E1 as [E1 Eh]. split.
  - unfold K in *. rewrite C2. exact E1.
  - intros x. rewrite A2. apply active_same. apply jt_same. exact Eh.
Qed.

Lemma requeue_K s t c1 s' b :
  CS (core_of s) -> c_tasks c1 = c_tasks (core_of s) -> find_task (c_tasks (core_of s)) (t_id t) = Some t ->
  (do (qs, ret) <- add_ready_task (c_queues c1) (with_state t (Waiting 0));
   do s'' <- process_retracted (st_core s (with_queues (upd_task c1 (with_state t (Waiting 0))) qs)) ret;
   Ok (s'', true)) = Ok (s', b) -> K s' = K s.
Proof.
  intros Hs Et Ef Hx. inv_binds Hx. inversion Hx; subst.
  assert (Ek : keys c1 = K s) by (unfold K, keys; rewrite Et; reflexivity).
  assert (Eu : keys (upd_task c1 (with_state t (Waiting 0))) = K s).
  { rewrite <- Ek. apply (upd_task_frame c1 (t_id t) t); [eapply CS_keys; [exact Ek | exact Hs] | rewrite Et; exact Ef | reflexivity | reflexivity]. }
  match goal with X : process_retracted ?s0 _ = Ok _ |- _ =>
    rewrite (process_retracted_K s0 _ _ (CS_keys _ _ Eu Hs) X) end.
  exact Eu.
Qed.

Lemma task_reject_K s w id rv s' b : CS (core_of s) -> task_reject s w id rv = Ok (s', b) -> K s' = K s.
Proof.
  intros Hs H. unfold task_reject in H.
  destruct (find_task (c_tasks (core_of s)) id) as [t|] eqn:Ef; [|inversion H; subst; reflexivity].
  destruct (find_task_some _ _ _ Ef) as [_ Hid].
  assert (Ef' : find_task (c_tasks (core_of s)) (t_id t) = Some t) by (rewrite Hid; exact Ef).
  apply bind_ok in H. destruct H as (wk & _ & H). apply bind_ok in H. destruct H as (rq & _ & H).
  apply bind_ok in H. destruct H as ([c1 cont] & Hr & H).
  assert (Et : c_tasks c1 = c_tasks (core_of s)).
  { destruct (t_state t); try discriminate.
    - destruct (negb (N.eqb w w0)); [inversion Hr; reflexivity|].
      destruct rv as [v|]; [|inversion Hr; reflexivity].
      destruct (N.eqb v rv0); [inv_binds Hr|]; inversion Hr; reflexivity.
    - inv_binds Hr. inversion Hr; reflexivity.
    - destruct (negb (N.eqb w w0)); inversion Hr; reflexivity. }
  destruct (t_state t) eqn:Est; try (eapply requeue_K; eassumption).
  destruct cont.
  - destruct (find_redirect (c_redirects c1) id) as [[target rvt]|].
    + apply bind_ok in H. destruct H as (s1 & H1 & H). inversion H; subst.
      unfold K. rewrite (send_worker_core _ _ _ _ H1).
      assert (Ek : keys c1 = keys (core_of s)) by (unfold keys; rewrite Et; reflexivity).
      transitivity (keys c1); [|exact Ek].
      match goal with |- keys (core_of (st_core _ (upd_task ?cc ?x))) = _ =>
        change (keys (upd_task cc x) = keys cc); apply (upd_task_frame cc (t_id t) t) end;
        [eapply CS_keys; [exact Ek | exact Hs] | cbn; rewrite Et; exact Ef' | reflexivity | reflexivity].
    + eapply requeue_K; eassumption.
  - inversion H; subst. unfold K, keys. cbn. rewrite Et. reflexivity.
Qed.

Lemma send_redirected_core gs : forall s s', send_redirected s gs = Ok s' -> core_of s' = core_of s.
Proof.
  induction gs as [|[target ts] r IH]; cbn [send_redirected]; intros s s' H; [inversion H; reflexivity|].
  apply bind_ok in H. destruct H as (cts & _ & H). apply bind_ok in H. destruct H as (s1 & H1 & H).
  rewrite (IH _ _ H). eapply send_worker_core; exact H1.
Qed.

Lemma on_retract_response_K s w ids s' : CS (core_of s) -> on_retract_response s w ids = Ok s' -> K s' = K s.
Proof.
  unfold on_retract_response. intros Hs H. destruct (retract_response_states _ w ids []) as [c' groups] eqn:E.
  apply bind_ok in H. destruct H as (s2 & H & H2).
  assert (E2 : K s' = K s2) by (destruct (retract_wakes _ _ _ _); inversion H2; subst s'; reflexivity).
  rewrite E2. unfold K. rewrite (send_redirected_core _ _ _ H). cbn. eapply retract_response_states_frame; [exact Hs | exact E].
Qed.

(** * Server *)
Lemma lost_retracting_K l : forall s w s', CS (core_of s) -> lost_retracting s w l = Ok s' -> K s' = K s.
Proof.
  induction l as [|id r IH]; cbn [lost_retracting]; intros s w s' Hs H; [inversion H; reflexivity|].
  apply bind_ok in H. destruct H as (t & Ht & H). apply get_task_find in Ht.
  destruct (t_state t); try (eapply IH; eassumption).
  destruct (N.eqb w w0); [|eapply IH; eassumption].
  destruct (find_redirect _ id) as [[target rv]|].
  - apply bind_ok in H. destruct H as (s1 & H1 & H).
    assert (E : K s1 = K s).
    { unfold K. rewrite (send_worker_core _ _ _ _ H1). cbn.
      apply (upd_task_frame (with_redirects (core_of s) (del_redirect (c_redirects (core_of s)) id)) id t); [exact Hs | exact Ht | reflexivity | reflexivity]. }
    rewrite <- E. eapply IH; [eapply CS_keys; [exact E | exact Hs] | exact H].
  - match type of H with lost_retracting ?s1 _ _ = _ => assert (E : K s1 = K s) end.
    { unfold K. cbn. apply (upd_task_frame (core_of s) id t); [exact Hs | exact Ht | reflexivity | reflexivity]. }
    rewrite <- E. eapply IH; [eapply CS_keys; [exact E | exact Hs] | exact H].
Qed.

Lemma send_mapping_core m : forall s s', send_mapping s m = Ok s' -> core_of s' = core_of s.
Proof.
  induction m as [|u r IH]; cbn [send_mapping]; intros s s' H; [inversion H; reflexivity|].
  apply bind_ok in H. destruct H as (s1 & H1 & H).
  apply bind_ok in H. destruct H as (cts1 & _ & H).
  apply bind_ok in H. destruct H as (cts2 & _ & H).
  apply bind_ok in H. destruct H as (s2 & H2 & H).
  rewrite (IH _ _ H).
  assert (E2 : core_of s2 = core_of s1) by (destruct (cts1 ++ cts2); [inversion H2; reflexivity | eapply send_worker_core; exact H2]).
  assert (E1 : core_of s1 = core_of s) by (destruct (wu_retracts u); [inversion H1; reflexivity | eapply send_worker_core; exact H1]).
  congruence.
Qed.

Lemma send_mn_core l : forall s s', send_mn s l = Ok s' -> core_of s' = core_of s.
Proof.
  induction l as [|id r IH]; cbn [send_mn]; intros s s' H; [inversion H; reflexivity|].
  apply bind_ok in H. destruct H as (t & _ & H).
  destruct (t_state t); try discriminate. destruct ws; [discriminate|].
  apply bind_ok in H. destruct H as (s1 & H1 & H).
  rewrite (IH _ _ H). eapply send_worker_core; exact H1.
Qed.

Lemma run_scheduling_K s sol s' : CS (core_of s) -> run_scheduling s sol = Ok s' -> K s' = K s.
Proof.
  unfold run_scheduling. intros Hs H. destruct (negb (perm_of_set _ _)); [discriminate|].
  apply bind_ok in H. destruct H as ([c1 m1] & H1 & H).
  apply bind_ok in H. destruct H as ([c2 mn] & H2 & H).
  apply bind_ok in H. destruct H as ([c3 m3] & H3 & H).
  apply bind_ok in H. destruct H as (s1 & H4 & H).
  apply bind_ok in H. destruct H as (s2 & H5 & H). inversion H; subst.
  pose proof (map_sn_frame _ _ _ _ _ _ Hs H1) as E1.
  assert (Hs1 : CS c1) by (eapply CS_keys; [exact E1 | exact Hs]).
  pose proof (map_mn_frame _ _ _ _ _ Hs1 H2) as E2.
  assert (Hs2 : CS c2) by (eapply CS_keys; [exact E2 | exact Hs1]).
  assert (E3 : keys c3 = keys c2).
  { destruct (queues_top_priority (c_queues c2)); [|inversion H3; reflexivity].
    eapply prefill_queues_frame; [exact Hs2 | exact H3]. }
  unfold K. change (keys (core_of s2) = keys (core_of s)).
  rewrite (send_mn_core _ _ _ H5), (send_mapping_core _ _ _ H4).
  change (keys c3 = keys (core_of s)). rewrite E3, E2, E1. reflexivity.
Qed.
