(** Worker-set invariant: the theorem for every history of the system model.
    In every reachable state the server-side worker bookkeeping agrees with the task states, in both
    directions.  Premises: [Forall op_wf ops] (the client sends as many entries as ids; needed for the
    sortedness of the task map through [run_CB]) and [run_fresh ... = true] (RejHyp.v: a processed
    reject was sent by the worker the task is placed on with the variant it was assigned with, and a
    failing task that was placed as a multi-node task has a multi-node request; InvWWitness.v shows
    the invariant is false without the latter). *)
From HQ Require Import Base.Prelude Cluster.Types Cluster.Core Cluster.Reactor Cluster.Worker Cluster.Server Cluster.Sys Cluster.Monitors Cluster.RejHyp Cluster.ProofsJob Cluster.ProofsMore Cluster.ProofsTerminal Cluster.ProofsStep Cluster.ProofsFinal Cluster.BijBase Cluster.BijCore Cluster.BijHq Cluster.BijSt Cluster.BijReact Cluster.BijFinal Cluster.InvWBase Cluster.InvWView Cluster.InvWCore Cluster.InvWReact Cluster.InvWServer Cluster.InvWStep.
From Coq Require Import ZArith Lia Sorting.Sorted.
Local Open Scope N_scope.

(** The inductive invariant [WI] (InvWCore.v) and the sortedness of the task map hold in every
    reachable state. *)
Theorem reachable_WI ops reserve maxfill s outs :
  Forall op_wf ops -> run_fresh (init_sys reserve maxfill) ops = true -> run (init_sys reserve maxfill) ops = Ok (s, outs) ->
  WI (s_core s) /\ CS (s_core s).
Proof.
  intros Hwf Hf H.
  assert (HC0 : CB (init_sys reserve maxfill, [])).
  { constructor; [constructor | intros id cs x [] | ]. intros x. split; [intros [] | intros (l & Hl & _); discriminate]. }
  assert (Hok0 : HOK (s_hq (init_sys reserve maxfill))) by (intros j []).
  assert (F0 : fresh (init_sys reserve maxfill, [])) by (intros j []).
  split.
  - exact (run_WI _ _ _ _ Hok0 F0 Hwf HC0 (WI_init reserve maxfill) Hf H).
  - exact (cb_s _ (run_CB _ _ _ _ Hok0 F0 Hwf HC0 H)).
Qed.

(** From the invariant on views to the monitor predicates. *)
Lemma WI_worker_sets_ok c : WI c -> forallb (worker_sets_ok c) (c_workers c) = true.
Proof.
  intros (Sw & _ & H & _). apply forallb_forall. intros wk Hin.
  pose proof (in_find_worker _ _ Sw Hin) as Hw. unfold worker_sets_ok.
  destruct (w_assign wk) as [a p f|mt root] eqn:Ea.
  - apply andb_true_iff. split; apply forallb_forall; intros id Hid; apply tid_mem_true_in in Hid.
    + pose proof (wi_A _ _ _ H (w_id wk) id) as X. unfold inA, wantA, hv, x0, TV in X. rewrite Hw, Ea, Hid in X.
      destruct (find_task (c_tasks c) id) as [t|]; cbn [option_map plo] in X; [|discriminate].
      destruct (t_state t); cbn [pl] in X; try discriminate; try (symmetry; exact X).
    + pose proof (wi_P _ _ _ H (w_id wk) id) as X. unfold inP, wantP, hv, x0, TV in X. rewrite Hw, Ea, Hid in X.
      destruct (find_task (c_tasks c) id) as [t|]; cbn [option_map plo] in X; [|discriminate].
      destruct (t_state t); cbn [pl] in X; try discriminate; try (symmetry; exact X).
  - pose proof (wi_M _ _ _ H (w_id wk) mt) as X. unfold inM, wantM, hv, x0, TV in X. rewrite Hw, Ea, tid_eqb_refl' in X.
    destruct (find_task (c_tasks c) mt) as [t|]; cbn [option_map plo] in X; [|discriminate].
    destruct (t_state t); cbn [pl] in X; try discriminate; try (symmetry; exact X).
Qed.

Lemma WI_task_places c : WI c -> CS c ->
  forall t, In t (c_tasks c) ->
    match t_state t with
    | Assigned w _ | Running w _ => (exists wk a p f, find_worker (c_workers c) w = Some wk /\ w_assign wk = Sn a p f /\ tid_mem (t_id t) a = true)
    | Prefilled w => (exists wk a p f, find_worker (c_workers c) w = Some wk /\ w_assign wk = Sn a p f /\ tid_mem (t_id t) p = true)
    | Retracting _ => forall target rv, find_redirect (c_redirects c) (t_id t) = Some (target, rv) ->
                        exists wk a p f, find_worker (c_workers c) target = Some wk /\ w_assign wk = Sn a p f /\ tid_mem (t_id t) a = true
    | RunningMN ws => forall w, In w ws -> exists wk root, find_worker (c_workers c) w = Some wk /\ w_assign wk = Mn (t_id t) root
    | _ => True
    end.
Proof.
  intros (_ & _ & H & _) Hs t Hin.
  pose proof (in_find_task _ _ (CS_sorted _ Hs) Hin) as Hf.
  assert (HA : forall w, wantA (hv x0 (TV (c_tasks c))) (find_redirect (c_redirects c)) w (t_id t) = true ->
            exists wk a p f, find_worker (c_workers c) w = Some wk /\ w_assign wk = Sn a p f /\ tid_mem (t_id t) a = true).
  { intros w X. rewrite <- (wi_A _ _ _ H) in X. unfold inA in X.
    destruct (find_worker (c_workers c) w) as [wk|]; [|discriminate]. destruct (w_assign wk) as [a p f|] eqn:Ea; [|discriminate].
    exists wk, a, p, f. auto. }
  destruct (t_state t) as [n|w rv|w|w0|w rv|ws|] eqn:Est; try exact I.
  - apply HA. unfold wantA, hv, x0. rewrite (TV_find _ _ _ Hf), Est. cbn. apply N.eqb_refl.
  - assert (X : wantP (hv x0 (TV (c_tasks c))) w (t_id t) = true) by (unfold wantP, hv, x0; rewrite (TV_find _ _ _ Hf), Est; cbn; apply N.eqb_refl).
    rewrite <- (wi_P _ _ _ H) in X. unfold inP in X.
    destruct (find_worker (c_workers c) w) as [wk|]; [|discriminate]. destruct (w_assign wk) as [a p f|] eqn:Ea; [|discriminate].
    exists wk, a, p, f. auto.
  - intros target rv Hr. apply HA. unfold wantA, hv, x0. rewrite (TV_find _ _ _ Hf), Est, Hr. cbn. apply N.eqb_refl.
  - apply HA. unfold wantA, hv, x0. rewrite (TV_find _ _ _ Hf), Est. cbn. apply N.eqb_refl.
  - intros w Hw.
    assert (X : wantM (hv x0 (TV (c_tasks c))) w (t_id t) = true).
    { unfold wantM, hv, x0. rewrite (TV_find _ _ _ Hf), Est. cbn. apply BijFinal.n_mem_in. exact Hw. }
    rewrite <- (wi_M _ _ _ H) in X. destruct (inM_mn _ _ _ X) as (wk & mt & root & E1 & E2 & E3). subst mt. exists wk, root. auto.
Qed.

Theorem worker_sets_invariant : forall ops reserve maxfill s outs,
  Forall op_wf ops -> run_fresh (init_sys reserve maxfill) ops = true -> run (init_sys reserve maxfill) ops = Ok (s, outs) ->
  let c := s_core s in
  forallb (worker_sets_ok c) (c_workers c) = true /\
  (forall t, In t (c_tasks c) ->
     match t_state t with
     | Assigned w _ | Running w _ => (exists wk a p f, find_worker (c_workers c) w = Some wk /\ w_assign wk = Sn a p f /\ tid_mem (t_id t) a = true)
     | Prefilled w => (exists wk a p f, find_worker (c_workers c) w = Some wk /\ w_assign wk = Sn a p f /\ tid_mem (t_id t) p = true)
     | Retracting _ => forall target rv, find_redirect (c_redirects c) (t_id t) = Some (target, rv) ->
                         exists wk a p f, find_worker (c_workers c) target = Some wk /\ w_assign wk = Sn a p f /\ tid_mem (t_id t) a = true
     | RunningMN ws => forall w, In w ws -> exists wk root, find_worker (c_workers c) w = Some wk /\ w_assign wk = Mn (t_id t) root
     | _ => True
     end).
Proof.
  intros ops reserve maxfill s outs Hwf Hf H c.
  destruct (reachable_WI _ _ _ _ _ Hwf Hf H) as [HW Hs].
  split; [apply WI_worker_sets_ok; exact HW | apply WI_task_places; assumption].
Qed.

(** For the queue invariant: a member of a worker's ASSIGNED set is never a Prefilled task. *)
Definition asg_ok (c : core) : Prop :=
  forall wk a p f id t, In wk (c_workers c) -> w_assign wk = Sn a p f -> tid_mem id a = true ->
    find_task (c_tasks c) id = Some t -> forall w, t_state t <> Prefilled w.

Lemma WI_asg_ok c : WI c -> asg_ok c.
Proof.
  intros HW wk a p f id t Hin Ea Hm Hf w Est.
  pose proof (in_find_worker _ _ (proj1 HW) Hin) as Hw.
  destruct (WI_member_A c _ _ _ _ _ id t HW Hw Ea Hm Hf) as [X|[X _]]; rewrite Est in X; discriminate.
Qed.

Corollary asg_ok_reachable ops reserve maxfill s outs :
  Forall op_wf ops -> run_fresh (init_sys reserve maxfill) ops = true -> run (init_sys reserve maxfill) ops = Ok (s, outs) ->
  asg_ok (s_core s).
Proof. intros Hwf Hf H. apply WI_asg_ok. exact (proj1 (reachable_WI _ _ _ _ _ Hwf Hf H)). Qed.

(** Further structural facts of the invariant, for every reachable state. *)
Corollary reachable_sorted ops reserve maxfill s outs :
  Forall op_wf ops -> run_fresh (init_sys reserve maxfill) ops = true -> run (init_sys reserve maxfill) ops = Ok (s, outs) ->
  let c := s_core s in
  StronglySorted N.lt (map w_id (c_workers c)) /\ StronglySorted tlt (map fst (c_redirects c)) /\
  (forall wk a p f, In wk (c_workers c) -> w_assign wk = Sn a p f -> StronglySorted tlt a /\ StronglySorted tlt p) /\
  (forall id v, find_redirect (c_redirects c) id = Some v -> exists t w, find_task (c_tasks c) id = Some t /\ t_state t = Retracting w) /\
  (forall wk, In wk (c_workers c) -> w_id wk <= c_wcounter c).
Proof.
  intros Hwf Hf H c. subst c. destruct (reachable_WI _ _ _ _ _ Hwf Hf H) as [(Sw & Sr & Hv & Hb) _].
  split; [exact Sw|]. split; [exact Sr|]. split; [|split].
  - intros wk a p f Hin Ea. eapply (wi_sets _ _ _ Hv (w_id wk)); [apply in_find_worker; assumption | exact Ea].
  - intros id v Hr. assert (X : plo (hv x0 (TV (c_tasks (s_core s))) id) = PR) by (apply (wi_R _ _ _ Hv); congruence).
    unfold hv, x0, TV in X. destruct (find_task (c_tasks (s_core s)) id) as [t|]; [|discriminate]. cbn in X.
    destruct (t_state t) eqn:E; try discriminate. eauto.
  - intros wk Hin. apply Hb. rewrite (in_find_worker _ _ Sw Hin). discriminate.
Qed.
