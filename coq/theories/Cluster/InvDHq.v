(** C03, the dependency invariant, part 8: the job-layer side.

    Dependencies are ids KNOWN to the job layer (a key of the job's task list), the ids of new
    tasks are unknown to it.  To use this, this file shows that the set of known ids only grows
    ([KL s s']) along every function of the job layer and of the reactor - except when a whole
    job is forgotten, which the step theorem treats separately. *)
From HQ Require Import Base.Prelude Cluster.Types Cluster.Core Cluster.Reactor Cluster.Worker Cluster.Server Cluster.Sys Cluster.ProofsJob Cluster.ProofsMore Cluster.ProofsTerminal Cluster.ProofsStep Cluster.BijBase Cluster.BijCore Cluster.BijHq Cluster.BijSt Cluster.BijReact Cluster.ProofsFinal Cluster.BijFinal.
From Coq Require Import ZArith Lia.
Local Open Scope N_scope.

Arguments N.add : simpl never.
Arguments N.sub : simpl never.

Definition ldom (l l' : list (N * jstate)) : Prop := forall k, jt_find l k <> None -> jt_find l' k <> None.
Definition known (s : st) (d : tid) : Prop := exists l, jt s (fst d) = Some l /\ jt_find l (snd d) <> None.
Definition KL (s s' : st) : Prop := forall id l, jt s id = Some l -> exists l', jt s' id = Some l' /\ ldom l l'.

Lemma ldom_refl l : ldom l l.
Proof. intros k H; exact H. Qed.
Lemma ldom_set l t v : ldom l (jt_set l t v).
Proof. intros k H. rewrite jt_find_set. destruct (N.eqb k t); [discriminate | exact H]. Qed.

Lemma KL_refl s : KL s s.
Proof. intros id l H. exists l. split; [exact H | apply ldom_refl]. Qed.
Lemma KL_trans s1 s2 s3 : KL s1 s2 -> KL s2 s3 -> KL s1 s3.
Proof.
  intros A B id l H. destruct (A _ _ H) as (l2 & H2 & D2). destruct (B _ _ H2) as (l3 & H3 & D3).
  exists l3. split; [exact H3 | intros k Hk; apply D3, D2, Hk].
Qed.
Lemma KL_jt s s' : (forall id, jt s' id = jt s id) -> KL s s'.
Proof. intros E id l H. exists l. split; [rewrite E; exact H | apply ldom_refl]. Qed.
Lemma KL_same s s' : hq_of s' = hq_of s -> KL s s'.
Proof. intros E. apply KL_jt. apply jt_same. exact E. Qed.
Lemma KL_known s s' d : KL s s' -> known s d -> known s' d.
Proof. intros K (l & Hl & Hk). destruct (K _ _ Hl) as (l' & Hl' & D). exists l'. split; [exact Hl' | apply D; exact Hk]. Qed.

(** Replacing a job by one with at least the same task ids. *)
Lemma KL_set s s' j' l :
  jt s (j_id j') = Some l -> ldom l (j_tasks j') -> (forall id, jt s' id = jt (hq_set_job s j') id) -> KL s s'.
Proof.
  intros Hl D E id l0 H0. rewrite E, jt_set_job. destruct (N.eqb id (j_id j')) eqn:Ei.
  - apply N.eqb_eq in Ei. subst id. rewrite Hl in H0. inversion H0; subst. exists (j_tasks j'). split; [reflexivity | exact D].
  - exists l0. split; [exact H0 | apply ldom_refl].
Qed.

(** * Job layer *)
Lemma check_termination_KL s jid s' : check_termination s jid = Ok s' -> KL s s'.
Proof. intros H. apply KL_jt. apply (check_termination_jt _ _ _ H). Qed.

Lemma process_task_started_KL s t i ws rv s' : process_task_started s t i ws rv = Ok s' -> KL s s'.
Proof.
  unfold process_task_started. intros H. apply bind_ok in H. destruct H as (j & Hj & H).
  destruct (jt_get _ _ _ _ Hj) as [Ej Eid].
  destruct (jt_find (j_tasks j) (snd t)) as [v|]; [|discriminate]. inversion H; subst.
  match goal with |- KL s (emit (hq_set_job s ?jx) _) => eapply (KL_set s _ jx (j_tasks j)) end.
  - destruct v; cbn [j_id job_upd]; rewrite Eid; exact Ej.
  - destruct v; try apply ldom_refl. cbn [j_tasks job_upd]. apply ldom_set.
  - intros id. reflexivity.
Qed.

Lemma process_task_finished_KL s t s' : process_task_finished s t = Ok s' -> KL s s'.
Proof.
  unfold process_task_finished. intros H. apply bind_ok in H. destruct H as (j & Hj & H).
  destruct (jt_get _ _ _ _ Hj) as [Ej Eid].
  destruct (jt_find (j_tasks j) (snd t)) as [v|]; [|discriminate]. destruct v; try discriminate.
  apply bind_ok in H. destruct H as (nr & _ & H).
  eapply KL_trans; [|eapply check_termination_KL; exact H].
  match goal with |- KL s (emit (hq_set_job s ?jx) _) => eapply (KL_set s _ jx (j_tasks j)) end.
  - cbn [j_id job_upd]. rewrite Eid. exact Ej.
  - cbn [j_tasks job_upd]. apply ldom_set.
  - intros id. reflexivity.
Qed.

Lemma set_waiting_state_KL s t s' : set_waiting_state s t = Ok s' -> KL s s'.
Proof.
  unfold set_waiting_state. intros H. apply bind_ok in H. destruct H as (j & Hj & H).
  destruct (jt_get _ _ _ _ Hj) as [Ej Eid].
  destruct (jt_find (j_tasks j) (snd t)) as [v|]; [|discriminate].
  destruct v; try (inversion H; subst; apply KL_refl).
  apply bind_ok in H. destruct H as (nr & _ & H). inversion H; subst.
  match goal with |- KL s (hq_set_job s ?jx) => eapply (KL_set s _ jx (j_tasks j)) end.
  - cbn [j_id job_upd]. rewrite Eid. exact Ej.
  - cbn [j_tasks job_upd]. apply ldom_set.
  - intros id. reflexivity.
Qed.

Lemma set_waiting_all_KL ts : forall s s', set_waiting_all s ts = Ok s' -> KL s s'.
Proof.
  induction ts as [|t r IH]; cbn [set_waiting_all]; intros s s' H; [inversion H; subst; apply KL_refl|].
  apply bind_ok in H. destruct H as (s1 & H1 & H). eapply KL_trans; [eapply set_waiting_state_KL; exact H1 | eapply IH; exact H].
Qed.

Lemma process_worker_lost_KL s w running reason s' : process_worker_lost s w running reason = Ok s' -> KL s s'.
Proof.
  unfold process_worker_lost. intros H. apply bind_ok in H. destruct H as (s1 & H1 & H). inversion H; subst.
  eapply KL_trans; [eapply set_waiting_all_KL; exact H1 | apply KL_same; reflexivity].
Qed.

Lemma mark_tasks_ldom target site ids j j' : mark_tasks j ids target site = Ok j' -> j_id j' = j_id j /\ ldom (j_tasks j) (j_tasks j').
Proof.
  intros H. destruct (mark_tasks_find _ _ _ _ _ H) as (I & _ & F). split; [exact I|].
  intros k Hk. rewrite F. destruct (snd_mem k ids); [discriminate | exact Hk].
Qed.

Lemma abort_tasks_KL s jid ids s' : abort_tasks s jid ids = Ok s' -> KL s s'.
Proof.
  unfold abort_tasks. destruct ids as [|i0 ir]; [intros H; inversion H; subst; apply KL_refl|].
  intros H. apply bind_ok in H. destruct H as (j & Hj & H). destruct (jt_get _ _ _ _ Hj) as [Ej Eid].
  apply bind_ok in H. destruct H as (j1 & Hm & H). destruct (mark_tasks_ldom _ _ _ _ _ Hm) as [I1 D1].
  eapply KL_trans; [|eapply check_termination_KL; exact H].
  match goal with |- KL s (emit (hq_set_job s ?jx) _) => eapply (KL_set s _ jx (j_tasks j)) end.
  - cbn [j_id job_upd]. rewrite I1, Eid. exact Ej.
  - cbn [j_tasks job_upd]. exact D1.
  - intros id. reflexivity.
Qed.

Lemma set_cancel_state_KL s jid ids s' : set_cancel_state s jid ids = Ok s' -> KL s s'.
Proof.
  unfold set_cancel_state. destruct ids as [|i0 ir]; [intros H; inversion H; subst; apply KL_refl|].
  intros H. apply bind_ok in H. destruct H as (j & Hj & H). destruct (jt_get _ _ _ _ Hj) as [Ej Eid].
  apply bind_ok in H. destruct H as (j1 & Hm & H). destruct (mark_tasks_ldom _ _ _ _ _ Hm) as [I1 D1].
  eapply KL_trans; [|eapply check_termination_KL; exact H].
  match goal with |- KL s (emit (emit (hq_set_job s ?jx) _) _) => eapply (KL_set s _ jx (j_tasks j)) end.
  - cbn [j_id job_upd]. rewrite I1, Eid. exact Ej.
  - cbn [j_tasks job_upd]. exact D1.
  - intros id. reflexivity.
Qed.

Lemma process_task_failed_KL s t aborted k s' ids : process_task_failed s t aborted k = Ok (s', ids) -> KL s s'.
Proof.
  unfold process_task_failed. intros H.
  apply bind_ok in H. destruct H as (s1 & H1 & H). pose proof (abort_tasks_KL _ _ _ _ H1) as K1.
  apply bind_ok in H. destruct H as (j & Hj & H). destruct (jt_get _ _ _ _ Hj) as [Ej Eid].
  apply bind_ok in H. destruct H as (j1 & Hj1 & H).
  assert (P : j_id j1 = j_id j /\ ldom (j_tasks j) (j_tasks j1)).
  { destruct (jt_find (j_tasks j) (snd t)) as [v|]; [|discriminate]. destruct v; try discriminate.
    - inversion Hj1; subst. split; [reflexivity | apply ldom_set].
    - apply bind_ok in Hj1. destruct Hj1 as (nr & _ & Hj1). inversion Hj1; subst. split; [reflexivity | apply ldom_set]. }
  destruct P as [I1 D1].
  apply bind_ok in H. destruct H as (s2 & H2 & H).
  assert (K2 : KL s1 s2).
  { eapply KL_trans; [|eapply check_termination_KL; exact H2].
    eapply (KL_set s1 _ j1 (j_tasks j)); [rewrite I1, Eid; exact Ej | exact D1 | intros id; reflexivity]. }
  apply bind_ok in H. destruct H as (j2 & _ & H).
  destruct (j_maxfails j2) as [mf|]; [|inversion H; subst; eapply KL_trans; eassumption].
  destruct (N.ltb mf (j_nfail j2)); [|inversion H; subst; eapply KL_trans; eassumption].
  apply bind_ok in H. destruct H as (s3 & H3 & H). inversion H; subst.
  eapply KL_trans; [exact K1|]. eapply KL_trans; [exact K2 | eapply abort_tasks_KL; exact H3].
Qed.

(** * Reactor *)
Lemma task_failed_KL s w id k s' : task_failed s w id k = Ok s' -> KL s s'.
Proof.
  intros Hc. unfold task_failed in Hc.
  destruct (find_task _ id) as [t|]; [|inversion Hc; subst; apply KL_refl].
  inv_binds Hc.
  match goal with X : process_task_failed ?s0 _ _ _ = Ok (?s1, ?ids) |- _ =>
    assert (K1 : KL s s1) by (eapply KL_trans; [apply (KL_same s s0); reflexivity | eapply process_task_failed_KL; exact X]);
    destruct ids; [inversion Hc; subst; exact K1|] end.
  eapply KL_trans; [exact K1 | apply KL_same; eapply on_cancel_tasks_hq; exact Hc].
Qed.

Lemma task_finished_KL s w id s' b : task_finished s w id = Ok (s', b) -> KL s s'.
Proof.
  intros Hc. unfold task_finished in Hc.
  destruct (find_task _ id) as [t|]; [|inversion Hc; subst; apply KL_refl].
  inv_binds Hc.
  match goal with X : process_task_finished ?s0 _ = Ok ?s1 |- _ =>
    assert (K1 : KL s s1) by (eapply KL_trans; [apply (KL_same s s0); reflexivity | eapply process_task_finished_KL; exact X]) end.
  match goal with X : process_retracted _ _ = Ok _ |- _ => apply process_retracted_hq in X; cbn in X; rename X into R end.
  match type of Hc with match ?st with _ => _ end = _ => destruct st; try discriminate end.
  inversion Hc; subst. eapply KL_trans; [exact K1|]. apply KL_same. cbn. exact R.
Qed.

Lemma task_running_KL s w id rv s' b : task_running s w id rv = Ok (s', b) -> KL s s'.
Proof.
  intros Hc. unfold task_running in Hc.
  destruct (find_task _ id) as [t|]; [|inversion Hc; subst; apply KL_refl].
  inv_binds Hc. inversion Hc; subst.
  match goal with X : process_task_started ?s1 _ _ _ _ = Ok _ |- _ =>
    eapply KL_trans; [|eapply process_task_started_KL; exact X] end.
  apply KL_same.
  match goal with X : match t_state t with _ => _ end = Ok _ |- _ => rename X into Hm end.
  destruct (t_state t); try discriminate.
  - destruct (negb (N.eqb w0 w)); [discriminate|]. destruct (negb (N.eqb rv0 rv)); [discriminate|]. inversion Hm; subst. reflexivity.
  - destruct (negb (N.eqb w0 w)); [discriminate|]. inv_binds Hm. inversion Hm; subst. reflexivity.
  - destruct (negb (N.eqb w0 w)); [discriminate|]. inv_binds Hm. inversion Hm; subst. reflexivity.
  - destruct ws; [discriminate|]. destruct (N.eqb w0 w); [|discriminate]. inversion Hm; subst. reflexivity.
Qed.

Lemma apply_updates_KL us : forall s w need s' need', apply_updates s w us need = Ok (s', need') -> KL s s'.
Proof.
  induction us as [|u r IH]; cbn [apply_updates]; intros s w need s' need' Hc; [inversion Hc; subst; apply KL_refl|].
  apply bind_ok in Hc. destruct Hc as ([s1 n1] & Hu & Hc). eapply KL_trans; [|eapply IH; exact Hc].
  destruct u.
  - eapply task_finished_KL; eassumption.
  - inv_binds Hu. inversion Hu; subst. eapply task_failed_KL; eassumption.
  - eapply task_running_KL; eassumption.
  - eapply task_running_KL; eassumption.
  - apply KL_same. eapply task_reject_same; exact Hu.
  - inv_binds Hu. inversion Hu; subst. apply KL_same. eapply request_enabled_same; eassumption.
Qed.

Lemma on_task_update_KL s w us s' : on_task_update s w us = Ok s' -> KL s s'.
Proof.
  intros Hc. unfold on_task_update in Hc. apply bind_ok in Hc. destruct Hc as ([s1 need] & Hu & Hc).
  pose proof (apply_updates_KL _ _ _ _ _ _ Hu) as K1.
  destruct (need && _); inversion Hc; subst; [eapply KL_trans; [exact K1 | apply KL_same; reflexivity] | exact K1].
Qed.

Lemma lost_fail_running_KL l : forall s reason s', lost_fail_running s reason l = Ok s' -> KL s s'.
Proof.
  induction l as [|id r IH]; cbn [lost_fail_running]; intros s reason s' Hc; [inversion Hc; subst; apply KL_refl|].
  destruct (find_task _ id) as [t|]; [|eapply IH; eassumption].
  destruct (t_climit t).
  - inv_binds Hc. eapply KL_trans; [eapply task_failed_KL; eassumption | eapply IH; exact Hc].
  - destruct (reason_is_failure reason); [|eapply IH; eassumption].
    destruct (increment_crash_counter t) as [t' limit]. destruct limit.
    + inv_binds Hc. eapply KL_trans; [|eapply IH; exact Hc].
      eapply KL_trans; [|eapply task_failed_KL; eassumption]. apply KL_same; reflexivity.
    + eapply KL_trans; [|eapply IH; exact Hc]. apply KL_same; reflexivity.
  - destruct (reason_is_failure reason); [|eapply IH; eassumption].
    destruct (increment_crash_counter t) as [t' limit]. destruct limit.
    + inv_binds Hc. eapply KL_trans; [|eapply IH; exact Hc].
      eapply KL_trans; [|eapply task_failed_KL; eassumption]. apply KL_same; reflexivity.
    + eapply KL_trans; [|eapply IH; exact Hc]. apply KL_same; reflexivity.
Qed.

Lemma on_remove_worker_KL s w reason a p t s' : on_remove_worker s w reason a p t = Ok s' -> KL s s'.
Proof.
  intros Hc. unfold on_remove_worker in Hc.
  destruct (find_worker _ w) as [wk|]; [|discriminate].
  apply bind_ok in Hc. destruct Hc as ([[c2 running] retracted] & _ & Hc).
  destruct (negb (perm_of_set t _)); [discriminate|].
  inv_binds Hc. inversion Hc; subst.
  match goal with X : process_retracted _ _ = Ok _ |- _ => apply process_retracted_hq in X; rename X into R1 end.
  match goal with X : lost_retracting _ _ _ = Ok _ |- _ => apply lost_retracting_same in X; rename X into R2 end.
  match goal with X : process_worker_lost _ _ _ _ = Ok _ |- _ => apply process_worker_lost_KL in X; rename X into K3 end.
  match goal with X : lost_fail_running _ _ _ = Ok _ |- _ => apply lost_fail_running_KL in X; rename X into K4 end.
  unfold hq_same in R2.
  eapply KL_trans; [|eapply KL_trans; [exact K4 | apply KL_same; reflexivity]].
  eapply KL_trans; [|exact K3]. apply KL_same.
  match goal with |- hq_of (broadcast ?x _) = _ => change (hq_of x = hq_of s) end. rewrite R1, R2. reflexivity.
Qed.

(** * Client requests (all but forget) *)
Lemma handle_cancel_KL s jid s' : handle_cancel s jid = Ok s' -> KL s s'.
Proof.
  intros H. unfold handle_cancel in H.
  destruct (find_job (hq_jobs s) jid) as [j|]; [|inversion H; subst; apply KL_same; reflexivity].
  destruct (non_finished_task_ids j) as [|i0 ir]; [inversion H; subst; apply KL_same; reflexivity|].
  apply bind_ok in H. destruct H as (s1 & H1 & H). apply bind_ok in H. destruct H as (al & _ & H).
  apply bind_ok in H. destruct H as (s2 & H2 & H). inversion H; subst.
  eapply KL_trans; [apply KL_same; eapply on_cancel_tasks_hq; exact H1|].
  eapply KL_trans; [eapply set_cancel_state_KL; exact H2 | apply KL_same; reflexivity].
Qed.

Lemma handle_close_KL s jid s' : handle_close s jid = Ok s' -> KL s s'.
Proof.
  intros H. unfold handle_close in H.
  destruct (find_job (hq_jobs s) jid) as [j|] eqn:Ej; [|inversion H; subst; apply KL_same; reflexivity].
  destruct (j_open j); [|inversion H; subst; apply KL_same; reflexivity].
  apply bind_ok in H. destruct H as (s1 & H1 & H). inversion H; subst.
  eapply KL_trans; [|eapply KL_trans; [eapply check_termination_KL; exact H1 | apply KL_same; reflexivity]].
  match goal with |- KL s (emit (hq_set_job s ?jx) _) => eapply (KL_set s _ jx (j_tasks j)) end.
  - cbn [j_id]. unfold jt, hq_of. unfold hq_jobs in Ej. rewrite (find_job_id _ _ _ Ej), Ej. reflexivity.
  - apply ldom_refl.
  - intros id. reflexivity.
Qed.

(** A job created with the (fresh) counter as its id leaves all existing jobs alone. *)
Lemma KL_new_job s jid open mf cnt' :
  jt s jid = None -> KL s (hq_with s (set_job (hq_jobs s) (mkJob jid open [] 0 0 0 0 0 false mf)) cnt').
Proof.
  intros Hn id l Hl. exists l. split; [|apply ldom_refl].
  unfold jt, hq_of, hq_with, hq_jobs in *. cbn. rewrite find_job_set_any. cbn [j_id].
  destruct (N.eqb id jid) eqn:E; [apply N.eqb_eq in E; subst id; rewrite Hn in Hl; discriminate | exact Hl].
Qed.

Lemma attach_ids_ldom ids : forall j j', attach_ids j ids = Ok j' -> j_id j' = j_id j /\ ldom (j_tasks j) (j_tasks j').
Proof.
  intros j j' H. destruct (attach_ids_find ids j j' H) as [I F].
  split; [exact I|]. intros k Hk. rewrite F. destruct (n_mem k ids); [discriminate | exact Hk].
Qed.
