(** Worker loss never panics, part 2: [lost_retracting], [process_retracted] and
    [process_worker_lost] after the release of the lost worker's tasks. *)
From HQ Require Import Base.Prelude Cluster.Types Cluster.Core Cluster.Reactor Cluster.Worker Cluster.Server Cluster.Sys Cluster.Monitors Cluster.ProofsJob Cluster.ProofsMore Cluster.ProofsTerminal Cluster.ProofsStep Cluster.ProofsFinal Cluster.BijBase Cluster.BijCore Cluster.BijHq Cluster.BijSt Cluster.BijReact Cluster.BijFinal Cluster.FrameGen Cluster.CrashFrame Cluster.InvWBase Cluster.InvWView Cluster.InvWCore Cluster.InvWReact Cluster.InvWReact2 Cluster.InvWReact3 Cluster.InvWServer Cluster.InvWStep Cluster.InvWFinal Cluster.InvQBase Cluster.InvQTake Cluster.InvQInv Cluster.InvQOps Cluster.InvQNoDup Cluster.InvQReact Cluster.InvQReact2 Cluster.InvQReact3 Cluster.InvQServer Cluster.InvQServer2 Cluster.InvQStep Cluster.InvDBase Cluster.InvDSpec Cluster.InvDMap Cluster.InvDRem Cluster.InvDReact Cluster.InvDSched Cluster.InvDStep Cluster.InvProcsDef Cluster.NoPanicC1 Cluster.NoPanicC2 Cluster.NoPanicC3 Cluster.NoPanicC4 Cluster.InvWX1 Cluster.InvWX2 Cluster.InvWX3 Cluster.NoPanicL0 Cluster.NoPanicL1.
From Coq Require Import ZArith Lia Sorting.Sorted.
Local Open Scope N_scope.

Arguments N.add : simpl never.
Arguments N.sub : simpl never.

(** The processes cover the workers. *)
Lemma PI_PWc s : PI s -> PWc s.
Proof. intros [_ Hp] w Hw. unfold has_proc. apply (same_ids_find _ _ w Hp). exact Hw. Qed.

(** * [lost_retracting] *)
Lemma lost_retracting_one s w id s1 r : lost_retracting s w [id] = Ok s1 -> lost_retracting s w (id :: r) = lost_retracting s1 w r.
Proof.
  cbn [lost_retracting]. intros H. destruct (get_task _ id) as [t| |]; cbn [bind] in *; try discriminate.
  destruct (t_state t); try (inversion H; subst; reflexivity).
  destruct (N.eqb w w0); [|inversion H; subst; reflexivity].
  cbv zeta in *. destruct (find_redirect _ id) as [[target rv]|]; [|inversion H; subst; reflexivity].
  destruct (send_worker _ target _) as [s'| |]; cbn [bind] in *; try discriminate. inversion H; subst. reflexivity.
Qed.

Lemma lost_retracting_tot l : forall s w,
  WI (core_of s) -> PI s -> (forall id, In id l -> find_task (c_tasks (core_of s)) id <> None) ->
  exists s', lost_retracting s w l = Ok s'.
Proof.
  induction l as [|id r IH]; intros s w HW HP Hex; [eexists; reflexivity|].
  assert (H1 : exists s1, lost_retracting s w [id] = Ok s1).
  { cbn [lost_retracting]. destruct (find_task (c_tasks (core_of s)) id) as [t|] eqn:Ef; [|exfalso; exact (Hex id (or_introl eq_refl) Ef)].
    rewrite (get_task_ok _ _ _ Ef). cbn [bind].
    destruct (t_state t) eqn:Est; try (eexists; reflexivity).
    destruct (N.eqb w w0); [|eexists; reflexivity]. cbv zeta.
    destruct (find_redirect (c_redirects (core_of s)) id) as [[target rv]|] eqn:Er; [|eexists; reflexivity].
    destruct (WIX_R _ _ _ _ _ HW Er) as (wk & a & p & f & Hw & _).
    match goal with |- exists s1, bind (send_worker ?s0 target ?m) _ = _ => destruct (send_worker_tot s0 target m) as (s1 & Hs1 & _) end.
    { apply (PI_PWc s HP). cbn. rewrite Hw. discriminate. }
    rewrite Hs1. cbn [bind]. eexists; reflexivity. }
  destruct H1 as (s1 & H1). rewrite (lost_retracting_one _ _ _ _ r H1).
  apply IH.
  - eapply lost_retracting_WI; [exact HW | exact H1].
  - eapply R_PI; [eapply lost_retracting_R; exact H1 | exact HP].
  - intros x Hx. pose proof (lost_retracting_scr _ _ _ _ H1) as [_ S].
    destruct (find_task (c_tasks (core_of s)) x) as [tx|] eqn:Ex; [|exfalso; exact (Hex x (or_intror Hx) Ex)].
    destruct (SC_some _ _ _ _ S Ex) as (tx' & Ex' & _). unfold fm in Ex'. congruence.
Qed.

(** Tasks that are not being retracted are left alone. *)
Lemma lost_retracting_keeps l : forall s w s' x tx,
  lost_retracting s w l = Ok s' -> find_task (c_tasks (core_of s)) x = Some tx -> (forall w1, t_state tx <> Retracting w1) ->
  find_task (c_tasks (core_of s')) x = Some tx.
Proof.
  induction l as [|id r IH]; cbn [lost_retracting]; intros s w s' x tx H Hx Hn; [inversion H; subst; exact Hx|].
  apply bind_ok in H. destruct H as (t & Ht & H). apply get_task_find in Ht.
  destruct (find_task_some _ _ _ Ht) as [_ Hid].
  destruct (t_state t) eqn:Est; try (eapply IH; eassumption).
  destruct (N.eqb w w0); [|eapply IH; eassumption]. cbv zeta in H.
  assert (Hne : tid_eqb x id = false).
  { apply tid_eqb_neq. intros ->. rewrite Ht in Hx. inversion Hx; subst tx. exact (Hn _ Est). }
  destruct (find_redirect _ id) as [[target rv]|].
  - apply bind_ok in H. destruct H as (s1 & H1 & H). eapply IH; [exact H | | exact Hn].
    rewrite (send_worker_core _ _ _ _ H1). cbn. rewrite find_set_task. cbn [t_id with_state with_inst]. rewrite Hid, Hne. exact Hx.
  - eapply IH; [exact H | | exact Hn]. cbn. rewrite find_set_task. cbn [t_id with_state with_inst]. rewrite Hid, Hne. exact Hx.
Qed.

(** * [process_retracted] leaves the tasks that are not prefilled alone *)
Lemma retract_states_keeps ids : forall c acc c' acc' x tx,
  retract_states c ids acc = Ok (c', acc') -> find_task (c_tasks c) x = Some tx -> (forall w1, t_state tx <> Prefilled w1) ->
  find_task (c_tasks c') x = Some tx.
Proof.
  induction ids as [|id r IH]; cbn [retract_states]; intros c acc c' acc' x tx H Hx Hn; [inversion H; subst; exact Hx|].
  apply bind_ok in H. destruct H as (t & Ht & H). apply get_task_find in Ht.
  destruct (find_task_some _ _ _ Ht) as [_ Hid].
  destruct (t_state t) eqn:Est; try discriminate.
  apply bind_ok in H. destruct H as (wk & _ & H). apply bind_ok in H. destruct H as (wk' & _ & H).
  eapply IH; [exact H | | exact Hn].
  cbn. rewrite find_set_task. cbn [t_id with_state]. rewrite Hid.
  assert (Hne : tid_eqb x id = false).
  { apply tid_eqb_neq. intros ->. rewrite Ht in Hx. inversion Hx; subst tx. exact (Hn _ Est). }
  rewrite Hne. exact Hx.
Qed.

Lemma process_retracted_keeps s r s' x tx :
  process_retracted s r = Ok s' -> find_task (c_tasks (core_of s)) x = Some tx -> (forall w1, t_state tx <> Prefilled w1) ->
  find_task (c_tasks (core_of s')) x = Some tx.
Proof.
  unfold process_retracted. intros H Hx Hn. destruct r; [inversion H; subst; exact Hx|].
  apply bind_ok in H. destruct H as ([c' groups] & H1 & H). rewrite (send_all_core _ _ _ H). cbn.
  eapply retract_states_keeps; eassumption.
Qed.

(** * [process_worker_lost] *)
Lemma set_waiting_state_tot s t : HOK (hq_of s) -> active s t -> exists s', set_waiting_state s t = Ok s'.
Proof.
  intros Hok (l & Hl & Ha). unfold set_waiting_state, hq_get_job. unfold jt in Hl.
  destruct (find_job (h_jobs (hq_of s)) (fst t)) as [j|] eqn:Ej; [|discriminate]. cbn in Hl. inversion Hl; subst l.
  unfold hq_of in Ej. rewrite Ej. cbn [bind].
  pose proof (Hok _ (find_job_in _ _ _ Ej)) as Hj.
  destruct Ha as [Ha|Ha]; rewrite Ha; [eexists; reflexivity|].
  unfold Reactor.csub. pose proof (cnt_pos _ _ _ Ha) as Hp. rewrite <- (jok_run _ Hj) in Hp.
  destruct (N.ltb (j_nrun j) 1) eqn:El; [apply N.ltb_lt in El; lia|]. cbn [bind]. eexists; reflexivity.
Qed.

Lemma set_waiting_all_tot ts : forall s, HOK (hq_of s) -> (forall t, In t ts -> active s t) -> exists s', set_waiting_all s ts = Ok s'.
Proof.
  induction ts as [|t r IH]; intros s Hok Ha; [eexists; reflexivity|]. cbn [set_waiting_all].
  destruct (set_waiting_state_tot s t Hok (Ha t (or_introl eq_refl))) as (s1 & H1). rewrite H1. cbn [bind].
  apply IH; [eapply set_waiting_state_ok; eassumption|].
  intros x Hx. apply (proj2 (set_waiting_state_active _ _ _ H1)). apply Ha. right. exact Hx.
Qed.

Lemma process_worker_lost_tot s w running reason :
  HOK (hq_of s) -> (forall t, In t running -> active s t) -> exists s', process_worker_lost s w running reason = Ok s'.
Proof.
  intros Hok Ha. unfold process_worker_lost. destruct (set_waiting_all_tot running s Hok Ha) as (s1 & ->). cbn [bind]. eexists; reflexivity.
Qed.
