(** Protocol invariant, part 9: [on_retract_response] as a transition of [SP]. *)
From HQ Require Import Base.Prelude Cluster.Types Cluster.Core Cluster.Reactor Cluster.Worker Cluster.Server Cluster.Sys Cluster.ProofsJob Cluster.ProofsMore Cluster.ProofsTerminal Cluster.ProofsStep Cluster.BijBase Cluster.BijHq Cluster.NoPanicU0 Cluster.NoPanicU1 Cluster.NoPanicU2 Cluster.NoPanicU6 Cluster.NoPanicU7 Cluster.NoPanicU8.
From Coq Require Import ZArith Lia Sorting.Sorted.
Local Open Scope N_scope.

Notation tid_eqb_eq := NoPanicU1.tid_eqb_eq.
Notation tid_eqb_neq := NoPanicU1.tid_eqb_neq.
Notation tid_eqb_refl := NoPanicU1.tid_eqb_refl.
Notation find_set_task := NoPanicU6.find_set_task.

(** * Pending ComputeTasks built from (task, variant) groups *)
Definition ctk (c : core) (ir : tid * N) : ctask :=
  match find_task (c_tasks c) (fst ir) with
  | Some t => ctask_of t (Some (snd ir)) []
  | None => mkCT (fst ir) 0 (Some (snd ir)) 0 false []
  end.
Definition pdc (c : core) (acc : list (wid * list (tid * N))) : list (wid * dmsg) := pg (fun l => DCompute (map (ctk c) l)) acc.
Definition cit (y : tid) (l : list (tid * N)) : list ditem := flat_map (fun ir => sel (fst ir) y (IDC (Some (snd ir)) false)) l.

Lemma ctk_id c ir : ct_id (ctk c ir) = fst ir.
Proof.
  unfold ctk. destruct (find_task (c_tasks c) (fst ir)) as [t|] eqn:E; [|reflexivity]. cbn. exact (proj2 (find_task_some _ _ _ E)).
Qed.
Lemma ctk_rv c ir : ct_rv (ctk c ir) = Some (snd ir).
Proof. unfold ctk. destruct (find_task (c_tasks c) (fst ir)); reflexivity. Qed.
Lemma ctk_nodes c ir : ct_nodes (ctk c ir) = [].
Proof. unfold ctk. destruct (find_task (c_tasks c) (fst ir)); reflexivity. Qed.

Lemma ctk_items c y l : ditems_msg y (DCompute (map (ctk c) l)) = cit y l.
Proof.
  cbn [ditems_msg]. unfold cit. induction l as [|ir r IH]; [reflexivity|]. cbn [map flat_map]. rewrite ctk_id, ctk_rv, ctk_nodes, IH. reflexivity.
Qed.
Lemma ctk_tids c l : dmsg_tids (DCompute (map (ctk c) l)) = map fst l.
Proof. cbn [dmsg_tids]. rewrite map_map. apply map_ext. intros ir. apply ctk_id. Qed.

Lemma ctasks_of_ctk c l cts : ctasks_of c l = Ok cts -> cts = map (ctk c) l.
Proof.
  revert cts. induction l as [|[id rv] r IH]; cbn [ctasks_of]; intros cts H; [inversion H; reflexivity|].
  apply bind_ok in H. destruct H as (t & Ht & H). apply bind_ok in H. destruct H as (rest & Hr & H). inversion H; subst.
  cbn [map]. rewrite (IH _ Hr). f_equal. unfold ctk, get_task in *. cbn [fst snd]. destruct (find_task (c_tasks c) id); inversion Ht; reflexivity.
Qed.

Lemma pdc_items c acc w y : NoDup (map fst acc) ->
  ditems y (msgs_for w (pdc c acc)) = match glook w acc with Some l => cit y l | None => [] end.
Proof.
  intros Hn. unfold pdc. rewrite (msgs_for_pg _ w acc Hn). destruct (glook w acc) as [l|]; [|reflexivity].
  cbn [ditems flat_map]. rewrite app_nil_r. apply ctk_items.
Qed.
Lemma pdc_tids c acc w y : NoDup (map fst acc) ->
  (In y (flat_map dmsg_tids (msgs_for w (pdc c acc))) <-> match glook w acc with Some l => In y (map fst l) | None => False end).
Proof.
  intros Hn. unfold pdc. rewrite (msgs_for_pg _ w acc Hn). destruct (glook w acc) as [l|]; [|cbn; tauto].
  cbn [flat_map]. rewrite app_nil_r, ctk_tids. tauto.
Qed.
Lemma cit_snoc y l id rv : cit y (l ++ [(id, rv)]) = cit y l ++ sel id y (IDC (Some rv) false).
Proof. unfold cit. rewrite flat_map_app. cbn [flat_map fst snd]. rewrite app_nil_r. reflexivity. Qed.

Lemma pdc_add_items c c1 acc tg id rv w y : NoDup (map fst acc) ->
  ditems y (msgs_for w (pdc c1 (group_add tg (id, rv) acc))) =
  ditems y (msgs_for w (pdc c acc)) ++ (if N.eqb tg w then sel id y (IDC (Some rv) false) else []).
Proof.
  intros Hn. rewrite (pdc_items c1 _ w y (group_add_nodup tg (id, rv) acc Hn)), (pdc_items c acc w y Hn), glook_group_add.
  destruct (N.eqb tg w) eqn:E; [|rewrite app_nil_r; reflexivity]. apply N.eqb_eq in E. subst w.
  destruct (glook tg acc) as [l|]; [apply cit_snoc | rewrite cit_snoc; reflexivity].
Qed.

(** the groups name live tasks with a known request class and variant 0 *)
Definition GOK (c : core) (acc : list (wid * list (tid * N))) : Prop :=
  forall tg l ir, In (tg, l) acc -> In ir l ->
    snd ir = 0 /\ exists t, find_task (c_tasks c) (fst ir) = Some t /\ (N.to_nat (t_rq t) < length (c_rqs c))%nat.

Lemma glook_in {A} w (acc : list (wid * list A)) l : glook w acc = Some l -> In (w, l) acc.
Proof.
  induction acc as [|[k v] r IH]; cbn [glook]; [discriminate|]. destruct (N.eqb k w) eqn:E.
  - apply N.eqb_eq in E. subst k. intros H; inversion H; subst. left. reflexivity.
  - intros H. right. apply IH. exact H.
Qed.

Lemma group_add_in {A} w (x : A) acc tg l : In (tg, l) (group_add w x acc) ->
  (In (tg, l) acc) \/ (tg = w /\ exists l0, l = l0 ++ [x] /\ (l0 = [] \/ In (w, l0) acc)).
Proof.
  induction acc as [|[k v] r IH]; cbn [group_add In].
  - intros [H|[]]. inversion H; subst. right. split; [reflexivity|]. exists []. auto.
  - destruct (N.eqb k w) eqn:E.
    + apply N.eqb_eq in E. subst k. intros [H|H]; [|left; right; exact H]. inversion H; subst. right. split; [reflexivity|]. exists v. split; [reflexivity|]. right. left. reflexivity.
    + intros [H|H]; [left; left; exact H|]. destruct (IH H) as [H1|(E1 & l0 & E2 & [E3|E3])]; [left; right; exact H1 | |].
      * right. split; [exact E1|]. exists l0. auto.
      * right. split; [exact E1|]. exists l0. split; [exact E2|]. right. right. exact E3.
Qed.

(** * Tables when compute messages are pending *)
Lemma down_ok_prefix rqs a : forall b n, down_ok rqs n (a ++ b) = true -> down_ok rqs n a = true.
Proof.
  induction a as [|m r IH]; intros b n H; [reflexivity|]. cbn [app] in H. destruct m; cbn [down_ok] in *; try (eapply IH; exact H).
  - apply andb_true_iff in H. destruct H as [H1 H2]. rewrite H1. eapply IH; exact H2.
  - apply andb_true_iff in H. destruct H as [H1 H2]. rewrite H1. eapply IH; exact H2.
Qed.
Lemma down_ok_snoc_compute rqs cts a : forall n, down_ok rqs n (a ++ [DCompute cts]) =
  down_ok rqs n a && forallb (ct_ok rqs (n + N.of_nat (length (newrq_defs a)))) cts.
Proof.
  induction a as [|m r IH]; intros n; cbn [app].
  - cbn [down_ok newrq_defs flat_map length]. rewrite N.add_0_r, andb_true_r. reflexivity.
  - destruct m; cbn [down_ok]; rewrite ?IH; unfold newrq_defs; cbn [flat_map app length]; fold (newrq_defs r); rewrite ?andb_assoc; try reflexivity.
    f_equal. f_equal. f_equal. lia.
Qed.

Lemma ctk_ok c ir : snd ir = 0 -> (exists t, find_task (c_tasks c) (fst ir) = Some t /\ (N.to_nat (t_rq t) < length (c_rqs c))%nat) ->
  ct_ok (c_rqs c) (N.of_nat (length (c_rqs c))) (ctk c ir) = true.
Proof.
  intros Hrv (t & Ht & Hlt). unfold ct_ok, ctk. rewrite Ht. cbn [ctask_of ct_rv ct_rq ct_nodes is_nil orb]. rewrite Hrv, N.eqb_refl, andb_true_r. cbn [andb].
  apply N.ltb_lt. lia.
Qed.

Lemma tab_pending X s pum pd w p msgs' :
  SP X s pum pd -> find_proc (s_procs (fst s)) w = Some p -> newrq_defs (msgs_for w pd) = [] ->
  (msgs' = [] \/ exists cts, msgs' = [DCompute cts] /\ forallb (ct_ok (c_rqs (core_of s)) (N.of_nat (length (c_rqs (core_of s))))) cts = true) ->
  down_ok (c_rqs (core_of s)) (N.of_nat (length (p_rqs p))) (p_down p ++ msgs') = true /\ newrq_defs msgs' = [].
Proof.
  intros HS Hp Hn Hm. pose proof (down_ok_prefix _ _ _ _ (sp_down _ _ _ _ HS _ _ Hp)) as Hd.
  pose proof (sp_tab _ _ _ _ HS _ _ Hp) as Ht. rewrite newrq_app, Hn, app_nil_r in Ht.
  destruct Hm as [->|(cts & -> & Hc)]; [rewrite app_nil_r; auto|]. split; [|reflexivity].
  rewrite down_ok_snoc_compute, Hd. cbn [andb].
  replace (N.of_nat (length (p_rqs p)) + N.of_nat (length (newrq_defs (p_down p)))) with (N.of_nat (length (c_rqs (core_of s)))); [exact Hc|].
  rewrite <- Ht, app_length. lia.
Qed.

Lemma pdc_newrq c acc w : NoDup (map fst acc) -> newrq_defs (msgs_for w (pdc c acc)) = [].
Proof. intros Hn. unfold pdc. rewrite (msgs_for_pg _ w acc Hn). destruct (glook w acc); reflexivity. Qed.

Lemma pdc_msgs c acc w : NoDup (map fst acc) -> GOK c acc ->
  msgs_for w (pdc c acc) = [] \/ exists cts, msgs_for w (pdc c acc) = [DCompute cts] /\ forallb (ct_ok (c_rqs c) (N.of_nat (length (c_rqs c)))) cts = true.
Proof.
  intros Hn Hg. unfold pdc. rewrite (msgs_for_pg _ w acc Hn). destruct (glook w acc) as [l|] eqn:E; [right | left; reflexivity].
  eexists. split; [reflexivity|]. apply forallb_forall. intros ct Hct. apply in_map_iff in Hct. destruct Hct as (ir & <- & Hir).
  destruct (Hg _ _ _ (glook_in _ _ _ E) Hir) as [A B]. apply ctk_ok; assumption.
Qed.

(** * The response being processed *)
Definition pum_rr (w0 : wid) (ids : list tid) : wid -> list umsg := fun w => if N.eqb w w0 then [URetractResponse ids] else [].
Lemma pum_rr_items w0 id r w y : uitems y (pum_rr w0 (id :: r) w) = (if N.eqb w w0 then sel id y IRR else []) ++ uitems y (pum_rr w0 r w).
Proof. unfold pum_rr. destruct (N.eqb w w0); [|reflexivity]. cbn [uitems flat_map uitems_msg]. rewrite !app_nil_r. reflexivity. Qed.
Lemma pum_rr_tids w0 id r w y : In y (flat_map umsg_tids (pum_rr w0 r w)) -> In y (flat_map umsg_tids (pum_rr w0 (id :: r) w)).
Proof. unfold pum_rr. destruct (N.eqb w w0); [|auto]. cbn [flat_map umsg_tids]. rewrite !app_nil_r. intros H. right. exact H. Qed.
Lemma pum_rr_ne w0 a b w : pum_rr w0 a w <> [] -> pum_rr w0 b w <> [].
Proof. unfold pum_rr. destruct (N.eqb w w0); [discriminate | auto]. Qed.

Lemma find_redirect_in rs id v : find_redirect rs id = Some v -> In (id, v) rs.
Proof.
  induction rs as [|[k v0] r IH]; cbn [find_redirect]; [discriminate|].
  destruct (tid_eqb id k) eqn:E; [apply tid_eqb_eq in E; subst; intros H; inversion H; left; reflexivity | intros H; right; apply IH; exact H].
Qed.

Lemma GOK_frame c c' acc : c_rqs c' = c_rqs c ->
  (forall y t, find_task (c_tasks c) y = Some t -> exists t', find_task (c_tasks c') y = Some t' /\ t_rq t' = t_rq t) ->
  GOK c acc -> GOK c' acc.
Proof.
  intros Er Hf Hg tg l ir H1 H2. destruct (Hg _ _ _ H1 H2) as (A & t & B & C). split; [exact A|].
  destruct (Hf _ _ B) as (t' & B' & E). exists t'. rewrite Er, E. auto.
Qed.

Lemma ctk_frame c c' : (forall y, option_map (fun t => (t_id t, t_inst t, t_rq t, t_tlim t)) (find_task (c_tasks c') y)
                                  = option_map (fun t => (t_id t, t_inst t, t_rq t, t_tlim t)) (find_task (c_tasks c) y)) ->
  forall ir, ctk c' ir = ctk c ir.
Proof.
  intros H ir. unfold ctk. specialize (H (fst ir)). destruct (find_task (c_tasks c') (fst ir)) as [t'|], (find_task (c_tasks c) (fst ir)) as [t|]; cbn in H; try discriminate; [|reflexivity].
  inversion H. unfold ctask_of. congruence.
Qed.

(** * [retract_response_states] *)
Lemma rr_head X s w id r pd t p :
  SP X s (pum_rr w (id :: r)) pd -> find_task (c_tasks (core_of s)) id = Some t -> X id = false ->
  find_proc (s_procs (fst s)) w = Some p ->
  t_state t = Retracting w /\
  lang VN (uitems id (pum_rr w r w ++ p_up p)) (local p id) (ditems id (p_down p ++ msgs_for w pd)) = true.
Proof.
  intros HS Ef HX Hp. pose proof (sp_words _ _ _ _ HS w p id t Hp Ef HX) as Hl.
  rewrite uitems_app, pum_rr_items, N.eqb_refl, sel_same, <- app_assoc, <- uitems_app in Hl. cbn [app] in Hl.
  destruct (LS_rr _ _ _ _ Hl) as [Ev Hl2]. split; [eapply view_VT; exact Ev | exact Hl2].
Qed.

Lemma pum_rr_proc X s w ids pd : SP X s (pum_rr w ids) pd -> exists p, find_proc (s_procs (fst s)) w = Some p.
Proof.
  intros HS. pose proof (sp_pum _ _ _ _ HS w) as H. unfold pum_rr in H. rewrite N.eqb_refl in H.
  destruct (find_proc (s_procs (fst s)) w) as [p|]; [eauto | exfalso; apply H; [discriminate | reflexivity]].
Qed.

Lemma rrs_SP s w ids : forall c acc c' acc',
  SP x0 (st_core s c) (pum_rr w ids) (pdc c acc) -> NoDup (map fst acc) -> GOK c acc ->
  retract_response_states c w ids acc = (c', acc') ->
  SP x0 (st_core s c') (pum_rr w []) (pdc c' acc') /\ NoDup (map fst acc') /\ GOK c' acc'.
Proof.
  induction ids as [|id r IH]; cbn [retract_response_states]; intros c acc c' acc' HS Hn Hg H; [inversion H; subst; auto|].
  destruct (pum_rr_proc _ _ _ _ _ HS) as (p & Hp).
  change (core_of (st_core s c)) with c in *.
  (* skipping the head *)
  assert (Hskip : (forall t, find_task (c_tasks c) id = Some t -> t_state t <> Retracting w) ->
                  retract_response_states c w r acc = (c', acc') ->
                  SP x0 (st_core s c') (pum_rr w []) (pdc c' acc') /\ NoDup (map fst acc') /\ GOK c' acc').
  { intros Hno H'. apply (IH c acc c' acc'); [|exact Hn | exact Hg | exact H'].
    destruct (find_task (c_tasks c) id) as [t|] eqn:Ef.
    - exfalso. destruct (rr_head _ _ _ _ _ _ _ _ HS Ef eq_refl Hp) as [E _]. exact (Hno t eq_refl E).
    - apply (SP_show_absent x0 _ _ _ id); [|reflexivity | exact Ef].
      apply (SP_hide_pum x0 _ (pum_rr w (id :: r)) _ _ id HS).
      + intros w' y Hy. rewrite pum_rr_items, sel_other by congruence. destruct (N.eqb w' w); reflexivity.
      + intros w' y. apply pum_rr_tids.
      + intros w'. apply pum_rr_ne. }
  destruct (find_task (c_tasks c) id) as [t|] eqn:Ef; [|apply Hskip; [intros t0 X; discriminate | exact H]].
  destruct (t_state t) as [n|w1 rv1|w1|w1|w1 rv1|ws|] eqn:Est;
    try (apply Hskip; [intros t0 X; inversion X; subst t0; rewrite Est; discriminate | exact H]).
  destruct (N.eqb w w1) eqn:Ew; [|apply Hskip; [intros t0 X; inversion X; subst t0; rewrite Est; intros Y; inversion Y; subst; rewrite N.eqb_refl in Ew; discriminate | exact H]].
  apply N.eqb_eq in Ew. subst w1.
  destruct (find_task_some _ _ _ Ef) as [_ Eid].
  destruct (rr_head _ _ _ _ _ _ _ _ HS Ef eq_refl Hp) as [_ Hl2].
  pose proof (sp_mnt _ _ _ _ HS _ _ Ef eq_refl) as Hm.
  assert (Hrqlt : (N.to_nat (t_rq t) < length (c_rqs c))%nat).
  { unfold mn_task_ok in Hm. rewrite Est in Hm. change (core_of (st_core s c)) with c in Hm.
    destruct (nth_error (c_rqs c) (N.to_nat (t_rq t))) eqn:E; [|discriminate]. apply nth_error_Some. congruence. }
  (* the general step *)
  assert (Hstep : forall st' c1 acc1,
      (forall y, find_task (c_tasks c1) y = if tid_eqb y id then Some (with_state t st') else find_task (c_tasks c) y) ->
      c_rqs c1 = c_rqs c -> (forall r0, In r0 (c_redirects c1) -> In r0 (c_redirects c)) -> tsorted c1 ->
      ((st' = Waiting 0 /\ acc1 = acc) \/ (exists tg rv, st' = Assigned tg rv /\ rv = 0 /\ acc1 = group_add tg (id, rv) acc)) ->
      SP x0 (st_core s c1) (pum_rr w r) (pdc c1 acc1) /\ NoDup (map fst acc1) /\ GOK c1 acc1).
  { intros st' c1 acc1 Hfind Erq Hred Hcs1 Hcase.
    assert (Hn1 : NoDup (map fst acc1)) by (destruct Hcase as [[_ ->]|(tg & rv & _ & _ & ->)]; [exact Hn | apply group_add_nodup; exact Hn]).
    assert (Hctk : forall ir, ctk c1 ir = ctk c ir).
    { apply ctk_frame. intros y. rewrite Hfind. destruct (tid_eqb y id) eqn:E; [|reflexivity]. apply tid_eqb_eq in E. subst y. rewrite Ef. reflexivity. }
    assert (Hg1 : GOK c1 acc1).
    { assert (G0 : GOK c1 acc).
      { eapply GOK_frame; [exact Erq | | exact Hg]. intros y ty Hy. rewrite Hfind. destruct (tid_eqb y id) eqn:E; [|eauto].
        apply tid_eqb_eq in E. subst y. rewrite Ef in Hy. inversion Hy; subst ty. eexists. split; reflexivity. }
      destruct Hcase as [[_ ->]|(tg & rv & _ & Erv & ->)]; [exact G0|].
      intros tg0 l ir H1 H2. destruct (group_add_in _ _ _ _ _ H1) as [H3|(-> & l0 & -> & Hl0)]; [eapply G0; eassumption|].
      apply in_app_iff in H2. destruct H2 as [H2|[<-|[]]].
      - destruct Hl0 as [->|Hl0]; [destruct H2 | eapply G0; eassumption].
      - cbn [fst snd]. split; [exact Erv|]. rewrite Hfind, tid_eqb_refl. eexists. split; [reflexivity|]. cbn [with_state t_rq]. rewrite Erq. exact Hrqlt. }
    split; [|split; assumption].
    assert (Hitems : forall w' y, ditems y (msgs_for w' (pdc c1 acc1)) =
                                  ditems y (msgs_for w' (pdc c acc)) ++ match st' with Assigned tg rv => if N.eqb tg w' then sel id y (IDC (Some rv) false) else [] | _ => [] end).
    { intros w' y. destruct Hcase as [[-> ->]|(tg & rv & -> & _ & ->)].
      - rewrite app_nil_r, (pdc_items c1 acc w' y Hn), (pdc_items c acc w' y Hn). reflexivity.
      - apply pdc_add_items. exact Hn. }
    change (st_core s c1) with (mkSys c1 (hq_of (st_core s c)) (s_procs (fst (st_core s c))), snd (st_core s c)).
    apply (SP_gen (fun y => tid_eqb y id) x0 x0 (st_core s c) (pum_rr w (id :: r)) (pdc c acc) c1 _ _ (pum_rr w r) (pdc c1 acc1) HS Hcs1 Erq).
    - intros r0 Hr0. apply (sp_rvr _ _ _ _ HS). apply Hred. exact Hr0.
    - intros y ty E Hy _. rewrite Hfind, E in Hy. exists ty. repeat split; assumption.
    - intros w' y E. apply tid_eqb_neq in E. split.
      + rewrite pum_rr_items, sel_other by congruence. destruct (N.eqb w' w); reflexivity.
      + rewrite Hitems. destruct st' as [| tg rv | | | | |]; rewrite ?app_nil_r; try reflexivity. destruct (N.eqb tg w'); rewrite ?sel_other by congruence; rewrite app_nil_r; reflexivity.
    - auto.
    - intros y ty Hy. rewrite Hfind in Hy. change (core_of (st_core s c)) with c. destruct (tid_eqb y id) eqn:E; [apply tid_eqb_eq in E; subst y|]; congruence.
    - intros w' p' y Hp' [Hy|Hy].
      + eapply (sp_seen _ _ _ _ HS); [exact Hp' | right; left; apply pum_rr_tids; exact Hy].
      + apply (pdc_tids c1 acc1 w' y Hn1) in Hy. destruct (glook w' acc1) as [l|] eqn:El; [|destruct Hy].
        apply in_map_iff in Hy. destruct Hy as (ir & <- & Hir). destruct (Hg1 _ _ _ (glook_in _ _ _ El) Hir) as (_ & t1 & Ht1 & _).
        rewrite Hfind in Ht1. destruct (tid_eqb (fst ir) id) eqn:E; [apply tid_eqb_eq in E; rewrite E; eapply (sp_pres _ _ _ _ HS); exact Ef | eapply (sp_pres _ _ _ _ HS); exact Ht1].
    - intros w' p' Hp'. rewrite (pdc_newrq c acc w' Hn), Erq. change c with (core_of (st_core s c)) at 1.
      apply (tab_pending x0 (st_core s c) _ _ w' p' _ HS Hp' (pdc_newrq c acc w' Hn)).
      destruct (pdc_msgs c1 acc1 w' Hn1 Hg1) as [E|(cts & E & Hc)]; [left; exact E | right; exists cts; split; [exact E|]].
      change (core_of (st_core s c)) with c. rewrite <- Erq. exact Hc.
    - intros w'. apply pum_rr_ne.
    - intros x tx E Hx _. apply tid_eqb_eq in E. subst x. rewrite Hfind, tid_eqb_refl in Hx. inversion Hx; subst tx. clear Hx.
      change (hq_of (st_core s c)) with (hq_of s) in *.
      split; [exact (sp_act _ _ _ _ HS _ _ Ef eq_refl)|]. split; [|split; [|split]].
      + unfold mn_task_ok in *. cbn [with_state t_state t_rq]. rewrite Erq. rewrite Est in Hm.
        destruct Hcase as [[-> _]|(tg & rv & -> & _ & _)]; [reflexivity | exact Hm].
      + pose proof (sp_jr _ _ _ _ HS _ _ Ef eq_refl) as J. unfold jr_ok in *. rewrite Est in J. cbn [with_state t_state t_id].
        destruct Hcase as [[-> _]|(tg & rv & -> & _ & _)]; exact J.
      + intros w1 rv1 E1. cbn [with_state t_state] in E1. destruct Hcase as [[-> _]|(tg & rv & -> & Erv & _)]; [discriminate | inversion E1; subst; reflexivity].
      + intros w' p' Hp'. cbn [with_state t_state].
        pose proof (sp_words _ _ _ _ HS w' p' id t Hp' Ef eq_refl) as Hw. rewrite Est in Hw. cbn [view_of] in Hw.
        rewrite uitems_app, pum_rr_items, sel_same in Hw. rewrite uitems_app.
        assert (HVN : lang VN (uitems id (pum_rr w r w') ++ uitems id (p_up p')) (local p' id) (ditems id (p_down p' ++ msgs_for w' (pdc c acc))) = true).
        { destruct (N.eqb w' w) eqn:E.
          - apply N.eqb_eq in E. subst w'. rewrite N.eqb_refl in Hw. cbn [app] in Hw. exact (proj2 (LS_rr _ _ _ _ Hw)).
          - rewrite (N.eqb_sym w w'), E in Hw. cbn [app] in Hw. exact Hw. }
        rewrite ditems_app, Hitems.
        destruct Hcase as [[-> _]|(tg & rv & -> & _ & _)]; cbn [view_of].
        * rewrite app_nil_r, <- ditems_app. exact HVN.
        * rewrite sel_same. destruct (N.eqb tg w'); [rewrite app_assoc, <- ditems_app; apply LA_asg; exact HVN | rewrite app_nil_r, <- ditems_app; exact HVN]. }
  destruct (find_redirect (c_redirects c) id) as [[tg rv]|] eqn:Er.
  - set (c1 := upd_task (with_redirects c (del_redirect (c_redirects c) id)) (with_state t (Assigned tg rv))) in *.
    destruct (Hstep (Assigned tg rv) c1 (group_add tg (id, rv) acc)) as (S1 & N1 & G1).
    + intros y. unfold c1. rewrite find_upd_task. cbn [with_state t_id with_redirects c_tasks]. rewrite Eid. reflexivity.
    + reflexivity.
    + unfold c1. cbn [upd_task with_tasks with_redirects c_redirects]. intros r0. apply del_redirect_in.
    + unfold tsorted, c1. cbn [upd_task with_tasks with_redirects c_tasks]. apply set_task_sorted. exact (sp_cs _ _ _ _ HS).
    + right. exists tg, rv. split; [reflexivity|]. split; [|reflexivity].
      exact (sp_rvr _ _ _ _ HS _ (find_redirect_in _ _ _ Er)).
    + apply (IH c1 _ c' acc' S1 N1 G1 H).
  - set (c1 := upd_task c (with_state t (Waiting 0))) in *.
    destruct (Hstep (Waiting 0) c1 acc) as (S1 & N1 & G1).
    + intros y. unfold c1. rewrite find_upd_task. cbn [with_state t_id]. rewrite Eid. reflexivity.
    + reflexivity.
    + auto.
    + unfold tsorted, c1. cbn [upd_task with_tasks c_tasks]. apply set_task_sorted. exact (sp_cs _ _ _ _ HS).
    + left. split; reflexivity.
    + apply (IH c1 _ c' acc' S1 N1 G1 H).
Qed.

(** * [send_redirected] / [on_retract_response] *)
Lemma send_worker_core' s w m s' : send_worker s w m = Ok s' -> core_of s' = core_of s.
Proof. unfold send_worker. destruct (find_proc _ w); [|discriminate]. intros H; inversion H; reflexivity. Qed.

Lemma send_redirected_SP X pum gs : forall s s', SP X s pum (pdc (core_of s) gs) -> send_redirected s gs = Ok s' -> SP X s' pum [].
Proof.
  induction gs as [|[tg ts] r IH]; cbn [send_redirected]; intros s s' HS H; [inversion H; subst; exact HS|].
  apply bind_ok in H. destruct H as (cts & Hc & H). apply bind_ok in H. destruct H as (s1 & H1 & H).
  rewrite (ctasks_of_ctk _ _ _ Hc) in H1. apply (IH s1 s'); [|exact H].
  rewrite (send_worker_core' _ _ _ _ H1). eapply SP_send; [|exact H1]. exact HS.
Qed.

Lemma SP_pum_clear X s pum pd : SP X s pum pd -> (forall w y, uitems y (pum w) = []) -> SP X s no_pum pd.
Proof.
  intros HS Hi.
  apply (SP_ext _ (mkSys (core_of s) (hq_of s) (s_procs (fst s)), snd s) s); [|reflexivity|reflexivity|reflexivity].
  apply (SP_gen (fun _ => false) X X s pum pd (core_of s) (hq_of s) (snd s) no_pum pd HS (sp_cs _ _ _ _ HS) eq_refl (sp_rvr _ _ _ _ HS)).
  - intros y t' _ Hy HX. exists t'. repeat split; assumption.
  - intros w y _. split; [rewrite Hi; reflexivity | reflexivity].
  - auto.
  - intros y t' Hy. congruence.
  - intros w p y Hp [[]|Hy]. eapply (sp_seen _ _ _ _ HS); [exact Hp | right; right; exact Hy].
  - intros w p Hp. split; [exact (sp_down _ _ _ _ HS _ _ Hp) | reflexivity].
  - intros w Hw. exfalso. apply Hw. reflexivity.
  - intros x t' E. discriminate.
Qed.

Lemma on_retract_response_SP s w ids s' : SP x0 s (pum_rr w ids) [] -> on_retract_response s w ids = Ok s' -> SP x0 s' no_pum [].
Proof.
  intros HS H. unfold on_retract_response in H.
  destruct (retract_response_states (core_of s) w ids []) as [c' groups] eqn:Er.
  destruct (rrs_SP s w ids (core_of s) [] c' groups) as (S1 & _ & _); [| constructor | intros tg l ir [] | exact Er |].
  - eapply SP_ext; [exact HS | | |]; reflexivity.
  - apply bind_ok in H. destruct H as (s2 & H & H2).
    assert (S2 : SP x0 s2 no_pum []).
    { apply (SP_pum_clear x0 s2 (pum_rr w [])).
      + eapply send_redirected_SP; [|exact H]. exact S1.
      + intros w' y. unfold pum_rr. destruct (N.eqb w' w); reflexivity. }
    destruct (retract_wakes _ _ _ _); inversion H2; subst s'; [apply SP_ask|]; exact S2.
Qed.
