(** The queue invariant, part 9: [on_remove_worker].  This is the one place where a fact about the
    worker sets is needed ([asg_ok]): the ids of the lost worker's assigned set are re-queued
    unconditionally, so none of them may be a Prefilled task. *)
From HQ Require Import Base.Prelude Cluster.Types Cluster.Core Cluster.Reactor Cluster.Worker Cluster.Server Cluster.Sys Cluster.Monitors Cluster.ProofsJob Cluster.ProofsMore Cluster.ProofsTerminal Cluster.ProofsStep Cluster.BijBase Cluster.BijCore Cluster.BijHq Cluster.BijSt Cluster.BijReact Cluster.FrameGen Cluster.CrashFrame Cluster.InvQBase Cluster.InvQTake Cluster.InvQInv Cluster.InvQOps Cluster.InvQReact Cluster.InvQReact2 Cluster.InvQReact3 Cluster.InvQServer.
From Coq Require Import ZArith Lia Sorting.Sorted.
Local Open Scope N_scope.

Arguments N.add : simpl never.
Arguments N.sub : simpl never.

Lemma find_worker_in ws w wk : find_worker ws w = Some wk -> In wk ws.
Proof.
  induction ws as [|h r IH]; cbn [find_worker]; [discriminate|].
  destruct (N.eqb w (w_id h)); [intros H; inversion H; left; reflexivity | intros H; right; apply IH; exact H].
Qed.

Lemma perm_of_set_mem order ts x : perm_of_set order ts = true -> In x order -> tid_mem x ts = true.
Proof.
  unfold perm_of_set. intros H Hx. apply andb_true_iff in H. destruct H as [H _]. apply andb_true_iff in H. destruct H as [_ H].
  rewrite forallb_forall in H. apply H. exact Hx.
Qed.

Lemma on_remove_worker_QI s w reason a p t s' :
  HOK (hq_of s) -> CB s -> asg_ok (core_of s) -> QI none [] (core_of s) ->
  on_remove_worker s w reason a p t = Ok s' -> QI none [] (core_of s').
Proof.
  intros Hok HC Hasg V H. unfold on_remove_worker in H.
  destruct (find_worker (c_workers (core_of s)) w) as [wk|] eqn:Ew; [|discriminate].
  apply bind_ok in H. destruct H as ([[c2 running] retracted] & Hr & H).
  (* the task keys (copied from [on_remove_worker_CB]) *)
  assert (E2 : keys c2 = K s).
  { set (c0 := with_workers (core_of s) (del_worker (c_workers (core_of s)) w)) in *.
    assert (Hs0 : CS c0) by exact (cb_s _ HC).
    destruct (w_assign wk).
    - destruct (negb _); [discriminate|]. apply bind_ok in Hr. destruct Hr as (c1 & Hp & Hr).
      pose proof (lost_prefilled_frame _ _ _ Hs0 Hp) as E1.
      rewrite (lost_assigned_frame _ _ _ _ _ _ _ (CS_keys _ _ E1 Hs0) Hr). exact E1.
    - apply bind_ok in Hr. destruct Hr as (tk & Ht & Hr).
      destruct (t_state tk); try discriminate. destruct ws as [|w0 rest]; [discriminate|].
      destruct (N.eqb w w0).
      + apply bind_ok in Hr. destruct Hr as (c1 & Hc1 & Hr). apply bind_ok in Hr. destruct Hr as ([qs ret] & _ & Hr).
        inversion Hr; subst.
        pose proof (reset_mn_all_frame _ _ _ Hc1) as E1.
        pose proof (reset_mn_all_tasks _ _ _ Hc1) as T1.
        change (keys (upd_task c1 (with_inst (with_state tk (Waiting 0)) (t_inst tk + 1))) = K s).
        transitivity (keys c1); [|exact E1].
        apply (upd_task_frame c1 t0 tk); [eapply CS_keys; [exact E1 | exact Hs0] | rewrite T1; apply get_task_find; exact Ht | reflexivity | reflexivity].
      + inversion Hr; subst.
        apply (upd_task_frame c0 t0 tk); [exact Hs0 | apply get_task_find; exact Ht | reflexivity | reflexivity]. }
  (* the queue invariant up to the pending retractions *)
  assert (V2 : QI (exL Ready retracted none) [] c2).
  { set (c0 := with_workers (core_of s) (del_worker (c_workers (core_of s)) w)) in *.
    assert (V0 : QI none [] c0) by exact V.
    destruct (w_assign wk) as [asg pre fr|mt root] eqn:Ea.
    - destruct (perm_of_set a asg && perm_of_set p pre) eqn:Eperm; [|discriminate]. cbn [negb] in Hr.
      apply andb_true_iff in Eperm. destruct Eperm as [Pa _].
      apply bind_ok in Hr. destruct Hr as (c1 & Hp & Hr).
      destruct (lost_prefilled_QI _ _ _ V0 Hp) as [V1 P1].
      eapply (lost_assigned_QI a c1 [] []); [exact V1 | | exact Hr].
      intros id tk Hin Hf wp Hst. destruct (P1 _ _ _ Hf Hst) as (tk0 & Hf0 & Hst0).
      exact (Hasg wk asg pre fr id tk0 (find_worker_in _ _ _ Ew) Ea (perm_of_set_mem _ _ _ Pa Hin) Hf0 wp Hst0).
    - apply bind_ok in Hr. destruct Hr as (tk & Ht & Hr). apply get_task_find in Ht.
      destruct (t_state tk) as [| | | | |ws|] eqn:Est; try discriminate. destruct ws as [|w0 rest]; [discriminate|].
      destruct (N.eqb w w0).
      + apply bind_ok in Hr. destruct Hr as (c1 & Hc1 & Hr). apply bind_ok in Hr. destruct Hr as ([qs ret] & Ha & Hr).
        inversion Hr; subst c2 running retracted; clear Hr.
        pose proof (reset_mn_all_qsame _ _ _ Hc1) as Hs. pose proof (QI_same _ _ _ _ Hs V0) as V1. destruct Hs as (T1 & _ & R1 & _).
        rewrite <- T1 in Ht. qi_simpl.
        eapply QV_ext.
        * eapply QV_requeue; [exact V1 | exact Ht | exact (find_task_id _ _ _ Ht) | reflexivity | reflexivity | | | reflexivity | cbn; discriminate | exact Ha].
          -- unfold exp_place, none. rewrite Est. discriminate.
          -- eapply QV_no_redirect; [exact V1 | exact Ht | intros w1; congruence].
        * intros x tx _. unfold exL, exR, none. destruct (tid_mem x ret); [reflexivity|]. destruct (tid_eqb x mt); reflexivity.
      + inversion Hr; subst c2 running retracted; clear Hr. qi_simpl.
        eapply QV_task0; [exact V0 | exact Ht | exact (find_task_id _ _ _ Ht) | reflexivity | reflexivity | reflexivity | | |].
        * unfold exp_place, none. rewrite Est. reflexivity.
        * intros v Hv. exfalso. rewrite (QV_no_redirect _ _ _ _ _ _ _ _ V0 Ht) in Hv; [discriminate | intros w1; congruence].
        * cbn. discriminate. }
  destruct (negb (perm_of_set t _)); [discriminate|].
  apply bind_ok in H. destruct H as (s3 & H3 & H). apply bind_ok in H. destruct H as (s4 & H4 & H).
  apply bind_ok in H. destruct H as (s6 & H6 & H). apply bind_ok in H. destruct H as (s7 & H7 & H). inversion H; subst; clear H.
  match type of H3 with lost_retracting ?sx _ _ = _ => set (s2 := sx) in * end.
  (* CB along the way (copied from [on_remove_worker_CB]) *)
  assert (HC2 : CB s2) by (eapply CB_same; [exact E2 | reflexivity | exact HC]).
  pose proof (lost_retracting_K _ _ _ _ (cb_s _ HC2) H3) as K3. pose proof (lost_retracting_same _ _ _ _ H3) as Q3.
  assert (HC3 : CB s3) by (eapply CB_same; [exact K3 | exact Q3 | exact HC2]).
  pose proof (process_retracted_K _ _ _ (cb_s _ HC3) H4) as K4. pose proof (process_retracted_hq _ _ _ H4) as Q4.
  assert (HC4 : CB s4) by (eapply CB_same; [exact K4 | exact Q4 | exact HC3]).
  assert (HC5 : CB (broadcast s4 (DLostWorker w))) by (eapply CB_same; [| |exact HC4]; reflexivity).
  destruct (process_worker_lost_active _ _ _ _ _ H6) as [C6 A6].
  assert (HC6 : CB s6) by (eapply CB_frame; [unfold K; rewrite C6; reflexivity | exact A6 | exact HC5]).
  assert (Hok6 : HOK (hq_of s6)).
  { eapply process_worker_lost_ok; [|exact H6]. change (HOK (hq_of s4)). unfold hq_same in Q3. rewrite Q4, Q3. exact Hok. }
  (* the queue invariant along the way *)
  assert (V3 : QI (exL Ready retracted none) [] (core_of s3)) by (eapply lost_retracting_QI; [|exact H3]; exact V2).
  pose proof (process_retracted_QI [] _ _ _ V3 H4) as V4.
  assert (V6 : QI none [] (core_of s6)) by (unfold core_same in C6; rewrite C6; exact V4).
  pose proof (lost_fail_running_QI _ _ _ _ Hok6 HC6 V6 H7) as V7.
  exact V7.
Qed.
