(** Proofs about the tako core model: reservation arithmetic (C05), crash-limit and failure rules
    (C07, C14), cancel idempotence (C08), priority order of the ready queue. *)
From HQ Require Import Base.Prelude Cluster.Types Cluster.Core Cluster.Reactor Cluster.Worker Cluster.Server Cluster.Sys Cluster.Monitors Cluster.ProofsJob.
From Coq Require Import ZArith Lia.
Require Import ZifyBool ZifyN ZifyNat.
Local Open Scope N_scope.

Arguments N.add : simpl never.
Arguments N.sub : simpl never.

(** * C05: reservations *)

(** If a request fits the free resources, reserving and releasing it restores them exactly
    (no saturation is involved). *)
Lemma res_sub_add have ask : res_fits have ask = true -> length ask = length have -> res_add (res_sub have ask) ask = have.
Proof.
  revert ask; induction have as [|h ht IH]; intros [|a at_]; cbn [res_fits res_sub res_add length]; try discriminate; auto.
  intros H Hl. apply andb_true_iff in H. destruct H as [H1 H2]. f_equal; [lia|]. apply IH; [exact H2 | lia].
Qed.

(** The capped add-back ([WorkerResources::add] after the drift repair) is the plain one as long as
    the result stays within the cap. *)
Lemma res_add_cap_id have ask cap : Forall2 (fun x c => x <= c) (res_add have ask) cap -> res_add_cap have ask cap = res_add have ask.
Proof.
  revert ask cap; induction have as [|h ht IH]; intros [|a at_] cap H; cbn [res_add res_add_cap] in *; try reflexivity.
  inversion H as [|x c l l' Hxc Hr]; subst. f_equal; [lia | apply IH; exact Hr].
Qed.

Lemma res_fits_sub_le have ask : res_fits have ask = true -> length ask = length have ->
  Forall2 (fun f h => f <= h) (res_sub have ask) have.
Proof.
  revert ask; induction have as [|h ht IH]; intros [|a at_]; cbn [res_fits res_sub length]; try discriminate; auto.
  intros H Hl. apply andb_true_iff in H. destruct H as [H1 H2]. constructor; [lia|]. apply IH; [exact H2 | lia].
Qed.

(** [insert_sn_task] followed by [remove_sn_task] of the same task and request is the identity on
    a worker whose free resources could hold the request. *)
Theorem reservation_roundtrip w t rq w1 w2 a p f :
  w_assign w = Sn a p f -> tid_mem t a = false -> res_fits f rq = true -> length rq = length f ->
  Forall2 (fun x c => x <= c) f (w_res w) ->
  insert_sn_task w t rq = Ok w1 -> remove_sn_task w1 t rq = Ok w2 ->
  w_assign w2 = Sn (tid_remove t (tid_insert t a)) p f.
Proof.
  intros Ha Hm Hf Hl Hcap H1 H2. unfold insert_sn_task in H1. rewrite Ha, Hm in H1. inversion H1; subst. clear H1.
  unfold remove_sn_task in H2. cbn in H2.
  destruct (tid_mem t (tid_insert t a)); inversion H2; subst. cbn.
  rewrite res_add_cap_id; rewrite (res_sub_add _ _ Hf Hl); [reflexivity | exact Hcap].
Qed.

(** A multi-node placement is only made on free workers: [set_mn_task] refuses (panics) otherwise,
    and a free worker holds neither assigned nor prefilled tasks. *)
Theorem mn_only_on_free_workers w t root w' :
  set_mn_task w t root = Ok w' ->
  exists f, w_assign w = Sn [] [] f /\ w_stopping w = false.
Proof.
  unfold set_mn_task, worker_is_free. destruct (w_assign w) as [a p f|mt r]; [|discriminate].
  destruct a; [|discriminate]. destruct p; [|discriminate].
  destruct (w_stopping w); [discriminate|]. intros _. eauto.
Qed.

(** * C07: crash counting *)
Theorem crash_limit_rule t :
  let '(t', limit) := increment_crash_counter t in
  t_crash t' = t_crash t + 1
  /\ (limit = true <-> match t_climit t with
                      | CNever => True
                      | CMax n => n <= t_crash t + 1
                      | CUnl => False
                      end).
Proof.
  unfold increment_crash_counter. cbn. split; [reflexivity|].
  destruct (t_climit t) as [|n|]; cbn.
  - split; auto.
  - split; intros H; lia.
  - split; [discriminate | intros []].
Qed.

(** Only connection loss and missed heartbeats are failures. *)
Theorem failure_reasons r : reason_is_failure r = true <-> r = 1 \/ r = 2.
Proof. unfold reason_is_failure. lia. Qed.

(** * C14: the max-fails rule *)
Theorem max_fails_rule s t aborted k s' ids :
  process_task_failed s t aborted k = Ok (s', ids) -> ids <> [] ->
  exists j mf, find_job (h_jobs (hq_of s')) (fst t) = Some j /\ j_maxfails j = Some mf /\ mf < j_nfail j.
Proof.
  intros H Hne. unfold process_task_failed in H.
  apply bind_ok in H. destruct H as (s1 & _ & H).
  apply bind_ok in H. destruct H as (j & _ & H).
  apply bind_ok in H. destruct H as (j1 & _ & H).
  apply bind_ok in H. destruct H as (s2 & _ & H).
  apply bind_ok in H. destruct H as (j2 & Hj2 & H).
  destruct (j_maxfails j2) as [mf|] eqn:Em; [|inversion H; subst; contradiction].
  destruct (N.ltb mf (j_nfail j2)) eqn:El; [|inversion H; subst; contradiction].
  apply bind_ok in H. destruct H as (s3 & Hab & H). inversion H; subst. clear H.
  (* the abort only touches task states and the aborted counter of the same job *)
  unfold abort_tasks in Hab. destruct (non_finished_task_ids j2) eqn:En; [contradiction|].
  apply bind_ok in Hab. destruct Hab as (j3 & Hj3 & Hab).
  apply bind_ok in Hab. destruct Hab as (j4 & Hmk & Hab).
  unfold hq_get_job in Hj2, Hj3.
  destruct (find_job (h_jobs (s_hq (fst s2))) (fst t)) as [jx|] eqn:Ef; [|discriminate].
  inversion Hj2; subst jx. inversion Hj3; subst j3.
  assert (Hinv : forall ids j j', mark_tasks j ids JA 206 = Ok j' ->
                   j_maxfails j' = j_maxfails j /\ j_nfail j' = j_nfail j /\ j_id j' = j_id j).
  { clear. induction ids as [|x r IH]; cbn [mark_tasks]; intros j j' H; [inversion H; auto|].
    destruct (negb (N.eqb (fst x) (j_id j))); [discriminate|].
    destruct (jt_find (j_tasks j) (snd x)) as [v|]; [|discriminate].
    destruct v; try discriminate.
    - destruct (IH _ _ H) as (A & B & C). cbn in *. auto.
    - apply bind_ok in H. destruct H as (nr & _ & H). destruct (IH _ _ H) as (A & B & C). cbn in *. auto. }
  destruct (Hinv _ _ _ Hmk) as (M1 & M2 & M3).
  assert (Hid : j_id j2 = fst t).
  { clear -Ef. revert Ef. induction (h_jobs (s_hq (fst s2))) as [|h l IH]; cbn [find_job]; [discriminate|].
    destruct (N.eqb (fst t) (j_id h)) eqn:E; intros H; [inversion H; subst; apply N.eqb_eq in E; auto | auto]. }
  (* the resulting state holds the updated job *)
  unfold check_termination in Hab.
  assert (Hfind : forall s0 jn, j_id jn = fst t ->
            find_job (h_jobs (hq_of (emit (hq_set_job s0 jn) (OEv (EvAborted (t0 :: l)))))) (fst t) = Some jn).
  { intros s0 jn Hjn. unfold hq_of, hq_set_job. cbn.
    induction (h_jobs (s_hq (fst s0))) as [|h l0 IH]; cbn [set_job find_job].
    - rewrite Hjn, N.eqb_refl. reflexivity.
    - destruct (N.eqb (j_id jn) (j_id h)) eqn:E1.
      + cbn [find_job]. rewrite Hjn, N.eqb_refl. reflexivity.
      + destruct (N.ltb (j_id jn) (j_id h)); cbn [find_job].
        * rewrite Hjn, N.eqb_refl. reflexivity.
        * rewrite <- Hjn. rewrite E1. rewrite Hjn. exact IH. }
  unfold hq_of in Hfind |- *.
  match type of Hab with context [emit (hq_set_job s2 ?x) _] => set (jn := x) in * end.
  assert (Hjn : j_id jn = fst t) by (subst jn; cbn; congruence).
  apply bind_ok in Hab. destruct Hab as (jj & Hg & Hab).
  unfold hq_get_job in Hg. rewrite (Hfind s2 jn Hjn) in Hg. inversion Hg; subst jj.
  apply bind_ok in Hab. destruct Hab as (na & _ & Hab).
  assert (Hgoal : j_maxfails jn = Some mf /\ mf < j_nfail jn).
  { subst jn; cbn. rewrite M1, M2. split; [exact Em | lia]. }
  destruct na.
  - destruct (j_open jn) eqn:Eo.
    + inversion Hab; subst. exists jn, mf. rewrite (Hfind s2 jn Hjn). tauto.
    + inversion Hab; subst.
      match goal with |- context [hq_set_job ?sx ?y] => set (jy' := y) end.
      exists jy', mf. split.
      * assert (j_id jy' = fst t) by (subst jy'; cbn; exact Hjn).
        unfold emit, hq_set_job. cbn.
        clear -H. induction (set_job (h_jobs (s_hq (fst s2))) jn) as [|h l0 IH]; cbn [set_job find_job].
        -- rewrite H, N.eqb_refl. reflexivity.
        -- destruct (N.eqb (j_id jy') (j_id h)) eqn:E1.
           ++ cbn [find_job]. rewrite H, N.eqb_refl. reflexivity.
           ++ destruct (N.ltb (j_id jy') (j_id h)); cbn [find_job].
              ** rewrite H, N.eqb_refl. reflexivity.
              ** rewrite <- H. rewrite E1. rewrite H. exact IH.
      * subst jy'. cbn. exact Hgoal.
  - inversion Hab; subst. exists jn, mf. rewrite (Hfind s2 jn Hjn). tauto.
Qed.

(** * Ready queue: tasks leave in priority order *)

(** Entries of the ready queue are kept in strictly descending priority. *)
Fixpoint qe_desc (es : list qentry) : Prop :=
  match es with
  | [] => True
  | e :: r => (forall e', In e' r -> (qe_prio e' < qe_prio e)%Z) /\ qe_desc r
  end.

Lemma qe_add_in es id p e : In e (qe_add es id p) -> qe_prio e = p \/ In e es.
Proof.
  induction es as [|h t IH]; cbn [qe_add].
  - intros [H|[]]; subst; auto.
  - destruct (Z.eqb (qe_prio h) p) eqn:E1.
    + intros [H|H]; [subst; cbn; auto | right; right; exact H].
    + destruct (Z.ltb (qe_prio h) p) eqn:E2.
      * intros [H|H]; [subst; cbn; auto | right; exact H].
      * intros [H|H]; [right; left; exact H|]. destruct (IH H); auto. right; right; assumption.
Qed.

Theorem qe_add_desc es id p : qe_desc es -> qe_desc (qe_add es id p).
Proof.
  induction es as [|h t IH]; cbn [qe_add]; [cbn; intros _; split; [intros e' []|exact I]|].
  intros Hd. cbn in Hd. destruct Hd as [Hlt Hd].
  destruct (Z.eqb (qe_prio h) p) eqn:E1.
  - apply Z.eqb_eq in E1. cbn. split; [|exact Hd]. intros e' He. specialize (Hlt _ He). lia.
  - destruct (Z.ltb (qe_prio h) p) eqn:E2.
    + cbn. split; [|split; assumption]. intros e' [He|He]; [subst; lia|]. specialize (Hlt _ He). lia.
    + cbn. split; [|apply IH; exact Hd].
      intros e' He. apply qe_add_in in He. destruct He as [He|He]; [lia | auto].
Qed.

(** [take_one] hands out a task of the highest priority present in the queue. *)
Theorem take_one_highest q id q' :
  qe_desc (q_ready q) -> q_take_one q = Some (id, q') ->
  forall e, In e (q_ready q) -> exists e0, In e0 (q_ready q) /\ tid_mem id (qe_ids e0) = true /\ (qe_prio e <= qe_prio e0)%Z.
Proof.
  unfold q_take_one. destruct (q_ready q) as [|e0 r] eqn:Eq; [discriminate|].
  intros Hd H e He. cbn in Hd. destruct Hd as [Hlt _].
  destruct (qe_ids e0) as [|x rest] eqn:Ei; [discriminate|].
  assert (id = x) as -> by (destruct (qe_more e0); [destruct rest|]; inversion H; reflexivity).
  exists e0. split; [left; reflexivity|]. split.
  - rewrite Ei. cbn. unfold tid_eqb. rewrite !N.eqb_refl. reflexivity.
  - destruct He as [->|He]; [lia|]. specialize (Hlt _ He). lia.
Qed.
