(** The queue invariant, part 12: one scheduling round. *)
From HQ Require Import Base.Prelude Cluster.Types Cluster.Core Cluster.Reactor Cluster.Worker Cluster.Server Cluster.Sys Cluster.Monitors Cluster.ProofsJob Cluster.ProofsMore Cluster.ProofsTerminal Cluster.ProofsStep Cluster.BijBase Cluster.BijCore Cluster.BijHq Cluster.BijSt Cluster.BijReact Cluster.FrameGen Cluster.CrashFrame Cluster.InvQBase Cluster.InvQTake Cluster.InvQInv Cluster.InvQOps Cluster.InvQNoDup Cluster.InvQReact.
From Coq Require Import ZArith Lia Sorting.Sorted.
Local Open Scope N_scope.

Arguments N.add : simpl never.
Arguments N.sub : simpl never.

(** An exception has no redirect. *)
Lemma ex_no_redirect ex Z ts qs rs rqs id pl : QV ex Z ts qs rs rqs -> ex id = Some pl -> find_redirect rs id = None.
Proof.
  intros V E. destruct (find_redirect rs id) eqn:Er; [|reflexivity]. apply (qv_red _ _ _ _ _ _ V) in Er. destruct Er as [Er _]. congruence.
Qed.

(** * The single-node mapping *)
Lemma map_one_QI D c m id w v rqres c' m' :
  ~ In id D -> QI (exL Nowhere (id :: D) none) [] c -> map_one c m id w v rqres = Ok (c', m') -> QI (exL Nowhere D none) [] c'.
Proof.
  intros Hnd V H. unfold map_one in H.
  apply bind_ok in H. destruct H as (wk & _ & H). apply bind_ok in H. destruct H as (wk' & _ & H).
  apply bind_ok in H. destruct H as (t & Ht & H). apply get_task_find in Ht. cbn [c_tasks upd_worker with_workers] in Ht.
  assert (Eid : exL Nowhere (id :: D) none id = Some Nowhere) by (apply exL_in; left; reflexivity).
  assert (Hnr : find_redirect (c_redirects c) id = None) by (eapply ex_no_redirect; [exact V | exact Eid]).
  assert (Eo : forall x, x <> id -> exL Nowhere D none x = exL Nowhere (id :: D) none x).
  { intros x Hne. rewrite (exL_cons Nowhere id D). apply tid_eqb_neq in Hne. rewrite Hne. reflexivity. }
  assert (En : exL Nowhere D none id = None) by (apply exL_notin; exact Hnd).
  destruct (t_state t) as [n| |old|old| | |] eqn:Est; try discriminate.
  - inversion H; subst; clear H. qi_simpl.
    eapply QV_task0; [exact V | exact Ht | exact (find_task_id _ _ _ Ht) | reflexivity | reflexivity | exact Eo | | |].
    + unfold exp_place. rewrite En, Eid. reflexivity.
    + intros v0 Hv. congruence.
    + cbn. discriminate.
  - destruct (find_worker (c_workers (upd_worker c wk')) old) as [wo|]; [|discriminate].
    apply bind_ok in H. destruct H as (wo' & _ & H). cbn [c_redirects upd_worker with_workers] in H. rewrite Hnr in H.
    inversion H; subst; clear H. qi_simpl.
    eapply QV_task; [exact V | exact Ht | exact (find_task_id _ _ _ Ht) | reflexivity | reflexivity | apply set_redirect_sorted; exact (qv_rs _ _ _ _ _ _ V) | | exact Eo | | |].
    + intros x Hne. rewrite find_set_redirect. apply tid_eqb_neq in Hne. rewrite Hne. reflexivity.
    + unfold exp_place. rewrite En, Eid. cbn. rewrite find_set_redirect, (proj2 (tid_eqb_eq _ _) eq_refl). reflexivity.
    + intros v0 Hv. split; [exact En | cbn; eauto].
    + cbn. discriminate.
  - cbn [c_redirects upd_worker with_workers] in H. rewrite Hnr in H. inversion H; subst; clear H. qi_simpl.
    eapply QV_redirect; [exact V | exact Ht | apply set_redirect_sorted; exact (qv_rs _ _ _ _ _ _ V) | | exact Eo | |].
    + intros x Hne. rewrite find_set_redirect. apply tid_eqb_neq in Hne. rewrite Hne. reflexivity.
    + unfold exp_place. rewrite En, Eid, Est. cbn. rewrite find_set_redirect, (proj2 (tid_eqb_eq _ _) eq_refl). reflexivity.
    + intros v0 Hv. split; [exact En | eauto].
Qed.

Lemma rr_pass_QI counts : forall c m tasks v rqres c' m' counts' rest,
  NoDup tasks -> QI (exL Nowhere tasks none) [] c -> rr_pass c m counts tasks v rqres = Ok (c', m', counts', rest) ->
  QI (exL Nowhere rest none) [] c' /\ NoDup rest.
Proof.
  induction counts as [|[w n] r IH]; intros c m tasks v rqres c' m' counts' rest Hnd V H.
  - destruct tasks; cbn [rr_pass] in H; inversion H; subst; split; assumption.
  - destruct tasks as [|id tl]; cbn [rr_pass] in H; [inversion H; subst; split; assumption|].
    destruct (N.ltb 0 n).
    + apply bind_ok in H. destruct H as ([c1 m1] & H1 & H).
      apply bind_ok in H. destruct H as ([[[c2 m2] r'] tl'] & H2 & H). inversion H; subst; clear H.
      inversion Hnd as [|? ? Hni Hnt]; subst.
      pose proof (map_one_QI _ _ _ _ _ _ _ _ _ Hni V H1) as V1.
      eapply IH; eassumption.
    + apply bind_ok in H. destruct H as ([[[c2 m2] r'] tl'] & H2 & H). inversion H; subst; clear H.
      eapply IH; eassumption.
Qed.

Lemma rr_loop_QI fuel : forall c m counts tasks v rqres c' m',
  NoDup tasks -> QI (exL Nowhere tasks none) [] c -> rr_loop fuel c m counts tasks v rqres = Ok (c', m') -> QI none [] c'.
Proof.
  induction fuel as [|k IH]; intros c m counts tasks v rqres c' m' Hnd V H; destruct tasks as [|id tl]; cbn [rr_loop] in H;
    try (inversion H; subst; exact V); try discriminate.
  apply bind_ok in H. destruct H as ([[[c1 m1] counts1] rest] & H1 & H).
  destruct (rr_pass_QI _ _ _ _ _ _ _ _ _ _ Hnd V H1) as [V1 N1].
  eapply IH; eassumption.
Qed.

Lemma map_sn_QI sol l : forall c m c' m', QI none [] c -> map_sn c m sol l = Ok (c', m') -> QI none [] c'.
Proof.
  induction l as [|[[rq v] counts] r IH]; cbn [map_sn]; intros c m c' m' V H; [inversion H; subst; exact V|].
  apply bind_ok in H. destruct H as (rqd & _ & H). apply bind_ok in H. destruct H as (q & Hq & H).
  apply bind_ok in H. destruct H as ([tasks q'] & Ht & H). apply bind_ok in H. destruct H as ([c2 m2] & H2 & H).
  apply nth_queue_ok in Hq.
  pose proof (nth_error_Forall _ _ _ _ (qv_wf _ _ _ _ _ _ V) Hq) as W.
  destruct (q_take_tasks_D _ _ _ _ _ W Ht) as [T N].
  eapply IH; [|exact H]. eapply rr_loop_QI; [| |exact H2].
  - apply N. eapply QV_uniq; [exact V | exact Hq].
  - unfold QI. cbn [c_tasks c_queues c_redirects c_rqs with_queues]. eapply QV_take; eassumption.
Qed.

(** * The multi-node mapping *)
Lemma map_mn_sets_QI sets : forall c rq mn c' mn', QI none [] c -> map_mn_sets c rq mn sets = Ok (c', mn') -> QI none [] c'.
Proof.
  induction sets as [|ws r IH]; cbn [map_mn_sets]; intros c rq mn c' mn' V H; [inversion H; subst; exact V|].
  apply bind_ok in H. destruct H as (q & Hq & H). apply nth_queue_ok in Hq.
  destruct (q_take_one q) as [[id q']|] eqn:Eo; [|discriminate].
  apply bind_ok in H. destruct H as (c2 & H2 & H). apply bind_ok in H. destruct H as (t & Ht & H). apply get_task_find in Ht.
  destruct (t_state t) as [n| | | | | |] eqn:Est; try discriminate. destruct n; [|discriminate].
  eapply IH; [|exact H].
  pose proof (nth_error_Forall _ _ _ _ (qv_wf _ _ _ _ _ _ V) Hq) as W.
  pose proof (q_take_one_spec _ _ _ W Eo) as T.
  assert (V1 : QI (exL Nowhere [id] none) [] (with_queues c (set_queue (c_queues c) (N.to_nat rq) q'))).
  { unfold QI. cbn [c_tasks c_queues c_redirects c_rqs with_queues]. eapply QV_take; eassumption. }
  pose proof (QI_same _ _ _ _ (set_mn_workers_qsame _ _ _ _ _ H2) V1) as V2.
  assert (Eid : exL Nowhere [id] none id = Some Nowhere) by (apply exL_in; left; reflexivity).
  qi_simpl.
  eapply QV_task0; [exact V2 | exact Ht | exact (find_task_id _ _ _ Ht) | reflexivity | reflexivity | | | |].
  - intros x Hne. unfold exL, none. cbn [tid_mem]. apply tid_eqb_neq in Hne. rewrite Hne. reflexivity.
  - unfold exp_place. rewrite Eid. reflexivity.
  - intros v Hv. exfalso. rewrite (ex_no_redirect _ _ _ _ _ _ _ _ V2 Eid) in Hv. discriminate.
  - cbn. discriminate.
Qed.

Lemma map_mn_QI l : forall c mn c' mn', QI none [] c -> map_mn c mn l = Ok (c', mn') -> QI none [] c'.
Proof.
  induction l as [|[[rq v] sets] r IH]; cbn [map_mn]; intros c mn c' mn' V H; [inversion H; subst; exact V|].
  apply bind_ok in H. destruct H as ([c1 mn1] & H1 & H).
  eapply IH; [|exact H]. eapply map_mn_sets_QI; eassumption.
Qed.

(** * Proactive filling *)
Lemma prefill_mark_QI l : forall c w c', QI (exL Prefill l none) [] c -> prefill_mark c w l = Ok c' -> QI none [] c'.
Proof.
  induction l as [|id r IH]; cbn [prefill_mark]; intros c w c' V H; [inversion H; subst; exact V|].
  apply bind_ok in H. destruct H as (t & Ht & H). apply get_task_find in Ht.
  destruct (negb (is_waiting t)); [discriminate|].
  apply bind_ok in H. destruct H as (wk & _ & H). apply bind_ok in H. destruct H as (wk' & _ & H).
  eapply IH; [|exact H].
  assert (Eid : exL Prefill (id :: r) none id = Some Prefill) by (apply exL_in; left; reflexivity).
  qi_simpl.
  eapply QV_task0; [exact V | exact Ht | exact (find_task_id _ _ _ Ht) | reflexivity | reflexivity | | | |].
  - intros x Hne. rewrite (exL_cons Prefill id r). apply tid_eqb_neq in Hne. rewrite Hne. reflexivity.
  - unfold exp_place. rewrite Eid. unfold exL, none. destruct (tid_mem id r); reflexivity.
  - intros v Hv. exfalso. rewrite (ex_no_redirect _ _ _ _ _ _ _ _ V Eid) in Hv. discriminate.
  - cbn. discriminate.
Qed.

Lemma prefill_workers_QI ws : forall c m qi psize c' m', QI none [] c -> prefill_workers c m qi psize ws = Ok (c', m') -> QI none [] c'.
Proof.
  induction ws as [|w r IH]; cbn [prefill_workers]; intros c m qi psize c' m' V H; [inversion H; subst; exact V|].
  apply bind_ok in H. destruct H as (q & Hq & H). apply bind_ok in H. destruct H as ([ids q'] & Ht & H).
  apply bind_ok in H. destruct H as (c2 & H2 & H). apply nth_queue_ok in Hq.
  eapply IH; [|exact H].
  pose proof (nth_error_Forall _ _ _ _ (qv_wf _ _ _ _ _ _ V) Hq) as W.
  destruct (q_take_prefill_spec _ _ _ _ W Ht) as (pe & T).
  eapply prefill_mark_QI; [|exact H2].
  unfold QI. cbn [c_tasks c_queues c_redirects c_rqs with_queues]. eapply QV_move; eassumption.
Qed.

Lemma prefill_queues_QI n : forall c m worder qi top c' m',
  QI none [] c -> prefill_queues c m worder qi n top = Ok (c', m') -> QI none [] c'.
Proof.
  induction n as [|k IH]; cbn [prefill_queues]; intros c m worder qi top c' m' V H; [inversion H; subst; exact V|].
  apply bind_ok in H. destruct H as (q & _ & H).
  destruct (q_top_priority q) as [tp|]; [|eapply IH; eassumption].
  destruct (negb (Z.eqb tp top)); [eapply IH; eassumption|].
  destruct (N.eqb _ 0); [eapply IH; eassumption|].
  destruct (existsb _ (q_top_task_ids q)).
  - destruct (forallb _ (q_top_task_ids q)); [eapply IH; eassumption | discriminate].
  - match type of H with match ?ws with [] => _ | _ => _ end = _ => destruct ws eqn:Ews end; [eapply IH; eassumption|].
    destruct (N.eqb _ 0); [eapply IH; eassumption|].
    apply bind_ok in H. destruct H as ([c1 m1] & H1 & H).
    eapply IH; [|exact H]. eapply prefill_workers_QI; eassumption.
Qed.

(** * The whole round *)
Lemma run_scheduling_QI s sol s' : QI none [] (core_of s) -> run_scheduling s sol = Ok s' -> QI none [] (core_of s').
Proof.
  unfold run_scheduling. intros V H. destruct (negb (perm_of_set _ _)); [discriminate|].
  apply bind_ok in H. destruct H as ([c1 m1] & H1 & H).
  apply bind_ok in H. destruct H as ([c2 mn] & H2 & H).
  apply bind_ok in H. destruct H as ([c3 m3] & H3 & H).
  apply bind_ok in H. destruct H as (s1 & H4 & H).
  apply bind_ok in H. destruct H as (s2 & H5 & H). inversion H; subst; clear H.
  pose proof (map_sn_QI _ _ _ _ _ _ V H1) as V1.
  pose proof (map_mn_QI _ _ _ _ _ V1 H2) as V2.
  assert (V3 : QI none [] c3).
  { destruct (queues_top_priority (c_queues c2)); [|inversion H3; subst; exact V2]. eapply prefill_queues_QI; eassumption. }
  change (QI none [] (core_of s2)). rewrite (send_mn_core _ _ _ H5), (send_mapping_core _ _ _ H4). exact V3.
Qed.
