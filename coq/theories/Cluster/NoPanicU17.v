(** Protocol invariant, part 17: the loss of a worker ([OpLost]) preserves [PROTO]. *)
From HQ Require Import Base.Prelude Cluster.Types Cluster.Core Cluster.Reactor Cluster.Worker Cluster.Server Cluster.Sys Cluster.ProofsJob Cluster.ProofsMore Cluster.ProofsTerminal Cluster.ProofsStep Cluster.ProofsFinal Cluster.BijBase Cluster.BijCore Cluster.BijHq Cluster.BijSt Cluster.BijReact Cluster.InvWBase Cluster.InvWView Cluster.InvWCore Cluster.InvWServer Cluster.NoPanicC1 Cluster.NoPanicC2 Cluster.NoPanicU0 Cluster.NoPanicU1 Cluster.NoPanicU2 Cluster.NoPanicU5 Cluster.NoPanicU6 Cluster.NoPanicU7 Cluster.NoPanicU8 Cluster.NoPanicU9 Cluster.NoPanicU10 Cluster.NoPanicU11 Cluster.NoPanicU14 Cluster.NoPanicU15.
From Coq Require Import ZArith Lia Sorting.Sorted.
Local Open Scope N_scope.

Notation tid_eqb_eq := NoPanicU1.tid_eqb_eq.
Notation tid_eqb_neq := NoPanicU1.tid_eqb_neq.
Notation tid_eqb_refl := NoPanicU1.tid_eqb_refl.
Notation find_proc_some := NoPanicU1.find_proc_some.
Notation find_set_proc := NoPanicU1.find_set_proc.
Notation find_del_proc := NoPanicU1.find_del_proc.
Notation find_set_task := NoPanicU6.find_set_task.
Notation find_task_some := NoPanicU1.find_task_some.
Notation jactive := NoPanicU6.jactive.
Notation x0 := NoPanicU6.x0.
Notation tsorted := NoPanicU6.tsorted.

(** * The process disappears *)
Lemma SP_del_proc X s w : SP X s no_pum [] -> SP X (with_procs (fst s) (del_proc (s_procs (fst s)) w), snd s) no_pum [].
Proof.
  intros [H9 Hcs Hact H1 Hd Ht H3 H4 Hpres Hpum H5 H6 H7 R1 R2].
  assert (Hfp : forall w' p, find_proc (del_proc (s_procs (fst s)) w) w' = Some p -> find_proc (s_procs (fst s)) w' = Some p).
  { intros w' p Hp. rewrite (find_del_proc _ _ _ H9) in Hp. destruct (N.eqb w' w); [discriminate | exact Hp]. }
  constructor; cbn [fst snd core_of hq_of with_procs s_core s_hq s_procs] in *; try assumption.
  - apply del_proc_sorted. exact H9.
  - intros w' p x t Hp. apply H1. apply Hfp. exact Hp.
  - intros w' p Hp. apply Hd. apply Hfp. exact Hp.
  - intros w' p Hp. apply Ht. apply Hfp. exact Hp.
  - intros w' p Hp. eapply H3. apply Hfp. exact Hp.
  - intros w' p x Hp. apply H4. apply Hfp. exact Hp.
  - intros w' Hw'. exfalso. apply Hw'. reflexivity.
Qed.

(** * Changing a task without changing its views at the connected workers *)
Lemma SP_upd_view X s y t t' :
  SP X s no_pum [] -> find_task (c_tasks (core_of s)) y = Some t -> t_id t' = y ->
  (X y = false ->
     (forall w p jr, find_proc (s_procs (fst s)) w = Some p -> view_of (t_state t') w jr = view_of (t_state t) w jr) /\
     mn_task_ok (core_of s) t' = true /\ jr_ok (hq_of s) t' = true /\ (forall w rv, t_state t' = Assigned w rv -> rv = 0)) ->
  SP X (st_core s (upd_task (core_of s) t')) no_pum [].
Proof.
  intros HS Hy Eid Hc.
  change (st_core s (upd_task (core_of s) t')) with (mkSys (upd_task (core_of s) t') (hq_of s) (s_procs (fst s)), snd s).
  apply (SP_gen (fun z => tid_eqb z y) X X s no_pum [] (upd_task (core_of s) t') _ _ no_pum [] HS).
  - unfold tsorted. cbn [upd_task with_tasks c_tasks]. apply set_task_sorted. exact (sp_cs _ _ _ _ HS).
  - reflexivity.
  - exact (sp_rvr _ _ _ _ HS).
  - intros z tz E Hz HX. rewrite find_upd_task, Eid, E in Hz. exists tz. repeat split; assumption.
  - intros w z _. split; reflexivity.
  - auto.
  - intros z tz Hz. rewrite find_upd_task, Eid in Hz. destruct (tid_eqb z y) eqn:E; [apply tid_eqb_eq in E; subst z|]; congruence.
  - intros w p z Hp [[]|[]].
  - intros w p Hp. split; [exact (sp_down _ _ _ _ HS _ _ Hp) | reflexivity].
  - auto.
  - intros x tx E Hx HX. apply tid_eqb_eq in E. subst x. rewrite find_upd_task, Eid, tid_eqb_refl in Hx. inversion Hx; subst tx. clear Hx.
    destruct (Hc HX) as (Hv & Hm & Hj & Hr).
    split; [exact (sp_act _ _ _ _ HS _ _ Hy HX)|]. split; [exact Hm|]. split; [exact Hj|]. split; [exact Hr|].
    intros w p Hp. rewrite (Hv w p _ Hp). exact (sp_words _ _ _ _ HS w p y t Hp Hy HX).
Qed.

(** hiding a task while changing it *)
Lemma SP_upd_hide X s y t t' :
  SP X s no_pum [] -> find_task (c_tasks (core_of s)) y = Some t -> t_id t' = y ->
  SP (xadd X y) (st_core s (upd_task (core_of s) t')) no_pum [].
Proof.
  intros HS Hy Eid. apply (SP_CF X (xadd X y)); [exact HS | | intros z Hz; unfold xadd in Hz; apply orb_false_iff in Hz; apply Hz].
  apply (CF_upd_task _ _ t); [rewrite Eid; exact Hy|]. rewrite Eid. unfold xadd. rewrite tid_eqb_refl. discriminate.
Qed.

(** a task placed on a worker without process is "not here" for every process *)
Lemma view_absent_worker (s : st) (st0 : tstate) w w' p jr :
  find_proc (s_procs (fst s)) w = None -> find_proc (s_procs (fst s)) w' = Some p ->
  match st0 with Assigned w1 _ | Prefilled w1 | Retracting w1 | Running w1 _ => w1 = w | RunningMN (w1 :: _) => w1 = w | _ => True end ->
  view_of st0 w' jr = VN.
Proof.
  intros Hn Hp Hst. assert (Hne : N.eqb w w' = false) by (apply N.eqb_neq; intros ->; congruence).
  destruct st0 as [n|w1 rv1|w1|w1|w1 rv1|[|w1 ws]|]; cbn [view_of]; try reflexivity; subst w1; rewrite Hne; reflexivity.
Qed.

(** * Phase 1: the sets of the lost worker *)
Definition Xr (r : list tid) (X : tid -> bool) : tid -> bool := fun y => tid_mem y r || X y.

Lemma SP_Xext X X' s pum pd : SP X s pum pd -> (forall y, X' y = X y) -> SP X' s pum pd.
Proof. intros HS E. apply (SP_more_hidden X X'); [exact HS|]. intros y Hy. rewrite <- E. exact Hy. Qed.

Lemma tid_mem_app x a b : tid_mem x (a ++ b) = tid_mem x a || tid_mem x b.
Proof. induction a as [|h t IH]; cbn [app tid_mem]; [reflexivity|]. rewrite IH, orb_assoc. reflexivity. Qed.

(** the words of a task that no connected worker knows *)
Definition silent (s : st) (y : tid) : Prop :=
  forall w p, find_proc (s_procs (fst s)) w = Some p -> uitems y (p_up p) = [] /\ local p y = LNone /\ ditems y (p_down p) = [].

Lemma silent_of_SP X s y t w :
  SP X s no_pum [] -> find_task (c_tasks (core_of s)) y = Some t -> X y = false -> find_proc (s_procs (fst s)) w = None ->
  match t_state t with Assigned w1 _ | Prefilled w1 | Retracting w1 | Running w1 _ => w1 = w | RunningMN (w1 :: _) => w1 = w | _ => True end ->
  silent s y.
Proof.
  intros HS Hy HX Hn Hst w' p Hp. pose proof (sp_words _ _ _ _ HS w' p y t Hp Hy HX) as Hl.
  rewrite (view_absent_worker s _ w w' p _ Hn Hp Hst) in Hl. cbn [no_pum app] in Hl. rewrite msgs_for_nil, app_nil_r in Hl.
  destruct (L_VN _ _ _ Hl) as (A & B & C). auto.
Qed.

Lemma lost_prefilled_SP X s w l : forall c c',
  SP X (st_core s c) no_pum [] -> find_proc (s_procs (fst s)) w = None -> NoDup l ->
  (forall id t, In id l -> find_task (c_tasks c) id = Some t -> t_state t = Prefilled w) ->
  lost_prefilled c l = Ok c' ->
  SP X (st_core s c') no_pum [] /\ (forall y, ~ In y l -> find_task (c_tasks c') y = find_task (c_tasks c) y).
Proof.
  induction l as [|id r IH]; cbn [lost_prefilled]; intros c c' HS Hn Hnd Hst H; [inversion H; subst; auto|].
  inversion Hnd as [|? ? Hni Hnd']; subst.
  apply bind_ok in H. destruct H as (t & Ht & H). unfold get_task in Ht. destruct (find_task (c_tasks c) id) as [t0|] eqn:Ef; [|discriminate]. inversion Ht; subst t0. clear Ht.
  apply bind_ok in H. destruct H as (q & _ & H). apply bind_ok in H. destruct H as (q' & _ & H).
  destruct (find_task_some _ _ _ Ef) as [_ Eid]. pose proof (Hst id t (or_introl eq_refl) Ef) as Est.
  set (t' := with_state (with_inst t (t_inst t + 1)) (Waiting 0)) in *.
  assert (S1 : SP X (st_core s (upd_task c t')) no_pum []).
  { apply (SP_upd_view X (st_core s c) id t t' HS Ef); [cbn; exact Eid|]. intros HX. split; [|split; [reflexivity | split]].
    - intros w' p jr Hp. cbn [t' with_state t_state view_of]. rewrite Est. symmetry. apply (view_absent_worker (st_core s c) _ w w' p jr Hn Hp). reflexivity.
    - pose proof (sp_jr _ _ _ _ HS _ _ Ef HX) as J. unfold jr_ok in *. rewrite Est in J. cbn [t' with_state with_inst t_state t_id]. exact J.
    - intros w1 rv1 E. cbn in E. discriminate. }
  destruct (IH (with_queues (upd_task c t') (set_queue (c_queues c) (N.to_nat (t_rq t)) q')) c') as [S2 F2]; [| exact Hn | exact Hnd' | | exact H |].
  - apply (SP_ext _ (st_core (st_core s (upd_task c t')) (with_queues (upd_task c t') (set_queue (c_queues c) (N.to_nat (t_rq t)) q')))); [|reflexivity|reflexivity|reflexivity].
    apply (SP_CF X X); [exact S1 | apply CF_tasks_same; auto | auto].
  - intros id0 t0 Hin Hf0. cbn [with_queues c_tasks] in Hf0. rewrite find_upd_task in Hf0. cbn [t' with_state with_inst t_id] in Hf0. rewrite Eid in Hf0.
    destruct (tid_eqb id0 id) eqn:E; [apply tid_eqb_eq in E; subst id0; contradiction|]. apply (Hst id0 t0 (or_intror Hin) Hf0).
  - split; [exact S2|]. intros y Hy. rewrite F2 by (intros X1; apply Hy; right; exact X1). cbn [with_queues c_tasks]. rewrite find_upd_task.
    cbn [t' with_state with_inst t_id]. rewrite Eid. destruct (tid_eqb y id) eqn:E; [apply tid_eqb_eq in E; subst y; exfalso; apply Hy; left; reflexivity | reflexivity].
Qed.

Lemma lost_assigned_SP s w l : forall X c running ret c' running' ret',
  SP (Xr running X) (st_core s c) no_pum [] -> find_proc (s_procs (fst s)) w = None -> NoDup l ->
  (forall id, In id l -> ~ In id running) ->
  (forall id t, In id l -> find_task (c_tasks c) id = Some t ->
     match t_state t with Assigned w1 _ | Running w1 _ => w1 = w | Retracting _ => True | _ => False end) ->
  (forall y, In y running -> exists t, find_task (c_tasks c) y = Some t /\ t_state t = Waiting 0) ->
  lost_assigned c l running ret = Ok (c', running', ret') ->
  SP (Xr running' X) (st_core s c') no_pum [] /\
  (forall y, In y running' -> exists t, find_task (c_tasks c') y = Some t /\ t_state t = Waiting 0) /\
  (forall y, In y running' -> In y running \/ (In y l /\ exists t w1 rv1, find_task (c_tasks c) y = Some t /\ t_state t = Running w1 rv1)) /\
  (forall y, ~ In y l -> find_task (c_tasks c') y = find_task (c_tasks c) y).
Proof.
  induction l as [|id r IH]; cbn [lost_assigned]; intros X c running ret c' running' ret' HS Hn Hnd Hnr Hst Hrun H.
  - inversion H; subst. split; [exact HS|]. split; [exact Hrun|]. split; auto.
  - inversion Hnd as [|? ? Hni Hnd']; subst.
    apply bind_ok in H. destruct H as (t & Ht & H). unfold get_task in Ht. destruct (find_task (c_tasks c) id) as [t0|] eqn:Ef; [|discriminate]. inversion Ht; subst t0. clear Ht.
    apply bind_ok in H. destruct H as ([[c1 t1] running1] & H1 & H).
    apply bind_ok in H. destruct H as ([qs ret1] & _ & H).
    destruct (find_task_some _ _ _ Ef) as [_ Eid]. pose proof (Hst id t (or_introl eq_refl) Ef) as Hc.
    set (t2 := with_inst t1 (t_inst t1 + 1)) in *.
    assert (HXid : Xr running X id = false -> X id = false) by (unfold Xr; intros E; apply orb_false_iff in E; apply E).
    (* the three cases give: the new hidden set, the new core, the facts *)
    assert (A : SP (Xr running1 X) (st_core s (upd_task c1 t2)) no_pum [] /\ t_id t2 = id /\
                (forall y, find_task (c_tasks (upd_task c1 t2)) y = if tid_eqb y id then Some t2 else find_task (c_tasks c) y) /\
                ((running1 = running /\ (Xr running X id = false -> True)) \/ (running1 = running ++ [id] /\ t_state t2 = Waiting 0 /\ exists w1 rv1, t_state t = Running w1 rv1))).
    { destruct (t_state t) as [n|w1 rv1|w1|w1|w1 rv1|ws|] eqn:Est; try (exfalso; exact Hc).
      - (* Assigned *) subst w1. inversion H1; subst c1 t1 running1. clear H1. split; [|split; [cbn; exact Eid | split; [|left; auto]]].
        + apply (SP_upd_view _ (st_core s c) id t t2 HS Ef); [cbn; exact Eid|]. intros HX. split; [|split; [reflexivity | split]].
          * intros w' p jr Hp. cbn [t2 with_state with_inst t_state view_of]. rewrite Est. symmetry. apply (view_absent_worker (st_core s c) _ w w' p jr Hn Hp). reflexivity.
          * pose proof (sp_jr _ _ _ _ HS _ _ Ef HX) as J. unfold jr_ok in *. rewrite Est in J. cbn [t2 with_state with_inst t_state t_id]. exact J.
          * intros w2 rv2 E. cbn in E. discriminate.
        + intros y. rewrite find_upd_task. cbn [t2 with_state with_inst t_id]. rewrite Eid. reflexivity.
      - (* Retracting *) destruct (find_redirect (c_redirects c) id) as [rd|]; [|discriminate]. inversion H1; subst c1 t1 running1. clear H1.
        split; [|split; [cbn; exact Eid | split; [|left; auto]]].
        + assert (S1 : SP (Xr running X) (st_core s (with_redirects c (del_redirect (c_redirects c) id))) no_pum []).
          { apply (SP_ext (Xr running X) (st_core (st_core s c) (with_redirects c (del_redirect (c_redirects c) id)))); [|reflexivity|reflexivity|reflexivity].
            apply (SP_CF (Xr running X) (Xr running X)); [exact HS | apply CF_tasks_same; auto; cbn; intros r0; apply del_redirect_in | auto]. }
          apply (SP_upd_view _ _ id t t2 S1 Ef); [cbn; exact Eid|]. intros HX. split; [|split; [|split]].
          * intros w' p jr Hp. reflexivity.
          * pose proof (sp_mnt _ _ _ _ HS _ _ Ef HX) as M. unfold mn_task_ok in *. cbn [t2 with_inst t_state t_rq]. exact M.
          * pose proof (sp_jr _ _ _ _ HS _ _ Ef HX) as J. unfold jr_ok in *. cbn [t2 with_inst t_state t_id]. exact J.
          * intros w2 rv2 E. cbn [t2 with_inst t_state] in E. congruence.
        + intros y. rewrite find_upd_task. cbn [t2 with_inst t_id with_redirects c_tasks]. rewrite Eid. reflexivity.
      - (* Running *) subst w1. inversion H1; subst c1 t1 running1. clear H1. split; [|split; [cbn; exact Eid | split; [|right; split; [reflexivity | split; [reflexivity | eauto]]]]].
        + apply (SP_Xext (xadd (Xr running X) id)); [apply (SP_upd_hide _ (st_core s c) id t t2 HS Ef); cbn; exact Eid|].
          intros y. unfold Xr, xadd. rewrite tid_mem_app. cbn [tid_mem]. rewrite orb_false_r. destruct (tid_mem y running), (tid_eqb y id), (X y); reflexivity.
        + intros y. rewrite find_upd_task. cbn [t2 with_state with_inst t_id]. rewrite Eid. reflexivity. }
    destruct A as (S1 & Eid2 & Hfind & Hcase).
    destruct (IH X (with_queues (upd_task c1 t2) qs) running1 (ret ++ ret1) c' running' ret') as (S2 & R2 & O2 & F2); [| exact Hn | exact Hnd' | | | | exact H |].
    + apply (SP_ext (Xr running1 X) (st_core (st_core s (upd_task c1 t2)) (with_queues (upd_task c1 t2) qs))); [|reflexivity|reflexivity|reflexivity].
      apply (SP_CF (Xr running1 X) (Xr running1 X)); [exact S1 | apply CF_tasks_same; auto | auto].
    + intros id0 Hin. destruct Hcase as [[-> _]|(-> & _)]; [apply Hnr; right; exact Hin|].
      rewrite in_app_iff. intros [X1|[<-|[]]]; [exact (Hnr id0 (or_intror Hin) X1) | contradiction].
    + intros id0 t0 Hin Hf0. cbn [with_queues c_tasks] in Hf0. rewrite Hfind in Hf0.
      destruct (tid_eqb id0 id) eqn:E; [apply tid_eqb_eq in E; subst id0; contradiction|]. apply (Hst id0 t0 (or_intror Hin) Hf0).
    + intros y Hy. cbn [with_queues c_tasks]. rewrite Hfind. destruct (tid_eqb y id) eqn:E.
      * apply tid_eqb_eq in E. subst y. destruct Hcase as [[-> _]|(-> & Ew & _)]; [exfalso; exact (Hnr id (or_introl eq_refl) Hy) | eauto].
      * destruct Hcase as [[-> _]|(-> & _)]; [apply Hrun; exact Hy|]. rewrite in_app_iff in Hy. destruct Hy as [Hy|[<-|[]]]; [apply Hrun; exact Hy | rewrite tid_eqb_refl in E; discriminate].
    + split; [exact S2|]. split; [exact R2|]. split.
      * intros y Hy. destruct (O2 y Hy) as [Hy1|(Hy1 & t0 & w1 & rv1 & Hf0 & Es0)].
        -- destruct Hcase as [[-> _]|(-> & _ & w1 & rv1 & Est)]; [left; exact Hy1|]. rewrite in_app_iff in Hy1.
           destruct Hy1 as [Hy1|[<-|[]]]; [left; exact Hy1 | right; split; [left; reflexivity | eauto]].
        -- right. split; [right; exact Hy1|]. cbn [with_queues c_tasks] in Hf0. rewrite Hfind in Hf0.
           destruct (tid_eqb y id) eqn:E; [apply tid_eqb_eq in E; subst y; contradiction | eauto].
      * intros y Hy. rewrite F2 by (intros X1; apply Hy; right; exact X1). cbn [with_queues c_tasks]. rewrite Hfind.
        destruct (tid_eqb y id) eqn:E; [apply tid_eqb_eq in E; subst y; exfalso; apply Hy; left; reflexivity | reflexivity].
Qed.

(** * Phase 2: the tasks that were being retracted from the lost worker *)
Lemma send_worker_procs_none s w m s' w0 : send_worker s w m = Ok s' -> find_proc (s_procs (fst s)) w0 = None -> find_proc (s_procs (fst s')) w0 = None.
Proof.
  unfold send_worker. destruct (find_proc (s_procs (fst s)) w) as [p|] eqn:Hp; [|discriminate]. intros H Hn. inversion H; subst. cbn [fst with_procs s_procs].
  rewrite find_set_proc. cbn [push_down p_id]. destruct (N.eqb w0 (p_id p)) eqn:E; [|exact Hn].
  apply N.eqb_eq in E. destruct (find_proc_some _ _ _ Hp) as [_ Hid]. rewrite Hid in E. subst w0. congruence.
Qed.

Lemma lost_retracting_SP w l : forall s s',
  SP x0 s no_pum [] -> find_proc (s_procs (fst s)) w = None -> lost_retracting s w l = Ok s' ->
  SP x0 s' no_pum [] /\ find_proc (s_procs (fst s')) w = None.
Proof.
  induction l as [|id r IH]; cbn [lost_retracting]; intros s s' HS Hn H; [inversion H; subst; auto|].
  apply bind_ok in H. destruct H as (t & Ht & H). unfold get_task in Ht.
  destruct (find_task (c_tasks (core_of s)) id) as [t0|] eqn:Ef; [|discriminate]. inversion Ht; subst t0. clear Ht.
  destruct (find_task_some _ _ _ Ef) as [_ Eid].
  destruct (t_state t) as [n|w1 rv1|w1|w1|w1 rv1|ws|] eqn:Est; try (eapply IH; eassumption).
  destruct (N.eqb w w1) eqn:Ew; [|eapply IH; eassumption]. apply N.eqb_eq in Ew. subst w1.
  set (ti := with_inst t (t_inst t + 1)) in *.
  assert (Hvn : forall w' p jr, find_proc (s_procs (fst s)) w' = Some p -> view_of (t_state t) w' jr = VN).
  { intros w' p jr Hp. rewrite Est. apply (view_absent_worker s _ w w' p jr Hn Hp). reflexivity. }
  pose proof (sp_mnt _ _ _ _ HS _ _ Ef eq_refl) as Hm. pose proof (sp_jr _ _ _ _ HS _ _ Ef eq_refl) as Hj.
  destruct (find_redirect (c_redirects (core_of s)) id) as [[tg rv]|] eqn:Er.
  - apply bind_ok in H. destruct H as (s1 & Hsend & H).
    set (t' := with_state ti (Assigned tg rv)) in *.
    set (c' := upd_task (with_redirects (core_of s) (del_redirect (c_redirects (core_of s)) id)) t') in *.
    set (msg := DCompute [ctask_of t' (Some rv) []]) in *.
    assert (Hrv : rv = 0) by exact (sp_rvr _ _ _ _ HS _ (find_redirect_in _ _ _ Er)).
    assert (Hit : forall w' y, ditems y (msgs_for w' [(tg, msg)]) = if N.eqb tg w' then sel id y (IDC (Some rv) false) else []).
    { intros w' y. rewrite msgs_for_cons, msgs_for_nil. destruct (N.eqb tg w'); [|reflexivity].
      cbn [ditems flat_map ditems_msg msg ctask_of ct_id ct_rv ct_nodes is_nil negb t' ti with_state with_inst t_id]. rewrite Eid, !app_nil_r. reflexivity. }
    assert (S1 : SP x0 (st_core s c') no_pum [(tg, msg)]).
    { change (st_core s c') with (mkSys c' (hq_of s) (s_procs (fst s)), snd s).
      apply (SP_gen (fun y => tid_eqb y id) x0 x0 s no_pum [] c' _ _ no_pum [(tg, msg)] HS).
      - unfold tsorted, c'. cbn [upd_task with_tasks with_redirects c_tasks]. apply set_task_sorted. exact (sp_cs _ _ _ _ HS).
      - reflexivity.
      - intros r0 Hr0. apply (sp_rvr _ _ _ _ HS). unfold c' in Hr0. cbn [upd_task with_tasks with_redirects c_redirects] in Hr0. eapply del_redirect_in; exact Hr0.
      - intros y ty E Hy HX. unfold c' in Hy. rewrite find_upd_task in Hy. cbn [t' ti with_state with_inst t_id with_redirects c_tasks] in Hy. rewrite Eid, E in Hy.
        exists ty. repeat split; assumption.
      - intros w' y E. split; [reflexivity|]. rewrite Hit, msgs_for_nil. apply tid_eqb_neq in E. destruct (N.eqb tg w'); [apply sel_other; congruence | reflexivity].
      - auto.
      - intros y ty Hy. unfold c' in Hy. rewrite find_upd_task in Hy. cbn [t' ti with_state with_inst t_id with_redirects c_tasks] in Hy. rewrite Eid in Hy.
        destruct (tid_eqb y id) eqn:E; [apply tid_eqb_eq in E; subst y|]; congruence.
      - intros w' p y Hp [[]|Hy]. rewrite msgs_for_cons, msgs_for_nil in Hy. destruct (N.eqb tg w'); [|destruct Hy].
        cbn [flat_map dmsg_tids msg map ctask_of ct_id t' ti with_state with_inst t_id app] in Hy. destruct Hy as [<-|[]]. rewrite Eid. eapply (sp_pres _ _ _ _ HS). exact Ef.
      - intros w' p Hp. rewrite msgs_for_nil. apply (tab_pending x0 s no_pum [] w' p _ HS Hp eq_refl).
        rewrite msgs_for_cons, msgs_for_nil. destruct (N.eqb tg w'); [right | left; reflexivity]. eexists. split; [reflexivity|].
        cbn [forallb]. rewrite andb_true_r. unfold ct_ok. cbn [ctask_of ct_rv ct_rq ct_nodes is_nil orb t' ti with_state with_inst t_rq]. rewrite Hrv, N.eqb_refl, andb_true_r. cbn [andb].
        apply N.ltb_lt. unfold mn_task_ok in Hm. rewrite Est in Hm.
        destruct (nth_error (c_rqs (core_of s)) (N.to_nat (t_rq t))) eqn:E; [|discriminate].
        assert (Hlt : (N.to_nat (t_rq t) < length (c_rqs (core_of s)))%nat) by (apply nth_error_Some; congruence). lia.
      - auto.
      - intros x tx E Hx _. apply tid_eqb_eq in E. subst x. unfold c' in Hx. rewrite find_upd_task in Hx. cbn [t' ti with_state with_inst t_id with_redirects c_tasks] in Hx.
        rewrite Eid, tid_eqb_refl in Hx. inversion Hx; subst tx. clear Hx.
        split; [exact (sp_act _ _ _ _ HS _ _ Ef eq_refl)|]. split; [|split; [|split]].
        + unfold mn_task_ok, t', ti, c' in *. rewrite Est in Hm. cbn [with_state with_inst t_state t_rq upd_task with_tasks with_redirects c_rqs]. exact Hm.
        + unfold jr_ok, t', ti in *. rewrite Est in Hj. cbn [with_state with_inst t_state t_id]. exact Hj.
        + intros w1 rv1 E1. unfold t', ti in E1. cbn [with_state t_state] in E1. inversion E1; subst. reflexivity.
        + intros w' p Hp. pose proof (sp_words _ _ _ _ HS w' p id t Hp Ef eq_refl) as Hw. rewrite (Hvn w' p _ Hp), msgs_for_nil, app_nil_r in Hw.
          unfold t', ti. cbn [with_state t_state view_of]. rewrite ditems_app, Hit, sel_same.
          destruct (N.eqb tg w'); [apply LA_asg; exact Hw | rewrite app_nil_r; exact Hw]. }
    pose proof (SP_send _ _ _ _ _ _ _ S1 Hsend) as S2.
    apply (IH s1 s' S2); [|exact H]. eapply send_worker_procs_none; [exact Hsend | exact Hn].
  - set (t' := with_state ti (Waiting 0)) in *.
    apply (IH (st_core s (upd_task (core_of s) t')) s'); [| exact Hn | exact H].
    apply (SP_upd_view x0 s id t t' HS Ef); [cbn; exact Eid|]. intros _. split; [|split; [reflexivity | split]].
    + intros w' p jr Hp. cbn [t' with_state t_state view_of]. symmetry. apply Hvn with (p := p). exact Hp.
    + unfold jr_ok in *. rewrite Est in Hj. cbn [t' ti with_state with_inst t_state t_id]. exact Hj.
    + intros w1 rv1 E. cbn in E. discriminate.
Qed.

(** * The functions between the core phase and the job-layer phase do not look at the job layer *)
Definition rehq (s : st) (h : hq) : st := (mkSys (core_of s) h (s_procs (fst s)), snd s).

Lemma send_worker_rehq s w m s' h : send_worker s w m = Ok s' -> send_worker (rehq s h) w m = Ok (rehq s' h).
Proof.
  unfold send_worker. cbn [rehq fst snd s_procs]. destruct (find_proc (s_procs (fst s)) w) as [p|]; [|discriminate]. intros H; inversion H; subst. reflexivity.
Qed.
Lemma send_all_rehq msgs : forall s s' h, send_all s msgs = Ok s' -> send_all (rehq s h) msgs = Ok (rehq s' h).
Proof.
  induction msgs as [|[w m] r IH]; cbn [send_all]; intros s s' h H; [inversion H; reflexivity|].
  apply bind_ok in H. destruct H as (s1 & H1 & H). rewrite (send_worker_rehq _ _ _ _ h H1). cbn [bind]. apply IH. exact H.
Qed.
Lemma process_retracted_rehq s ret s' h : process_retracted s ret = Ok s' -> process_retracted (rehq s h) ret = Ok (rehq s' h).
Proof.
  unfold process_retracted. destruct ret; [intros H; inversion H; reflexivity|]. intros H.
  apply bind_ok in H. destruct H as ([c' groups] & H1 & H). change (core_of (rehq s h)) with (core_of s). rewrite H1. cbn [bind].
  change (st_core (rehq s h) c') with (rehq (st_core s c') h). apply send_all_rehq. exact H.
Qed.
Lemma lost_retracting_rehq w l : forall s s' h, lost_retracting s w l = Ok s' -> lost_retracting (rehq s h) w l = Ok (rehq s' h).
Proof.
  induction l as [|id r IH]; cbn [lost_retracting]; intros s s' h H; [inversion H; reflexivity|].
  change (core_of (rehq s h)) with (core_of s).
  destruct (get_task (c_tasks (core_of s)) id) as [t| |]; cbn [bind] in *; try discriminate.
  destruct (t_state t); try (apply IH; exact H). destruct (N.eqb w w0); [|apply IH; exact H].
  destruct (find_redirect (c_redirects (core_of s)) id) as [[tg rv]|].
  - apply bind_ok in H. destruct H as (s1 & H1 & H).
    match type of H1 with send_worker (st_core s ?c) _ _ = _ => change (st_core (rehq s h) c) with (rehq (st_core s c) h) end.
    rewrite (send_worker_rehq _ _ _ _ h H1). cbn [bind]. apply IH. exact H.
  - match type of H with lost_retracting (st_core s ?c) _ _ = _ => change (st_core (rehq s h) c) with (rehq (st_core s c) h) end. apply IH. exact H.
Qed.

Definition notice (m : dmsg) : Prop := match m with DNewWorker _ | DLostWorker _ | DStop => True | _ => False end.
Lemma SP_broadcast_quiet X s m : SP X s no_pum [] -> notice m -> SP X (broadcast s m) no_pum [].
Proof.
  intros [H9 Hcs Hact H1 Hd Ht H3 H4 Hpres Hpum H5 H6 H7 R1 R2] Hnt.
  assert (Hq : quiet m) by (destruct m; try destruct Hnt; exact I).
  set (f := fun p => push_down p m).
  assert (Hf : forall p, p_id (f p) = p_id p) by reflexivity.
  assert (Hfp : forall w q, find_proc (map f (s_procs (fst s))) w = Some q -> exists p, find_proc (s_procs (fst s)) w = Some p /\ q = f p).
  { intros w q Hq'. rewrite (find_map_proc f _ _ Hf) in Hq'. destruct (find_proc (s_procs (fst s)) w) as [p|]; [|discriminate]. inversion Hq'. eauto. }
  assert (Hit : forall x, ditems_msg x m = []) by (intros x; destruct m; try destruct Hnt; reflexivity).
  assert (Htd : dmsg_tids m = []) by (destruct m; try destruct Hnt; reflexivity).
  constructor; cbn [fst snd core_of hq_of broadcast with_procs s_core s_hq s_procs] in *; try assumption.
  - apply map_proc_sorted; assumption.
  - intros w q x t Hq' Hx HX. destruct (Hfp _ _ Hq') as (p & Hp & ->). unfold f. cbn [push_down p_up p_down].
    specialize (H1 w p x t Hp Hx HX). rewrite msgs_for_nil, !app_nil_r in *. rewrite ditems_app. cbn [ditems flat_map]. rewrite Hit, !app_nil_r.
    change (local (push_down p m) x) with (local p x). exact H1.
  - intros w q Hq'. destruct (Hfp _ _ Hq') as (p & Hp & ->). unfold f. cbn [push_down p_rqs p_down]. rewrite msgs_for_nil, app_nil_r.
    specialize (Hd _ _ Hp). rewrite msgs_for_nil, app_nil_r in Hd. rewrite (down_ok_quiet _ m Hq). exact Hd.
  - intros w q Hq'. destruct (Hfp _ _ Hq') as (p & Hp & ->). unfold f. cbn [push_down p_rqs p_down]. rewrite msgs_for_nil, app_nil_r.
    specialize (Ht _ _ Hp). rewrite msgs_for_nil, app_nil_r in Ht. rewrite (newrq_quiet m _ Hq). exact Ht.
  - intros w q Hq'. destruct (Hfp _ _ Hq') as (p & Hp & ->). destruct (H3 _ _ Hp) as [L1 L2 L3 L4 L5]. constructor; assumption.
  - intros w q x Hq' Hx. destruct (Hfp _ _ Hq') as (p & Hp & ->). apply (H4 w p x Hp). destruct Hx as [Hx|[[]|[]]]. left.
    unfold proc_tids, f in *. cbn [push_down p_up p_down p_backlog p_running] in Hx. rewrite flat_map_app in Hx. cbn [flat_map] in Hx. rewrite Htd, !app_nil_r in Hx. exact Hx.
  - intros w Hw. exfalso. apply Hw. reflexivity.
Qed.

(** * The job layer learns about the loss *)
Lemma set_waiting_state_spec s t s' : set_waiting_state s t = Ok s' ->
  core_of s' = core_of s /\ s_procs (fst s') = s_procs (fst s) /\ hq_chg (eq t) (hq_of s) (hq_of s') /\
  (jv (hq_of s) t = Some (Some JR) -> jv (hq_of s') t = Some (Some JW)) /\
  (forall y, jv (hq_of s) y = Some (Some JW) -> jv (hq_of s') y = Some (Some JW)).
Proof.
  unfold set_waiting_state. intros H. apply bind_ok in H. destruct H as (j & Hj & H). destruct (jt_get _ _ _ _ Hj) as [Ej Eid].
  destruct (jt_find (j_tasks j) (snd t)) as [v|] eqn:Ef; [|discriminate].
  assert (Hv : jv (hq_of s) t = Some (Some v)) by (rewrite jv_jt, Ej; cbn; rewrite Ef; reflexivity).
  destruct v; try (inversion H; subst s'; split; [reflexivity|]; split; [reflexivity|]; split; [apply hq_chg_refl|]; split; [rewrite Hv; discriminate | auto]).
  apply bind_ok in H. destruct H as (nr & _ & H). inversion H; subst s'. clear H.
  match goal with |- context [hq_set_job s ?jx] =>
    destruct (set_one_chg s (hq_set_job s jx) t j (jt_set (j_tasks j) (snd t) JW) JW eq_refl Ej) as [A B]; [congruence | reflexivity | |] end.
  - intros id. rewrite jt_set_job. cbn [j_id job_upd j_tasks]. rewrite Eid. reflexivity.
  - split; [reflexivity|]. split; [reflexivity|]. split; [exact A|]. split; [intros _; exact B|].
    intros y Hy. destruct (tid_eqb y t) eqn:E; [apply tid_eqb_eq in E; subst y; exact B|]. destruct A as [_ A]. rewrite (proj1 (A y)); [exact Hy|].
    intros <-. rewrite tid_eqb_refl in E. discriminate.
Qed.

Lemma set_waiting_all_spec ts : forall s s', set_waiting_all s ts = Ok s' ->
  core_of s' = core_of s /\ s_procs (fst s') = s_procs (fst s) /\ hq_chg (fun y => In y ts) (hq_of s) (hq_of s') /\
  (forall y, In y ts -> jactive (jv (hq_of s) y) -> jv (hq_of s') y = Some (Some JW)) /\
  (forall y, jv (hq_of s) y = Some (Some JW) -> jv (hq_of s') y = Some (Some JW)).
Proof.
  induction ts as [|t r IH]; cbn [set_waiting_all]; intros s s' H.
  - inversion H; subst. split; [reflexivity|]. split; [reflexivity|]. split; [apply hq_chg_refl|]. split; [intros y [] | auto].
  - apply bind_ok in H. destruct H as (s1 & H1 & H). destruct (set_waiting_state_spec _ _ _ H1) as (A1 & A2 & A3 & A4 & A5).
    destruct (IH _ _ H) as (B1 & B2 & B3 & B4 & B5). split; [congruence|]. split; [congruence|]. split; [|split].
    + eapply hq_chg_trans; [eapply hq_chg_weaken; [|exact A3] | eapply hq_chg_weaken; [|exact B3]]; cbv beta; [intros y <-; left; reflexivity | intros y Hy; right; exact Hy].
    + intros y [<-|Hy] [Ha|Ha].
      * apply B5. apply A5. exact Ha.
      * apply B5. apply A4. exact Ha.
      * apply B5. apply A5. exact Ha.
      * destruct (tid_eqb y t) eqn:E; [apply tid_eqb_eq in E; subst y; apply B5, A4; exact Ha|].
        apply B4; [exact Hy|]. right. destruct A3 as [_ A3]. rewrite (proj1 (A3 y)); [exact Ha|]. intros <-. rewrite tid_eqb_refl in E. discriminate.
    + intros y Hy. apply B5, A5, Hy.
Qed.

(** * The crash-limit handling *)
Lemma lost_fail_running_SP l : forall s reason s', SP x0 s no_pum [] -> lost_fail_running s reason l = Ok s' -> SP x0 s' no_pum [].
Proof.
  induction l as [|id r IH]; cbn [lost_fail_running]; intros s reason s' HS H; [inversion H; subst; exact HS|].
  destruct (find_task (c_tasks (core_of s)) id) as [t|] eqn:Ef; [|eapply IH; eassumption].
  destruct (find_task_some _ _ _ Ef) as [_ Eid].
  assert (Hfail : forall s0 k, SP x0 s0 no_pum [] -> (do s1 <- task_failed s0 None id k; lost_fail_running s1 reason r) = Ok s' -> SP x0 s' no_pum []).
  { intros s0 k S0 H0. apply bind_ok in H0. destruct H0 as (s1 & H1 & H0). eapply IH; [|exact H0].
    eapply task_failed_SPX; [|exact H1]. apply (SP_more_hidden x0); [exact S0 | intros y Hy; reflexivity]. }
  assert (Hcrash : forall t', t_id t' = id -> t_state t' = t_state t -> t_rq t' = t_rq t -> SP x0 (st_core s (upd_task (core_of s) t')) no_pum []).
  { intros t' E1 E2 E3. apply (SP_CF x0 x0); [exact HS | | auto]. apply (CF_upd_task _ _ t); [rewrite E1; exact Ef|]. intros _. rewrite E2, E3. auto. }
  destruct (t_climit t).
  - eapply Hfail; eassumption.
  - destruct (reason_is_failure reason); [|eapply IH; eassumption].
    destruct (increment_crash_counter t) as [t' limit] eqn:Ei. unfold increment_crash_counter in Ei. inversion Ei; subst t' limit. clear Ei.
    match type of H with (if ?b then _ else _) = _ => destruct b end; [eapply Hfail; [|exact H] | eapply IH; [|exact H]]; apply Hcrash; cbn; auto.
  - destruct (reason_is_failure reason); [|eapply IH; eassumption].
    unfold increment_crash_counter in H. destruct (t_climit t) eqn:Ecl; cbv beta iota zeta in H;
      try (match type of H with (if ?b then _ else _) = _ => destruct b end); first [eapply Hfail; [|exact H] | eapply IH; [|exact H]]; apply Hcrash; cbn; auto.
Qed.

(** * Frames: job layer *)
Lemma send_worker_hq' s w m s' : send_worker s w m = Ok s' -> hq_of s' = hq_of s.
Proof. unfold send_worker. destruct (find_proc _ w); [|discriminate]. intros H; inversion H; reflexivity. Qed.
Lemma lost_retracting_hq' w l : forall s s', lost_retracting s w l = Ok s' -> hq_of s' = hq_of s.
Proof.
  induction l as [|id r IH]; cbn [lost_retracting]; intros s s' H; [inversion H; reflexivity|].
  apply bind_ok in H. destruct H as (t & _ & H). destruct (t_state t); try (apply IH; exact H). destruct (N.eqb w w0); [|apply IH; exact H].
  destruct (find_redirect (c_redirects (core_of s)) id) as [[tg rv]|].
  - apply bind_ok in H. destruct H as (s1 & H1 & H). rewrite (IH _ _ H), (send_worker_hq' _ _ _ _ H1). reflexivity.
  - rewrite (IH _ _ H). reflexivity.
Qed.

(** * The theorem *)
Lemma filter_keep_head w w0 rest : N.eqb w w0 = false -> filter (fun x => negb (N.eqb x w)) (w0 :: rest) = w0 :: filter (fun x => negb (N.eqb x w)) rest.
Proof. intros E. cbn [filter]. rewrite N.eqb_sym, E. reflexivity. Qed.

Theorem lost_PROTO s w reason ao po to s' outs :
  PROTO s -> UH s -> WI (s_core s) -> step s (OpLost w reason ao po to) = Ok (s', outs) -> PROTO s'.
Proof.
  intros HP HU HW H. cbn [step] in H. destruct (find_proc (s_procs s) w) as [pw|] eqn:Hpw; [|discriminate].
  unfold on_remove_worker in H. cbv zeta in H. change (core_of (s, [])) with (s_core s) in H.
  destruct (find_worker (c_workers (s_core s)) w) as [wk|] eqn:Hwk; [|discriminate].
  apply bind_ok in H. destruct H as ([[c2 running] retracted] & Hr & H).
  destruct (negb (perm_of_set to (map t_id (c_tasks c2)))); [discriminate|].
  apply bind_ok in H. destruct H as (s3 & H3 & H). apply bind_ok in H. destruct H as (s4 & H4 & H).
  apply bind_ok in H. destruct H as (s6 & H6 & H). apply bind_ok in H. destruct H as (s7 & H7 & H). inversion H; subst s' outs. clear H.
  destruct HU as [Hcs Hpa]. pose proof (SP_init s [] HP Hcs Hpa) as S.
  set (s0 := (with_procs (fst (s, @nil out)) (del_proc (s_procs (fst (s, @nil out))) w), snd (s, @nil out))) in *.
  pose proof (SP_del_proc x0 (s, []) w S) as S0. fold s0 in S0.
  assert (Hn0 : find_proc (s_procs (fst s0)) w = None).
  { cbn [s0 fst with_procs s_procs]. rewrite (find_del_proc _ _ _ (pr_sorted _ HP)), N.eqb_refl. reflexivity. }
  set (c0 := with_workers (s_core s) (del_worker (c_workers (s_core s)) w)) in *.
  assert (Sc0 : SP x0 (st_core s0 c0) no_pum []) by (apply (SP_CF x0 x0); [exact S0 | apply CF_tasks_same; auto | auto]).
  (* phase 1 *)
  assert (P1 : SP (Xr running x0) (st_core s0 c2) no_pum [] /\
               (forall y, In y running -> exists t2, find_task (c_tasks c2) y = Some t2 /\ t_state t2 = Waiting 0) /\
               (forall y, In y running -> silent s0 y /\ jactive (jv (s_hq s) y))).
  { destruct (w_assign wk) as [a p f|mt root] eqn:Ea.
    - destruct (negb (perm_of_set ao a && perm_of_set po p)) eqn:Eperm; [discriminate|]. apply negb_false_iff, andb_true_iff in Eperm. destruct Eperm as [Pa Pp].
      pose proof HW as HW'. destruct HW as (Hsw & Hsr & Hv & Hb). destruct (wi_sets _ _ _ Hv w wk a p f Hwk Ea) as [Sa Spp].
      destruct (perm_of_set_spec _ _ Pa Sa) as [Nda Ma]. destruct (perm_of_set_spec _ _ Pp Spp) as [Ndp Mp].
      apply bind_ok in Hr. destruct Hr as (c1 & Hlp & Hla).
      destruct (lost_prefilled_SP x0 s0 w po c0 c1 Sc0 Hn0 Ndp) as [S1 F1]; [| exact Hlp |].
      { intros id t Hin Hf. pose proof (WI_member_P _ _ _ _ _ _ id t HW' Hwk Ea (proj1 (Mp id) Hin) Hf) as Hpl.
        destruct (t_state t); cbn [pl] in Hpl; try discriminate. inversion Hpl. reflexivity. }
      assert (Hst_a : forall id t, In id ao -> find_task (c_tasks (s_core s)) id = Some t ->
                 match t_state t with Assigned w1 _ | Running w1 _ => w1 = w | Retracting _ => True | _ => False end).
      { intros id t Hin Hf. destruct (WI_member_A _ _ _ _ _ _ id t HW' Hwk Ea (proj1 (Ma id) Hin) Hf) as [Hpl|[Hpl _]];
          destruct (t_state t); cbn [pl] in Hpl; try discriminate; try exact I; inversion Hpl; reflexivity. }
      assert (Hnotp : forall id, In id ao -> ~ In id po).
      { intros id Hin Hin2. destruct (find_task (c_tasks (s_core s)) id) as [t|] eqn:Hf.
        - pose proof (Hst_a id t Hin Hf) as X1. pose proof (WI_member_P _ _ _ _ _ _ id t HW' Hwk Ea (proj1 (Mp id) Hin2) Hf) as X2.
          destruct (t_state t); cbn [pl] in X2; try discriminate; exact X1.
        - destruct (WI_absent_member _ _ _ _ _ _ id HW' Hwk Ea Hf) as [X1 _]. rewrite (proj1 (Ma id) Hin) in X1. discriminate. }
      destruct (lost_assigned_SP s0 w ao x0 c1 [] [] c2 running retracted) as (S2 & R2 & O2 & _); [| exact Hn0 | exact Nda | auto | | intros y [] | exact Hla |].
      { eapply SP_Xext; [exact S1 | intros y; reflexivity]. }
      { intros id t Hin Hf. rewrite (F1 id (Hnotp id Hin)) in Hf. apply (Hst_a id t Hin Hf). }
      split; [exact S2|]. split; [exact R2|]. intros y Hy. destruct (O2 y Hy) as [[]|(Hin & t & w1 & rv1 & Hf & Est)].
      rewrite (F1 y (Hnotp y Hin)) in Hf. change (c_tasks c0) with (c_tasks (s_core s)) in Hf.
      pose proof (Hst_a y t Hin Hf) as Hw1. rewrite Est in Hw1. subst w1. split.
      + apply (silent_of_SP x0 s0 y t w S0 Hf eq_refl Hn0). rewrite Est. reflexivity.
      + exact (proj2 (Hpa y t Hf)).
    - apply bind_ok in Hr. destruct Hr as (t & Ht & Hr). unfold get_task in Ht. change (c_tasks c0) with (c_tasks (s_core s)) in Ht.
      destruct (find_task (c_tasks (s_core s)) mt) as [t0|] eqn:Hf; [|discriminate]. inversion Ht; subst t0. clear Ht.
      destruct (find_task_some _ _ _ Hf) as [_ Eid].
      destruct (t_state t) as [n|w1 rv1|w1|w1|w1 rv1|ws|] eqn:Est; try discriminate. destruct ws as [|w0 rest]; [discriminate|].
      destruct (N.eqb w w0) eqn:Ew.
      + apply N.eqb_eq in Ew. subst w0. apply bind_ok in Hr. destruct Hr as (c1 & Hrs & Hr). apply bind_ok in Hr. destruct Hr as ([qs ret] & _ & Hr).
        inversion Hr; subst c2 running retracted. clear Hr.
        set (t2 := with_inst (with_state t (Waiting 0)) (t_inst t + 1)) in *.
        assert (Et1 : c_tasks c1 = c_tasks (s_core s)) by (rewrite (BijReact.reset_mn_all_tasks _ _ _ Hrs); reflexivity).
        assert (S1 : SP x0 (st_core s0 c1) no_pum []).
        { apply (SP_ext x0 (st_core (st_core s0 c0) c1)); [|reflexivity|reflexivity|reflexivity]. apply (SP_CF x0 x0); [exact Sc0 | eapply reset_mn_all_CF; exact Hrs | auto]. }
        assert (Hf1 : find_task (c_tasks (core_of (st_core s0 c1))) mt = Some t) by (cbn [core_of st_core with_core s_core fst]; rewrite Et1; exact Hf).
        pose proof (SP_upd_hide x0 (st_core s0 c1) mt t t2 S1 Hf1 Eid) as S2.
        split; [|split].
        * apply (SP_ext (Xr [mt] x0) (st_core (st_core (st_core s0 c1) (upd_task c1 t2)) (with_queues (upd_task c1 t2) qs))); [|reflexivity|reflexivity|reflexivity].
          apply (SP_CF (xadd x0 mt) (Xr [mt] x0)); [exact S2 | apply CF_tasks_same; auto|].
          intros y Hy. unfold Xr, xadd in *. cbn [tid_mem] in Hy. rewrite orb_false_r in Hy. exact Hy.
        * intros y [<-|[]]. exists t2. split; [|reflexivity]. cbn [with_queues c_tasks]. rewrite find_upd_task. cbn [t2 with_inst with_state t_id]. rewrite Eid, tid_eqb_refl. reflexivity.
        * intros y [<-|[]]. split; [|exact (proj2 (Hpa mt t Hf))]. apply (silent_of_SP x0 s0 mt t w S0 Hf eq_refl Hn0). rewrite Est. reflexivity.
      + inversion Hr; subst c2 running retracted. clear Hr. split; [|split; intros y []].
        apply (SP_Xext x0); [|intros y; reflexivity].
        apply (SP_upd_view x0 (st_core s0 c0) mt t _ Sc0 Hf); [cbn; exact Eid|]. intros _. split; [|split; [|split]].
        * intros w' p jr Hp. cbn [with_state t_state filter]. rewrite (N.eqb_sym w0 w), Ew. cbn [negb view_of]. rewrite Est. reflexivity.
        * pose proof (sp_mnt _ _ _ _ Sc0 _ _ Hf eq_refl) as M. unfold mn_task_ok in *. rewrite Est in M. cbn [with_state t_state t_rq]. exact M.
        * reflexivity.
        * intros w1 rv1 E. cbn in E. discriminate. }
  destruct P1 as (S2 & R2 & Q2).
  (* the job layer after the loss has been recorded *)
  unfold process_worker_lost in H6. apply bind_ok in H6. destruct H6 as (s6' & H6 & E6). inversion E6; subst s6. clear E6.
  destruct (set_waiting_all_spec _ _ _ H6) as (Ec6 & Ep6 & Hchg & Hval & _).
  assert (Eh5 : hq_of (broadcast s4 (DLostWorker w)) = s_hq s).
  { change (hq_of (broadcast s4 (DLostWorker w))) with (hq_of s4). rewrite (process_retracted_hq _ _ _ H4), (lost_retracting_hq' _ _ _ _ H3). reflexivity. }
  rewrite Eh5 in Hchg, Hval. set (h6 := hq_of s6') in *.
  assert (Sv2 : SP x0 (rehq (st_core s0 c2) h6) no_pum []).
  { assert (Sh : SP (Xr running x0) (rehq (st_core s0 c2) h6) no_pum []).
    { apply (SP_hq_chg (Xr running x0) (fun y => In y running) (st_core s0 c2) no_pum [] (rehq (st_core s0 c2) h6) S2); [reflexivity | reflexivity | exact Hchg|].
      intros y t Hy HX Hin. unfold Xr in HX. apply orb_false_iff in HX. destruct HX as [HX _]. apply tid_mem_In in Hin. congruence. }
    apply (SP_ext x0 (mkSys (core_of (rehq (st_core s0 c2) h6)) (hq_of (rehq (st_core s0 c2) h6)) (s_procs (fst (rehq (st_core s0 c2) h6))), snd (rehq (st_core s0 c2) h6)));
      [|reflexivity|reflexivity|reflexivity].
    apply (SP_gen (Xr running x0) (Xr running x0) x0 _ no_pum [] _ _ _ no_pum [] Sh (sp_cs _ _ _ _ Sh) eq_refl (sp_rvr _ _ _ _ Sh)).
    - intros y t' E Hy _. exists t'. repeat split; assumption.
    - intros w' y _. split; reflexivity.
    - auto.
    - intros y t' Hy. congruence.
    - intros w' p y Hp [[]|[]].
    - intros w' p Hp. split; [exact (sp_down _ _ _ _ Sh _ _ Hp) | reflexivity].
    - auto.
    - intros y t' E Hy _. unfold Xr in E. rewrite orb_false_r in E. apply tid_mem_In in E.
      destruct (R2 y E) as (t2 & Hf2 & Est2). change (core_of (rehq (st_core s0 c2) h6)) with c2 in Hy. rewrite Hf2 in Hy. inversion Hy; subst t'. clear Hy.
      destruct (Q2 y E) as [Hsil Hja]. pose proof (Hval y E Hja) as Hjw. change (hq_of (rehq (st_core s0 c2) h6)) with h6.
      split; [left; exact Hjw|]. split; [unfold mn_task_ok; rewrite Est2; reflexivity|]. split; [|split].
      + unfold jr_ok. rewrite Est2. rewrite (proj2 (find_task_some _ _ _ Hf2)), job_running_jv, Hjw. reflexivity.
      + intros w1 rv1 E1. rewrite Est2 in E1. discriminate.
      + intros w' p Hp. rewrite Est2. cbn [view_of no_pum app]. rewrite msgs_for_nil, app_nil_r.
        destruct (Hsil w' p Hp) as (A & B & C). rewrite A, B, C. reflexivity. }
  (* the sends, on the state with the final job layer *)
  pose proof (lost_retracting_rehq _ _ _ _ h6 H3) as H3v. change (rehq (st_core s0 c2) h6) with (rehq (st_core s0 c2) h6) in H3v.
  destruct (lost_retracting_SP w to _ _ Sv2 Hn0 H3v) as [Sv3 _].
  pose proof (process_retracted_SP _ _ _ _ _ Sv3 (process_retracted_rehq _ _ _ h6 H4)) as Sv4.
  pose proof (SP_broadcast_quiet x0 _ (DLostWorker w) Sv4 I) as Sv5.
  assert (S6 : SP x0 (emit s6' (OEv (EvWLost w reason))) no_pum []).
  { eapply SP_ext; [exact Sv5 | exact Ec6 | reflexivity | exact Ep6]. }
  change (fst (ask_scheduling s7)) with (fst (ask_scheduling s7)).
  apply (SP_final (ask_scheduling s7)). apply SP_ask. eapply lost_fail_running_SP; [exact S6 | exact H7].
Qed.
