(** C03, the dependency invariant, part 6: where the scheduler queues enter.

    [map_one] turns a task taken from a ready queue into [Assigned] without looking at its
    dependency counter, [prefill_mark] does the same for [Prefilled], [lost_prefilled] re-queues
    whatever is in the prefill set.  The local fact [QA] - every id in a ready entry or prefill set
    of the CURRENT queues carries no positive counter - follows from the queue invariant ([QSTMT],
    a premise about the state at the beginning of the operation) and is maintained because these
    functions only remove ids from the queues or move them from a ready entry to the prefill set,
    and only move task states between zero-counter states. *)
From HQ Require Import Base.Prelude Cluster.Types Cluster.Core Cluster.Reactor Cluster.Worker Cluster.Server Cluster.Sys Cluster.Monitors Cluster.ProofsJob Cluster.ProofsMore Cluster.ProofsTerminal Cluster.ProofsStep Cluster.BijBase Cluster.BijCore Cluster.BijHq Cluster.BijSt Cluster.BijReact Cluster.FrameGen Cluster.CrashFrame Cluster.InvDBase Cluster.InvDMap Cluster.InvDSpec Cluster.InvDRem Cluster.InvDReact.
From Coq Require Import ZArith Lia Sorting.Sorted.
Local Open Scope N_scope.

Arguments N.add : simpl never.
Arguments N.sub : simpl never.

(** * Membership in the queues *)
Definition inr (es : list qentry) (x : tid) : Prop := exists e, In e es /\ In x (qe_ids e).
Definition inp (pf : option (Z * list tid)) (x : tid) : Prop := exists pp ts, pf = Some (pp, ts) /\ In x ts.
Definition inq (q : queue) (x : tid) : Prop := inr (q_ready q) x \/ inp (q_prefill q) x.
Definition allql (qs : list queue) (x : tid) : Prop := exists rq q, nth_error qs rq = Some q /\ inq q x.
Definition allq (c : core) (x : tid) : Prop := allql (c_queues c) x.

Definition QA (c : core) : Prop := forall id t, allq c id -> fm c id = Some t -> z_old (t_state t).

Lemma in_ready_inr q x : in_ready q x = true <-> inr (q_ready q) x.
Proof.
  unfold in_ready, inr. rewrite existsb_exists. split; intros (e & He & Hx); exists e; (split; [exact He|]); apply tid_mem_In; exact Hx.
Qed.
Lemma in_prefill_inp q x : in_prefill q x = true <-> inp (q_prefill q) x.
Proof.
  unfold in_prefill, inp. destruct (q_prefill q) as [[pp ts]|].
  - rewrite tid_mem_In. split; [intros H; exists pp, ts; auto | intros (pp' & ts' & E & H); inversion E; subst; exact H].
  - split; [discriminate | intros (pp & ts & E & _); discriminate].
Qed.

(** The premise about the queues, in the form the queue invariant delivers it. *)
Definition QSTMT (c : core) : Prop :=
  (forall t, In t (c_tasks c) ->
     let q := queue_of c (t_rq t) in
     match t_state t with
     | Waiting n => in_ready q (t_id t) = N.eqb n 0 /\ in_prefill q (t_id t) = false
     | Prefilled _ => in_prefill q (t_id t) = true /\ in_ready q (t_id t) = false
     | Retracting _ => in_prefill q (t_id t) = false /\
                       (in_ready q (t_id t) = match find_redirect (c_redirects c) (t_id t) with Some _ => false | None => true end)
     | Assigned _ _ | Running _ _ | RunningMN _ => in_ready q (t_id t) = false /\ in_prefill q (t_id t) = false
     | Finished => False
     end) /\
  (forall rq q id, nth_error (c_queues c) rq = Some q -> (in_ready q id = true \/ in_prefill q id = true) ->
     exists t, find_task (c_tasks c) id = Some t /\ N.to_nat (t_rq t) = rq).

Lemma QSTMT_QA c : QSTMT c -> QA c.
Proof.
  intros [Q1 Q2] id t (rq & q & Hq & Hin) Ef.
  assert (Hb : in_ready q id = true \/ in_prefill q id = true).
  { destruct Hin as [H|H]; [left; apply in_ready_inr; exact H | right; apply in_prefill_inp; exact H]. }
  destruct (Q2 _ _ _ Hq Hb) as (t' & Ef' & Hrq). unfold fm in Ef. rewrite Ef in Ef'. inversion Ef'; subst t'.
  destruct (find_task_some _ _ _ Ef) as [Hint Hid].
  specialize (Q1 t Hint). cbv zeta in Q1. unfold queue_of in Q1. rewrite Hrq, Hq, Hid in Q1.
  destruct (t_state t); try exact I. cbn. destruct Q1 as [Q1 Q1'].
  destruct Hb as [Hb|Hb]; [|congruence]. rewrite Hb in Q1. symmetry in Q1. apply N.eqb_eq in Q1. exact Q1.
Qed.

Lemma QA_step c c' : QA c -> scr c c' -> (forall x, allq c' x -> allq c x) -> QA c'.
Proof.
  intros Q [_ S] Hsub id t' Ha Ef. destruct (SC_some' _ _ _ _ S Ef) as (t & Et & _ & St).
  eapply st_step_z_old; [exact St|]. eapply Q; [apply Hsub; exact Ha | exact Et].
Qed.

Lemma QA_tasks_queues c c' : c_tasks c' = c_tasks c -> c_queues c' = c_queues c -> QA c -> QA c'.
Proof. intros Et Eq Q id t Ha Ef. unfold allq in Ha. rewrite Eq in Ha. unfold fm in Ef. rewrite Et in Ef. eapply Q; eassumption. Qed.

(** * Indexing *)
Lemma nth_queue_error qs : forall i q, nth_queue qs i = Ok q -> nth_error qs i = Some q.
Proof.
  induction qs as [|h t IH]; intros i q H; [destruct i; discriminate|].
  destruct i as [|k]; cbn in *; [inversion H; reflexivity | apply IH; exact H].
Qed.

Lemma nth_error_set_queue qs : forall i q' j q0,
  nth_error (set_queue qs i q') j = Some q0 -> (j = i /\ q0 = q') \/ (j <> i /\ nth_error qs j = Some q0).
Proof.
  induction qs as [|h t IH]; intros i q' j q0 H; [destruct i, j; discriminate|].
  destruct i as [|i], j as [|j]; cbn in H.
  - inversion H; subst. left; auto.
  - right. split; [discriminate | exact H].
  - right. split; [discriminate | exact H].
  - destruct (IH _ _ _ _ H) as [[-> ->]|[Hne Hn]]; [left; auto | right; split; [congruence | exact Hn]].
Qed.

Lemma allql_set qs i q q' x :
  nth_error qs i = Some q -> (forall y, inq q' y -> inq q y) -> allql (set_queue qs i q') x -> allql qs x.
Proof.
  intros Hq Hsub (rq & q0 & H0 & Hin). destruct (nth_error_set_queue _ _ _ _ _ H0) as [[-> ->]|[_ Hn]].
  - exists i, q. split; [exact Hq | apply Hsub; exact Hin].
  - exists rq, q0. split; assumption.
Qed.

(** * The taking functions only take what is there and leave a part of what was there *)
Lemma take_n_app {A} n : forall (l a b : list A), take_n n l = (a, b) -> l = a ++ b.
Proof.
  induction n as [|k IH]; intros l a b H; [inversion H; reflexivity|].
  destruct l as [|h t]; cbn [take_n] in H; [inversion H; reflexivity|].
  destruct (take_n k t) as [a0 b0] eqn:E. inversion H; subst. cbn. f_equal. apply IH. exact E.
Qed.

Lemma take_from_first_sub es count a es' c' :
  take_from_first es count = Ok (a, es', c') ->
  (forall x, In x a -> inr es x) /\ (forall x, inr es' x -> inr es x).
Proof.
  unfold take_from_first. destruct es as [|e t]; [discriminate|].
  destruct (qe_more e).
  - destruct (take_n (N.to_nat count) (qe_ids e)) as [a0 b0] eqn:E. pose proof (take_n_app _ _ _ _ E) as Happ.
    intros H.
    assert (Ha : a = a0 /\ ((b0 = [] /\ es' = t) \/ es' = mkQE (qe_prio e) true b0 :: t)).
    { destruct b0; inversion H; subst; split; auto. }
    destruct Ha as [-> Hes]. split.
    + intros x Hx. exists e. split; [left; reflexivity | rewrite Happ; apply in_app_iff; left; exact Hx].
    + intros x (e0 & He0 & Hx). destruct Hes as [[_ ->]| ->]; [exists e0; split; [right; exact He0 | exact Hx]|].
      destruct He0 as [<-|He0]; [|exists e0; split; [right; exact He0 | exact Hx]].
      exists e. split; [left; reflexivity | rewrite Happ; apply in_app_iff; right; exact Hx].
  - destruct (N.eqb count 0); [discriminate|]. intros H. inversion H; subst. split.
    + intros x Hx. exists e. split; [left; reflexivity | exact Hx].
    + intros x (e0 & He0 & Hx). exists e0. split; [right; exact He0 | exact Hx].
Qed.

Lemma take_loop_sub fuel : forall es count acc ids es',
  take_loop fuel es count acc = Ok (ids, es') ->
  (forall x, In x ids -> In x acc \/ inr es x) /\ (forall x, inr es' x -> inr es x).
Proof.
  induction fuel as [|k IH]; intros es count acc ids es' H; cbn [take_loop] in H.
  - destruct (N.eqb count 0); [|discriminate]. inversion H; subst. split; auto.
  - destruct (N.eqb count 0); [inversion H; subst; split; auto|].
    apply bind_ok in H. destruct H as ([[a es1] c1] & H1 & H).
    destruct (take_from_first_sub _ _ _ _ _ H1) as [A1 A2]. destruct (IH _ _ _ _ _ H) as [B1 B2]. split.
    + intros x Hx. destruct (B1 x Hx) as [Hx'|Hx']; [|right; apply A2; exact Hx'].
      apply in_app_iff in Hx'. destruct Hx' as [Hx'|Hx']; [left; exact Hx' | right; apply A1; exact Hx'].
    + intros x Hx. apply A2, B2, Hx.
Qed.

Lemma fold_remove_sub a : forall (ts : list tid) x, In x (fold_left (fun acc y => tid_remove y acc) a ts) -> In x ts.
Proof.
  induction a as [|h t IH]; cbn [fold_left]; intros ts x H; [exact H|]. eapply tid_remove_sub. eapply IH. exact H.
Qed.

Lemma drain_prefill_sub pf order count a pf' c' :
  drain_prefill pf order count = Ok (a, pf', c') ->
  (forall x, In x a -> inp pf x) /\ (forall x, inp pf' x -> inp pf x).
Proof.
  unfold drain_prefill. destruct pf as [[pp ts]|].
  - destruct (negb (perm_of_set order ts)) eqn:Ep; [discriminate|]. apply negb_false_iff in Ep.
    unfold perm_of_set in Ep. apply andb_true_iff in Ep. destruct Ep as [Ep _]. apply andb_true_iff in Ep. destruct Ep as [_ Ep].
    rewrite forallb_forall in Ep.
    destruct (take_n (N.to_nat count) order) as [a0 b0] eqn:E. pose proof (take_n_app _ _ _ _ E) as Happ.
    set (rest := fold_left (fun acc x => tid_remove x acc) a0 ts). intros H.
    assert (Ha : a = a0 /\ (pf' = None \/ pf' = Some (pp, rest))).
    { clearbody rest. destruct rest; inversion H; subst; split; auto. }
    destruct Ha as [-> Hpf]. split.
    + intros x Hx. exists pp, ts. split; [reflexivity|]. apply tid_mem_In. apply Ep. rewrite Happ. apply in_app_iff. left; exact Hx.
    + intros x (pp' & ts' & E' & Hx). destruct Hpf as [->| ->]; [discriminate|]. inversion E'; subst.
      exists pp', ts. split; [reflexivity|]. eapply fold_remove_sub. exact Hx.
  - intros H. inversion H; subst. split; [intros x [] | intros x (pp & ts & E & _); discriminate].
Qed.

Lemma q_take_tasks_sub q count order ids q' :
  q_take_tasks q count order = Ok (ids, q') -> (forall x, In x ids -> inq q x) /\ (forall x, inq q' x -> inq q x).
Proof.
  unfold q_take_tasks. destruct (q_prefill q) as [[pp ts0]|] eqn:Epf.
  - match goal with |- (if ?b then _ else _) = _ -> _ => destruct b end.
    + intros H. apply bind_ok in H. destruct H as ([[a es1] c1] & H1 & H).
      apply bind_ok in H. destruct H as ([[b pf] c2] & H2 & H). apply bind_ok in H. destruct H as ([c es2] & H3 & H). inversion H; subst.
      assert (A : (forall x, In x a -> inr (q_ready q) x) /\ (forall x, inr es1 x -> inr (q_ready q) x)).
      { destruct (N.ltb 0 count); [eapply take_from_first_sub; exact H1 | inversion H1; subst; split; [intros x [] | auto]]. }
      destruct A as [A1 A2]. destruct (drain_prefill_sub _ _ _ _ _ _ H2) as [B1 B2]. destruct (take_loop_sub _ _ _ _ _ _ H3) as [C1 C2].
      split.
      * intros x Hx. apply in_app_iff in Hx. destruct Hx as [Hx|Hx]; [left; apply A1; exact Hx|].
        apply in_app_iff in Hx. destruct Hx as [Hx|Hx]; [right; rewrite Epf; apply B1; exact Hx|].
        destruct (C1 x Hx) as [[]|Hx']. left. apply A2. exact Hx'.
      * intros x [Hx|Hx]; [left; apply A2, C2; exact Hx | right; rewrite Epf; apply B2; exact Hx].
    + intros H. apply bind_ok in H. destruct H as ([[b pf] c2] & H2 & H). apply bind_ok in H. destruct H as ([c es2] & H3 & H). inversion H; subst.
      destruct (drain_prefill_sub _ _ _ _ _ _ H2) as [B1 B2]. destruct (take_loop_sub _ _ _ _ _ _ H3) as [C1 C2].
      split.
      * intros x Hx. apply in_app_iff in Hx. destruct Hx as [Hx|Hx]; [right; rewrite Epf; apply B1; exact Hx|].
        destruct (C1 x Hx) as [[]|Hx']. left. exact Hx'.
      * intros x [Hx|Hx]; [left; apply C2; exact Hx | right; rewrite Epf; apply B2; exact Hx].
  - intros H. apply bind_ok in H. destruct H as ([ids0 es] & H3 & H). inversion H; subst.
    destruct (take_loop_sub _ _ _ _ _ _ H3) as [C1 C2]. split.
    + intros x Hx. destruct (C1 x Hx) as [[]|Hx']. left; exact Hx'.
    + intros x [Hx|Hx]; [left; apply C2; exact Hx | destruct Hx as (pp & ts & E & _); discriminate].
Qed.

Lemma q_take_one_sub q id q' : q_take_one q = Some (id, q') -> inq q id /\ (forall x, inq q' x -> inq q x).
Proof.
  unfold q_take_one. destruct (q_ready q) as [|e t] eqn:Er; [discriminate|].
  destruct (qe_ids e) as [|x0 rest] eqn:Ei; [discriminate|].
  intros H.
  assert (Hq : id = x0 /\ q_prefill q' = q_prefill q /\ (q_ready q' = t \/ q_ready q' = mkQE (qe_prio e) true rest :: t)).
  { destruct (qe_more e); [destruct rest|]; inversion H; subst; cbn; auto. }
  destruct Hq as (-> & Hp & Hr). split.
  - left. rewrite Er. exists e. split; [left; reflexivity | rewrite Ei; left; reflexivity].
  - intros x [Hx|Hx]; [|right; rewrite <- Hp; exact Hx]. left. rewrite Er. destruct Hx as (e0 & He0 & Hx0).
    destruct Hr as [Hr|Hr]; rewrite Hr in He0; [exists e0; split; [right; exact He0 | exact Hx0]|].
    destruct He0 as [<-|He0]; [exists e; split; [left; reflexivity | rewrite Ei; right; exact Hx0] | exists e0; split; [right; exact He0 | exact Hx0]].
Qed.

Lemma q_take_tasks_for_prefill_sub q count ids q' :
  q_take_tasks_for_prefill q count = Ok (ids, q') -> (forall x, In x ids -> inq q x) /\ (forall x, inq q' x -> inq q x).
Proof.
  unfold q_take_tasks_for_prefill. destruct (q_ready q) as [|e t] eqn:Er; [discriminate|]. intros H.
  apply bind_ok in H. destruct H as ([[ids0 es] c1] & H1 & H).
  destruct (take_from_first_sub _ _ _ _ _ H1) as [A1 A2]. rewrite <- Er in A1, A2.
  destruct (q_prefill q) as [[pp ts]|] eqn:Epf.
  - destruct (Z.eqb pp (qe_prio e)); [|discriminate]. inversion H; subst. split.
    + intros x Hx. left. apply A1. exact Hx.
    + intros x [Hx|(pp' & ts' & E & Hx)]; [left; apply A2; exact Hx|]. cbn in E. inversion E; subst.
      apply tia_in in Hx. destruct Hx as [Hx|Hx]; [left; apply A1; exact Hx | right; exists pp', ts; auto].
  - inversion H; subst. split.
    + intros x Hx. left. apply A1. exact Hx.
    + intros x [Hx|(pp' & ts' & E & Hx)]; [left; apply A2; exact Hx|]. cbn in E. inversion E; subst.
      apply tia_in in Hx. destruct Hx as [Hx|[]]. left; apply A1; exact Hx.
Qed.

Lemma qe_add_sub es id p x : inr (qe_add es id p) x -> x = id \/ inr es x.
Proof.
  induction es as [|e t IH]; cbn [qe_add].
  - intros (e0 & [<-|[]] & Hx). cbn in Hx. destruct Hx as [<-|[]]. left; reflexivity.
  - destruct (Z.eqb (qe_prio e) p).
    + intros (e0 & [<-|He0] & Hx).
      * cbn in Hx. destruct (tid_insert_sub _ _ _ Hx) as [->|Hx']; [left; reflexivity | right; exists e; split; [left; reflexivity | exact Hx']].
      * right. exists e0. split; [right; exact He0 | exact Hx].
    + destruct (Z.ltb (qe_prio e) p).
      * intros (e0 & [<-|He0] & Hx); [cbn in Hx; destruct Hx as [<-|[]]; left; reflexivity | right; exists e0; split; assumption].
      * intros (e0 & [<-|He0] & Hx); [right; exists e; split; [left; reflexivity | exact Hx]|].
        destruct (IH (ex_intro _ e0 (conj He0 Hx))) as [->|(e1 & He1 & Hx1)]; [left; reflexivity | right; exists e1; split; [right; exact He1 | exact Hx1]].
Qed.

Lemma q_move_prefilled_to_ready_sub q id q' :
  q_move_prefilled_to_ready q id = Ok q' -> inq q id /\ (forall x, inq q' x -> inq q x).
Proof.
  unfold q_move_prefilled_to_ready. destruct (q_prefill q) as [[pp ts]|] eqn:Epf; [|discriminate].
  destruct (tid_mem id ts) eqn:Em; [|discriminate]. apply tid_mem_In in Em. intros H. inversion H; subst.
  assert (Hid : inq q id) by (right; rewrite Epf; exists pp, ts; auto).
  split; [exact Hid|]. intros x [Hx|Hx].
  - cbn in Hx. destruct (qe_add_sub _ _ _ _ Hx) as [->|Hx']; [exact Hid | left; exact Hx'].
  - cbn in Hx. destruct Hx as (pp' & ts' & E & Hx). right. rewrite Epf. exists pp, ts. split; [reflexivity|].
    destruct (tid_remove id ts) eqn:Er; [discriminate|]. inversion E; subst. rewrite <- Er in Hx. eapply tid_remove_sub. exact Hx.
Qed.

(** * One scheduling round *)
Lemma map_one_scr c m id w v rqres c' m' :
  (forall t, fm c id = Some t -> z_old (t_state t)) ->
  map_one c m id w v rqres = Ok (c', m') -> scr c c' /\ c_queues c' = c_queues c.
Proof.
  intros HZ H. unfold map_one in H.
  apply bind_ok in H. destruct H as (wk & _ & H). apply bind_ok in H. destruct H as (wk' & _ & H).
  apply bind_ok in H. destruct H as (t & Ht & H).
  assert (Hf : find_task (c_tasks c) id = Some t) by (apply get_task_find; exact Ht).
  pose proof (HZ t Hf) as Z.
  destruct (t_state t) eqn:Est; try discriminate.
  - inversion H; subst. split; [|reflexivity].
    eapply (scr_upd c c _ id t); [reflexivity | exact Hf | reflexivity | edges | right; split; [rewrite Est; exact Z | exact I]].
  - destruct (find_worker _ w0) as [wo|]; [|discriminate].
    apply bind_ok in H. destruct H as (wo' & _ & H).
    destruct (find_redirect _ id); [discriminate|]. inversion H; subst. split; [|reflexivity].
    eapply (scr_upd c c _ id t); [reflexivity | exact Hf | reflexivity | edges | ststep].
  - destruct (find_redirect _ id) as [[ot vo]|].
    + inv_binds H. inversion H; subst. split; [apply scr_tasks|]; reflexivity.
    + inversion H; subst. split; [apply scr_tasks|]; reflexivity.
Qed.

Definition zlist (c : core) (l : list tid) : Prop := forall id t, In id l -> fm c id = Some t -> z_old (t_state t).

Lemma zlist_scr c c' l : scr c c' -> zlist c l -> zlist c' l.
Proof.
  intros [_ S] Z id t' Hin E'. destruct (SC_some' _ _ _ _ S E') as (t & Et & _ & St).
  eapply st_step_z_old; [exact St | eapply Z; eassumption].
Qed.

Lemma rr_pass_scr counts : forall c m tasks v rqres c' m' counts' rest,
  zlist c tasks -> rr_pass c m counts tasks v rqres = Ok (c', m', counts', rest) ->
  scr c c' /\ c_queues c' = c_queues c /\ incl rest tasks.
Proof.
  induction counts as [|[w n] r IH]; intros c m tasks v rqres c' m' counts' rest Z H.
  - destruct tasks; cbn [rr_pass] in H; inversion H; subst; (split; [apply scr_refl | split; [reflexivity|]]); [intros x [] | apply incl_refl].
  - destruct tasks as [|id tl]; cbn [rr_pass] in H; [inversion H; subst; split; [apply scr_refl | split; [reflexivity | intros x []]]|].
    destruct (N.ltb 0 n).
    + apply bind_ok in H. destruct H as ([c1 m1] & H1 & H).
      apply bind_ok in H. destruct H as ([[[c2 m2] r'] tl'] & H2 & H). inversion H; subst.
      destruct (map_one_scr _ _ _ _ _ _ _ _ (fun t Ht => Z id t (or_introl eq_refl) Ht) H1) as [S1 Q1].
      assert (Z1 : zlist c1 tl) by (eapply zlist_scr; [exact S1|]; intros x t Hx; apply Z; right; exact Hx).
      destruct (IH _ _ _ _ _ _ _ _ _ Z1 H2) as (S2 & Q2 & I2).
      split; [eapply scr_trans; eassumption|]. split; [congruence | apply incl_tl; exact I2].
    + apply bind_ok in H. destruct H as ([[[c2 m2] r'] tl'] & H2 & H). inversion H; subst.
      eapply IH; eassumption.
Qed.

Lemma rr_loop_scr fuel : forall c m counts tasks v rqres c' m',
  zlist c tasks -> rr_loop fuel c m counts tasks v rqres = Ok (c', m') -> scr c c' /\ c_queues c' = c_queues c.
Proof.
  induction fuel as [|k IH]; intros c m counts tasks v rqres c' m' Z H; destruct tasks as [|id tl]; cbn [rr_loop] in H;
    try (inversion H; subst; split; [apply scr_refl | reflexivity]); try discriminate.
  apply bind_ok in H. destruct H as ([[[c1 m1] counts1] rest] & H1 & H).
  destruct (rr_pass_scr _ _ _ _ _ _ _ _ _ _ Z H1) as (S1 & Q1 & I1).
  assert (Z1 : zlist c1 rest) by (eapply zlist_scr; [exact S1|]; intros x t Hx; apply Z; apply I1; exact Hx).
  destruct (IH _ _ _ _ _ _ _ _ Z1 H) as [S2 Q2]. split; [eapply scr_trans; eassumption | congruence].
Qed.

Lemma map_sn_QA sol l : forall c m c' m', QA c -> map_sn c m sol l = Ok (c', m') -> scr c c' /\ QA c'.
Proof.
  induction l as [|[[rq v] counts] r IH]; cbn [map_sn]; intros c m c' m' Q H; [inversion H; subst; split; [apply scr_refl | exact Q]|].
  apply bind_ok in H. destruct H as (rqd & _ & H). apply bind_ok in H. destruct H as (q & Hq & H).
  apply bind_ok in H. destruct H as ([tasks q'] & Ht & H). apply bind_ok in H. destruct H as ([c2 m2] & H2 & H).
  apply nth_queue_error in Hq. destruct (q_take_tasks_sub _ _ _ _ _ Ht) as [A1 A2].
  set (c1 := with_queues c (set_queue (c_queues c) (N.to_nat rq) q')) in *.
  assert (Z1 : zlist c1 tasks).
  { intros id t Hin Ef. eapply Q; [|exact Ef]. exists (N.to_nat rq), q. split; [exact Hq | apply A1; exact Hin]. }
  destruct (rr_loop_scr _ _ _ _ _ _ _ _ _ Z1 H2) as [S2 Q2].
  assert (S12 : scr c c2) by (eapply scr_trans; [apply (scr_tasks c c1); reflexivity | exact S2]).
  assert (QA2 : QA c2).
  { eapply QA_step; [exact Q | exact S12|]. intros x Hx. unfold allq in *. rewrite Q2 in Hx. eapply allql_set; [exact Hq | exact A2 | exact Hx]. }
  destruct (IH _ _ _ _ QA2 H) as [S3 Q3]. split; [eapply scr_trans; eassumption | exact Q3].
Qed.

Lemma set_mn_workers_same l : forall c id first c', set_mn_workers c id l first = Ok c' -> c_tasks c' = c_tasks c /\ c_queues c' = c_queues c.
Proof.
  induction l as [|w r IH]; cbn [set_mn_workers]; intros c id first c' H; [inversion H; subst; split; reflexivity|].
  apply bind_ok in H. destruct H as (wk & _ & H). apply bind_ok in H. destruct H as (wk' & _ & H).
  destruct (IH _ _ _ _ H) as [A B]. split; [rewrite A | rewrite B]; reflexivity.
Qed.

Lemma map_mn_sets_QA sets : forall c rq mn c' mn', QA c -> map_mn_sets c rq mn sets = Ok (c', mn') -> scr c c' /\ QA c'.
Proof.
  induction sets as [|ws r IH]; cbn [map_mn_sets]; intros c rq mn c' mn' Q H; [inversion H; subst; split; [apply scr_refl | exact Q]|].
  apply bind_ok in H. destruct H as (q & Hq & H). apply nth_queue_error in Hq.
  destruct (q_take_one q) as [[id q']|] eqn:Et; [|discriminate]. destruct (q_take_one_sub _ _ _ Et) as [_ A2].
  apply bind_ok in H. destruct H as (c2 & H2 & H). apply bind_ok in H. destruct H as (t & Ht & H). apply get_task_find in Ht.
  destruct (t_state t) as [n| | | | | |] eqn:Est; try discriminate. destruct n; [|discriminate].
  destruct (set_mn_workers_same _ _ _ _ _ H2) as [T2 Q2]. cbn in T2, Q2.
  set (c3 := upd_task c2 (with_state t (RunningMN ws))) in *.
  assert (S3 : scr c c3).
  { eapply (scr_upd c c2 c3 id t); [exact T2 | rewrite <- T2; exact Ht | reflexivity | edges | ststep]. }
  assert (QA3 : QA c3).
  { eapply QA_step; [exact Q | exact S3|]. intros x Hx. unfold allq in *. change (c_queues c3) with (c_queues c2) in Hx. rewrite Q2 in Hx.
    eapply allql_set; [exact Hq | exact A2 | exact Hx]. }
  destruct (IH _ _ _ _ _ QA3 H) as [S4 Q4]. split; [eapply scr_trans; eassumption | exact Q4].
Qed.

Lemma map_mn_QA l : forall c mn c' mn', QA c -> map_mn c mn l = Ok (c', mn') -> scr c c' /\ QA c'.
Proof.
  induction l as [|[[rq v] sets] r IH]; cbn [map_mn]; intros c mn c' mn' Q H; [inversion H; subst; split; [apply scr_refl | exact Q]|].
  apply bind_ok in H. destruct H as ([c1 mn1] & H1 & H).
  destruct (map_mn_sets_QA _ _ _ _ _ _ Q H1) as [S1 Q1]. destruct (IH _ _ _ _ Q1 H) as [S2 Q2].
  split; [eapply scr_trans; eassumption | exact Q2].
Qed.

Lemma prefill_mark_scr l : forall c w c', zlist c l -> prefill_mark c w l = Ok c' -> scr c c' /\ c_queues c' = c_queues c.
Proof.
  induction l as [|id r IH]; cbn [prefill_mark]; intros c w c' Z H; [inversion H; subst; split; [apply scr_refl | reflexivity]|].
  apply bind_ok in H. destruct H as (t & Ht & H). apply get_task_find in Ht.
  destruct (negb (is_waiting t)) eqn:Ew; [discriminate|]. apply negb_false_iff in Ew.
  apply bind_ok in H. destruct H as (wk & _ & H). apply bind_ok in H. destruct H as (wk' & _ & H).
  set (c1 := upd_worker (upd_task c (with_state t (Prefilled w))) wk') in *.
  assert (S1 : scr c c1).
  { eapply (scr_upd c c c1 id t); [reflexivity | exact Ht | reflexivity | edges | right; split; [eapply Z; [left; reflexivity | exact Ht] | exact I]]. }
  assert (Z1 : zlist c1 r) by (eapply zlist_scr; [exact S1|]; intros x tx Hx; apply Z; right; exact Hx).
  destruct (IH _ _ _ Z1 H) as [S2 Q2]. split; [eapply scr_trans; eassumption | rewrite Q2; reflexivity].
Qed.

Lemma prefill_workers_QA ws : forall c m qi psize c' m', QA c -> prefill_workers c m qi psize ws = Ok (c', m') -> scr c c' /\ QA c'.
Proof.
  induction ws as [|w r IH]; cbn [prefill_workers]; intros c m qi psize c' m' Q H; [inversion H; subst; split; [apply scr_refl | exact Q]|].
  apply bind_ok in H. destruct H as (q & Hq & H). apply nth_queue_error in Hq.
  apply bind_ok in H. destruct H as ([ids q'] & Ht & H). destruct (q_take_tasks_for_prefill_sub _ _ _ _ Ht) as [A1 A2].
  apply bind_ok in H. destruct H as (c2 & H2 & H).
  set (c1 := with_queues c (set_queue (c_queues c) qi q')) in *.
  assert (Z1 : zlist c1 ids).
  { intros id t Hin Ef. eapply Q; [|exact Ef]. exists qi, q. split; [exact Hq | apply A1; exact Hin]. }
  destruct (prefill_mark_scr _ _ _ _ Z1 H2) as [S2 Q2].
  assert (S12 : scr c c2) by (eapply scr_trans; [apply (scr_tasks c c1); reflexivity | exact S2]).
  assert (QA2 : QA c2).
  { eapply QA_step; [exact Q | exact S12|]. intros x Hx. unfold allq in *. rewrite Q2 in Hx. eapply allql_set; [exact Hq | exact A2 | exact Hx]. }
  destruct (IH _ _ _ _ _ _ QA2 H) as [S3 Q3]. split; [eapply scr_trans; eassumption | exact Q3].
Qed.

Lemma prefill_queues_QA n : forall c m worder qi top c' m',
  QA c -> prefill_queues c m worder qi n top = Ok (c', m') -> scr c c' /\ QA c'.
Proof.
  induction n as [|k IH]; cbn [prefill_queues]; intros c m worder qi top c' m' Q H; [inversion H; subst; split; [apply scr_refl | exact Q]|].
  apply bind_ok in H. destruct H as (q & _ & H).
  destruct (q_top_priority q) as [tp|]; [|eapply IH; eassumption].
  destruct (negb (Z.eqb tp top)); [eapply IH; eassumption|].
  destruct (N.eqb _ 0); [eapply IH; eassumption|].
  destruct (existsb _ (q_top_task_ids q)).
  - destruct (forallb _ (q_top_task_ids q)); [eapply IH; eassumption | discriminate].
  - match type of H with match ?ws with [] => _ | _ => _ end = _ => destruct ws eqn:Ews end; [eapply IH; eassumption|].
    destruct (N.eqb _ 0); [eapply IH; eassumption|].
    apply bind_ok in H. destruct H as ([c1 m1] & H1 & H).
    destruct (prefill_workers_QA _ _ _ _ _ _ _ Q H1) as [S1 Q1]. destruct (IH _ _ _ _ _ _ _ Q1 H) as [S2 Q2].
    split; [eapply scr_trans; eassumption | exact Q2].
Qed.

Lemma run_scheduling_scr s sol s' : QA (core_of s) -> run_scheduling s sol = Ok s' -> scr (core_of s) (core_of s').
Proof.
  unfold run_scheduling. intros Q H. destruct (negb (perm_of_set _ _)); [discriminate|].
  apply bind_ok in H. destruct H as ([c1 m1] & H1 & H).
  apply bind_ok in H. destruct H as ([c2 mn] & H2 & H).
  apply bind_ok in H. destruct H as ([c3 m3] & H3 & H).
  apply bind_ok in H. destruct H as (s1 & H4 & H).
  apply bind_ok in H. destruct H as (s2 & H5 & H). inversion H; subst.
  destruct (map_sn_QA _ _ _ _ _ _ Q H1) as [S1 Q1]. destruct (map_mn_QA _ _ _ _ _ Q1 H2) as [S2 Q2].
  assert (S3 : scr c2 c3).
  { destruct (queues_top_priority (c_queues c2)); [|inversion H3; subst; apply scr_refl].
    eapply prefill_queues_QA; [exact Q2 | exact H3]. }
  eapply scr_trans; [exact S1|]. eapply scr_trans; [exact S2|]. eapply scr_trans; [exact S3|].
  apply scr_tasks. cbn. rewrite (send_mn_core _ _ _ H5), (send_mapping_core _ _ _ H4). reflexivity.
Qed.

(** * Worker loss *)
Lemma lost_prefilled_QA l : forall c c', QA c -> lost_prefilled c l = Ok c' -> scr c c' /\ QA c'.
Proof.
  induction l as [|id r IH]; cbn [lost_prefilled]; intros c c' Q H; [inversion H; subst; split; [apply scr_refl | exact Q]|].
  apply bind_ok in H. destruct H as (t & Ht & H). apply get_task_find in Ht.
  apply bind_ok in H. destruct H as (q & Hq & H). apply nth_queue_error in Hq.
  apply bind_ok in H. destruct H as (q' & Hm & H). destruct (q_move_prefilled_to_ready_sub _ _ _ Hm) as [A1 A2].
  match type of H with lost_prefilled ?cc _ = _ => set (c1 := cc) in * end.
  assert (Z : z_old (t_state t)).
  { eapply Q; [|exact Ht]. exists (N.to_nat (t_rq t)), q. split; [exact Hq | exact A1]. }
  assert (S1 : scr c c1).
  { eapply (scr_upd c c c1 id t); [reflexivity | exact Ht | reflexivity | edges | right; split; [exact Z | reflexivity]]. }
  assert (Q1 : QA c1).
  { eapply QA_step; [exact Q | exact S1|]. intros x Hx. unfold allq in *. cbn in Hx. eapply allql_set; [exact Hq | exact A2 | exact Hx]. }
  destruct (IH _ _ Q1 H) as [S2 Q2]. split; [eapply scr_trans; eassumption | exact Q2].
Qed.

(** The premise about the worker sets (the conclusion of the worker-set invariant). *)
Definition WSTMT (c : core) : Prop := forallb (worker_sets_ok c) (c_workers c) = true.

Lemma find_worker_in ws w wk : find_worker ws w = Some wk -> In wk ws.
Proof.
  induction ws as [|h t IH]; cbn [find_worker]; [discriminate|].
  destruct (N.eqb w (w_id h)); [intros H; inversion H; left; reflexivity | intros H; right; auto].
Qed.

Lemma WSTMT_assigned c w wk a p f : WSTMT c -> find_worker (c_workers c) w = Some wk -> w_assign wk = Sn a p f -> zlist c a.
Proof.
  intros HW Hf Ha id t Hin Ef. unfold WSTMT in HW. rewrite forallb_forall in HW.
  specialize (HW _ (find_worker_in _ _ _ Hf)). unfold worker_sets_ok in HW. rewrite Ha in HW.
  apply andb_true_iff in HW. destruct HW as [HW _]. rewrite forallb_forall in HW. specialize (HW _ Hin).
  unfold fm in Ef. rewrite Ef in HW. destruct (t_state t); try discriminate; exact I.
Qed.

Lemma perm_of_set_sub order ts x : perm_of_set order ts = true -> In x order -> In x ts.
Proof.
  unfold perm_of_set. intros H Hx. apply andb_true_iff in H. destruct H as [H _]. apply andb_true_iff in H. destruct H as [_ H].
  rewrite forallb_forall in H. apply tid_mem_In. apply H. exact Hx.
Qed.

Lemma on_remove_worker_RL s w reason a p t s' :
  GD (core_of s) -> QA (core_of s) -> WSTMT (core_of s) ->
  on_remove_worker s w reason a p t = Ok s' -> RL (core_of s) (core_of s').
Proof.
  intros G Q HW H. unfold on_remove_worker in H.
  destruct (find_worker _ w) as [wk|] eqn:Efw; [|discriminate].
  apply bind_ok in H. destruct H as ([[c2 running] retracted] & Hr & H).
  set (c0 := with_workers (core_of s) (del_worker (c_workers (core_of s)) w)) in *.
  assert (S2 : scr (core_of s) c2).
  { destruct (w_assign wk) as [a0 p0 f0|mt root] eqn:Ea.
    - destruct (negb _) eqn:Eperm; [discriminate|]. apply negb_false_iff in Eperm. apply andb_true_iff in Eperm. destruct Eperm as [Pa Pp].
      apply bind_ok in Hr. destruct Hr as (c1 & Hp & Hr).
      assert (Q0 : QA c0) by (eapply QA_tasks_queues; [| |exact Q]; reflexivity).
      destruct (lost_prefilled_QA _ _ _ Q0 Hp) as [S1 _].
      assert (S01 : scr (core_of s) c1) by (eapply scr_trans; [apply (scr_tasks _ c0); reflexivity | exact S1]).
      eapply scr_trans; [exact S01|]. eapply lost_assigned_scr; [|exact Hr].
      eapply zlist_scr; [exact S01|]. intros id tk Hin Ef. eapply (WSTMT_assigned _ _ _ _ _ _ HW Efw Ea); [|exact Ef].
      eapply perm_of_set_sub; eassumption.
    - apply bind_ok in Hr. destruct Hr as (tk & Ht & Hr). apply get_task_find in Ht.
      destruct (t_state tk) eqn:Est; try discriminate. destruct ws as [|w0 rest]; [discriminate|].
      destruct (N.eqb w w0).
      + apply bind_ok in Hr. destruct Hr as (c1 & Hc1 & Hr). apply bind_ok in Hr. destruct Hr as ([qs ret] & _ & Hr).
        inversion Hr; subst.
        pose proof (reset_mn_all_tasks _ _ _ Hc1) as T1.
        eapply (scr_upd _ c1 _ mt tk); [exact T1 | exact Ht | reflexivity | edges | cbn; ststep].
      + inversion Hr; subst.
        eapply (scr_upd _ c0 _ mt tk); [reflexivity | exact Ht | reflexivity | edges | ststep]. }
  destruct (negb (perm_of_set t _)); [discriminate|].
  apply bind_ok in H. destruct H as (s3 & H3 & H). apply bind_ok in H. destruct H as (s4 & H4 & H).
  apply bind_ok in H. destruct H as (s6 & H6 & H). apply bind_ok in H. destruct H as (s7 & H7 & H). inversion H; subst.
  pose proof (lost_retracting_scr _ _ _ _ H3) as S3. cbn in S3.
  pose proof (process_retracted_scr _ _ _ H4) as S4.
  destruct (process_worker_lost_active _ _ _ _ _ H6) as [C6 _]. unfold core_same in C6. cbn in C6.
  assert (S6 : scr (core_of s) (core_of s6)).
  { rewrite C6. eapply scr_trans; [exact S2|]. eapply scr_trans; [exact S3 | exact S4]. }
  pose proof (RL_scr _ _ G S6) as R6.
  pose proof (lost_fail_running_RL _ _ _ _ (proj1 R6) H7) as R7.
  eapply RL_trans; [exact R6|]. eapply RL_trans; [exact R7|].
  apply RL_scr; [exact (proj1 R7) | apply scr_tasks; reflexivity].
Qed.
