(** C08, resource part of "reservations released": what a cancel does to the free-resource
    counters of the single-node workers.

    The accounting conjunct of [core_ok] (free = total - sum of the assigned requests) is refuted in
    general (finding F23), so the statement is the exact RELATIVE one: the cancel gives back to every
    worker precisely the request amounts of the cancelled tasks it held in its assigned set (tasks
    assigned / running there, and retracting tasks redirected there), nothing else, and the worker's
    total stays what it was. *)
From HQ Require Import Base.Prelude Cluster.Types Cluster.Core Cluster.Reactor Cluster.Worker Cluster.Server Cluster.Sys Cluster.Monitors Cluster.ProofsJob Cluster.ProofsMore Cluster.ProofsTerminal Cluster.ProofsStep Cluster.ProofsFinal Cluster.ProofsAll Cluster.BijBase Cluster.BijCore Cluster.BijHq Cluster.BijSt Cluster.BijReact Cluster.BijFinal Cluster.RejHyp Cluster.InvWBase Cluster.InvWView Cluster.InvWCore Cluster.InvWReact2 Cluster.InvWFinal Cluster.InvQBase Cluster.InvQReact Cluster.InvQStep Cluster.InvAll Cluster.InvBundle Cluster.ReleaseCancel.
From Coq Require Import ZArith Lia Sorting.Sorted.
Local Open Scope N_scope.

Arguments N.add : simpl never.
Arguments N.sub : simpl never.

(** What cancelling task [id] gives back to worker [w] in core [c]: the task's request if the task is
    in [w]'s assigned set (by its state), nothing otherwise. *)
Definition released (c : core) (w : wid) (id : tid) : list N :=
  match find_task (c_tasks c) id with
  | Some t =>
      match t_state t with
      | Assigned w' _ | Running w' _ => if N.eqb w' w then request_of c id else []
      | Retracting _ =>
          match find_redirect (c_redirects c) id with
          | Some (w', _) => if N.eqb w' w then request_of c id else []
          | None => []
          end
      | _ => []
      end
  | None => []
  end.

(** * One task: [remove_sn_task] adds back exactly the request, [remove_prefill_task] nothing *)
Lemma remove_sn_task_full wk id amt wk' : remove_sn_task wk id amt = Ok wk' ->
  exists a p f, w_assign wk = Sn a p f /\ wk' = with_assign wk (Sn (tid_remove id a) p (res_add_cap f amt (w_res wk))).
Proof.
  unfold remove_sn_task. destruct (w_assign wk) as [a p f|]; [|discriminate].
  destruct (tid_mem id a); [|discriminate]. intros H; inversion H; subst. exists a, p, f. auto.
Qed.

Lemma remove_prefill_task_full wk id wk' : remove_prefill_task wk id = Ok wk' ->
  exists a p f, w_assign wk = Sn a p f /\ wk' = with_assign wk (Sn a (tid_remove id p) f).
Proof.
  unfold remove_prefill_task. destruct (w_assign wk) as [a p f|]; [|discriminate].
  destruct (tid_mem id p); [|discriminate]. intros H; inversion H; subst. exists a, p, f. auto.
Qed.

Lemma res_add_nil f cap : res_add_cap f [] cap = f.
Proof. destruct f; reflexivity. Qed.

Lemma find_del_redirect_other rs id x : x <> id -> find_redirect (del_redirect rs id) x = find_redirect rs x.
Proof.
  intros Hne. induction rs as [|[k v] r IH]; cbn [del_redirect find_redirect]; [reflexivity|].
  destruct (tid_eqb id k) eqn:E1.
  - apply tid_eqb_eq in E1. subst k. destruct (tid_eqb x id) eqn:E2; [apply tid_eqb_eq in E2; contradiction | reflexivity].
  - cbn [find_redirect]. destruct (tid_eqb x k); [reflexivity | exact IH].
Qed.

Lemma set_worker_view ws w wk w0 wk0 asg :
  find_worker ws w = Some wk -> find_worker ws w0 = Some wk0 ->
  find_worker (set_worker ws (with_assign wk0 asg)) w = if N.eqb w0 w then Some (with_assign wk asg) else Some wk.
Proof.
  intros Hw Hw0. rewrite find_set_worker. cbn [w_id with_assign].
  destruct (find_worker_some _ _ _ Hw0) as [_ Hi]. rewrite Hi, (N.eqb_sym w w0).
  destruct (N.eqb w0 w) eqn:E; [|exact Hw]. apply N.eqb_eq in E. rewrite E, Hw in Hw0. inversion Hw0; reflexivity.
Qed.

Lemma get_rq_request c id t rq :
  find_task (c_tasks c) id = Some t -> get_rq (c_rqs c) (t_rq t) = Ok rq -> request_of c id = rq_res rq.
Proof.
  intros Hf Hr. unfold request_of. rewrite Hf. unfold get_rq in Hr.
  destruct (nth_error (c_rqs c) (N.to_nat (t_rq t))); inversion Hr; reflexivity.
Qed.

Lemma released_ext c c' w x :
  c_tasks c' = c_tasks c -> c_rqs c' = c_rqs c -> find_redirect (c_redirects c') x = find_redirect (c_redirects c) x ->
  released c' w x = released c w x.
Proof. intros Et Eq Er. unfold released, request_of. rewrite Et, Eq, Er. reflexivity. Qed.

Lemma fold_res_add_ext cap l : forall (g h : tid -> list N) acc, (forall x, In x l -> g x = h x) ->
  fold_left (fun a x => res_add_cap a (g x) cap) l acc = fold_left (fun a x => res_add_cap a (h x) cap) l acc.
Proof.
  induction l as [|y r IH]; intros g h acc E; [reflexivity|]. cbn [fold_left].
  rewrite (E y (or_introl eq_refl)). apply IH. intros x Hx. apply E. right. exact Hx.
Qed.

(** * The release loop of [on_cancel_tasks] *)
Lemma cancel_release_free w ids : forall s tu ru s' tu' ru' wk a p f,
  cancel_release s ids tu ru = Ok (s', tu', ru') -> NoDup ids ->
  (forall id t ws, find_task (c_tasks (core_of s)) id = Some t -> t_state t = RunningMN ws -> n_mem w ws = false) ->
  find_worker (c_workers (core_of s)) w = Some wk -> w_assign wk = Sn a p f ->
  exists wk' a' p', find_worker (c_workers (core_of s')) w = Some wk' /\
    w_assign wk' = Sn a' p' (fold_left (fun acc id => res_add_cap acc (released (core_of s) w id) (w_res wk)) ids f) /\
    w_res wk' = w_res wk.
Proof.
  induction ids as [|id r IH]; intros s tu ru s' tu' ru' wk a p f H Hnd Hmn Hw Ha.
  - cbn in H. inversion H; subst. exists wk, a, p. auto.
  - cbn [cancel_release] in H. cbv zeta in H. inversion Hnd as [|? ? Hni Hnr]; subst. cbn [fold_left].
    assert (Hcont : forall s1 tu1 ru1 wk1 a1 p1,
       c_tasks (core_of s1) = c_tasks (core_of s) -> c_rqs (core_of s1) = c_rqs (core_of s) ->
       (forall x, x <> id -> find_redirect (c_redirects (core_of s1)) x = find_redirect (c_redirects (core_of s)) x) ->
       find_worker (c_workers (core_of s1)) w = Some wk1 ->
       w_assign wk1 = Sn a1 p1 (res_add_cap f (released (core_of s) w id) (w_res wk)) -> w_res wk1 = w_res wk ->
       cancel_release s1 r tu1 ru1 = Ok (s', tu', ru') ->
       exists wk' a' p', find_worker (c_workers (core_of s')) w = Some wk' /\
         w_assign wk' = Sn a' p' (fold_left (fun acc id0 => res_add_cap acc (released (core_of s) w id0) (w_res wk)) r (res_add_cap f (released (core_of s) w id) (w_res wk))) /\
         w_res wk' = w_res wk).
    { intros s1 tu1 ru1 wk1 a1 p1 Et Eq Er Hw1 Ha1 Hr1 H1.
      assert (Hmn1 : forall i t0 ws, find_task (c_tasks (core_of s1)) i = Some t0 -> t_state t0 = RunningMN ws -> n_mem w ws = false).
      { intros i t0 ws Hf. apply (Hmn i t0 ws). rewrite <- Et. exact Hf. }
      destruct (IH _ _ _ _ _ _ _ _ _ _ H1 Hnr Hmn1 Hw1 Ha1) as (wk' & a' & p' & A & B & C).
      exists wk', a', p'. split; [exact A|]. split; [|congruence].
      rewrite B, Hr1. f_equal. apply fold_res_add_ext. intros x Hx. apply released_ext; [exact Et | exact Eq|].
      apply Er. intros ->. contradiction. }
    destruct (find_task (c_tasks (core_of s)) id) as [t|] eqn:Ef.
    2:{ assert (Hrel : released (core_of s) w id = []) by (unfold released; rewrite Ef; reflexivity).
        refine (Hcont _ _ _ wk a p _ _ _ _ _ _ H); [reflexivity | reflexivity | intros; reflexivity | exact Hw | rewrite Hrel, res_add_nil; exact Ha | reflexivity]. }
    destruct (find_task_some _ _ _ Ef) as [_ Hid].
    apply bind_ok in H. destruct H as (csm & _ & H). apply bind_ok in H. destruct H as (rq & Hrq & H).
    pose proof (get_rq_request _ _ _ _ Ef Hrq) as Hreq.
    (* release from an assigned set *)
    assert (HrelA : forall w0 wk0 wk0' s1 tu1 ru1,
              released (core_of s) w id = (if N.eqb w0 w then rq_res rq else []) ->
              find_worker (c_workers (core_of s)) w0 = Some wk0 -> remove_sn_task wk0 id (rq_res rq) = Ok wk0' ->
              c_tasks (core_of s1) = c_tasks (core_of s) -> c_rqs (core_of s1) = c_rqs (core_of s) ->
              (forall x, x <> id -> find_redirect (c_redirects (core_of s1)) x = find_redirect (c_redirects (core_of s)) x) ->
              c_workers (core_of s1) = set_worker (c_workers (core_of s)) wk0' ->
              cancel_release s1 r tu1 ru1 = Ok (s', tu', ru') ->
              exists wk' a' p', find_worker (c_workers (core_of s')) w = Some wk' /\
                w_assign wk' = Sn a' p' (fold_left (fun acc id0 => res_add_cap acc (released (core_of s) w id0) (w_res wk)) r (res_add_cap f (released (core_of s) w id) (w_res wk))) /\
                w_res wk' = w_res wk).
    { intros w0 wk0 wk0' s1 tu1 ru1 Hrel Hg Hrm Et Eq Er Ew1 H1.
      destruct (remove_sn_task_full _ _ _ _ Hrm) as (a0 & p0 & f0 & Ea0 & ->).
      pose proof (set_worker_view _ _ _ _ _ (Sn (tid_remove id a0) p0 (res_add_cap f0 (rq_res rq) (w_res wk0))) Hw Hg) as Hv.
      rewrite <- Ew1 in Hv.
      destruct (N.eqb w0 w) eqn:Ew.
      - apply N.eqb_eq in Ew. subst w0. rewrite Hw in Hg. inversion Hg; subst wk0. rewrite Ha in Ea0. inversion Ea0; subst a0 p0 f0.
        refine (Hcont _ _ _ _ (tid_remove id a) p Et Eq Er Hv _ _ H1); [rewrite Hrel; reflexivity | reflexivity].
      - refine (Hcont _ _ _ _ a p Et Eq Er Hv _ _ H1); [rewrite Hrel, res_add_nil; exact Ha | reflexivity]. }
    destruct (t_state t) as [n|w0 rv0|w0|w0|w0 rv0|ws|] eqn:Est.
    + (* Waiting *)
      assert (Hrel : released (core_of s) w id = []) by (unfold released; rewrite Ef, Est; reflexivity).
      refine (Hcont _ _ _ wk a p _ _ _ _ _ _ H); [reflexivity | reflexivity | intros; reflexivity | exact Hw | rewrite Hrel, res_add_nil; exact Ha | reflexivity].
    + (* Assigned *)
      apply bind_ok in H. destruct H as (wk0 & Hg & H). apply get_worker_find in Hg.
      apply bind_ok in H. destruct H as (wk0' & Hrm & H).
      refine (HrelA w0 wk0 wk0' _ _ _ _ Hg Hrm _ _ _ _ H); [unfold released; rewrite Ef, Est, Hreq; reflexivity | reflexivity | reflexivity | intros; reflexivity | reflexivity].
    + (* Prefilled *)
      apply bind_ok in H. destruct H as (q & _ & H). apply bind_ok in H. destruct H as (q' & _ & H).
      apply bind_ok in H. destruct H as (wk0 & Hg & H). apply get_worker_find in Hg.
      apply bind_ok in H. destruct H as (wk0' & Hrm & H).
      assert (Hrel : released (core_of s) w id = []) by (unfold released; rewrite Ef, Est; reflexivity).
      destruct (remove_prefill_task_full _ _ _ Hrm) as (a0 & p0 & f0 & Ea0 & ->).
      pose proof (set_worker_view _ _ _ _ _ (Sn a0 (tid_remove id p0) f0) Hw Hg) as Hv.
      destruct (N.eqb w0 w) eqn:Ew.
      * apply N.eqb_eq in Ew. subst w0. rewrite Hw in Hg. inversion Hg; subst wk0. rewrite Ha in Ea0. inversion Ea0; subst a0 p0 f0.
        refine (Hcont _ _ _ _ a (tid_remove id p) _ _ _ _ _ _ H); [reflexivity | reflexivity | intros; reflexivity | exact Hv | rewrite Hrel, res_add_nil; reflexivity | reflexivity].
      * refine (Hcont _ _ _ _ a p _ _ _ _ _ _ H); [reflexivity | reflexivity | intros; reflexivity | exact Hv | rewrite Hrel, res_add_nil; exact Ha | reflexivity].
    + (* Retracting *)
      apply bind_ok in H. destruct H as (c' & Hc' & H). unfold try_remove_redirection in Hc'. rewrite Hid in Hc'.
      destruct (find_redirect (c_redirects (core_of s)) id) as [[w1 rv1]|] eqn:Er.
      * apply bind_ok in Hc'. destruct Hc' as (wk0 & Hg & Hc'). apply get_worker_find in Hg.
        apply bind_ok in Hc'. destruct Hc' as (rq' & Hrq' & Hc'). rewrite Hrq in Hrq'. inversion Hrq'; subst rq'.
        apply bind_ok in Hc'. destruct Hc' as (wk0' & Hrm & Hc'). inversion Hc'; subst c'.
        refine (HrelA w1 wk0 wk0' _ _ _ _ Hg Hrm _ _ _ _ H); [unfold released; rewrite Ef, Est, Er, Hreq; reflexivity | reflexivity | reflexivity | | reflexivity].
        intros x Hx. cbn. apply find_del_redirect_other. exact Hx.
      * apply bind_ok in Hc'. destruct Hc' as (q & _ & Hc'). apply bind_ok in Hc'. destruct Hc' as (q' & _ & Hc'). inversion Hc'; subst c'.
        assert (Hrel : released (core_of s) w id = []) by (unfold released; rewrite Ef, Est, Er; reflexivity).
        refine (Hcont _ _ _ wk a p _ _ _ _ _ _ H); [reflexivity | reflexivity | intros; reflexivity | exact Hw | rewrite Hrel, res_add_nil; exact Ha | reflexivity].
    + (* Running *)
      apply bind_ok in H. destruct H as (wk0 & Hg & H). apply get_worker_find in Hg.
      apply bind_ok in H. destruct H as (wk0' & Hrm & H).
      refine (HrelA w0 wk0 wk0' _ _ _ _ Hg Hrm _ _ _ _ H); [unfold released; rewrite Ef, Est, Hreq; reflexivity | reflexivity | reflexivity | intros; reflexivity | reflexivity].
    + (* RunningMN: [w] is a single-node worker, it is not among the task's workers *)
      apply bind_ok in H. destruct H as (c' & Hc' & H).
      pose proof (Hmn _ _ _ Ef Est) as Hnm.
      destruct ws as [|w0 ws']; [discriminate|].
      destruct (reset_mn_all_spec _ _ _ Hc') as (T1 & R1 & _ & _ & F1). destruct (reset_mn_all_qsame _ _ _ Hc') as (_ & _ & _ & Q1).
      specialize (F1 w). rewrite Hnm in F1.
      assert (Hrel : released (core_of s) w id = []) by (unfold released; rewrite Ef, Est; reflexivity).
      refine (Hcont _ _ _ wk a p _ _ _ _ _ _ H); [exact T1 | exact Q1 | intros; cbn; rewrite R1; reflexivity | cbn; rewrite F1; exact Hw | rewrite Hrel, res_add_nil; exact Ha | reflexivity].
    + discriminate.
Qed.

(** * Removal from the task map leaves the workers alone *)
Lemma remove_task_workers c id c' stt : remove_task c id = Ok (c', stt) -> c_workers c' = c_workers c.
Proof.
  intros H. unfold remove_task in H. destruct (find_task (c_tasks c) id) as [t|]; [|discriminate].
  destruct (t_state t); try (inversion H; subst; reflexivity).
  apply bind_ok in H. destruct H as (c2 & H2 & H).
  assert (E2 : c_workers c2 = c_workers c) by (destruct (N.eqb unfinished_deps 0); [inv_binds H2|]; inversion H2; subst; reflexivity).
  destruct (N.ltb 0 unfinished_deps); [apply bind_ok in H; destruct H as (ts & _ & H)|]; inversion H; subst; exact E2.
Qed.

Lemma remove_tasks_batched_workers l : forall c c', remove_tasks_batched c l = Ok c' -> c_workers c' = c_workers c.
Proof.
  induction l as [|id r IH]; cbn [remove_tasks_batched]; intros c c' H; [inversion H; reflexivity|].
  apply bind_ok in H. destruct H as ([c1 stt] & H1 & H). rewrite (IH _ _ H). eapply remove_task_workers; exact H1.
Qed.

Lemma on_cancel_tasks_free w s ids s' wk a p f :
  on_cancel_tasks s ids = Ok s' -> NoDup ids ->
  (forall id t ws, find_task (c_tasks (core_of s)) id = Some t -> t_state t = RunningMN ws -> n_mem w ws = false) ->
  find_worker (c_workers (core_of s)) w = Some wk -> w_assign wk = Sn a p f ->
  exists wk' a' p', find_worker (c_workers (core_of s')) w = Some wk' /\
    w_assign wk' = Sn a' p' (fold_left (fun acc id => res_add_cap acc (released (core_of s) w id) (w_res wk)) ids f) /\
    w_res wk' = w_res wk.
Proof.
  intros H Hnd Hmn Hw Ha. unfold on_cancel_tasks in H.
  apply bind_ok in H. destruct H as ([[s1 tu] ru] & H1 & H). apply bind_ok in H. destruct H as (c' & H2 & H).
  destruct (cancel_release_free w _ _ _ _ _ _ _ _ _ _ _ H1 Hnd Hmn Hw Ha) as (wk' & a' & p' & A & B & C).
  exists wk', a', p'. rewrite (send_all_core _ _ _ H). cbn. rewrite (remove_tasks_batched_workers _ _ _ H2). auto.
Qed.

(** * The theorem, for every reachable state *)

(** A worker with single-node bookkeeping holds no part of a multi-node task. *)
Lemma WI_sn_not_mn c w wk a p f : WI c -> find_worker (c_workers c) w = Some wk -> w_assign wk = Sn a p f ->
  forall id t ws, find_task (c_tasks c) id = Some t -> t_state t = RunningMN ws -> n_mem w ws = false.
Proof.
  intros (_ & _ & H & _) Hw Ha id t ws Hf Est.
  pose proof (wi_M _ _ _ H w id) as X. unfold inM, wantM, hv, x0 in X. rewrite Hw, Ha, (TV_find _ _ _ Hf), Est in X.
  cbn [plo pl] in X. symmetry. exact X.
Qed.

Theorem cancel_free_counters ops reserve maxfill s outs j jb s' outs' w wk a p f :
  Forall op_wf ops -> run_fresh (init_sys reserve maxfill) ops = true -> run (init_sys reserve maxfill) ops = Ok (s, outs) ->
  step s (OpCancel j) = Ok (s', outs') ->
  find_job (h_jobs (s_hq s)) j = Some jb ->
  find_worker (c_workers (s_core s)) w = Some wk -> w_assign wk = Sn a p f ->
  exists wk' a' p', find_worker (c_workers (s_core s')) w = Some wk' /\
    w_assign wk' = Sn a' p' (fold_left (fun acc id => res_add_cap acc (released (s_core s) w id) (w_res wk)) (non_finished_task_ids jb) f) /\
    w_res wk' = w_res wk.
Proof.
  intros Hwf Hf Hr Hst Hj Hw Ha.
  pose proof (reachable_INV _ _ _ _ _ Hwf Hf Hr) as HI.
  cbn [step] in Hst. unfold handle_cancel in Hst. change (hq_jobs (s, [])) with (h_jobs (s_hq s)) in Hst. rewrite Hj in Hst.
  destruct (non_finished_task_ids jb) as [|i0 ir] eqn:En.
  - inversion Hst; subst. exists wk, a, p. auto.
  - rewrite <- En in *.
    apply bind_ok in Hst. destruct Hst as (s1 & H1 & Hst). apply bind_ok in Hst. destruct Hst as (al & _ & Hst).
    apply bind_ok in Hst. destruct Hst as (s2 & H2 & Hst). inversion Hst; subst.
    destruct (set_cancel_state_active _ _ _ _ H2) as [C2 _]. unfold core_same in C2.
    change (s_core (fst s2)) with (core_of s2). rewrite C2.
    eapply (on_cancel_tasks_free w (s, []) _ s1 wk a p f H1); [| | exact Hw | exact Ha].
    + apply nodup_non_finished. apply jok_sorted. apply (inv_hok _ HI). eapply find_job_in. exact Hj.
    + exact (WI_sn_not_mn _ _ _ _ _ _ (inv_w _ HI) Hw Ha).
Qed.

(** * Readable form: the counter grows by the requests of the job's members of the assigned set *)
Lemma released_wantA c w id :
  released c w id = if wantA (hv x0 (TV (c_tasks c))) (find_redirect (c_redirects c)) w id then request_of c id else [].
Proof.
  unfold released, wantA, hv, x0, TV. destruct (find_task (c_tasks c) id) as [t|]; cbn [option_map plo]; [|reflexivity].
  destruct (t_state t); cbn [pl]; try reflexivity.
  destruct (find_redirect (c_redirects c) id) as [[w' v]|]; reflexivity.
Qed.

Lemma released_member c w wk a p f id : WI c -> find_worker (c_workers c) w = Some wk -> w_assign wk = Sn a p f ->
  released c w id = if tid_mem id a then request_of c id else [].
Proof.
  intros (_ & _ & H & _) Hw Ha. rewrite released_wantA, <- (wi_A _ _ _ H). unfold inA. rewrite Hw, Ha. reflexivity.
Qed.

Lemma fold_res_add_filter cap (g : tid -> list N) (b : tid -> bool) l : forall acc,
  fold_left (fun a x => res_add_cap a (if b x then g x else []) cap) l acc = fold_left (fun a x => res_add_cap a (g x) cap) (filter b l) acc.
Proof.
  induction l as [|y r IH]; intros acc; [reflexivity|]. cbn [fold_left filter].
  destruct (b y); [cbn [fold_left] | rewrite res_add_nil]; apply IH.
Qed.

Lemma filter_sorted (b : tid -> bool) l : tsorted l -> tsorted (filter b l).
Proof.
  induction l as [|y r IH]; intros Hs; [constructor|]. inversion Hs as [|? ? Hs' Hall]; subst. cbn [filter].
  destruct (b y); [|apply IH; exact Hs']. constructor; [apply IH; exact Hs'|].
  rewrite Forall_forall in *. intros x Hx. apply filter_In in Hx. apply Hall. apply Hx.
Qed.

Lemma sorted_ext l1 : forall l2, tsorted l1 -> tsorted l2 -> (forall x, In x l1 <-> In x l2) -> l1 = l2.
Proof.
  induction l1 as [|x r IH]; intros l2 S1 S2 E.
  - destruct l2 as [|y r2]; [reflexivity|]. exfalso. apply (proj2 (E y)). left. reflexivity.
  - destruct l2 as [|y r2]; [exfalso; apply (proj1 (E x)); left; reflexivity|].
    inversion S1 as [|? ? S1' A1]; subst. inversion S2 as [|? ? S2' A2]; subst. rewrite Forall_forall in A1, A2.
    assert (Exy : x = y).
    { destruct (proj1 (E x) (or_introl eq_refl)) as [->|Hx]; [reflexivity|].
      destruct (proj2 (E y) (or_introl eq_refl)) as [->|Hy]; [reflexivity|].
      exfalso. exact (tlt_irrefl _ (tlt_trans _ _ _ (A1 _ Hy) (A2 _ Hx))). }
    subst y. f_equal. apply IH; [exact S1' | exact S2'|].
    intros z. split; intros Hz.
    + destruct (proj1 (E z) (or_intror Hz)) as [->|Hz']; [exfalso; exact (tlt_irrefl _ (A1 _ Hz)) | exact Hz'].
    + destruct (proj2 (E z) (or_intror Hz)) as [->|Hz']; [exfalso; exact (tlt_irrefl _ (A2 _ Hz)) | exact Hz'].
Qed.

Lemma sorted_non_finished j : jsorted (j_tasks j) -> tsorted (non_finished_task_ids j).
Proof.
  unfold non_finished_task_ids. generalize (j_id j) as jid. intros jid.
  induction (j_tasks j) as [|[k v] r IH]; cbn [filter map jsorted]; intros Hs; [constructor|].
  destruct Hs as [Hlt Hs].
  destruct (match snd (k, v) with JW | JR => true | _ => false end); [|apply IH; exact Hs].
  cbn [map fst]. constructor; [apply IH; exact Hs|].
  rewrite Forall_forall. intros x Hin. apply in_map_iff in Hin. destruct Hin as ([k' v'] & E & Hin). cbn in E. subst x.
  apply filter_In in Hin. destruct Hin as [Hin _]. specialize (Hlt _ _ Hin).
  apply tlt_spec. right. cbn. split; [reflexivity | exact Hlt].
Qed.

Theorem cancel_free_counters_sum ops reserve maxfill s outs j jb s' outs' w wk a p f :
  Forall op_wf ops -> run_fresh (init_sys reserve maxfill) ops = true -> run (init_sys reserve maxfill) ops = Ok (s, outs) ->
  step s (OpCancel j) = Ok (s', outs') ->
  find_job (h_jobs (s_hq s)) j = Some jb ->
  find_worker (c_workers (s_core s)) w = Some wk -> w_assign wk = Sn a p f ->
  exists wk' a' p', find_worker (c_workers (s_core s')) w = Some wk' /\
    w_assign wk' = Sn a' p' (fold_left (fun acc id => res_add_cap acc (request_of (s_core s) id) (w_res wk)) (filter (fun id => N.eqb (fst id) j) a) f) /\
    w_res wk' = w_res wk /\
    (forall id, In id a' -> fst id <> j) /\ (forall id, In id p' -> fst id <> j).
Proof.
  intros Hwf Hf Hr Hst Hj Hw Ha.
  pose proof (reachable_INV _ _ _ _ _ Hwf Hf Hr) as HI.
  destruct (cancel_free_counters _ _ _ _ _ _ _ _ _ _ _ _ _ _ Hwf Hf Hr Hst Hj Hw Ha) as (wk' & a' & p' & A & B & C).
  exists wk', a', p'. split; [exact A|]. split; [|split; [exact C|]].
  - rewrite B. f_equal.
    rewrite (fold_res_add_ext _ _ _ (fun x => if tid_mem x a then request_of (s_core s) x else []))
      by (intros x _; apply (released_member _ _ _ _ _ _ _ (inv_w _ HI) Hw Ha)).
    rewrite (fold_res_add_filter _ (request_of (s_core s)) (fun x => tid_mem x a)). f_equal.
    pose proof (jok_sorted _ (inv_hok _ HI _ (find_job_in _ _ _ Hj))) as Hjs.
    assert (Hsa : tsorted a).
    { destruct (inv_w _ HI) as (_ & _ & H & _). exact (proj1 (wi_sets _ _ _ H w wk a p f Hw Ha)). }
    apply sorted_ext; [apply filter_sorted; apply sorted_non_finished; exact Hjs | apply filter_sorted; exact Hsa|].
    pose proof (find_job_id _ _ _ Hj) as Hid.
    intros x. rewrite !filter_In, (non_finished_in _ _ Hjs), Hid, tid_mem_true_in, N.eqb_eq. split.
    + intros [[Hx _] Hin]. auto.
    + intros [Hin Hx]. split; [|exact Hin]. split; [exact Hx|].
      (* a member of an assigned set is a core task, hence active in the job layer *)
      pose proof (WI_worker_sets_ok _ (inv_w _ HI)) as Hws. rewrite forallb_forall in Hws.
      destruct (find_worker_some _ _ _ Hw) as [Hwin _]. specialize (Hws _ Hwin). unfold worker_sets_ok in Hws. rewrite Ha in Hws.
      apply andb_true_iff in Hws. destruct Hws as [Hall _]. rewrite forallb_forall in Hall. specialize (Hall _ Hin).
      destruct (find_task (c_tasks (s_core s)) x) as [t|] eqn:Ef; [|discriminate].
      assert (Hp : present (K (s, [])) x) by (apply find_task_present; exists t; exact Ef).
      apply (cb_b _ (inv_cb _ HI)) in Hp. destruct Hp as (l & Hl & Hact).
      unfold jt in Hl. rewrite Hx in Hl. change (hq_of (s, [])) with (s_hq s) in Hl. rewrite Hj in Hl. inversion Hl; subst l. exact Hact.
  - destruct (cancel_releases_everything _ _ _ _ _ _ _ _ Hwf Hf Hr Hst) as (_ & Hwk & _).
    destruct (find_worker_some _ _ _ A) as [Hin' _]. specialize (Hwk _ Hin'). rewrite B in Hwk. exact Hwk.
Qed.

(** Non-vacuity (the history of ReleaseCancel.v): worker 1 holds two running tasks of job 1 and has
    10000 free of 30000; after the cancel it has everything back. *)
Example cancel_free_example :
  exists s outs s' outs' jb wk,
    run (init_sys 0 2) rel_ops = Ok (s, outs) /\ step s (OpCancel 1) = Ok (s', outs') /\
    find_job (h_jobs (s_hq s)) 1 = Some jb /\ find_worker (c_workers (s_core s)) 1 = Some wk /\
    w_assign wk = Sn [(1, 0); (1, 1)] [(1, 2)] [10000; 0; 0] /\
    fold_left (fun acc id => res_add_cap acc (request_of (s_core s) id) (w_res wk)) (filter (fun id => N.eqb (fst id) 1) [(1, 0); (1, 1)]) [10000; 0; 0] = [30000; 0; 0].
Proof.
  do 6 eexists. split; [vm_compute; reflexivity|]. split; [vm_compute; reflexivity|].
  split; [vm_compute; reflexivity|]. split; [vm_compute; reflexivity|]. split; vm_compute; reflexivity.
Qed.

(** * Multi-node workers: a worker reserved for a multi-node task of the job is free again *)
Section MN.
Variables (w : wid) (wk0 : sworker) (mt : tid) (root : bool).

Definition mnq (wk : sworker) : Prop :=
  w_res wk = w_res wk0 /\ (w_assign wk = Mn mt root \/ w_assign wk = Sn [] [] (w_res wk0)).

Lemma mnq_no_remove_sn wk id amt wk' : mnq wk -> remove_sn_task wk id amt = Ok wk' -> False.
Proof. intros [_ [E|E]] H; unfold remove_sn_task in H; rewrite E in H; discriminate. Qed.
Lemma mnq_no_remove_prefill wk id wk' : mnq wk -> remove_prefill_task wk id = Ok wk' -> False.
Proof. intros [_ [E|E]] H; unfold remove_prefill_task in H; rewrite E in H; discriminate. Qed.

Lemma mnq_reset wk : mnq wk -> mnq (reset_mn_task wk).
Proof. intros [E _]. split; [exact E|]. right. cbn. rewrite E. reflexivity. Qed.

(** Updating another worker. *)
Lemma mnq_set_other ws wk w1 wk1 wk1' :
  find_worker ws w = Some wk -> mnq wk -> find_worker ws w1 = Some wk1 -> w_id wk1' = w_id wk1 ->
  (w1 = w -> False) -> find_worker (set_worker ws wk1') w = Some wk.
Proof.
  intros Hw _ Hw1 Hi Hne. rewrite find_set_worker, Hi. destruct (find_worker_some _ _ _ Hw1) as [_ ->].
  destruct (N.eqb w w1) eqn:E; [apply N.eqb_eq in E; exfalso; apply Hne; symmetry; exact E | exact Hw].
Qed.

Lemma cancel_release_mn ids : forall s tu ru s' tu' ru' wk,
  cancel_release s ids tu ru = Ok (s', tu', ru') -> find_worker (c_workers (core_of s)) w = Some wk -> mnq wk ->
  exists wk', find_worker (c_workers (core_of s')) w = Some wk' /\ mnq wk'.
Proof.
  induction ids as [|id r IH]; intros s tu ru s' tu' ru' wk H Hw HQ.
  - cbn in H. inversion H; subst. eauto.
  - cbn [cancel_release] in H. cbv zeta in H.
    destruct (find_task (c_tasks (core_of s)) id) as [t|] eqn:Ef; [|eapply IH; eassumption].
    destruct (find_task_some _ _ _ Ef) as [_ Hid].
    apply bind_ok in H. destruct H as (csm & _ & H). apply bind_ok in H. destruct H as (rq & Hrq & H).
    assert (HrelA : forall w1 wk1 wk1' amt s1 tu1 ru1,
              find_worker (c_workers (core_of s)) w1 = Some wk1 -> remove_sn_task wk1 id amt = Ok wk1' ->
              c_workers (core_of s1) = set_worker (c_workers (core_of s)) wk1' ->
              cancel_release s1 r tu1 ru1 = Ok (s', tu', ru') ->
              exists wk', find_worker (c_workers (core_of s')) w = Some wk' /\ mnq wk').
    { intros w1 wk1 wk1' amt s1 tu1 ru1 Hg Hrm Ew H1. eapply (IH _ _ _ _ _ _ wk H1); [|exact HQ].
      rewrite Ew. eapply mnq_set_other; [exact Hw | exact HQ | exact Hg | exact (proj1 (remove_sn_task_spec _ _ _ _ Hrm)) |].
      intros ->. rewrite Hw in Hg. inversion Hg; subst wk1. exact (mnq_no_remove_sn _ _ _ _ HQ Hrm). }
    destruct (t_state t) as [n|w1 rv1|w1|w1|w1 rv1|ws|] eqn:Est.
    + eapply (IH _ _ _ _ _ _ wk H); [exact Hw | exact HQ].
    + apply bind_ok in H. destruct H as (wk1 & Hg & H). apply get_worker_find in Hg.
      apply bind_ok in H. destruct H as (wk1' & Hrm & H). eapply (HrelA _ _ _ _ _ _ _ Hg Hrm); [|exact H]. reflexivity.
    + apply bind_ok in H. destruct H as (q & _ & H). apply bind_ok in H. destruct H as (q' & _ & H).
      apply bind_ok in H. destruct H as (wk1 & Hg & H). apply get_worker_find in Hg.
      apply bind_ok in H. destruct H as (wk1' & Hrm & H).
      eapply (IH _ _ _ _ _ _ wk H); [|exact HQ]. cbn.
      eapply mnq_set_other; [exact Hw | exact HQ | exact Hg | exact (proj1 (remove_prefill_task_spec _ _ _ Hrm)) |].
      intros ->. rewrite Hw in Hg. inversion Hg; subst wk1. exact (mnq_no_remove_prefill _ _ _ HQ Hrm).
    + apply bind_ok in H. destruct H as (c' & Hc' & H). unfold try_remove_redirection in Hc'.
      destruct (find_redirect (c_redirects (core_of s)) (t_id t)) as [[w2 rv2]|].
      * apply bind_ok in Hc'. destruct Hc' as (wk1 & Hg & Hc'). apply get_worker_find in Hg.
        apply bind_ok in Hc'. destruct Hc' as (rq' & _ & Hc'). apply bind_ok in Hc'. destruct Hc' as (wk1' & Hrm & Hc'). inversion Hc'; subst c'.
        rewrite Hid in Hrm. eapply (HrelA _ _ _ _ _ _ _ Hg Hrm); [|exact H]. reflexivity.
      * apply bind_ok in Hc'. destruct Hc' as (q & _ & Hc'). apply bind_ok in Hc'. destruct Hc' as (q' & _ & Hc'). inversion Hc'; subst c'.
        eapply (IH _ _ _ _ _ _ wk H); [exact Hw | exact HQ].
    + apply bind_ok in H. destruct H as (wk1 & Hg & H). apply get_worker_find in Hg.
      apply bind_ok in H. destruct H as (wk1' & Hrm & H). eapply (HrelA _ _ _ _ _ _ _ Hg Hrm); [|exact H]. reflexivity.
    + apply bind_ok in H. destruct H as (c' & Hc' & H). destruct ws as [|w2 ws']; [discriminate|].
      destruct (reset_mn_all_spec _ _ _ Hc') as (_ & _ & _ & _ & F1). specialize (F1 w). rewrite Hw in F1. cbn [option_map] in F1.
      destruct (n_mem w (w2 :: ws')).
      * eapply (IH _ _ _ _ _ _ _ H); [exact F1 | apply mnq_reset; exact HQ].
      * eapply (IH _ _ _ _ _ _ _ H); [exact F1 | exact HQ].
    + discriminate.
Qed.

Lemma handle_cancel_mn s j s' :
  handle_cancel s j = Ok s' -> find_worker (c_workers (core_of s)) w = Some wk0 -> w_assign wk0 = Mn mt root ->
  exists wk', find_worker (c_workers (core_of s')) w = Some wk' /\ mnq wk'.
Proof.
  intros H Hw Ha. assert (HQ : mnq wk0) by (split; [reflexivity | left; exact Ha]).
  unfold handle_cancel in H. destruct (find_job (hq_jobs s) j) as [jb|]; [|inversion H; subst; exists wk0; auto].
  destruct (non_finished_task_ids jb) as [|i0 ir] eqn:En; [inversion H; subst; exists wk0; auto|]. rewrite <- En in *.
  apply bind_ok in H. destruct H as (s1 & H1 & H). apply bind_ok in H. destruct H as (al & _ & H).
  apply bind_ok in H. destruct H as (s2 & H2 & H). inversion H; subst.
  destruct (set_cancel_state_active _ _ _ _ H2) as [C2 _]. unfold core_same in C2.
  change (core_of (emit s2 (OResp (RCancelOk (map snd (non_finished_task_ids jb)) al)))) with (core_of s2). rewrite C2.
  unfold on_cancel_tasks in H1.
  apply bind_ok in H1. destruct H1 as ([[s0 tu] ru] & H0 & H1). apply bind_ok in H1. destruct H1 as (c' & H3 & H1).
  destruct (cancel_release_mn _ _ _ _ _ _ _ _ H0 Hw HQ) as (wk' & A & B).
  exists wk'. rewrite (send_all_core _ _ _ H1). cbn. rewrite (remove_tasks_batched_workers _ _ _ H3). auto.
Qed.
End MN.

Theorem cancel_frees_mn_worker ops reserve maxfill s outs j s' outs' w wk mt root :
  Forall op_wf ops -> run_fresh (init_sys reserve maxfill) ops = true -> run (init_sys reserve maxfill) ops = Ok (s, outs) ->
  step s (OpCancel j) = Ok (s', outs') ->
  find_worker (c_workers (s_core s)) w = Some wk -> w_assign wk = Mn mt root -> fst mt = j ->
  exists wk', find_worker (c_workers (s_core s')) w = Some wk' /\ w_assign wk' = Sn [] [] (w_res wk) /\ w_res wk' = w_res wk.
Proof.
  intros Hwf Hf Hr Hst Hw Ha Hj.
  destruct (cancel_releases_everything _ _ _ _ _ _ _ _ Hwf Hf Hr Hst) as (_ & Hwk & _).
  cbn [step] in Hst. destruct (handle_cancel_mn w wk mt root (s, []) j (s', outs') Hst Hw Ha) as (wk' & A & B & C).
  exists wk'. split; [exact A|]. split; [|exact B].
  destruct C as [C|C]; [|exact C]. exfalso.
  destruct (find_worker_some _ _ _ A) as [Hin _]. specialize (Hwk _ Hin). cbn in Hwk. rewrite C in Hwk. exact (Hwk Hj).
Qed.

(** Non-vacuity: a two-node task running on workers 1 and 2, then the cancel of its job. *)
Definition mn_rel_ops : list op :=
  [OpConnect [10000; 0; 0] 0; OpConnect [10000; 0; 0] 0;
   OpSubmit None [] None (mkRq 2 []) 0%Z (CMax 3) false None;
   OpSched (mkSol [] [(0, 0, [[1; 2]])] [1; 2] [])].

Example cancel_frees_mn_example :
  Forall op_wf mn_rel_ops /\ run_fresh (init_sys 0 2) mn_rel_ops = true /\
  exists s outs s' outs',
    run (init_sys 0 2) mn_rel_ops = Ok (s, outs) /\ step s (OpCancel 1) = Ok (s', outs') /\
    map w_assign (c_workers (s_core s)) = [Mn (1, 0) true; Mn (1, 0) false] /\
    map w_assign (c_workers (s_core s')) = [Sn [] [] [10000; 0; 0]; Sn [] [] [10000; 0; 0]].
Proof.
  split; [repeat constructor|]. split; [vm_compute; reflexivity|].
  do 4 eexists. split; [vm_compute; reflexivity|]. split; [vm_compute; reflexivity|]. split; vm_compute; reflexivity.
Qed.

Print Assumptions cancel_free_counters.
Print Assumptions cancel_free_counters_sum.
Print Assumptions cancel_frees_mn_worker.
