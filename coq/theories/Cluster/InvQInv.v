(** The queue invariant, part 3: the inductive invariant [QV] and the generic lemmas about the three
    kinds of atomic change (queues change / one task changes / a task is added or deleted).

    [QV ex Z ts qs rs rqs]: tasks [ts], queues [qs], redirects [rs], request definitions [rqs].
    Every task sits exactly where its state says ([nat_place]), except the ids for which the
    exception map [ex] prescribes a place (tasks in the middle of a multi-step transition:
    moved to the ready queue but not yet retracted, taken from the queue but not yet assigned,
    moved to the prefill set but not yet marked Prefilled, dequeued but not yet removed).
    [Z]: the ids that may be Finished (the task being finished, until it is removed). *)
From HQ Require Import Base.Prelude Cluster.Types Cluster.Core Cluster.Reactor Cluster.Worker Cluster.Server Cluster.Sys Cluster.Monitors Cluster.ProofsJob Cluster.ProofsMore Cluster.ProofsStep Cluster.BijBase Cluster.BijCore Cluster.BijHq Cluster.BijSt Cluster.BijReact Cluster.FrameGen Cluster.CrashFrame Cluster.InvQBase Cluster.InvQTake.
From Coq Require Import ZArith Lia Sorting.Sorted.
Local Open Scope N_scope.

Arguments N.add : simpl never.
Arguments N.sub : simpl never.

(** * Queues indexed by request id *)
Lemma nth_queue_ok qs : forall i q, nth_queue qs i = Ok q <-> nth_error qs i = Some q.
Proof.
  induction qs as [|h t IH]; intros i q; [destruct i; cbn; split; discriminate|].
  destruct i as [|k]; cbn [nth_queue nth_error]; [split; intros H; inversion H; reflexivity | apply IH].
Qed.

Lemma set_queue_length qs : forall i q, length (set_queue qs i q) = length qs.
Proof. induction qs as [|h t IH]; intros i q; [destruct i; reflexivity|]. destruct i; cbn; [reflexivity | rewrite IH; reflexivity]. Qed.

Lemma nth_set_queue_same qs : forall i q q0, nth_error qs i = Some q0 -> nth_error (set_queue qs i q) i = Some q.
Proof.
  induction qs as [|h t IH]; intros i q q0 H; [destruct i; discriminate|].
  destruct i as [|k]; cbn in *; [reflexivity | eapply IH; exact H].
Qed.
Lemma nth_set_queue_other qs : forall i j q, i <> j -> nth_error (set_queue qs i q) j = nth_error qs j.
Proof.
  induction qs as [|h t IH]; intros i j q H; [destruct i; reflexivity|].
  destruct i as [|k], j as [|l]; cbn; try reflexivity; [congruence|]. apply IH. congruence.
Qed.
Lemma set_queue_Forall (P : queue -> Prop) qs : forall i q, Forall P qs -> P q -> Forall P (set_queue qs i q).
Proof.
  induction qs as [|h t IH]; intros i q F Hq; [destruct i; constructor|].
  inversion F; subst. destruct i; cbn; constructor; auto.
Qed.
Lemma nth_error_Forall {A} (P : A -> Prop) l i x : Forall P l -> nth_error l i = Some x -> P x.
Proof. intros F H. rewrite Forall_forall in F. apply F. eapply nth_error_In; exact H. Qed.
Lemma nth_error_ex {A} (l : list A) i : (i < length l)%nat -> exists x, nth_error l i = Some x.
Proof. intros H. destruct (nth_error l i) eqn:E; [eauto|]. apply nth_error_None in E. lia. Qed.
Lemma nth_error_lt {A} (l : list A) i x : nth_error l i = Some x -> (i < length l)%nat.
Proof. intros H. apply nth_error_Some. congruence. Qed.

(** * Redirects *)
Definition RSorted (rs : list (tid * (wid * N))) : Prop := StronglySorted tlt (map fst rs).

Lemma find_redirect_notin rs x : ~ In x (map fst rs) -> find_redirect rs x = None.
Proof.
  induction rs as [|[k v] r IH]; cbn [find_redirect map fst In]; intros H; [reflexivity|].
  destruct (tid_eqb x k) eqn:E; [apply tid_eqb_eq in E; subst; exfalso; apply H; left; reflexivity|].
  apply IH. intros Hin. apply H. right. exact Hin.
Qed.

Lemma find_del_redirect rs t x : RSorted rs ->
  find_redirect (del_redirect rs t) x = if tid_eqb x t then None else find_redirect rs x.
Proof.
  unfold RSorted. induction rs as [|[k v] r IH]; cbn [del_redirect find_redirect map fst]; intros Hs; [destruct (tid_eqb x t); reflexivity|].
  inversion Hs as [|? ? Hs' Hall]; subst.
  destruct (tid_eqb t k) eqn:E1.
  - apply tid_eqb_eq in E1. subst k. destruct (tid_eqb x t) eqn:E2; [|reflexivity].
    apply tid_eqb_eq in E2. subst x. apply find_redirect_notin. intros Hin. rewrite Forall_forall in Hall. exact (tlt_irrefl _ (Hall _ Hin)).
  - cbn [find_redirect]. destruct (tid_eqb x k) eqn:E2.
    + apply tid_eqb_eq in E2. subst x. rewrite tid_eqb_sym, E1. reflexivity.
    + apply IH. exact Hs'.
Qed.

Lemma del_redirect_in rs t y : In y (map fst (del_redirect rs t)) -> In y (map fst rs).
Proof.
  induction rs as [|[k v] r IH]; cbn [del_redirect map fst In]; [auto|].
  destruct (tid_eqb t k); cbn [map fst In]; [auto|]. intros [H|H]; auto.
Qed.
Lemma del_redirect_sorted rs t : RSorted rs -> RSorted (del_redirect rs t).
Proof.
  unfold RSorted. induction rs as [|[k v] r IH]; cbn [del_redirect map fst]; intros Hs; [exact Hs|].
  inversion Hs as [|? ? Hs' Hall]; subst. destruct (tid_eqb t k); [exact Hs'|].
  cbn [map fst]. constructor; [apply IH; exact Hs'|]. rewrite Forall_forall in *. intros y Hy. apply Hall. eapply del_redirect_in. exact Hy.
Qed.

Lemma find_set_redirect rs t v x : find_redirect (set_redirect rs t v) x = if tid_eqb x t then Some v else find_redirect rs x.
Proof.
  induction rs as [|[k v0] r IH]; cbn [set_redirect find_redirect]; [reflexivity|].
  destruct (tid_eqb t k) eqn:E1.
  - apply tid_eqb_eq in E1. subst k. cbn [find_redirect]. destruct (tid_eqb x t); reflexivity.
  - destruct (tid_ltb t k); cbn [find_redirect]; [reflexivity|].
    destruct (tid_eqb x k) eqn:E2; [|exact IH].
    apply tid_eqb_eq in E2. subst x. rewrite tid_eqb_sym, E1. reflexivity.
Qed.
Lemma set_redirect_in rs t v y : In y (map fst (set_redirect rs t v)) -> y = t \/ In y (map fst rs).
Proof.
  induction rs as [|[k v0] r IH]; cbn [set_redirect map fst In]; [intros [H|[]]; auto|].
  destruct (tid_eqb t k) eqn:E; cbn [map fst In]; [intros [H|H]; auto|].
  destruct (tid_ltb t k); cbn [map fst In]; [intros [H|[H|H]]; auto|].
  intros [H|H]; [auto|]. destruct (IH H); auto.
Qed.
Lemma set_redirect_sorted rs t v : RSorted rs -> RSorted (set_redirect rs t v).
Proof.
  unfold RSorted. induction rs as [|[k v0] r IH]; cbn [set_redirect map fst]; intros Hs; [constructor; constructor|].
  inversion Hs as [|? ? Hs' Hall]; subst.
  destruct (tid_eqb t k) eqn:E.
  - apply tid_eqb_eq in E. subst k. cbn [map fst]. constructor; assumption.
  - destruct (tid_ltb t k) eqn:L; cbn [map fst].
    + constructor; [exact Hs|]. constructor; [exact L|]. rewrite Forall_forall in *. intros y Hy. eapply tlt_trans; [exact L | apply Hall; exact Hy].
    + constructor; [apply IH; exact Hs'|]. rewrite Forall_forall in *. intros y Hy.
      destruct (set_redirect_in _ _ _ _ Hy) as [->|Hy']; [apply tlt_total; assumption | apply Hall; exact Hy'].
Qed.

(** * Expected places *)
Definition nat_place (rs : list (tid * (wid * N))) (id : tid) (st : tstate) : place :=
  match st with
  | Waiting n => if N.eqb n 0 then Ready else Nowhere
  | Prefilled _ => Prefill
  | Retracting _ => match find_redirect rs id with Some _ => Nowhere | None => Ready end
  | _ => Nowhere
  end.
Definition exn := tid -> option place.
Definition exp_place (ex : exn) rs (id : tid) (st : tstate) : place :=
  match ex id with Some p => p | None => nat_place rs id st end.

Definition none : exn := fun _ => None.
Definition exL (pl : place) (l : list tid) (base : exn) : exn := fun x => if tid_mem x l then Some pl else base x.
Definition exU (base : exn) (id : tid) (pl : place) : exn := fun x => if tid_eqb x id then Some pl else base x.
Definition exR (base : exn) (id : tid) : exn := fun x => if tid_eqb x id then None else base x.

Lemma nat_place_red rs rs' x st : find_redirect rs' x = find_redirect rs x -> nat_place rs' x st = nat_place rs x st.
Proof. intros E. unfold nat_place. rewrite E. reflexivity. Qed.

(** * The invariant *)
Record QV (ex : exn) (Z : list tid) (ts : list task) (qs : list queue) (rs : list (tid * (wid * N))) (rqs : list rqdef) : Prop := mkQV {
  qv_ts : StronglySorted tlt (map t_id ts);
  qv_rs : RSorted rs;
  qv_len : length qs = length rqs;
  qv_wf : Forall WFQ qs;
  qv_rq : forall id t, find_task ts id = Some t -> (N.to_nat (t_rq t) < length qs)%nat;
  qv_task : forall id t q, find_task ts id = Some t -> nth_error qs (N.to_nat (t_rq t)) = Some q ->
            placed q (exp_place ex rs id (t_state t)) (t_prio t) id;
  qv_live : forall i q x, nth_error qs i = Some q -> member q x -> exists t, find_task ts x = Some t /\ N.to_nat (t_rq t) = i;
  qv_red : forall id v, find_redirect rs id = Some v ->
           ex id = None /\ exists t w, find_task ts id = Some t /\ t_state t = Retracting w;
  qv_fin : forall id t, find_task ts id = Some t -> t_state t = Finished -> In id Z
}.

Definition QI (ex : exn) (Z : list tid) (c : core) : Prop := QV ex Z (c_tasks c) (c_queues c) (c_redirects c) (c_rqs c).

Lemma find_task_id ts id t : find_task ts id = Some t -> t_id t = id.
Proof. intros H. apply (find_task_some _ _ _ H). Qed.

(** The queue of a task exists. *)
Lemma QV_queue ex Z ts qs rs rqs id t : QV ex Z ts qs rs rqs -> find_task ts id = Some t ->
  exists q, nth_error qs (N.to_nat (t_rq t)) = Some q /\ WFQ q /\ placed q (exp_place ex rs id (t_state t)) (t_prio t) id.
Proof.
  intros V Hf. destruct (nth_error_ex qs _ (qv_rq _ _ _ _ _ _ V _ _ Hf)) as (q & Hq).
  exists q. split; [exact Hq | split; [eapply nth_error_Forall; [exact (qv_wf _ _ _ _ _ _ V) | exact Hq] | eapply qv_task; eassumption]].
Qed.

(** No redirect for a task that is not Retracting. *)
Lemma QV_no_redirect ex Z ts qs rs rqs id t : QV ex Z ts qs rs rqs -> find_task ts id = Some t ->
  (forall w, t_state t <> Retracting w) -> find_redirect rs id = None.
Proof.
  intros V Hf Hn. destruct (find_redirect rs id) as [v|] eqn:E; [|reflexivity].
  destruct (qv_red _ _ _ _ _ _ V _ _ E) as (_ & t0 & w & Hf0 & Hst). rewrite Hf in Hf0. inversion Hf0; subst. exfalso. exact (Hn _ Hst).
Qed.

(** * Changing the exception map / the finished set *)
Lemma QV_ex_change ex ex' Z ts qs rs rqs :
  QV ex Z ts qs rs rqs ->
  (forall x t, find_task ts x = Some t -> exp_place ex' rs x (t_state t) = exp_place ex rs x (t_state t)) ->
  (forall x v, find_redirect rs x = Some v -> ex' x = None) ->
  QV ex' Z ts qs rs rqs.
Proof.
  intros [A1 A2 A3 A4 A5 A6 A7 A8 A9] E R. constructor; auto.
  - intros id t q Hf Hq. rewrite (E _ _ Hf). eapply A6; eassumption.
  - intros id v Hv. split; [eapply R; exact Hv | apply (A8 _ _ Hv)].
Qed.

Lemma QV_ext ex ex' Z ts qs rs rqs :
  QV ex Z ts qs rs rqs -> (forall x t, find_task ts x = Some t -> ex' x = ex x) -> QV ex' Z ts qs rs rqs.
Proof.
  intros V E. eapply QV_ex_change; [exact V | |].
  - intros x t Hf. unfold exp_place. rewrite (E _ _ Hf). reflexivity.
  - intros x v Hv. destruct (qv_red _ _ _ _ _ _ V _ _ Hv) as (En & t & w & Hf & _). rewrite (E _ _ Hf). exact En.
Qed.

Lemma QV_Z ex Z Z' ts qs rs rqs : QV ex Z ts qs rs rqs -> (forall x, In x Z -> In x Z') -> QV ex Z' ts qs rs rqs.
Proof. intros [A1 A2 A3 A4 A5 A6 A7 A8 A9] H. constructor; auto. intros id t Hf Hs. apply H. eapply A9; eassumption. Qed.

(** * (Q) The queues change *)
Lemma QV_queues ex ex' Z ts qs qs' rs rqs :
  QV ex Z ts qs rs rqs -> length qs' = length qs -> Forall WFQ qs' ->
  (forall i q q' x, nth_error qs i = Some q -> nth_error qs' i = Some q' -> member q' x ->
     member q x \/ exists t, find_task ts x = Some t /\ N.to_nat (t_rq t) = i) ->
  (forall id t q q', find_task ts id = Some t -> nth_error qs (N.to_nat (t_rq t)) = Some q -> nth_error qs' (N.to_nat (t_rq t)) = Some q' ->
     placed q (exp_place ex rs id (t_state t)) (t_prio t) id -> placed q' (exp_place ex' rs id (t_state t)) (t_prio t) id) ->
  (forall id v, find_redirect rs id = Some v -> ex' id = None) ->
  QV ex' Z ts qs' rs rqs.
Proof.
  intros V L W M P R. destruct V as [A1 A2 A3 A4 A5 A6 A7 A8 A9]. constructor; auto.
  - congruence.
  - intros id t Hf. rewrite L. eapply A5; exact Hf.
  - intros id t q' Hf Hq'. destruct (nth_error_ex qs _ (A5 _ _ Hf)) as (q & Hq).
    eapply P; [exact Hf | exact Hq | exact Hq' | eapply A6; eassumption].
  - intros i q' x Hq' Hm. assert (Hi : (i < length qs)%nat) by (rewrite <- L; eapply nth_error_lt; exact Hq').
    destruct (nth_error_ex qs _ Hi) as (q & Hq). destruct (M _ _ _ _ Hq Hq' Hm) as [Hm0|Ht]; [eapply A7; eassumption | exact Ht].
  - intros id v Hv. split; [eapply R; exact Hv | apply (A8 _ _ Hv)].
Qed.

(** One queue changes. *)
Lemma QV_queue1 ex ex' Z ts qs rs rqs i q q' :
  QV ex Z ts qs rs rqs -> nth_error qs i = Some q -> WFQ q' ->
  (forall x, member q' x -> member q x \/ exists t, find_task ts x = Some t /\ N.to_nat (t_rq t) = i) ->
  (forall id t, find_task ts id = Some t -> N.to_nat (t_rq t) = i ->
     placed q (exp_place ex rs id (t_state t)) (t_prio t) id -> placed q' (exp_place ex' rs id (t_state t)) (t_prio t) id) ->
  (forall id t, find_task ts id = Some t -> N.to_nat (t_rq t) <> i -> exp_place ex' rs id (t_state t) = exp_place ex rs id (t_state t)) ->
  (forall id v, find_redirect rs id = Some v -> ex' id = None) ->
  QV ex' Z ts (set_queue qs i q') rs rqs.
Proof.
  intros V Hq W M P O R. eapply QV_queues; [exact V | apply set_queue_length | apply set_queue_Forall; [exact (qv_wf _ _ _ _ _ _ V) | exact W] | | | exact R].
  - intros j q0 q0' x H0 H0' Hm. destruct (Nat.eq_dec i j) as [<-|Hne].
    + rewrite (nth_set_queue_same _ _ _ _ Hq) in H0'. inversion H0'; subst. rewrite Hq in H0. inversion H0; subst. apply M. exact Hm.
    + rewrite (nth_set_queue_other _ _ _ _ Hne) in H0'. rewrite H0 in H0'. inversion H0'; subst. left. exact Hm.
  - intros id t q0 q0' Hf H0 H0' Hp. destruct (Nat.eq_dec (N.to_nat (t_rq t)) i) as [E|Hne].
    + rewrite E in *. rewrite (nth_set_queue_same _ _ _ _ Hq) in H0'. inversion H0'; subst. rewrite Hq in H0. inversion H0; subst.
      apply P; auto.
    + rewrite (nth_set_queue_other _ _ _ _ (not_eq_sym Hne)) in H0'. rewrite H0 in H0'. inversion H0'; subst.
      rewrite (O _ _ Hf Hne). exact Hp.
Qed.

(** One queue changes for one id only; the id gets an explicit place. *)
Lemma QV_queue1id ex Z ts qs rs rqs id t q q' pl :
  QV ex Z ts qs rs rqs -> find_task ts id = Some t -> nth_error qs (N.to_nat (t_rq t)) = Some q -> WFQ q' ->
  (forall x, x <> id -> forall p, RdyAt q' p x <-> RdyAt q p x) ->
  (forall x, x <> id -> forall p, PfAt q' p x <-> PfAt q p x) ->
  placed q' pl (t_prio t) id -> find_redirect rs id = None ->
  QV (exU ex id pl) Z ts (set_queue qs (N.to_nat (t_rq t)) q') rs rqs.
Proof.
  intros V Hf Hq W HR HP Hpl Hred.
  assert (Eo : forall x, x <> id -> exU ex id pl x = ex x).
  { intros x Hne. unfold exU. apply tid_eqb_neq in Hne. rewrite Hne. reflexivity. }
  eapply QV_queue1; [exact V | exact Hq | exact W | | | |].
  - intros x Hm. destruct (tid_dec x id) as [->|Hne]; [right; exists t; auto|]. left.
    destruct Hm as (p & [M|M]); exists p; [left; apply (HR _ Hne); exact M | right; apply (HP _ Hne); exact M].
  - intros x t0 Hf0 Hrq Hp. destruct (tid_dec x id) as [->|Hne].
    + rewrite Hf in Hf0. inversion Hf0; subst. unfold exp_place, exU. rewrite (proj2 (tid_eqb_eq id id) eq_refl). exact Hpl.
    + unfold exp_place. rewrite (Eo _ Hne). fold (exp_place ex rs x (t_state t0)).
      eapply placed_same; [apply (HR _ Hne) | apply (HP _ Hne) | exact Hp].
  - intros x t0 Hf0 Hrq. destruct (tid_dec x id) as [->|Hne]; [rewrite Hf in Hf0; inversion Hf0; subst; congruence|].
    unfold exp_place. rewrite (Eo _ Hne). reflexivity.
  - intros x v Hv. destruct (tid_dec x id) as [->|Hne]; [congruence|]. rewrite (Eo _ Hne). apply (qv_red _ _ _ _ _ _ V _ _ Hv).
Qed.

(** * (T) One task changes (state, instance, ... and / or its redirect); its expected place does not. *)
Lemma QV_task ex ex' Z ts qs rs rs' rqs id t t' :
  QV ex Z ts qs rs rqs -> find_task ts id = Some t ->
  t_id t' = id -> t_rq t' = t_rq t -> t_prio t' = t_prio t ->
  RSorted rs' -> (forall x, x <> id -> find_redirect rs' x = find_redirect rs x) ->
  (forall x, x <> id -> ex' x = ex x) ->
  exp_place ex' rs' id (t_state t') = exp_place ex rs id (t_state t) ->
  (forall v, find_redirect rs' id = Some v -> ex' id = None /\ exists w, t_state t' = Retracting w) ->
  (t_state t' = Finished -> In id Z) ->
  QV ex' Z (set_task ts t') qs rs' rqs.
Proof.
  intros V Hf Hid Hrq Hpr Hrs Hred Hex Hpl Hrd Hfin. destruct V as [A1 A2 A3 A4 A5 A6 A7 A8 A9].
  assert (Hfind : forall x, find_task (set_task ts t') x = if tid_eqb x id then Some t' else find_task ts x).
  { intros x. rewrite find_set_task, Hid. reflexivity. }
  constructor; auto.
  - rewrite (set_task_ids _ _ t A1); [exact A1 | rewrite Hid; exact Hf].
  - intros x t0 H0. rewrite Hfind in H0. destruct (tid_eqb x id) eqn:E.
    + inversion H0; subst. rewrite Hrq. eapply A5; exact Hf.
    + eapply A5; exact H0.
  - intros x t0 q H0 Hq. rewrite Hfind in H0. destruct (tid_eqb x id) eqn:E.
    + apply tid_eqb_eq in E. subst x. inversion H0; subst t0. rewrite Hpl, Hpr. rewrite Hrq in Hq. eapply A6; eassumption.
    + apply tid_eqb_neq in E. unfold exp_place. rewrite (Hex _ E), (nat_place_red rs rs' x _ (Hred _ E)).
      eapply A6; eassumption.
  - intros i q x Hq Hm. destruct (A7 _ _ _ Hq Hm) as (t0 & H0 & Hi). rewrite Hfind. destruct (tid_eqb x id) eqn:E.
    + apply tid_eqb_eq in E. subst x. rewrite Hf in H0. inversion H0; subst t0. exists t'. split; [reflexivity | rewrite Hrq; exact Hi].
    + exists t0. auto.
  - intros x v Hv. destruct (tid_eqb x id) eqn:E.
    + apply tid_eqb_eq in E. subst x. destruct (Hrd _ Hv) as (En & w & Hw). split; [exact En|]. exists t', w. rewrite Hfind, (proj2 (tid_eqb_eq id id) eq_refl). auto.
    + pose proof E as E'. apply tid_eqb_neq in E'. rewrite (Hred _ E') in Hv. destruct (A8 _ _ Hv) as (En & t0 & w & H0 & Hw).
      split; [rewrite (Hex _ E'); exact En|]. exists t0, w. rewrite Hfind, E. auto.
  - intros x t0 H0 Hs. rewrite Hfind in H0. destruct (tid_eqb x id) eqn:E.
    + apply tid_eqb_eq in E. subst x. inversion H0; subst. auto.
    + eapply A9; eassumption.
Qed.

(** The frequent special case: only the task changes. *)
Lemma QV_task0 ex ex' Z ts qs rs rqs id t t' :
  QV ex Z ts qs rs rqs -> find_task ts id = Some t ->
  t_id t' = id -> t_rq t' = t_rq t -> t_prio t' = t_prio t ->
  (forall x, x <> id -> ex' x = ex x) ->
  exp_place ex' rs id (t_state t') = exp_place ex rs id (t_state t) ->
  (forall v, find_redirect rs id = Some v -> ex' id = None /\ exists w, t_state t' = Retracting w) ->
  (t_state t' = Finished -> In id Z) ->
  QV ex' Z (set_task ts t') qs rs rqs.
Proof.
  intros V Hf Hid Hrq Hpr Hex Hpl Hrd Hfin.
  eapply QV_task; try eassumption; [exact (qv_rs _ _ _ _ _ _ V) | reflexivity].
Qed.

(** * (N) A new task *)
Lemma QV_new ex Z ts qs rs rqs t :
  QV ex Z ts qs rs rqs -> find_task ts (t_id t) = None -> (N.to_nat (t_rq t) < length qs)%nat ->
  t_state t <> Finished ->
  QV (exU ex (t_id t) Nowhere) Z (set_task ts t) qs rs rqs.
Proof.
  intros V Hn Hrq Hfin. destruct V as [A1 A2 A3 A4 A5 A6 A7 A8 A9].
  assert (Hnm : forall i q, nth_error qs i = Some q -> ~ member q (t_id t)).
  { intros i q Hq Hm. destruct (A7 _ _ _ Hq Hm) as (t0 & H0 & _). congruence. }
  constructor; auto.
  - apply set_task_new_sorted; assumption.
  - intros x t0 H0. rewrite find_set_task in H0. destruct (tid_eqb x (t_id t)); [inversion H0; subst; exact Hrq | eapply A5; exact H0].
  - intros x t0 q H0 Hq. rewrite find_set_task in H0. unfold exp_place, exU. destruct (tid_eqb x (t_id t)) eqn:E.
    + apply tid_eqb_eq in E. subst x. inversion H0; subst t0. apply placed_not_member. eapply Hnm; exact Hq.
    + fold (exp_place ex rs x (t_state t0)). eapply A6; eassumption.
  - intros i q x Hq Hm. destruct (A7 _ _ _ Hq Hm) as (t0 & H0 & Hi). rewrite find_set_task. destruct (tid_eqb x (t_id t)) eqn:E.
    + apply tid_eqb_eq in E. subst x. congruence.
    + eauto.
  - intros x v Hv. destruct (A8 _ _ Hv) as (En & t0 & w & H0 & Hw). unfold exU. destruct (tid_eqb x (t_id t)) eqn:E.
    + apply tid_eqb_eq in E. subst x. congruence.
    + split; [exact En|]. exists t0, w. rewrite find_set_task, E. auto.
  - intros x t0 H0 Hs. rewrite find_set_task in H0. destruct (tid_eqb x (t_id t)) eqn:E; [inversion H0; subst; contradiction | eapply A9; eassumption].
Qed.

(** * (R) A task that is nowhere disappears *)
Lemma QV_del ex Z Z' ts qs rs rqs id t :
  QV ex Z ts qs rs rqs -> find_task ts id = Some t ->
  exp_place ex rs id (t_state t) = Nowhere -> find_redirect rs id = None ->
  (forall x, In x Z -> x <> id -> In x Z') ->
  QV ex Z' (del_task ts id) qs rs rqs.
Proof.
  intros V Hf Hpl Hred HZ. destruct V as [A1 A2 A3 A4 A5 A6 A7 A8 A9].
  assert (Hfind : forall x, find_task (del_task ts id) x = if tid_eqb x id then None else find_task ts x) by (intros x; apply find_del_task; exact A1).
  constructor; auto.
  - apply (del_task_keys ts id A1).
  - intros x t0 H0. rewrite Hfind in H0. destruct (tid_eqb x id); [discriminate | eapply A5; exact H0].
  - intros x t0 q H0 Hq. rewrite Hfind in H0. destruct (tid_eqb x id); [discriminate | eapply A6; eassumption].
  - intros i q x Hq Hm. destruct (A7 _ _ _ Hq Hm) as (t0 & H0 & Hi). rewrite Hfind. destruct (tid_eqb x id) eqn:E; [|eauto].
    exfalso. apply tid_eqb_eq in E. subst x. rewrite Hf in H0. inversion H0; subst t0.
    rewrite <- Hi in Hq. pose proof (A6 _ _ _ Hf Hq) as Hp. rewrite Hpl in Hp. exact (placed_member _ _ _ _ Hp Hm eq_refl).
  - intros x v Hv. destruct (A8 _ _ Hv) as (En & t0 & w & H0 & Hw). split; [exact En|]. exists t0, w. rewrite Hfind.
    destruct (tid_eqb x id) eqn:E; [apply tid_eqb_eq in E; subst x; congruence | auto].
  - intros x t0 H0 Hs. rewrite Hfind in H0. destruct (tid_eqb x id) eqn:E; [discriminate|]. apply tid_eqb_neq in E. apply HZ; [eapply A9; eassumption | exact E].
Qed.

(** * A new request class *)
Lemma QV_new_rq ex Z ts qs rs rqs r : QV ex Z ts qs rs rqs -> QV ex Z ts (qs ++ [empty_queue]) rs (rqs ++ [r]).
Proof.
  intros [A1 A2 A3 A4 A5 A6 A7 A8 A9]. constructor; auto.
  - rewrite !app_length, A3. reflexivity.
  - apply Forall_app. split; [exact A4 | constructor; [apply WFQ_empty | constructor]].
  - intros id t Hf. rewrite app_length. specialize (A5 _ _ Hf). lia.
  - intros id t q Hf Hq. rewrite nth_error_app1 in Hq by (eapply A5; exact Hf). eapply A6; eassumption.
  - intros i q x Hq Hm. destruct (Nat.lt_ge_cases i (length qs)) as [Hi|Hi].
    + rewrite nth_error_app1 in Hq by exact Hi. eapply A7; eassumption.
    + rewrite nth_error_app2 in Hq by exact Hi. destruct (i - length qs)%nat as [|k]; [|destruct k; discriminate].
      cbn in Hq. inversion Hq; subst. exfalso. destruct Hm as (p & [(e & [] & _)|(l & Hl & _)]). discriminate.
Qed.
