(** C05, accounting conjunct: the theorem.

    [accounting_exact]: along every history in which no subtraction from a free counter saturates
    ([fits_run], executable: not F23, and the scheduler's answers fit), the accounting conjunct of
    [Monitors.core_ok] holds in the final state - F23 and an ill-fitting solver answer are the ONLY
    ways the server's resource accounting can go wrong.

    The monitor [worker_accounting_ok] sums the requests in THREE components (cpus, gpus, mem of the
    simulation); with a request class of four amounts on a worker of four resources the literal
    statement is false ([accounting_exact_refuted]).  The theorem therefore has the static
    hypothesis [op_dim]: a submitted request class names at most three amounts.  Without it the
    invariant holds at every index ([accounting_exact_pointwise], AcctStep.v; restated here as
    [accounting_exact_all_indices]). *)
From HQ Require Import Base.Prelude Cluster.Types Cluster.Core Cluster.Reactor Cluster.Worker Cluster.Server Cluster.Sys Cluster.Monitors Cluster.BijBase Cluster.BijFinal Cluster.InvWBase Cluster.InvWCore Cluster.InvWFinal Cluster.InvQBase Cluster.InvQStep Cluster.InvAll Cluster.InvBundle Cluster.InvWX3 Cluster.NoPanicU0 Cluster.NoPanicU20 Cluster.NoFresh Cluster.AcctBase Cluster.AcctReact Cluster.AcctReact2 Cluster.AcctServer Cluster.AcctStep.
From Coq Require Import ZArith Lia.
Local Open Scope N_scope.

Arguments N.add : simpl never.
Arguments N.sub : simpl never.

(** * From the pointwise invariant to the monitor *)
Definition rq3 (r : rqdef) : Prop := (length (rq_res r) <= 3)%nat.

Lemma tot_zero g a i : (forall x, In x a -> at_ i (g x) = 0) -> tot g a i = 0.
Proof.
  induction a as [|y r IH]; intros H; [reflexivity|]. rewrite tot_cons, (H y (or_introl eq_refl)), IH; [reflexivity|].
  intros x Hx. apply H. right. exact Hx.
Qed.

Lemma request_of_beyond c id i : Forall rq3 (c_rqs c) -> (3 <= i)%nat -> at_ i (request_of c id) = 0.
Proof.
  intros HD Hi. unfold request_of. destruct (find_task (c_tasks c) id) as [t|]; [|apply at_nil].
  destruct (nth_error (c_rqs c) (N.to_nat (t_rq t))) as [r|] eqn:E; [|apply at_nil].
  apply at_beyond. rewrite Forall_forall in HD. specialize (HD r (nth_error_In _ _ E)). unfold rq3 in HD. lia.
Qed.

Lemma accw_ok c wk : Forall rq3 (c_rqs c) -> accw (request_of c) wk -> worker_accounting_ok c wk = true.
Proof.
  intros HD HA. unfold accw in HA. unfold worker_accounting_ok. destruct (w_assign wk) as [a p f|]; [|reflexivity].
  destruct HA as [L A]. apply andb_true_iff. split.
  - apply res_fits_iff. intros i. rewrite at_sum_requests. specialize (A i). destruct (i <? 3)%nat; lia.
  - apply res_eqb_iff. apply at_ext; [rewrite res_add_length; exact L|].
    intros i. rewrite at_res_add, at_sum_requests. specialize (A i).
    destruct (i <? length f)%nat eqn:E1.
    + destruct (i <? 3)%nat eqn:E2; [exact A|]. apply Nat.ltb_ge in E2.
      rewrite (tot_zero (request_of c) a i) in A; [lia|]. intros x _. apply request_of_beyond; assumption.
    + apply Nat.ltb_ge in E1. symmetry. apply at_beyond. lia.
Qed.

Lemma ACC_ok c : Forall rq3 (c_rqs c) -> ACC c -> forallb (worker_accounting_ok c) (c_workers c) = true.
Proof. intros HD HA. apply forallb_forall. intros wk Hin. apply accw_ok; [exact HD | apply HA; exact Hin]. Qed.

(** * The theorem *)
(** A submitted request class names at most the three resources of the simulation. *)
Definition op_dim (o : op) : Prop := op_adds rq3 o.

Theorem accounting_exact : forall ops r m s outs,
  Forall op_wf ops -> Forall op_dim ops -> ops_ok (init_sys r m) ops = true -> fits_run (init_sys r m) ops = true ->
  run (init_sys r m) ops = Ok (s, outs) ->
  forallb (worker_accounting_ok (s_core s)) (c_workers (s_core s)) = true.
Proof.
  intros ops r m s outs Hwf Hd Hok Hfit H.
  destruct (accounting_exact_pointwise rq3 ops r m s outs Hwf Hd Hok Hfit H) as [HA HD]. apply ACC_ok; assumption.
Qed.

(** Without the dimension hypothesis: exact at EVERY index (not only the three the monitor sums). *)
Theorem accounting_exact_all_indices : forall ops r m s outs,
  Forall op_wf ops -> ops_ok (init_sys r m) ops = true -> fits_run (init_sys r m) ops = true ->
  run (init_sys r m) ops = Ok (s, outs) ->
  forall wk a p f, In wk (c_workers (s_core s)) -> w_assign wk = Sn a p f ->
    length f = length (w_res wk) /\
    forall i, nth i f 0 + fold_right (fun id acc => nth i (request_of (s_core s) id) 0 + acc) 0 a = nth i (w_res wk) 0.
Proof.
  intros ops r m s outs Hwf Hok Hfit H wk a p f Hin Ea.
  assert (Hd : Forall (op_adds (fun _ => True)) ops).
  { apply Forall_forall. intros o _. destruct o; cbn; auto. apply Forall_forall. auto. }
  destruct (accounting_exact_pointwise (fun _ => True) ops r m s outs Hwf Hd Hok Hfit H) as [HA _].
  specialize (HA wk Hin). unfold accw in HA. rewrite Ea in HA. exact HA.
Qed.

(** * The literal statement (no dimension hypothesis) is false of the model *)
Definition h_dim4 : list op :=
  [OpConnect [1; 1; 1; 1] 0;
   OpSubmit None [] (Some 1) (mkRq 0 [0; 0; 0; 1]) 0%Z CUnl false None;
   OpSched (mkSol [(0, 0, [(1, 1)])] [] [1] [])].

Example accounting_exact_refuted :
  exists s outs, Forall op_wf h_dim4 /\ ops_ok (init_sys 0 2) h_dim4 = true /\ fits_run (init_sys 0 2) h_dim4 = true /\
    run (init_sys 0 2) h_dim4 = Ok (s, outs) /\
    forallb (worker_accounting_ok (s_core s)) (c_workers (s_core s)) = false /\
    c_workers (s_core s) = [mkSW 1 (Sn [(1, 0)] [] [1; 1; 1; 0]) [1; 1; 1; 1] [] 0 false].
Proof.
  destruct (run (init_sys 0 2) h_dim4) as [[s outs]| |] eqn:E; [|vm_compute in E; discriminate | vm_compute in E; discriminate].
  exists s, outs. split; [repeat constructor; cbn; lia|]. split; [vm_compute; reflexivity|]. split; [vm_compute; reflexivity|].
  split; [reflexivity|]. vm_compute in E. inversion E; subst. split; vm_compute; reflexivity.
Qed.

(** * The hypothesis is needed and is exactly F23 *)
(** Worker 1 has one cpu.  A = (1,0) runs there, B = (2,0) is prefilled there, C = (2,1) waits.
    The client cancels A: the server frees the cpu at once.  The worker has not seen the cancel; A
    ends, the worker starts B from its backlog by itself and reports [Finished A; RunningPrefilled B].
    Before that message is processed the scheduler gives the freed cpu to C.  Then the message
    arrives: B moves from the prefilled to the assigned set, the subtraction saturates. *)
Definition rq_cpu : rqdef := mkRq 0 [1; 0; 0].
Definition h_f23 : list op :=
  [OpConnect [1; 0; 0] 0;
   OpSubmit None [] (Some 1) rq_cpu 0%Z CUnl false None;          (* job 1: A *)
   OpSubmit None [] (Some 2) rq_cpu 0%Z CUnl false None;          (* job 2: B, C *)
   OpSched (mkSol [(0, 0, [(1, 1)])] [] [1] []);                   (* A assigned, B prefilled (max 1) *)
   OpDDown 1 []; OpDDown 1 []; OpDUp 1;                            (* NewRq, Compute; A runs *)
   OpCancel 1;                                                     (* the server releases A's cpu *)
   OpEnd 1 (1, 0) EndOk;                                           (* the worker starts B on its own *)
   OpSched (mkSol [(0, 0, [(1, 1)])] [] [1] [(0, [(2, 0)])])].     (* C gets the cpu *)
(** ... then B's reject-free start is processed, C is rejected by the worker, B ends. *)
Definition h_f23_tail : list op :=
  [OpDDown 1 []; OpDDown 1 []; OpDUp 1; OpEnd 1 (2, 0) EndOk; OpDUp 1].

Example f23_is_the_hypothesis :
  exists s outs s' outs',
    Forall op_wf (h_f23 ++ [OpDUp 1]) /\ Forall op_dim (h_f23 ++ [OpDUp 1]) /\
    ops_ok (init_sys 0 1) (h_f23 ++ [OpDUp 1]) = true /\
    run (init_sys 0 1) h_f23 = Ok (s, outs) /\
    fits_run (init_sys 0 1) h_f23 = true /\
    forallb (worker_accounting_ok (s_core s)) (c_workers (s_core s)) = true /\
    (* the message being processed is the self-started prefilled task *)
    map p_up (s_procs s) = [[UUpdates [UFinished (1, 0); URunningPrefilled (2, 0) 0]]] /\
    map (fun t => (t_id t, t_state t)) (c_tasks (s_core s)) = [((2, 0), Prefilled 1); ((2, 1), Assigned 1 0)] /\
    fits_step s (OpDUp 1) = false /\
    step s (OpDUp 1) = Ok (s', outs') /\
    forallb (worker_accounting_ok (s_core s')) (c_workers (s_core s')) = false /\
    c_workers (s_core s') = [mkSW 1 (Sn [(2, 0); (2, 1)] [] [0; 0; 0]) [1; 0; 0] [] 0 false].
Proof.
  destruct (run (init_sys 0 1) h_f23) as [[s outs]| |] eqn:E; [|vm_compute in E; discriminate | vm_compute in E; discriminate].
  destruct (step s (OpDUp 1)) as [[s' outs']| |] eqn:E'; vm_compute in E; inversion E; subst; clear E;
    [|vm_compute in E'; discriminate | vm_compute in E'; discriminate].
  eexists _, _, s', outs'.
  split; [repeat constructor; cbn; lia|]. split; [repeat constructor; cbn; lia|].
  split; [vm_compute; reflexivity|]. split; [reflexivity|]. split; [vm_compute; reflexivity|].
  split; [vm_compute; reflexivity|]. split; [vm_compute; reflexivity|]. split; [vm_compute; reflexivity|].
  split; [vm_compute; reflexivity|]. split; [exact E'|].
  vm_compute in E'. inversion E'; subst. split; vm_compute; reflexivity.
Qed.

(** ... before the repair of the add-back ([res_add_cap]: finding F29) the counter never recovered -
    at rest the worker showed two free cpus of one, and the scheduler then double-booked it; with
    the capped add-back it is exact again once the worker is empty. *)
Example f23_drift :
  exists s outs, run (init_sys 0 1) (h_f23 ++ OpDUp 1 :: h_f23_tail) = Ok (s, outs) /\
    c_workers (s_core s) = [mkSW 1 (Sn [] [] [1; 0; 0]) [1; 0; 0] [] 0 false].
Proof.
  destruct (run (init_sys 0 1) (h_f23 ++ OpDUp 1 :: h_f23_tail)) as [[s outs]| |] eqn:E; [|vm_compute in E; discriminate | vm_compute in E; discriminate].
  exists s, outs. split; [reflexivity|]. vm_compute in E. inversion E; subst. vm_compute. reflexivity.
Qed.

(** The hypotheses of [accounting_exact] are satisfiable by non-trivial histories: the prefill /
    retract / redirect histories of NoPanicU0.v, in which prefilled tasks ARE started by the worker
    on its own (without the race). *)
Example accounting_exact_hyps_ok :
  (Forall op_wf h_prefill /\ Forall op_dim h_prefill /\ ops_ok (init_sys 0 2) h_prefill = true /\ fits_run (init_sys 0 2) h_prefill = true
   /\ exists s outs, run (init_sys 0 2) h_prefill = Ok (s, outs))
  /\ (Forall op_wf h_retract_race /\ Forall op_dim h_retract_race /\ ops_ok (init_sys 0 2) h_retract_race = true /\ fits_run (init_sys 0 2) h_retract_race = true
   /\ exists s outs, run (init_sys 0 2) h_retract_race = Ok (s, outs)).
Proof.
  split.
  - split; [repeat constructor; cbn; lia|]. split; [repeat constructor; cbn; lia|]. split; [vm_compute; reflexivity|]. split; [vm_compute; reflexivity|].
    destruct (run (init_sys 0 2) h_prefill) as [[s outs]| |] eqn:E; [eauto | vm_compute in E; discriminate | vm_compute in E; discriminate].
  - split; [repeat constructor; cbn; lia|]. split; [repeat constructor; cbn; lia|]. split; [vm_compute; reflexivity|]. split; [vm_compute; reflexivity|].
    destruct (run (init_sys 0 2) h_retract_race) as [[s outs]| |] eqn:E; [eauto | vm_compute in E; discriminate | vm_compute in E; discriminate].
Qed.

Print Assumptions accounting_exact.
Print Assumptions accounting_exact_all_indices.
