(** C09 for client requests, part 2: totality of the core primitives on the paths of the client
    requests (queue removal, worker-set removal, consumer collection, [remove_consumer_from],
    [reset_mn_all]) and of [process_retracted], from the invariants [WI] / [QInv] / [GD]. *)
From HQ Require Import Base.Prelude Cluster.Types Cluster.Core Cluster.Reactor Cluster.Worker Cluster.Server Cluster.Sys Cluster.Monitors Cluster.ProofsJob Cluster.ProofsMore Cluster.ProofsStep Cluster.ProofsFinal Cluster.BijBase Cluster.BijCore Cluster.BijHq Cluster.BijSt Cluster.BijReact Cluster.BijFinal Cluster.InvWBase Cluster.InvWView Cluster.InvWCore Cluster.InvWReact Cluster.InvQBase Cluster.InvQTake Cluster.InvQInv Cluster.InvDBase Cluster.InvDSpec Cluster.InvDRem Cluster.InvProcsDef Cluster.NoPanicC1.
From Coq Require Import ZArith Lia Sorting.Sorted.
Local Open Scope N_scope.

Arguments N.add : simpl never.
Arguments N.sub : simpl never.

(** * Indexing *)
Lemma nth_queue_tot qs i : (i < length qs)%nat -> exists q, nth_queue qs i = Ok q /\ nth_error qs i = Some q.
Proof. intros H. destruct (nth_error_ex qs i H) as (q & Hq). exists q. split; [apply nth_queue_ok; exact Hq | exact Hq]. Qed.

Lemma get_rq_tot rqs rq : (N.to_nat rq < length rqs)%nat -> exists r, get_rq rqs rq = Ok r.
Proof. intros H. unfold get_rq. destruct (nth_error_ex rqs _ H) as (r & ->). eexists; reflexivity. Qed.

(** * Queue removal *)
Lemma qe_remove_tot es id p : WFE es -> EAt es p id -> exists es', qe_remove es id p = Ok es'.
Proof.
  induction es as [|e t IH]; intros Hwf Hat; [apply EAt_nil in Hat; destruct Hat|].
  destruct (WFE_inv _ _ Hwf) as (He & Hb & Hwt). cbn [qe_remove].
  destruct (Z.eqb (qe_prio e) p) eqn:E.
  - apply Z.eqb_eq in E. destruct (qe_more e).
    + destruct (tid_remove id (qe_ids e)); eexists; reflexivity.
    + assert (Hm : tid_mem id (qe_ids e) = true).
      { apply EAt_cons in Hat. destruct Hat as [[_ Hin]|Hat]; [apply tmem_in; exact Hin|].
        exfalso. apply (WFE_head_notin _ _ _ _ Hwf Hat). symmetry. exact E. }
      rewrite Hm. eexists; reflexivity.
  - apply Z.eqb_neq in E. apply EAt_cons in Hat. destruct Hat as [[Hp _]|Hat]; [contradiction|].
    destruct (IH Hwt Hat) as (es' & ->). eexists; reflexivity.
Qed.

Lemma q_remove_tot q id p : WFQ q -> RdyAt q p id \/ PfAt q p id -> exists q', q_remove q id p = Ok q'.
Proof.
  intros [Hwe Hwp] Hat. unfold q_remove.
  assert (Hr : RdyAt q p id -> exists q', (do r <- qe_remove (q_ready q) id p; Ok (mkQ r (q_prefill q))) = Ok q').
  { intros Hrd. destruct (qe_remove_tot _ _ _ Hwe Hrd) as (es' & ->). eexists; reflexivity. }
  destruct (q_prefill q) as [[pp ts]|] eqn:Ep.
  - destruct (Z.eqb p pp && tid_mem id ts) eqn:Ec; [eexists; reflexivity|].
    destruct Hat as [Hrd|Hpf]; [apply Hr; exact Hrd|].
    unfold PfAt in Hpf. rewrite Ep in Hpf. apply PAt_some in Hpf. destruct Hpf as [-> Hin].
    apply tmem_in in Hin. rewrite Z.eqb_refl, Hin in Ec. discriminate.
  - destruct Hat as [Hrd|Hpf]; [apply Hr; exact Hrd|].
    unfold PfAt in Hpf. rewrite Ep in Hpf. apply PAt_none in Hpf. destruct Hpf.
Qed.

Lemma q_remove_prefilled_tot q id p : PfAt q p id -> exists q', q_remove_prefilled q id = Ok q'.
Proof.
  unfold PfAt, PAt, q_remove_prefilled. intros (ts & -> & Hin). apply tmem_in in Hin. rewrite Hin.
  destruct (tid_remove id ts); eexists; reflexivity.
Qed.

Lemma placed_ready_at q pr x : placed q Ready pr x -> RdyAt q pr x.
Proof. intros [A _]. apply A. reflexivity. Qed.
Lemma placed_prefill_at q pr x : placed q Prefill pr x -> PfAt q pr x.
Proof. intros [A _]. apply A. reflexivity. Qed.

(** * Worker sets *)
Lemma remove_sn_task_tot wk id rq a p f : w_assign wk = Sn a p f -> tid_mem id a = true ->
  exists wk', remove_sn_task wk id rq = Ok wk' /\ w_id wk' = w_id wk.
Proof. intros Ea Hm. unfold remove_sn_task. rewrite Ea, Hm. eexists. split; reflexivity. Qed.

Lemma remove_prefill_task_tot wk id a p f : w_assign wk = Sn a p f -> tid_mem id p = true ->
  exists wk', remove_prefill_task wk id = Ok wk' /\ w_id wk' = w_id wk.
Proof. intros Ea Hm. unfold remove_prefill_task. rewrite Ea, Hm. eexists. split; reflexivity. Qed.

Lemma get_worker_ok ws w wk : find_worker ws w = Some wk -> get_worker ws w = Ok wk.
Proof. unfold get_worker. intros ->. reflexivity. Qed.
Lemma get_task_ok ts id t : find_task ts id = Some t -> get_task ts id = Ok t.
Proof. unfold get_task. intros ->. reflexivity. Qed.

(** What the worker-set invariant says about a visible task. *)
Lemma WIX_A X c id t w : WIX X c -> X id = false -> find_task (c_tasks c) id = Some t -> pl (t_state t) = PA w ->
  exists wk a p f, find_worker (c_workers c) w = Some wk /\ w_assign wk = Sn a p f /\ tid_mem id a = true.
Proof.
  intros (_ & _ & H & _) Hx Hf Hp.
  assert (E : wantA (hv X (TV (c_tasks c))) (find_redirect (c_redirects c)) w id = true).
  { unfold wantA. rewrite (hv_find X _ _ _ Hx Hf), Hp. apply N.eqb_refl. }
  rewrite <- (wi_A _ _ _ H) in E. unfold inA in E.
  destruct (find_worker (c_workers c) w) as [wk|]; [|discriminate]. destruct (w_assign wk) as [a p f|] eqn:Ea; [|discriminate].
  exists wk, a, p, f. auto.
Qed.

Lemma WIX_P X c id t w : WIX X c -> X id = false -> find_task (c_tasks c) id = Some t -> pl (t_state t) = PP w ->
  exists wk a p f, find_worker (c_workers c) w = Some wk /\ w_assign wk = Sn a p f /\ tid_mem id p = true.
Proof.
  intros (_ & _ & H & _) Hx Hf Hp.
  assert (E : wantP (hv X (TV (c_tasks c))) w id = true).
  { unfold wantP. rewrite (hv_find X _ _ _ Hx Hf), Hp. apply N.eqb_refl. }
  rewrite <- (wi_P _ _ _ H) in E. unfold inP in E.
  destruct (find_worker (c_workers c) w) as [wk|]; [|discriminate]. destruct (w_assign wk) as [a p f|] eqn:Ea; [|discriminate].
  exists wk, a, p, f. auto.
Qed.

Lemma WIX_R X c id w v : WIX X c -> find_redirect (c_redirects c) id = Some (w, v) ->
  exists wk a p f, find_worker (c_workers c) w = Some wk /\ w_assign wk = Sn a p f /\ tid_mem id a = true.
Proof.
  intros HW Hr. pose proof (redirect_visible _ _ _ _ HW Hr) as Hx. destruct HW as (_ & _ & H & _).
  assert (Hpr : plo (hv X (TV (c_tasks c)) id) = PR) by (apply (wi_R _ _ _ H); congruence).
  assert (E : wantA (hv X (TV (c_tasks c))) (find_redirect (c_redirects c)) w id = true).
  { unfold wantA. rewrite Hpr, Hr. apply N.eqb_refl. }
  rewrite <- (wi_A _ _ _ H) in E. unfold inA in E.
  destruct (find_worker (c_workers c) w) as [wk|]; [|discriminate]. destruct (w_assign wk) as [a p f|] eqn:Ea; [|discriminate].
  exists wk, a, p, f. auto.
Qed.

Lemma WIX_M X c id t ws w : WIX X c -> X id = false -> find_task (c_tasks c) id = Some t -> pl (t_state t) = PM ws -> In w ws ->
  exists wk root, find_worker (c_workers c) w = Some wk /\ w_assign wk = Mn id root.
Proof.
  intros (_ & _ & H & _) Hx Hf Hp Hin.
  assert (E : wantM (hv X (TV (c_tasks c))) w id = true).
  { unfold wantM. rewrite (hv_find X _ _ _ Hx Hf), Hp. apply n_mem_in. exact Hin. }
  rewrite <- (wi_M _ _ _ H) in E. destruct (inM_mn _ _ _ E) as (wk & mt & root & E1 & E2 & E3). subst mt. exists wk, root. auto.
Qed.

(** The worker domain. *)
Definition wdom (c c' : core) : Prop := forall w, find_worker (c_workers c') w <> None <-> find_worker (c_workers c) w <> None.
Lemma wdom_refl c : wdom c c. Proof. intros w. tauto. Qed.
Lemma wdom_trans c1 c2 c3 : wdom c1 c2 -> wdom c2 c3 -> wdom c1 c3.
Proof. intros A B w. rewrite (B w). apply A. Qed.
Lemma wdom_workers c c' : c_workers c' = c_workers c -> wdom c c'.
Proof. intros E w. rewrite E. tauto. Qed.
Lemma wdom_upd c wk wk0 : find_worker (c_workers c) (w_id wk) = Some wk0 -> wdom c (upd_worker c wk).
Proof.
  intros Hf w. cbn [upd_worker with_workers c_workers]. rewrite find_set_worker.
  destruct (N.eqb w (w_id wk)) eqn:E; [|tauto]. apply N.eqb_eq in E. subst w. rewrite Hf. split; discriminate.
Qed.

Lemma reset_mn_all_tot l : forall c, (forall w, In w l -> find_worker (c_workers c) w <> None) ->
  exists c', reset_mn_all c l = Ok c'.
Proof.
  induction l as [|w r IH]; intros c H; [eexists; reflexivity|]. cbn [reset_mn_all].
  destruct (find_worker (c_workers c) w) as [wk|] eqn:E; [|exfalso; apply (H w); [left; reflexivity | exact E]].
  rewrite (get_worker_ok _ _ _ E). cbn [bind]. apply IH. intros w' Hw'.
  apply (wdom_upd c (reset_mn_task wk) wk); [cbn; rewrite (proj2 (find_worker_some _ _ _ E)); exact E|].
  apply H. right. exact Hw'.
Qed.

(** * Grouping *)
Lemma group_add_keys {A} w (x : A) l : forall w' v, In (w', v) (group_add w x l) -> w' = w \/ exists v0, In (w', v0) l.
Proof.
  induction l as [|[k v] r IH]; cbn [group_add]; intros w' v' Hin.
  - destruct Hin as [Hin|[]]. inversion Hin. left; reflexivity.
  - destruct (N.eqb k w) eqn:E.
    + destruct Hin as [Hin|Hin]; [inversion Hin; subst; apply N.eqb_eq in E; left; exact E | right; exists v'; right; exact Hin].
    + destruct Hin as [Hin|Hin]; [inversion Hin; subst; right; exists v'; left; reflexivity|].
      destruct (IH _ _ Hin) as [->|(v0 & Hv0)]; [left; reflexivity | right; exists v0; right; exact Hv0].
Qed.

(** * [process_retracted] *)
Lemma retract_states_tot ids : forall c acc,
  WI c -> NoDup ids ->
  (forall x, In x ids -> exists t w, find_task (c_tasks c) x = Some t /\ t_state t = Prefilled w) ->
  (forall w l, In (w, l) acc -> find_worker (c_workers c) w <> None) ->
  exists c' acc', retract_states c ids acc = Ok (c', acc') /\
    (forall w l, In (w, l) acc' -> find_worker (c_workers c) w <> None).
Proof.
  induction ids as [|id r IH]; intros c acc HW Hnd Hpf Hacc; [exists c, acc; split; [reflexivity | exact Hacc]|].
  inversion Hnd as [|? ? Hni Hnd']; subst.
  destruct (Hpf id (or_introl eq_refl)) as (t & w & Hf & Hst).
  destruct (find_task_some _ _ _ Hf) as [_ Hid].
  destruct (WIX_P x0 c id t w HW eq_refl Hf) as (wk & a & p & f & Hw & Ea & Hm); [rewrite Hst; reflexivity|].
  destruct (remove_prefill_task_tot wk id a p f Ea Hm) as (wk' & Hrm & Hwid).
  set (c1 := upd_worker (upd_task c (with_state t (Retracting w))) wk').
  assert (Hstep : forall r', retract_states c (id :: r') acc = retract_states c1 r' (group_add w id acc)).
  { intros r'. cbn [retract_states]. rewrite (get_task_ok _ _ _ Hf). cbn [bind]. rewrite Hst.
    rewrite (get_worker_ok _ _ _ Hw). cbn [bind]. rewrite Hrm. cbn [bind]. reflexivity. }
  assert (HW1 : WI c1) by (eapply (retract_states_WI [id] c acc); [exact HW | rewrite Hstep; reflexivity]).
  assert (Hd : wdom c c1).
  { subst c1. apply (wdom_upd (upd_task c (with_state t (Retracting w))) wk' wk). cbn. rewrite Hwid, (proj2 (find_worker_some _ _ _ Hw)). exact Hw. }
  rewrite Hstep.
  destruct (IH c1 (group_add w id acc) HW1 Hnd') as (c' & acc' & Hr & Hacc').
  - intros x Hx. destruct (Hpf x (or_intror Hx)) as (tx & wx & Hfx & Hsx). exists tx, wx. split; [|exact Hsx].
    subst c1. cbn [upd_worker with_workers upd_task with_tasks c_tasks]. rewrite find_set_task. cbn [with_state t_id]. rewrite Hid.
    destruct (tid_eqb x id) eqn:E; [apply tid_eqb_eq in E; subst x; contradiction | exact Hfx].
  - intros w' l Hin. apply Hd. destruct (group_add_keys _ _ _ _ _ Hin) as [->|(v0 & Hv0)]; [rewrite Hw; discriminate | eapply Hacc; exact Hv0].
  - exists c', acc'. split; [exact Hr|]. intros w' l Hin. apply Hd. eapply Hacc'. exact Hin.
Qed.

Lemma process_retracted_tot s ret :
  WI (core_of s) -> PWc s -> NoDup ret ->
  (forall x, In x ret -> exists t w, find_task (c_tasks (core_of s)) x = Some t /\ t_state t = Prefilled w) ->
  exists s', process_retracted s ret = Ok s'.
Proof.
  intros HW Hpw Hnd Hpf. unfold process_retracted. destruct ret as [|r0 rr]; [eexists; reflexivity|].
  destruct (retract_states_tot (r0 :: rr) (core_of s) [] HW Hnd Hpf) as (c' & groups & Hr & Hg); [intros w l []|].
  rewrite Hr. cbn [bind]. apply send_all_tot. intros w m Hin.
  apply in_map_iff in Hin. destruct Hin as ([w0 l0] & E & Hin). cbn in E. inversion E; subst.
  change (has_proc s w). apply Hpw. eapply Hg. exact Hin.
Qed.

(** * Consumers *)
Lemma collect_consumers_tot fuel : forall ts frontier acc,
  WFc ts -> (forall x, In x frontier -> find_task ts x <> None) -> exists r, collect_consumers fuel ts frontier acc = Ok r.
Proof.
  induction fuel as [|k IH]; intros ts frontier acc W Hf; destruct frontier as [|id rest]; cbn [collect_consumers]; try (eexists; reflexivity).
  destruct (find_task ts id) as [t|] eqn:E; [|exfalso; apply (Hf id); [left; reflexivity | exact E]].
  rewrite (get_task_ok _ _ _ E). cbn [bind]. apply IH; [exact W|].
  intros x Hx. apply in_app_iff in Hx. destruct Hx as [Hx|Hx]; [apply Hf; right; exact Hx|].
  apply filter_In in Hx. destruct Hx as [Hx _]. apply (proj2 (W _ _ E)). exact Hx.
Qed.

Lemma recursive_consumers_tot ts id t : WFc ts -> find_task ts id = Some t -> exists r, recursive_consumers ts t = Ok r.
Proof. intros W Hf. unfold recursive_consumers. apply collect_consumers_tot; [exact W|]. apply (proj2 (W _ _ Hf)). Qed.

Lemma rcf_tot deps : forall ts cid, NoDup deps ->
  (forall d dt, In d deps -> find_task ts d = Some dt -> In cid (t_consumers dt)) ->
  exists ts', remove_consumer_from ts deps cid = Ok ts'.
Proof.
  induction deps as [|d r IH]; intros ts cid Hnd H; [eexists; reflexivity|].
  inversion Hnd as [|? ? Hni Hnd']; subst. cbn [remove_consumer_from].
  destruct (find_task ts d) as [input|] eqn:E.
  - pose proof (H d input (or_introl eq_refl) E) as Hin. apply tmem_in in Hin. rewrite Hin.
    apply IH; [exact Hnd'|]. intros d' dt Hd' Hf'. rewrite find_set_task in Hf'. cbn [with_consumers t_id] in Hf'.
    rewrite (proj2 (find_task_some _ _ _ E)) in Hf'.
    destruct (tid_eqb d' d) eqn:E'; [apply tid_eqb_eq in E'; subst d'; contradiction|].
    eapply H; [right; exact Hd' | exact Hf'].
  - apply IH; [exact Hnd'|]. intros d' dt Hd' Hf'. eapply H; [right; exact Hd' | exact Hf'].
Qed.
