(** C19, "reported finished => complete" outside the known-finding class F20, at byte level
    (closes the open item [C19_finished_outside_F20]).

    Setting (that of the monitor `finished-but-incomplete` of ocaml/stream/driver.ml): [orig] are
    the stream files as the writers produced them, [fs] is what a reader finds later - every file
    either skipped (gone, or cut inside its file header) or cut at some byte at or after its
    header ([cut_dir]).  If the reader reports the stream of a task finished and the situation is
    not in the class [f20_class] (finished flag raised by the first end marker although another
    record of the instance did not survive), then per channel the reader returns exactly the
    bytes the reported instance wrote into [orig] - the concatenation, in writing order, of the
    data of all its chunks; no byte is lost, none added.

    Part 1 (this file): the relation between [orig] and [fs], and counting.  The theorems are in
    [FullFinMain]. *)
From HQ Require Import Base.Prelude Gen.Consts Stream.Model Stream.Codec Stream.Index Stream.Runs Stream.Proofs.
Require Import ZifyBool ZifyN ZifyNat.
Open Scope N_scope.

Arguments N.add : simpl never.
Arguments N.sub : simpl never.
Arguments N.mul : simpl never.
Arguments N.eqb : simpl never.
Arguments N.ltb : simpl never.
Arguments N.leb : simpl never.
Arguments N.of_nat : simpl never.

(** * What remains of a directory *)

(** [cut_dir orig fs]: every file of [orig] is either skipped by the reader or cut at some byte
    [n] at or after its file header ([cut_file]; [n] >= the file's length = the file is intact). *)
Inductive cut_dir : list AFile -> list AFile -> Prop :=
| cd_nil : cut_dir [] []
| cd_skip o orig fs : cut_dir orig fs -> cut_dir (o :: orig) fs
| cd_cut o n a orig fs :
    cut_file (af_hdr o) (af_recs o) n = Some a -> cut_dir orig fs -> cut_dir (o :: orig) (a :: fs).

(** the consequence used by the proofs: the complete records of a remaining file are a prefix of
    the original's records, and its torn record (if any) is one of the records that follow *)
Inductive sub_dir : list AFile -> list AFile -> Prop :=
| sd_nil : sub_dir [] []
| sd_skip o orig fs : sub_dir orig fs -> sub_dir (o :: orig) fs
| sd_keep o a rest orig fs :
    af_recs o = af_recs a ++ rest -> (forall r d, af_torn a = Some (r, d) -> In r rest) ->
    sub_dir orig fs -> sub_dir (o :: orig) (a :: fs).

Lemma cut_recs_prefix recs : forall n c t,
  cut_recs n recs = (c, t) ->
  exists rest, recs = c ++ rest /\ (forall r d, t = Some (r, d) -> In r rest).
Proof.
  induction recs as [|r recs IH]; intros n c t H.
  - cbn [cut_recs] in H. injection H as <- <-. exists []. split; [reflexivity | discriminate].
  - cbn [cut_recs] in H.
    destruct (lenN (enc_chunk_header (r_hdr r)) + lenN (r_data r) <=? n).
    + destruct (cut_recs (n - (lenN (enc_chunk_header (r_hdr r)) + lenN (r_data r))) recs) as [c' t'] eqn:E.
      injection H as <- <-. destruct (IH _ _ _ E) as (rest & -> & Ht). exists rest. split; [reflexivity | exact Ht].
    + destruct (lenN (enc_chunk_header (r_hdr r)) <=? n).
      * injection H as <- <-. exists (r :: recs). split; [reflexivity|]. intros r' d E. injection E as <- _.
        left; reflexivity.
      * injection H as <- <-. exists (r :: recs). split; [reflexivity | discriminate].
Qed.

Lemma cut_file_prefix fh recs n a :
  cut_file fh recs n = Some a ->
  af_hdr a = fh /\ exists rest, recs = af_recs a ++ rest /\ (forall r d, af_torn a = Some (r, d) -> In r rest).
Proof.
  unfold cut_file. destruct (n <? lenN (enc_file_header fh)); [discriminate|].
  destruct (cut_recs (n - lenN (enc_file_header fh)) recs) as [c t] eqn:E. intros H. injection H as <-.
  cbn [af_hdr af_recs af_torn]. split; [reflexivity|]. exact (cut_recs_prefix recs _ c t E).
Qed.

Lemma cut_dir_sub orig fs : cut_dir orig fs -> sub_dir orig fs.
Proof.
  induction 1 as [|o orig fs _ IH|o n a orig fs Hc _ IH].
  - constructor.
  - now constructor.
  - apply cut_file_prefix in Hc as (_ & rest & Hr & Ht). now apply (sd_keep o a rest).
Qed.

(** an intact directory remains itself *)
Lemma sub_dir_refl fs : Forall (fun a => af_torn a = None) fs -> sub_dir fs fs.
Proof.
  induction 1 as [|a fs Ha _ IH]; [constructor|].
  apply (sd_keep a a []); [now rewrite app_nil_r | | assumption]. intros r d E. congruence.
Qed.

Lemma sub_dir_app o1 f1 o2 f2 : sub_dir o1 f1 -> sub_dir o2 f2 -> sub_dir (o1 ++ o2) (f1 ++ f2).
Proof.
  induction 1 as [|o orig fs _ IH|o a rest orig fs Hr Ht _ IH]; intros H2; cbn [app].
  - assumption.
  - constructor. now apply IH.
  - apply (sd_keep o a rest); auto.
Qed.

(** * Counting the records of one instance *)

Lemma sumN_app {A} (f : A -> N) a b : sumN f (a ++ b) = sumN f a + sumN f b.
Proof.
  unfold sumN. induction a as [|x a IH]; cbn [app fold_right]; [now rewrite N.add_0_l|].
  rewrite IH. lia.
Qed.

Lemma filter_none {A} (p : A -> bool) l : (forall r, In r l -> p r = false) -> filter p l = [].
Proof.
  induction l as [|x l IH]; intros H; [reflexivity|]. cbn [filter].
  rewrite H by (left; reflexivity). apply IH. intros r Hr. apply H. now right.
Qed.

Lemma all_complete_cons a fs : all_complete (a :: fs) = af_recs a ++ all_complete fs.
Proof. reflexivity. Qed.
Lemma all_seen_cons a fs : all_seen (a :: fs) = (af_recs a ++ opt_list (torn_rec a)) ++ all_seen fs.
Proof. change (all_seen (a :: fs)) with (afile_seen a ++ all_seen fs). now rewrite afile_seen_eq. Qed.
Lemma torn_recs_cons a fs : torn_recs (a :: fs) = opt_list (torn_rec a) ++ torn_recs fs.
Proof.
  change (torn_recs (a :: fs)) with (match af_torn a with Some (r, _) => [r] | None => [] end ++ torn_recs fs).
  unfold torn_rec. destruct (af_torn a) as [[r d]|]; reflexivity.
Qed.

Section Count.
Variables (k : key) (i : N).
Notation cnt := (count_inst k i).

(** selections that only pick records of instance [i] of task [k] *)
Definition picks (p : Rec -> bool) : Prop := forall r, p r = true -> of_inst k i r = true.

Lemma picks_none p l : picks p -> (forall r, In r l -> of_inst k i r = false) -> filter p l = [].
Proof.
  intros Hp H. apply filter_none. intros r Hr. destruct (p r) eqn:E; [|reflexivity].
  apply Hp in E. rewrite (H r Hr) in E. discriminate.
Qed.

Lemma cnt_app a b : cnt (a ++ b) = cnt a + cnt b.
Proof. apply sumN_app. Qed.

Lemma cnt_zero l : cnt l = 0 -> forall r, In r l -> of_inst k i r = false.
Proof.
  unfold count_inst, sumN. induction l as [|x l IH]; intros H r Hr; [destruct Hr|].
  cbn [fold_right] in H. destruct (of_inst k i x) eqn:E; [lia|].
  destruct Hr as [<-|Hr]; [assumption|]. apply IH; [lia | assumption].
Qed.

Lemma sub_dir_le orig fs : sub_dir orig fs -> cnt (all_complete fs) <= cnt (all_complete orig).
Proof.
  induction 1 as [|o orig fs _ IH|o a rest orig fs Hr _ _ IH].
  - lia.
  - rewrite all_complete_cons, cnt_app. lia.
  - rewrite !all_complete_cons, !cnt_app, Hr, cnt_app. lia.
Qed.

(** no record of the instance lost => the surviving complete records of the instance are all its
    records, and no torn record is one of its records *)
Lemma sub_dir_eq orig fs :
  sub_dir orig fs -> cnt (all_complete orig) <= cnt (all_complete fs) ->
  (forall p, picks p -> filter p (all_complete orig) = filter p (all_complete fs))
  /\ (forall r, In r (torn_recs fs) -> of_inst k i r = false).
Proof.
  induction 1 as [|o orig fs Hs IH|o a rest orig fs Hr Ht Hs IH]; intros Hle.
  - split; [reflexivity | intros r []].
  - pose proof (sub_dir_le _ _ Hs) as L. rewrite all_complete_cons, cnt_app in Hle.
    destruct IH as [IH1 IH2]; [lia|]. split; [|exact IH2].
    intros p Hp. rewrite all_complete_cons, filter_app, (IH1 p Hp).
    rewrite (picks_none p (af_recs o) Hp); [reflexivity|]. apply cnt_zero. lia.
  - pose proof (sub_dir_le _ _ Hs) as L. rewrite !all_complete_cons, !cnt_app, Hr, cnt_app in Hle.
    destruct IH as [IH1 IH2]; [lia|].
    assert (Hz : forall r, In r rest -> of_inst k i r = false) by (apply cnt_zero; lia).
    split.
    + intros p Hp. rewrite !all_complete_cons, Hr, !filter_app, (IH1 p Hp), (picks_none p rest Hp Hz).
      now rewrite app_nil_r.
    + intros r Hin. rewrite torn_recs_cons in Hin. apply in_app_or in Hin as [Hin|Hin]; [|now apply IH2].
      unfold torn_rec in Hin. destruct (af_torn a) as [[r' d]|] eqn:E; [|destruct Hin].
      destruct Hin as [<-|[]]. apply Hz. exact (Ht r' d eq_refl).
Qed.

Lemma seen_complete_le fs : cnt (all_complete fs) <= cnt (all_seen fs).
Proof.
  induction fs as [|a fs IH]; [cbn; lia|]. rewrite all_complete_cons, all_seen_cons, !cnt_app. lia.
Qed.

Lemma seen_complete_eq fs :
  cnt (all_seen fs) <= cnt (all_complete fs) ->
  forall p, picks p -> filter p (all_seen fs) = filter p (all_complete fs).
Proof.
  induction fs as [|a fs IH]; intros Hle p Hp; [reflexivity|].
  pose proof (seen_complete_le fs) as L.
  rewrite all_complete_cons, all_seen_cons, !cnt_app in Hle.
  rewrite all_complete_cons, all_seen_cons, !filter_app, (IH ltac:(lia) p Hp).
  rewrite (picks_none p (opt_list (torn_rec a)) Hp); [now rewrite app_nil_r|]. apply cnt_zero. lia.
Qed.

Lemma picks_of_inst : picks (of_inst k i).
Proof. intros r H. exact H. Qed.

Lemma picks_is_data ch : picks (is_data k i ch).
Proof. intros r H. now apply is_data_of_inst in H. Qed.

End Count.

(** * A torn record is never an end marker *)

Lemma fin_seen_complete bs fs k i :
  Forall2 file_repr bs fs -> spec_finished k i (all_seen fs) = spec_finished k i (all_complete fs).
Proof.
  unfold spec_finished. induction 1 as [|b a bs fs Hb _ IH]; [reflexivity|].
  rewrite all_seen_cons, all_complete_cons, !existsb_app, IH. f_equal.
  destruct Hb as (tail & _ & Ht & _).
  destruct Ht as [t Ht | r d Hr Hd]; cbn [opt_list existsb]; [now rewrite orb_false_r|].
  destruct (N.eqb_spec (rec_size r) 0); [lia|]. now rewrite andb_false_r, !orb_false_r.
Qed.
