(** C19, layer 2: scanning the bytes of a stream file = folding the index update over the located
    records; the index entry of one task = the fold over that task's records only. *)
From HQ Require Import Base.Prelude Gen.Consts Stream.Model Stream.Codec.
Require Import ZifyBool ZifyN ZifyNat.
Open Scope N_scope.

Arguments N.add : simpl never.
Arguments N.sub : simpl never.
Arguments N.mul : simpl never.
Arguments N.div : simpl never.
Arguments N.modulo : simpl never.
Arguments N.eqb : simpl never.
Arguments N.ltb : simpl never.
Arguments N.leb : simpl never.
Arguments N.of_nat : simpl never.

(** * keys *)

Lemma key_eqb_eq a b : key_eqb a b = true <-> a = b.
Proof.
  unfold key_eqb. destruct a, b; simpl. rewrite andb_true_iff, !N.eqb_eq. split.
  - intros [-> ->]; reflexivity.
  - intros E; inversion E; auto.
Qed.

Lemma key_eqb_refl a : key_eqb a a = true.
Proof. now apply key_eqb_eq. Qed.

Lemma key_eqb_neq a b : key_eqb a b = false <-> a <> b.
Proof.
  split.
  - intros H E. apply key_eqb_eq in E. congruence.
  - intros H. destruct (key_eqb a b) eqn:E; [apply key_eqb_eq in E; contradiction | reflexivity].
Qed.

Definition dflt (o : option (list Inst)) : list Inst := match o with Some v => v | None => [] end.

Lemma lookup_upd_same k f idx : lookup k (upd k f idx) = Some (f (dflt (lookup k idx))).
Proof.
  induction idx as [|[k' v] r IH]; simpl.
  - now rewrite key_eqb_refl.
  - destruct (key_eqb k k') eqn:E; simpl; rewrite E; [reflexivity | exact IH].
Qed.

Lemma lookup_upd_other k k' f idx : k <> k' -> lookup k (upd k' f idx) = lookup k idx.
Proof.
  intros H. induction idx as [|[k2 v] r IH]; simpl.
  - apply key_eqb_neq in H. now rewrite H.
  - destruct (key_eqb k' k2) eqn:E; simpl.
    + apply key_eqb_eq in E. subst k2. apply key_eqb_neq in H. rewrite H. reflexivity.
    + destruct (key_eqb k k2); [reflexivity | exact IH].
Qed.

(** * located records *)

(** data position and record, for records rendered from stream position [pos] *)
Fixpoint locate (pos : N) (recs : list Rec) : list (N * Rec) :=
  match recs with
  | [] => []
  | r :: rs => let p := pos + lenN (enc_chunk_header (r_hdr r)) in
               (p, r) :: locate (p + rec_size r) rs
  end.

(** index entry: file index, data position, record *)
Definition LE := (N * N * Rec)%type.
Definition le_file (e : LE) : N := fst (fst e).
Definition le_pos (e : LE) : N := snd (fst e).
Definition le_rec (e : LE) : Rec := snd e.
Definition le_key (e : LE) : key := rec_key (snd e).
Definition le_inst (e : LE) : N := rec_inst (snd e).

Definition add_e (insts : list Inst) (e : LE) : list Inst :=
  add_hdr (le_file e) (le_pos e) (r_hdr (le_rec e)) insts.

Definition build (les : list LE) (idx : Index) : Index :=
  fold_left (fun idx e => upd (le_key e) (fun insts => add_e insts e) idx) les idx.

Definition insts_of (les : list LE) (init : list Inst) : list Inst := fold_left add_e les init.

Definition with_file (fidx : N) (l : list (N * Rec)) : list LE := map (fun pr => (fidx, fst pr, snd pr)) l.

Lemma build_app a b idx : build (a ++ b) idx = build b (build a idx).
Proof. unfold build. apply fold_left_app. Qed.

Lemma lookup_build k les : forall idx,
  lookup k (build les idx) =
  match filter (fun e => key_eqb k (le_key e)) les with
  | [] => lookup k idx
  | sub => Some (insts_of sub (dflt (lookup k idx)))
  end.
Proof.
  induction les as [|e les IH]; intros idx; [reflexivity|].
  change (build (e :: les) idx) with (build les (upd (le_key e) (fun insts => add_e insts e) idx)).
  rewrite IH. cbn [filter]. destruct (key_eqb k (le_key e)) eqn:E.
  - apply key_eqb_eq in E. subst k. rewrite lookup_upd_same. cbn [dflt].
    destruct (filter _ les); reflexivity.
  - apply key_eqb_neq in E. rewrite lookup_upd_other by assumption. reflexivity.
Qed.

(** * scanning *)

Definition opt_list {A} (o : option A) : list A := match o with Some x => [x] | None => [] end.

(** what may follow the complete records in a (possibly cut) file: the beginning of a chunk
    header (possibly nothing), or a complete header followed by too little data *)
Inductive tail_ok : bytes -> option Rec -> Prop :=
| tail_inert t : dec_chunk_header t = DEof -> tail_ok t None
| tail_torn r d : rec_ok r = true -> lenN d < rec_size r -> tail_ok (enc_chunk_header (r_hdr r) ++ d) (Some r).

Lemma rec_ok_fields r :
  rec_ok r = true ->
  header_ok (r_hdr r) = true /\ rec_size r = lenN (r_data r) /\ rec_chan r < 2 /\ rec_size r < U32_LIMIT.
Proof.
  unfold rec_ok. intros H. rewrite !andb_true_iff, N.eqb_eq, !N.ltb_lt in H. tauto.
Qed.

Lemma render_recs_cons r recs : render_recs (r :: recs) = enc_chunk_header (r_hdr r) ++ r_data r ++ render_recs recs.
Proof. unfold render_recs. simpl. unfold enc_rec. now rewrite <- app_assoc. Qed.

Lemma dec_nil : dec_chunk_header [] = DEof.
Proof. reflexivity. Qed.

Lemma lenN_length l : lenN l = N.of_nat (length l).
Proof. reflexivity. Qed.

Lemma scan_spec recs : forall fuel fidx pos idx tail torn,
  forallb rec_ok recs = true -> tail_ok tail torn ->
  (length (render_recs recs ++ tail) < fuel)%nat ->
  pos + lenN (render_recs recs ++ tail) + U32_LIMIT < I64_LIMIT ->
  scan fuel fidx pos (render_recs recs ++ tail) idx
  = ROk (build (with_file fidx (locate pos (recs ++ opt_list torn))) idx).
Proof.
  induction recs as [|r recs IH]; intros fuel fidx pos idx tail torn Hok Ht Hf Hb.
  - change (render_recs [] ++ tail) with tail in *. simpl app.
    destruct fuel as [|fuel]; [inversion Hf|]. cbn [scan].
    destruct Ht as [t Ht | r d Hr Hd].
    + rewrite Ht. reflexivity.
    + apply rec_ok_fields in Hr as (Hh & Hs & Hc & Hz).
      rewrite dec_enc_chunk_header by assumption.
      unfold rec_size, rec_chan in *.
      destruct (N.ltb_spec 0 (ch_size (r_hdr r))) as [_|]; [|lia].
      destruct (N.ltb_spec (ch_chan (r_hdr r)) 2) as [_|]; [|lia].
      rewrite lenN_app in Hb. unfold U32_LIMIT, I64_LIMIT in *.
      destruct (N.leb_spec 9223372036854775808 (ch_size (r_hdr r))); [lia|].
      destruct (N.leb_spec 9223372036854775808 (pos + lenN (enc_chunk_header (r_hdr r)) + ch_size (r_hdr r))); [lia|].
      rewrite dropN_all by lia.
      destruct fuel as [|fuel].
      { rewrite app_length in Hf. pose proof (enc_chunk_header_len_pos (r_hdr r)) as P. unfold lenN in P. lia. }
      cbn [scan]. rewrite dec_nil. reflexivity.
  - cbn [forallb] in Hok. apply andb_true_iff in Hok as [Hr Hok].
    pose proof Hr as Hr'. apply rec_ok_fields in Hr' as (Hh & Hs & Hc & Hz).
    rewrite render_recs_cons in *. repeat rewrite <- app_assoc in *.
    destruct fuel as [|fuel]; [inversion Hf|]. cbn [scan].
    rewrite dec_enc_chunk_header by assumption.
    unfold rec_size, rec_chan in *.
    rewrite !lenN_app in Hb. rewrite !app_length in Hf.
    pose proof (enc_chunk_header_len_pos (r_hdr r)) as P. unfold lenN in P.
    unfold U32_LIMIT, I64_LIMIT in *.
    simpl app. cbn [locate with_file map].
    change (build ((fidx, ?p, r) :: ?l) idx) with (build l (upd (rec_key r) (fun insts => add_e insts (fidx, p, r)) idx)).
    destruct (N.ltb_spec 0 (ch_size (r_hdr r))) as [Hpos|Hzero].
    + destruct (N.ltb_spec (ch_chan (r_hdr r)) 2) as [_|]; [|lia].
      destruct (N.leb_spec 9223372036854775808 (ch_size (r_hdr r))); [lia|].
      destruct (N.leb_spec 9223372036854775808 (pos + lenN (enc_chunk_header (r_hdr r)) + ch_size (r_hdr r))); [lia|].
      rewrite Hs, dropN_app. rewrite <- Hs.
      rewrite (IH fuel fidx _ _ tail torn Hok Ht).
      * unfold rec_size. reflexivity.
      * rewrite app_length. unfold lenN in *. lia.
      * rewrite lenN_app. unfold lenN in *. lia.
    + assert (Hd : r_data r = []).
      { destruct (r_data r); [reflexivity|]. rewrite lenN_cons in Hs. lia. }
      rewrite Hd in *. simpl app.
      rewrite (IH fuel fidx _ _ tail torn Hok Ht).
      * unfold rec_size. replace (ch_size (r_hdr r)) with 0 by lia. rewrite N.add_0_r. reflexivity.
      * rewrite app_length. simpl length in Hf. unfold lenN in *. lia.
      * rewrite lenN_app. rewrite lenN_nil in Hb. unfold lenN in *. lia.
Qed.
