(** C19, "reported finished => complete" outside the known-finding class F20, at byte level:
    theorems [finished_outside_f20_bytes] (any number of cut / skipped files) and
    [finished_complete_outside_f20] (the statement [C19_finished_complete_full] of [Examples],
    refuted there in general, holds with the one extra hypothesis [f20_class = false]).
    See [FullFin] for the setting. *)
From HQ Require Import Base.Prelude Gen.Consts Stream.Model Stream.Codec Stream.Index Stream.Runs Stream.Proofs
  Stream.Examples Stream.FullFin.
Require Import ZifyBool ZifyN ZifyNat.
Open Scope N_scope.

Arguments N.add : simpl never.
Arguments N.sub : simpl never.
Arguments N.mul : simpl never.
Arguments N.eqb : simpl never.
Arguments N.ltb : simpl never.
Arguments N.leb : simpl never.
Arguments N.of_nat : simpl never.

(** [cat] without --allow-unfinished on a finished stream = the raw channel read *)
Lemma cat_finished lg job task ch R :
  gather (lg_index lg) job task = ROk R -> in_fin R = true ->
  cat lg job task ch false = read_channel lg job task ch.
Proof.
  intros Hg Hf. unfold read_channel, cat, cat_tasks.
  destruct (negb (existsb (fun kv => fst (fst kv) =? job) (lg_index lg))); [reflexivity|].
  cbn [gather_all]. rewrite Hg. cbn [rbind existsb negb andb]. rewrite Hf. reflexivity.
Qed.

(** * General form: [fs] is related to [orig] by [sub_dir] *)

Theorem finished_bytes_sub u bs orig fs job task ch lg R :
  Forall2 file_repr bs fs -> Forall (fun a => fh_uid (af_hdr a) = u) fs ->
  sub_dir orig fs ->
  last_contig fs (job, task) = true -> ch < 2 ->
  open (hqs_ents bs) None = ROk lg ->
  gather (lg_index lg) job task = ROk R -> in_fin R = true ->
  f20_class orig fs (job, task) = false ->
  max_inst (job, task) (all_seen fs) = Some (in_id R)
  /\ filter (of_inst (job, task) (in_id R)) (all_seen orig)
     = filter (of_inst (job, task) (in_id R)) (all_complete fs)
  /\ existsb (of_inst (job, task) (in_id R)) (torn_recs fs) = false
  /\ read_channel lg job task ch = ROk (spec_bytes (job, task) (in_id R) ch (all_complete orig))
  /\ cat lg job task ch false = ROk (spec_bytes (job, task) (in_id R) ch (all_complete orig)).
Proof.
  intros HF Hu Hsub Hc Hch Ho Hg Hfin Hf20.
  destruct (reader_spec u bs fs job task ch HF Hu Hc Hch)
    as (lg' & X & R' & i & Ho' & Hmax & Hlk & Hg' & Hsup & HX & Hid & Hfin' & Hrd).
  rewrite Ho in Ho'. injection Ho' as <-. rewrite Hg in Hg'. injection Hg' as <-. subst i.
  assert (Hfc : spec_finished (job, task) (in_id R) (all_complete fs) = true).
  { rewrite <- (fin_seen_complete bs fs _ _ HF). unfold spec_fin in Hfin'. rewrite Hmax in Hfin'. congruence. }
  pose proof (finished_outside_f20 orig fs (job, task) (in_id R) Hf20 Hmax Hfc) as Hcnt.
  pose proof (seen_complete_le (job, task) (in_id R) orig) as L1.
  pose proof (sub_dir_le (job, task) (in_id R) orig fs Hsub) as L2.
  destruct (sub_dir_eq (job, task) (in_id R) orig fs Hsub ltac:(lia)) as [Heq Htorn].
  pose proof (seen_complete_eq (job, task) (in_id R) orig ltac:(lia)) as Hseen.
  assert (Hrc : read_channel lg job task ch = ROk (spec_bytes (job, task) (in_id R) ch (all_complete orig))).
  { rewrite Hrd. unfold spec_read. rewrite Hmax.
    assert (Ht : existsb (is_data (job, task) (in_id R) ch) (torn_recs fs) = false).
    { apply not_true_is_false. intros E. apply existsb_exists in E as (r & Hr & E).
      apply is_data_of_inst in E. rewrite (Htorn r Hr) in E. discriminate. }
    rewrite Ht. unfold spec_bytes. now rewrite (Heq _ (picks_is_data (job, task) (in_id R) ch)). }
  split; [exact Hmax|]. split; [|split; [|split]].
  - rewrite (Hseen _ (picks_of_inst (job, task) (in_id R))).
    apply (Heq _ (picks_of_inst (job, task) (in_id R))).
  - apply not_true_is_false. intros E. apply existsb_exists in E as (r & Hr & E).
    rewrite (Htorn r Hr) in E. discriminate.
  - exact Hrc.
  - now rewrite (cat_finished lg job task ch R Hg Hfin).
Qed.

(** * The theorem, in the setting of the monitor `finished-but-incomplete` *)

(** [orig]: the stream files as written; [fs] / [bs]: what the reader finds, any number of files
    cut at any byte or skipped.  A stream reported finished, outside the class F20, reads back -
    with and without --allow-unfinished - exactly the bytes the reported instance wrote, per
    channel; all records of that instance survived complete. *)
Theorem finished_outside_f20_bytes : forall u bs orig fs job task ch lg R,
  Forall2 file_repr bs fs -> Forall (fun a => fh_uid (af_hdr a) = u) fs ->
  cut_dir orig fs ->
  last_contig fs (job, task) = true -> ch < 2 ->
  open (hqs_ents bs) None = ROk lg ->
  gather (lg_index lg) job task = ROk R -> in_fin R = true ->
  f20_class orig fs (job, task) = false ->
  max_inst (job, task) (all_seen fs) = Some (in_id R)
  /\ filter (of_inst (job, task) (in_id R)) (all_seen orig)
     = filter (of_inst (job, task) (in_id R)) (all_complete fs)
  /\ existsb (of_inst (job, task) (in_id R)) (torn_recs fs) = false
  /\ read_channel lg job task ch = ROk (spec_bytes (job, task) (in_id R) ch (all_complete orig))
  /\ cat lg job task ch false = ROk (spec_bytes (job, task) (in_id R) ch (all_complete orig)).
Proof.
  intros u bs orig fs job task ch lg R HF Hu Hcut. apply (finished_bytes_sub u bs orig fs); try assumption.
  now apply cut_dir_sub.
Qed.

(** * [C19_finished_complete_full] + "not in class F20" *)

Lemma wf_afile_torn ws : Forall (fun a => af_torn a = None) (map wf_afile ws).
Proof. apply Forall_forall. intros a Ha. apply in_map_iff in Ha as (w & <- & _). reflexivity. Qed.

(** One writer file cut at any byte at or after its header, the others intact, any order. *)
Theorem finished_complete_outside_f20 : forall u ws1 w ws2 n a job task ch lg R,
  Forall wf_ok (ws1 ++ w :: ws2) -> Forall (fun w => fh_uid (fst w) = u) (ws1 ++ w :: ws2) ->
  cut_file (fst w) (snd w) n = Some a ->
  last_contig (map wf_afile ws1 ++ a :: map wf_afile ws2) (job, task) = true -> ch < 2 ->
  open (hqs_ents (map wf_bytes ws1 ++ firstnN n (wf_bytes w) :: map wf_bytes ws2)) None = ROk lg ->
  gather (lg_index lg) job task = ROk R -> in_fin R = true ->
  f20_class (map wf_afile (ws1 ++ w :: ws2)) (map wf_afile ws1 ++ a :: map wf_afile ws2) (job, task) = false ->
  read_channel lg job task ch = ROk (spec_bytes (job, task) (in_id R) ch (all_recs (ws1 ++ w :: ws2)))
  /\ cat lg job task ch false = ROk (spec_bytes (job, task) (in_id R) ch (all_recs (ws1 ++ w :: ws2))).
Proof.
  intros u ws1 w ws2 n a job task ch lg R Hok Hu Hcut Hc Hch Ho Hg Hfin Hf20.
  set (fs := map wf_afile ws1 ++ a :: map wf_afile ws2) in *.
  set (bs := map wf_bytes ws1 ++ firstnN n (wf_bytes w) :: map wf_bytes ws2) in *.
  pose proof Hok as Hok0. pose proof Hu as Hu0.
  apply Forall_app in Hok as [Hok1 Hok2]. inversion Hok2 as [|? ? Hw Hok3]; subst.
  apply Forall_app in Hu as [Hu1 Hu2]. inversion Hu2 as [|? ? Huw Hu3]; subst.
  assert (HF : Forall2 file_repr bs fs).
  { apply Forall2_app; [now apply wf_repr_all|]. constructor; [now apply cut_file_repr | now apply wf_repr_all]. }
  assert (Hua : fh_uid (af_hdr a) = fh_uid (fst w)).
  { apply cut_file_prefix in Hcut as [-> _]. reflexivity. }
  assert (Hu' : Forall (fun a => fh_uid (af_hdr a) = fh_uid (fst w)) fs).
  { apply Forall_app. split; [|constructor; [assumption|]];
      apply Forall_forall; intros a' Ha'; apply in_map_iff in Ha' as (w' & <- & Hw'); cbn [wf_afile af_hdr].
    - rewrite Forall_forall in Hu1. now apply Hu1.
    - rewrite Forall_forall in Hu3. now apply Hu3. }
  assert (Hsub : sub_dir (map wf_afile (ws1 ++ w :: ws2)) fs).
  { rewrite map_app. cbn [map]. apply sub_dir_app; [apply sub_dir_refl, wf_afile_torn|].
    apply cut_file_prefix in Hcut as (_ & rest & Hr & Ht).
    apply (sd_keep (wf_afile w) a rest); [exact Hr | exact Ht | apply sub_dir_refl, wf_afile_torn]. }
  destruct (finished_bytes_sub _ bs _ fs job task ch lg R HF Hu' Hsub Hc Hch Ho Hg Hfin Hf20)
    as (_ & _ & _ & Hrc & Hcat).
  destruct (all_seen_complete (ws1 ++ w :: ws2)) as [_ Ec]. rewrite Ec in Hrc, Hcat. split; assumption.
Qed.

(** * Non-vacuity *)

(** File A (the superseded instance 1 of task 1/0 and task 1/5) cut at byte 60, inside its third
    record; file B intact: task 1/0 is reported finished, the situation is outside the class F20,
    and stdout reads back as "hello!!", everything instance 2 wrote. *)
Example finished_bytes_example :
  exists a lg R,
    let orig := map wf_afile [wB; wA] in
    let fs := [wf_afile wB; a] in
    let bs := [wf_bytes wB; firstnN 60 (wf_bytes wA)] in
    cut_file fhA recsA 60 = Some a /\ length (af_recs a) = 2%nat /\ af_torn a <> None
    /\ Forall2 file_repr bs fs /\ Forall (fun a => fh_uid (af_hdr a) = [115; 114; 118]) fs
    /\ cut_dir orig fs /\ last_contig fs (1, 0) = true
    /\ open (hqs_ents bs) None = ROk lg /\ gather (lg_index lg) 1 0 = ROk R /\ in_fin R = true
    /\ f20_class orig fs (1, 0) = false
    /\ read_channel lg 1 0 0 = ROk [104; 101; 108; 108; 111; 33; 33]
    /\ spec_bytes (1, 0) (in_id R) 0 (all_complete orig) = [104; 101; 108; 108; 111; 33; 33].
Proof.
  assert (HokA : wf_ok wA) by (pose proof ex_ok as H; inversion H as [|? ? _ H']; now inversion H').
  assert (HokB : wf_ok wB) by (pose proof ex_ok as H; now inversion H).
  eexists. eexists. eexists. cbv zeta.
  split; [vm_compute; reflexivity|]. split; [reflexivity|]. split; [discriminate|].
  split.
  { constructor; [now apply wf_repr|]. constructor; [|constructor].
    apply (cut_file_repr wA 60); [assumption | vm_compute; reflexivity]. }
  split; [repeat constructor|].
  split.
  { apply (cd_cut (wf_afile wB) 1000 (wf_afile wB)); [vm_compute; reflexivity|].
    apply (cd_cut (wf_afile wA) 60); [vm_compute; reflexivity | constructor]. }
  split; [vm_compute; reflexivity|].
  split; [vm_compute; reflexivity|].
  split; [vm_compute; reflexivity|].
  repeat split; vm_compute; reflexivity.
Qed.

Print Assumptions finished_outside_f20_bytes.
Print Assumptions finished_complete_outside_f20.
