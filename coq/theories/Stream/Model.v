(** Executable model of HyperQueue's streamed task output (property C19).

    Rust sources modelled, function by function:
    - crates/hyperqueue/src/transfer/stream.rs      [StreamChunkHeader] (bincode layout)
    - crates/hyperqueue/src/worker/streamer.rs      [stream_writer]: file header, then one
      (chunk header, data) record per [StreamerMessage::Write], in queue (FIFO) order; [Flush]
    - crates/hyperqueue/src/stream/reader/outputlog.rs  [OutputLog::{open, check_header,
      read_chunk, create_index, _gather_infos, read_buffer, cat, summary}], [TaskInfo::
      {last_instance, superseded}]

    Serialisation = bincode [DefaultOptions] (little endian, *varint* integer encoding,
    zig-zag for signed), as configured by [StreamSerializationConfig = TrailingAllowedConfig].
    Files are byte lists ([list N], every element < 256).

    Abstractions: the file system (a directory is a list of entries, the order of [read_dir] is
    an argument); the time stamp of a chunk is an input of the writer (witness taken from the real
    file); [ChunkInfo.time] is dropped (only used by [show]); server uids are ASCII (UTF-8
    validation is modelled as "all bytes < 128"); a chunk size >= 2^63 (negative [seek_relative])
    is reported as [E_BACKSEEK] and not modelled further. *)
From Coq Require Import String Ascii.
From HQ Require Import Base.Prelude Gen.Consts.
Open Scope N_scope.

Definition bytes := list N.

(** * Results *)

(** Result of a decoder: value, remaining input and number of bytes consumed; [DEof] = the input
    ended inside the value (bincode [Io(UnexpectedEof)]); [DInvalid] = any other bincode error. *)
Inductive dres (A : Type) : Type :=
| DOk (a : A) (rest : bytes) (consumed : N)
| DEof
| DInvalid.
Arguments DOk {A} a rest consumed.
Arguments DEof {A}.
Arguments DInvalid {A}.

Definition dbind {A B} (r : dres A) (f : A -> bytes -> dres B) : dres B :=
  match r with
  | DOk a rest n =>
      match f a rest with
      | DOk b rest' m => DOk b rest' (n + m)
      | DEof => DEof
      | DInvalid => DInvalid
      end
  | DEof => DEof
  | DInvalid => DInvalid
  end.

(** Result of a reader operation: value, error (class), or a Rust panic (site). *)
Inductive rres (A : Type) : Type :=
| ROk (a : A)
| RErr (e : N)
| RPanic (site : N).
Arguments ROk {A} a.
Arguments RErr {A} e.
Arguments RPanic {A} site.

Definition rbind {A B} (r : rres A) (f : A -> rres B) : rres B :=
  match r with
  | ROk a => f a
  | RErr e => RErr e
  | RPanic s => RPanic s
  end.

(** error classes *)
Definition E_INVALID_DATA : N := 1.   (* bincode error other than EOF while indexing -> [open] fails *)
Definition E_SEEK : N := 2.           (* lseek beyond i64::MAX *)
Definition E_BACKSEEK : N := 3.       (* chunk size >= 2^63: not modelled *)
Definition E_NO_LOG_FILES : N := 4.
Definition E_MULTI_UID : N := 5.
Definition E_JOB_NOT_FOUND : N := 6.
Definition E_TASK_NOT_FOUND : N := 7.
Definition E_IO_EOF : N := 8.         (* [read_exact] of a chunk reaching past the end of the file *)
Definition E_UNFINISHED : N := 9.     (* [cat] without --allow-unfinished *)
(** panic sites *)
Definition P_CHANNEL_INDEX : N := 1.  (* outputlog.rs create_index: instance.channels[channel as usize] *)
Definition P_LAST_INSTANCE : N := 2.  (* TaskInfo::last_instance unwrap *)
Definition P_FILE_IDX : N := 3.       (* read_buffer paths[file_idx] *)
Definition P_SUMMARY_SUB : N := 4.    (* summary: n_streams - n_tasks *)
Definition P_FUEL : N := 99.          (* model artefact; unreachable, see Proofs.scan_fuel *)

(** * Byte-list helpers with binary counters *)

Fixpoint takeN (n : N) (l : bytes) {struct l} : option (bytes * bytes) :=
  if n =? 0 then Some ([], l)
  else match l with
       | [] => None
       | x :: r => match takeN (N.pred n) r with
                   | Some (a, b) => Some (x :: a, b)
                   | None => None
                   end
       end.

Fixpoint dropN (n : N) (l : bytes) {struct l} : bytes :=
  if n =? 0 then l
  else match l with
       | [] => []
       | _ :: r => dropN (N.pred n) r
       end.

Definition lenN (l : bytes) : N := N.of_nat (length l).

Fixpoint bytes_eqb (a b : bytes) : bool :=
  match a, b with
  | [], [] => true
  | x :: a', y :: b' => (x =? y) && bytes_eqb a' b'
  | _, _ => false
  end.

(** * bincode primitives *)

Fixpoint le_enc (k : nat) (n : N) : bytes :=
  match k with
  | O => []
  | S k' => (n mod 256) :: le_enc k' (n / 256)
  end.

Fixpoint le_dec (k : nat) (bs : bytes) : option (N * bytes) :=
  match k with
  | O => Some (0, bs)
  | S k' => match bs with
            | [] => None
            | b :: r => match le_dec k' r with
                        | Some (v, r') => Some (b + 256 * v, r')
                        | None => None
                        end
            end
  end.

(** bincode [VarintEncoding]: < 251 one byte; 251 + u16; 252 + u32; 253 + u64 (little endian).
    The decoder does not insist on the shortest form. *)
Definition enc_varint (n : N) : bytes :=
  if n <? 251 then [n]
  else if n <? 65536 then 251 :: le_enc 2 n
  else if n <? 4294967296 then 252 :: le_enc 4 n
  else 253 :: le_enc 8 n.

Definition dec_le (k : nat) (cons : N) (r : bytes) : dres N :=
  match le_dec k r with
  | Some (v, r') => DOk v r' cons
  | None => DEof
  end.

Definition dec_varint (bs : bytes) : dres N :=
  match bs with
  | [] => DEof
  | b :: r =>
      if b <=? 250 then DOk b r 1
      else if b =? 251 then dec_le 2 3 r
      else if b =? 252 then dec_le 4 5 r
      else if b =? 253 then dec_le 8 9 r
      else DInvalid    (* 254 = u128 marker, 255 = reserved *)
  end.

Definition U32_LIMIT : N := 4294967296.
Definition U64_LIMIT : N := 18446744073709551616.

(** u32 field: varint, then [cast_u64_to_u32]. *)
Definition dec_u32 (bs : bytes) : dres N :=
  match dec_varint bs with
  | DOk v r n => if v <? U32_LIMIT then DOk v r n else DInvalid
  | DEof => DEof
  | DInvalid => DInvalid
  end.

(** zig-zag of i64 *)
Definition zigzag_enc (z : Z) : N :=
  if (0 <=? z)%Z then Z.to_N (2 * z) else Z.to_N (- 2 * z - 1).
Definition zigzag_dec (n : N) : Z :=
  if N.even n then Z.of_N (n / 2) else (- Z.of_N (n / 2) - 1)%Z.

(** Range of [DateTime<Utc>] in milliseconds (chrono 0.4: [DateTime::from_timestamp_millis] is
    [Some] exactly on [MIN_UTC .. MAX_UTC]); [ts_milliseconds] rejects anything else.
    The two numbers are measured on the real library by the harness (mode `codec`). *)
Definition TIME_MIN : Z := (-8334601228800000)%Z.
Definition TIME_MAX : Z := 8210266876799999%Z.

Definition time_ok (t : Z) : bool := (TIME_MIN <=? t)%Z && (t <=? TIME_MAX)%Z.

Definition dec_time (bs : bytes) : dres Z :=
  match dec_varint bs with
  | DOk v r n => let t := zigzag_dec v in if time_ok t then DOk t r n else DInvalid
  | DEof => DEof
  | DInvalid => DInvalid
  end.

(** * Chunk header ([StreamChunkHeader], serde field order: time, task{job_id, job_task_id},
      instance, channel, size) *)

Record ChunkHeader := mkCH {
  ch_time : Z;       (* ms since the epoch *)
  ch_job : N;        (* TaskId.job_id: u32 *)
  ch_task : N;       (* TaskId.job_task_id: u32 *)
  ch_inst : N;       (* InstanceId: u32 *)
  ch_chan : N;       (* ChannelId: u32; 0 = stdout, 1 = stderr *)
  ch_size : N        (* u64; 0 = end of the channel *)
}.

Definition enc_chunk_header (h : ChunkHeader) : bytes :=
  enc_varint (zigzag_enc (ch_time h)) ++ enc_varint (ch_job h) ++ enc_varint (ch_task h)
  ++ enc_varint (ch_inst h) ++ enc_varint (ch_chan h) ++ enc_varint (ch_size h).

Definition dec_chunk_header (bs : bytes) : dres ChunkHeader :=
  dbind (dec_time bs) (fun t r1 =>
  dbind (dec_u32 r1) (fun j r2 =>
  dbind (dec_u32 r2) (fun k r3 =>
  dbind (dec_u32 r3) (fun i r4 =>
  dbind (dec_u32 r4) (fun c r5 =>
  dbind (dec_varint r5) (fun s r6 =>
  DOk (mkCH t j k i c s) r6 0)))))).

(** header fields a writer can produce *)
Definition header_ok (h : ChunkHeader) : bool :=
  time_ok (ch_time h) && (ch_job h <? U32_LIMIT) && (ch_task h <? U32_LIMIT)
  && (ch_inst h <? U32_LIMIT) && (ch_chan h <? U32_LIMIT) && (ch_size h <? U64_LIMIT).

(** * File header: magic, then [StreamFileHeader { server_uid: str, worker_id: u32 }] *)

Record FileHeader := mkFH { fh_uid : bytes; fh_worker : N }.

Definition magic_bytes : bytes := map N_of_ascii (list_ascii_of_string STREAM_FILE_MAGIC).

(** bincode byte limit ([with_limit(MAX_FRAME_SIZE)]) *)
Definition FRAME_LIMIT : N := STREAM_MAX_FRAME_MB * 1024 * 1024.

Definition ascii_ok (s : bytes) : bool := forallb (fun b => b <? 128) s.

Definition enc_string (s : bytes) : bytes := enc_varint (lenN s) ++ s.

Definition dec_string (bs : bytes) : dres bytes :=
  match dec_varint bs with
  | DOk len r n =>
      if FRAME_LIMIT - n <? len then DInvalid                       (* ErrorKind::SizeLimit *)
      else match takeN len r with
           | Some (s, r') => if ascii_ok s then DOk s r' (n + len) else DInvalid  (* InvalidUtf8Encoding *)
           | None => DEof
           end
  | DEof => DEof
  | DInvalid => DInvalid
  end.

Definition enc_file_header (h : FileHeader) : bytes :=
  magic_bytes ++ enc_string (fh_uid h) ++ enc_varint (fh_worker h).

(** [OutputLog::check_header] *)
Definition check_header (bs : bytes) : dres FileHeader :=
  match takeN (lenN magic_bytes) bs with
  | None => DEof
  | Some (m, r) =>
      if bytes_eqb m magic_bytes then
        match dbind (dec_string r) (fun uid r1 =>
              dbind (dec_u32 r1) (fun w r2 => DOk (mkFH uid w) r2 0)) with
        | DOk h r' n => DOk h r' (lenN magic_bytes + n)
        | DEof => DEof
        | DInvalid => DInvalid
        end
      else DInvalid
  end.

Definition file_header_ok (h : FileHeader) : bool :=
  ascii_ok (fh_uid h) && (lenN (fh_uid h) <? 65536) && (fh_worker h <? U32_LIMIT).

(** * Writer ([stream_writer]) *)

Record Rec := mkRec { r_hdr : ChunkHeader; r_data : bytes }.

Definition enc_rec (r : Rec) : bytes := enc_chunk_header (r_hdr r) ++ r_data r.

Definition render_recs (recs : list Rec) : bytes := concat (map enc_rec recs).

Definition render_file (fh : FileHeader) (recs : list Rec) : bytes :=
  enc_file_header fh ++ render_recs recs.

(** [StreamSender::send_data]: the header's size is the length of the data. *)
Definition mk_rec (time : Z) (job task inst chan : N) (data : bytes) : Rec :=
  mkRec (mkCH time job task inst chan (lenN data)) data.

(** One stream file of one worker: the records in queue order and the length that is certainly
    on disk (everything written before the last processed [Flush]). *)
Record WFile := mkWF { wf_hdr : FileHeader; wf_recs : list Rec; wf_flushed : N }.

Definition writer_new (uid : bytes) (worker : N) : WFile := mkWF (mkFH uid worker) [] 0.

Definition writer_bytes (w : WFile) : bytes := render_file (wf_hdr w) (wf_recs w).

Definition writer_write (w : WFile) (time : Z) (job task inst chan : N) (data : bytes) : WFile :=
  mkWF (wf_hdr w) (wf_recs w ++ [mk_rec time job task inst chan data]) (wf_flushed w).

Definition writer_flush (w : WFile) : WFile :=
  mkWF (wf_hdr w) (wf_recs w) (lenN (writer_bytes w)).

(** A killed writer leaves a prefix of its byte stream that contains at least what was flushed. *)
Definition kill_len_ok (w : WFile) (len : N) : bool :=
  (wf_flushed w <=? len) && (len <=? lenN (writer_bytes w)).

Fixpoint firstnN (n : N) (l : bytes) {struct l} : bytes :=
  if n =? 0 then []
  else match l with
       | [] => []
       | x :: r => x :: firstnN (N.pred n) r
       end.

(** * Reader: index *)

Record ChunkInfo := mkCI { ci_pos : N; ci_size : N }.

Record Inst := mkInst {
  in_id : N;
  in_c0 : list ChunkInfo;
  in_c1 : list ChunkInfo;
  in_file : N;
  in_fin : bool
}.

Definition key := (N * N)%type.    (* (job id, job task id) *)
Definition key_eqb (a b : key) : bool := (fst a =? fst b) && (snd a =? snd b).

(** [StreamIndex]; the per-task instance list is kept most-recent-first while indexing. *)
Definition Index := list (key * list Inst).

Fixpoint lookup (k : key) (idx : Index) : option (list Inst) :=
  match idx with
  | [] => None
  | (k', v) :: r => if key_eqb k k' then Some v else lookup k r
  end.

Fixpoint upd (k : key) (f : list Inst -> list Inst) (idx : Index) : Index :=
  match idx with
  | [] => [(k, f [])]
  | (k', v) :: r => if key_eqb k k' then (k', f v) :: r else (k', v) :: upd k f r
  end.

Definition hdr_key (h : ChunkHeader) : key := (ch_job h, ch_task h).

Definition new_inst (h : ChunkHeader) (fidx : N) : Inst := mkInst (ch_inst h) [] [] fidx false.

(** `size as u32` *)
Definition trunc32 (n : N) : N := n mod U32_LIMIT.

Definition push_chunk (i : Inst) (chan : N) (c : ChunkInfo) : Inst :=
  if chan =? 0 then mkInst (in_id i) (in_c0 i ++ [c]) (in_c1 i) (in_file i) (in_fin i)
  else mkInst (in_id i) (in_c0 i) (in_c1 i ++ [c]) (in_file i) (in_fin i).

Definition set_fin (i : Inst) : Inst := mkInst (in_id i) (in_c0 i) (in_c1 i) (in_file i) true.

(** Body of the [create_index] loop for one chunk header whose data starts at [pos]
    ([insts] most recent first). *)
Definition add_hdr (fidx pos : N) (h : ChunkHeader) (insts : list Inst) : list Inst :=
  let '(cur, older) :=
    match insts with
    | i :: r => if in_id i =? ch_inst h then (i, r) else (new_inst h fidx, insts)
    | [] => (new_inst h fidx, [])
    end in
  (if 0 <? ch_size h then push_chunk cur (ch_chan h) (mkCI pos (trunc32 (ch_size h))) else set_fin cur)
  :: older.

Definition I64_LIMIT : N := 9223372036854775808.

(** The [while let Some(chunk_header) = read_chunk(..)] loop over one file; [pos] = stream
    position, [bs] = the bytes from there.  [seek_relative] past the end succeeds. *)
Fixpoint scan (fuel : nat) (fidx pos : N) (bs : bytes) (idx : Index) : rres Index :=
  match fuel with
  | O => RPanic P_FUEL
  | S fuel' =>
      match dec_chunk_header bs with
      | DEof => ROk idx
      | DInvalid => RErr E_INVALID_DATA
      | DOk h rest n =>
          let pos' := pos + n in
          if 0 <? ch_size h then
            if ch_chan h <? 2 then
              if I64_LIMIT <=? ch_size h then RErr E_BACKSEEK
              else if I64_LIMIT <=? pos' + ch_size h then RErr E_SEEK
              else scan fuel' fidx (pos' + ch_size h) (dropN (ch_size h) rest)
                        (upd (hdr_key h) (add_hdr fidx pos' h) idx)
            else RPanic P_CHANNEL_INDEX
          else scan fuel' fidx pos' rest (upd (hdr_key h) (add_hdr fidx pos' h) idx)
      end
  end.

Definition scan_file (fidx : N) (file : bytes) (idx : Index) : rres Index :=
  match check_header file with
  | DOk _ rest n => scan (S (length rest)) fidx n rest idx
  | _ => RErr E_INVALID_DATA
  end.

Fixpoint index_files (fidx : N) (files : list bytes) (idx : Index) : rres Index :=
  match files with
  | [] => ROk idx
  | f :: r => rbind (scan_file fidx f idx) (fun idx' => index_files (fidx + 1) r idx')
  end.

(** stable [sort_by_key(instance_id)] *)
Fixpoint insert_inst (x : Inst) (l : list Inst) : list Inst :=
  match l with
  | [] => [x]
  | y :: r => if in_id x <=? in_id y then x :: y :: r else y :: insert_inst x r
  end.
Definition sort_insts (l : list Inst) : list Inst := fold_right insert_inst [] l.

Definition finalize (idx : Index) : Index :=
  map (fun kv => (fst kv, sort_insts (rev (snd kv)))) idx.

(** [OutputLog::create_index] *)
Definition create_index (files : list bytes) : rres Index :=
  rbind (index_files 0 files []) (fun i => ROk (finalize i)).

(** * Reader: [OutputLog::open] *)

Record DirEnt := mkDE { de_hqs : bool; de_bytes : bytes }.
Record Log := mkLog { lg_paths : list bytes; lg_index : Index }.

Definition uid_mem (u : bytes) (l : list bytes) : bool := existsb (bytes_eqb u) l.

(** returns (found, distinct uids, accepted files in directory order) *)
Fixpoint open_scan (ents : list DirEnt) (filter : option bytes)
         (found : bool) (uids : list bytes) (paths : list bytes) : bool * list bytes * list bytes :=
  match ents with
  | [] => (found, uids, paths)
  | e :: r =>
      if de_hqs e then
        match check_header (de_bytes e) with
        | DOk h _ _ =>
            let skip := match filter with Some u => negb (bytes_eqb u (fh_uid h)) | None => false end in
            if skip then open_scan r filter true uids paths
            else open_scan r filter true
                           (if uid_mem (fh_uid h) uids then uids else uids ++ [fh_uid h])
                           (paths ++ [de_bytes e])
        | _ => open_scan r filter true uids paths
        end
      else open_scan r filter found uids paths
  end.

Definition open (ents : list DirEnt) (filter : option bytes) : rres Log :=
  match open_scan ents filter false [] [] with
  | (found, uids, paths) =>
      if negb found then RErr E_NO_LOG_FILES
      else if 1 <? N.of_nat (length uids) then RErr E_MULTI_UID
      else rbind (create_index paths) (fun idx => ROk (mkLog paths idx))
  end.

(** * Reader: access *)

Fixpoint last_opt {A} (l : list A) : option A :=
  match l with
  | [] => None
  | [x] => Some x
  | _ :: r => last_opt r
  end.

(** [TaskInfo::last_instance] *)
Definition last_instance (insts : list Inst) : rres Inst :=
  match last_opt insts with
  | Some i => ROk i
  | None => RPanic P_LAST_INSTANCE
  end.

(** [TaskInfo::superseded] *)
Definition superseded (insts : list Inst) : list Inst := removelast insts.

(** [_gather_infos] for one task *)
Definition gather (idx : Index) (job task : N) : rres Inst :=
  if existsb (fun kv => fst (fst kv) =? job) idx then
    match lookup (job, task) idx with
    | Some insts => last_instance insts
    | None => RErr E_TASK_NOT_FOUND
    end
  else RErr E_JOB_NOT_FOUND.

Definition chan_chunks (i : Inst) (ch : N) : list ChunkInfo := if ch =? 0 then in_c0 i else in_c1 i.

(** [read_buffer]: seek to the chunk, [read_exact] *)
Definition read_chunk (file : bytes) (c : ChunkInfo) : option bytes :=
  match takeN (ci_size c) (dropN (ci_pos c) file) with
  | Some (d, _) => Some d
  | None => None
  end.

Fixpoint read_chunks (file : bytes) (cs : list ChunkInfo) : option bytes :=
  match cs with
  | [] => Some []
  | c :: r => match read_chunk file c with
              | Some d => match read_chunks file r with
                          | Some d' => Some (d ++ d')
                          | None => None
                          end
              | None => None
              end
  end.

Definition read_inst (lg : Log) (i : Inst) (ch : N) : rres bytes :=
  match nth_error (lg_paths lg) (N.to_nat (in_file i)) with
  | None => RPanic P_FILE_IDX
  | Some f => match read_chunks f (chan_chunks i ch) with
              | Some b => ROk b
              | None => RErr E_IO_EOF
              end
  end.

(** [_gather_infos] with [Some(tasks)] *)
Fixpoint gather_all (idx : Index) (job : N) (tasks : list N) : rres (list Inst) :=
  match tasks with
  | [] => ROk []
  | t :: r => rbind (gather idx job t) (fun i => rbind (gather_all idx job r) (fun l => ROk (i :: l)))
  end.

Fixpoint read_all (lg : Log) (insts : list Inst) (ch : N) : rres bytes :=
  match insts with
  | [] => ROk []
  | i :: r => rbind (read_inst lg i ch) (fun b => rbind (read_all lg r ch) (fun b' => ROk (b ++ b')))
  end.

(** [OutputLog::cat] for a list of tasks: gather, refuse unfinished streams unless allowed, then
    print the chunks of the selected channel of every task (what reaches stdout on success). *)
Definition cat_tasks (lg : Log) (job : N) (tasks : list N) (ch : N) (allow_unfinished : bool) : rres bytes :=
  if negb (existsb (fun kv => fst (fst kv) =? job) (lg_index lg)) then RErr E_JOB_NOT_FOUND
  else rbind (gather_all (lg_index lg) job tasks) (fun insts =>
         if negb allow_unfinished && existsb (fun i => negb (in_fin i)) insts then RErr E_UNFINISHED
         else read_all lg insts ch).

Definition cat (lg : Log) (job task ch : N) (allow_unfinished : bool) : rres bytes :=
  cat_tasks lg job [task] ch allow_unfinished.

(** the hook accessor [verif_read_channel]: the [cat] path without the finished check *)
Definition read_channel (lg : Log) (job task ch : N) : rres bytes := cat lg job task ch true.

Fixpoint insert_N (x : N) (l : list N) : list N :=
  match l with
  | [] => [x]
  | y :: r => if x <=? y then x :: y :: r else y :: insert_N x r
  end.

(** task ids of a job in [BTreeMap] order *)
Definition job_tasks (idx : Index) (job : N) : list N :=
  fold_right insert_N [] (map (fun kv => snd (fst kv)) (filter (fun kv => fst (fst kv) =? job) idx)).

(** [cat] without --task *)
Definition cat_job (lg : Log) (job ch : N) (allow_unfinished : bool) : rres bytes :=
  cat_tasks lg job (job_tasks (lg_index lg) job) ch allow_unfinished.

(** [export] without --task: per task the finished flag; fails with the first chunk that cannot be read *)
Definition export_job (lg : Log) (job : N) : rres (list bool) :=
  if negb (existsb (fun kv => fst (fst kv) =? job) (lg_index lg)) then RErr E_JOB_NOT_FOUND
  else rbind (gather_all (lg_index lg) job (job_tasks (lg_index lg) job)) (fun insts =>
         rbind (read_all lg insts 0) (fun _ => ROk (map in_fin insts))).

Definition chunks_size (cs : list ChunkInfo) : N := fold_right (fun c a => ci_size c + a) 0 cs.
Definition channel_size (i : Inst) (ch : N) : N := chunks_size (chan_chunks i ch).

(** [OutputLog::summary] *)
Record Summary := mkSum {
  s_files : N; s_jobs : N; s_tasks : N; s_streams : N; s_opened : N;
  s_out : N; s_err : N; s_superseded : N; s_sup_out : N; s_sup_err : N
}.

Fixpoint distinct_jobs (idx : Index) (seen : list N) : N :=
  match idx with
  | [] => 0
  | (k, _) :: r => if existsb (N.eqb (fst k)) seen then distinct_jobs r seen
                   else 1 + distinct_jobs r (fst k :: seen)
  end.

Definition sumN {A} (f : A -> N) (l : list A) : N := fold_right (fun x a => f x + a) 0 l.

Definition summary (lg : Log) : rres Summary :=
  let idx := lg_index lg in
  if existsb (fun kv => match snd kv with [] => true | _ => false end) idx then RPanic P_LAST_INSTANCE
  else
    let lasts := flat_map (fun kv => match last_opt (snd kv) with Some i => [i] | None => [] end) idx in
    let sups := flat_map (fun kv => superseded (snd kv)) idx in
    let n_tasks := N.of_nat (length idx) in
    let n_streams := sumN (fun kv => N.of_nat (length (snd kv))) idx in
    if n_streams <? n_tasks then RPanic P_SUMMARY_SUB
    else ROk (mkSum (N.of_nat (length (lg_paths lg))) (distinct_jobs idx []) n_tasks n_streams
                    (sumN (fun i => if in_fin i then 0 else 1) lasts)
                    (sumN (fun i => channel_size i 0) lasts) (sumN (fun i => channel_size i 1) lasts)
                    (n_streams - n_tasks)
                    (sumN (fun i => channel_size i 0) sups) (sumN (fun i => channel_size i 1) sups)).

(** * Specification level: what was written, and what a reader should return *)

Definition rec_key (r : Rec) : key := hdr_key (r_hdr r).
Definition rec_inst (r : Rec) : N := ch_inst (r_hdr r).
Definition rec_chan (r : Rec) : N := ch_chan (r_hdr r).
Definition rec_size (r : Rec) : N := ch_size (r_hdr r).

(** a record as the writer produces it: size = data length, representable fields, channel 0/1,
    chunk below 4 GiB *)
Definition rec_ok (r : Rec) : bool :=
  header_ok (r_hdr r) && (rec_size r =? lenN (r_data r)) && (rec_chan r <? 2) && (rec_size r <? U32_LIMIT).

Definition of_task (k : key) (r : Rec) : bool := key_eqb k (rec_key r).
Definition of_inst (k : key) (i : N) (r : Rec) : bool := of_task k r && (rec_inst r =? i).

(** largest instance id of task [k] among [recs] *)
Definition max_inst (k : key) (recs : list Rec) : option N :=
  fold_left (fun acc r => if of_task k r then
                            match acc with Some m => Some (N.max m (rec_inst r)) | None => Some (rec_inst r) end
                          else acc) recs None.

Definition is_data (k : key) (i ch : N) (r : Rec) : bool :=
  of_inst k i r && (rec_chan r =? ch) && (0 <? rec_size r).

(** the bytes instance [i] of task [k] wrote on channel [ch], in writing order *)
Definition spec_bytes (k : key) (i ch : N) (recs : list Rec) : bytes :=
  concat (map r_data (filter (is_data k i ch) recs)).

(** did instance [i] of task [k] write an end marker *)
Definition spec_finished (k : key) (i : N) (recs : list Rec) : bool :=
  existsb (fun r => of_inst k i r && (rec_size r =? 0)) recs.

(** A stream file as the reader can see it after a crash: complete records, then possibly one
    record whose header is complete but whose data is cut short ([af_torn]). *)
Record AFile := mkAF { af_hdr : FileHeader; af_recs : list Rec; af_torn : option (Rec * bytes) }.

Definition afile_bytes (a : AFile) : bytes :=
  render_file (af_hdr a) (af_recs a)
  ++ match af_torn a with Some (r, d) => enc_chunk_header (r_hdr r) ++ d | None => [] end.

(** headers the index sees in a file *)
Definition afile_seen (a : AFile) : list Rec :=
  af_recs a ++ match af_torn a with Some (r, _) => [r] | None => [] end.

(** Cut the byte stream of (header, records) at byte [n >= header length]: complete records, the
    torn one if its header survived, and the surviving part of its data. *)
Fixpoint cut_recs (n : N) (recs : list Rec) : list Rec * option (Rec * bytes) :=
  match recs with
  | [] => ([], None)
  | r :: rest =>
      let hl := lenN (enc_chunk_header (r_hdr r)) in
      let l := hl + lenN (r_data r) in
      if l <=? n then let '(a, t) := cut_recs (n - l) rest in (r :: a, t)
      else if hl <=? n then ([], Some (r, firstnN (n - hl) (r_data r)))
      else ([], None)
  end.

(** The file a reader finds when file (fh, recs) is cut at byte [n]; [None] if the cut is inside
    the file header (the reader skips the file). *)
Definition cut_file (fh : FileHeader) (recs : list Rec) (n : N) : option AFile :=
  let hl := lenN (enc_file_header fh) in
  if n <? hl then None
  else let '(a, t) := cut_recs (n - hl) recs in Some (mkAF fh a t).

Definition all_seen (fs : list AFile) : list Rec := flat_map afile_seen fs.
Definition all_complete (fs : list AFile) : list Rec := flat_map af_recs fs.
Definition torn_recs (fs : list AFile) : list Rec :=
  flat_map (fun a => match af_torn a with Some (r, _) => [r] | None => [] end) fs.

(** Expected result of reading channel [ch] of task [k]: the bytes of the largest instance seen,
    or an I/O error if a chunk of that instance and channel is torn. *)
Definition spec_read (fs : list AFile) (k : key) (ch : N) : rres bytes :=
  match max_inst k (all_seen fs) with
  | None => RErr E_TASK_NOT_FOUND
  | Some i =>
      if existsb (is_data k i ch) (torn_recs fs) then RErr E_IO_EOF
      else ROk (spec_bytes k i ch (all_complete fs))
  end.

Definition spec_fin (fs : list AFile) (k : key) : bool :=
  match max_inst k (all_seen fs) with
  | None => false
  | Some i => spec_finished k i (all_seen fs)
  end.

(** * Hypotheses of the theorems, as executable predicates (also evaluated by the monitors) *)

Definition proj_insts (k : key) (recs : list Rec) : list N := map rec_inst (filter (of_task k) recs).

Fixpoint drop_eq (i : N) (l : list N) : list N :=
  match l with
  | [] => []
  | x :: r => if x =? i then drop_eq i r else l
  end.

(** [i] occurs in [l], and its occurrences form one contiguous block *)
Fixpoint one_block (i : N) (l : list N) : bool :=
  match l with
  | [] => false
  | x :: r => if x =? i then negb (existsb (N.eqb i) (drop_eq i r)) else one_block i r
  end.

Definition has_inst (k : key) (i : N) (a : AFile) : bool := existsb (of_inst k i) (afile_seen a).

(** the headers of instance [i] of task [k] live in exactly one file and are contiguous among the
    headers of task [k] in that file *)
Definition inst_contig (fs : list AFile) (k : key) (i : N) : bool :=
  match filter (has_inst k i) fs with
  | [a] => one_block i (proj_insts k (afile_seen a))
  | _ => false
  end.

(** ... for the largest instance (enough for the bytes / finished flag of the result) *)
Definition last_contig (fs : list AFile) (k : key) : bool :=
  match max_inst k (all_seen fs) with
  | Some i => inst_contig fs k i
  | None => false
  end.

(** ... for every instance (needed for the superseded report) *)
Definition all_contig (fs : list AFile) (k : key) : bool :=
  forallb (inst_contig fs k) (proj_insts k (all_seen fs)).

Definition afile_ok (a : AFile) : bool :=
  file_header_ok (af_hdr a) && forallb rec_ok (af_recs a)
  && match af_torn a with
     | Some (r, d) => rec_ok r && (lenN d <? lenN (r_data r)) && bytes_eqb d (firstnN (lenN d) (r_data r))
     | None => true
     end.

(** ids of the superseded instances with their channel sizes, in increasing id order
    (under [all_contig]) *)
Definition other_insts (fs : list AFile) (k : key) : list N :=
  match max_inst k (all_seen fs) with
  | Some m => fold_right (fun i acc => if (i =? m) || existsb (N.eqb i) acc then acc else insert_N i acc) []
                         (proj_insts k (all_seen fs))
  | None => []
  end.

Definition spec_size (k : key) (i ch : N) (recs : list Rec) : N :=
  sumN (fun r => if is_data k i ch r then rec_size r else 0) recs.

(** Known finding F20: the reader sets [finished] at the FIRST end marker of an instance (either
    channel).  The class: the reported instance has an end marker among the surviving complete
    records while another of its records (of the uncut files [orig]) did not survive complete. *)
Definition count_inst (k : key) (i : N) (recs : list Rec) : N :=
  sumN (fun r => if of_inst k i r then 1 else 0) recs.

Definition f20_class (orig fs : list AFile) (k : key) : bool :=
  match max_inst k (all_seen fs) with
  | Some i => spec_finished k i (all_complete fs)
              && (count_inst k i (all_complete fs) <? count_inst k i (all_seen orig))
  | None => false
  end.
