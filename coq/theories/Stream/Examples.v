(** C19: non-vacuity examples and the witness of known finding F20 (all by computation on the
    executable model). *)
From HQ Require Import Base.Prelude Gen.Consts Stream.Model Stream.Codec Stream.Index Stream.Runs Stream.Proofs.
Open Scope N_scope.

Definition T0 : Z := 1700000000000%Z.
Definition fhA : FileHeader := mkFH [115; 114; 118] 1.      (* uid "srv", worker 1 *)
Definition fhB : FileHeader := mkFH [115; 114; 118] 250.

(** worker 1: task 1/0 instance 1 (superseded later), interleaved with task 1/5 *)
Definition recsA : list Rec :=
  [ mk_rec T0 1 0 1 0 [97; 98];
    mk_rec T0 1 5 0 0 [120; 121; 122];
    mk_rec T0 1 0 1 1 [69];
    mk_rec T0 1 5 0 0 [];
    mk_rec T0 1 0 1 0 [];
    mk_rec T0 1 0 1 1 [] ].

(** worker 250: task 1/0 instance 2 = the last run; stderr closes before stdout is complete *)
Definition recsB : list Rec :=
  [ mk_rec T0 1 0 2 0 [104; 101; 108; 108; 111];
    mk_rec T0 1 0 2 1 [];
    mk_rec T0 1 0 2 0 [33; 33];
    mk_rec T0 1 0 2 0 [] ].

Definition wA : WF := (fhA, recsA).
Definition wB : WF := (fhB, recsB).

Lemma ex_ok : Forall wf_ok [wB; wA].
Proof. repeat constructor; vm_compute; reflexivity. Qed.

Lemma ex_uid : Forall (fun w => fh_uid (fst w) = [115; 114; 118]) [wB; wA].
Proof. repeat constructor. Qed.

(** hypotheses of [roundtrip] hold on a directory with two files, two instances, interleaving *)
Example ex_roundtrip_hyps :
  Forall wf_ok [wB; wA] /\ last_contig (map wf_afile [wB; wA]) (1, 0) = true
  /\ last_contig (map wf_afile [wA; wB]) (1, 0) = true /\ all_contig (map wf_afile [wA; wB]) (1, 0) = true.
Proof. split; [exact ex_ok|]. repeat split; vm_compute; reflexivity. Qed.

(** ... and the reader returns the last instance's bytes, in either file order *)
Example ex_roundtrip_run :
  (exists lg, open (hqs_ents (map wf_bytes [wB; wA])) None = ROk lg
              /\ read_channel lg 1 0 0 = ROk [104; 101; 108; 108; 111; 33; 33]
              /\ read_channel lg 1 0 1 = ROk []
              /\ cat lg 1 0 0 false = ROk [104; 101; 108; 108; 111; 33; 33])
  /\ (exists lg, open (hqs_ents (map wf_bytes [wA; wB])) None = ROk lg
              /\ read_channel lg 1 0 0 = ROk [104; 101; 108; 108; 111; 33; 33]
              /\ read_channel lg 1 5 0 = ROk [120; 121; 122]).
Proof. split; eexists; (split; [vm_compute; reflexivity|]); repeat split; vm_compute; reflexivity. Qed.

(** a cut inside the data of the first chunk of file B: I/O error for that channel, never bytes *)
Example ex_torn_run :
  exists a lg, cut_file fhB recsB 27 = Some a
    /\ last_contig [a; wf_afile wA] (1, 0) = true
    /\ open (hqs_ents [firstnN 27 (wf_bytes wB); wf_bytes wA]) None = ROk lg
    /\ read_channel lg 1 0 0 = RErr E_IO_EOF
    /\ read_channel lg 1 5 0 = ROk [120; 121; 122]
    /\ spec_read [a; wf_afile wA] (1, 0) 0 = RErr E_IO_EOF.
Proof. eexists. eexists. split; [vm_compute; reflexivity|]. repeat split; vm_compute; reflexivity. Qed.

(** Full-strength reading of "finished": a stream reported finished is complete. *)
Definition C19_finished_complete_full : Prop :=
  forall u ws1 w ws2 n a job task ch lg R,
    Forall wf_ok (ws1 ++ w :: ws2) -> Forall (fun w => fh_uid (fst w) = u) (ws1 ++ w :: ws2) ->
    cut_file (fst w) (snd w) n = Some a ->
    last_contig (map wf_afile ws1 ++ a :: map wf_afile ws2) (job, task) = true -> ch < 2 ->
    open (hqs_ents (map wf_bytes ws1 ++ firstnN n (wf_bytes w) :: map wf_bytes ws2)) None = ROk lg ->
    gather (lg_index lg) job task = ROk R -> in_fin R = true ->
    read_channel lg job task ch = ROk (spec_bytes (job, task) (in_id R) ch (all_recs (ws1 ++ w :: ws2))).

(** F20: the reader sets [finished] at the first end marker of either channel.  File B cut at the
    record boundary after the stderr end marker: instance 2 is reported finished, its stdout reads
    back as "hello" although "hello!!" was written. *)
Theorem finished_complete_refuted : ~ C19_finished_complete_full.
Proof.
  intros H.
  assert (Hcut : exists a, cut_file (fst wB) (snd wB) 49 = Some a) by (eexists; vm_compute; reflexivity).
  destruct Hcut as (a & Hcut).
  assert (Ho : exists lg, open (hqs_ents (map wf_bytes [] ++ firstnN 49 (wf_bytes wB) :: map wf_bytes [wA])) None = ROk lg)
    by (eexists; vm_compute; reflexivity).
  destruct Ho as (lg & Ho).
  assert (Hg : exists R, gather (lg_index lg) 1 0 = ROk R).
  { revert Ho. vm_compute. intros E. injection E as <-. eexists. reflexivity. }
  destruct Hg as (R & Hg).
  specialize (H [115; 114; 118] [] wB [wA] 49 a 1 0 0 lg R).
  assert (E : read_channel lg 1 0 0 = ROk [104; 101; 108; 108; 111] /\ in_fin R = true /\ in_id R = 2).
  { revert Ho Hg. vm_compute. intros E. injection E as <-. vm_compute. intros E. injection E as <-. repeat split. }
  destruct E as (Er & Ef & Ei).
  rewrite Er, Ei in H.
  assert (X : ROk [104; 101; 108; 108; 111] = ROk (spec_bytes (1, 0) 2 0 (all_recs ([] ++ wB :: [wA])))).
  { apply H; try assumption.
    - exact ex_ok.
    - exact ex_uid.
    - revert Hcut. vm_compute. intros E. injection E as <-. reflexivity.
    - reflexivity. }
  vm_compute in X. discriminate.
Qed.

(** the witness is in the known class, and outside the class nothing of the reported instance is lost *)
Example f20_witness_in_class :
  exists a, cut_file fhB recsB 49 = Some a
            /\ f20_class [wf_afile wB; wf_afile wA] [a; wf_afile wA] (1, 0) = true.
Proof. eexists. split; vm_compute; reflexivity. Qed.

Theorem finished_outside_f20 orig fs k i :
  f20_class orig fs k = false -> max_inst k (all_seen fs) = Some i ->
  spec_finished k i (all_complete fs) = true ->
  count_inst k i (all_seen orig) <= count_inst k i (all_complete fs).
Proof.
  unfold f20_class. intros H Hm Hf. rewrite Hm, Hf in H. cbn [andb] in H.
  apply N.ltb_ge in H. exact H.
Qed.
