(** Codec laws of the stream file format (C19): for the file header and the chunk header
    [decode (encode h ++ rest) = Ok (h, rest)] and every strict prefix of an encoding is
    detected as end-of-file (never mis-parsed). *)
From HQ Require Import Base.Prelude Gen.Consts Stream.Model.
Require Import ZifyBool ZifyN ZifyNat.
Open Scope N_scope.

Arguments N.add : simpl never.
Arguments N.sub : simpl never.
Arguments N.mul : simpl never.
Arguments N.div : simpl never.
Arguments N.modulo : simpl never.
Arguments N.eqb : simpl never.
Arguments N.ltb : simpl never.
Arguments N.leb : simpl never.
Arguments N.pow : simpl never.
Arguments N.pred : simpl never.
Arguments N.succ : simpl never.
Arguments N.of_nat : simpl never.

(** * lists with binary counters *)

Lemma lenN_nil : lenN [] = 0.
Proof. reflexivity. Qed.

Lemma lenN_cons x l : lenN (x :: l) = N.succ (lenN l).
Proof. unfold lenN. simpl length. apply Nat2N.inj_succ. Qed.

Lemma lenN_app a b : lenN (a ++ b) = lenN a + lenN b.
Proof. unfold lenN. rewrite app_length. lia. Qed.

Lemma takeN_0 l : takeN 0 l = Some ([], l).
Proof. destruct l; reflexivity. Qed.

Lemma takeN_succ n x r :
  takeN (N.succ n) (x :: r) = match takeN n r with Some (a, b) => Some (x :: a, b) | None => None end.
Proof.
  cbn [takeN]. destruct (N.eqb_spec (N.succ n) 0) as [E|E]; [lia|]. now rewrite N.pred_succ.
Qed.

Lemma takeN_nil n : n <> 0 -> takeN n [] = None.
Proof. intros H. cbn [takeN]. destruct (N.eqb_spec n 0); [lia | reflexivity]. Qed.

Lemma dropN_0 l : dropN 0 l = l.
Proof. destruct l; reflexivity. Qed.

Lemma dropN_succ n x r : dropN (N.succ n) (x :: r) = dropN n r.
Proof.
  cbn [dropN]. destruct (N.eqb_spec (N.succ n) 0) as [E|E]; [lia|]. now rewrite N.pred_succ.
Qed.

Lemma dropN_nil n : dropN n [] = [].
Proof. cbn [dropN]. destruct (n =? 0); reflexivity. Qed.

Lemma firstnN_0 l : firstnN 0 l = [].
Proof. destruct l; reflexivity. Qed.

Lemma firstnN_succ n x r : firstnN (N.succ n) (x :: r) = x :: firstnN n r.
Proof.
  cbn [firstnN]. destruct (N.eqb_spec (N.succ n) 0) as [E|E]; [lia|]. now rewrite N.pred_succ.
Qed.

Lemma firstnN_nil n : firstnN n [] = [].
Proof. cbn [firstnN]. destruct (n =? 0); reflexivity. Qed.

Lemma takeN_app a b : takeN (lenN a) (a ++ b) = Some (a, b).
Proof.
  induction a as [|x a IH]; simpl app.
  - apply takeN_0.
  - rewrite lenN_cons, takeN_succ, IH. reflexivity.
Qed.

Lemma dropN_app a b : dropN (lenN a) (a ++ b) = b.
Proof.
  induction a as [|x a IH]; simpl app.
  - apply dropN_0.
  - rewrite lenN_cons, dropN_succ. exact IH.
Qed.

Lemma takeN_short n l : lenN l < n -> takeN n l = None.
Proof.
  revert n. induction l as [|x l IH]; intros n H.
  - apply takeN_nil. rewrite lenN_nil in H. lia.
  - rewrite lenN_cons in H. replace n with (N.succ (N.pred n)) by lia.
    rewrite takeN_succ, IH; [reflexivity | lia].
Qed.

Lemma dropN_all n l : lenN l <= n -> dropN n l = [].
Proof.
  revert n. induction l as [|x l IH]; intros n H.
  - apply dropN_nil.
  - rewrite lenN_cons in H. replace n with (N.succ (N.pred n)) by lia.
    rewrite dropN_succ. apply IH. lia.
Qed.

Lemma firstnN_app a b : firstnN (lenN a) (a ++ b) = a.
Proof.
  induction a as [|x a IH]; simpl app.
  - apply firstnN_0.
  - rewrite lenN_cons, firstnN_succ, IH. reflexivity.
Qed.

Lemma firstnN_app_more a b n : firstnN (lenN a + n) (a ++ b) = a ++ firstnN n b.
Proof.
  induction a as [|x a IH]; simpl app.
  - rewrite lenN_nil. now replace (0 + n) with n by lia.
  - rewrite lenN_cons. replace (N.succ (lenN a) + n) with (N.succ (lenN a + n)) by lia.
    rewrite firstnN_succ, IH. reflexivity.
Qed.

Lemma firstnN_all n l : lenN l <= n -> firstnN n l = l.
Proof.
  revert n. induction l as [|x l IH]; intros n H.
  - apply firstnN_nil.
  - rewrite lenN_cons in H. replace n with (N.succ (N.pred n)) by lia.
    rewrite firstnN_succ, IH; [reflexivity | lia].
Qed.

(** [firstnN n l] is a prefix, of length [min n |l|] *)
Lemma firstnN_prefix n l : exists q, l = firstnN n l ++ q /\ lenN (firstnN n l) = N.min n (lenN l).
Proof.
  revert n. induction l as [|x l IH]; intros n.
  - exists []. rewrite firstnN_nil. split; [reflexivity | rewrite lenN_nil; lia].
  - destruct (N.eqb_spec n 0) as [->|Hn].
    + exists (x :: l). rewrite firstnN_0. split; [reflexivity | rewrite lenN_nil; lia].
    + replace n with (N.succ (N.pred n)) by lia. rewrite firstnN_succ.
      destruct (IH (N.pred n)) as (q & Hq & Hl). exists q. split.
      * simpl. now rewrite <- Hq.
      * rewrite !lenN_cons, Hl. lia.
Qed.

Lemma bytes_eqb_refl a : bytes_eqb a a = true.
Proof. induction a; simpl; [reflexivity|]. rewrite IHa, N.eqb_refl. reflexivity. Qed.

Lemma bytes_eqb_eq a b : bytes_eqb a b = true <-> a = b.
Proof.
  split.
  - revert b. induction a as [|x a IH]; destruct b as [|y b]; simpl; try discriminate; [reflexivity|].
    intros H. apply andb_true_iff in H as [H1 H2]. apply N.eqb_eq in H1. subst. f_equal. auto.
  - intros ->. apply bytes_eqb_refl.
Qed.

(** * little endian *)

Lemma le_enc_length k n : length (le_enc k n) = k.
Proof. revert n. induction k; intros; simpl; [reflexivity | now rewrite IHk]. Qed.

Lemma le_dec_enc k : forall n rest, le_dec k (le_enc k n ++ rest) = Some (n mod 256 ^ N.of_nat k, rest).
Proof.
  induction k as [|k IH]; intros n rest.
  - simpl. f_equal. f_equal. change (256 ^ N.of_nat 0) with 1. now rewrite N.mod_1_r.
  - cbn [le_enc le_dec app]. rewrite IH. f_equal. f_equal.
    rewrite Nat2N.inj_succ, N.pow_succ_r by lia.
    rewrite N.mod_mul_r by (try apply N.pow_nonzero; lia). reflexivity.
Qed.

Lemma le_dec_short k : forall p, (length p < k)%nat -> le_dec k p = None.
Proof.
  induction k as [|k IH]; intros p H; [inversion H|].
  destruct p as [|b p]; [reflexivity|]. cbn [le_dec]. rewrite IH; [reflexivity | simpl in H; lia].
Qed.

(** * varint *)

Lemma enc_varint_len n :
  lenN (enc_varint n) = if n <? 251 then 1 else if n <? 65536 then 3 else if n <? 4294967296 then 5 else 9.
Proof.
  unfold enc_varint. repeat destruct (_ <? _); unfold lenN; simpl length; rewrite ?le_enc_length; reflexivity.
Qed.

Lemma dec_enc_varint n rest :
  n < U64_LIMIT -> dec_varint (enc_varint n ++ rest) = DOk n rest (lenN (enc_varint n)).
Proof.
  intros H. rewrite enc_varint_len. unfold enc_varint.
  destruct (N.ltb_spec n 251) as [H1|H1].
  - simpl. destruct (N.leb_spec n 250); [reflexivity | lia].
  - destruct (N.ltb_spec n 65536) as [H2|H2]; [|destruct (N.ltb_spec n 4294967296) as [H3|H3]].
    + change ((251 :: le_enc 2 n) ++ rest) with (251 :: (le_enc 2 n ++ rest)). cbn [dec_varint].
      change (251 <=? 250) with false. change (251 =? 251) with true. cbv iota.
      unfold dec_le. rewrite le_dec_enc. change (256 ^ N.of_nat 2) with 65536.
      now rewrite N.mod_small by lia.
    + change ((252 :: le_enc 4 n) ++ rest) with (252 :: (le_enc 4 n ++ rest)). cbn [dec_varint].
      change (252 <=? 250) with false. change (252 =? 251) with false. change (252 =? 252) with true. cbv iota.
      unfold dec_le. rewrite le_dec_enc. change (256 ^ N.of_nat 4) with 4294967296.
      now rewrite N.mod_small by lia.
    + change ((253 :: le_enc 8 n) ++ rest) with (253 :: (le_enc 8 n ++ rest)). cbn [dec_varint].
      change (253 <=? 250) with false. change (253 =? 251) with false. change (253 =? 252) with false.
      change (253 =? 253) with true. cbv iota.
      unfold dec_le. rewrite le_dec_enc. change (256 ^ N.of_nat 8) with U64_LIMIT.
      now rewrite N.mod_small by lia.
Qed.

Lemma dec_varint_prefix n p q : enc_varint n = p ++ q -> q <> [] -> dec_varint p = DEof.
Proof.
  intros E Hq. destruct p as [|b p]; [reflexivity|].
  assert (Hlen : (length p < length (enc_varint n) - 1)%nat).
  { rewrite E, app_length. simpl. destruct q; [congruence | simpl; lia]. }
  unfold enc_varint in *.
  destruct (n <? 251).
  - simpl in Hlen. lia.
  - destruct (n <? 65536); [|destruct (n <? 4294967296)];
      simpl in E; injection E as <- _; simpl in Hlen; rewrite ?le_enc_length in Hlen;
      cbn [dec_varint];
      [ change (251 <=? 250) with false; change (251 =? 251) with true
      | change (252 <=? 250) with false; change (252 =? 251) with false; change (252 =? 252) with true
      | change (253 <=? 250) with false; change (253 =? 251) with false; change (253 =? 252) with false;
        change (253 =? 253) with true ];
      cbv iota; unfold dec_le; rewrite le_dec_short by lia; reflexivity.
Qed.

Lemma dec_enc_u32 n rest : n < U32_LIMIT -> dec_u32 (enc_varint n ++ rest) = DOk n rest (lenN (enc_varint n)).
Proof.
  intros H. unfold dec_u32. rewrite dec_enc_varint by (unfold U32_LIMIT, U64_LIMIT in *; lia).
  destruct (N.ltb_spec n U32_LIMIT); [reflexivity | lia].
Qed.

Lemma dec_u32_prefix n p q : enc_varint n = p ++ q -> q <> [] -> dec_u32 p = DEof.
Proof. intros E Hq. unfold dec_u32. now rewrite (dec_varint_prefix n p q). Qed.

(** * zig-zag *)

Lemma zigzag_roundtrip z : zigzag_dec (zigzag_enc z) = z.
Proof.
  unfold zigzag_enc, zigzag_dec. destruct (Z.leb_spec 0 z) as [H|H].
  - replace (Z.to_N (2 * z)) with (2 * Z.to_N z) by lia.
    rewrite N.even_mul. simpl orb. cbv iota.
    replace (2 * Z.to_N z / 2) with (Z.to_N z) by (rewrite N.mul_comm, N.div_mul; lia). lia.
  - replace (Z.to_N (- 2 * z - 1)) with (1 + 2 * Z.to_N (- z - 1)) by lia.
    rewrite N.even_add_mul_2. change (N.even 1) with false. cbv iota.
    replace ((1 + 2 * Z.to_N (- z - 1)) / 2) with (Z.to_N (- z - 1)).
    + lia.
    + apply N.div_unique with (r := 1); lia.
Qed.

Lemma zigzag_bound z : time_ok z = true -> zigzag_enc z < U64_LIMIT.
Proof.
  unfold time_ok, TIME_MIN, TIME_MAX, zigzag_enc, U64_LIMIT. intros H.
  apply andb_true_iff in H as [H1 H2]. destruct (Z.leb_spec 0 z); lia.
Qed.

Lemma dec_enc_time t rest :
  time_ok t = true ->
  dec_time (enc_varint (zigzag_enc t) ++ rest) = DOk t rest (lenN (enc_varint (zigzag_enc t))).
Proof.
  intros H. unfold dec_time. rewrite dec_enc_varint by now apply zigzag_bound.
  rewrite zigzag_roundtrip, H. reflexivity.
Qed.

Lemma dec_time_prefix n p q : enc_varint n = p ++ q -> q <> [] -> dec_time p = DEof.
Proof. intros E Hq. unfold dec_time. now rewrite (dec_varint_prefix n p q). Qed.

(** * sequencing *)

Lemma dbind_prefix {A B} (d1 : bytes -> dres A) (k : A -> bytes -> dres B) e1 erest p q a n1 :
  (forall rest, d1 (e1 ++ rest) = DOk a rest n1) ->
  (forall p' q', e1 = p' ++ q' -> q' <> [] -> d1 p' = DEof) ->
  p ++ q = e1 ++ erest -> q <> [] ->
  (forall p', p = e1 ++ p' -> p' ++ q = erest -> k a p' = DEof) ->
  dbind (d1 p) k = DEof.
Proof.
  intros Hok Hpre E Hq Hk.
  apply app_eq_app in E as [l [[E1 E2]|[E1 E2]]].
  - subst p. rewrite Hok. cbn [dbind]. rewrite (Hk l); auto.
  - destruct l as [|x l].
    + rewrite app_nil_r in E1. subst e1. simpl in E2. subst q.
      rewrite <- (app_nil_r p) at 1. rewrite Hok. cbn [dbind]. rewrite (Hk []); auto using app_nil_r.
    + rewrite (Hpre p (x :: l)); [reflexivity | assumption | discriminate].
Qed.

(** * chunk header *)

Lemma header_ok_fields h :
  header_ok h = true ->
  time_ok (ch_time h) = true /\ ch_job h < U32_LIMIT /\ ch_task h < U32_LIMIT /\ ch_inst h < U32_LIMIT
  /\ ch_chan h < U32_LIMIT /\ ch_size h < U64_LIMIT.
Proof.
  unfold header_ok. intros H. rewrite !andb_true_iff, !N.ltb_lt in H. tauto.
Qed.

Theorem dec_enc_chunk_header h rest :
  header_ok h = true ->
  dec_chunk_header (enc_chunk_header h ++ rest) = DOk h rest (lenN (enc_chunk_header h)).
Proof.
  intros H. apply header_ok_fields in H as (Ht & Hj & Hk & Hi & Hc & Hs).
  unfold dec_chunk_header, enc_chunk_header. repeat rewrite <- app_assoc.
  rewrite dec_enc_time by assumption. cbn [dbind].
  rewrite dec_enc_u32 by assumption. cbn [dbind].
  rewrite dec_enc_u32 by assumption. cbn [dbind].
  rewrite dec_enc_u32 by assumption. cbn [dbind].
  rewrite dec_enc_u32 by assumption. cbn [dbind].
  rewrite dec_enc_varint by assumption. cbn [dbind].
  destruct h as [t j k i c s]; cbn [ch_time ch_job ch_task ch_inst ch_chan ch_size]. f_equal.
  rewrite !lenN_app. lia.
Qed.

Theorem dec_chunk_header_prefix h p q :
  header_ok h = true -> enc_chunk_header h = p ++ q -> q <> [] -> dec_chunk_header p = DEof.
Proof.
  intros H E Hq. apply header_ok_fields in H as (Ht & Hj & Hk & Hi & Hc & Hs).
  unfold dec_chunk_header. unfold enc_chunk_header in E. symmetry in E.
  eapply dbind_prefix with (e1 := enc_varint (zigzag_enc (ch_time h)));
    [intros; apply dec_enc_time; assumption | intros; eapply dec_time_prefix; eassumption | exact E | exact Hq |].
  clear E. intros ? _ E.
  eapply dbind_prefix with (e1 := enc_varint (ch_job h));
    [intros; apply dec_enc_u32; assumption | intros; eapply dec_u32_prefix; eassumption | exact E | exact Hq |].
  clear E. intros ? _ E.
  eapply dbind_prefix with (e1 := enc_varint (ch_task h));
    [intros; apply dec_enc_u32; assumption | intros; eapply dec_u32_prefix; eassumption | exact E | exact Hq |].
  clear E. intros ? _ E.
  eapply dbind_prefix with (e1 := enc_varint (ch_inst h));
    [intros; apply dec_enc_u32; assumption | intros; eapply dec_u32_prefix; eassumption | exact E | exact Hq |].
  clear E. intros ? _ E.
  eapply dbind_prefix with (e1 := enc_varint (ch_chan h));
    [intros; apply dec_enc_u32; assumption | intros; eapply dec_u32_prefix; eassumption | exact E | exact Hq |].
  clear E. intros ? _ E.
  eapply dbind_prefix with (e1 := enc_varint (ch_size h)) (erest := []);
    [intros; apply dec_enc_varint; assumption | intros; eapply dec_varint_prefix; eassumption | | exact Hq |].
  { rewrite app_nil_r. exact E. }
  intros ? _ E'. apply app_eq_nil in E' as [_ E']. contradiction.
Qed.

(** an encoded header is never empty (at least six bytes) *)
Lemma enc_varint_nonempty n : enc_varint n <> [].
Proof. unfold enc_varint. repeat destruct (_ <? _); discriminate. Qed.

Lemma enc_chunk_header_len_pos h : 0 < lenN (enc_chunk_header h).
Proof.
  unfold enc_chunk_header. rewrite lenN_app.
  pose proof (enc_varint_nonempty (zigzag_enc (ch_time h))) as H.
  destruct (enc_varint (zigzag_enc (ch_time h))); [congruence|]. rewrite lenN_cons. lia.
Qed.

(** * file header *)

Lemma limit_ok l :
  l < 65536 ->
  (FRAME_LIMIT - (if l <? 251 then 1 else if l <? 65536 then 3 else if l <? 4294967296 then 5 else 9) <? l) = false.
Proof.
  intros H. apply N.ltb_ge. unfold FRAME_LIMIT.
  assert (1 <= STREAM_MAX_FRAME_MB) by (unfold STREAM_MAX_FRAME_MB; lia).
  repeat destruct (_ <? _); nia.
Qed.

Lemma dec_enc_string s rest :
  ascii_ok s = true -> lenN s < 65536 ->
  dec_string (enc_string s ++ rest) = DOk s rest (lenN (enc_string s)).
Proof.
  intros Ha Hl. unfold dec_string, enc_string. rewrite <- app_assoc.
  rewrite dec_enc_varint by (unfold U64_LIMIT; lia).
  rewrite enc_varint_len, limit_ok by assumption.
  rewrite takeN_app, Ha. f_equal. rewrite lenN_app, enc_varint_len. reflexivity.
Qed.

Lemma dec_string_prefix s p q :
  lenN s < 65536 -> enc_string s = p ++ q -> q <> [] -> dec_string p = DEof.
Proof.
  intros Hl E Hq. unfold dec_string. unfold enc_string in E. symmetry in E.
  apply app_eq_app in E as [l [[E1 E2]|[E1 E2]]].
  - (* length complete, string cut *)
    subst p. rewrite dec_enc_varint by (unfold U64_LIMIT; lia).
    rewrite enc_varint_len, limit_ok by assumption.
    rewrite takeN_short; [reflexivity|].
    rewrite E2, lenN_app. destruct q; [congruence|]. rewrite lenN_cons. lia.
  - destruct l as [|x l].
    + rewrite app_nil_r in E1. subst p. simpl in E2. subst q.
      rewrite <- (app_nil_r (enc_varint (lenN s))). rewrite dec_enc_varint by (unfold U64_LIMIT; lia).
      rewrite enc_varint_len, limit_ok by assumption.
      destruct s as [|y s]; [congruence|]. rewrite takeN_nil; [reflexivity|]. rewrite lenN_cons. lia.
    + rewrite (dec_varint_prefix (lenN s) p (x :: l)); [reflexivity | assumption | discriminate].
Qed.

Lemma file_header_ok_fields h :
  file_header_ok h = true -> ascii_ok (fh_uid h) = true /\ lenN (fh_uid h) < 65536 /\ fh_worker h < U32_LIMIT.
Proof.
  unfold file_header_ok. intros H. rewrite !andb_true_iff, !N.ltb_lt in H. tauto.
Qed.

Theorem check_header_enc h rest :
  file_header_ok h = true ->
  check_header (enc_file_header h ++ rest) = DOk h rest (lenN (enc_file_header h)).
Proof.
  intros H. apply file_header_ok_fields in H as (Ha & Hl & Hw).
  unfold check_header, enc_file_header. repeat rewrite <- app_assoc.
  rewrite takeN_app, bytes_eqb_refl.
  rewrite dec_enc_string by assumption. cbn [dbind].
  rewrite dec_enc_u32 by assumption. cbn [dbind].
  destruct h as [u w]; cbn [fh_uid fh_worker]. f_equal. rewrite !lenN_app. lia.
Qed.

(** a file cut inside its header is never accepted *)
Theorem check_header_prefix h p q :
  file_header_ok h = true -> enc_file_header h = p ++ q -> q <> [] -> check_header p = DEof.
Proof.
  intros H E Hq. apply file_header_ok_fields in H as (Ha & Hl & Hw).
  unfold check_header. unfold enc_file_header in E. symmetry in E.
  apply app_eq_app in E as [l [[E1 E2]|[E1 E2]]].
  - subst p. rewrite takeN_app, bytes_eqb_refl.
    replace (dbind (dec_string l) _) with (@DEof FileHeader); [reflexivity|]. symmetry.
    eapply dbind_prefix with (e1 := enc_string (fh_uid h));
      [intros; apply dec_enc_string; assumption | intros; eapply dec_string_prefix; eassumption | | exact Hq |].
    { symmetry. exact E2. }
    intros ? _ E.
    eapply dbind_prefix with (e1 := enc_varint (fh_worker h)) (erest := []);
      [intros; apply dec_enc_u32; assumption | intros; eapply dec_u32_prefix; eassumption | | exact Hq |].
    { rewrite app_nil_r. exact E. }
    intros ? _ E'. apply app_eq_nil in E' as [_ E']. contradiction.
  - destruct l as [|x l].
    + rewrite app_nil_r in E1. subst p. simpl in E2. subst q.
      rewrite <- (app_nil_r magic_bytes) at 2. rewrite takeN_app, bytes_eqb_refl.
      unfold dec_string. cbn [dec_varint dbind]. reflexivity.
    + rewrite takeN_short; [reflexivity|]. rewrite E1, lenN_app, lenN_cons. lia.
Qed.
