(** C19, layer 3: the instance list the index builds for one task.  If the headers of instance [i]
    form one contiguous block among the task's headers (and [i] is the largest id), the sorted
    instance list ends with exactly one entry for [i], made of exactly the block's chunks. *)
From HQ Require Import Base.Prelude Gen.Consts Stream.Model Stream.Codec Stream.Index.
Require Import ZifyBool ZifyN ZifyNat.
Open Scope N_scope.

Arguments N.add : simpl never.
Arguments N.sub : simpl never.
Arguments N.mul : simpl never.
Arguments N.eqb : simpl never.
Arguments N.ltb : simpl never.
Arguments N.leb : simpl never.
Arguments N.of_nat : simpl never.

(** * one run *)

Definition le_size (e : LE) : N := rec_size (le_rec e).
Definition le_chan (e : LE) : N := rec_chan (le_rec e).

Definition le_ci (e : LE) : ChunkInfo := mkCI (le_pos e) (trunc32 (le_size e)).

Definition chunks0 (m : list LE) : list ChunkInfo :=
  map le_ci (filter (fun e => (0 <? le_size e) && (le_chan e =? 0)) m).
Definition chunks1 (m : list LE) : list ChunkInfo :=
  map le_ci (filter (fun e => (0 <? le_size e) && negb (le_chan e =? 0)) m).
Definition has_end (m : list LE) : bool := existsb (fun e => le_size e =? 0) m.

Definition extend (I : Inst) (m : list LE) : Inst :=
  mkInst (in_id I) (in_c0 I ++ chunks0 m) (in_c1 I ++ chunks1 m) (in_file I) (in_fin I || has_end m).

Lemma extend_nil I : extend I [] = I.
Proof. destruct I. unfold extend, chunks0, chunks1, has_end. simpl. now rewrite !app_nil_r, orb_false_r. Qed.

Definition step_inst (I : Inst) (e : LE) : Inst :=
  if 0 <? le_size e then push_chunk I (le_chan e) (le_ci e) else set_fin I.

Lemma add_e_same I S e : in_id I = le_inst e -> add_e (I :: S) e = step_inst I e :: S.
Proof.
  intros H. unfold add_e, add_hdr. fold (le_inst e).
  change (ch_inst (r_hdr (le_rec e))) with (le_inst e).
  rewrite H, N.eqb_refl. reflexivity.
Qed.

Definition fresh (e : LE) : Inst := mkInst (le_inst e) [] [] (le_file e) false.

Lemma add_e_new I S e : in_id I <> le_inst e -> add_e (I :: S) e = step_inst (fresh e) e :: I :: S.
Proof.
  intros H. unfold add_e, add_hdr. change (ch_inst (r_hdr (le_rec e))) with (le_inst e).
  destruct (N.eqb_spec (in_id I) (le_inst e)); [contradiction|]. reflexivity.
Qed.

Lemma add_e_nil e : add_e [] e = [step_inst (fresh e) e].
Proof. reflexivity. Qed.

Lemma extend_step I e m : extend (step_inst I e) m = extend I (e :: m).
Proof.
  unfold extend, step_inst, chunks0, chunks1, has_end. cbn [filter existsb].
  destruct (N.ltb_spec 0 (le_size e)) as [Hp|Hz].
  - destruct (N.eqb_spec (le_size e) 0); [lia|]. unfold push_chunk.
    destruct (le_chan e =? 0); destruct I; simpl; rewrite <- ?app_assoc; reflexivity.
  - destruct (N.eqb_spec (le_size e) 0); [|lia]. destruct I; simpl.
    now rewrite orb_true_r.
Qed.

Lemma step_inst_id I e : in_id (step_inst I e) = in_id I.
Proof. unfold step_inst, push_chunk, set_fin. destruct (0 <? le_size e); [destruct (le_chan e =? 0)|]; reflexivity. Qed.

(** a block of headers of the same instance extends the current entry *)
Lemma fold_block m : forall I S,
  Forall (fun e => le_inst e = in_id I) m -> insts_of m (I :: S) = extend I m :: S.
Proof.
  induction m as [|e m IH]; intros I S H.
  - now rewrite extend_nil.
  - inversion H as [|? ? He Hm]; subst. cbn [insts_of fold_left].
    rewrite add_e_same by auto. change (fold_left add_e m ?x) with (insts_of m x).
    rewrite IH by (rewrite step_inst_id; assumption). now rewrite extend_step.
Qed.

(** a block starting while another instance (or nothing) is current opens a new entry *)
Lemma fold_block_new e m S i :
  Forall (fun x => le_inst x = i) (e :: m) ->
  match S with X :: _ => in_id X <> i | [] => True end ->
  insts_of (e :: m) S = extend (fresh e) (e :: m) :: S.
Proof.
  intros H HS. inversion H as [|? ? He Hm]; subst.
  cbn [insts_of fold_left]. change (fold_left add_e m ?x) with (insts_of m x).
  assert (E : add_e S e = step_inst (fresh e) e :: S).
  { destruct S as [|X S]; [apply add_e_nil | apply add_e_new; assumption]. }
  rewrite E, fold_block, extend_step; [reflexivity|].
  rewrite step_inst_id. exact Hm.
Qed.

(** the fold only ever looks at the head of the list *)
Lemma fold_stack l : forall T S, T <> [] -> insts_of l (T ++ S) = insts_of l T ++ S.
Proof.
  induction l as [|e l IH]; intros T S HT; [reflexivity|].
  destruct T as [|I T]; [congruence|]. cbn [insts_of fold_left].
  change (fold_left add_e l ?x) with (insts_of l x).
  simpl app. destruct (N.eq_dec (in_id I) (le_inst e)) as [E|E].
  - rewrite !add_e_same by assumption. apply (IH (_ :: T)). discriminate.
  - rewrite !add_e_new by assumption. apply (IH (_ :: _ :: T)). discriminate.
Qed.

(** ids in the result come from the start list or from the headers *)
Lemma fold_ids l : forall S J,
  In J (insts_of l S) -> (exists I, In I S /\ in_id I = in_id J) \/ (exists e, In e l /\ le_inst e = in_id J).
Proof.
  induction l as [|e l IH]; intros S J H.
  - left. exists J. auto.
  - cbn [insts_of fold_left] in H. change (fold_left add_e l ?x) with (insts_of l x) in H.
    apply IH in H as [(I & HI & E)|(e' & He & E)].
    + destruct S as [|I0 S].
      * rewrite add_e_nil in HI. destruct HI as [<-|[]]. right. exists e. split; [left; reflexivity|].
        now rewrite step_inst_id in E.
      * destruct (N.eq_dec (in_id I0) (le_inst e)) as [E0|E0].
        -- rewrite add_e_same in HI by assumption. destruct HI as [<-|HI].
           ++ left. exists I0. split; [left; reflexivity|]. now rewrite step_inst_id in E.
           ++ left. exists I. split; [right; assumption | assumption].
        -- rewrite add_e_new in HI by assumption. destruct HI as [<-|HI].
           ++ right. exists e. split; [left; reflexivity|]. now rewrite step_inst_id in E.
           ++ left. exists I. auto.
    + right. exists e'. split; [right; assumption | assumption].
Qed.

Lemma insts_of_app a b S : insts_of (a ++ b) S = insts_of b (insts_of a S).
Proof. unfold insts_of. apply fold_left_app. Qed.

(** * the decomposition theorem for one task *)

Theorem insts_of_block l1 e m l2 i :
  Forall (fun x => le_inst x <> i) l1 ->
  Forall (fun x => le_inst x = i) (e :: m) ->
  Forall (fun x => le_inst x <> i) l2 ->
  exists T1 T2,
    insts_of (l1 ++ (e :: m) ++ l2) [] = T2 ++ extend (fresh e) (e :: m) :: T1
    /\ (forall J, In J T1 -> exists x, In x l1 /\ le_inst x = in_id J)
    /\ (forall J, In J T2 -> exists x, In x l2 /\ le_inst x = in_id J).
Proof.
  intros H1 Hm H2. rewrite !insts_of_app.
  set (T1 := insts_of l1 []).
  assert (HT1 : forall J, In J T1 -> exists x, In x l1 /\ le_inst x = in_id J).
  { intros J HJ. apply fold_ids in HJ as [(I & [] & _)|H]. exact H. }
  rewrite (fold_block_new e m T1 i Hm).
  2:{ destruct T1 as [|X T] eqn:E; [exact Logic.I|]. destruct (HT1 X) as (x & Hx & Ex); [left; reflexivity|].
      rewrite Forall_forall in H1. rewrite <- Ex. now apply H1. }
  set (R := extend (fresh e) (e :: m)).
  destruct l2 as [|y l2].
  - exists T1, []. split; [reflexivity|]. split; [exact HT1 | intros J []].
  - inversion H2 as [|? ? Hy Hl2]; subst. cbn [insts_of fold_left].
    change (fold_left add_e l2 ?x) with (insts_of l2 x).
    assert (ER : in_id R = i).
    { unfold R, extend, fresh. simpl. inversion Hm; assumption. }
    rewrite add_e_new by (rewrite ER; auto).
    change (step_inst (fresh y) y :: R :: T1) with ([step_inst (fresh y) y] ++ R :: T1).
    rewrite fold_stack by discriminate.
    exists T1, (insts_of l2 [step_inst (fresh y) y]). split; [reflexivity|]. split; [exact HT1|].
    intros J HJ. apply fold_ids in HJ as [(I & HI & E)|(x & Hx & E)].
    + destruct HI as [<-|[]]. exists y. split; [left; reflexivity|]. now rewrite step_inst_id in E.
    + exists x. split; [right; assumption | assumption].
Qed.

(** * stable sort: the unique maximum ends up last, the rest keeps its relative order *)

Lemma insert_max x l : Forall (fun y => in_id y < in_id x) l -> insert_inst x l = l ++ [x].
Proof.
  induction l as [|y l IH]; intros H; [reflexivity|].
  inversion H; subst. cbn [insert_inst]. destruct (N.leb_spec (in_id x) (in_id y)); [lia|].
  rewrite IH by assumption. reflexivity.
Qed.

Lemma insert_before_max x l m :
  in_id x < in_id m -> insert_inst x (l ++ [m]) = insert_inst x l ++ [m].
Proof.
  intros H. induction l as [|y l IH]; cbn [insert_inst app].
  - destruct (N.leb_spec (in_id x) (in_id m)); [reflexivity | lia].
  - destruct (in_id x <=? in_id y); [reflexivity|]. now rewrite IH.
Qed.

Lemma insert_Forall (P : Inst -> Prop) x l : P x -> Forall P l -> Forall P (insert_inst x l).
Proof.
  intros Hx Hl. induction Hl as [|y l Hy Hl IH]; cbn [insert_inst].
  - constructor; auto.
  - destruct (_ <=? _); repeat constructor; auto.
Qed.

Lemma sort_Forall (P : Inst -> Prop) l : Forall P l -> Forall P (sort_insts l).
Proof.
  intros H. induction H as [|x l Hx Hl IH]; [constructor|]. cbn [sort_insts fold_right].
  apply insert_Forall; assumption.
Qed.

Lemma sort_max l1 m l2 :
  Forall (fun y => in_id y < in_id m) l1 -> Forall (fun y => in_id y < in_id m) l2 ->
  sort_insts (l1 ++ m :: l2) = sort_insts (l1 ++ l2) ++ [m].
Proof.
  intros H1 H2. induction H1 as [|x l1 Hx H1 IH].
  - cbn [app sort_insts fold_right]. apply insert_max. now apply sort_Forall.
  - cbn [app sort_insts fold_right]. change (fold_right insert_inst [] ?l) with (sort_insts l).
    rewrite IH. now apply insert_before_max.
Qed.

Lemma last_opt_snoc {A} (l : list A) x : last_opt (l ++ [x]) = Some x.
Proof.
  induction l as [|y l IH]; [reflexivity|]. simpl app. cbn [last_opt].
  destruct (l ++ [x]) eqn:E; [destruct l; discriminate | exact IH].
Qed.

Lemma sort_ids l J : In J (sort_insts l) -> In J l.
Proof.
  revert J. induction l as [|x l IH]; intros J H; [exact H|].
  cbn [sort_insts fold_right] in H. change (fold_right insert_inst [] l) with (sort_insts l) in H.
  assert (G : forall s, In J (insert_inst x s) -> J = x \/ In J s).
  { induction s as [|y s IHs]; cbn [insert_inst]; intros HJ.
    - destruct HJ as [<-|[]]; auto.
    - destruct (_ <=? _).
      + destruct HJ as [<-|HJ]; auto.
      + destruct HJ as [<-|HJ]; [right; left; reflexivity|]. apply IHs in HJ as [->|HJ]; auto. right; right; assumption. }
  apply G in H as [->|H]; [left; reflexivity | right; auto].
Qed.
