(** C19, the superseded report at full strength (closes the open item [C19_superseded_full]).

    When the headers of EVERY instance of a task are contiguous ([all_contig]: every instance
    lives in one file and its headers form one block among the task's headers of that file), the
    entries [TaskInfo::superseded] reports for the task are exactly the instances other than the
    largest one, in increasing id order, each with exactly the number of bytes per channel that
    the instance's headers (complete or torn) announce - the specification evaluated by the
    monitor `superseded-mismatch` of ocaml/stream/driver.ml.

    Part 1 (this file): sorted lists of ids, and the shape of the instance list the index builds
    for one task when every id forms one block.  The theorem itself is in [FullSupMain]. *)
From HQ Require Import Base.Prelude Gen.Consts Stream.Model Stream.Codec Stream.Index Stream.Runs Stream.Proofs.
Require Import ZifyBool ZifyN ZifyNat Sorted.
Open Scope N_scope.

Arguments N.add : simpl never.
Arguments N.sub : simpl never.
Arguments N.mul : simpl never.
Arguments N.eqb : simpl never.
Arguments N.ltb : simpl never.
Arguments N.leb : simpl never.
Arguments N.of_nat : simpl never.

(** * Strictly sorted lists of ids *)

Definition sortN (l : list N) : list N := fold_right insert_N [] l.

Lemma insert_N_In x y l : In x (insert_N y l) <-> y = x \/ In x l.
Proof.
  induction l as [|z l IH]; cbn [insert_N].
  - reflexivity.
  - destruct (y <=? z); [reflexivity|]. cbn [In]. rewrite IH. tauto.
Qed.

Lemma insert_N_sorted y l :
  StronglySorted N.lt l -> ~ In y l -> StronglySorted N.lt (insert_N y l).
Proof.
  induction l as [|z l IH]; intros Hs Hn; cbn [insert_N].
  - repeat constructor.
  - inversion Hs as [|? ? Hs' Hz]; subst.
    destruct (N.leb_spec y z) as [Hle|Hlt].
    + assert (Hyz : y < z).
      { assert (z <> y) by (intros ->; apply Hn; left; reflexivity). lia. }
      constructor; [assumption|]. constructor; [assumption|].
      eapply Forall_impl; [|exact Hz]. intros a Ha. cbv beta in Ha. lia.
    + constructor.
      * apply IH; [assumption | intros Hin; apply Hn; right; assumption].
      * apply Forall_forall. intros x Hx. apply insert_N_In in Hx as [<-|Hx]; [assumption|].
        rewrite Forall_forall in Hz. now apply Hz.
Qed.

Lemma sortN_In x l : In x (sortN l) <-> In x l.
Proof.
  induction l as [|y l IH]; [reflexivity|]. cbn [sortN fold_right]. fold (sortN l).
  rewrite insert_N_In, IH. reflexivity.
Qed.

Lemma sortN_sorted l : NoDup l -> StronglySorted N.lt (sortN l).
Proof.
  induction 1 as [|y l Hy Hnd IH]; [constructor|]. cbn [sortN fold_right]. fold (sortN l).
  apply insert_N_sorted; [assumption|]. now rewrite sortN_In.
Qed.

Lemma ssorted_unique l1 : forall l2,
  StronglySorted N.lt l1 -> StronglySorted N.lt l2 -> (forall x, In x l1 <-> In x l2) -> l1 = l2.
Proof.
  induction l1 as [|a r1 IH]; intros l2 H1 H2 Hm.
  - destruct l2 as [|b r2]; [reflexivity|]. exfalso. apply (proj2 (Hm b)). left; reflexivity.
  - destruct l2 as [|b r2].
    + exfalso. apply (proj1 (Hm a)). left; reflexivity.
    + inversion H1 as [|? ? Hs1 Ha]; subst. inversion H2 as [|? ? Hs2 Hb]; subst.
      rewrite Forall_forall in Ha, Hb.
      assert (Eab : a = b).
      { destruct (proj1 (Hm a) (or_introl eq_refl)) as [E|Hin]; [now symmetry|].
        destruct (proj2 (Hm b) (or_introl eq_refl)) as [E|Hin']; [assumption|].
        specialize (Ha _ Hin'). specialize (Hb _ Hin). lia. }
      subst b. f_equal. apply IH; try assumption. intros x. split; intros Hx.
      * destruct (proj1 (Hm x) (or_intror Hx)) as [E|Hin]; [|assumption].
        subst x. specialize (Ha _ Hx). lia.
      * destruct (proj2 (Hm x) (or_intror Hx)) as [E|Hin]; [|assumption].
        subst x. specialize (Hb _ Hx). lia.
Qed.

Lemma ssorted_snoc l m :
  StronglySorted N.lt l -> Forall (fun x => x < m) l -> StronglySorted N.lt (l ++ [m]).
Proof.
  induction 1 as [|a l Hs IH Ha]; intros HF; cbn [app].
  - repeat constructor.
  - inversion HF as [|? ? Ham HF']; subst. constructor; [now apply IH|].
    apply Forall_app. split; [assumption | repeat constructor; assumption].
Qed.

(** the ids [other_insts] folds over *)
Definition others (m : N) (P : list N) : list N :=
  fold_right (fun i acc => if (i =? m) || existsb (N.eqb i) acc then acc else insert_N i acc) [] P.

Lemma other_insts_eq fs k :
  other_insts fs k = match max_inst k (all_seen fs) with
                     | Some m => others m (proj_insts k (all_seen fs))
                     | None => []
                     end.
Proof. reflexivity. Qed.

Lemma existsb_eqb_In i l : existsb (N.eqb i) l = true <-> In i l.
Proof.
  rewrite existsb_exists. split.
  - intros (x & Hx & E). apply N.eqb_eq in E. now subst.
  - intros H. exists i. split; [assumption | apply N.eqb_refl].
Qed.

Lemma others_spec m P :
  StronglySorted N.lt (others m P) /\ forall x, In x (others m P) <-> In x P /\ x <> m.
Proof.
  induction P as [|i P (IHs & IHm)]; [split; [constructor | intros x; cbn; tauto]|].
  cbn [others fold_right]. fold (others m P).
  destruct (N.eqb_spec i m) as [E|E]; cbn [orb].
  - split; [assumption|]. intros x. rewrite IHm. cbn [In]. split; [tauto|].
    intros [[Hx|Hx] Hn]; [congruence | tauto].
  - destruct (existsb (N.eqb i) (others m P)) eqn:Ex.
    + apply existsb_eqb_In in Ex. split; [assumption|]. intros x. rewrite IHm. cbn [In]. split; [tauto|].
      intros [[Hx|Hx] Hn]; [|tauto]. subst x. now apply IHm.
    + split.
      * apply insert_N_sorted; [assumption|]. intros Hin. apply existsb_eqb_In in Hin. congruence.
      * intros x. rewrite insert_N_In, IHm. cbn [In]. split.
        -- intros [Hx|Hx]; [subst x; tauto | tauto].
        -- tauto.
Qed.

(** * Generic list facts *)

Lemma in_removelast {A} (x : A) l : In x (removelast l) -> In x l.
Proof.
  induction l as [|a l IH]; [intros []|]. cbn [removelast]. destruct l as [|b l]; [intros []|].
  intros [<-|H]; [left; reflexivity | right; now apply IH].
Qed.

Lemma map_removelast {A B} (f : A -> B) l : map f (removelast l) = removelast (map f l).
Proof.
  induction l as [|a l IH]; [reflexivity|]. cbn [removelast map]. destruct l as [|b l]; [reflexivity|].
  cbn [map] in *. now rewrite IH.
Qed.

Lemma map_id_insert x l : map in_id (insert_inst x l) = insert_N (in_id x) (map in_id l).
Proof.
  induction l as [|y l IH]; [reflexivity|]. cbn [insert_inst map insert_N].
  destruct (in_id x <=? in_id y); cbn [map]; [reflexivity | now rewrite IH].
Qed.

Lemma map_id_sort l : map in_id (sort_insts l) = sortN (map in_id l).
Proof.
  induction l as [|x l IH]; [reflexivity|]. cbn [sort_insts fold_right map sortN].
  fold (sort_insts l). fold (sortN (map in_id l)). now rewrite map_id_insert, IH.
Qed.

Lemma sumN_map {A B} (g : A -> B) (f : B -> N) l : sumN f (map g l) = sumN (fun x => f (g x)) l.
Proof. unfold sumN. induction l as [|x l IH]; [reflexivity|]. cbn [map fold_right]. now rewrite IH. Qed.

Lemma sumN_ext_in {A} (f g : A -> N) l : (forall x, In x l -> f x = g x) -> sumN f l = sumN g l.
Proof.
  unfold sumN. induction l as [|x l IH]; intros H; [reflexivity|]. cbn [fold_right].
  rewrite H by (left; reflexivity). rewrite IH; [reflexivity|]. intros y Hy. apply H. now right.
Qed.

Lemma chunks_size_sel (p : LE -> bool) l :
  chunks_size (map le_ci (filter p l)) = sumN (fun e => if p e then trunc32 (le_size e) else 0) l.
Proof.
  unfold chunks_size, sumN. induction l as [|e l IH]; [reflexivity|]. cbn [filter fold_right].
  destruct (p e); cbn [map fold_right]; rewrite IH; [reflexivity | now rewrite N.add_0_l].
Qed.

(** * The largest instance exists as soon as the task has a header *)

Lemma max_step_some k a r :
  max_step k (Some a) r = Some (if of_task k r then N.max a (rec_inst r) else a).
Proof. unfold max_step. destruct (of_task k r); reflexivity. Qed.

Lemma max_fold_some k recs : forall a, exists b, fold_left (max_step k) recs (Some a) = Some b.
Proof.
  induction recs as [|r recs IH]; intros a; [exists a; reflexivity|].
  cbn [fold_left]. rewrite max_step_some. apply IH.
Qed.

Lemma max_fold_none k recs : forall acc,
  fold_left (max_step k) recs acc = None -> forall r, In r recs -> of_task k r = false.
Proof.
  induction recs as [|r recs IH]; intros acc H r' Hr'; [destruct Hr'|].
  cbn [fold_left] in H. destruct (of_task k r) eqn:Ek.
  - exfalso. assert (E : exists a, max_step k acc r = Some a).
    { unfold max_step. rewrite Ek. destruct acc; eauto. }
    destruct E as (a & E). rewrite E in H. destruct (max_fold_some k recs a) as (b & Hb). congruence.
  - destruct Hr' as [<-|Hr']; [assumption|].
    assert (E : max_step k acc r = acc) by (unfold max_step; now rewrite Ek).
    rewrite E in H. exact (IH acc H r' Hr').
Qed.

Lemma max_inst_none k recs : max_inst k recs = None -> forall r, In r recs -> of_task k r = false.
Proof. intros H. exact (max_fold_none k recs None H). Qed.

Lemma proj_insts_In k recs x :
  In x (proj_insts k recs) <-> exists r, In r recs /\ of_task k r = true /\ rec_inst r = x.
Proof.
  unfold proj_insts. rewrite in_map_iff. split.
  - intros (r & E & Hr). apply filter_In in Hr as [Hr Hk]. eauto.
  - intros (r & Hr & Hk & E). exists r. split; [assumption|]. apply filter_In. auto.
Qed.

(** * The instance list of one task when every id forms one block *)

(** the headers with instance id [i] form one non-empty contiguous block of [l] *)
Definition blk (l : list LE) (i : N) : Prop :=
  exists l1 x m l2, l = l1 ++ (x :: m) ++ l2
    /\ Forall (fun y => le_inst y <> i) l1 /\ Forall (fun y => le_inst y = i) (x :: m)
    /\ Forall (fun y => le_inst y <> i) l2.

Lemma insts_blk l i : blk l i ->
  exists T1 B T2, insts_of l [] = T2 ++ B :: T1 /\ in_id B = i
    /\ ~ In i (map in_id T1) /\ ~ In i (map in_id T2)
    /\ in_c0 B = chunks0 (filter (fun e => le_inst e =? i) l)
    /\ in_c1 B = chunks1 (filter (fun e => le_inst e =? i) l).
Proof.
  intros (l1 & x & m & l2 & -> & H1 & Hm & H2).
  destruct (insts_of_block l1 x m l2 i H1 Hm H2) as (T1 & T2 & HT & HT1 & HT2).
  exists T1, (extend (fresh x) (x :: m)), T2.
  assert (Hf : filter (fun e => le_inst e =? i) (l1 ++ (x :: m) ++ l2) = x :: m).
  { apply filter_block.
    - eapply Forall_impl; [|exact H1]. intros y Hy. now apply N.eqb_neq.
    - eapply Forall_impl; [|exact Hm]. intros y Hy. now apply N.eqb_eq.
    - eapply Forall_impl; [|exact H2]. intros y Hy. now apply N.eqb_neq. }
  rewrite Hf. split; [exact HT|]. split; [cbn [extend fresh in_id]; now inversion Hm|].
  split; [|split; [|split; reflexivity]].
  - intros Hin. apply in_map_iff in Hin as (J & EJ & HJ). destruct (HT1 J HJ) as (y & Hy & Ey).
    rewrite Forall_forall in H1. apply (H1 y Hy). congruence.
  - intros Hin. apply in_map_iff in Hin as (J & EJ & HJ). destruct (HT2 J HJ) as (y & Hy & Ey).
    rewrite Forall_forall in H2. apply (H2 y Hy). congruence.
Qed.

(** every id one block: one entry per id, made of exactly the headers with that id *)
Lemma insts_all_blk l :
  (forall e, In e l -> blk l (le_inst e)) ->
  NoDup (map in_id (insts_of l []))
  /\ (forall J, In J (insts_of l []) ->
        (exists e, In e l /\ le_inst e = in_id J)
        /\ in_c0 J = chunks0 (filter (fun e => le_inst e =? in_id J) l)
        /\ in_c1 J = chunks1 (filter (fun e => le_inst e =? in_id J) l))
  /\ (forall e, In e l -> In (le_inst e) (map in_id (insts_of l []))).
Proof.
  intros Hall.
  assert (Hsrc : forall J, In J (insts_of l []) -> exists e, In e l /\ le_inst e = in_id J).
  { intros J HJ. apply fold_ids in HJ as [(I & [] & _)|H]. exact H. }
  split; [|split].
  - apply (NoDup_count_occ' N.eq_dec). intros i Hi.
    apply in_map_iff in Hi as (J & EJ & HJ). destruct (Hsrc J HJ) as (e & He & Ee).
    destruct (insts_blk l i) as (T1 & B & T2 & HT & HB & N1 & N2 & _).
    { rewrite <- EJ, <- Ee. now apply Hall. }
    rewrite HT, map_app. cbn [map]. rewrite count_occ_app, HB, count_occ_cons_eq by reflexivity.
    rewrite (proj1 (count_occ_not_In N.eq_dec _ _) N1), (proj1 (count_occ_not_In N.eq_dec _ _) N2).
    reflexivity.
  - intros J HJ. split; [now apply Hsrc|]. destruct (Hsrc J HJ) as (e & He & Ee).
    destruct (insts_blk l (in_id J)) as (T1 & B & T2 & HT & HB & N1 & N2 & E0 & E1).
    { rewrite <- Ee. now apply Hall. }
    rewrite HT in HJ. apply in_app_or in HJ as [HJ|[HJ|HJ]].
    + exfalso. apply N2. now apply in_map.
    + subst J. split; assumption.
    + exfalso. apply N1. now apply in_map.
  - intros e He. destruct (insts_blk l (le_inst e) (Hall e He)) as (T1 & B & T2 & HT & HB & _).
    rewrite HT, map_app. apply in_or_app. right. left. exact HB.
Qed.

(** * From the directory to the blocks *)

Lemma sub_all_insts k fs n : map le_inst (sub_les k (all_les n fs)) = proj_insts k (all_seen fs).
Proof.
  unfold proj_insts, sub_les. rewrite <- all_les_recs with (n := n).
  rewrite <- (map_filter_comm le_rec (of_task k)), map_map. reflexivity.
Qed.

Lemma task_split fs k i a :
  filter (has_inst k i) fs = [a] ->
  one_block i (proj_insts k (afile_seen a)) = true ->
  blk (sub_les k (all_les 0 fs)) i.
Proof.
  intros Hf Hb.
  apply filter_single in Hf as (fs1 & fs2 & -> & H1 & H2 & Ha).
  apply forallb_negb_Forall in H1. apply forallb_negb_Forall in H2.
  set (n1 := N.of_nat (length fs1)).
  rewrite <- (sub_les_insts k n1 a) in Hb.
  apply one_block_split in Hb as (l1 & x & m & l2 & Hsub & Hl1 & Hm & Hl2).
  exists (sub_les k (all_les 0 fs1) ++ l1), x, m, (l2 ++ sub_les k (all_les (n1 + 1) fs2)).
  split.
  { rewrite all_les_app. cbn [all_les]. rewrite !sub_les_app. fold n1. rewrite N.add_0_l, Hsub.
    now rewrite <- !app_assoc. }
  split; [|split; [exact Hm|]].
  - apply Forall_app. split; [now apply has_inst_false_all | assumption].
  - apply Forall_app. split; [assumption | now apply has_inst_false_all].
Qed.

Lemma all_contig_blk fs k :
  all_contig fs k = true ->
  forall e, In e (sub_les k (all_les 0 fs)) -> blk (sub_les k (all_les 0 fs)) (le_inst e).
Proof.
  intros Hc e He. unfold all_contig in Hc. rewrite forallb_forall in Hc.
  assert (Hi : In (le_inst e) (proj_insts k (all_seen fs))).
  { rewrite <- (sub_all_insts k fs 0). now apply in_map. }
  specialize (Hc _ Hi). unfold inst_contig in Hc.
  destruct (filter (has_inst k (le_inst e)) fs) as [|a [|? ?]] eqn:Ef; try discriminate.
  exact (task_split fs k (le_inst e) a Ef Hc).
Qed.

(** * Channel sizes of an entry = announced sizes of the instance's data headers *)

Lemma all_seen_bounds bs fs :
  Forall2 file_repr bs fs -> forall r, In r (all_seen fs) -> rec_chan r < 2 /\ rec_size r < U32_LIMIT.
Proof.
  induction 1 as [|b a bs fs Hb _ IH]; intros r Hr; [destruct Hr|].
  change (all_seen (a :: fs)) with (afile_seen a ++ all_seen fs) in Hr.
  apply in_app_or in Hr as [Hr|Hr]; [exact (file_repr_chan b a Hb r Hr) | now apply IH].
Qed.

Lemma sizes_spec k i A :
  (forall e, In e A -> le_chan e < 2 /\ le_size e < U32_LIMIT) ->
  chunks_size (chunks0 (filter (fun e => le_inst e =? i) (sub_les k A))) = spec_size k i 0 (map le_rec A)
  /\ chunks_size (chunks1 (filter (fun e => le_inst e =? i) (sub_les k A))) = spec_size k i 1 (map le_rec A).
Proof.
  intros Hb. unfold chunks0, chunks1, sub_les, spec_size.
  rewrite !filter_filter', !chunks_size_sel, !sumN_map.
  split; apply sumN_ext_in; intros e He; destruct (Hb e He) as [Hc Hs]; cbv beta;
    rewrite trunc32_small by assumption;
    unfold is_data, of_inst, of_task, le_size, le_chan, le_inst, le_key, le_rec in *;
    set (b1 := 0 <? rec_size (snd e)); set (b3 := rec_inst (snd e) =? i);
    set (b4 := key_eqb k (rec_key (snd e))).
  - set (b2 := rec_chan (snd e) =? 0). destruct b1, b2, b3, b4; reflexivity.
  - destruct (N.eqb_spec (rec_chan (snd e)) 0); destruct (N.eqb_spec (rec_chan (snd e)) 1); try lia;
      destruct b1, b3, b4; reflexivity.
Qed.
