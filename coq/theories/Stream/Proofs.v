(** C19: the reader on the bytes of (possibly cut) writer files returns, per task and channel,
    exactly what the largest instance wrote (or an I/O error for a torn chunk). *)
From HQ Require Import Base.Prelude Gen.Consts Stream.Model Stream.Codec Stream.Index Stream.Runs.
Require Import ZifyBool ZifyN ZifyNat.
Open Scope N_scope.

Arguments N.add : simpl never.
Arguments N.sub : simpl never.
Arguments N.mul : simpl never.
Arguments N.eqb : simpl never.
Arguments N.ltb : simpl never.
Arguments N.leb : simpl never.
Arguments N.of_nat : simpl never.

(** * Directory files and their abstract content *)

Definition torn_rec (a : AFile) : option Rec := option_map fst (af_torn a).

Lemma afile_seen_eq a : afile_seen a = af_recs a ++ opt_list (torn_rec a).
Proof. unfold afile_seen, torn_rec. destruct (af_torn a) as [[r d]|]; reflexivity. Qed.

(** [b] are the bytes of a file whose readable content is [a] *)
Definition file_repr (b : bytes) (a : AFile) : Prop :=
  exists tail,
    b = render_file (af_hdr a) (af_recs a) ++ tail
    /\ tail_ok tail (torn_rec a)
    /\ file_header_ok (af_hdr a) = true
    /\ forallb rec_ok (af_recs a) = true
    /\ lenN b + U32_LIMIT < I64_LIMIT.

Definition hdr_len (a : AFile) : N := lenN (enc_file_header (af_hdr a)).

Definition file_les (fidx : N) (a : AFile) : list LE := with_file fidx (locate (hdr_len a) (afile_seen a)).

Fixpoint all_les (n : N) (fs : list AFile) : list LE :=
  match fs with
  | [] => []
  | a :: r => file_les n a ++ all_les (n + 1) r
  end.

Lemma scan_file_spec b a fidx idx :
  file_repr b a -> scan_file fidx b idx = ROk (build (file_les fidx a) idx).
Proof.
  intros (tail & -> & Ht & Hh & Hr & Hb). unfold scan_file, render_file.
  rewrite <- app_assoc. rewrite check_header_enc by assumption.
  unfold file_les. rewrite afile_seen_eq. apply scan_spec; try assumption.
  - lia.
  - unfold render_file in Hb. rewrite <- app_assoc, lenN_app in Hb. unfold hdr_len. lia.
Qed.

Lemma index_files_spec bs : forall fs n idx,
  Forall2 file_repr bs fs -> index_files n bs idx = ROk (build (all_les n fs) idx).
Proof.
  induction bs as [|b bs IH]; intros fs n idx H; inversion H as [|? a ? fs' Hb Hbs]; subst.
  - reflexivity.
  - cbn [index_files all_les]. rewrite (scan_file_spec b a) by assumption. cbn [rbind].
    rewrite (IH fs') by assumption. now rewrite build_app.
Qed.

Lemma lookup_finalize k idx :
  lookup k (finalize idx) = option_map (fun v => sort_insts (rev v)) (lookup k idx).
Proof.
  induction idx as [|[k' v] r IH]; [reflexivity|]. cbn [finalize map lookup fst snd].
  destruct (key_eqb k k'); [reflexivity | exact IH].
Qed.

Lemma create_index_spec bs fs :
  Forall2 file_repr bs fs -> create_index bs = ROk (finalize (build (all_les 0 fs) [])).
Proof. intros H. unfold create_index. now rewrite (index_files_spec bs fs). Qed.

(** * The headers of one task *)

Definition sub_les (k : key) (les : list LE) : list LE := filter (fun e => key_eqb k (le_key e)) les.

Lemma sub_les_app k a b : sub_les k (a ++ b) = sub_les k a ++ sub_les k b.
Proof. apply filter_app. Qed.

Lemma locate_recs pos recs : map snd (locate pos recs) = recs.
Proof. revert pos. induction recs as [|r rs IH]; intros; [reflexivity|]. cbn [locate map snd]. now rewrite IH. Qed.

Lemma file_les_recs n a : map le_rec (file_les n a) = afile_seen a.
Proof.
  unfold file_les, with_file, le_rec. rewrite map_map. cbn [snd].
  rewrite <- (locate_recs (hdr_len a) (afile_seen a)) at 2. reflexivity.
Qed.

Lemma map_filter_comm {A B} (f : A -> B) (p : B -> bool) l :
  map f (filter (fun x => p (f x)) l) = filter p (map f l).
Proof. induction l as [|x l IH]; [reflexivity|]. cbn [filter map]. destruct (p (f x)); cbn [map]; now rewrite IH. Qed.

Lemma sub_les_recs k n a : map le_rec (sub_les k (file_les n a)) = filter (of_task k) (afile_seen a).
Proof.
  unfold sub_les. rewrite <- file_les_recs with (n := n).
  rewrite <- (map_filter_comm le_rec (of_task k)). reflexivity.
Qed.

Lemma sub_les_insts k n a : map le_inst (sub_les k (file_les n a)) = proj_insts k (afile_seen a).
Proof.
  unfold proj_insts. rewrite <- sub_les_recs with (n := n), map_map. reflexivity.
Qed.

(** splitting a list around the block of elements with [f x = i] *)
Lemma one_block_split {A} (f : A -> N) i (l : list A) :
  one_block i (map f l) = true ->
  exists l1 x m l2, l = l1 ++ (x :: m) ++ l2
    /\ Forall (fun y => f y <> i) l1 /\ Forall (fun y => f y = i) (x :: m) /\ Forall (fun y => f y <> i) l2.
Proof.
  induction l as [|x l IH]; cbn [map one_block]; [discriminate|].
  destruct (N.eqb_spec (f x) i) as [E|E].
  - intros H. apply negb_true_iff in H.
    clear IH. revert H. generalize (@nil A). intros _.
    assert (G : forall l, existsb (N.eqb i) (drop_eq i (map f l)) = false ->
                exists m l2, l = m ++ l2 /\ Forall (fun y => f y = i) m /\ Forall (fun y => f y <> i) l2).
    { clear. induction l as [|y l IH]; cbn [map drop_eq]; intros H.
      - exists [], []. repeat split; constructor.
      - destruct (N.eqb_spec (f y) i) as [E|E].
        + destruct (IH H) as (m & l2 & -> & Hm & H2). exists (y :: m), l2. repeat split; auto.
        + exists [], (y :: l). repeat split; [constructor|].
          cbn [existsb] in H. apply orb_false_iff in H as [_ H].
          constructor; [assumption|]. clear - H. induction l as [|z l IH]; [constructor|].
          cbn [map existsb] in H. apply orb_false_iff in H as [H1 H2].
          constructor; [apply N.eqb_neq in H1; congruence | auto]. }
    intros H. destruct (G l H) as (m & l2 & -> & Hm & H2).
    exists [], x, m, l2. repeat split; auto.
  - intros H. destruct (IH H) as (l1 & y & m & l2 & -> & H1 & Hm & H2).
    exists (x :: l1), y, m, l2. repeat split; auto.
Qed.

Lemma filter_single {A} (p : A -> bool) l a :
  filter p l = [a] ->
  exists l1 l2, l = l1 ++ a :: l2 /\ forallb (fun x => negb (p x)) l1 = true
                /\ forallb (fun x => negb (p x)) l2 = true /\ p a = true.
Proof.
  induction l as [|x l IH]; cbn [filter]; [discriminate|]. destruct (p x) eqn:E.
  - intros H. injection H as -> H. exists [], l. repeat split; auto.
    clear - H. induction l as [|y l IH]; [reflexivity|]. cbn [filter] in H. destruct (p y) eqn:E; [discriminate|].
    cbn [forallb]. rewrite E. auto.
  - intros H. destruct (IH H) as (l1 & l2 & -> & H1 & H2 & Ha). exists (x :: l1), l2.
    repeat split; auto. cbn [forallb]. now rewrite E, H1.
Qed.

Lemma all_les_app fs1 : forall n fs2,
  all_les n (fs1 ++ fs2) = all_les n fs1 ++ all_les (n + N.of_nat (length fs1)) fs2.
Proof.
  induction fs1 as [|a fs1 IH]; intros n fs2.
  - simpl. now rewrite N.add_0_r.
  - cbn [app all_les length]. rewrite IH, <- app_assoc.
    replace (n + N.of_nat (S (length fs1))) with (n + 1 + N.of_nat (length fs1)) by lia. reflexivity.
Qed.

Lemma all_les_recs fs : forall n, map le_rec (all_les n fs) = all_seen fs.
Proof.
  induction fs as [|a fs IH]; intros n; [reflexivity|].
  cbn [all_les all_seen flat_map]. rewrite map_app, file_les_recs, IH. reflexivity.
Qed.

Lemma has_inst_false_sub k i n a :
  has_inst k i a = false -> Forall (fun e => le_inst e <> i) (sub_les k (file_les n a)).
Proof.
  intros H. apply Forall_forall. intros e He. unfold sub_les in He. apply filter_In in He as [He Hk].
  unfold has_inst in H. assert (Hr : In (le_rec e) (afile_seen a)).
  { rewrite <- file_les_recs with (n := n). now apply in_map. }
  intros E. assert (X : existsb (of_inst k i) (afile_seen a) = true).
  { apply existsb_exists. exists (le_rec e). split; [assumption|].
    unfold of_inst, of_task, le_key, le_rec, le_inst in *. rewrite Hk, E, N.eqb_refl. reflexivity. }
  congruence.
Qed.

Lemma has_inst_false_all k i fs : forall n,
  Forall (fun a => has_inst k i a = false) fs -> Forall (fun e => le_inst e <> i) (sub_les k (all_les n fs)).
Proof.
  induction fs as [|a fs IH]; intros n H; [constructor|]. inversion H; subst.
  cbn [all_les]. rewrite sub_les_app. apply Forall_app. split; [now apply has_inst_false_sub | now apply IH].
Qed.

Lemma forallb_negb_Forall {A} (p : A -> bool) l :
  forallb (fun x => negb (p x)) l = true -> Forall (fun x => p x = false) l.
Proof.
  intros H. apply Forall_forall. intros x Hx. rewrite forallb_forall in H. specialize (H x Hx).
  now apply negb_true_iff in H.
Qed.

Lemma match_nonempty {A B} (p : list A) x q (u v : B) l :
  l = p ++ x :: q -> match l with [] => u | _ :: _ => v end = v.
Proof. intros ->. destruct p; reflexivity. Qed.

Lemma filter_block {A} (p : A -> bool) l1 m l2 :
  Forall (fun y => p y = false) l1 -> Forall (fun y => p y = true) m -> Forall (fun y => p y = false) l2 ->
  filter p (l1 ++ m ++ l2) = m.
Proof.
  intros H1 Hm H2. rewrite !filter_app.
  assert (F : forall l, Forall (fun y => p y = false) l -> filter p l = []).
  { induction 1 as [|y l Hy _ IH]; [reflexivity|]. cbn [filter]. now rewrite Hy. }
  assert (T : forall l, Forall (fun y => p y = true) l -> filter p l = l).
  { induction 1 as [|y l Hy _ IH]; [reflexivity|]. cbn [filter]. now rewrite Hy, IH. }
  rewrite (F l1), (F l2), (T m) by assumption. now rewrite app_nil_r.
Qed.

(** the index entry of task [k] when the headers of instance [i] form one block in one file *)
Lemma task_entry fs k i a :
  filter (has_inst k i) fs = [a] ->
  one_block i (proj_insts k (afile_seen a)) = true ->
  (forall r, In r (all_seen fs) -> of_task k r = true -> rec_inst r <= i) ->
  exists fs1 fs2 x m X,
    fs = fs1 ++ a :: fs2
    /\ lookup k (finalize (build (all_les 0 fs) [])) = Some (X ++ [extend (fresh x) (x :: m)])
    /\ Forall (fun J => in_id J < i) X
    /\ x :: m = filter (fun e => le_inst e =? i) (sub_les k (file_les (N.of_nat (length fs1)) a))
    /\ Forall (fun a' => has_inst k i a' = false) fs1
    /\ Forall (fun a' => has_inst k i a' = false) fs2.
Proof.
  intros Hf Hb Hmax.
  apply filter_single in Hf as (fs1 & fs2 & -> & H1 & H2 & Ha).
  apply forallb_negb_Forall in H1. apply forallb_negb_Forall in H2.
  set (n1 := N.of_nat (length fs1)).
  rewrite <- (sub_les_insts k n1 a) in Hb.
  apply one_block_split in Hb as (l1 & x & m & l2 & Hsub & Hl1 & Hm & Hl2).
  exists fs1, fs2, x, m.
  assert (Hall : sub_les k (all_les 0 (fs1 ++ a :: fs2))
                 = (sub_les k (all_les 0 fs1) ++ l1) ++ (x :: m) ++ (l2 ++ sub_les k (all_les (n1 + 1) fs2))).
  { rewrite all_les_app. cbn [all_les]. rewrite !sub_les_app. fold n1. rewrite N.add_0_l, Hsub.
    now rewrite <- !app_assoc. }
  assert (Hle : forall e, In e (sub_les k (all_les 0 (fs1 ++ a :: fs2))) -> le_inst e <= i).
  { intros e He. unfold sub_les in He. apply filter_In in He as [He Hk]. apply Hmax.
    - rewrite <- (all_les_recs _ 0). now apply in_map.
    - exact Hk. }
  assert (HS1 : Forall (fun y => le_inst y <> i) (sub_les k (all_les 0 fs1) ++ l1)).
  { apply Forall_app. split; [now apply has_inst_false_all | assumption]. }
  assert (HS2 : Forall (fun y => le_inst y <> i) (l2 ++ sub_les k (all_les (n1 + 1) fs2))).
  { apply Forall_app. split; [assumption | now apply has_inst_false_all]. }
  destruct (insts_of_block _ x m _ i HS1 Hm HS2) as (T1 & T2 & HT & HT1 & HT2).
  exists (sort_insts (rev T1 ++ rev T2)).
  split; [reflexivity|]. split; [|split; [|split; [|split; assumption]]].
  - rewrite lookup_finalize, lookup_build. fold (sub_les k (all_les 0 (fs1 ++ a :: fs2))).
    destruct (sub_les k (all_les 0 (fs1 ++ a :: fs2))) as [|e0 rest0] eqn:Esub.
    { exfalso. rewrite Hall in Esub. destruct (sub_les k (all_les 0 fs1) ++ l1); discriminate. }
    cbn [dflt lookup option_map]. rewrite Hall, HT. f_equal.
    rewrite rev_app_distr. cbn [rev]. rewrite <- app_assoc. cbn [app].
    assert (Hid : in_id (extend (fresh x) (x :: m)) = i).
    { cbn [extend fresh in_id]. inversion Hm; assumption. }
    apply sort_max; apply Forall_forall; intros J HJ; apply in_rev in HJ; rewrite Hid.
    + destruct (HT1 J HJ) as (y & Hy & Ey). rewrite <- Ey.
      assert (le_inst y <= i) by (apply Hle; rewrite Hall; apply in_or_app; left; assumption).
      rewrite Forall_forall in HS1. specialize (HS1 y Hy). lia.
    + destruct (HT2 J HJ) as (y & Hy & Ey). rewrite <- Ey.
      assert (le_inst y <= i) by (apply Hle; rewrite Hall; apply in_or_app; right; apply in_or_app; right; assumption).
      rewrite Forall_forall in HS2. specialize (HS2 y Hy). lia.
  - apply sort_Forall. apply Forall_app. split; apply Forall_forall; intros J HJ; apply in_rev in HJ.
    + destruct (HT1 J HJ) as (y & Hy & Ey). rewrite <- Ey.
      assert (le_inst y <= i) by (apply Hle; rewrite Hall; apply in_or_app; left; assumption).
      rewrite Forall_forall in HS1. specialize (HS1 y Hy). lia.
    + destruct (HT2 J HJ) as (y & Hy & Ey). rewrite <- Ey.
      assert (le_inst y <= i) by (apply Hle; rewrite Hall; apply in_or_app; right; apply in_or_app; right; assumption).
      rewrite Forall_forall in HS2. specialize (HS2 y Hy). lia.
  - fold n1. rewrite Hsub. symmetry. apply filter_block.
    + eapply Forall_impl; [|exact Hl1]. intros y Hy. now apply N.eqb_neq.
    + eapply Forall_impl; [|exact Hm]. intros y Hy. now apply N.eqb_eq.
    + eapply Forall_impl; [|exact Hl2]. intros y Hy. now apply N.eqb_neq.
Qed.

(** * Reading the chunks of an index entry *)

Lemma read_chunks_app b c1 c2 :
  read_chunks b (c1 ++ c2) =
  match read_chunks b c1, read_chunks b c2 with
  | Some x, Some y => Some (x ++ y)
  | _, _ => None
  end.
Proof.
  induction c1 as [|c c1 IH]; cbn [app read_chunks].
  - destruct (read_chunks b c2); reflexivity.
  - destruct (read_chunk b c); [|reflexivity]. rewrite IH.
    destruct (read_chunks b c1); [|reflexivity]. destruct (read_chunks b c2); [|reflexivity].
    now rewrite app_assoc.
Qed.

Lemma trunc32_small n : n < U32_LIMIT -> trunc32 n = n.
Proof. intros H. unfold trunc32. now apply N.mod_small. Qed.

Definition le_data (e : LE) : bytes := r_data (le_rec e).

(** every complete record reads back its data *)
Lemma read_located f (P : LE -> bool) recs : forall pre tail b,
  b = pre ++ render_recs recs ++ tail ->
  forallb rec_ok recs = true ->
  read_chunks b (map le_ci (filter P (with_file f (locate (lenN pre) recs))))
  = Some (concat (map le_data (filter P (with_file f (locate (lenN pre) recs))))).
Proof.
  unfold with_file.
  induction recs as [|r rs IH]; intros pre tail b Hb Hok; [reflexivity|].
  cbn [forallb] in Hok. apply andb_true_iff in Hok as [Hr Hok].
  pose proof Hr as Hr'. apply rec_ok_fields in Hr' as (Hh & Hs & Hc & Hz).
  cbn [locate map fst snd].
  assert (Hb' : b = (pre ++ enc_chunk_header (r_hdr r) ++ r_data r) ++ render_recs rs ++ tail).
  { rewrite Hb, render_recs_cons. now rewrite <- !app_assoc. }
  assert (Hl : lenN pre + lenN (enc_chunk_header (r_hdr r)) + rec_size r
               = lenN (pre ++ enc_chunk_header (r_hdr r) ++ r_data r)).
  { rewrite !lenN_app, Hs. lia. }
  specialize (IH _ tail b Hb' Hok). rewrite <- Hl in IH.
  cbn [filter]. destruct (P _) eqn:EP; [|exact IH].
  cbn [map read_chunks concat]. rewrite IH.
  assert (Hrd : read_chunk b (le_ci (f, lenN pre + lenN (enc_chunk_header (r_hdr r)), r)) = Some (r_data r)).
  { unfold read_chunk, le_ci, le_pos, le_size, le_rec. cbn [fst snd ci_pos ci_size].
    rewrite trunc32_small by assumption.
    replace b with ((pre ++ enc_chunk_header (r_hdr r)) ++ r_data r ++ render_recs rs ++ tail)
      by (rewrite Hb, render_recs_cons; now rewrite <- !app_assoc).
    rewrite <- lenN_app, dropN_app, Hs, takeN_app. reflexivity. }
  rewrite Hrd. reflexivity.
Qed.

Lemma read_torn pre r d :
  lenN d < rec_size r -> rec_size r < U32_LIMIT ->
  read_chunk (pre ++ enc_chunk_header (r_hdr r) ++ d)
             (mkCI (lenN pre + lenN (enc_chunk_header (r_hdr r))) (trunc32 (rec_size r))) = None.
Proof.
  intros Hd Hz. unfold read_chunk. cbn [ci_pos ci_size]. rewrite trunc32_small by assumption.
  rewrite app_assoc, <- lenN_app, dropN_app, takeN_short; [reflexivity | assumption].
Qed.

Lemma locate_app a : forall pos b,
  forallb rec_ok a = true ->
  locate pos (a ++ b) = locate pos a ++ locate (pos + lenN (render_recs a)) b.
Proof.
  induction a as [|r a IH]; intros pos b Hok.
  - simpl. now rewrite N.add_0_r.
  - cbn [forallb] in Hok. apply andb_true_iff in Hok as [Hr Hok].
    apply rec_ok_fields in Hr as (_ & Hs & _ & _).
    cbn [app locate]. rewrite IH by assumption. cbn [app]. f_equal. f_equal. f_equal.
    rewrite render_recs_cons, !lenN_app, Hs. lia.
Qed.

Lemma with_file_app f a b : with_file f (a ++ b) = with_file f a ++ with_file f b.
Proof. apply map_app. Qed.

(** the chunks selected by [P] among the headers of one file: all complete ones read back, a
    selected torn one makes the read fail *)
Lemma read_file_chunks b a f (P : LE -> bool) :
  file_repr b a ->
  read_chunks b (map le_ci (filter P (file_les f a)))
  = match filter P (with_file f (locate (hdr_len a + lenN (render_recs (af_recs a))) (opt_list (torn_rec a)))) with
    | [] => Some (concat (map le_data (filter P (with_file f (locate (hdr_len a) (af_recs a))))))
    | _ :: _ => None
    end.
Proof.
  intros (tail & Hb & Ht & Hh & Hr & Hlim).
  unfold file_les. rewrite afile_seen_eq, locate_app by assumption.
  rewrite with_file_app, filter_app, map_app, read_chunks_app.
  unfold render_file in Hb. rewrite <- app_assoc in Hb.
  unfold hdr_len. rewrite (read_located f P (af_recs a) (enc_file_header (af_hdr a)) tail b Hb Hr).
  destruct Ht as [t Ht | r d Hrok Hd].
  - cbn [opt_list locate with_file map filter read_chunks]. now rewrite app_nil_r.
  - cbn [opt_list locate with_file map filter fst snd].
    destruct (P _) eqn:EP; [|cbn [map read_chunks]; now rewrite app_nil_r].
    cbn [map read_chunks].
    apply rec_ok_fields in Hrok as (_ & _ & _ & Hz).
    replace (read_chunk b _) with (@None bytes); [reflexivity|]. symmetry.
    unfold le_ci, le_pos, le_size, le_rec. cbn [fst snd].
    rewrite Hb. rewrite app_assoc, <- lenN_app. apply read_torn; assumption.
Qed.

(** * Largest instance *)

Definition max_step (k : key) (acc : option N) (r : Rec) : option N :=
  if of_task k r then match acc with Some m => Some (N.max m (rec_inst r)) | None => Some (rec_inst r) end else acc.

Lemma max_fold k recs : forall acc i,
  fold_left (max_step k) recs acc = Some i ->
  (forall m, acc = Some m -> m <= i)
  /\ (forall r, In r recs -> of_task k r = true -> rec_inst r <= i)
  /\ (acc = Some i \/ exists r, In r recs /\ of_inst k i r = true).
Proof.
  induction recs as [|r recs IH]; intros acc i H.
  - cbn in H. subst acc. split; [intros m E; injection E as ->; lia|]. split; [intros r []|]. left; reflexivity.
  - cbn [fold_left] in H. apply IH in H as (Ha & Hr & Hex). unfold max_step in *.
    destruct (of_task k r) eqn:Ek.
    + destruct acc as [m|].
      * split; [intros m' E; injection E as <-; specialize (Ha _ eq_refl); lia|].
        split.
        -- intros r' [<-|Hin] Hk; [specialize (Ha _ eq_refl); lia | auto].
        -- destruct Hex as [E|(r' & Hin & Hr')].
           ++ injection E as E. destruct (N.max_spec m (rec_inst r)) as [[_ Em]|[_ Em]]; rewrite Em in E.
              ** right. exists r. split; [left; reflexivity|]. unfold of_inst. now rewrite Ek, E, N.eqb_refl.
              ** left. now f_equal.
           ++ right. exists r'. split; [right; assumption | assumption].
      * split; [discriminate|]. split.
        -- intros r' [<-|Hin] Hk; [specialize (Ha _ eq_refl); lia | auto].
        -- destruct Hex as [E|(r' & Hin & Hr')].
           ++ injection E as E. right. exists r. split; [left; reflexivity|]. unfold of_inst. now rewrite Ek, E, N.eqb_refl.
           ++ right. exists r'. split; [right; assumption | assumption].
    + split; [exact Ha|]. split.
      * intros r' [<-|Hin] Hk; [congruence | auto].
      * destruct Hex as [E|(r' & Hin & Hr')]; [left; assumption | right; exists r'; split; [right; assumption | assumption]].
Qed.

Lemma max_inst_spec k recs i :
  max_inst k recs = Some i ->
  (forall r, In r recs -> of_task k r = true -> rec_inst r <= i)
  /\ exists r, In r recs /\ of_inst k i r = true.
Proof.
  intros H. apply (max_fold k recs None i) in H as (_ & Hr & [E|Hex]); [discriminate | auto].
Qed.

(** * Files without headers of instance [i] contribute nothing *)

Lemma no_inst_recs k i a r : has_inst k i a = false -> In r (afile_seen a) -> of_inst k i r = false.
Proof.
  unfold has_inst. intros H Hin. destruct (of_inst k i r) eqn:E; [|reflexivity].
  assert (existsb (of_inst k i) (afile_seen a) = true) by (apply existsb_exists; eauto). congruence.
Qed.

Lemma is_data_of_inst k i ch r : is_data k i ch r = true -> of_inst k i r = true.
Proof. unfold is_data. intros H. apply andb_true_iff in H as [H _]. now apply andb_true_iff in H as [H _]. Qed.

Lemma no_inst_files k i ch fs :
  Forall (fun a => has_inst k i a = false) fs ->
  filter (is_data k i ch) (all_complete fs) = []
  /\ existsb (is_data k i ch) (torn_recs fs) = false
  /\ existsb (fun r => of_inst k i r && (rec_size r =? 0)) (all_seen fs) = false.
Proof.
  induction 1 as [|a fs Ha _ (IH1 & IH2 & IH3)]; [repeat split|].
  change (all_complete (a :: fs)) with (af_recs a ++ all_complete fs).
  change (all_seen (a :: fs)) with (afile_seen a ++ all_seen fs).
  change (torn_recs (a :: fs)) with (match af_torn a with Some (r, _) => [r] | None => [] end ++ torn_recs fs).
  rewrite filter_app, !existsb_app, IH1, IH2, IH3.
  assert (Hc : forall r, In r (af_recs a) -> of_inst k i r = false).
  { intros r Hr. apply (no_inst_recs k i a r Ha). rewrite afile_seen_eq. apply in_or_app. now left. }
  assert (Ht : forall r, In r (opt_list (torn_rec a)) -> of_inst k i r = false).
  { intros r Hr. apply (no_inst_recs k i a r Ha). rewrite afile_seen_eq. apply in_or_app. now right. }
  split; [|split].
  - rewrite app_nil_r. clear - Hc. induction (af_recs a) as [|r l IH]; [reflexivity|]. cbn [filter].
    destruct (is_data k i ch r) eqn:E.
    + apply is_data_of_inst in E. rewrite Hc in E by (left; reflexivity). discriminate.
    + apply IH. intros r' Hr'. apply Hc. now right.
  - rewrite orb_false_r. unfold torn_rec in Ht. destruct (af_torn a) as [[r d]|]; [|reflexivity].
    cbn [existsb]. rewrite orb_false_r. destruct (is_data k i ch r) eqn:E; [|reflexivity].
    apply is_data_of_inst in E. rewrite Ht in E by (left; reflexivity). discriminate.
  - rewrite orb_false_r. apply not_true_is_false. intros E. apply existsb_exists in E as (r & Hr & E).
    apply andb_true_iff in E as [E _]. rewrite (no_inst_recs k i a r Ha Hr) in E. discriminate.
Qed.

Lemma all_seen_app fs1 fs2 : all_seen (fs1 ++ fs2) = all_seen fs1 ++ all_seen fs2.
Proof. apply flat_map_app. Qed.
Lemma all_complete_app fs1 fs2 : all_complete (fs1 ++ fs2) = all_complete fs1 ++ all_complete fs2.
Proof. apply flat_map_app. Qed.
Lemma torn_recs_app fs1 fs2 : torn_recs (fs1 ++ fs2) = torn_recs fs1 ++ torn_recs fs2.
Proof. apply flat_map_app. Qed.

Lemma filter_filter' {A} (p q : A -> bool) l : filter p (filter q l) = filter (fun x => p x && q x) l.
Proof.
  induction l as [|x l IH]; [reflexivity|]. cbn [filter]. destruct (q x); cbn [filter].
  - rewrite andb_true_r. destruct (p x); now rewrite IH.
  - rewrite andb_false_r. exact IH.
Qed.

Lemma existsb_filter {A} (p q : A -> bool) l : existsb p (filter q l) = existsb (fun x => p x && q x) l.
Proof.
  induction l as [|x l IH]; [reflexivity|]. cbn [filter existsb]. destruct (q x); cbn [existsb].
  - now rewrite andb_true_r, IH.
  - now rewrite andb_false_r, IH.
Qed.

Lemma existsb_map {A B} (f : A -> B) (p : B -> bool) l : existsb p (map f l) = existsb (fun x => p (f x)) l.
Proof. induction l as [|x l IH]; [reflexivity|]. cbn [map existsb]. now rewrite IH. Qed.

Lemma existsb_ext {A} (p q : A -> bool) l : (forall x, p x = q x) -> existsb p l = existsb q l.
Proof. intros H. induction l as [|x l IH]; [reflexivity|]. cbn [existsb]. now rewrite H, IH. Qed.

Lemma file_les_file f a e : In e (file_les f a) -> le_file e = f.
Proof.
  unfold file_les, with_file. intros H. apply in_map_iff in H as (pr & <- & _). reflexivity.
Qed.

Lemma file_repr_chan b a : file_repr b a -> forall r, In r (afile_seen a) -> rec_chan r < 2 /\ rec_size r < U32_LIMIT.
Proof.
  intros (tail & _ & Ht & _ & Hr & _) r Hin. rewrite afile_seen_eq in Hin. apply in_app_or in Hin as [Hin|Hin].
  - rewrite forallb_forall in Hr. apply Hr in Hin. apply rec_ok_fields in Hin. tauto.
  - destruct Ht as [t Ht | r' d Hrok Hd]; [destruct Hin|]. destruct Hin as [<-|[]].
    apply rec_ok_fields in Hrok. tauto.
Qed.

(** * Main theorem: index entry and bytes of the last instance *)

Definition selq (k : key) (i ch : N) (e : LE) : bool := is_data k i ch (le_rec e).

Lemma lookup_existsb k idx v : lookup k idx = Some v -> existsb (fun kv => fst (fst kv) =? fst k) idx = true.
Proof.
  induction idx as [|[k' v'] r IH]; [discriminate|]. cbn [lookup existsb fst].
  destruct (key_eqb k k') eqn:E.
  - intros _. apply key_eqb_eq in E. subst. now rewrite N.eqb_refl.
  - intros H. rewrite IH by assumption. apply orb_true_r.
Qed.

Lemma Forall2_len {A B} (R : A -> B -> Prop) l1 l2 : Forall2 R l1 l2 -> length l1 = length l2.
Proof. induction 1; simpl; congruence. Qed.

Theorem read_last bs fs k ch :
  Forall2 file_repr bs fs -> last_contig fs k = true -> ch < 2 ->
  exists idx X R i,
    create_index bs = ROk idx
    /\ max_inst k (all_seen fs) = Some i
    /\ lookup k idx = Some (X ++ [R])
    /\ Forall (fun J => in_id J < i) X
    /\ in_id R = i
    /\ in_fin R = spec_fin fs k
    /\ read_inst (mkLog bs idx) R ch = spec_read fs k ch.
Proof.
  intros HF Hc Hch. unfold last_contig in Hc.
  destruct (max_inst k (all_seen fs)) as [i|] eqn:Emax; [|discriminate].
  unfold inst_contig in Hc. destruct (filter (has_inst k i) fs) as [|a [|? ?]] eqn:Ef; try discriminate.
  destruct (max_inst_spec _ _ _ Emax) as (Hmax & _).
  destruct (task_entry fs k i a Ef Hc Hmax) as (fs1 & fs2 & x & m & X & Hfs & Hlk & HX & HM & H1 & H2).
  set (n1 := N.of_nat (length fs1)) in *.
  exists (finalize (build (all_les 0 fs) [])), X, (extend (fresh x) (x :: m)), i.
  split; [now apply create_index_spec|]. split; [reflexivity|]. split; [exact Hlk|]. split; [exact HX|].
  (* the block *)
  assert (HMin : forall e, In e (x :: m) -> In e (file_les n1 a) /\ key_eqb k (le_key e) = true /\ le_inst e = i).
  { intros e He. rewrite HM in He. apply filter_In in He as [He Ei]. unfold sub_les in He.
    apply filter_In in He as [He Ek]. apply N.eqb_eq in Ei. auto. }
  assert (Hx : le_inst x = i /\ le_file x = n1).
  { destruct (HMin x (or_introl eq_refl)) as (Hin & _ & Ei). split; [assumption | now apply file_les_file in Hin]. }
  split; [cbn [extend fresh in_id]; tauto|].
  (* the file *)
  subst fs. apply Forall2_app_inv_r in HF as (bs1 & bs2' & HF1 & HF2 & ->).
  inversion HF2 as [|b ? bs2 ? Hb HF3]; subst. clear HF2.
  assert (Hnth : nth_error (bs1 ++ b :: bs2) (N.to_nat n1) = Some b).
  { unfold n1. rewrite Nat2N.id, <- (Forall2_len _ _ _ HF1). rewrite nth_error_app2 by lia.
    now rewrite Nat.sub_diag. }
  pose proof (file_repr_chan b a Hb) as Hcs.
  destruct (no_inst_files k i ch fs1 H1) as (A1 & B1 & C1).
  destruct (no_inst_files k i ch fs2 H2) as (A2 & B2 & C2).
  split.
  - (* finished flag *)
    unfold spec_fin. rewrite Emax. unfold spec_finished.
    rewrite all_seen_app. change (all_seen (a :: fs2)) with (afile_seen a ++ all_seen fs2).
    rewrite !existsb_app, C1, C2, orb_false_r. cbn [orb].
    cbn [extend fresh in_fin orb]. unfold has_end. rewrite HM.
    unfold sub_les. rewrite filter_filter', existsb_filter.
    rewrite <- (file_les_recs n1 a), existsb_map. apply existsb_ext. intros e.
    unfold of_inst, of_task, le_size, le_inst, le_key, le_rec.
    destruct (rec_size (snd e) =? 0); destruct (rec_inst (snd e) =? i); destruct (key_eqb k (rec_key (snd e))); reflexivity.
  - (* bytes *)
    unfold read_inst. cbn [lg_paths]. replace (in_file (extend (fresh x) (x :: m))) with n1 by (cbn; symmetry; tauto).
    rewrite Hnth.
    assert (Hcc : chan_chunks (extend (fresh x) (x :: m)) ch = map le_ci (filter (selq k i ch) (file_les n1 a))).
    { assert (Hsel : filter (fun e => (0 <? le_size e) && (le_chan e =? ch)) (x :: m) = filter (selq k i ch) (file_les n1 a)).
      { rewrite HM. unfold sub_les. rewrite !filter_filter'. apply filter_ext. intros e.
        unfold selq, is_data, of_inst, of_task, le_size, le_chan, le_inst, le_key, le_rec.
        destruct (0 <? rec_size (snd e)); destruct (rec_chan (snd e) =? ch); destruct (rec_inst (snd e) =? i);
          destruct (key_eqb k (rec_key (snd e))); reflexivity. }
      rewrite <- Hsel. unfold chan_chunks, extend, fresh. cbn [in_c0 in_c1 app].
      destruct (N.eqb_spec ch 0) as [->|Hn0]; [reflexivity|].
      assert (ch = 1) by lia. subst ch. unfold chunks1. f_equal. apply filter_ext_in. intros e He.
      destruct (HMin e He) as (Hin & _ & _).
      assert (Hr : In (le_rec e) (afile_seen a)) by (rewrite <- (file_les_recs n1 a); now apply in_map).
      destruct (Hcs _ Hr) as [Hc2 _]. unfold le_chan.
      destruct (N.eqb_spec (rec_chan (le_rec e)) 0); destruct (N.eqb_spec (rec_chan (le_rec e)) 1); try reflexivity; lia. }
    rewrite Hcc, (read_file_chunks b a n1 (selq k i ch) Hb).
    unfold spec_read. rewrite Emax.
    rewrite torn_recs_app. change (torn_recs (a :: fs2)) with (match af_torn a with Some (r, _) => [r] | None => [] end ++ torn_recs fs2).
    rewrite !existsb_app, B1, B2, orb_false_r. cbn [orb].
    unfold spec_bytes. rewrite all_complete_app. change (all_complete (a :: fs2)) with (af_recs a ++ all_complete fs2).
    rewrite !filter_app, A1, A2, app_nil_r. cbn [app].
    assert (Hcomp : concat (map le_data (filter (selq k i ch) (with_file n1 (locate (hdr_len a) (af_recs a)))))
                    = concat (map r_data (filter (is_data k i ch) (af_recs a)))).
    { f_equal. unfold le_data. rewrite <- (map_map le_rec r_data). unfold selq.
      rewrite (map_filter_comm le_rec (is_data k i ch)). f_equal. f_equal.
      unfold with_file, le_rec. rewrite map_map. cbn [snd]. apply locate_recs. }
    unfold torn_rec. destruct (af_torn a) as [[r d]|]; cbn [option_map opt_list fst locate with_file map filter existsb].
    + unfold selq at 1. cbn [le_rec snd]. rewrite orb_false_r. destruct (is_data k i ch r); [reflexivity|].
      now rewrite Hcomp.
    + now rewrite Hcomp.
Qed.

(** * [OutputLog::open] on a directory of stream files of one server *)

Definition hqs_ents (bs : list bytes) : list DirEnt := map (mkDE true) bs.

Lemma file_repr_header b a : file_repr b a -> exists rest n, check_header b = DOk (af_hdr a) rest n.
Proof.
  intros (tail & -> & _ & Hh & _). unfold render_file. rewrite <- app_assoc.
  rewrite check_header_enc by assumption. eauto.
Qed.

Lemma uid_mem_self u : uid_mem u [u] = true.
Proof. unfold uid_mem. cbn [existsb]. now rewrite bytes_eqb_refl. Qed.

Lemma open_scan_ok u bs : forall fs found uids paths,
  Forall2 file_repr bs fs -> Forall (fun a => fh_uid (af_hdr a) = u) fs ->
  uids = [] \/ uids = [u] ->
  exists uids', (uids' = [] \/ uids' = [u])
    /\ open_scan (hqs_ents bs) None found uids paths = (found || negb (match bs with [] => true | _ => false end), uids', paths ++ bs).
Proof.
  induction bs as [|b bs IH]; intros fs found uids paths HF Hu Hids.
  - exists uids. split; [assumption|]. cbn. now rewrite orb_false_r, app_nil_r.
  - inversion HF as [|? a ? fs' Hb HF']; subst. inversion Hu as [|? ? Ha Hu']; subst.
    cbn [hqs_ents map open_scan de_hqs de_bytes]. destruct (file_repr_header b a Hb) as (rest & n & ->).
    fold (hqs_ents bs).
    destruct (IH fs' true (if uid_mem (fh_uid (af_hdr a)) uids then uids else uids ++ [fh_uid (af_hdr a)]) (paths ++ [b]) HF' Hu')
      as (uids' & Hids' & ->).
    { destruct Hids as [->| ->]; [right; reflexivity|]. rewrite uid_mem_self. right; reflexivity. }
    exists uids'. split; [assumption|]. rewrite <- app_assoc. cbn [app]. now rewrite orb_true_r.
Qed.

Lemma open_spec u bs fs :
  Forall2 file_repr bs fs -> Forall (fun a => fh_uid (af_hdr a) = u) fs -> bs <> [] ->
  open (hqs_ents bs) None = rbind (create_index bs) (fun idx => ROk (mkLog bs idx)).
Proof.
  intros HF Hu Hne. unfold open.
  destruct (open_scan_ok u bs fs false [] [] HF Hu (or_introl eq_refl)) as (uids' & Hids & ->).
  destruct bs; [congruence|]. cbn [orb negb app].
  destruct Hids as [->| ->]; reflexivity.
Qed.

(** a file whose header is cut is skipped by [open] *)
Lemma open_scan_skip b r filter found uids paths :
  check_header b = DEof ->
  open_scan (mkDE true b :: r) filter found uids paths = open_scan r filter true uids paths.
Proof. intros H. cbn [open_scan de_hqs de_bytes]. now rewrite H. Qed.

(** * The reader on a directory: result per task and channel *)

Theorem reader_spec u bs fs job task ch :
  Forall2 file_repr bs fs -> Forall (fun a => fh_uid (af_hdr a) = u) fs ->
  last_contig fs (job, task) = true -> ch < 2 ->
  exists lg X R i,
    open (hqs_ents bs) None = ROk lg
    /\ max_inst (job, task) (all_seen fs) = Some i
    /\ lookup (job, task) (lg_index lg) = Some (X ++ [R])
    /\ gather (lg_index lg) job task = ROk R
    /\ superseded (X ++ [R]) = X
    /\ Forall (fun J => in_id J < i) X
    /\ in_id R = i
    /\ in_fin R = spec_fin fs (job, task)
    /\ read_channel lg job task ch = spec_read fs (job, task) ch.
Proof.
  intros HF Hu Hc Hch.
  destruct (read_last bs fs (job, task) ch HF Hc Hch) as (idx & X & R & i & Hci & Hmax & Hlk & HX & Hid & Hfin & Hrd).
  assert (Hne : bs <> []).
  { intros ->. inversion HF; subst. unfold last_contig in Hc. cbn in Hc. discriminate. }
  exists (mkLog bs idx), X, R, i.
  rewrite (open_spec u bs fs HF Hu Hne), Hci. cbn [rbind lg_index].
  pose proof (lookup_existsb (job, task) idx _ Hlk) as He. cbn [fst] in He.
  assert (Hg : gather idx job task = ROk R).
  { unfold gather. rewrite He, Hlk. unfold last_instance. now rewrite last_opt_snoc. }
  repeat split; try assumption.
  - unfold superseded. apply removelast_last.
  - unfold read_channel, cat, cat_tasks. cbn [lg_index].
    rewrite He. cbn [negb gather_all]. rewrite Hg. cbn [rbind andb].
    cbn [read_all]. rewrite Hrd. destruct (spec_read fs (job, task) ch); cbn [rbind]; [now rewrite app_nil_r | reflexivity | reflexivity].
Qed.

(** * Complete files: round trip *)

Definition WF := (FileHeader * list Rec)%type.
Definition wf_bytes (w : WF) : bytes := render_file (fst w) (snd w).
Definition wf_afile (w : WF) : AFile := mkAF (fst w) (snd w) None.
Definition wf_ok (w : WF) : Prop :=
  file_header_ok (fst w) = true /\ forallb rec_ok (snd w) = true /\ lenN (wf_bytes w) + U32_LIMIT < I64_LIMIT.

Lemma wf_repr w : wf_ok w -> file_repr (wf_bytes w) (wf_afile w).
Proof.
  intros (Hh & Hr & Hl). exists []. unfold wf_bytes, wf_afile. cbn [af_hdr af_recs].
  rewrite app_nil_r. repeat split; try assumption. constructor. reflexivity.
Qed.

Lemma wf_repr_all ws : Forall wf_ok ws -> Forall2 file_repr (map wf_bytes ws) (map wf_afile ws).
Proof. induction 1; cbn [map]; constructor; [now apply wf_repr | assumption]. Qed.

Lemma torn_recs_complete ws : torn_recs (map wf_afile ws) = [].
Proof. induction ws as [|w ws IH]; [reflexivity|]. cbn [map torn_recs flat_map]. exact IH. Qed.

Definition all_recs (ws : list WF) : list Rec := flat_map snd ws.

Lemma all_seen_complete ws : all_seen (map wf_afile ws) = all_recs ws /\ all_complete (map wf_afile ws) = all_recs ws.
Proof.
  induction ws as [|w ws [IH1 IH2]]; [split; reflexivity|].
  cbn [map all_seen all_complete all_recs flat_map]. fold (all_seen (map wf_afile ws)). fold (all_complete (map wf_afile ws)).
  fold (all_recs ws). rewrite IH1, IH2. unfold afile_seen, wf_afile. cbn [af_recs af_torn]. now rewrite app_nil_r.
Qed.

Theorem roundtrip u ws job task ch :
  Forall wf_ok ws -> Forall (fun w => fh_uid (fst w) = u) ws ->
  last_contig (map wf_afile ws) (job, task) = true -> ch < 2 ->
  exists lg X R i,
    open (hqs_ents (map wf_bytes ws)) None = ROk lg
    /\ max_inst (job, task) (all_recs ws) = Some i
    /\ gather (lg_index lg) job task = ROk R /\ in_id R = i
    /\ in_fin R = spec_finished (job, task) i (all_recs ws)
    /\ read_channel lg job task ch = ROk (spec_bytes (job, task) i ch (all_recs ws))
    /\ lookup (job, task) (lg_index lg) = Some (X ++ [R]) /\ superseded (X ++ [R]) = X
    /\ Forall (fun J => in_id J < i) X.
Proof.
  intros Hok Hu Hc Hch.
  assert (Hu' : Forall (fun a => fh_uid (af_hdr a) = u) (map wf_afile ws)).
  { apply Forall_forall. intros a Ha. apply in_map_iff in Ha as (w & <- & Hw). rewrite Forall_forall in Hu. now apply Hu. }
  destruct (reader_spec u _ _ job task ch (wf_repr_all ws Hok) Hu' Hc Hch)
    as (lg & X & R & i & Ho & Hmax & Hlk & Hg & Hsup & HX & Hid & Hfin & Hrd).
  destruct (all_seen_complete ws) as [Es Ec].
  exists lg, X, R, i. rewrite Es in Hmax.
  unfold spec_fin in Hfin. rewrite Es, Hmax in Hfin.
  unfold spec_read in Hrd. rewrite Es, Hmax, torn_recs_complete, Ec in Hrd. cbn [existsb] in Hrd.
  repeat split; assumption.
Qed.

(** * A file cut at any byte offset *)

Lemma firstnN_app_less a b n : n <= lenN a -> firstnN n (a ++ b) = firstnN n a.
Proof.
  revert n. induction a as [|x a IH]; intros n H.
  - rewrite lenN_nil in H. replace n with 0 by lia. now rewrite !firstnN_0.
  - destruct (N.eqb_spec n 0) as [->|Hn]; [now rewrite !firstnN_0|].
    rewrite lenN_cons in H. replace n with (N.succ (N.pred n)) by lia. simpl app.
    rewrite !firstnN_succ, IH by lia. reflexivity.
Qed.

Lemma cut_recs_spec recs : forall n,
  forallb rec_ok recs = true ->
  exists tail,
    firstnN n (render_recs recs) = render_recs (fst (cut_recs n recs)) ++ tail
    /\ tail_ok tail (option_map fst (snd (cut_recs n recs)))
    /\ forallb rec_ok (fst (cut_recs n recs)) = true.
Proof.
  induction recs as [|r recs IH]; intros n Hok.
  - exists []. cbn [cut_recs fst snd option_map forallb]. change (render_recs []) with (@nil N). rewrite firstnN_nil.
    repeat split. constructor. reflexivity.
  - cbn [forallb] in Hok. apply andb_true_iff in Hok as [Hr Hok].
    pose proof Hr as Hr'. apply rec_ok_fields in Hr' as (Hh & Hs & Hc & Hz).
    cbn [cut_recs]. rewrite render_recs_cons.
    set (hl := lenN (enc_chunk_header (r_hdr r))). set (dl := lenN (r_data r)).
    destruct (N.leb_spec (hl + dl) n) as [Hle|Hlt].
    + destruct (IH (n - (hl + dl)) Hok) as (tail & E & Ht & Hc').
      destruct (cut_recs (n - (hl + dl)) recs) as [c t] eqn:Ecut. cbn [fst snd] in *.
      exists tail. split; [|split; [assumption | cbn [forallb]; now rewrite Hr, Hc']].
      rewrite render_recs_cons, <- !app_assoc.
      replace n with (lenN (enc_chunk_header (r_hdr r) ++ r_data r) + (n - (hl + dl))) at 1
        by (rewrite lenN_app; unfold hl, dl; lia).
      rewrite (app_assoc (enc_chunk_header (r_hdr r))), firstnN_app_more, E. now rewrite <- !app_assoc.
    + destruct (N.leb_spec hl n) as [Hh2|Hh2]; cbn [fst snd option_map render_recs concat map app].
      * exists (enc_chunk_header (r_hdr r) ++ firstnN (n - hl) (r_data r)). split; [|split; [|reflexivity]].
        -- replace n with (lenN (enc_chunk_header (r_hdr r)) + (n - hl)) at 1 by (unfold hl; lia).
           rewrite firstnN_app_more. f_equal. apply firstnN_app_less. unfold dl in Hlt. lia.
        -- constructor; [assumption|]. destruct (firstnN_prefix (n - hl) (r_data r)) as (q & _ & Hl).
           rewrite Hl, Hs. unfold dl in Hlt. lia.
      * exists (firstnN n (enc_chunk_header (r_hdr r))). split; [|split; [|reflexivity]].
        -- apply firstnN_app_less. unfold hl in Hh2. lia.
        -- constructor. destruct (firstnN_prefix n (enc_chunk_header (r_hdr r))) as (q & Hq & Hl).
           apply (dec_chunk_header_prefix (r_hdr r) _ q Hh Hq).
           intros ->. rewrite app_nil_r in Hq. rewrite <- Hq in Hl. unfold hl in Hh2. lia.
Qed.

(** cut at or after the file header: the reader sees [cut_file]'s abstract file *)
Theorem cut_file_repr w n a :
  wf_ok w -> cut_file (fst w) (snd w) n = Some a -> file_repr (firstnN n (wf_bytes w)) a.
Proof.
  intros (Hh & Hr & Hl) Hcut. unfold cut_file in Hcut.
  destruct (N.ltb_spec n (lenN (enc_file_header (fst w)))) as [|Hn]; [discriminate|].
  destruct (cut_recs_spec (snd w) (n - lenN (enc_file_header (fst w))) Hr) as (tail & E & Ht & Hc).
  destruct (cut_recs (n - lenN (enc_file_header (fst w))) (snd w)) as [c t] eqn:Ecut.
  injection Hcut as <-. cbn [fst snd] in *.
  unfold wf_bytes, render_file in *.
  assert (Eq : firstnN n (enc_file_header (fst w) ++ render_recs (snd w))
               = (enc_file_header (fst w) ++ render_recs c) ++ tail).
  { replace n with (lenN (enc_file_header (fst w)) + (n - lenN (enc_file_header (fst w)))) at 1 by lia.
    rewrite firstnN_app_more, E. now rewrite app_assoc. }
  assert (Hlen : lenN (firstnN n (enc_file_header (fst w) ++ render_recs (snd w)))
                 <= lenN (enc_file_header (fst w) ++ render_recs (snd w))).
  { destruct (firstnN_prefix n (enc_file_header (fst w) ++ render_recs (snd w))) as (q & _ & Hq). rewrite Hq. lia. }
  exists tail. cbn [af_hdr af_recs]. rewrite Eq in *.
  split; [reflexivity|]. split; [exact Ht|]. split; [assumption|]. split; [assumption|]. lia.
Qed.

(** cut inside the file header: [check_header] fails with EOF, [open] skips the file *)
Theorem cut_file_header w n :
  wf_ok w -> cut_file (fst w) (snd w) n = None -> check_header (firstnN n (wf_bytes w)) = DEof.
Proof.
  intros (Hh & _ & _) Hcut. unfold cut_file in Hcut.
  destruct (N.ltb_spec n (lenN (enc_file_header (fst w)))) as [Hn|].
  2:{ destruct (cut_recs _ _); discriminate. }
  unfold wf_bytes, render_file. rewrite firstnN_app_less by lia.
  destruct (firstnN_prefix n (enc_file_header (fst w))) as (q & Hq & Hl).
  apply (check_header_prefix (fst w) _ q Hh Hq). intros ->. rewrite app_nil_r in Hq. rewrite <- Hq in Hl. lia.
Qed.

(** The torn-file theorem: one writer file cut at ANY byte offset [n] (the others complete, any
    order): the reader does not fail; for every task whose largest surviving instance is
    contiguous it returns per channel exactly the data of the surviving complete chunks of that
    instance, or an I/O error if the cut chunk belongs to that instance and channel - never
    other bytes; the finished flag is the presence of a surviving end marker. *)
Theorem torn_file u ws1 w ws2 n a job task ch :
  Forall wf_ok (ws1 ++ w :: ws2) -> Forall (fun w => fh_uid (fst w) = u) (ws1 ++ w :: ws2) ->
  cut_file (fst w) (snd w) n = Some a ->
  let fs := map wf_afile ws1 ++ a :: map wf_afile ws2 in
  let bs := map wf_bytes ws1 ++ firstnN n (wf_bytes w) :: map wf_bytes ws2 in
  last_contig fs (job, task) = true -> ch < 2 ->
  exists lg X R i,
    open (hqs_ents bs) None = ROk lg
    /\ max_inst (job, task) (all_seen fs) = Some i
    /\ gather (lg_index lg) job task = ROk R /\ in_id R = i
    /\ in_fin R = spec_fin fs (job, task)
    /\ read_channel lg job task ch = spec_read fs (job, task) ch
    /\ lookup (job, task) (lg_index lg) = Some (X ++ [R]) /\ superseded (X ++ [R]) = X
    /\ Forall (fun J => in_id J < i) X.
Proof.
  intros Hok Hu Hcut fs bs Hc Hch.
  apply Forall_app in Hok as [Hok1 Hok2]. inversion Hok2 as [|? ? Hw Hok3]; subst.
  apply Forall_app in Hu as [Hu1 Hu2]. inversion Hu2 as [|? ? Huw Hu3]; subst.
  assert (HF : Forall2 file_repr bs fs).
  { apply Forall2_app; [now apply wf_repr_all|]. constructor; [now apply cut_file_repr | now apply wf_repr_all]. }
  assert (Hua : fh_uid (af_hdr a) = fh_uid (fst w)).
  { unfold cut_file in Hcut. destruct (_ <? _); [discriminate|]. destruct (cut_recs _ _). now injection Hcut as <-. }
  assert (Hu' : Forall (fun a => fh_uid (af_hdr a) = fh_uid (fst w)) fs).
  { apply Forall_app. split; [|constructor; [assumption|]];
      apply Forall_forall; intros a' Ha'; apply in_map_iff in Ha' as (w' & <- & Hw'); cbn [wf_afile af_hdr].
    - rewrite Forall_forall in Hu1. now apply Hu1.
    - rewrite Forall_forall in Hu3. now apply Hu3. }
  destruct (reader_spec _ bs fs job task ch HF Hu' Hc Hch)
    as (lg & X & R & i & Ho & Hmax & Hlk & Hg & Hsup & HX & Hid & Hfin & Hrd).
  exists lg, X, R, i. repeat split; assumption.
Qed.
