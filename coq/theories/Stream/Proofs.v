(** C19: the reader on the bytes of (possibly cut) writer files returns, per task and channel,
    exactly what the largest instance wrote (or an I/O error for a torn chunk). *)
From HQ Require Import Base.Prelude Gen.Consts Stream.Model Stream.Codec Stream.Index Stream.Runs.
Require Import ZifyBool ZifyN ZifyNat.
Open Scope N_scope.

Arguments N.add : simpl never.
Arguments N.sub : simpl never.
Arguments N.mul : simpl never.
Arguments N.eqb : simpl never.
Arguments N.ltb : simpl never.
Arguments N.leb : simpl never.
Arguments N.of_nat : simpl never.

(** * Directory files and their abstract content *)

Definition torn_rec (a : AFile) : option Rec := option_map fst (af_torn a).

Lemma afile_seen_eq a : afile_seen a = af_recs a ++ opt_list (torn_rec a).
Proof. unfold afile_seen, torn_rec. destruct (af_torn a) as [[r d]|]; reflexivity. Qed.

(** [b] are the bytes of a file whose readable content is [a] *)
Definition file_repr (b : bytes) (a : AFile) : Prop :=
  exists tail,
    b = render_file (af_hdr a) (af_recs a) ++ tail
    /\ tail_ok tail (torn_rec a)
    /\ file_header_ok (af_hdr a) = true
    /\ forallb rec_ok (af_recs a) = true
    /\ lenN b + U32_LIMIT < I64_LIMIT.

Definition hdr_len (a : AFile) : N := lenN (enc_file_header (af_hdr a)).

Definition file_les (fidx : N) (a : AFile) : list LE := with_file fidx (locate (hdr_len a) (afile_seen a)).

Fixpoint all_les (n : N) (fs : list AFile) : list LE :=
  match fs with
  | [] => []
  | a :: r => file_les n a ++ all_les (n + 1) r
  end.

Lemma scan_file_spec b a fidx idx :
  file_repr b a -> scan_file fidx b idx = ROk (build (file_les fidx a) idx).
Proof.
  intros (tail & -> & Ht & Hh & Hr & Hb). unfold scan_file, render_file.
  rewrite <- app_assoc. rewrite check_header_enc by assumption.
  unfold file_les. rewrite afile_seen_eq. apply scan_spec; try assumption.
  - lia.
  - unfold render_file in Hb. rewrite <- app_assoc, lenN_app in Hb. unfold hdr_len. lia.
Qed.

Lemma index_files_spec bs : forall fs n idx,
  Forall2 file_repr bs fs -> index_files n bs idx = ROk (build (all_les n fs) idx).
Proof.
  induction bs as [|b bs IH]; intros fs n idx H; inversion H as [|? a ? fs' Hb Hbs]; subst.
  - reflexivity.
  - cbn [index_files all_les]. rewrite (scan_file_spec b a) by assumption. cbn [rbind].
    rewrite (IH fs') by assumption. now rewrite build_app.
Qed.

Lemma lookup_finalize k idx :
  lookup k (finalize idx) = option_map (fun v => sort_insts (rev v)) (lookup k idx).
Proof.
  induction idx as [|[k' v] r IH]; [reflexivity|]. cbn [finalize map lookup fst snd].
  destruct (key_eqb k k'); [reflexivity | exact IH].
Qed.

Lemma create_index_spec bs fs :
  Forall2 file_repr bs fs -> create_index bs = ROk (finalize (build (all_les 0 fs) [])).
Proof. intros H. unfold create_index. now rewrite (index_files_spec bs fs). Qed.

(** * The headers of one task *)

Definition sub_les (k : key) (les : list LE) : list LE := filter (fun e => key_eqb k (le_key e)) les.

Lemma sub_les_app k a b : sub_les k (a ++ b) = sub_les k a ++ sub_les k b.
Proof. apply filter_app. Qed.

Lemma locate_recs pos recs : map snd (locate pos recs) = recs.
Proof. revert pos. induction recs as [|r rs IH]; intros; [reflexivity|]. cbn [locate map snd]. now rewrite IH. Qed.

Lemma file_les_recs n a : map le_rec (file_les n a) = afile_seen a.
Proof.
  unfold file_les, with_file, le_rec. rewrite map_map. cbn [snd].
  rewrite <- (locate_recs (hdr_len a) (afile_seen a)) at 2. reflexivity.
Qed.

Lemma map_filter_comm {A B} (f : A -> B) (p : B -> bool) l :
  map f (filter (fun x => p (f x)) l) = filter p (map f l).
Proof. induction l as [|x l IH]; [reflexivity|]. cbn [filter map]. destruct (p (f x)); cbn [map]; now rewrite IH. Qed.

Lemma sub_les_recs k n a : map le_rec (sub_les k (file_les n a)) = filter (of_task k) (afile_seen a).
Proof.
  unfold sub_les. rewrite <- file_les_recs with (n := n).
  rewrite <- (map_filter_comm le_rec (of_task k)). reflexivity.
Qed.

Lemma sub_les_insts k n a : map le_inst (sub_les k (file_les n a)) = proj_insts k (afile_seen a).
Proof.
  unfold proj_insts. rewrite <- sub_les_recs with (n := n), map_map. reflexivity.
Qed.

(** splitting a list around the block of elements with [f x = i] *)
Lemma one_block_split {A} (f : A -> N) i (l : list A) :
  one_block i (map f l) = true ->
  exists l1 x m l2, l = l1 ++ (x :: m) ++ l2
    /\ Forall (fun y => f y <> i) l1 /\ Forall (fun y => f y = i) (x :: m) /\ Forall (fun y => f y <> i) l2.
Proof.
  induction l as [|x l IH]; cbn [map one_block]; [discriminate|].
  destruct (N.eqb_spec (f x) i) as [E|E].
  - intros H. apply negb_true_iff in H.
    clear IH. revert H. generalize (@nil A). intros _.
    assert (G : forall l, existsb (N.eqb i) (drop_eq i (map f l)) = false ->
                exists m l2, l = m ++ l2 /\ Forall (fun y => f y = i) m /\ Forall (fun y => f y <> i) l2).
    { clear. induction l as [|y l IH]; cbn [map drop_eq]; intros H.
      - exists [], []. repeat split; constructor.
      - destruct (N.eqb_spec (f y) i) as [E|E].
        + destruct (IH H) as (m & l2 & -> & Hm & H2). exists (y :: m), l2. repeat split; auto.
        + exists [], (y :: l). repeat split; [constructor|].
          cbn [existsb] in H. apply orb_false_iff in H as [_ H].
          constructor; [assumption|]. clear - H. induction l as [|z l IH]; [constructor|].
          cbn [map existsb] in H. apply orb_false_iff in H as [H1 H2].
          constructor; [apply N.eqb_neq in H1; congruence | auto]. }
    intros H. destruct (G l H) as (m & l2 & -> & Hm & H2).
    exists [], x, m, l2. repeat split; auto.
  - intros H. destruct (IH H) as (l1 & y & m & l2 & -> & H1 & Hm & H2).
    exists (x :: l1), y, m, l2. repeat split; auto.
Qed.

Lemma filter_single {A} (p : A -> bool) l a :
  filter p l = [a] ->
  exists l1 l2, l = l1 ++ a :: l2 /\ forallb (fun x => negb (p x)) l1 = true
                /\ forallb (fun x => negb (p x)) l2 = true /\ p a = true.
Proof.
  induction l as [|x l IH]; cbn [filter]; [discriminate|]. destruct (p x) eqn:E.
  - intros H. injection H as -> H. exists [], l. repeat split; auto.
    clear - H. induction l as [|y l IH]; [reflexivity|]. cbn [filter] in H. destruct (p y) eqn:E; [discriminate|].
    cbn [forallb]. rewrite E. auto.
  - intros H. destruct (IH H) as (l1 & l2 & -> & H1 & H2 & Ha). exists (x :: l1), l2.
    repeat split; auto. cbn [forallb]. now rewrite E, H1.
Qed.

Lemma all_les_app fs1 : forall n fs2,
  all_les n (fs1 ++ fs2) = all_les n fs1 ++ all_les (n + N.of_nat (length fs1)) fs2.
Proof.
  induction fs1 as [|a fs1 IH]; intros n fs2.
  - simpl. now rewrite N.add_0_r.
  - cbn [app all_les length]. rewrite IH, <- app_assoc.
    replace (n + N.of_nat (S (length fs1))) with (n + 1 + N.of_nat (length fs1)) by lia. reflexivity.
Qed.

Lemma all_les_recs fs : forall n, map le_rec (all_les n fs) = all_seen fs.
Proof.
  induction fs as [|a fs IH]; intros n; [reflexivity|].
  cbn [all_les all_seen flat_map]. rewrite map_app, file_les_recs, IH. reflexivity.
Qed.

Lemma has_inst_false_sub k i n a :
  has_inst k i a = false -> Forall (fun e => le_inst e <> i) (sub_les k (file_les n a)).
Proof.
  intros H. apply Forall_forall. intros e He. unfold sub_les in He. apply filter_In in He as [He Hk].
  unfold has_inst in H. assert (Hr : In (le_rec e) (afile_seen a)).
  { rewrite <- file_les_recs with (n := n). now apply in_map. }
  intros E. assert (X : existsb (of_inst k i) (afile_seen a) = true).
  { apply existsb_exists. exists (le_rec e). split; [assumption|].
    unfold of_inst, of_task, le_key, le_rec, le_inst in *. rewrite Hk, E, N.eqb_refl. reflexivity. }
  congruence.
Qed.

Lemma has_inst_false_all k i fs : forall n,
  Forall (fun a => has_inst k i a = false) fs -> Forall (fun e => le_inst e <> i) (sub_les k (all_les n fs)).
Proof.
  induction fs as [|a fs IH]; intros n H; [constructor|]. inversion H; subst.
  cbn [all_les]. rewrite sub_les_app. apply Forall_app. split; [now apply has_inst_false_sub | now apply IH].
Qed.

Lemma forallb_negb_Forall {A} (p : A -> bool) l :
  forallb (fun x => negb (p x)) l = true -> Forall (fun x => p x = false) l.
Proof.
  intros H. apply Forall_forall. intros x Hx. rewrite forallb_forall in H. specialize (H x Hx).
  now apply negb_true_iff in H.
Qed.

Lemma match_nonempty {A B} (p : list A) x q (u v : B) l :
  l = p ++ x :: q -> match l with [] => u | _ :: _ => v end = v.
Proof. intros ->. destruct p; reflexivity. Qed.

Lemma filter_block {A} (p : A -> bool) l1 m l2 :
  Forall (fun y => p y = false) l1 -> Forall (fun y => p y = true) m -> Forall (fun y => p y = false) l2 ->
  filter p (l1 ++ m ++ l2) = m.
Proof.
  intros H1 Hm H2. rewrite !filter_app.
  assert (F : forall l, Forall (fun y => p y = false) l -> filter p l = []).
  { induction 1 as [|y l Hy _ IH]; [reflexivity|]. cbn [filter]. now rewrite Hy. }
  assert (T : forall l, Forall (fun y => p y = true) l -> filter p l = l).
  { induction 1 as [|y l Hy _ IH]; [reflexivity|]. cbn [filter]. now rewrite Hy, IH. }
  rewrite (F l1), (F l2), (T m) by assumption. now rewrite app_nil_r.
Qed.

(** the index entry of task [k] when the headers of instance [i] form one block in one file *)
Lemma task_entry fs k i a :
  filter (has_inst k i) fs = [a] ->
  one_block i (proj_insts k (afile_seen a)) = true ->
  (forall r, In r (all_seen fs) -> of_task k r = true -> rec_inst r <= i) ->
  exists fs1 fs2 x m X,
    fs = fs1 ++ a :: fs2
    /\ lookup k (finalize (build (all_les 0 fs) [])) = Some (X ++ [extend (fresh x) (x :: m)])
    /\ Forall (fun J => in_id J < i) X
    /\ x :: m = filter (fun e => le_inst e =? i) (sub_les k (file_les (N.of_nat (length fs1)) a))
    /\ Forall (fun a' => has_inst k i a' = false) fs1
    /\ Forall (fun a' => has_inst k i a' = false) fs2.
Proof.
  intros Hf Hb Hmax.
  apply filter_single in Hf as (fs1 & fs2 & -> & H1 & H2 & Ha).
  apply forallb_negb_Forall in H1. apply forallb_negb_Forall in H2.
  set (n1 := N.of_nat (length fs1)).
  rewrite <- (sub_les_insts k n1 a) in Hb.
  apply one_block_split in Hb as (l1 & x & m & l2 & Hsub & Hl1 & Hm & Hl2).
  exists fs1, fs2, x, m.
  assert (Hall : sub_les k (all_les 0 (fs1 ++ a :: fs2))
                 = (sub_les k (all_les 0 fs1) ++ l1) ++ (x :: m) ++ (l2 ++ sub_les k (all_les (n1 + 1) fs2))).
  { rewrite all_les_app. cbn [all_les]. rewrite !sub_les_app. fold n1. rewrite N.add_0_l, Hsub.
    now rewrite <- !app_assoc. }
  assert (Hle : forall e, In e (sub_les k (all_les 0 (fs1 ++ a :: fs2))) -> le_inst e <= i).
  { intros e He. unfold sub_les in He. apply filter_In in He as [He Hk]. apply Hmax.
    - rewrite <- (all_les_recs _ 0). now apply in_map.
    - exact Hk. }
  assert (HS1 : Forall (fun y => le_inst y <> i) (sub_les k (all_les 0 fs1) ++ l1)).
  { apply Forall_app. split; [now apply has_inst_false_all | assumption]. }
  assert (HS2 : Forall (fun y => le_inst y <> i) (l2 ++ sub_les k (all_les (n1 + 1) fs2))).
  { apply Forall_app. split; [assumption | now apply has_inst_false_all]. }
  destruct (insts_of_block _ x m _ i HS1 Hm HS2) as (T1 & T2 & HT & HT1 & HT2).
  exists (sort_insts (rev T1 ++ rev T2)).
  split; [reflexivity|]. split; [|split; [|split; [|split; assumption]]].
  - rewrite lookup_finalize, lookup_build. fold (sub_les k (all_les 0 (fs1 ++ a :: fs2))).
    destruct (sub_les k (all_les 0 (fs1 ++ a :: fs2))) as [|e0 rest0] eqn:Esub.
    { exfalso. rewrite Hall in Esub. destruct (sub_les k (all_les 0 fs1) ++ l1); discriminate. }
    cbn [dflt lookup option_map]. rewrite Hall, HT. f_equal.
    rewrite rev_app_distr. cbn [rev]. rewrite <- app_assoc. cbn [app].
    assert (Hid : in_id (extend (fresh x) (x :: m)) = i).
    { cbn [extend fresh in_id]. inversion Hm; assumption. }
    apply sort_max; apply Forall_forall; intros J HJ; apply in_rev in HJ; rewrite Hid.
    + destruct (HT1 J HJ) as (y & Hy & Ey). rewrite <- Ey.
      assert (le_inst y <= i) by (apply Hle; rewrite Hall; apply in_or_app; left; assumption).
      rewrite Forall_forall in HS1. specialize (HS1 y Hy). lia.
    + destruct (HT2 J HJ) as (y & Hy & Ey). rewrite <- Ey.
      assert (le_inst y <= i) by (apply Hle; rewrite Hall; apply in_or_app; right; apply in_or_app; right; assumption).
      rewrite Forall_forall in HS2. specialize (HS2 y Hy). lia.
  - apply sort_Forall. apply Forall_app. split; apply Forall_forall; intros J HJ; apply in_rev in HJ.
    + destruct (HT1 J HJ) as (y & Hy & Ey). rewrite <- Ey.
      assert (le_inst y <= i) by (apply Hle; rewrite Hall; apply in_or_app; left; assumption).
      rewrite Forall_forall in HS1. specialize (HS1 y Hy). lia.
    + destruct (HT2 J HJ) as (y & Hy & Ey). rewrite <- Ey.
      assert (le_inst y <= i) by (apply Hle; rewrite Hall; apply in_or_app; right; apply in_or_app; right; assumption).
      rewrite Forall_forall in HS2. specialize (HS2 y Hy). lia.
  - fold n1. rewrite Hsub. symmetry. apply filter_block.
    + eapply Forall_impl; [|exact Hl1]. intros y Hy. now apply N.eqb_neq.
    + eapply Forall_impl; [|exact Hm]. intros y Hy. now apply N.eqb_eq.
    + eapply Forall_impl; [|exact Hl2]. intros y Hy. now apply N.eqb_neq.
Qed.
