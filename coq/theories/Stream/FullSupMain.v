(** C19, the superseded report at full strength: theorem [superseded_full]
    (= the statement [C19_superseded_full] of properties/C19.v, verbatim), see [FullSup]. *)
From HQ Require Import Base.Prelude Gen.Consts Stream.Model Stream.Codec Stream.Index Stream.Runs Stream.Proofs
  Stream.Examples Stream.FullSup.
Require Import ZifyBool ZifyN ZifyNat Sorted.
Open Scope N_scope.

Arguments N.add : simpl never.
Arguments N.sub : simpl never.
Arguments N.mul : simpl never.
Arguments N.eqb : simpl never.
Arguments N.ltb : simpl never.
Arguments N.leb : simpl never.
Arguments N.of_nat : simpl never.

(** * What [open] returns *)

Lemma open_log u bs fs lg :
  Forall2 file_repr bs fs -> Forall (fun a => fh_uid (af_hdr a) = u) fs ->
  open (hqs_ents bs) None = ROk lg -> lg = mkLog bs (finalize (build (all_les 0 fs) [])).
Proof.
  intros HF Hu Ho.
  assert (Hne : bs <> []) by (intros ->; cbn in Ho; discriminate).
  rewrite (open_spec u bs fs HF Hu Hne), (create_index_spec bs fs HF) in Ho. cbn [rbind] in Ho.
  now injection Ho as <-.
Qed.

Lemma lookup_insts k A insts :
  lookup k (finalize (build A [])) = Some insts ->
  sub_les k A <> [] /\ insts = sort_insts (rev (insts_of (sub_les k A) [])).
Proof.
  rewrite lookup_finalize, lookup_build. fold (sub_les k A).
  destruct (sub_les k A) as [|e r]; cbn [lookup option_map dflt]; [discriminate|].
  intros E. injection E as <-. split; [discriminate | reflexivity].
Qed.

(** * The index entry of a task all of whose instances are contiguous *)

(** The sorted instance list has exactly one entry per instance id, in strictly increasing id
    order ending with the largest id, and every entry carries per channel exactly the announced
    sizes of that instance's data headers. *)
Theorem all_contig_entry u bs fs job task lg insts :
  Forall2 file_repr bs fs -> Forall (fun a => fh_uid (af_hdr a) = u) fs ->
  all_contig fs (job, task) = true ->
  open (hqs_ents bs) None = ROk lg -> lookup (job, task) (lg_index lg) = Some insts ->
  exists m,
    max_inst (job, task) (all_seen fs) = Some m
    /\ map in_id insts = other_insts fs (job, task) ++ [m]
    /\ StronglySorted N.lt (map in_id insts)
    /\ forall J, In J insts ->
         channel_size J 0 = spec_size (job, task) (in_id J) 0 (all_seen fs)
         /\ channel_size J 1 = spec_size (job, task) (in_id J) 1 (all_seen fs).
Proof.
  intros HF Hu Hc Ho Hlk. set (k := (job, task)) in *.
  rewrite (open_log u bs fs lg HF Hu Ho) in Hlk. cbn [lg_index] in Hlk.
  apply lookup_insts in Hlk as (Hne & ->).
  pose proof (all_contig_blk fs k Hc) as Hblk.
  pose proof (sub_all_insts k fs 0) as HP.
  set (A := all_les 0 fs) in *. set (l := sub_les k A) in *.
  destruct (insts_all_blk l Hblk) as (Hnd & HJ & Hcov).
  set (T := insts_of l []) in *.
  (* the largest instance *)
  destruct (max_inst k (all_seen fs)) as [m|] eqn:Emax.
  2:{ exfalso. destruct l as [|e l'] eqn:El; [congruence|].
      assert (He : In e (sub_les k A)) by (fold l; rewrite El; left; reflexivity).
      unfold sub_les in He. apply filter_In in He as [He Hk].
      assert (Hr : In (le_rec e) (all_seen fs)).
      { rewrite <- (all_les_recs fs 0). now apply in_map. }
      pose proof (max_inst_none k _ Emax _ Hr) as X. unfold of_task in X.
      unfold le_key, le_rec in *. congruence. }
  destruct (max_inst_spec _ _ _ Emax) as (Hmax & rm & Hrm & Hrmi).
  exists m. split; [reflexivity|].
  assert (HPm : forall x, In x (proj_insts k (all_seen fs)) -> x <= m).
  { intros x Hx. apply proj_insts_In in Hx as (r & Hr & Hk & <-). now apply Hmax. }
  assert (Hm_in : In m (proj_insts k (all_seen fs))).
  { apply proj_insts_In. exists rm. unfold of_inst in Hrmi. apply andb_true_iff in Hrmi as [Hk Hi].
    apply N.eqb_eq in Hi. auto. }
  destruct (others_spec m (proj_insts k (all_seen fs))) as (HOs & HOm).
  assert (Hsort : sortN (map in_id (rev T)) = others m (proj_insts k (all_seen fs)) ++ [m]).
  { apply ssorted_unique.
    - apply sortN_sorted. rewrite map_rev. now apply NoDup_rev.
    - apply ssorted_snoc; [assumption|]. apply Forall_forall. intros x Hx. apply HOm in Hx as [Hx Hn].
      specialize (HPm x Hx). lia.
    - intros x. rewrite sortN_In, map_rev, <- in_rev, in_app_iff, HOm. cbn [In]. split.
      + intros Hx. apply in_map_iff in Hx as (J & <- & HJin). destruct (HJ J HJin) as ((e & He & Ee) & _).
        destruct (N.eq_dec (in_id J) m) as [E|E]; [right; left; now symmetry|].
        left. split; [|assumption]. rewrite <- Ee, <- HP. now apply in_map.
      + intros [[Hx _]|[<-|[]]].
        * rewrite <- HP in Hx. apply in_map_iff in Hx as (e & <- & He). now apply Hcov.
        * rewrite <- HP in Hm_in. apply in_map_iff in Hm_in as (e & <- & He). now apply Hcov. }
  rewrite other_insts_eq, Emax, map_id_sort, Hsort.
  split; [reflexivity|]. split.
  { apply ssorted_snoc; [assumption|]. apply Forall_forall. intros x Hx. apply HOm in Hx as [Hx Hn].
    specialize (HPm x Hx). lia. }
  intros J HJin. apply sort_ids in HJin. apply in_rev in HJin.
  destruct (HJ J HJin) as (_ & E0 & E1).
  assert (Hb : forall e, In e A -> le_chan e < 2 /\ le_size e < U32_LIMIT).
  { intros e He. apply (all_seen_bounds bs fs HF). rewrite <- (all_les_recs fs 0). now apply in_map. }
  destruct (sizes_spec k (in_id J) A Hb) as [S0 S1]. fold l in S0, S1.
  unfold A in S0, S1. rewrite all_les_recs in S0, S1.
  change (channel_size J 0) with (chunks_size (in_c0 J)).
  change (channel_size J 1) with (chunks_size (in_c1 J)).
  rewrite E0, E1. split; assumption.
Qed.

(** * The theorem: statement [C19_superseded_full] of properties/C19.v *)

Theorem superseded_full : forall u bs fs job task lg insts,
  Forall2 file_repr bs fs -> Forall (fun a => fh_uid (af_hdr a) = u) fs ->
  all_contig fs (job, task) = true ->
  open (hqs_ents bs) None = ROk lg -> lookup (job, task) (lg_index lg) = Some insts ->
  map (fun J => (in_id J, channel_size J 0, channel_size J 1)) (superseded insts)
  = map (fun i => (i, spec_size (job, task) i 0 (all_seen fs), spec_size (job, task) i 1 (all_seen fs)))
        (other_insts fs (job, task)).
Proof.
  intros u bs fs job task lg insts HF Hu Hc Ho Hlk.
  destruct (all_contig_entry u bs fs job task lg insts HF Hu Hc Ho Hlk) as (m & Emax & Hids & _ & Hsz).
  unfold superseded.
  transitivity (map (fun i => (i, spec_size (job, task) i 0 (all_seen fs), spec_size (job, task) i 1 (all_seen fs)))
                    (map in_id (removelast insts))).
  - rewrite map_map. apply map_ext_in. intros J HJ. apply in_removelast in HJ.
    destruct (Hsz J HJ) as [-> ->]. reflexivity.
  - f_equal. rewrite map_removelast, Hids. apply removelast_last.
Qed.

(** ... and the reported instance is the remaining entry: the whole entry list is the superseded
    instances followed by the largest one (no [last_contig] hypothesis needed: it is implied). *)
Corollary superseded_full_last : forall u bs fs job task lg insts,
  Forall2 file_repr bs fs -> Forall (fun a => fh_uid (af_hdr a) = u) fs ->
  all_contig fs (job, task) = true ->
  open (hqs_ents bs) None = ROk lg -> lookup (job, task) (lg_index lg) = Some insts ->
  exists R m, insts = superseded insts ++ [R] /\ last_instance insts = ROk R
    /\ max_inst (job, task) (all_seen fs) = Some m /\ in_id R = m
    /\ Forall (fun J => in_id J < m) (superseded insts)
    /\ length (superseded insts) = length (other_insts fs (job, task)).
Proof.
  intros u bs fs job task lg insts HF Hu Hc Ho Hlk.
  destruct (all_contig_entry u bs fs job task lg insts HF Hu Hc Ho Hlk) as (m & Emax & Hids & Hs & _).
  destruct (exists_last (l := insts)) as (X & R & ->).
  { intros ->. cbn in Hids. destruct (other_insts fs (job, task)); discriminate. }
  exists R, m. unfold superseded, last_instance. rewrite removelast_last, last_opt_snoc.
  rewrite map_app in Hids, Hs. cbn [map] in Hids, Hs.
  apply app_inj_tail in Hids as [HX HR].
  repeat split; try assumption.
  - rewrite <- HR. clear - Hs. induction X as [|J X IH]; [constructor|]. cbn [map app] in Hs.
    inversion Hs as [|? ? Hs' HF]; subst. constructor; [|now apply IH].
    rewrite Forall_forall in HF. apply HF. apply in_or_app. right. left. reflexivity.
  - rewrite <- HX. now rewrite map_length.
Qed.

(** Non-vacuity: the hypotheses hold on a directory with two files, two instances of task 1/0
    (one superseded), interleaving with another task; the superseded report is non-empty and is
    what the theorem says. *)
Example superseded_full_example :
  let fs := map wf_afile [wA; wB] in
  let bs := map wf_bytes [wA; wB] in
  Forall2 file_repr bs fs /\ Forall (fun a => fh_uid (af_hdr a) = [115; 114; 118]) fs
  /\ all_contig fs (1, 0) = true
  /\ other_insts fs (1, 0) = [1]
  /\ exists lg insts, open (hqs_ents bs) None = ROk lg /\ lookup (1, 0) (lg_index lg) = Some insts
       /\ map (fun J => (in_id J, channel_size J 0, channel_size J 1)) (superseded insts) = [(1, 2, 1)].
Proof.
  cbv zeta. split; [apply wf_repr_all; repeat constructor; vm_compute; reflexivity|].
  split; [repeat constructor|]. split; [vm_compute; reflexivity|]. split; [vm_compute; reflexivity|].
  eexists. eexists. split; [vm_compute; reflexivity|]. split; vm_compute; reflexivity.
Qed.

Print Assumptions superseded_full.
Print Assumptions superseded_full_last.
