(** C16 group count for WHOLE grants (several coupled entries at once): the monitor group-count
    ([group_count_ok]) as a theorem.
    - For every accepted answer of the solver, with or without coupling weights, whatever its objective: the groups
      claimed for a coupled entry are among the groups the answer selected for it, and
      min_groups(pool before) <= groups used <= groups selected.
    - For answers that select the minimum number of groups per entry: groups used = min_groups of the pool before
      (compact / tight), and for a grant with strict entries on a worker without coupling weights = min_groups of the
      EMPTY worker (compact! / tight!) - the lifting of C16_strict_sound / C16_optimal_is_minimal to whole grants. *)
From Coq Require Import Permutation.
From HQ Require Import Base.Prelude Gen.Consts Alloc.Model Alloc.Spec Alloc.Lemmas Alloc.Group Alloc.Pool Alloc.Inv Alloc.System Alloc.Mirror Alloc.Theorems Alloc.MirrorSystem Alloc.GroupsProofs Alloc.Admission Alloc.AllFree Alloc.Objective Alloc.Strict Alloc.Complete Alloc.CompleteTight Alloc.Examples
  Alloc.PolicyBase Alloc.PolicyGrant Alloc.PolicyAdmission Alloc.PolicyStrict Alloc.PolicyStrictReach Alloc.PolicyStrictYard
  Alloc.PolicyGCBase Alloc.PolicyGCClaim.
Require Import ZifyBool ZifyN ZifyNat.
Open Scope N_scope.
Arguments N.add : simpl never.
Arguments N.sub : simpl never.
Arguments N.mul : simpl never.
Arguments N.div : simpl never.
Arguments N.modulo : simpl never.
Arguments N.eqb : simpl never.
Arguments N.ltb : simpl never.
Arguments N.leb : simpl never.
Arguments N.of_nat : simpl never.
Arguments N.to_nat : simpl never.
Arguments sumN : simpl never.

(* ------------------------------------------------------------------------------------------ *)
(** * the two loops of claim_resources, for an arbitrary per-claim property *)

Section Loops.
  Variable before : list pool.
  Variable rq0 : request.
  Variable good : entry -> ralloc -> Prop.
  Variable mask_ok : entry -> mask -> Prop.
  Hypothesis Hdirect : forall e wit p p' ra,
    get_at before (e_res e) = Ok p -> is_groups p && is_relevant_for_coupling (e_req e) = false ->
    pool_claim p (e_res e) (e_req e) wit = Ok (p', ra) -> claim_ok p p' (e_res e) (e_req e) ra = true -> good e ra.
  Hypothesis Hcoupled : forall e m wit p p' ra,
    get_at before (e_res e) = Ok p -> mask_ok e m ->
    claim_with_group_mask p (e_res e) (e_req e) m wit = Ok (p', ra) -> claim_ok p p' (e_res e) (e_req e) ra = true -> good e ra.

  Definition served_by (ra : ralloc) : Prop := exists e, In e rq0 /\ e_res e = ra_res ra /\ good e ra.

  Lemma claim_direct_loop entries : forall pools w acc coupling pools' acc' coupling',
    incl entries rq0 ->
    NoDup (map e_res coupling ++ map e_res entries) ->
    (forall e, In e coupling \/ In e entries -> get_at pools (e_res e) = get_at before (e_res e)) ->
    Forall served_by acc ->
    claim_direct pools entries w acc coupling = Ok (pools', acc', coupling') ->
    Forall served_by acc' /\ NoDup (map e_res coupling')
    /\ (forall e, In e coupling' -> get_at pools' (e_res e) = get_at before (e_res e))
    /\ coupling' = coupling ++ filter (is_coupled before) entries.
  Proof.
    induction entries as [|e rest IH]; intros pools w acc coupling pools' acc' coupling' Hi1 Hnd Hun Hacc Hc; cbn [claim_direct] in Hc.
    - inversion Hc; subst. cbn [map filter] in *. rewrite app_nil_r in *. repeat split; auto.
    - assert (Hine : In e rq0) by (apply Hi1; left; auto).
      assert (Hi1' : incl rest rq0) by (intros x Hx; apply Hi1; right; auto).
      destruct (get_at pools (e_res e)) as [p| |] eqn:Eg; cbn [bind] in Hc; try discriminate.
      assert (Hgb : get_at before (e_res e) = Ok p) by (rewrite <- Hun; auto; right; left; auto).
      assert (Hcpl : is_coupled before e = is_groups p && is_relevant_for_coupling (e_req e)).
      { unfold is_coupled. apply get_at_ok in Hgb. destruct Hgb as [_ Hn]. rewrite Hn. reflexivity. }
      cbn [filter]. rewrite Hcpl.
      destruct (is_groups p && is_relevant_for_coupling (e_req e)) eqn:Ecp.
      + destruct (IH pools w acc (coupling ++ [e]) pools' acc' coupling') as (A & B & C & D); auto.
        * rewrite map_app. cbn [map]. rewrite <- app_assoc. exact Hnd.
        * intros e' [He'|He']; apply Hun; [|right; right; auto].
          apply in_app_or in He'. destruct He' as [He'|[He'|[]]]; [left; auto|subst; right; left; auto].
        * repeat split; auto. rewrite D, <- app_assoc. reflexivity.
      + unfold checked in Hc.
        destruct (pool_claim p (e_res e) (e_req e) (frac_wit w (e_res e))) as [[p' ra]| |] eqn:Epc; cbn [bind] in Hc; try discriminate.
        destruct (claim_ok p p' (e_res e) (e_req e) ra) eqn:Eok; try discriminate.
        pose proof (claim_ok_inv _ _ _ _ _ Eok) as (Hres & _).
        cbn [map] in Hnd. destruct (nodup_mid _ _ _ Hnd) as (Hnd' & Hn1 & Hn2).
        eapply IH; [| | | |exact Hc]; auto.
        * intros e' He'. rewrite get_at_set_at_other; [apply Hun; destruct He'; auto; right; right; auto|].
          intros Heq. destruct He' as [He'|He']; [apply Hn1|apply Hn2]; rewrite Heq; apply in_map; auto.
        * apply Forall_app. split; auto. constructor; [|constructor].
          exists e. split; auto. split; auto. eapply Hdirect; eauto.
  Qed.

  Lemma claim_coupled_loop coupling : forall pools masks w acc pools' acc',
    incl coupling rq0 -> NoDup (map e_res coupling) ->
    (forall e, In e coupling -> get_at pools (e_res e) = get_at before (e_res e)) ->
    Forall2 mask_ok coupling masks ->
    Forall served_by acc ->
    claim_coupled pools coupling masks w acc = Ok (pools', acc') ->
    Forall served_by acc'.
  Proof.
    induction coupling as [|e rest IH]; intros pools masks w acc pools' acc' Hi Hnd Hun Hm Hacc Hc; cbn [claim_coupled] in Hc.
    - inversion Hc; subst; auto.
    - inversion Hm as [|? m ? masks' Hm1 Hm2]; subst.
      assert (Hine : In e rq0) by (apply Hi; left; auto).
      assert (Hi' : incl rest rq0) by (intros x Hx; apply Hi; right; auto).
      destruct (get_at pools (e_res e)) as [p| |] eqn:Eg; cbn [bind] in Hc; try discriminate.
      assert (Hgb : get_at before (e_res e) = Ok p) by (rewrite <- Hun; auto; left; auto).
      unfold checked in Hc.
      destruct (claim_with_group_mask p (e_res e) (e_req e) m (frac_wit w (e_res e))) as [[p' ra]| |] eqn:Epc; cbn [bind] in Hc; try discriminate.
      destruct (claim_ok p p' (e_res e) (e_req e) ra) eqn:Eok; try discriminate.
      pose proof (claim_ok_inv _ _ _ _ _ Eok) as (Hres & _).
      cbn [map] in Hnd. inversion Hnd as [|? ? Hn1 Hnd']; subst.
      eapply IH; [| | | | |exact Hc]; auto.
      + intros e' He'. rewrite get_at_set_at_other; [apply Hun; right; auto|].
        intros Heq. apply Hn1. rewrite Heq. apply in_map. auto.
      + apply Forall_app. split; auto. constructor; [|constructor].
        exists e. split; auto. split; auto. eapply (Hcoupled e m); eauto.
  Qed.
End Loops.

Lemma group_solver_answer free entries ws tie ans masks o :
  group_solver free entries ws tie ans = Ok (Some (masks, o)) -> ans = Some masks.
Proof.
  destruct ans as [ms|]; intros H.
  - f_equal. symmetry. eapply group_solver_same; eauto.
  - unfold group_solver in H. destruct (solver_rows free entries); cbn [bind] in H; try discriminate.
    destruct (weights_objective entries _ ws []); cbn [bind] in H; try discriminate.
    destruct (masks_feasible _ _); discriminate.
Qed.

(** ResourceAllocator::claim_resources, for an arbitrary per-claim property *)
Theorem claim_resources_loop (good : entry -> ralloc -> Prop) (mask_ok : entry -> mask -> Prop) a rq w pools' al :
  (forall e wit p p' ra,
     get_at (a_pools a) (e_res e) = Ok p -> is_groups p && is_relevant_for_coupling (e_req e) = false ->
     pool_claim p (e_res e) (e_req e) wit = Ok (p', ra) -> claim_ok p p' (e_res e) (e_req e) ra = true -> good e ra) ->
  (forall e m wit p p' ra,
     get_at (a_pools a) (e_res e) = Ok p -> mask_ok e m ->
     claim_with_group_mask p (e_res e) (e_req e) m wit = Ok (p', ra) -> claim_ok p p' (e_res e) (e_req e) ra = true -> good e ra) ->
  NoDup (map e_res rq) ->
  (forall ms, w_mask w = Some ms -> length ms = length (coupled_entries (a_pools a) rq) ->
              Forall2 mask_ok (coupled_entries (a_pools a) rq) ms) ->
  claim_resources a rq w = Ok (pools', al) ->
  Forall (served_by rq good) al.
Proof.
  intros Hd Hcp Hnd Hmask Hc. unfold claim_resources in Hc.
  destruct (claim_direct (a_pools a) rq w [] []) as [[[pools acc] coupling]| |] eqn:Ed; cbn [bind] in Hc; try discriminate.
  destruct (claim_direct_loop (a_pools a) rq good Hd rq (a_pools a) w [] [] pools acc coupling) as (Hacc & Hndc & Hun & Hcoup); auto.
  { apply incl_refl. }
  cbn [app] in Hcoup. fold (coupled_entries (a_pools a) rq) in Hcoup.
  destruct coupling as [|e coupling].
  - inversion Hc; subst. auto.
  - destruct (group_solver (a_free a) (e :: coupling) (a_weights a) true (w_mask w)) as [[[masks obj]|]| |] eqn:Eg; cbn [bind] in Hc; try discriminate.
    destruct (claim_coupled pools (e :: coupling) masks w acc) as [[pools2 acc2]| |] eqn:Ec; cbn [bind] in Hc; try discriminate.
    inversion Hc; subst pools' al.
    eapply Permutation_Forall; [apply Permutation_sym, isort_perm|].
    eapply (claim_coupled_loop (a_pools a) rq good mask_ok Hcp); [| | | | |exact Ec]; eauto.
    + rewrite Hcoup. unfold coupled_entries. intros x Hx. apply filter_In in Hx. tauto.
    + rewrite Hcoup. apply Hmask; [eapply group_solver_answer; eauto|].
      rewrite <- Hcoup. eapply group_solver_len; eauto.
Qed.

(* ------------------------------------------------------------------------------------------ *)
(** * every accepted answer, coupling weights or not: claimed within selected *)

(** what holds for the resource allocation [ra] serving the coupled entry [e], relative to the answer [ms] *)
Definition within_selected (before : list pool) (cp : list entry) (ms : list mask) (e : entry) (ra : ralloc) : Prop :=
  is_coupled before e = true ->
  exists m k, In (e, m) (combine cp ms)
    /\ (forall g, In g (used (ra_indices ra)) -> In g m)
    /\ (let '(per, u, f) := ref_row before e in min_groups per u f = Some k)
    /\ k <= groups_used ra /\ groups_used ra <= len m.

Lemma Forall2_mono {A B} (R R' : A -> B -> Prop) l l' : (forall a b, R a b -> R' a b) -> Forall2 R l l' -> Forall2 R' l l'.
Proof. intros H. induction 1; constructor; auto. Qed.

Lemma Forall2_combine {A B} (l : list A) : forall (l' : list B), length l' = length l ->
  Forall2 (fun x y => In (x, y) (combine l l')) l l'.
Proof.
  induction l as [|x l IH]; intros [|y l'] H; cbn [length] in H; try discriminate; constructor.
  - left. reflexivity.
  - eapply Forall2_mono; [|apply IH; lia]. intros a b Hab. right. exact Hab.
Qed.

Theorem grant_claimed_within_selected : forall s rq w s' al,
  NoDup (map e_res rq) ->
  step s (OAlloc rq w) = Ok (s', OutGrant al) ->
  forall ms, (w_mask w = Some ms \/ (coupled_entries (a_pools (s_alloc s)) rq = [] /\ ms = [])) ->
  Forall (fun ra => exists e, In e rq /\ e_res e = ra_res ra
                              /\ within_selected (a_pools (s_alloc s)) (coupled_entries (a_pools (s_alloc s)) rq) ms e ra) al.
Proof.
  intros s rq w s' al Hnd Hs ms Hms. cbn [step] in Hs. unfold try_allocate in Hs.
  destruct (has_resources (s_alloc s) rq w) as [[ok yard]| |]; cbn [bind] in Hs; try discriminate.
  destruct ok; cbn [negb] in Hs; [|discriminate].
  destruct (claim_resources _ rq w) as [[pools al']| |] eqn:Ec; cbn [bind] in Hs; try discriminate.
  destruct (cf_remove (a_free (s_alloc s)) al') as [free'| |]; cbn [bind] in Hs; try discriminate.
  inversion Hs; subst. clear Hs.
  set (bp := a_pools (s_alloc s)) in *. set (cp := coupled_entries bp rq) in *.
  refine (claim_resources_loop (within_selected bp cp ms) (fun e m => In (e, m) (combine cp ms)) _ rq w _ _ _ _ Hnd _ Ec); cbn [a_pools]; fold bp.
  - intros e wit p p' ra Hg Hnc _ _ Hcpl. exfalso. unfold is_coupled in Hcpl.
    apply get_at_ok in Hg. destruct Hg as [_ Hn]. rewrite Hn, Hnc in Hcpl. discriminate.
  - intros e m wit p p' ra Hg Hin Hc Hok _.
    destruct (claim_mask_is_groups _ _ _ _ _ _ _ Hc) as (full & gs & pol & a & -> & Hreq). rewrite Hreq in *.
    destruct (claimed_between _ _ _ _ _ _ _ _ _ Hc Hok) as (k & Hk & H1 & H2).
    exists m, k. split; auto. split; [apply (claimed_subset_selected _ _ _ _ _ _ _ Hc)|].
    apply get_at_ok in Hg. destruct Hg as [_ Hn]. rewrite (ref_row_eq _ _ _ _ _ _ Hn Hreq). auto.
  - intros ms' Hw Hlen. fold cp in Hlen |- *. destruct Hms as [Hms|[Hnil ->]].
    + rewrite Hms in Hw. inversion Hw; subst ms'. apply Forall2_combine. auto.
    + fold cp in Hnil. rewrite Hnil in *. destruct ms'; [constructor|discriminate].
Qed.

(* ------------------------------------------------------------------------------------------ *)
(** * minimal answers: the monitor group-count *)

Definition mask_min (pools0 before : list pool) (e : entry) (m : mask) : Prop :=
  (let '(per, u, f) := ref_row before e in min_groups per u f = Some (len m))
  /\ (is_forced (e_req e) = true -> at_min pools0 before e = true).

Lemma gc_direct pools0 before e p ra :
  get_at before (e_res e) = Ok p -> is_groups p && is_relevant_for_coupling (e_req e) = false ->
  group_count_ok pools0 before e ra = true.
Proof.
  intros Hg Hnc. apply get_at_ok in Hg. destruct Hg as [_ Hn]. unfold group_count_ok. rewrite Hn.
  destruct (e_req e) as [pol a|]; [|reflexivity].
  destruct p; try reflexivity. destruct (nth_error pools0 (nat_of (e_res e))); [|reflexivity].
  destruct (split a). destruct pol; try reflexivity; discriminate Hnc.
Qed.

Lemma opt_eqb_eq a b : opt_eqb a b = true -> a = b.
Proof. destruct a, b; cbn [opt_eqb]; intros H; try discriminate; auto. apply N.eqb_eq in H. congruence. Qed.

Lemma gc_coupled pools0 before e m wit p p' ra :
  get_at before (e_res e) = Ok p -> mask_min pools0 before e m ->
  claim_with_group_mask p (e_res e) (e_req e) m wit = Ok (p', ra) -> claim_ok p p' (e_res e) (e_req e) ra = true ->
  group_count_ok pools0 before e ra = true.
Proof.
  intros Hg [Hmin Hat] Hc Hok.
  destruct (claim_mask_is_groups _ _ _ _ _ _ _ Hc) as (full & gs & pol & a & -> & Hreq). rewrite Hreq in *.
  apply get_at_ok in Hg. destruct Hg as [_ Hn]. rewrite (ref_row_eq _ _ _ _ _ _ Hn Hreq) in Hmin.
  destruct (claimed_eq_selected _ _ _ _ _ _ _ _ _ Hc Hok Hmin) as [Hused _].
  unfold group_count_ok. rewrite Hreq, Hn.
  destruct (nth_error pools0 (nat_of (e_res e))) as [p0|] eqn:E0; [|reflexivity].
  unfold at_min in Hat. rewrite Hreq, Hn, E0 in Hat.
  change (pool_per_group (PGroups full gs)) with (per_of gs) in *.
  destruct (split a) as [u f]. cbn [fst snd] in Hmin.
  destruct pol; try discriminate Hc.
  - rewrite Hmin. apply N.eqb_eq. auto.
  - rewrite Hmin. apply N.eqb_eq. auto.
  - specialize (Hat eq_refl). apply opt_eqb_eq in Hat. rewrite <- Hat, Hmin. apply N.eqb_eq. auto.
  - specialize (Hat eq_refl). apply opt_eqb_eq in Hat. rewrite <- Hat, Hmin. apply N.eqb_eq. auto.
Qed.

Lemma minimal_answer_masks pools0 before cp : forall ms,
  minimal_answer (map (ref_row before) cp) ms ->
  (forall e, In e cp -> is_forced (e_req e) = true -> at_min pools0 before e = true) ->
  Forall2 (mask_min pools0 before) cp ms.
Proof.
  induction cp as [|e cp IH]; intros [|m ms] Hmin Hat; cbn [map minimal_answer] in Hmin.
  - apply Forall2_nil.
  - contradiction.
  - destruct (ref_row before e) as [[per u] f]. contradiction.
  - destruct (ref_row before e) as [[per u] f] eqn:Er. destruct Hmin as [H1 H2].
    apply Forall2_cons.
    + split; [rewrite Er; exact H1 | intros Hf; apply Hat; auto; left; auto].
    + apply IH; auto. intros e' He'. apply Hat. right. auto.
Qed.

(** the monitor group-count for a grant, given that the strict entries are at their empty-worker minimum
    (every allocator state) *)
Theorem grant_group_count : forall pools0 s rq w s' al,
  NoDup (map e_res rq) ->
  (forall ms, w_mask w = Some ms ->
              minimal_answer (map (ref_row (a_pools (s_alloc s))) (coupled_entries (a_pools (s_alloc s)) rq)) ms) ->
  (forall e, In e (coupled_entries (a_pools (s_alloc s)) rq) -> is_forced (e_req e) = true ->
             at_min pools0 (a_pools (s_alloc s)) e = true) ->
  step s (OAlloc rq w) = Ok (s', OutGrant al) ->
  Forall (fun ra => exists e, In e rq /\ e_res e = ra_res ra /\ group_count_ok pools0 (a_pools (s_alloc s)) e ra = true) al.
Proof.
  intros pools0 s rq w s' al Hnd Hmin Hat Hs. cbn [step] in Hs. unfold try_allocate in Hs.
  destruct (has_resources (s_alloc s) rq w) as [[ok yard]| |]; cbn [bind] in Hs; try discriminate.
  destruct ok; cbn [negb] in Hs; [|discriminate].
  destruct (claim_resources _ rq w) as [[pools al']| |] eqn:Ec; cbn [bind] in Hs; try discriminate.
  destruct (cf_remove (a_free (s_alloc s)) al') as [free'| |]; cbn [bind] in Hs; try discriminate.
  inversion Hs; subst. clear Hs.
  refine (claim_resources_loop (fun e ra => group_count_ok pools0 (a_pools (s_alloc s)) e ra = true)
            (mask_min pools0 (a_pools (s_alloc s))) _ rq w _ _ _ _ Hnd _ Ec); cbn [a_pools].
  - intros e wit p p' ra Hg Hnc _ _. eapply gc_direct; eauto.
  - intros e m wit p p' ra Hg Hm Hc Hok. eapply gc_coupled; eauto.
  - intros ms Hw _. apply minimal_answer_masks; auto.
Qed.

(** without strict entries nothing but minimal answers is needed: compact / tight use the minimum number of groups
    possible in the current state (with or without coupling weights, for every allocator state) *)
Corollary C16_grant_group_count_nonstrict : forall pools0 s rq w s' al,
  NoDup (map e_res rq) -> unforced rq = true ->
  (forall ms, w_mask w = Some ms ->
              minimal_answer (map (ref_row (a_pools (s_alloc s))) (coupled_entries (a_pools (s_alloc s)) rq)) ms) ->
  step s (OAlloc rq w) = Ok (s', OutGrant al) ->
  Forall (fun ra => exists e, In e rq /\ e_res e = ra_res ra /\ group_count_ok pools0 (a_pools (s_alloc s)) e ra = true) al.
Proof.
  intros pools0 s rq w s' al Hnd Hu Hmin Hs. eapply grant_group_count; eauto.
  intros e He Hf. exfalso. unfold coupled_entries in He. apply filter_In in He. destruct He as [He _].
  unfold unforced in Hu. rewrite forallb_forall in Hu. specialize (Hu e He). rewrite Hf in Hu. discriminate.
Qed.

(** C16 strict grant group count, whole grants.  Reachable state of a worker WITHOUT coupling weights; the answers
    of the solver (for the empty worker - in the history and now -, for the admission test, for the claim) select
    the minimum number of groups per coupled entry.  Then every resource allocation of a grant satisfies the monitor
    group-count: a compact / tight entry uses min_groups of the pool before the grant, a compact! / tight! entry
    uses min_groups of the EMPTY worker - for all coupled entries of the request at once. *)
Theorem C16_strict_grant_group_count : forall d s0 ops s rq w s' al,
  init d = Ok s0 -> Forall valid_op ops -> run s0 ops = Ok s ->
  NoDup (map e_res rq) -> d_coupling d = [] ->
  Forall (yard_op_ok (a_pools (s_alloc s0))) ops -> yard_witness_ok (a_pools (s_alloc s0)) rq w ->
  (forall ms, w_adm w = Some ms ->
              minimal_answer (map (ref_row (a_pools (s_alloc s))) (coupled_entries (a_pools (s_alloc s)) rq)) ms) ->
  (forall ms, w_mask w = Some ms ->
              minimal_answer (map (ref_row (a_pools (s_alloc s))) (coupled_entries (a_pools (s_alloc s)) rq)) ms) ->
  step s (OAlloc rq w) = Ok (s', OutGrant al) ->
  Forall (fun ra => exists e, In e rq /\ e_res e = ra_res ra
                              /\ group_count_ok (a_pools (s_alloc s0)) (a_pools (s_alloc s)) e ra = true) al.
Proof.
  intros d s0 ops s rq w s' al Hi Hv Hr Hnd Hnc Hyops Hyw Hadm Hmask Hs.
  eapply grant_group_count; eauto.
  intros e He Hf.
  assert (Hforced : existsb (fun e0 => is_forced (e_req e0)) (coupled_entries (a_pools (s_alloc s)) rq) = true)
    by (apply existsb_exists; eauto).
  pose proof Hs as Hs'. cbn [step] in Hs'. unfold try_allocate in Hs'.
  destruct (has_resources (s_alloc s) rq w) as [[ok yard]| |] eqn:Eh; cbn [bind] in Hs'; try discriminate.
  destruct ok; cbn [negb] in Hs'; [|discriminate].
  pose proof (C16_strict_admission d s0 ops s rq w true yard Hi Hv Hr Hnc Hyops Hyw Hadm Hforced Eh) as Hok.
  symmetry in Hok. apply andb_true_iff in Hok. destruct Hok as [_ Hall]. rewrite forallb_forall in Hall. auto.
Qed.

(** non-vacuity: groups of 2 and 6 indices after a scatter of 2 units (1 and 5 left, as in
    PolicyStrictReach.strict_admission_example): `tight! 2` is granted from group 1 - one group, the minimum of the
    empty worker; the run satisfies every hypothesis *)
Example strict_grant_group_count_example :
  let rq := [mkEntry 0 (Req ForceTight 20000)] in
  let w := mkWitness (Some [[1]]) (Some [[1]]) (Some [[0]]) [] in
  let ops := [OAlloc [mkEntry 0 (Req Scatter 20000)] no_wit] in
  exists s0 s s' al,
    init ex_strict_desc = Ok s0 /\ run s0 ops = Ok s
    /\ Forall (yard_op_ok (a_pools (s_alloc s0))) ops /\ yard_witness_ok (a_pools (s_alloc s0)) rq w
    /\ minimal_answer (map (ref_row (a_pools (s_alloc s))) (coupled_entries (a_pools (s_alloc s)) rq)) [[1]]
    /\ step s (OAlloc rq w) = Ok (s', OutGrant al)
    /\ al = [mkRalloc 0 20000 [mkAidx 6 1 0; mkAidx 5 1 0]]
    /\ forallb (fun ra => group_count_ok (a_pools (s_alloc s0)) (a_pools (s_alloc s)) (mkEntry 0 (Req ForceTight 20000)) ra) al = true.
Proof.
  cbv zeta. eexists. eexists. eexists. eexists.
  split; [vm_compute; reflexivity|]. split; [vm_compute; reflexivity|].
  split; [constructor; [intros ms Hms; discriminate Hms|constructor]|].
  split; [intros ms Hms; inversion Hms; subst; vm_compute; auto|].
  split; [vm_compute; auto|]. split; [vm_compute; reflexivity|]. split; vm_compute; reflexivity.
Qed.

Print Assumptions grant_claimed_within_selected.
Print Assumptions grant_group_count.
Print Assumptions C16_grant_group_count_nonstrict.
Print Assumptions C16_strict_grant_group_count.
