(** The check [claim_ok] never rejects what the modelled claim functions compute (so a step of the model is
    [Disabled] only for a witness the model rejects, never because of the gate): index pools, sum pools,
    scatter and compact claims on group pools. *)
From Coq Require Import Permutation.
From HQ Require Import Base.Prelude Gen.Consts Alloc.Model Alloc.Spec Alloc.Lemmas Alloc.Group Alloc.Pool Alloc.Inv Alloc.System Alloc.Mirror Alloc.MirrorSystem.
Require Import ZifyBool ZifyN ZifyNat.
Open Scope N_scope.
Arguments N.add : simpl never.
Arguments N.sub : simpl never.
Arguments N.mul : simpl never.
Arguments N.div : simpl never.
Arguments N.modulo : simpl never.
Arguments N.eqb : simpl never.
Arguments N.ltb : simpl never.
Arguments N.leb : simpl never.
Arguments N.of_nat : simpl never.
Arguments N.to_nat : simpl never.
Arguments sumN : simpl never.

(* ---------- reflexivity of the boolean equalities ---------- *)
Lemma list_eqb_refl {A} (eqb : A -> A -> bool) (Hr : forall x, eqb x x = true) l : list_eqb eqb l l = true.
Proof. induction l; simpl; auto. rewrite Hr, IHl. auto. Qed.
Lemma group_eqb_refl g : group_eqb g g = true.
Proof.
  unfold group_eqb. rewrite (list_eqb_refl N.eqb N.eqb_refl).
  rewrite (list_eqb_refl pair_eqb); auto. intros [a b]. unfold pair_eqb. simpl. rewrite !N.eqb_refl. auto.
Qed.
Lemma groups_eqb_refl gs : list_eqb group_eqb gs gs = true.
Proof. apply list_eqb_refl. apply group_eqb_refl. Qed.

(* ---------- best_fraction_match ---------- *)
Lemma cand_min_ge m fr mn : cand_min m fr = Some mn -> fr <= mn.
Proof.
  revert mn; induction m as [|[k v] m IH]; simpl; intros mn H; [discriminate|].
  destruct (N.leb_spec fr v).
  - destruct (cand_min m fr) as [w|]; inversion H; subst; [specialize (IH w eq_refl); lia | lia].
  - auto.
Qed.

Lemma bfm_some m fr wit i f : best_fraction_match m fr wit = Ok (Some (i, f)) -> fget m i = Some f /\ fr <= f.
Proof.
  unfold best_fraction_match. destruct (cand_min m fr) as [mn|] eqn:E; [|discriminate].
  destruct wit as [j|]; [|discriminate]. destruct (fget m j) as [v|] eqn:Ej; [|discriminate].
  destruct (N.eqb_spec v mn); [|discriminate]. intros H; inversion H; subst. split; auto. eapply cand_min_ge; eauto.
Qed.

(* ---------- taking the top of a stack ---------- *)
Lemma get_at_set_at_same' {A} (l : list A) i x y : get_at l i = Ok y -> get_at (set_at l i x) i = Ok x.
Proof. intros H. apply get_at_ok in H. destruct H. apply get_at_set_at_same. auto. Qed.

Lemma set_at_set_at {A} (l : list A) i x y : set_at (set_at l i x) i y = set_at l i y.
Proof.
  apply nth_error_ext. intros n. rewrite !nth_error_set_at, !len_set_at.
  destruct (i <? len l); simpl; auto. destruct (Nat.eqb (nat_of i) n); auto.
Qed.

Lemma set_at_same {A} (l : list A) i x : get_at l i = Ok x -> set_at l i x = l.
Proof.
  intros H. apply get_at_ok in H. destruct H as [Hlt Hn]. apply nth_error_ext. intros n.
  rewrite nth_error_set_at. destruct (N.ltb_spec i (len l)); [|lia]. simpl.
  destruct (Nat.eqb_spec (nat_of i) n); subst; auto.
Qed.

Lemma take_heads n : forall gs gi g,
  get_at gs gi = Ok g -> (n <= length (g_idx g))%nat ->
  take_all gs (map (fun i => mkAidx i gi 0) (firstn n (g_idx g))) = Some (set_at gs gi (mkGroup (skipn n (g_idx g)) (g_fr g))).
Proof.
  induction n as [|n IH]; intros gs gi g Hg Hn.
  - simpl. f_equal. symmetry. apply set_at_same. destruct g; auto.
  - destruct g as [[|i st] fr]; simpl in Hn; [lia|]. simpl firstn. simpl skipn. cbn [map take_all ai_group].
    rewrite Hg. unfold take1. cbn [ai_frac ai_index g_idx g_fr]. rewrite N.eqb_refl. simpl existsb. rewrite N.eqb_refl. simpl.
    rewrite N.eqb_refl.
    rewrite (IH (set_at gs gi (mkGroup st fr)) gi (mkGroup st fr)); [|eapply get_at_set_at_same'; eauto | simpl; lia].
    simpl. rewrite set_at_set_at. auto.
Qed.

Lemma take_indices_spec gs gi g units out st out' :
  get_at gs gi = Ok g -> take_indices (g_idx g) gi units out = Ok (st, out') ->
  exists ws, out' = out ++ ws /\ Forall whole ws /\ len ws = units /\ Forall (fun ix => ai_group ix = gi) ws
             /\ take_all gs ws = Some (set_at gs gi (mkGroup st (g_fr g))).
Proof.
  intros Hg Ht. unfold take_indices in Ht. destruct (N.ltb_spec (len (g_idx g)) units); [discriminate|].
  inversion Ht; subst. eexists. split; [reflexivity|].
  assert (Hn : (nat_of units <= length (g_idx g))%nat) by (unfold len, nat_of in *; lia).
  split; [apply Forall_forall; intros x Hx; apply in_map_iff in Hx; destruct Hx as [? [<- _]]; reflexivity|].
  split; [unfold len; rewrite map_length, firstn_length; unfold len, nat_of in *; lia|].
  split; [apply Forall_forall; intros x Hx; apply in_map_iff in Hx; destruct Hx as [? [<- _]]; reflexivity|].
  apply take_heads; auto.
Qed.

(** take_fraction_index_or_split is one elementary take (or nothing) *)
Lemma take_fraction_spec gs gi g fr wit out g' out' :
  get_at gs gi = Ok g -> gwf g -> fr < FPU ->
  take_fraction_index_or_split g fr gi wit out = Ok (g', out') ->
  (fr = 0 /\ g' = g /\ out' = out)
  \/ (fr <> 0 /\ exists F, out' = out ++ [F] /\ ai_frac F = fr /\ ai_group F = gi /\ take_all gs [F] = Some (set_at gs gi g')).
Proof.
  intros Hg (Hnd & Hndk & Hsf & Hlt) Hfr Ht. unfold take_fraction_index_or_split in Ht.
  destruct (N.eqb_spec fr 0) as [Hz|Hz]; [inversion Ht; subst; auto|]. right. split; auto.
  destruct (best_fraction_match (g_fr g) fr wit) as [[[i f]|]| |] eqn:Eb; simpl in Ht; try discriminate.
  - inversion Ht; subst. apply bfm_some in Eb. destruct Eb as [Ei Hle].
    eexists. split; [reflexivity|]. simpl. repeat split; auto. rewrite Hg. unfold take1. simpl.
    destruct (N.eqb_spec fr 0); [congruence|]. rewrite Ei. destruct (N.leb_spec fr f); [auto|lia].
  - destruct (g_idx g) as [|i rest] eqn:Es; [discriminate|]. inversion Ht; subst.
    eexists. split; [reflexivity|]. simpl. repeat split; auto. rewrite Hg. unfold take1. simpl.
    destruct (N.eqb_spec fr 0); [congruence|]. rewrite (Hsf i) by (rewrite Es; left; auto).
    rewrite Es. simpl. rewrite N.eqb_refl. simpl. destruct (N.ltb_spec fr FPU); [|lia]. rewrite N.eqb_refl. auto.
Qed.

Lemma shape_ok_app ws fs :
  Forall whole ws -> (fs = [] \/ exists F, fs = [F] /\ ai_frac F < FPU) -> shape_ok (ws ++ fs) = true.
Proof.
  intros Hw Hf. induction Hw as [|ix ws Hx Hw IH]; simpl.
  - destruct Hf as [->|(F & -> & HF)]; simpl; auto. lia.
  - destruct (ws ++ fs) eqn:E.
    + unfold whole in Hx. rewrite Hx. pose proof FPU_pos. lia.
    + rewrite <- E. rewrite IH. unfold whole in Hx. rewrite Hx, N.eqb_refl. auto.
Qed.

Lemma total_app ws fs fr :
  Forall whole ws -> (fr = 0 /\ fs = [] \/ fr <> 0 /\ exists F, fs = [F] /\ ai_frac F = fr) ->
  fold_right N.add 0 (map held_ix (ws ++ fs)) = len ws * FPU + fr.
Proof.
  intros Hw Hf. rewrite ra_total_sum, map_app, sumN_app, (sum_whole _ Hw).
  destruct Hf as [[-> ->]|(Hz & F & -> & <-)]; cbn [map]; rewrite ?sumN_cons, ?sumN_nil; [lia|].
  unfold held_ix. destruct (N.eqb_spec (ai_frac F) 0); [congruence|lia].
Qed.

Lemma split_recompose a : fst (split a) * FPU + snd (split a) = a /\ snd (split a) < FPU.
Proof. unfold split. simpl. unfold FPU, FRACTIONS_PER_UNIT. lia. Qed.

(** index pools and sum pools: the gate accepts whatever pool_claim computes *)
Theorem claim_complete_indices full g rid rq wit p' ra :
  gwf g -> pool_claim (PIndices full g) rid rq wit = Ok (p', ra) -> claim_ok (PIndices full g) p' rid rq ra = true.
Proof.
  intros Hwf Hc. simpl in Hc. destruct (split_recompose (req_amount rq full)) as [Hrec Hfr].
  destruct (split (req_amount rq full)) as [units fr] eqn:Es. simpl in Hrec, Hfr.
  destruct (take_indices (g_idx g) 0 units []) as [[st out1]| |] eqn:Et; simpl in Hc; try discriminate.
  destruct (take_fraction_index_or_split (mkGroup st (g_fr g)) fr 0 wit out1) as [[g2 out2]| |] eqn:Ef; simpl in Hc; try discriminate.
  inversion Hc; subst p' ra. clear Hc.
  destruct (take_indices_spec [g] 0 g units [] st out1 (get_at_single g) Et) as (ws & E1 & Hw & Hl & Hg0 & Hta).
  simpl in E1. subst out1. change (set_at [g] 0 (mkGroup st (g_fr g))) with [mkGroup st (g_fr g)] in Hta.
  assert (Hwf1 : gwf (mkGroup st (g_fr g))).
  { assert (X : gs_wf [mkGroup st (g_fr g)]) by (eapply take_all_wf; [|eauto]; constructor; auto). inversion X; auto. }
  destruct (take_fraction_spec [mkGroup st (g_fr g)] 0 _ fr wit ws g2 out2 (get_at_single _) Hwf1 Hfr Ef) as [(Hz & -> & ->)|(Hz & F & -> & HF & HgF & HtF)].
  - unfold claim_ok. cbn [ra_res ra_amount ra_indices pool_full_size pool_groups]. rewrite !N.eqb_refl. simpl andb.
    rewrite (shape_ok_app ws []) by auto. rewrite app_nil_r in *. unfold ra_total. cbn [ra_indices].
    rewrite <- (app_nil_r ws) at 1. rewrite (total_app ws [] 0) by auto. rewrite Hl, Hz in *.
    rewrite Hrec, N.eqb_refl, Hta. simpl. rewrite group_eqb_refl. auto.
  - unfold claim_ok. cbn [ra_res ra_amount ra_indices pool_full_size pool_groups]. rewrite !N.eqb_refl. simpl andb.
    rewrite (shape_ok_app ws [F]) by (auto; right; exists F; split; auto; lia).
    unfold ra_total. cbn [ra_indices]. rewrite (total_app ws [F] fr) by (auto; right; split; auto; exists F; auto).
    rewrite Hl, Hrec, N.eqb_refl. rewrite take_all_app, Hta.
    change (set_at [mkGroup st (g_fr g)] 0 g2) with [g2] in HtF. rewrite HtF. simpl. rewrite group_eqb_refl. auto.
Qed.

Theorem claim_complete_sum full free rid rq wit p' ra :
  pool_claim (PSum full free) rid rq wit = Ok (p', ra) -> claim_ok (PSum full free) p' rid rq ra = true.
Proof.
  simpl. destruct (N.ltb_spec free (req_amount rq full)); [discriminate|]. intros H; inversion H; subst.
  unfold claim_ok. simpl. rewrite !N.eqb_refl. simpl. destruct (N.leb_spec (req_amount rq full) free); [auto|lia].
Qed.
