(** The check [claim_ok] never rejects what the modelled claim functions compute (so a step of the model is
    [Disabled] only for a witness the model rejects, never because of the gate): index pools, sum pools,
    scatter and compact claims on group pools. *)
From Coq Require Import Permutation.
From HQ Require Import Base.Prelude Gen.Consts Alloc.Model Alloc.Spec Alloc.Lemmas Alloc.Group Alloc.Pool Alloc.Inv Alloc.System Alloc.Mirror Alloc.MirrorSystem.
Require Import ZifyBool ZifyN ZifyNat.
Open Scope N_scope.
Arguments N.add : simpl never.
Arguments N.sub : simpl never.
Arguments N.mul : simpl never.
Arguments N.div : simpl never.
Arguments N.modulo : simpl never.
Arguments N.eqb : simpl never.
Arguments N.ltb : simpl never.
Arguments N.leb : simpl never.
Arguments N.of_nat : simpl never.
Arguments N.to_nat : simpl never.
Arguments sumN : simpl never.

(* ---------- reflexivity of the boolean equalities ---------- *)
Lemma list_eqb_refl {A} (eqb : A -> A -> bool) (Hr : forall x, eqb x x = true) l : list_eqb eqb l l = true.
Proof. induction l; simpl; auto. rewrite Hr, IHl. auto. Qed.
Lemma group_eqb_refl g : group_eqb g g = true.
Proof.
  unfold group_eqb. rewrite (list_eqb_refl N.eqb N.eqb_refl).
  rewrite (list_eqb_refl pair_eqb); auto. intros [a b]. unfold pair_eqb. simpl. rewrite !N.eqb_refl. auto.
Qed.
Lemma groups_eqb_refl gs : list_eqb group_eqb gs gs = true.
Proof. apply list_eqb_refl. apply group_eqb_refl. Qed.

(* ---------- best_fraction_match ---------- *)
Lemma cand_min_ge m fr mn : cand_min m fr = Some mn -> fr <= mn.
Proof.
  revert mn; induction m as [|[k v] m IH]; simpl; intros mn H; [discriminate|].
  destruct (N.leb_spec fr v).
  - destruct (cand_min m fr) as [w|]; inversion H; subst; [specialize (IH w eq_refl); lia | lia].
  - auto.
Qed.

Lemma bfm_some m fr wit i f : best_fraction_match m fr wit = Ok (Some (i, f)) -> fget m i = Some f /\ fr <= f.
Proof.
  unfold best_fraction_match. destruct (cand_min m fr) as [mn|] eqn:E; [|discriminate].
  destruct wit as [j|]; [|discriminate]. destruct (fget m j) as [v|] eqn:Ej; [|discriminate].
  destruct (N.eqb_spec v mn); [|discriminate]. intros H; inversion H; subst. split; auto. eapply cand_min_ge; eauto.
Qed.

(* ---------- taking the top of a stack ---------- *)
Lemma get_at_set_at_same' {A} (l : list A) i x y : get_at l i = Ok y -> get_at (set_at l i x) i = Ok x.
Proof. intros H. apply get_at_ok in H. destruct H. apply get_at_set_at_same. auto. Qed.

Lemma set_at_set_at {A} (l : list A) i x y : set_at (set_at l i x) i y = set_at l i y.
Proof.
  apply nth_error_ext. intros n. rewrite !nth_error_set_at, !len_set_at.
  destruct (i <? len l); simpl; auto. destruct (Nat.eqb (nat_of i) n); auto.
Qed.

Lemma set_at_same {A} (l : list A) i x : get_at l i = Ok x -> set_at l i x = l.
Proof.
  intros H. apply get_at_ok in H. destruct H as [Hlt Hn]. apply nth_error_ext. intros n.
  rewrite nth_error_set_at. destruct (N.ltb_spec i (len l)); [|lia]. simpl.
  destruct (Nat.eqb_spec (nat_of i) n); subst; auto.
Qed.

Lemma take_heads n : forall gs gi g,
  get_at gs gi = Ok g -> (n <= length (g_idx g))%nat ->
  take_all gs (map (fun i => mkAidx i gi 0) (firstn n (g_idx g))) = Some (set_at gs gi (mkGroup (skipn n (g_idx g)) (g_fr g))).
Proof.
  induction n as [|n IH]; intros gs gi g Hg Hn.
  - simpl. f_equal. symmetry. apply set_at_same. destruct g; auto.
  - destruct g as [[|i st] fr]; simpl in Hn; [lia|]. simpl firstn. simpl skipn. cbn [map take_all ai_group].
    rewrite Hg. unfold take1. cbn [ai_frac ai_index g_idx g_fr]. rewrite N.eqb_refl. simpl existsb. rewrite N.eqb_refl. simpl.
    rewrite N.eqb_refl.
    pose proof (IH (set_at gs gi (mkGroup st fr)) gi (mkGroup st fr)) as X. simpl in X.
    rewrite X; [|eapply get_at_set_at_same'; eauto | lia].
    rewrite set_at_set_at. auto.
Qed.

Lemma take_indices_spec gs gi g units out st out' :
  get_at gs gi = Ok g -> take_indices (g_idx g) gi units out = Ok (st, out') ->
  exists ws, out' = out ++ ws /\ Forall whole ws /\ len ws = units /\ Forall (fun ix => ai_group ix = gi) ws
             /\ take_all gs ws = Some (set_at gs gi (mkGroup st (g_fr g))).
Proof.
  intros Hg Ht. unfold take_indices in Ht. destruct (N.ltb_spec (len (g_idx g)) units); [discriminate|].
  inversion Ht; subst. eexists. split; [reflexivity|].
  assert (Hn : (nat_of units <= length (g_idx g))%nat) by (unfold len, nat_of in *; lia).
  split; [apply Forall_forall; intros x Hx; apply in_map_iff in Hx; destruct Hx as [? [<- _]]; reflexivity|].
  split; [unfold len; rewrite map_length, firstn_length; unfold len, nat_of in *; lia|].
  split; [apply Forall_forall; intros x Hx; apply in_map_iff in Hx; destruct Hx as [? [<- _]]; reflexivity|].
  apply take_heads; auto.
Qed.

(** take_fraction_index_or_split is one elementary take (or nothing) *)
Lemma take_fraction_spec gs gi g fr wit out g' out' :
  get_at gs gi = Ok g -> gwf g -> fr < FPU ->
  take_fraction_index_or_split g fr gi wit out = Ok (g', out') ->
  (fr = 0 /\ g' = g /\ out' = out)
  \/ (fr <> 0 /\ exists F, out' = out ++ [F] /\ ai_frac F = fr /\ ai_group F = gi /\ take_all gs [F] = Some (set_at gs gi g')).
Proof.
  intros Hg (Hnd & Hndk & Hsf & Hlt) Hfr Ht. unfold take_fraction_index_or_split in Ht.
  destruct (N.eqb_spec fr 0) as [Hz|Hz]; [inversion Ht; subst; auto|]. right. split; auto.
  destruct (best_fraction_match (g_fr g) fr wit) as [[[i f]|]| |] eqn:Eb; simpl in Ht; try discriminate.
  - inversion Ht; subst. apply bfm_some in Eb. destruct Eb as [Ei Hle].
    eexists. split; [reflexivity|]. simpl. repeat split; auto. rewrite Hg. unfold take1. simpl.
    destruct (N.eqb_spec fr 0); [congruence|]. rewrite Ei. destruct (N.leb_spec fr f); [auto|lia].
  - destruct (g_idx g) as [|i rest] eqn:Es; [discriminate|]. inversion Ht; subst.
    eexists. split; [reflexivity|]. simpl. repeat split; auto. rewrite Hg. unfold take1. simpl.
    destruct (N.eqb_spec fr 0); [congruence|]. rewrite (Hsf i) by (first [left; reflexivity | rewrite Es; left; reflexivity]).
    rewrite Es. simpl. rewrite N.eqb_refl. simpl. destruct (N.ltb_spec fr FPU); [|lia]. rewrite ?N.eqb_refl. auto.
Qed.

Lemma shape_cons_whole ix rest : whole ix -> shape_ok rest = true -> shape_ok (ix :: rest) = true.
Proof.
  unfold whole. intros Hx H. destruct rest as [|y rest].
  - simpl. rewrite Hx. reflexivity.
  - change (shape_ok (ix :: y :: rest)) with ((ai_frac ix =? 0) && shape_ok (y :: rest)). rewrite Hx, N.eqb_refl, H. auto.
Qed.

Lemma shape_ok_app ws fs :
  Forall whole ws -> (fs = [] \/ exists F, fs = [F] /\ ai_frac F < FPU) -> shape_ok (ws ++ fs) = true.
Proof.
  intros Hw Hf. induction Hw as [|ix ws Hx Hw IH].
  - destruct Hf as [->|(F & -> & HF)]; simpl; auto. lia.
  - simpl app. apply shape_cons_whole; auto.
Qed.

Lemma total_app ws fs fr :
  Forall whole ws -> (fr = 0 /\ fs = [] \/ fr <> 0 /\ exists F, fs = [F] /\ ai_frac F = fr) ->
  fold_right N.add 0 (map held_ix (ws ++ fs)) = len ws * FPU + fr.
Proof.
  intros Hw Hf. rewrite ra_total_sum, map_app, sumN_app, (sum_whole _ Hw).
  destruct Hf as [[-> ->]|(Hz & F & -> & <-)]; cbn [map]; rewrite ?sumN_cons, ?sumN_nil; [lia|].
  unfold held_ix. destruct (N.eqb_spec (ai_frac F) 0); [congruence|lia].
Qed.

Lemma split_recompose a : fst (split a) * FPU + snd (split a) = a /\ snd (split a) < FPU.
Proof. unfold split. simpl. unfold FPU, FRACTIONS_PER_UNIT. lia. Qed.

(** index pools and sum pools: the gate accepts whatever pool_claim computes *)
Theorem claim_complete_indices full g rid rq wit p' ra :
  gwf g -> pool_claim (PIndices full g) rid rq wit = Ok (p', ra) -> claim_ok (PIndices full g) p' rid rq ra = true.
Proof.
  intros Hwf Hc. unfold pool_claim in Hc. destruct (split_recompose (req_amount rq full)) as [Hrec Hfr].
  destruct (split (req_amount rq full)) as [units fr] eqn:Es. simpl in Hrec, Hfr.
  destruct (take_indices (g_idx g) 0 units []) as [[st out1]| |] eqn:Et; cbn [bind] in Hc; try discriminate.
  destruct (take_fraction_index_or_split (mkGroup st (g_fr g)) fr 0 wit out1) as [[g2 out2]| |] eqn:Ef; cbn [bind] in Hc; try discriminate.
  inversion Hc; subst. clear Hc.
  destruct (take_indices_spec [g] 0 g units [] st out1 (get_at_single g) Et) as (ws & E1 & Hw & Hl & Hg0 & Hta).
  simpl in E1. subst out1. change (set_at [g] 0 (mkGroup st (g_fr g))) with [mkGroup st (g_fr g)] in Hta.
  assert (Hwf1 : gwf (mkGroup st (g_fr g))).
  { assert (X : gs_wf [mkGroup st (g_fr g)]) by (eapply take_all_wf; [|eauto]; constructor; auto). inversion X; auto. }
  destruct (take_fraction_spec [mkGroup st (g_fr g)] 0 _ fr wit ws g2 out2 (get_at_single _) Hwf1 Hfr Ef) as [(Hz & -> & ->)|(Hz & F & -> & HF & HgF & HtF)].
  - unfold claim_ok. cbn [ra_res ra_amount ra_indices pool_full_size pool_groups]. rewrite !N.eqb_refl. simpl andb.
    assert (S1 : shape_ok ws = true) by (rewrite <- (app_nil_r ws); apply shape_ok_app; auto).
    assert (S2 : ra_total (mkRalloc rid (req_amount rq full) ws) = req_amount rq full).
    { unfold ra_total; cbn [ra_indices]. rewrite <- (app_nil_r ws). rewrite (total_app ws [] 0) by auto. lia. }
    rewrite S1, S2, N.eqb_refl, Hta. simpl. rewrite group_eqb_refl. auto.
  - unfold claim_ok. cbn [ra_res ra_amount ra_indices pool_full_size pool_groups]. rewrite !N.eqb_refl. simpl andb.
    assert (S1 : shape_ok (ws ++ [F]) = true) by (apply shape_ok_app; auto; right; exists F; split; auto; lia).
    assert (S2 : ra_total (mkRalloc rid (req_amount rq full) (ws ++ [F])) = req_amount rq full).
    { unfold ra_total; cbn [ra_indices]. rewrite (total_app ws [F] fr) by (auto; right; split; auto; exists F; auto). lia. }
    rewrite S1, S2, N.eqb_refl. rewrite take_all_app, Hta.
    change (set_at [mkGroup st (g_fr g)] 0 g2) with [g2] in HtF. rewrite HtF. simpl. rewrite group_eqb_refl. auto.
Qed.

Theorem claim_complete_sum full free rid rq wit p' ra :
  pool_claim (PSum full free) rid rq wit = Ok (p', ra) -> claim_ok (PSum full free) p' rid rq ra = true.
Proof.
  simpl. destruct (N.ltb_spec free (req_amount rq full)); [discriminate|]. intros Hx; inversion Hx; subst.
  unfold claim_ok. simpl. rewrite !N.eqb_refl. simpl. destruct (N.leb_spec (req_amount rq full) free); [auto|lia].
Qed.

(* ---------- whole takes commute: take_all over whole indices is invariant under permutation ---------- *)
Lemma memN_removeN_other x y l : x <> y -> memN y (removeN x l) = memN y l.
Proof.
  intros Hxy. induction l as [|z l IH]; simpl; auto.
  destruct (N.eqb_spec z x).
  - subst. unfold memN. simpl. destruct (N.eqb_spec y x); [congruence|auto].
  - unfold memN in *. simpl. rewrite IH. auto.
Qed.

Lemma take1_whole g ix : whole ix ->
  take1 g ix = if memN (ai_index ix) (g_idx g) then Some (mkGroup (removeN (ai_index ix) (g_idx g)) (g_fr g)) else None.
Proof. unfold whole. intros H. rewrite take1_memN. cbv zeta. rewrite H, N.eqb_refl. auto. Qed.

Lemma aidx_eta ix i g f : ai_index ix = i -> ai_group ix = g -> ai_frac ix = f -> ix = mkAidx i g f.
Proof. destruct ix; simpl; intros; subst; auto. Qed.

Definition obind {A B} (o : option A) (f : A -> option B) : option B := match o with Some a => f a | None => None end.

Lemma take1_comm g x y : whole x -> whole y -> ai_index x <> ai_index y ->
  obind (take1 g x) (fun g1 => take1 g1 y) = obind (take1 g y) (fun g1 => take1 g1 x).
Proof.
  intros Hx Hy Hne. rewrite !take1_whole by auto.
  destruct (memN (ai_index x) (g_idx g)) eqn:Mx, (memN (ai_index y) (g_idx g)) eqn:My; simpl;
    rewrite ?take1_whole by auto; simpl.
  - rewrite ?memN_removeN_other by auto. rewrite ?memN_removeN_other by (intros E; apply Hne; auto).
    rewrite Mx, My. rewrite removeN_comm. auto.
  - rewrite ?memN_removeN_other by auto. rewrite ?memN_removeN_other by (intros E; apply Hne; auto). rewrite ?My. auto.
  - rewrite ?memN_removeN_other by auto. rewrite ?memN_removeN_other by (intros E; apply Hne; auto). rewrite ?Mx. auto.
  - auto.
Qed.

Lemma take_two_same gs x y : ai_group x = ai_group y ->
  take_all gs [x; y] =
  match get_at gs (ai_group x) with
  | Ok g => match obind (take1 g x) (fun g1 => take1 g1 y) with Some g2 => Some (set_at gs (ai_group x) g2) | None => None end
  | _ => None
  end.
Proof.
  intros Eg. simpl. rewrite <- Eg. destruct (get_at gs (ai_group x)) as [g| |] eqn:Hg; auto.
  destruct (take1 g x) as [g1|]; simpl; auto.
  rewrite (get_at_set_at_same' _ _ _ _ Hg). destruct (take1 g1 y); auto. rewrite set_at_set_at. auto.
Qed.

Lemma take_swap_whole gs x y : whole x -> whole y -> take_all gs [x; y] = take_all gs [y; x].
Proof.
  intros Hx Hy. destruct (N.eq_dec (ai_group x) (ai_group y)) as [Eg|Eg].
  - destruct (N.eq_dec (ai_index x) (ai_index y)) as [Ei|Ei].
    + assert (x = y). { rewrite (aidx_eta x _ _ _ eq_refl eq_refl Hx). rewrite (aidx_eta y _ _ _ eq_refl eq_refl Hy). congruence. }
      subst; auto.
    + rewrite (take_two_same gs x y Eg), (take_two_same gs y x (eq_sym Eg)). rewrite <- Eg.
      destruct (get_at gs (ai_group x)); auto. rewrite (take1_comm a x y); auto.
  - simpl.
    destruct (get_at gs (ai_group x)) as [gx| |] eqn:Hgx; destruct (get_at gs (ai_group y)) as [gy| |] eqn:Hgy; auto;
      try (destruct (take1 gx x); auto; rewrite get_at_set_at_other by auto; rewrite Hgy; auto; fail);
      try (destruct (take1 gy y); auto; rewrite get_at_set_at_other by auto; rewrite Hgx; auto; fail).
    destruct (take1 gx x) as [gx'|] eqn:Tx; destruct (take1 gy y) as [gy'|] eqn:Ty;
      rewrite ?get_at_set_at_other by auto; rewrite ?Hgx, ?Hgy, ?Tx, ?Ty; auto.
    rewrite set_at_comm by auto. auto.
Qed.

Lemma take_all_cons gs ix l :
  take_all gs (ix :: l) = match take_all gs [ix] with Some gs1 => take_all gs1 l | None => None end.
Proof. simpl. destruct (get_at gs (ai_group ix)); auto. destruct (take1 a ix); auto. Qed.

Lemma take_all_perm_whole a b : Permutation a b -> Forall whole a -> forall gs, take_all gs a = take_all gs b.
Proof.
  induction 1 as [|x l l' P IH|x y l|l l' l'' P1 IH1 P2 IH2]; intros Hw gs; auto.
  - inversion Hw; subst. rewrite (take_all_cons gs x l), (take_all_cons gs x l'). destruct (take_all gs [x]); auto.
  - inversion Hw as [|? ? Hy Hw']; subst. inversion Hw' as [|? ? Hx Hw'']; subst.
    change (y :: x :: l) with ([y; x] ++ l). change (x :: y :: l) with ([x; y] ++ l).
    rewrite !take_all_app. rewrite (take_swap_whole gs y x); auto.
  - rewrite IH1 by auto. apply IH2. eapply Permutation_Forall; eauto.
Qed.

(* ---------- sorting keeps the fractional index last ---------- *)
Lemma insert_before_frac w X F : whole w -> ai_frac F <> 0 ->
  insert_sorted aidx_le w (X ++ [F]) = insert_sorted aidx_le w X ++ [F].
Proof.
  unfold whole. intros Hw HF. induction X as [|x X IH]; simpl.
  - unfold aidx_le. rewrite Hw. destruct (N.ltb_spec 0 (ai_frac F)); [auto|lia].
  - destruct (aidx_le w x); simpl; auto. rewrite IH. auto.
Qed.

Lemma isort_whole_frac ws F : Forall whole ws -> ai_frac F <> 0 -> isort aidx_le (ws ++ [F]) = isort aidx_le ws ++ [F].
Proof.
  intros Hw HF. induction Hw as [|w ws Hx Hw IH]; simpl; auto.
  rewrite IH. apply insert_before_frac; auto.
Qed.

(* ---------- the scatter loop (Scatter, and Compact / ForceCompact with the solver's groups) ---------- *)
Lemma scatter_loop_spec fuel : forall gs sel units fr pos wit out gs' out',
  gs_wf gs -> fr < FPU ->
  scatter_loop fuel gs sel units fr pos wit out = Ok (gs', out') ->
  exists ws fs, out' = out ++ ws ++ fs /\ Forall whole ws /\ len ws = units
    /\ (fr = 0 /\ fs = [] \/ fr <> 0 /\ exists F, fs = [F] /\ ai_frac F = fr)
    /\ take_all gs (ws ++ fs) = Some gs'.
Proof.
  induction fuel as [|fuel IH]; intros gs sel units fr pos wit out gs' out' Hwf Hfr Hl; simpl in Hl.
  - destruct (N.eqb_spec units 0); destruct (N.eqb_spec fr 0); simpl in Hl; try discriminate.
    inversion Hl; subst. exists [], []. rewrite !app_nil_r. repeat split; auto.
  - destruct (N.eqb_spec units 0) as [Hu|Hu]; destruct (N.eqb_spec fr 0) as [Hf0|Hf0]; simpl in Hl.
    + inversion Hl; subst. exists [], []. rewrite !app_nil_r. repeat split; auto.
    + (* units = 0, the fraction *)
      destruct (match sel with Some s => get_at s pos | None => Ok pos end) as [gi| |] eqn:Egi; simpl in Hl; try discriminate.
      destruct (get_at gs gi) as [g| |] eqn:Eg; simpl in Hl; try discriminate.
      subst units. destruct (N.ltb_spec 0 0); [lia|].
      assert (Hgw : gwf g) by (apply get_at_ok in Eg; destruct Eg; eapply Forall_nth; eauto).
      destruct (best_fraction_match (g_fr g) fr wit) as [[[i f]|]| |] eqn:Eb; simpl in Hl; try discriminate.
      * apply bfm_some in Eb. destruct Eb as [Ei Hle].
        destruct fuel; simpl in Hl; rewrite ?N.eqb_refl in Hl; simpl in Hl; inversion Hl; subst;
          (exists [], [mkAidx i gi fr]; split; [reflexivity|]; split; [constructor|]; split; [reflexivity|];
           split; [right; split; auto; eexists; split; reflexivity|];
           simpl; rewrite Eg; unfold take1; simpl; destruct (N.eqb_spec fr 0); [congruence|]; rewrite Ei;
           destruct (N.leb_spec fr f); [auto|lia]).
      * destruct (g_idx g) as [|i rest] eqn:Es.
        -- eapply IH; eauto.
        -- destruct Hgw as (Hnd & Hndk & Hsf & Hlt).
           destruct fuel; simpl in Hl; rewrite ?N.eqb_refl in Hl; simpl in Hl; inversion Hl; subst;
             (exists [], [mkAidx i gi fr]; split; [reflexivity|]; split; [constructor|]; split; [reflexivity|];
              split; [right; split; auto; eexists; split; reflexivity|];
              simpl; rewrite Eg; unfold take1; simpl; destruct (N.eqb_spec fr 0); [congruence|];
              rewrite (Hsf i) by (rewrite Es; left; auto); rewrite Es; simpl; rewrite N.eqb_refl; simpl;
              destruct (N.ltb_spec fr FPU); [|lia]; rewrite ?N.eqb_refl; auto).
    + (* units > 0, fr = 0 *)
      destruct (match sel with Some s => get_at s pos | None => Ok pos end) as [gi| |] eqn:Egi; simpl in Hl; try discriminate.
      destruct (get_at gs gi) as [g| |] eqn:Eg; simpl in Hl; try discriminate.
      destruct (N.ltb_spec 0 units); [|lia].
      destruct (g_idx g) as [|i rest] eqn:Es.
      * eapply IH; eauto.
      * assert (Hgw : gwf g) by (apply get_at_ok in Eg; destruct Eg; eapply Forall_nth; eauto).
        assert (Ht1 : take_all gs [mkAidx i gi 0] = Some (set_at gs gi (mkGroup rest (g_fr g)))).
        { simpl. rewrite Eg. unfold take1. simpl. rewrite Es. simpl. rewrite ?N.eqb_refl. simpl. rewrite ?N.eqb_refl. auto. }
        assert (Hwf1 : gs_wf (set_at gs gi (mkGroup rest (g_fr g)))) by (eapply take_all_wf; eauto).
        destruct (IH _ _ _ _ _ _ _ _ _ Hwf1 Hfr Hl) as (ws & fs & E & Hw & Hlen & Hfs & Hta).
        exists (mkAidx i gi 0 :: ws), fs. split; [rewrite E, <- app_assoc; reflexivity|].
        split; [constructor; auto; reflexivity|]. split; [unfold len in *; simpl length; lia|]. split; auto.
        change ((mkAidx i gi 0 :: ws) ++ fs) with ([mkAidx i gi 0] ++ (ws ++ fs)). rewrite take_all_app, Ht1. auto.
    + (* units > 0, fr > 0: still taking whole indices *)
      destruct (match sel with Some s => get_at s pos | None => Ok pos end) as [gi| |] eqn:Egi; simpl in Hl; try discriminate.
      destruct (get_at gs gi) as [g| |] eqn:Eg; simpl in Hl; try discriminate.
      destruct (N.ltb_spec 0 units); [|lia].
      destruct (g_idx g) as [|i rest] eqn:Es.
      * eapply IH; eauto.
      * assert (Hgw : gwf g) by (apply get_at_ok in Eg; destruct Eg; eapply Forall_nth; eauto).
        assert (Ht1 : take_all gs [mkAidx i gi 0] = Some (set_at gs gi (mkGroup rest (g_fr g)))).
        { simpl. rewrite Eg. unfold take1. simpl. rewrite Es. simpl. rewrite ?N.eqb_refl. simpl. rewrite ?N.eqb_refl. auto. }
        assert (Hwf1 : gs_wf (set_at gs gi (mkGroup rest (g_fr g)))) by (eapply take_all_wf; eauto).
        destruct (IH _ _ _ _ _ _ _ _ _ Hwf1 Hfr Hl) as (ws & fs & E & Hw & Hlen & Hfs & Hta).
        exists (mkAidx i gi 0 :: ws), fs. split; [rewrite E, <- app_assoc; reflexivity|].
        split; [constructor; auto; reflexivity|]. split; [unfold len in *; simpl length; lia|]. split; auto.
        change ((mkAidx i gi 0 :: ws) ++ fs) with ([mkAidx i gi 0] ++ (ws ++ fs)). rewrite take_all_app, Ht1. auto.
Qed.

Lemma len_perm {A} (a b : list A) : Permutation a b -> len a = len b.
Proof. intros P. unfold len. rewrite (Permutation_length P). auto. Qed.

Lemma claim_scatter_complete gs sel a wit gs' out :
  gs_wf gs -> claim_scatter_from_groups a gs sel wit = Ok (gs', out) ->
  shape_ok out = true /\ fold_right N.add 0 (map held_ix out) = a /\ take_all gs out = Some gs'.
Proof.
  intros Hwf Hc. unfold claim_scatter_from_groups in Hc.
  destruct (split_recompose a) as [Hrec Hfr]. destruct (split a) as [units fr] eqn:Es. simpl in Hrec, Hfr.
  destruct (scatter_loop (scatter_fuel gs sel) gs sel units fr 0 wit []) as [[gs1 raw]| |] eqn:El; cbn [bind] in Hc; try discriminate.
  inversion Hc; subst gs1 out. clear Hc.
  destruct (scatter_loop_spec _ _ _ _ _ _ _ _ _ _ Hwf Hfr El) as (ws & fs & E & Hw & Hlen & Hfs & Hta).
  simpl in E. subst raw.
  assert (Hp : Permutation (isort aidx_le ws) ws) by apply isort_perm.
  assert (Hws : Forall whole (isort aidx_le ws)) by (eapply Permutation_Forall; [apply Permutation_sym; eauto|auto]).
  destruct Hfs as [[Hz ->]|(Hz & F & -> & HF)].
  - rewrite app_nil_r in *. split; [rewrite <- (app_nil_r (isort aidx_le ws)); apply shape_ok_app; auto|].
    split.
    + rewrite <- (app_nil_r (isort aidx_le ws)). rewrite (total_app _ [] 0) by auto. rewrite (len_perm _ _ Hp). lia.
    + rewrite (take_all_perm_whole _ _ Hp Hws). auto.
  - rewrite isort_whole_frac by (auto; congruence).
    split; [apply shape_ok_app; auto; right; exists F; split; auto; lia|].
    split.
    + rewrite (total_app _ [F] fr) by (auto; right; split; auto; exists F; auto). rewrite (len_perm _ _ Hp). lia.
    + rewrite take_all_app in *. rewrite (take_all_perm_whole _ _ Hp Hws). auto.
Qed.

(** group pools: scatter, and compact / compact! with the groups chosen by the solver *)
Theorem claim_complete_scatter full gs rid a wit p' ra :
  gs_wf gs -> pool_claim (PGroups full gs) rid (Req Scatter a) wit = Ok (p', ra) ->
  claim_ok (PGroups full gs) p' rid (Req Scatter a) ra = true.
Proof.
  intros Hwf Hc. unfold pool_claim in Hc.
  destruct (claim_scatter_from_groups a gs None wit) as [[gs' out]| |] eqn:E; cbn [bind] in Hc; try discriminate.
  inversion Hc; subst. destruct (claim_scatter_complete _ _ _ _ _ _ Hwf E) as (S1 & S2 & S3).
  unfold claim_ok, ra_total. cbn [ra_res ra_amount ra_indices pool_full_size pool_groups req_amount].
  rewrite !N.eqb_refl, S1, S2, N.eqb_refl, S3. simpl. apply groups_eqb_refl.
Qed.

Theorem claim_complete_compact full gs rid rq a mask wit p' ra :
  gs_wf gs -> rq = Req Compact a \/ rq = Req ForceCompact a ->
  claim_with_group_mask (PGroups full gs) rid rq mask wit = Ok (p', ra) ->
  claim_ok (PGroups full gs) p' rid rq ra = true.
Proof.
  intros Hwf Hrq Hc. unfold claim_with_group_mask in Hc.
  assert (Hc' : (do r <- claim_scatter_from_groups a gs (Some mask) wit; let '(gs', out) := r in Ok (PGroups full gs', mkRalloc rid a out)) = Ok (p', ra))
    by (destruct Hrq; subst rq; auto).
  clear Hc. destruct (claim_scatter_from_groups a gs (Some mask) wit) as [[gs' out]| |] eqn:E; cbn [bind] in Hc'; try discriminate.
  inversion Hc'; subst. destruct (claim_scatter_complete _ _ _ _ _ _ Hwf E) as (S1 & S2 & S3).
  unfold claim_ok, ra_total. cbn [ra_res ra_amount ra_indices pool_full_size pool_groups].
  assert (Hra : req_amount rq full = a) by (destruct Hrq; subst rq; auto). rewrite Hra.
  rewrite !N.eqb_refl, S1, S2, N.eqb_refl, S3. simpl. apply groups_eqb_refl.
Qed.
