(** `all` is granted only when everything of the resource is free. *)
From Coq Require Import Permutation.
From HQ Require Import Base.Prelude Gen.Consts Alloc.Model Alloc.Spec Alloc.Lemmas Alloc.Group Alloc.Pool Alloc.Inv Alloc.System Alloc.Mirror Alloc.Theorems Alloc.MirrorSystem Alloc.GroupsProofs Alloc.Admission.
Require Import ZifyBool ZifyN ZifyNat.
Open Scope N_scope.
Arguments N.add : simpl never.
Arguments N.sub : simpl never.
Arguments N.mul : simpl never.
Arguments N.div : simpl never.
Arguments N.modulo : simpl never.
Arguments N.eqb : simpl never.
Arguments N.ltb : simpl never.
Arguments N.leb : simpl never.
Arguments N.of_nat : simpl never.
Arguments N.to_nat : simpl never.
Arguments sumN : simpl never.

(** the size of an index / group pool is the number of indices it owns *)
Definition usize (p : pool) : N := sumN (map (fun g => len (g_idx g)) (pool_groups p)).
Definition sized (p : pool) : Prop := match p with PSum _ _ => True | _ => pool_full_size p = usize p * FPU end.

Lemma groups_from_usize sizes : forall s, sumN (map (fun g => len (g_idx g)) (groups_from sizes s)) = N.of_nat (fold_right Nat.add O sizes).
Proof.
  induction sizes as [|n sizes IH]; intros s; simpl; [reflexivity|].
  cbn [map]. rewrite sumN_cons, IH. simpl. unfold len. rewrite rev_length.
  assert (L : forall k st, length (seqN st k) = k) by (induction k; simpl; auto).
  rewrite L. lia.
Qed.

Lemma length_concat (groups : list (list N)) : length (concat groups) = fold_right Nat.add O (map (@length N) groups).
Proof. induction groups; simpl; auto. rewrite app_length, IHgroups. auto. Qed.

Lemma pool_new_sized k p : pool_new k = Some p -> sized p.
Proof.
  assert (L : forall k st, length (seqN st k) = k) by (induction k0; simpl; auto).
  destruct k; simpl.
  - destruct (nodupb labels); intros H; inversion H; subst. simpl. unfold usize, mk_amount. simpl. rewrite sumN_cons, sumN_nil.
    unfold len. rewrite rev_length, L. lia.
  - intros H; inversion H; subst. simpl. unfold usize, mk_amount. simpl. rewrite sumN_cons, sumN_nil.
    unfold len. rewrite rev_length, L. lia.
  - destruct (nodupb (concat groups)); intros H; inversion H; subst. simpl. unfold usize, mk_amount. simpl.
    rewrite groups_from_usize. unfold len. rewrite length_concat. lia.
  - intros H; inversion H; subst. simpl. auto.
Qed.

Lemma fill_pools_sized items : forall pools pools', Forall sized pools -> fill_pools pools items = Ok pools' -> Forall sized pools'.
Proof.
  induction items as [|[r k] items IH]; simpl; intros pools pools' Hf H.
  - inversion H; subst; auto.
  - destruct (pool_new k) eqn:E; try discriminate. eapply IH; [|eauto].
    apply Forall_set_at; auto. eapply pool_new_sized; eauto.
Qed.

Lemma init_sized d s0 : init d = Ok s0 -> Forall sized (a_pools (s_alloc s0)).
Proof.
  unfold init, allocator_new. intros H.
  destruct (existsb _ (d_items d)); simpl in H; try discriminate.
  destruct (max_rid (d_items d)); simpl in H; try discriminate.
  destruct (fill_pools _ (d_items d)) as [pools| |] eqn:Ef; simpl in H; try discriminate.
  destruct (new_weights (d_items d) (d_coupling d)); simpl in H; try discriminate.
  inversion H; subst; simpl.
  eapply fill_pools_sized; [|eauto]. apply Forall_forall. intros x Hx.
  change (PEmpty :: repeat PEmpty (nat_of n)) with (repeat PEmpty (S (nat_of n))) in Hx. apply repeat_spec in Hx. subst.
  simpl. unfold usize. simpl. rewrite sumN_nil. lia.
Qed.

(** the admission test passed for an `all` entry: the concise maximum equals the full size *)
Lemma hr_entries_all pools free entries : forall coupling cp,
  hr_entries pools free entries coupling = Ok (true, cp) ->
  forall e, In e entries -> e_req e = ReqAll ->
  exists p c m, nth_error pools (nat_of (e_res e)) = Some p /\ nth_error free (nat_of (e_res e)) = Some c
                /\ amount_max_alloc c = Ok m /\ m = pool_full_size p.
Proof.
  induction entries as [|x rest IH]; intros coupling cp H e Hin Hall; [destruct Hin|].
  simpl in H. destruct (N.leb_spec (len pools) (e_res x)); [discriminate|].
  destruct (get_at pools (e_res x)) as [p| |] eqn:Ep; cbn [bind] in H; try discriminate.
  destruct (get_at free (e_res x)) as [c| |] eqn:Ec; cbn [bind] in H; try discriminate.
  destruct (amount_max_alloc c) as [m| |] eqn:Em; cbn [bind] in H; try discriminate.
  destruct Hin as [<-|Hin].
  - rewrite Hall in H. destruct (N.eqb_spec m (pool_full_size p)); [|discriminate].
    apply get_at_ok in Ep. apply get_at_ok in Ec. destruct Ep, Ec. exists p, c, m. auto.
  - destruct (match e_req x with Req _ a => a <=? m | ReqAll => m =? pool_full_size p end); [|discriminate].
    eapply IH; eauto.
Qed.

Lemma has_resources_true a rq w yard :
  has_resources a rq w = Ok (true, yard) -> exists cp, hr_entries (a_pools a) (a_free a) rq [] = Ok (true, cp).
Proof.
  unfold has_resources. destruct (hr_entries (a_pools a) (a_free a) rq []) as [[ok cp]| |]; cbn [bind]; try discriminate.
  destruct ok; simpl; [eauto|]. intros H; inversion H.
Qed.

(** stacks inside their universe: full when as long *)
Lemma sum_le_eq (xs ys : list N) :
  Forall2 (fun x y => x <= y) xs ys -> sumN xs = sumN ys -> Forall2 eq xs ys.
Proof.
  induction 1 as [|x y xs ys Hxy H IH]; intros Hs; [constructor|].
  rewrite !sumN_cons in Hs.
  assert (sumN xs <= sumN ys). { clear -H. induction H; rewrite ?sumN_cons, ?sumN_nil; lia. }
  constructor; [lia|]. apply IH. lia.
Qed.

(** C04: an `all` entry of an index / group resource is granted only when every index is free *)
Theorem all_only_when_free_groups d s0 ops s rq w s' al e p0 :
  init d = Ok s0 -> Forall valid_op ops -> run s0 ops = Ok s ->
  step s (OAlloc rq w) = Ok (s', OutGrant al) -> In e rq -> e_req e = ReqAll ->
  nth_error (worker_pools s0) (nat_of (e_res e)) = Some p0 -> pool_is_sum p0 = false ->
  forall g i, in_universe (worker_pools s0) (e_res e) g i = true ->
              pools_free (a_pools (s_alloc s)) (e_res e) g i = FPU.
Proof.
  intros Hi Hv Hr Hs Hin Hall H0 Hns g i Hu.
  assert (HF : FullInv (a_pools (s_alloc s0)) s) by (eapply run_full; [apply (init_full d); auto | eauto | eauto]).
  destruct HF as [(L1 & L2 & HI) _]. pose proof (reachable_nodup _ _ _ _ Hi Hr) as Hn.
  pose proof (init_sized _ _ Hi) as Hsz.
  simpl in Hs. unfold try_allocate in Hs.
  destruct (has_resources (s_alloc s) rq w) as [[ok yard]| |] eqn:Eh; simpl in Hs; try discriminate.
  destruct ok; simpl in Hs.
  2:{ inversion Hs. }
  destruct (has_resources_true _ _ _ _ Eh) as [cp Hhr].
  destruct (hr_entries_all _ _ _ _ _ Hhr e Hin Hall) as (p & c & m & Hp & Hc & Hm & Hfull).
  unfold worker_pools in *.
  assert (Hr0 : e_res e < len (a_pools (s_alloc s0))).
  { apply nth_error_some_lt in H0. unfold len, nat_of in *. lia. }
  pose proof (HI _ _ _ _ Hr0 H0 Hp Hc) as (K & F & C).
  assert (Hcn : cs_nodup c) by (eapply Forall_nth; eauto).
  assert (Hsized : sized p0) by (eapply Forall_nth; eauto).
  unfold in_universe in Hu. rewrite H0 in Hu. unfold pools_free. rewrite Hp. unfold pool_free, pool_universe in *.
  destruct p as [|f gr|f gs|f x]; destruct p0 as [|f0 g0|f0 gs0|f0 x0]; try discriminate K; try discriminate Hns.
  - destruct (nat_of g); discriminate Hu.
  - (* index pool *)
    destruct C as (HG & Hmr & Hw & _). simpl pool_groups in *.
    destruct (group_like_max _ _ Hmr Hw Hcn) as (A & B & Cb).
    unfold amount_max_alloc in Hm. rewrite B in Hm.
    destruct (N.ltb_spec (maxsnd (map (fun g1 => (len (g_idx g1), fmax (g_fr g1))) [gr])) FPU); [|lia].
    injection Hm as Hm'. rewrite <- Hm' in Hfull. rewrite A in Hfull. simpl in F, Hsized. unfold usize in Hsized. simpl in Hsized.
    cbn [map] in Hfull. rewrite sumN_cons, sumN_nil in Hfull, Hsized. simpl fst in Hfull.
    destruct (nat_of g) as [|n] eqn:Eg; simpl in Hu |- *; [|destruct n; discriminate Hu].
    destruct HG as [_ HG]. specialize (HG 0 (g_idx g0) gr eq_refl eq_refl). destruct HG as ((Hnd & _) & _ & Hout & _); [unfold len; simpl; lia|].
    assert (Hincl : incl (g_idx gr) (g_idx g0)).
    { intros y Hy. destruct (in_dec N.eq_dec y (g_idx g0)); auto. destruct (Hout y n) as [X _]. contradiction. }
    assert (Hlen : (length (g_idx g0) <= length (g_idx gr))%nat).
    { cbn [pool_full_size] in Hfull. unfold maxsnd in *. cbn [map fold_right snd] in *. unfold mk_amount, len in *. unfold FPU, FRACTIONS_PER_UNIT in *. lia. }
    apply memN_in in Hu. apply group_free_in. eapply NoDup_length_incl; eauto.
  - (* group pool *)
    destruct C as (HG & Hmr & Hw & _). simpl pool_groups in *.
    destruct (group_like_max _ _ Hmr Hw Hcn) as (A & B & Cb).
    unfold amount_max_alloc in Hm. rewrite B in Hm.
    destruct (N.ltb_spec (maxsnd (map (fun g1 => (len (g_idx g1), fmax (g_fr g1))) gs)) FPU); [|lia].
    injection Hm as Hm'. rewrite <- Hm' in Hfull. rewrite A in Hfull. simpl in F, Hsized. unfold usize in Hsized. simpl in Hsized.
    rewrite map_map in Hfull. simpl in Hfull.
    destruct HG as [Lg HG]. unfold pool_us in *. simpl pool_groups in *. rewrite map_length in Lg.
    (* per group: the stack is inside the universe, hence not longer *)
    assert (Hle : Forall2 (fun x y => x <= y) (map (fun g1 => len (g_idx g1)) gs) (map (fun g1 => len (g_idx g1)) gs0)).
    { apply Forall2_from_nth; [rewrite !map_length; auto|].
      intros n x y Hx Hy. rewrite nth_error_map in Hx, Hy.
      destruct (nth_error gs n) as [gn|] eqn:En; [|discriminate]. destruct (nth_error gs0 n) as [g0n|] eqn:E0n; [|discriminate].
      inversion Hx; inversion Hy; subst.
      specialize (HG (N.of_nat n) (g_idx g0n) gn). rewrite nat_of_of_nat in HG.
      destruct HG as ((Hnd & _) & _ & Hout & _); auto.
      { rewrite nth_error_map, E0n. auto. } { apply nth_error_some_lt in En. unfold len. lia. }
      assert (Hincl : incl (g_idx gn) (g_idx g0n)).
      { intros z Hz. destruct (in_dec N.eq_dec z (g_idx g0n)); auto. destruct (Hout z n0) as [X _]. contradiction. }
      pose proof (NoDup_incl_length Hnd Hincl). unfold len. lia. }
    assert (Hsum : sumN (map (fun g1 => len (g_idx g1)) gs) = sumN (map (fun g1 => len (g_idx g1)) gs0)).
    { cbn [pool_full_size] in Hfull. unfold mk_amount in Hfull. unfold FPU, FRACTIONS_PER_UNIT in *.
      remember (sumN (map (fun g1 : group => len (g_idx g1)) gs)) as S1.
      remember (sumN (map (fun g1 : group => len (g_idx g1)) gs0)) as S0.
      remember (maxsnd (map (fun g1 : group => (len (g_idx g1), fmax (g_fr g1))) gs)) as M.
      clear - Hfull F Hsized H. lia. }
    pose proof (sum_le_eq _ _ Hle Hsum) as Heq.
    rewrite nth_error_map in Hu. destruct (nth_error gs0 (nat_of g)) as [g0n|] eqn:E0n; [|discriminate Hu]. simpl in Hu.
    destruct (nth_error gs (nat_of g)) as [gn|] eqn:En.
    2:{ apply nth_error_None in En. apply nth_error_some_lt in E0n. lia. }
    assert (Hl : len (g_idx gn) = len (g_idx g0n)).
    { eapply (Forall2_nth2 _ _ _ (nat_of g)); [exact Heq| |]; rewrite nth_error_map; [rewrite En|rewrite E0n]; reflexivity. }
    specialize (HG g (g_idx g0n) gn). destruct HG as ((Hnd & _) & _ & Hout & _); auto.
    { rewrite nth_error_map, E0n. auto. } { apply nth_error_some_lt in En. unfold len, nat_of in *. lia. }
    assert (Hincl : incl (g_idx gn) (g_idx g0n)).
    { intros z Hz. destruct (in_dec N.eq_dec z (g_idx g0n)); auto. destruct (Hout z n) as [X _]. contradiction. }
    apply memN_in in Hu. apply group_free_in.
    assert (Hlen2 : (length (g_idx g0n) <= length (g_idx gn))%nat) by (unfold len in Hl; lia).
    exact (NoDup_length_incl Hnd Hlen2 Hincl i Hu).
Qed.

(** ... and of a sum resource only when nothing of it is taken *)
Theorem all_only_when_free_sum d s0 ops s rq w s' al e f x :
  init d = Ok s0 -> Forall valid_op ops -> run s0 ops = Ok s ->
  step s (OAlloc rq w) = Ok (s', OutGrant al) -> In e rq -> e_req e = ReqAll ->
  nth_error (worker_pools s0) (nat_of (e_res e)) = Some (PSum f x) ->
  nth_error (a_pools (s_alloc s)) (nat_of (e_res e)) = Some (PSum f f).
Proof.
  intros Hi Hv Hr Hs Hin Hall H0.
  assert (HF : FullInv (a_pools (s_alloc s0)) s) by (eapply run_full; [apply (init_full d); auto | eauto | eauto]).
  destruct HF as [(L1 & L2 & HI) _]. pose proof (reachable_nodup _ _ _ _ Hi Hr) as Hn.
  simpl in Hs. unfold try_allocate in Hs.
  destruct (has_resources (s_alloc s) rq w) as [[ok yard]| |] eqn:Eh; simpl in Hs; try discriminate.
  destruct ok; simpl in Hs.
  2:{ inversion Hs. }
  destruct (has_resources_true _ _ _ _ Eh) as [cp Hhr].
  destruct (hr_entries_all _ _ _ _ _ Hhr e Hin Hall) as (p & c & m & Hp & Hc & Hm & Hfull).
  unfold worker_pools in *.
  assert (Hr0 : e_res e < len (a_pools (s_alloc s0))).
  { apply nth_error_some_lt in H0. unfold len, nat_of in *. lia. }
  pose proof (HI _ _ _ _ Hr0 H0 Hp Hc) as (K & F & C).
  assert (Hcn : cs_nodup c) by (eapply Forall_nth; eauto).
  destruct p as [| | |f' free]; try discriminate K. simpl in F. subst f'.
  destruct C as (_ & (cg & -> & Hsm & Hl & Ho) & _). pose proof (Forall_inv Hcn) as Hnk. cbv beta in Hnk.
  unfold amount_max_alloc, cs_max_fraction, cs_units_sum in Hm. simpl in Hm.
  rewrite (fmax_single _ Hnk Ho), N.max_0_r in Hm.
  destruct (N.ltb_spec (fget0 (c_fr cg) 0) FPU); [|lia]. injection Hm as Hm'. rewrite <- Hm' in Hfull.
  unfold mk_amount in Hfull. simpl in Hfull. rewrite N.add_0_r, Hsm in Hfull. subst. auto.
Qed.
