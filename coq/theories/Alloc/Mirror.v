(** The concise mirror through releases (ConciseResourceState::add vs ResourcePool::release_allocation)
    and through whole operation sequences (C04_concise_mirrors). *)
From Coq Require Import Permutation.
From HQ Require Import Base.Prelude Gen.Consts Alloc.Model Alloc.Spec Alloc.Lemmas Alloc.Group Alloc.Pool Alloc.Inv Alloc.System.
Require Import ZifyBool ZifyN ZifyNat.
Open Scope N_scope.
Arguments N.add : simpl never.
Arguments N.sub : simpl never.
Arguments N.mul : simpl never.
Arguments N.div : simpl never.
Arguments N.modulo : simpl never.
Arguments N.eqb : simpl never.
Arguments N.ltb : simpl never.
Arguments N.leb : simpl never.
Arguments N.of_nat : simpl never.
Arguments N.to_nat : simpl never.
Arguments sumN : simpl never.

(** number of entries of a list that belong to group g *)
Definition cntg (l : list aidx) (g : N) : N := sumN (map (fun ix => if ai_group ix =? g then 1 else 0) l).
Lemma cntg_cons ix l g : cntg (ix :: l) g = (if ai_group ix =? g then 1 else 0) + cntg l g.
Proof. unfold cntg. cbn [map]. rewrite sumN_cons. auto. Qed.
Lemma cntg_nil g : cntg [] g = 0.
Proof. reflexivity. Qed.
Lemma cntg_perm l l' g : Permutation l l' -> cntg l g = cntg l' g.
Proof. intros. unfold cntg. apply sumN_map_perm. auto. Qed.

Lemma nat_of_of_nat n : nat_of (N.of_nat n) = n.
Proof. unfold nat_of. lia. Qed.

(** pushing whole indices back (any order): only the stacks grow, by the number of entries per group *)
Lemma release_wholes l : forall gs gs',
  Forall whole l -> release_indices_groups gs l = Ok gs' ->
  length gs' = length gs
  /\ forall n gr, nth_error gs n = Some gr ->
       exists gr', nth_error gs' n = Some gr' /\ g_fr gr' = g_fr gr
                   /\ len (g_idx gr') = len (g_idx gr) + cntg l (N.of_nat n).
Proof.
  induction l as [|ix l IH]; intros gs gs' Hw Hr; simpl in Hr.
  - inversion Hr; subst. split; auto. intros n gr Hn. exists gr. rewrite cntg_nil. repeat split; auto. lia.
  - inversion Hw as [|? ? Hx Hw']; subst.
    destruct (get_at gs (ai_group ix)) as [g| |] eqn:Eg; simpl in Hr; try discriminate.
    unfold release_index in Hr. unfold whole in Hx. rewrite Hx, N.eqb_refl in Hr. cbn [bind] in Hr.
    apply get_at_ok in Eg. destruct Eg as [Hlt Hnth].
    destruct (IH _ _ Hw' Hr) as [L H]. split; [rewrite L; apply set_at_length|].
    intros n gr Hn. rewrite cntg_cons.
    destruct (Nat.eq_dec (nat_of (ai_group ix)) n) as [E|E].
    + subst n. rewrite Hnth in Hn. inversion Hn; subst gr.
      destruct (H (nat_of (ai_group ix)) (mkGroup (ai_index ix :: g_idx g) (g_fr g))) as (gr' & A & B & C).
      { rewrite nth_error_set_at. destruct (N.ltb_spec (ai_group ix) (len gs)); [|lia]. rewrite Nat.eqb_refl. auto. }
      exists gr'. split; auto. split; auto. simpl in C. rewrite C.
      replace (N.of_nat (nat_of (ai_group ix))) with (ai_group ix) by (unfold nat_of; lia).
      rewrite N.eqb_refl. unfold len. simpl length. lia.
    + destruct (H n gr) as (gr' & A & B & C).
      { rewrite nth_error_set_at. destruct (Nat.eqb_spec (nat_of (ai_group ix)) n); [congruence|]. rewrite andb_false_r. auto. }
      exists gr'. split; auto. split; auto. rewrite C.
      destruct (N.eqb_spec (ai_group ix) (N.of_nat n)); [subst; rewrite e, nat_of_of_nat in E; congruence | lia].
Qed.

Lemma add_wholes l : forall cs,
  Forall whole l -> Forall (fun ix => ai_group ix < len cs) l ->
  exists cs', add_loop_groups cs l = Ok cs' /\ length cs' = length cs
    /\ forall n c, nth_error cs n = Some c ->
         exists c', nth_error cs' n = Some c' /\ c_fr c' = c_fr c /\ c_units c' = c_units c + cntg l (N.of_nat n).
Proof.
  induction l as [|ix l IH]; intros cs Hw Hb; simpl.
  - exists cs. repeat split; auto. intros n c Hn. exists c. rewrite cntg_nil. repeat split; auto. lia.
  - inversion Hw as [|? ? Hx Hw']; subst. inversion Hb as [|? ? Hlt Hb']; subst.
    unfold whole in Hx. rewrite Hx, N.eqb_refl.
    destruct (get_at_lt cs (ai_group ix) Hlt) as [c0 Hc0]. rewrite Hc0. cbn [bind].
    apply get_at_ok in Hc0. destruct Hc0 as [_ Hnth].
    destruct (IH (set_at cs (ai_group ix) (mkCgroup (c_units c0 + 1) (c_fr c0))) Hw') as (cs' & A & L & H).
    { rewrite Forall_forall in *. intros y Hy. rewrite len_set_at. auto. }
    exists cs'. split; auto. split; [rewrite L; apply set_at_length|].
    intros n c Hn. rewrite cntg_cons.
    destruct (Nat.eq_dec (nat_of (ai_group ix)) n) as [E|E].
    + subst n. rewrite Hnth in Hn. inversion Hn; subst c.
      destruct (H (nat_of (ai_group ix)) (mkCgroup (c_units c0 + 1) (c_fr c0))) as (c' & P & Q & R).
      { rewrite nth_error_set_at. destruct (N.ltb_spec (ai_group ix) (len cs)); [|lia]. rewrite Nat.eqb_refl. auto. }
      exists c'. split; auto. split; auto. simpl in R. rewrite R.
      replace (N.of_nat (nat_of (ai_group ix))) with (ai_group ix) by (unfold nat_of; lia).
      rewrite N.eqb_refl. lia.
    + destruct (H n c) as (c' & P & Q & R).
      { rewrite nth_error_set_at. destruct (Nat.eqb_spec (nat_of (ai_group ix)) n); [congruence|]. rewrite andb_false_r. auto. }
      exists c'. split; auto. split; auto. rewrite R.
      destruct (N.eqb_spec (ai_group ix) (N.of_nat n)); [subst; rewrite e, nat_of_of_nat in E; congruence | lia].
Qed.

Lemma release_groups_app a : forall b gs,
  release_indices_groups gs (a ++ b) =
  match release_indices_groups gs a with Ok gs1 => release_indices_groups gs1 b | Panic s => Panic s | Disabled => Disabled end.
Proof.
  induction a as [|ix a IH]; intros b gs; simpl; auto.
  destruct (get_at gs (ai_group ix)); simpl; auto. destruct (release_index a0 ix); simpl; auto.
Qed.

Lemma add_loop_app a : forall b cs,
  add_loop_groups cs (a ++ b) =
  match add_loop_groups cs a with Ok cs1 => add_loop_groups cs1 b | Panic s => Panic s | Disabled => Disabled end.
Proof.
  induction a as [|ix a IH]; intros b cs; simpl; auto.
  destruct (ai_frac ix =? 0).
  - destruct (get_at cs (ai_group ix)); simpl; auto.
  - destruct (add_fractions cs (ai_group ix) (ai_index ix) (ai_frac ix)); simpl; auto.
Qed.

(** add_fractions of the model = cgive1 on the group *)
Lemma add_fractions_cgive1 s gi ix :
  ai_frac ix <> 0 ->
  add_fractions s gi (ai_index ix) (ai_frac ix) =
  match get_at s gi with
  | Ok c => match cgive1 c ix with Ok c' => Ok (set_at s gi c') | Panic p => Panic p | Disabled => Disabled end
  | Panic p => Panic p | Disabled => Disabled
  end.
Proof.
  intros Hz. unfold add_fractions, cgive1. destruct (get_at s gi); simpl; auto.
  destruct (N.eqb_spec (ai_frac ix) 0); [congruence|].
  destruct (FPU <=? fget0 (c_fr a) (ai_index ix) + ai_frac ix); auto.
  destruct (FPU <=? fget0 (c_fr a) (ai_index ix) + ai_frac ix - FPU); auto.
Qed.

(** cgive1 does not look at the units: an offset on the units commutes *)
Lemma cgive1_offset c ix k c' :
  cgive1 c ix = Ok c' -> cgive1 (mkCgroup (c_units c + k) (c_fr c)) ix = Ok (mkCgroup (c_units c' + k) (c_fr c')).
Proof.
  unfold cgive1. simpl. destruct (ai_frac ix =? 0).
  - intros H; inversion H; subst; simpl. f_equal. f_equal. lia.
  - destruct (FPU <=? fget0 (c_fr c) (ai_index ix) + ai_frac ix).
    + destruct (FPU <=? fget0 (c_fr c) (ai_index ix) + ai_frac ix - FPU); [discriminate|].
      intros H; inversion H; subst; simpl. f_equal. f_equal. lia.
    + intros H; inversion H; subst; simpl. auto.
Qed.

Lemma Forall2_from_nth {A B} (R : A -> B -> Prop) : forall l l',
  length l = length l' ->
  (forall n x y, nth_error l n = Some x -> nth_error l' n = Some y -> R x y) -> Forall2 R l l'.
Proof.
  induction l as [|x l IH]; intros [|y l'] L H; simpl in L; try discriminate; constructor.
  - apply (H O); auto.
  - apply IH; [lia|]. intros n a b Ha Hb. apply (H (S n)); auto.
Qed.

Lemma Forall2_nth2 {A B} (R : A -> B -> Prop) l l' n x y :
  Forall2 R l l' -> nth_error l n = Some x -> nth_error l' n = Some y -> R x y.
Proof.
  intros H Hx Hy. destruct (Forall2_nth _ _ _ _ _ H Hx) as [y' [A1 A2]]. congruence.
Qed.

Lemma nth_error_some_lt {A} (l : list A) n x : nth_error l n = Some x -> (n < length l)%nat.
Proof. intros H. apply nth_error_Some. congruence. Qed.

(** the mirror after a release, when only whole indices are returned *)
Lemma release_mirror_wholes gs cs ws gs' :
  gs_mirror gs cs -> Forall whole ws -> Forall (fun ix => ai_group ix < len gs) ws ->
  release_indices_groups gs (rev ws) = Ok gs' ->
  exists cs', add_loop_groups cs ws = Ok cs' /\ gs_mirror gs' cs'.
Proof.
  intros Hm Hw Hb Hr.
  destruct (release_wholes _ _ _ (Forall_rev Hw) Hr) as [L1 H1].
  assert (Hb' : Forall (fun ix => ai_group ix < len cs) ws).
  { rewrite <- (Forall2_len _ _ _ Hm). auto. }
  destruct (add_wholes _ cs Hw Hb') as (cs' & A & L2 & H2).
  exists cs'. split; auto. apply Forall2_from_nth.
  - rewrite L1, L2. unfold gs_mirror in Hm. clear -Hm. induction Hm; simpl; auto.
  - intros n g' c' Hg' Hc'.
    assert (Hn : (n < length gs)%nat) by (rewrite <- L1; eapply nth_error_some_lt; eauto).
    destruct (nth_error gs n) as [g|] eqn:Eg; [|apply nth_error_None in Eg; lia].
    destruct (Forall2_nth _ _ _ _ _ Hm Eg) as [c [Ec [Mu Mf]]].
    destruct (H1 n g Eg) as (g2 & P1 & P2 & P3). destruct (H2 n c Ec) as (c2 & Q1 & Q2 & Q3).
    rewrite Hg' in P1. inversion P1; subst g2. rewrite Hc' in Q1. inversion Q1; subst c2.
    split.
    + rewrite Q3, P3, Mu. rewrite (cntg_perm (rev ws) ws); auto. apply Permutation_sym, Permutation_rev.
    + intros i. rewrite Q2, P2. auto.
Qed.

Lemma nth_error_ext {A} : forall (l l' : list A), (forall n, nth_error l n = nth_error l' n) -> l = l'.
Proof.
  induction l as [|x l IH]; intros [|y l'] H; auto.
  - specialize (H O). discriminate.
  - specialize (H O). discriminate.
  - f_equal; [specialize (H O); simpl in H; congruence | apply IH; intros n; apply (H (S n))].
Qed.

Lemma cgroup_eta c u f : c_units c = u -> c_fr c = f -> c = mkCgroup u f.
Proof. destruct c; simpl; intros; subst; auto. Qed.

(** the mirror after a release that returns whole indices and one fraction *)
Lemma release_mirror_frac gs cs ws F gs' u h hf :
  gs_mirror gs cs -> Forall whole ws -> Forall (fun ix => ai_group ix < len gs) ws ->
  (forall g, nth_error gs (nat_of (ai_group F)) = Some g -> GI u g (add_h h F) (add_hf hf F)) ->
  ai_frac F <> 0 -> ai_frac F < FPU ->
  release_indices_groups gs (F :: rev ws) = Ok gs' ->
  exists cs', add_loop_groups cs (ws ++ [F]) = Ok cs' /\ gs_mirror gs' cs'.
Proof.
  intros Hm Hw Hb HGI Hz Hlt Hr. simpl in Hr.
  destruct (get_at gs (ai_group F)) as [g| |] eqn:Eg; simpl in Hr; try discriminate.
  destruct (release_index g F) as [g1| |] eqn:Er; simpl in Hr; try discriminate.
  apply get_at_ok in Eg. destruct Eg as [HltF Hnth].
  destruct (Forall2_nth _ _ _ _ _ Hm Hnth) as [c [Ec Mc]].
  destruct (cgive1_mirror _ _ _ _ _ _ _ (HGI g Hnth) Mc Er Hlt) as (c1 & Hc1 & Mc1).
  assert (Hm1 : gs_mirror (set_at gs (ai_group F) g1) (set_at cs (ai_group F) c1)) by (apply Forall2_set_at; auto).
  assert (Hb1 : Forall (fun ix => ai_group ix < len (set_at gs (ai_group F) g1)) ws).
  { rewrite Forall_forall in *. intros y Hy. rewrite len_set_at. auto. }
  destruct (release_mirror_wholes _ _ _ _ Hm1 Hw Hb1 Hr) as (cs2 & A2 & M2).
  exists cs2. split; auto.
  (* add ws, then F  =  F first (on the units-offset group), then ws *)
  rewrite add_loop_app.
  assert (Hlen : len cs = len gs) by (symmetry; apply (Forall2_len _ _ _ Hm)).
  assert (Hbc : Forall (fun ix => ai_group ix < len cs) ws) by (rewrite Hlen; auto).
  destruct (add_wholes _ cs Hw Hbc) as (csw & Aw & Lw & Hw2). rewrite Aw.
  assert (Hbc1 : Forall (fun ix => ai_group ix < len (set_at cs (ai_group F) c1)) ws).
  { rewrite Forall_forall in *. intros y Hy. rewrite len_set_at. auto. }
  destruct (add_wholes _ (set_at cs (ai_group F) c1) Hw Hbc1) as (cs2' & A2' & L2 & H2).
  rewrite A2 in A2'. inversion A2'; subst cs2'. clear A2'.
  simpl add_loop_groups. destruct (N.eqb_spec (ai_frac F) 0); [congruence|].
  rewrite add_fractions_cgive1 by auto.
  destruct (Hw2 _ _ Ec) as (cw & Pw & Qw & Rw).
  assert (Hgw : get_at csw (ai_group F) = Ok cw).
  { apply get_at_ok. split; auto. unfold len in *. rewrite Lw. lia. }
  rewrite Hgw.
  rewrite (cgroup_eta cw _ _ Rw Qw). rewrite (cgive1_offset _ _ _ _ Hc1). cbn [bind].
  f_equal. apply nth_error_ext. intros k.
  rewrite nth_error_set_at.
  assert (HltW : ai_group F < len csw) by (unfold len in *; rewrite Lw; lia).
  destruct (N.ltb_spec (ai_group F) (len csw)); [|lia]. simpl.
  destruct (Nat.eqb_spec (nat_of (ai_group F)) k) as [E|E].
  - subst k. destruct (H2 (nat_of (ai_group F)) c1) as (c2 & P2 & Q2 & R2).
    { rewrite nth_error_set_at. destruct (N.ltb_spec (ai_group F) (len cs)); [|lia]. rewrite Nat.eqb_refl. auto. }
    rewrite P2. f_equal. symmetry. apply cgroup_eta; auto.
  - destruct (nth_error cs k) as [cn|] eqn:En.
    + destruct (Hw2 _ _ En) as (cwn & Pn & Qn & Rn).
      destruct (H2 k cn) as (c2 & P2 & Q2 & R2).
      { rewrite nth_error_set_at. destruct (Nat.eqb_spec (nat_of (ai_group F)) k); [congruence|]. rewrite andb_false_r. auto. }
      rewrite Pn, P2. f_equal. rewrite (cgroup_eta cwn _ _ Rn Qn). symmetry. apply cgroup_eta; congruence.
    + assert (nth_error csw k = None) by (apply nth_error_None; apply nth_error_None in En; lia).
      assert (nth_error cs2 k = None).
      { apply nth_error_None. apply nth_error_None in En. rewrite L2, set_at_length. lia. }
      congruence.
Qed.

(* ---------- ConciseResourceState::add: the single-group branch is the loop ---------- *)
Lemma add_loop_single_wholes ws : forall c,
  Forall whole ws -> Forall (fun ix => ai_group ix = 0) ws ->
  add_loop_groups [c] ws = Ok [mkCgroup (c_units c + len ws) (c_fr c)].
Proof.
  induction ws as [|ix ws IH]; intros c Hw Hg; simpl.
  - unfold len; simpl. rewrite N.add_0_r. destruct c; auto.
  - inversion Hw as [|? ? Hx Hw']; subst. inversion Hg as [|? ? Hg0 Hg']; subst.
    unfold whole in Hx. rewrite Hx, N.eqb_refl, Hg0. rewrite get_at_single. cbn [bind].
    change (set_at [c] 0 (mkCgroup (c_units c + 1) (c_fr c))) with [mkCgroup (c_units c + 1) (c_fr c)].
    rewrite IH by auto. simpl. f_equal. f_equal. f_equal. unfold len. simpl length. lia.
Qed.

Lemma bind_ok_id {A} (r : res A) : bind r (fun x => Ok x) = r.
Proof. destruct r; auto. Qed.

Lemma cs_add_single_eq cg ra :
  shape_ok (ra_indices ra) = true -> ra_total ra = ra_amount ra ->
  Forall (fun ix => ai_group ix = 0) (ra_indices ra) ->
  cs_add [cg] ra = add_loop_groups [cg] (ra_indices ra).
Proof.
  intros Hshape Htot Hg0.
  destruct (shape_split _ Hshape) as (ws & fs & E & Hw & Hf).
  unfold ra_total in Htot. rewrite ra_total_sum, E, map_app, sumN_app, (sum_whole _ Hw) in Htot.
  rewrite E in Hg0. apply Forall_app in Hg0. destruct Hg0 as [Hg1 Hg2].
  unfold cs_add. rewrite <- Htot, E. destruct Hf as [->|(F & -> & HFz & HFl)].
  - cbn [map] in *. rewrite sumN_nil. rewrite split_mk by apply FPU_pos. rewrite app_nil_r.
    destruct (N.ltb_spec 0 0); [lia|]. rewrite add_loop_single_wholes; auto.
  - cbn [map] in *. rewrite sumN_cons, sumN_nil.
    assert (HhF : held_ix F = ai_frac F) by (unfold held_ix; destruct (N.eqb_spec (ai_frac F) 0); congruence).
    rewrite HhF, N.add_0_r. rewrite split_mk by auto.
    destruct (N.ltb_spec 0 (ai_frac F)); [|lia].
    destruct (ws ++ [F]) eqn:EE; [destruct ws; discriminate|]. rewrite <- EE. clear EE.
    rewrite rev_app_distr. simpl rev. simpl app. cbn [fr_loop_single].
    destruct (N.eqb_spec (ai_frac F) 0); [congruence|].
    rewrite add_loop_app, add_loop_single_wholes by auto.
    inversion Hg2 as [|? ? HgF _]; subst. simpl add_loop_groups.
    destruct (N.eqb_spec (ai_frac F) 0); [congruence|]. rewrite HgF.
    destruct (add_fractions [mkCgroup (c_units cg + len ws) (c_fr cg)] 0 (ai_index F) (ai_frac F)); cbn [bind]; auto.
    apply fr_loop_single_whole. apply Forall_rev; auto.
Qed.

(** ConciseResourceState::add mirrors ResourcePool::release_allocation (index / group pools) *)
Lemma cs_add_mirror us gs cs Hb ra gs' :
  gs_mirror gs cs -> shape_ok (ra_indices ra) = true -> ra_total ra = ra_amount ra ->
  Forall (fun ix => ai_frac ix < FPU /\ ai_group ix < len gs) (ra_indices ra) ->
  GsI us gs (hsum (Hb ++ ra_indices ra)) (hfany (Hb ++ ra_indices ra)) ->
  release_indices_groups gs (rev (ra_indices ra)) = Ok gs' ->
  exists cs', cs_add cs ra = Ok cs' /\ gs_mirror gs' cs'.
Proof.
  intros Hm Hshape Htot Hb0 HG Hr.
  assert (Hloop : exists cs', add_loop_groups cs (ra_indices ra) = Ok cs' /\ gs_mirror gs' cs').
  { destruct (shape_split _ Hshape) as (ws & fs & E & Hw & Hf).
    rewrite E in *. apply Forall_app in Hb0. destruct Hb0 as [Hbw Hbf].
    assert (Hbw' : Forall (fun ix => ai_group ix < len gs) ws).
    { rewrite Forall_forall in *. intros y Hy. apply Hbw; auto. }
    destruct Hf as [->|(F & -> & HFz & HFl)].
    - rewrite app_nil_r in *. eapply release_mirror_wholes; eauto.
    - rewrite rev_app_distr in Hr. simpl rev in Hr. simpl app in Hr.
      inversion Hbf as [|? ? [_ HgF] _]; subst.
      destruct HG as [Lg HG].
      assert (Hu : exists u, nth_error us (nat_of (ai_group F)) = Some u).
      { destruct (nth_error us (nat_of (ai_group F))) eqn:E1; eauto.
        apply nth_error_None in E1. unfold len, nat_of in *. lia. }
      destruct Hu as [u Hu].
      eapply (release_mirror_frac gs cs ws F gs' u (hsum (Hb ++ ws) (ai_group F)) (hfany (Hb ++ ws) (ai_group F))); eauto.
      intros g Hg. eapply GI_ext; [| |eapply HG; eauto]; intros i; unfold add_h, add_hf;
        rewrite ?app_assoc, ?hsum_app, ?hfany_app; unfold hsum, hfany; cbn [map existsb]; rewrite ?sumN_cons, ?sumN_nil, N.eqb_refl; simpl.
      + destruct (N.eqb_spec i (ai_index F)); destruct (N.eqb_spec (ai_index F) i); try congruence; lia.
      + destruct (N.eqb_spec i (ai_index F)); destruct (N.eqb_spec (ai_index F) i); try congruence; simpl; rewrite ?orb_false_r; auto. }
  destruct Hloop as (cs' & A & B). exists cs'. split; auto.
  destruct cs as [|cg [|c2 cs2]]; try exact A.
  rewrite cs_add_single_eq; auto.
  assert (len gs = 1) by (rewrite (Forall2_len _ _ _ Hm); reflexivity).
  rewrite Forall_forall in *. intros y Hy. destruct (Hb0 y Hy). lia.
Qed.

(** ... and for a sum resource *)
Lemma cs_add_sum free c ra :
  sum_mirror free c -> ra_indices ra = [] ->
  exists c', cs_add c ra = Ok c' /\ sum_mirror (free + ra_amount ra) c'.
Proof.
  intros (cg & -> & Hsum & Hlt & Hoth) Hnil. unfold cs_add. rewrite Hnil.
  unfold split. set (a := ra_amount ra) in *.
  destruct (N.ltb_spec 0 (a mod FPU)) as [Hpos|Hz].
  - unfold add_fractions. rewrite get_at_single. cbn [bind c_units c_fr]. cbv zeta.
    destruct (N.leb_spec FPU (fget0 (c_fr cg) 0 + a mod FPU)) as [Hb|Hb].
    + destruct (N.leb_spec FPU (fget0 (c_fr cg) 0 + a mod FPU - FPU)); [unfold FPU, FRACTIONS_PER_UNIT in *; lia|].
      eexists; split; [reflexivity|]. eexists; split; [reflexivity|]. cbn [c_units c_fr].
      rewrite fget0_fset, N.eqb_refl. repeat split.
      * unfold FPU, FRACTIONS_PER_UNIT in *; lia.
      * unfold FPU, FRACTIONS_PER_UNIT in *; lia.
      * intros i Hi. rewrite fget0_fset. destruct (N.eqb_spec 0 i); [congruence|auto].
    + eexists; split; [reflexivity|]. eexists; split; [reflexivity|]. cbn [c_units c_fr].
      rewrite fget0_fset, N.eqb_refl. repeat split.
      * unfold FPU, FRACTIONS_PER_UNIT in *; lia.
      * unfold FPU, FRACTIONS_PER_UNIT in *; lia.
      * intros i Hi. rewrite fget0_fset. destruct (N.eqb_spec 0 i); [congruence|auto].
  - eexists; split; [reflexivity|]. eexists; split; [reflexivity|]. cbn [c_units c_fr]. repeat split; auto.
    unfold FPU, FRACTIONS_PER_UNIT in *; lia.
Qed.

(* ------------------------------------------------------------------------------------------ *)
(** * per-pool: release with the mirror *)

Lemma GsI_wf us gs h hf : GsI us gs h hf -> gs_wf gs.
Proof.
  intros [L H]. apply Forall_forall. intros g Hin. apply In_nth_error in Hin. destruct Hin as [n Hn].
  assert (Hlt : (n < length gs)%nat) by (eapply nth_error_some_lt; eauto).
  destruct (nth_error us n) as [u|] eqn:Eu; [|apply nth_error_None in Eu; lia].
  specialize (H (N.of_nat n) u g). rewrite nat_of_of_nat in H. destruct H as [Hwf _]; auto. unfold len. lia.
Qed.

Definition ra_wf (p : pool) (ra : ralloc) : Prop :=
  match p with PSum _ _ => True | _ => shape_ok (ra_indices ra) = true /\ ra_total ra = ra_amount ra end.

Lemma release_PoolInv p0 p c H' taken ra p' :
  PoolInv p0 p c (H' ++ ra_indices ra) (taken + (if pool_is_sum p then ra_amount ra else 0)) ->
  ra_wf p ra -> pool_release p ra = Ok p' ->
  exists c', cs_add c ra = Ok c' /\ PoolInv p0 p' c' H' taken.
Proof.
  intros HI Hwf Hr. pose proof (release_PoolCore _ _ _ _ _ _ (PoolInv_core _ _ _ _ _ HI) Hr) as HC.
  destruct HI as (K & F & C). destruct HC as (K' & F' & C').
  destruct p as [|f g|f gs|f free]; simpl in Hr; try discriminate.
  - destruct C as (HG & Hm & Hw & Hb). destruct Hwf as [Hshape Htot]. simpl pool_groups in *.
    apply Forall_app in Hb. destruct Hb as [Hb1 Hb2].
    assert (Hg0 : Forall (fun ix => ai_group ix = 0) (rev (ra_indices ra))).
    { apply Forall_rev. rewrite Forall_forall in *. intros ix Hin. destruct (Hb2 ix Hin) as [_ X]. unfold len in X; simpl in X. lia. }
    destruct (release_indices_single g (rev (ra_indices ra))) as [g'| |] eqn:Er; simpl in Hr; try discriminate.
    inversion Hr; subst p'.
    assert (Hrg : release_indices_groups [g] (rev (ra_indices ra)) = Ok [g']).
    { rewrite release_single_groups by auto. rewrite Er. auto. }
    destruct (cs_add_mirror _ _ _ _ _ _ Hm Hshape Htot Hb2 HG Hrg) as (c' & A & B).
    exists c'. split; auto. split; auto. split; auto. simpl in C'. destruct C' as [G' B'].
    split; auto. split; auto. split; auto. eapply GsI_wf; eauto.
  - destruct C as (HG & Hm & Hw & Hb). destruct Hwf as [Hshape Htot]. simpl pool_groups in *.
    apply Forall_app in Hb. destruct Hb as [Hb1 Hb2].
    destruct (release_indices_groups gs (rev (ra_indices ra))) as [gs'| |] eqn:Er; simpl in Hr; try discriminate.
    inversion Hr; subst p'.
    destruct (cs_add_mirror _ _ _ _ _ _ Hm Hshape Htot Hb2 HG Er) as (c' & A & B).
    exists c'. split; auto. split; auto. split; auto. simpl in C'. destruct C' as [G' B'].
    split; auto. split; auto. split; auto. eapply GsI_wf; eauto.
  - destruct C as (C1 & Hsm & C2). apply app_eq_nil in C2. destruct C2 as [C2 C3].
    destruct (N.ltb_spec f (free + ra_amount ra)); try discriminate.
    destruct (len (ra_indices ra) =? 0); simpl in Hr; try discriminate. inversion Hr; subst p'.
    destruct (cs_add_sum _ _ _ Hsm C3) as (c' & A & B).
    exists c'. split; auto. split; auto. split; auto. simpl in *. destruct C' as [G' B']. auto.
Qed.

Lemma PoolInv_perm p0 p c H H' taken : Permutation H H' -> PoolInv p0 p c H taken -> PoolInv p0 p c H' taken.
Proof.
  intros P (A & B & C). split; auto. split; auto. destruct p.
  - destruct C as (C1 & C2 & C3 & C4). split; [eapply GsI_perm; eauto|]. split; [auto|]. split; [auto|]. eapply Permutation_Forall; eauto.
  - destruct C as (C1 & C2 & C3 & C4). split; [eapply GsI_perm; eauto|]. split; [auto|]. split; [auto|]. eapply Permutation_Forall; eauto.
  - destruct C as (C1 & C2 & C3 & C4). split; [eapply GsI_perm; eauto|]. split; [auto|]. split; [auto|]. eapply Permutation_Forall; eauto.
  - destruct C as (C1 & C2 & C3). subst. apply Permutation_nil in P. subst. auto.
Qed.
