(** The concise mirror through releases (ConciseResourceState::add vs ResourcePool::release_allocation)
    and through whole operation sequences (C04_concise_mirrors). *)
From Coq Require Import Permutation.
From HQ Require Import Base.Prelude Gen.Consts Alloc.Model Alloc.Spec Alloc.Lemmas Alloc.Group Alloc.Pool Alloc.Inv Alloc.System.
Require Import ZifyBool ZifyN ZifyNat.
Open Scope N_scope.
Arguments N.add : simpl never.
Arguments N.sub : simpl never.
Arguments N.mul : simpl never.
Arguments N.div : simpl never.
Arguments N.modulo : simpl never.
Arguments N.eqb : simpl never.
Arguments N.ltb : simpl never.
Arguments N.leb : simpl never.
Arguments N.of_nat : simpl never.
Arguments N.to_nat : simpl never.
Arguments sumN : simpl never.

(** number of entries of a list that belong to group g *)
Definition cntg (l : list aidx) (g : N) : N := sumN (map (fun ix => if ai_group ix =? g then 1 else 0) l).
Lemma cntg_cons ix l g : cntg (ix :: l) g = (if ai_group ix =? g then 1 else 0) + cntg l g.
Proof. unfold cntg. cbn [map]. rewrite sumN_cons. auto. Qed.
Lemma cntg_nil g : cntg [] g = 0.
Proof. reflexivity. Qed.
Lemma cntg_perm l l' g : Permutation l l' -> cntg l g = cntg l' g.
Proof. intros. unfold cntg. apply sumN_map_perm. auto. Qed.

Lemma nat_of_of_nat n : nat_of (N.of_nat n) = n.
Proof. unfold nat_of. lia. Qed.

(** pushing whole indices back (any order): only the stacks grow, by the number of entries per group *)
Lemma release_wholes l : forall gs gs',
  Forall whole l -> release_indices_groups gs l = Ok gs' ->
  length gs' = length gs
  /\ forall n gr, nth_error gs n = Some gr ->
       exists gr', nth_error gs' n = Some gr' /\ g_fr gr' = g_fr gr
                   /\ len (g_idx gr') = len (g_idx gr) + cntg l (N.of_nat n).
Proof.
  induction l as [|ix l IH]; intros gs gs' Hw Hr; simpl in Hr.
  - inversion Hr; subst. split; auto. intros n gr Hn. exists gr. rewrite cntg_nil. repeat split; auto. lia.
  - inversion Hw as [|? ? Hx Hw']; subst.
    destruct (get_at gs (ai_group ix)) as [g| |] eqn:Eg; simpl in Hr; try discriminate.
    unfold release_index in Hr. unfold whole in Hx. rewrite Hx, N.eqb_refl in Hr. cbn [bind] in Hr.
    apply get_at_ok in Eg. destruct Eg as [Hlt Hnth].
    destruct (IH _ _ Hw' Hr) as [L H]. split; [rewrite L; apply set_at_length|].
    intros n gr Hn. rewrite cntg_cons.
    destruct (Nat.eq_dec (nat_of (ai_group ix)) n) as [E|E].
    + subst n. rewrite Hnth in Hn. inversion Hn; subst gr.
      destruct (H (nat_of (ai_group ix)) (mkGroup (ai_index ix :: g_idx g) (g_fr g))) as (gr' & A & B & C).
      { rewrite nth_error_set_at. destruct (N.ltb_spec (ai_group ix) (len gs)); [|lia]. rewrite Nat.eqb_refl. auto. }
      exists gr'. split; auto. split; auto. simpl in C. rewrite C.
      replace (N.of_nat (nat_of (ai_group ix))) with (ai_group ix) by (unfold nat_of; lia).
      rewrite N.eqb_refl. unfold len. simpl length. lia.
    + destruct (H n gr) as (gr' & A & B & C).
      { rewrite nth_error_set_at. destruct (Nat.eqb_spec (nat_of (ai_group ix)) n); [congruence|]. rewrite andb_false_r. auto. }
      exists gr'. split; auto. split; auto. rewrite C.
      destruct (N.eqb_spec (ai_group ix) (N.of_nat n)); [subst; rewrite e, nat_of_of_nat in E; congruence | lia].
Qed.

Lemma add_wholes l : forall cs,
  Forall whole l -> Forall (fun ix => ai_group ix < len cs) l ->
  exists cs', add_loop_groups cs l = Ok cs' /\ length cs' = length cs
    /\ forall n c, nth_error cs n = Some c ->
         exists c', nth_error cs' n = Some c' /\ c_fr c' = c_fr c /\ c_units c' = c_units c + cntg l (N.of_nat n).
Proof.
  induction l as [|ix l IH]; intros cs Hw Hb; simpl.
  - exists cs. repeat split; auto. intros n c Hn. exists c. rewrite cntg_nil. repeat split; auto. lia.
  - inversion Hw as [|? ? Hx Hw']; subst. inversion Hb as [|? ? Hlt Hb']; subst.
    unfold whole in Hx. rewrite Hx, N.eqb_refl.
    destruct (get_at_lt cs (ai_group ix) Hlt) as [c0 Hc0]. rewrite Hc0. cbn [bind].
    apply get_at_ok in Hc0. destruct Hc0 as [_ Hnth].
    destruct (IH (set_at cs (ai_group ix) (mkCgroup (c_units c0 + 1) (c_fr c0))) Hw') as (cs' & A & L & H).
    { rewrite Forall_forall in *. intros y Hy. rewrite len_set_at. auto. }
    exists cs'. split; auto. split; [rewrite L; apply set_at_length|].
    intros n c Hn. rewrite cntg_cons.
    destruct (Nat.eq_dec (nat_of (ai_group ix)) n) as [E|E].
    + subst n. rewrite Hnth in Hn. inversion Hn; subst c.
      destruct (H (nat_of (ai_group ix)) (mkCgroup (c_units c0 + 1) (c_fr c0))) as (c' & P & Q & R).
      { rewrite nth_error_set_at. destruct (N.ltb_spec (ai_group ix) (len cs)); [|lia]. rewrite Nat.eqb_refl. auto. }
      exists c'. split; auto. split; auto. simpl in R. rewrite R.
      replace (N.of_nat (nat_of (ai_group ix))) with (ai_group ix) by (unfold nat_of; lia).
      rewrite N.eqb_refl. lia.
    + destruct (H n c) as (c' & P & Q & R).
      { rewrite nth_error_set_at. destruct (Nat.eqb_spec (nat_of (ai_group ix)) n); [congruence|]. rewrite andb_false_r. auto. }
      exists c'. split; auto. split; auto. rewrite R.
      destruct (N.eqb_spec (ai_group ix) (N.of_nat n)); [subst; rewrite e, nat_of_of_nat in E; congruence | lia].
Qed.

Lemma release_groups_app a : forall b gs,
  release_indices_groups gs (a ++ b) =
  match release_indices_groups gs a with Ok gs1 => release_indices_groups gs1 b | Panic s => Panic s | Disabled => Disabled end.
Proof.
  induction a as [|ix a IH]; intros b gs; simpl; auto.
  destruct (get_at gs (ai_group ix)); simpl; auto. destruct (release_index a0 ix); simpl; auto.
Qed.

Lemma add_loop_app a : forall b cs,
  add_loop_groups cs (a ++ b) =
  match add_loop_groups cs a with Ok cs1 => add_loop_groups cs1 b | Panic s => Panic s | Disabled => Disabled end.
Proof.
  induction a as [|ix a IH]; intros b cs; simpl; auto.
  destruct (ai_frac ix =? 0).
  - destruct (get_at cs (ai_group ix)); simpl; auto.
  - destruct (add_fractions cs (ai_group ix) (ai_index ix) (ai_frac ix)); simpl; auto.
Qed.

(** add_fractions of the model = cgive1 on the group *)
Lemma add_fractions_cgive1 s gi ix :
  ai_frac ix <> 0 ->
  add_fractions s gi (ai_index ix) (ai_frac ix) =
  match get_at s gi with
  | Ok c => match cgive1 c ix with Ok c' => Ok (set_at s gi c') | Panic p => Panic p | Disabled => Disabled end
  | Panic p => Panic p | Disabled => Disabled
  end.
Proof.
  intros Hz. unfold add_fractions, cgive1. destruct (get_at s gi); simpl; auto.
  destruct (N.eqb_spec (ai_frac ix) 0); [congruence|].
  destruct (FPU <=? fget0 (c_fr a) (ai_index ix) + ai_frac ix); auto.
  destruct (FPU <=? fget0 (c_fr a) (ai_index ix) + ai_frac ix - FPU); auto.
Qed.

(** cgive1 does not look at the units: an offset on the units commutes *)
Lemma cgive1_offset c ix k c' :
  cgive1 c ix = Ok c' -> cgive1 (mkCgroup (c_units c + k) (c_fr c)) ix = Ok (mkCgroup (c_units c' + k) (c_fr c')).
Proof.
  unfold cgive1. simpl. destruct (ai_frac ix =? 0).
  - intros H; inversion H; subst; simpl. f_equal. f_equal. lia.
  - destruct (FPU <=? fget0 (c_fr c) (ai_index ix) + ai_frac ix).
    + destruct (FPU <=? fget0 (c_fr c) (ai_index ix) + ai_frac ix - FPU); [discriminate|].
      intros H; inversion H; subst; simpl. f_equal. f_equal. lia.
    + intros H; inversion H; subst; simpl. auto.
Qed.

Lemma Forall2_from_nth {A B} (R : A -> B -> Prop) : forall l l',
  length l = length l' ->
  (forall n x y, nth_error l n = Some x -> nth_error l' n = Some y -> R x y) -> Forall2 R l l'.
Proof.
  induction l as [|x l IH]; intros [|y l'] L H; simpl in L; try discriminate; constructor.
  - apply (H O); auto.
  - apply IH; [lia|]. intros n a b Ha Hb. apply (H (S n)); auto.
Qed.

Lemma Forall2_nth2 {A B} (R : A -> B -> Prop) l l' n x y :
  Forall2 R l l' -> nth_error l n = Some x -> nth_error l' n = Some y -> R x y.
Proof.
  intros H Hx Hy. destruct (Forall2_nth _ _ _ _ _ H Hx) as [y' [A1 A2]]. congruence.
Qed.

Lemma nth_error_some_lt {A} (l : list A) n x : nth_error l n = Some x -> (n < length l)%nat.
Proof. intros H. apply nth_error_Some. congruence. Qed.

(** the mirror after a release, when only whole indices are returned *)
Lemma release_mirror_wholes gs cs ws gs' :
  gs_mirror gs cs -> Forall whole ws -> Forall (fun ix => ai_group ix < len gs) ws ->
  release_indices_groups gs (rev ws) = Ok gs' ->
  exists cs', add_loop_groups cs ws = Ok cs' /\ gs_mirror gs' cs'.
Proof.
  intros Hm Hw Hb Hr.
  destruct (release_wholes _ _ _ (Forall_rev Hw) Hr) as [L1 H1].
  assert (Hb' : Forall (fun ix => ai_group ix < len cs) ws).
  { rewrite <- (Forall2_len _ _ _ Hm). auto. }
  destruct (add_wholes _ cs Hw Hb') as (cs' & A & L2 & H2).
  exists cs'. split; auto. apply Forall2_from_nth.
  - rewrite L1, L2. unfold gs_mirror in Hm. clear -Hm. induction Hm; simpl; auto.
  - intros n g' c' Hg' Hc'.
    assert (Hn : (n < length gs)%nat) by (rewrite <- L1; eapply nth_error_some_lt; eauto).
    destruct (nth_error gs n) as [g|] eqn:Eg; [|apply nth_error_None in Eg; lia].
    destruct (Forall2_nth _ _ _ _ _ Hm Eg) as [c [Ec [Mu Mf]]].
    destruct (H1 n g Eg) as (g2 & P1 & P2 & P3). destruct (H2 n c Ec) as (c2 & Q1 & Q2 & Q3).
    rewrite Hg' in P1. inversion P1; subst g2. rewrite Hc' in Q1. inversion Q1; subst c2.
    split.
    + rewrite Q3, P3, Mu. rewrite (cntg_perm (rev ws) ws); auto. apply Permutation_sym, Permutation_rev.
    + intros i. rewrite Q2, P2. auto.
Qed.

Lemma nth_error_ext {A} : forall (l l' : list A), (forall n, nth_error l n = nth_error l' n) -> l = l'.
Proof.
  induction l as [|x l IH]; intros [|y l'] H; auto.
  - specialize (H O). discriminate.
  - specialize (H O). discriminate.
  - f_equal; [specialize (H O); simpl in H; congruence | apply IH; intros n; apply (H (S n))].
Qed.

Lemma cgroup_eta c u f : c_units c = u -> c_fr c = f -> c = mkCgroup u f.
Proof. destruct c; simpl; intros; subst; auto. Qed.

(** the mirror after a release that returns whole indices and one fraction *)
Lemma release_mirror_frac gs cs ws F gs' u h hf :
  gs_mirror gs cs -> Forall whole ws -> Forall (fun ix => ai_group ix < len gs) ws ->
  (forall g, nth_error gs (nat_of (ai_group F)) = Some g -> GI u g (add_h h F) (add_hf hf F)) ->
  ai_frac F <> 0 -> ai_frac F < FPU ->
  release_indices_groups gs (F :: rev ws) = Ok gs' ->
  exists cs', add_loop_groups cs (ws ++ [F]) = Ok cs' /\ gs_mirror gs' cs'.
Proof.
  intros Hm Hw Hb HGI Hz Hlt Hr. simpl in Hr.
  destruct (get_at gs (ai_group F)) as [g| |] eqn:Eg; simpl in Hr; try discriminate.
  destruct (release_index g F) as [g1| |] eqn:Er; simpl in Hr; try discriminate.
  apply get_at_ok in Eg. destruct Eg as [HltF Hnth].
  destruct (Forall2_nth _ _ _ _ _ Hm Hnth) as [c [Ec Mc]].
  destruct (cgive1_mirror _ _ _ _ _ _ _ (HGI g Hnth) Mc Er Hlt) as (c1 & Hc1 & Mc1).
  assert (Hm1 : gs_mirror (set_at gs (ai_group F) g1) (set_at cs (ai_group F) c1)) by (apply Forall2_set_at; auto).
  assert (Hb1 : Forall (fun ix => ai_group ix < len (set_at gs (ai_group F) g1)) ws).
  { rewrite Forall_forall in *. intros y Hy. rewrite len_set_at. auto. }
  destruct (release_mirror_wholes _ _ _ _ Hm1 Hw Hb1 Hr) as (cs2 & A2 & M2).
  exists cs2. split; auto.
  (* add ws, then F  =  F first (on the units-offset group), then ws *)
  rewrite add_loop_app.
  assert (Hlen : len cs = len gs) by (symmetry; apply (Forall2_len _ _ _ Hm)).
  assert (Hbc : Forall (fun ix => ai_group ix < len cs) ws) by (rewrite Hlen; auto).
  destruct (add_wholes _ cs Hw Hbc) as (csw & Aw & Lw & Hw2). rewrite Aw.
  assert (Hbc1 : Forall (fun ix => ai_group ix < len (set_at cs (ai_group F) c1)) ws).
  { rewrite Forall_forall in *. intros y Hy. rewrite len_set_at. auto. }
  destruct (add_wholes _ (set_at cs (ai_group F) c1) Hw Hbc1) as (cs2' & A2' & L2 & H2).
  rewrite A2 in A2'. inversion A2'; subst cs2'. clear A2'.
  simpl add_loop_groups. destruct (N.eqb_spec (ai_frac F) 0); [congruence|].
  rewrite add_fractions_cgive1 by auto.
  destruct (Hw2 _ _ Ec) as (cw & Pw & Qw & Rw).
  assert (Hgw : get_at csw (ai_group F) = Ok cw).
  { apply get_at_ok. split; auto. unfold len in *. rewrite Lw. lia. }
  rewrite Hgw.
  rewrite (cgroup_eta cw _ _ Rw Qw). rewrite (cgive1_offset _ _ _ _ Hc1). cbn [bind].
  f_equal. apply nth_error_ext. intros n.
  rewrite nth_error_set_at.
  assert (HltW : ai_group F < len csw) by (unfold len in *; rewrite Lw; lia).
  destruct (N.ltb_spec (ai_group F) (len csw)); [|lia]. simpl.
  destruct (Nat.eqb_spec (nat_of (ai_group F)) n) as [E|E].
  - subst n. destruct (H2 (nat_of (ai_group F)) c1) as (c2 & P2 & Q2 & R2).
    { rewrite nth_error_set_at. destruct (N.ltb_spec (ai_group F) (len cs)); [|lia]. rewrite Nat.eqb_refl. auto. }
    rewrite P2. f_equal. symmetry. apply cgroup_eta; auto.
  - destruct (nth_error cs n) as [cn|] eqn:En.
    + destruct (Hw2 _ _ En) as (cwn & Pn & Qn & Rn).
      destruct (H2 n cn) as (c2 & P2 & Q2 & R2).
      { rewrite nth_error_set_at. destruct (Nat.eqb_spec (nat_of (ai_group F)) n); [congruence|]. rewrite andb_false_r. auto. }
      rewrite Pn, P2. f_equal. rewrite (cgroup_eta cwn _ _ Rn Qn). symmetry. apply cgroup_eta; congruence.
    + assert (nth_error csw n = None) by (apply nth_error_None; apply nth_error_None in En; lia).
      assert (nth_error cs2 n = None).
      { apply nth_error_None. apply nth_error_None in En. rewrite L2, set_at_length. lia. }
      congruence.
Qed.
