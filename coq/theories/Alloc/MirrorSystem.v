(** C04_concise_mirrors over whole operation sequences. *)
From Coq Require Import Permutation.
From HQ Require Import Base.Prelude Gen.Consts Alloc.Model Alloc.Spec Alloc.Lemmas Alloc.Group Alloc.Pool Alloc.Inv Alloc.System Alloc.Mirror Alloc.Theorems.
Require Import ZifyBool ZifyN ZifyNat.
Open Scope N_scope.
Arguments N.add : simpl never.
Arguments N.sub : simpl never.
Arguments N.mul : simpl never.
Arguments N.div : simpl never.
Arguments N.modulo : simpl never.
Arguments N.eqb : simpl never.
Arguments N.ltb : simpl never.
Arguments N.leb : simpl never.
Arguments N.of_nat : simpl never.
Arguments N.to_nat : simpl never.
Arguments sumN : simpl never.

(* ---------- list helpers ---------- *)
Lemma get_at_set_at_other {A} (l : list A) i j x : i <> j -> get_at (set_at l i x) j = get_at l j.
Proof.
  intros Hij. unfold get_at. rewrite len_set_at. destruct (N.ltb_spec j (len l)); auto.
  destruct (nth_res l (nat_of j)) as [y| |] eqn:E.
  - apply nth_res_ok in E. apply nth_res_ok. rewrite nth_error_set_at.
    destruct (Nat.eqb_spec (nat_of i) (nat_of j)) as [E2|E2]; [apply nat_of_inj in E2; congruence|]. rewrite andb_false_r. auto.
  - exfalso. destruct (nth_res_lt l (nat_of j)) as [y Hy]; [unfold len, nat_of in *; lia|]. congruence.
  - exfalso. destruct (nth_res_lt l (nat_of j)) as [y Hy]; [unfold len, nat_of in *; lia|]. congruence.
Qed.

Lemma get_at_set_at_same {A} (l : list A) i x : i < len l -> get_at (set_at l i x) i = Ok x.
Proof.
  intros H. apply get_at_ok. rewrite len_set_at. split; auto. rewrite nth_error_set_at.
  destruct (N.ltb_spec i (len l)); [|lia]. rewrite Nat.eqb_refl. auto.
Qed.

Lemma set_at_comm {A} (l : list A) i j x y : i <> j -> set_at (set_at l i x) j y = set_at (set_at l j y) i x.
Proof.
  intros Hij. apply nth_error_ext. intros n. rewrite !nth_error_set_at, !len_set_at.
  destruct (i <? len l), (j <? len l); simpl; auto;
    destruct (Nat.eqb_spec (nat_of j) n), (Nat.eqb_spec (nat_of i) n); auto.
  subst. exfalso. apply Hij. apply nat_of_inj. congruence.
Qed.

(* ---------- ConciseFreeResources::{add,remove} ---------- *)
Lemma cf_apply_app f a : forall b free,
  cf_apply f free (a ++ b) = match cf_apply f free a with Ok f1 => cf_apply f f1 b | Panic s => Panic s | Disabled => Disabled end.
Proof.
  induction a as [|ra a IH]; intros b free; simpl; auto.
  destruct (get_at free (ra_res ra)); simpl; auto. destruct (f a0 ra); simpl; auto.
Qed.

Lemma cf_apply_perm f al al' : Permutation al al' -> NoDup (map ra_res al) ->
  forall free free', cf_apply f free al = Ok free' -> cf_apply f free al' = Ok free'.
Proof.
  induction 1 as [|x l l' P IH|x y l|l l' l'' P1 IH1 P2 IH2]; intros Hnd free free' H; auto.
  - simpl in *. inversion Hnd; subst.
    destruct (get_at free (ra_res x)); simpl in *; try discriminate. destruct (f a x); simpl in *; try discriminate. eauto.
  - simpl in Hnd. inversion Hnd as [|? ? Hn1 Hnd1]; subst. assert (Hxy : ra_res y <> ra_res x) by (intros E; apply Hn1; left; auto).
    simpl in *.
    destruct (get_at free (ra_res y)) as [sy| |] eqn:Ey; simpl in H; try discriminate.
    destruct (f sy y) as [sy'| |] eqn:Efy; simpl in H; try discriminate.
    rewrite get_at_set_at_other in H by auto.
    destruct (get_at free (ra_res x)) as [sx| |] eqn:Ex; simpl in H; try discriminate.
    destruct (f sx x) as [sx'| |] eqn:Efx; simpl in H; try discriminate.
    assert (Hyx : ra_res x <> ra_res y) by congruence.
    cbn [bind]. rewrite Efx. cbn [bind]. rewrite get_at_set_at_other by auto. rewrite Ey. simpl. rewrite Efy. simpl.
    rewrite set_at_comm by auto. auto.
  - apply IH2; [|apply IH1; auto]. eapply Permutation_NoDup; [|eauto]. apply Permutation_map. auto.
Qed.

(* ---------- the pools + the concise mirror ---------- *)
Definition PoolsInv (pools0 pools : list pool) (free : list cstate) (Hf : N -> list aidx) (Tf : N -> N) : Prop :=
  length pools = length pools0 /\ length free = length pools0
  /\ forall r p0 p c, r < len pools0 -> nth_error pools0 (nat_of r) = Some p0 -> nth_error pools (nat_of r) = Some p ->
                      nth_error free (nat_of r) = Some c -> PoolInv p0 p c (Hf r) (Tf r).

Lemma PoolsInv_ext pools0 pools free Hf Tf Hf' Tf' :
  (forall r, Permutation (Hf r) (Hf' r)) -> (forall r, Tf r = Tf' r) ->
  PoolsInv pools0 pools free Hf Tf -> PoolsInv pools0 pools free Hf' Tf'.
Proof.
  intros E1 E2 (L1 & L2 & H). split; auto. split; auto. intros r p0 p c Hr H0 H1 H2. rewrite <- E2. eapply PoolInv_perm; eauto.
Qed.

Lemma PoolsInv_core pools0 pools free Hf Tf : PoolsInv pools0 pools free Hf Tf -> PoolsCore pools0 pools Hf Tf.
Proof.
  intros (L1 & L2 & H). split; auto. intros r p0 p Hr H0 H1.
  destruct (nth_error free (nat_of r)) as [c|] eqn:Ec.
  - eapply PoolInv_core; eauto.
  - apply nth_error_None in Ec. unfold len, nat_of in *. lia.
Qed.

Lemma PoolsInv_claim pools0 pools free Hf Tf rid p p' rq ra :
  PoolsInv pools0 pools free Hf Tf -> get_at pools rid = Ok p -> claim_ok p p' rid rq ra = true ->
  exists c c', get_at free rid = Ok c /\ cs_remove c ra = Ok c'
    /\ PoolsInv pools0 (set_at pools rid p') (set_at free rid c') (fun r => Hf r ++ one_ra ra r) (fun r => Tf r + one_sum p ra r).
Proof.
  intros (L1 & L2 & H) Hg Hok. pose proof (claim_ok_inv _ _ _ _ _ Hok) as (Hres & _).
  apply get_at_ok in Hg. destruct Hg as [Hlt Hnth].
  assert (Hr0 : rid < len pools0) by (unfold len in *; lia).
  destruct (get_at_lt free rid) as [c Hc]; [unfold len in *; lia|].
  pose proof Hc as Hc'. apply get_at_ok in Hc'. destruct Hc' as [Hltc Hnc].
  destruct (nth_error pools0 (nat_of rid)) as [p0|] eqn:E0; [|apply nth_error_None in E0; unfold len, nat_of in *; lia].
  destruct (claim_PoolInv _ _ _ _ _ _ _ _ _ (H rid p0 p c Hr0 E0 Hnth Hnc) Hok) as (c' & Hrm & HI').
  exists c, c'. split; auto. split; auto.
  split; [rewrite set_at_length; auto|]. split; [rewrite set_at_length; auto|].
  intros r q0 q d Hr H0 H1 H2. rewrite nth_error_set_at in H1. rewrite nth_error_set_at in H2.
  destruct (N.ltb_spec rid (len pools)); [|lia]. destruct (N.ltb_spec rid (len free)); [|lia]. simpl in H1, H2.
  unfold one_ra, one_sum. rewrite Hres.
  destruct (Nat.eqb_spec (nat_of rid) (nat_of r)) as [E|E].
  - apply nat_of_inj in E. subst r. inversion H1; subst q. inversion H2; subst d. rewrite N.eqb_refl.
    assert (q0 = p0) by congruence. subst q0. auto.
  - destruct (N.eqb_spec rid r); [subst; congruence|]. rewrite app_nil_r, N.add_0_r. eauto.
Qed.

Definition ra_wf_at (pools0 : list pool) (ra : ralloc) : Prop :=
  forall p0, nth_error pools0 (nat_of (ra_res ra)) = Some p0 -> ra_wf p0 ra.

Lemma ra_wf_kind p0 p ra : same_kind p0 p = true -> ra_wf p ra -> ra_wf p0 ra.
Proof. destruct p0, p; simpl; auto; discriminate. Qed.

Lemma claim_ok_wf p p' rid rq ra : claim_ok p p' rid rq ra = true -> ra_wf p ra.
Proof.
  intros H. destruct (claim_ok_inv _ _ _ _ _ H) as (_ & _ & _ & _ & C).
  destruct p; simpl; auto; destruct p'; try tauto.
Qed.

Section ClaimsM.
  Variable pools0 : list pool.
  Variables (Hl : N -> list aidx) (Tl : N -> N).
  Variable free0 : list cstate.
  Variable rq0 : request.

  Definition granted_for (ra : ralloc) : Prop := exists e, In e rq0 /\ ra_exact pools0 e ra = true.

  Definition AccM (pools : list pool) (acc : allocation) (ghost : list cstate) : Prop :=
    PoolsInv pools0 pools ghost (fun r => Hl r ++ flat_al acc r) (fun r => Tl r + sum_taken pools0 acc r)
    /\ cf_remove free0 acc = Ok ghost
    /\ Forall (fun ra => ra_wf_at pools0 ra /\ granted_for ra) acc.

  Lemma AccM_step pools acc ghost e p p' ra :
    AccM pools acc ghost -> In e rq0 -> get_at pools (e_res e) = Ok p -> claim_ok p p' (e_res e) (e_req e) ra = true ->
    exists ghost', AccM (set_at pools (e_res e) p') (acc ++ [ra]) ghost'.
  Proof.
    set (rid := e_res e). set (rq := e_req e).
    intros (HA & HB & HC) Hin Hg Hok. pose proof (claim_ok_inv _ _ _ _ _ Hok) as (Hres & Ham & Hkk & _ & Hcl).
    destruct (PoolsInv_claim _ _ _ _ _ _ _ _ _ _ HA Hg Hok) as (c & c' & Gc & Rc & X).
    exists (set_at ghost rid c'). split; [|split].
    - destruct X as (L1 & L2 & X). split; auto. split; auto. intros r p0 q d Hr H0 H1 H2.
      specialize (X r p0 q d Hr H0 H1 H2). cbv beta in X.
      rewrite flat_al_app, flat_al_one, sum_taken_app, app_assoc.
      rewrite <- (one_sum_taken pools0 pools _ _ rid p ra r (PoolsInv_core _ _ _ _ _ HA) Hg Hres Hr).
      replace (Tl r + (sum_taken pools0 acc r + one_sum p ra r)) with (Tl r + sum_taken pools0 acc r + one_sum p ra r) by lia.
      auto.
    - unfold cf_remove in *. rewrite cf_apply_app, HB. simpl. rewrite Hres, Gc. simpl. rewrite Rc. simpl. auto.
    - apply Forall_app. split; auto. constructor; auto.
      destruct HA as (L1 & L2 & HA). apply get_at_ok in Hg. destruct Hg as [Hlt Hnth].
      apply get_at_ok in Gc. destruct Gc as [_ Hnc].
      assert (Hr0 : rid < len pools0) by (unfold len in *; lia).
      split.
      + intros p0 H0. rewrite Hres in H0. destruct (HA rid p0 p c Hr0 H0 Hnth Hnc) as (K & _).
        eapply ra_wf_kind; eauto. eapply claim_ok_wf; eauto.
      + exists e. split; auto. unfold ra_exact. fold rid.
        destruct (nth_error pools0 (nat_of rid)) as [p0|] eqn:E0; [|apply nth_error_None in E0; unfold len, nat_of in *; lia].
        destruct (HA rid p0 p c Hr0 E0 Hnth Hnc) as (K & F & _).
        rewrite Hres, N.eqb_refl. fold rq. rewrite <- F, Ham, N.eqb_refl. simpl.
        rewrite <- (same_kind_sum _ _ K).
        destruct p; try contradiction; destruct p'; try discriminate Hkk; simpl.
        * destruct Hcl as (S1 & S2 & _). rewrite S1, S2, Ham, N.eqb_refl. auto.
        * destruct Hcl as (S1 & S2 & _). rewrite S1, S2, Ham, N.eqb_refl. auto.
        * destruct Hcl as (_ & _ & S3). rewrite S3. auto.
  Qed.

  Lemma claim_direct_AccM entries : forall pools w acc coupling pools' acc' coupling' ghost,
    incl entries rq0 -> incl coupling rq0 ->
    AccM pools acc ghost -> claim_direct pools entries w acc coupling = Ok (pools', acc', coupling') ->
    (exists ghost', AccM pools' acc' ghost') /\ incl coupling' rq0.
  Proof.
    induction entries as [|e rest IH]; intros pools w acc coupling pools' acc' coupling' ghost Hi1 Hi2 HA Hc; simpl in Hc.
    - inversion Hc; subst; split; eauto.
    - assert (Hine : In e rq0) by (apply Hi1; left; auto).
      assert (Hi1' : incl rest rq0) by (intros x Hx; apply Hi1; right; auto).
      destruct (get_at pools (e_res e)) as [p| |] eqn:Eg; simpl in Hc; try discriminate.
      destruct (is_groups p && is_relevant_for_coupling (e_req e)).
      + eapply IH; [| |eauto|eauto]; auto. intros x Hx. apply in_app_or in Hx. destruct Hx as [Hx|[Hx|[]]]; [auto|subst; auto].
      + unfold checked in Hc. destruct (pool_claim p (e_res e) (e_req e) (frac_wit w (e_res e))) as [[p' ra]| |]; simpl in Hc; try discriminate.
        destruct (claim_ok p p' (e_res e) (e_req e) ra) eqn:Eok; try discriminate.
        destruct (AccM_step _ _ _ _ _ _ _ HA Hine Eg Eok) as [g' HA']. eapply (IH (set_at pools (e_res e) p') w (acc ++ [ra]) coupling pools' acc' coupling' g'); eauto.
  Qed.

  Lemma claim_coupled_AccM coupling : forall pools masks w acc pools' acc' ghost,
    incl coupling rq0 ->
    AccM pools acc ghost -> claim_coupled pools coupling masks w acc = Ok (pools', acc') ->
    exists ghost', AccM pools' acc' ghost'.
  Proof.
    induction coupling as [|e rest IH]; intros pools masks w acc pools' acc' ghost Hi HA Hc; simpl in Hc.
    - inversion Hc; subst; eauto.
    - destruct masks as [|m masks]; [inversion Hc; subst; eauto|].
      assert (Hine : In e rq0) by (apply Hi; left; auto).
      assert (Hi' : incl rest rq0) by (intros x Hx; apply Hi; right; auto).
      destruct (get_at pools (e_res e)) as [p| |] eqn:Eg; simpl in Hc; try discriminate.
      unfold checked in Hc. destruct (claim_with_group_mask p (e_res e) (e_req e) m (frac_wit w (e_res e))) as [[p' ra]| |]; simpl in Hc; try discriminate.
      destruct (claim_ok p p' (e_res e) (e_req e) ra) eqn:Eok; try discriminate.
      destruct (AccM_step _ _ _ _ _ _ _ HA Hine Eg Eok) as [g' HA']. eapply (IH _ _ _ _ _ _ g'); eauto.
  Qed.
End ClaimsM.

Lemma nodup_app_l {A} (a b : list A) : NoDup (a ++ b) -> NoDup a.
Proof.
  induction a as [|x a IH]; simpl; intros H; [constructor|].
  inversion H; subst. constructor; auto. intros Hin. apply H2. apply in_or_app. auto.
Qed.

(** the resource ids of the allocation under construction stay pairwise distinct *)
Lemma claim_direct_rids entries : forall pools w acc coupling pools' acc' coupling',
  NoDup (map ra_res acc ++ map e_res coupling ++ map e_res entries) ->
  claim_direct pools entries w acc coupling = Ok (pools', acc', coupling') ->
  NoDup (map ra_res acc' ++ map e_res coupling').
Proof.
  induction entries as [|e rest IH]; intros pools w acc coupling pools' acc' coupling' Hnd Hc; simpl in Hc.
  - inversion Hc; subst. simpl in Hnd. rewrite app_nil_r in Hnd. auto.
  - destruct (get_at pools (e_res e)) as [p| |] eqn:Eg; simpl in Hc; try discriminate.
    destruct (is_groups p && is_relevant_for_coupling (e_req e)).
    + eapply IH; [|eauto]. rewrite map_app. simpl. rewrite <- app_assoc. simpl. auto.
    + unfold checked in Hc. destruct (pool_claim p (e_res e) (e_req e) (frac_wit w (e_res e))) as [[p' ra]| |]; simpl in Hc; try discriminate.
      destruct (claim_ok p p' (e_res e) (e_req e) ra) eqn:Eok; try discriminate.
      pose proof (claim_ok_inv _ _ _ _ _ Eok) as (Hres & _).
      eapply IH; [|eauto]. rewrite map_app. simpl. rewrite Hres.
      eapply Permutation_NoDup; [|exact Hnd]. rewrite <- app_assoc. apply Permutation_app_head.
      simpl. apply Permutation_sym. apply Permutation_middle.
Qed.

Lemma claim_coupled_rids coupling : forall pools masks w acc pools' acc',
  NoDup (map ra_res acc ++ map e_res coupling) ->
  claim_coupled pools coupling masks w acc = Ok (pools', acc') -> NoDup (map ra_res acc').
Proof.
  induction coupling as [|e rest IH]; intros pools masks w acc pools' acc' Hnd Hc; simpl in Hc.
  - inversion Hc; subst. simpl in Hnd. rewrite app_nil_r in Hnd. auto.
  - destruct masks as [|m masks].
    + inversion Hc; subst. eapply nodup_app_l; eauto.
    + destruct (get_at pools (e_res e)) as [p| |] eqn:Eg; simpl in Hc; try discriminate.
      unfold checked in Hc. destruct (claim_with_group_mask p (e_res e) (e_req e) m (frac_wit w (e_res e))) as [[p' ra]| |]; simpl in Hc; try discriminate.
      destruct (claim_ok p p' (e_res e) (e_req e) ra) eqn:Eok; try discriminate.
      pose proof (claim_ok_inv _ _ _ _ _ Eok) as (Hres & _).
      eapply IH; [|eauto]. rewrite map_app. simpl. rewrite Hres, <- app_assoc. simpl. auto.
Qed.

(* ---------- the system invariant with the mirror ---------- *)
Definition FullInv (pools0 : list pool) (s : sys) : Prop :=
  PoolsInv pools0 (a_pools (s_alloc s)) (a_free (s_alloc s)) (HL (s_live s)) (TL pools0 (s_live s))
  /\ Forall (Forall (ra_wf_at pools0)) (s_live s).

Lemma claim_resources_full pools0 a live rq w pools' al free' :
  PoolsInv pools0 (a_pools a) (a_free a) (HL live) (TL pools0 live) ->
  NoDup (map e_res rq) ->
  claim_resources a rq w = Ok (pools', al) -> cf_remove (a_free a) al = Ok free' ->
  PoolsInv pools0 pools' free' (HL (live ++ [al])) (TL pools0 (live ++ [al]))
  /\ Forall (fun ra => ra_wf_at pools0 ra /\ granted_for pools0 rq ra) al.
Proof.
  intros HP Hnd Hc Hf. unfold claim_resources in Hc.
  destruct (claim_direct (a_pools a) rq w [] []) as [[[pools acc] coupling]| |] eqn:Ed; simpl in Hc; try discriminate.
  assert (HA0 : AccM pools0 (HL live) (TL pools0 live) (a_free a) rq (a_pools a) [] (a_free a)).
  { split; [|split; [reflexivity|constructor]]. eapply PoolsInv_ext; [| |exact HP]; intros r; cbv beta.
    - unfold flat_al. simpl. rewrite app_nil_r. auto.
    - unfold sum_taken, alloc_sum_amount. simpl. destruct (nth_error pools0 (nat_of r)); [destruct (pool_is_sum p)|]; rewrite ?sumN_nil; lia. }
  destruct (claim_direct_AccM pools0 (HL live) (TL pools0 live) (a_free a) rq rq _ _ _ _ _ _ _ _ (incl_refl _) (fun x (H : In x []) => match H with end) HA0 Ed) as [[g1 HA1] Hic].
  assert (Hnd1 : NoDup (map ra_res acc ++ map e_res coupling)).
  { eapply claim_direct_rids; [|eauto]. simpl. auto. }
  assert (Fin : forall pools' acc' gh, AccM pools0 (HL live) (TL pools0 live) (a_free a) rq pools' acc' gh ->
                  forall al, Permutation acc' al -> NoDup (map ra_res acc') -> cf_remove (a_free a) al = Ok free' ->
                  PoolsInv pools0 pools' free' (HL (live ++ [al])) (TL pools0 (live ++ [al]))
                  /\ Forall (fun ra => ra_wf_at pools0 ra /\ granted_for pools0 rq ra) al).
  { intros ps acc' gh (HX & HY & HZ) al' P Hn Hf'.
    assert (gh = free').
    { assert (E : cf_remove (a_free a) al' = Ok gh) by (eapply cf_apply_perm; eauto). congruence. }
    subst gh. split; [|eapply Permutation_Forall; eauto].
    eapply PoolsInv_ext; [| |exact HX]; intros r; cbv beta; rewrite ?HL_app, ?TL_app.
    - apply Permutation_app_head. unfold flat_al. apply Permutation_flat_map. auto.
    - f_equal. unfold sum_taken. destruct (nth_error pools0 (nat_of r)); auto. destruct (pool_is_sum p); auto.
      unfold alloc_sum_amount. apply sumN_map_perm; auto. }
  destruct coupling as [|e coupling].
  - inversion Hc; subst. eapply Fin; eauto. simpl in Hnd1. rewrite app_nil_r in Hnd1. auto.
  - destruct (group_solver (a_free a) (e :: coupling) (a_weights a) true (w_mask w)) as [[[masks obj]|]| |]; cbn [bind] in Hc; try discriminate.
    destruct (claim_coupled pools (e :: coupling) masks w acc) as [[pools2 acc2]| |] eqn:Ec; cbn [bind] in Hc; try discriminate.
    inversion Hc; subst.
    destruct (claim_coupled_AccM pools0 (HL live) (TL pools0 live) (a_free a) rq _ _ _ _ _ _ _ _ Hic HA1 Ec) as [g2 HA2].
    eapply Fin; eauto.
    + apply Permutation_sym, isort_perm.
    + eapply claim_coupled_rids; eauto.
Qed.

(** release: ConciseFreeResources::add and the pools walk the same list *)
Lemma release_full pools0 al : forall pools free Hb Tb pools',
  PoolsInv pools0 pools free (fun r => Hb r ++ flat_al al r) (fun r => Tb r + sum_taken pools0 al r) ->
  Forall (ra_wf_at pools0) al ->
  release_helper pools al = Ok pools' ->
  exists free', cf_add free al = Ok free' /\ PoolsInv pools0 pools' free' Hb Tb.
Proof.
  induction al as [|ra al IH]; intros pools free Hb Tb pools' HP Hwf Hr; simpl in Hr.
  - inversion Hr; subst. exists free. split; [reflexivity|]. eapply PoolsInv_ext; [| |exact HP]; intros r; cbv beta.
    + unfold flat_al. simpl. rewrite app_nil_r. auto.
    + unfold sum_taken, alloc_sum_amount. simpl. destruct (nth_error pools0 (nat_of r)); [destruct (pool_is_sum p)|]; rewrite ?sumN_nil; lia.
  - inversion Hwf as [|? ? Hw1 Hwf']; subst.
    destruct (get_at pools (ra_res ra)) as [p| |] eqn:Eg; simpl in Hr; try discriminate.
    destruct (pool_release p ra) as [p'| |] eqn:Er; simpl in Hr; try discriminate.
    pose proof Eg as Eg'. apply get_at_ok in Eg'. destruct Eg' as [Hlt Hnth].
    destruct HP as (L1 & L2 & HP).
    assert (Hr0 : ra_res ra < len pools0) by (unfold len in *; lia).
    destruct (get_at_lt free (ra_res ra)) as [c Hc]; [unfold len in *; lia|].
    pose proof Hc as Hc'. apply get_at_ok in Hc'. destruct Hc' as [Hltc Hnc].
    destruct (nth_error pools0 (nat_of (ra_res ra))) as [p0|] eqn:E0; [|apply nth_error_None in E0; unfold len, nat_of in *; lia].
    pose proof (HP _ _ _ _ Hr0 E0 Hnth Hnc) as HI. cbv beta in HI.
    assert (HI' : PoolInv p0 p c ((Hb (ra_res ra) ++ flat_al al (ra_res ra)) ++ ra_indices ra)
                    (Tb (ra_res ra) + sum_taken pools0 al (ra_res ra) + (if pool_is_sum p then ra_amount ra else 0))).
    { eapply PoolInv_perm with (H := Hb (ra_res ra) ++ flat_al (ra :: al) (ra_res ra)).
      - change (ra :: al) with ([ra] ++ al). rewrite flat_al_app, flat_al_one. unfold one_ra. rewrite N.eqb_refl.
        rewrite <- app_assoc. apply Permutation_app_head. apply Permutation_app_comm.
      - destruct HI as (K & F & C). split; auto. split; auto.
        change (ra :: al) with ([ra] ++ al) in C. rewrite sum_taken_app in C.
        replace (Tb (ra_res ra) + sum_taken pools0 al (ra_res ra) + (if pool_is_sum p then ra_amount ra else 0))
          with (Tb (ra_res ra) + (sum_taken pools0 [ra] (ra_res ra) + sum_taken pools0 al (ra_res ra))); auto.
        unfold sum_taken at 1. rewrite E0. rewrite <- (same_kind_sum _ _ K).
        unfold alloc_sum_amount. cbn [map]. rewrite sumN_cons, sumN_nil, N.eqb_refl. destruct (pool_is_sum p); lia. }
    assert (Hwfp : ra_wf p ra).
    { destruct HI as (K & _). specialize (Hw1 p0 E0). destruct p0, p; simpl in *; auto; discriminate. }
    destruct (release_PoolInv _ _ _ _ _ _ _ HI' Hwfp Er) as (c' & Hadd & HI2).
    destruct (IH (set_at pools (ra_res ra) p') (set_at free (ra_res ra) c') Hb Tb pools') as (free' & A & B); auto.
    + split; [rewrite set_at_length; auto|]. split; [rewrite set_at_length; auto|].
      intros r q0 q d Hr1 H0 H1 H2. rewrite nth_error_set_at in H1. rewrite nth_error_set_at in H2.
      destruct (N.ltb_spec (ra_res ra) (len pools)); [|lia]. destruct (N.ltb_spec (ra_res ra) (len free)); [|lia]. simpl in H1, H2.
      destruct (Nat.eqb_spec (nat_of (ra_res ra)) (nat_of r)) as [E|E].
      * apply nat_of_inj in E. subst r. inversion H1; subst q. inversion H2; subst d.
        assert (q0 = p0) by congruence. subst q0. auto.
      * specialize (HP _ _ _ _ Hr1 H0 H1 H2). cbv beta in HP.
        change (ra :: al) with ([ra] ++ al) in HP. rewrite flat_al_app, flat_al_one, sum_taken_app in HP.
        unfold one_ra in HP. destruct (N.eqb_spec (ra_res ra) r); [subst; congruence|]. simpl in HP.
        replace (sum_taken pools0 [ra] r) with 0 in HP; [rewrite N.add_0_l in HP; auto|].
        unfold sum_taken, alloc_sum_amount. cbn [map]. rewrite sumN_cons, sumN_nil.
        destruct (nth_error pools0 (nat_of r)); auto. destruct (pool_is_sum p1); auto.
        destruct (N.eqb_spec (ra_res ra) r); [congruence|lia].
    + exists free'. split; auto. unfold cf_add in *. simpl. rewrite Hc. simpl. rewrite Hadd. simpl. auto.
Qed.

Definition valid_op (o : op) : Prop := match o with OAlloc rq _ => NoDup (map e_res rq) | _ => True end.

Lemma nth_remove_nth_forall {A} (P : A -> Prop) l k : Forall P l -> Forall P (remove_nth l k).
Proof. intros H; revert k; induction H; intros [|k]; simpl; auto. Qed.

Lemma step_full pools0 s o s' out : FullInv pools0 s -> valid_op o -> step s o = Ok (s', out) -> FullInv pools0 s'.
Proof.
  intros [HI HW] Hv Hs. destruct o as [rq w|k|rq w]; simpl in Hs.
  - unfold try_allocate in Hs.
    destruct (has_resources (s_alloc s) rq w) as [[ok yard]| |]; simpl in Hs; try discriminate.
    destruct ok; simpl in Hs.
    + destruct (claim_resources _ rq w) as [[pools al]| |] eqn:Ec; simpl in Hs; try discriminate.
      destruct (cf_remove (a_free (s_alloc s)) al) as [free'| |] eqn:Ef; simpl in Hs; try discriminate.
      inversion Hs; subst; simpl.
      destruct (claim_resources_full pools0 (mkAllocator (a_pools (s_alloc s)) (a_free (s_alloc s)) (a_weights (s_alloc s)) yard (a_all (s_alloc s))) (s_live s) rq w pools al free') as [A B]; auto.
      split; simpl; auto. apply Forall_app. split; auto. constructor; auto.
      eapply Forall_impl; [|exact B]. intros x [X _]. auto.
    + inversion Hs; subst; simpl. split; auto.
  - destruct (k <? len (s_live s)); try discriminate.
    destruct (nth_error (s_live s) (nat_of k)) as [al|] eqn:En; try discriminate.
    unfold release_allocation in Hs.
    destruct (cf_add (a_free (s_alloc s)) al) as [free1| |] eqn:Ea; simpl in Hs; try discriminate.
    destruct (release_helper (a_pools (s_alloc s)) al) as [pools'| |] eqn:Er; simpl in Hs; try discriminate.
    inversion Hs; subst; simpl.
    destruct (release_full pools0 al (a_pools (s_alloc s)) (a_free (s_alloc s))
                (HL (remove_nth (s_live s) (nat_of k))) (TL pools0 (remove_nth (s_live s) (nat_of k))) pools') as (free' & A & B); auto.
    + eapply PoolsInv_ext; [| |exact HI]; intros r; cbv beta.
      * unfold HL. apply flat_live_remove; auto.
      * apply TL_remove; auto.
    + eapply Forall_nth; eauto.
    + split; simpl; [congruence|]. apply nth_remove_nth_forall; auto.
  - unfold is_enabled in Hs.
    destruct (has_resources (s_alloc s) rq w) as [[ok yard]| |]; simpl in Hs; try discriminate.
    inversion Hs; subst; simpl. split; auto.
Qed.

Lemma run_full pools0 ops : forall s s', FullInv pools0 s -> Forall valid_op ops -> run s ops = Ok s' -> FullInv pools0 s'.
Proof.
  induction ops as [|o ops IH]; intros s s' HI Hv Hr; simpl in Hr.
  - inversion Hr; subst; auto.
  - inversion Hv; subst. destruct (step s o) as [[s1 out]| |] eqn:Es; simpl in Hr; try discriminate.
    eapply IH; [|eauto|eauto]. eapply step_full; eauto.
Qed.

(* ---------- initial state ---------- *)
Lemma gs_mirror_refl gs : gs_mirror gs (map (fun g => mkCgroup (len (g_idx g)) (g_fr g)) gs).
Proof. induction gs; simpl; constructor; auto. split; simpl; auto. Qed.

Lemma sum_mirror_concise f free : sum_mirror free (concise_state (PSum f free)).
Proof.
  unfold concise_state, split. eexists. split; [reflexivity|]. cbn [c_units c_fr].
  assert (Hm : free mod FPU < FPU) by (apply N.mod_lt; discriminate).
  destruct (N.ltb_spec 0 (free mod FPU)).
  - unfold fget0. simpl. repeat split; auto.
    + unfold FPU, FRACTIONS_PER_UNIT in *. lia.
    + intros i Hi. destruct (N.eqb_spec 0 i); [congruence|auto].
  - unfold fget0. simpl. repeat split; auto; unfold FPU, FRACTIONS_PER_UNIT in *; lia.
Qed.

Lemma fresh_inv p : fresh p -> PoolInv p p (concise_state p) [] 0.
Proof.
  intros Hf. pose proof (fresh_core p Hf) as (K & F & C). split; auto. split; auto.
  destruct p; simpl in *.
  - destruct C as [C1 C2]. split; [auto|]. split; [constructor|]. split; [constructor|auto].
  - destruct C as [C1 C2]. split; auto. split; [apply (gs_mirror_refl [g])|]. split; auto. eapply GsI_wf; eauto.
  - destruct C as [C1 C2]. split; auto. split; [apply gs_mirror_refl|]. split; auto. eapply GsI_wf; eauto.
  - destruct C as [C1 C2]. split; auto. split; auto. apply (sum_mirror_concise full free).
Qed.

Lemma init_full d s0 : init d = Ok s0 -> FullInv (a_pools (s_alloc s0)) s0.
Proof.
  unfold init, allocator_new. intros H.
  destruct (existsb _ (d_items d)); simpl in H; try discriminate.
  destruct (max_rid (d_items d)); simpl in H; try discriminate.
  destruct (fill_pools _ (d_items d)) as [pools| |] eqn:Ef; simpl in H; try discriminate.
  destruct (new_weights (d_items d) (d_coupling d)); simpl in H; try discriminate.
  inversion H; subst; simpl.
  assert (Hfr : Forall fresh pools).
  { eapply fill_pools_fresh; [|eauto]. apply Forall_forall. intros x Hx.
    change (PEmpty :: repeat PEmpty (nat_of n)) with (repeat PEmpty (S (nat_of n))) in Hx. apply repeat_spec in Hx. subst. simpl. constructor. }
  split; [|constructor]. split; auto. split; [simpl; apply map_length|].
  intros r p0 p c Hr H0 H1 H2. simpl in *. assert (p0 = p) by congruence. subst p0.
  rewrite nth_error_map, H1 in H2. inversion H2; subst c.
  unfold HL, TL. simpl. rewrite sumN_nil. apply fresh_inv. eapply Forall_nth; eauto.
Qed.

(* ---------- reflection into the boolean monitor ---------- *)
Lemma fmap_sub0_pointwise a b : (forall i, fget0 b i = fget0 a i) -> fmap_sub0 a b = true.
Proof. intros H. unfold fmap_sub0. apply forallb_forall. intros kv _. apply N.eqb_eq. auto. Qed.

Lemma cstate_equiv_groups gs c : gs_mirror gs c -> cstate_equiv (map (fun g => mkCgroup (len (g_idx g)) (g_fr g)) gs) c = true.
Proof.
  induction 1 as [|g cg gs c [Hu Hf] _ IH]; simpl; auto.
  rewrite IH, andb_true_r. unfold cgroup_equiv. simpl.
  rewrite (fmap_sub0_pointwise (g_fr g) (c_fr cg)) by auto.
  rewrite (fmap_sub0_pointwise (c_fr cg) (g_fr g)) by (intros; symmetry; auto).
  rewrite !andb_true_r. apply N.eqb_eq. auto.
Qed.

Lemma cstate_equiv_sum f free c : sum_mirror free c -> cstate_equiv (concise_state (PSum f free)) c = true.
Proof.
  intros (cg & -> & Hs & Hl & Ho). unfold concise_state, split. simpl. rewrite andb_true_r. unfold cgroup_equiv. cbn [c_units c_fr].
  assert (Hm : free mod FPU < FPU) by (apply N.mod_lt; discriminate).
  assert (Hu : free / FPU = c_units cg) by (unfold FPU, FRACTIONS_PER_UNIT in *; lia).
  assert (Hf0 : free mod FPU = fget0 (c_fr cg) 0) by (unfold FPU, FRACTIONS_PER_UNIT in *; lia).
  assert (Hp : forall i, fget0 (c_fr cg) i = fget0 (if 0 <? free mod FPU then [(0, free mod FPU)] else []) i).
  { intros i. destruct (N.ltb_spec 0 (free mod FPU)); unfold fget0 at 2; simpl.
    - destruct (N.eqb_spec 0 i); [subst; auto | apply Ho; auto].
    - destruct (N.eq_dec i 0); [subst; lia | apply Ho; auto]. }
  rewrite (fmap_sub0_pointwise _ (c_fr cg)) by auto.
  rewrite (fmap_sub0_pointwise (c_fr cg) _) by (intros; symmetry; auto).
  rewrite !andb_true_r. apply N.eqb_eq. auto.
Qed.

Lemma mirror_ok_from_nth : forall pools free,
  length pools = length free ->
  (forall n p c, nth_error pools n = Some p -> nth_error free n = Some c -> cstate_equiv (concise_state p) c = true) ->
  mirror_ok pools free = true.
Proof.
  induction pools as [|p pools IH]; intros [|c free] L H; simpl in L; try discriminate; auto.
  simpl. rewrite (H O p c) by auto. simpl. apply IH; [lia|]. intros n q d Hq Hd. apply (H (S n)); auto.
Qed.

Lemma full_mirror_ok pools0 s : FullInv pools0 s -> mirror_ok (a_pools (s_alloc s)) (a_free (s_alloc s)) = true.
Proof.
  intros [(L1 & L2 & H) _]. apply mirror_ok_from_nth; [congruence|].
  intros n p c Hp Hc.
  assert (Hn : (n < length pools0)%nat) by (rewrite <- L1; eapply nth_error_some_lt; eauto).
  destruct (nth_error pools0 n) as [p0|] eqn:E0; [|apply nth_error_None in E0; lia].
  specialize (H (N.of_nat n) p0 p c). rewrite nat_of_of_nat in H.
  destruct H as (K & F & C); auto; [unfold len; lia|].
  destruct p; simpl in C.
  - destruct C as (_ & Hm & _). inversion Hm; subst. reflexivity.
  - destruct C as (_ & Hm & _). apply (cstate_equiv_groups [g]). auto.
  - destruct C as (_ & Hm & _). apply cstate_equiv_groups. auto.
  - destruct C as (_ & Hm & _). apply cstate_equiv_sum. auto.
Qed.

(** C04_concise_mirrors: in every reachable state the admission summary equals the summary recomputed
    from the pools (the debug-only validate() of the allocator, as a theorem) - for all sequences of
    operations whose requests have pairwise distinct resource ids (ResourceRequest::validate). *)
Theorem concise_mirrors_thm d s0 ops s :
  init d = Ok s0 -> Forall valid_op ops -> run s0 ops = Ok s ->
  mirror_ok (a_pools (s_alloc s)) (a_free (s_alloc s)) = true.
Proof.
  intros Hi Hv Hr. apply (full_mirror_ok (a_pools (s_alloc s0))). eapply run_full; [apply (init_full d); auto | eauto | eauto].
Qed.

(** release never panics for a live allocation (neither in the pools - whenever the pool side is Ok the
    concise side is too; pool side: C04_release_no_panic) *)
Theorem release_concise_no_panic d s0 ops s k al pools' :
  init d = Ok s0 -> Forall valid_op ops -> run s0 ops = Ok s ->
  nth_error (s_live s) (nat_of k) = Some al ->
  release_helper (a_pools (s_alloc s)) al = Ok pools' ->
  exists free', cf_add (a_free (s_alloc s)) al = Ok free'.
Proof.
  intros Hi Hv Hr Hn Hrel.
  assert (HF : FullInv (a_pools (s_alloc s0)) s) by (eapply run_full; [apply (init_full d); auto | eauto | eauto]).
  destruct HF as [HI HW].
  destruct (release_full (a_pools (s_alloc s0)) al (a_pools (s_alloc s)) (a_free (s_alloc s))
              (HL (remove_nth (s_live s) (nat_of k))) (TL (a_pools (s_alloc s0)) (remove_nth (s_live s) (nat_of k))) pools') as (free' & A & B); eauto.
  - eapply PoolsInv_ext; [| |exact HI]; intros r; cbv beta.
    + unfold HL. apply flat_live_remove; auto.
    + apply TL_remove; auto.
  - eapply Forall_nth; eauto.
Qed.

(* ---------- exact amount ---------- *)
Lemma claim_direct_len entries : forall pools w acc coupling pools' acc' coupling',
  claim_direct pools entries w acc coupling = Ok (pools', acc', coupling') ->
  (length acc' + length coupling' = length acc + length coupling + length entries)%nat.
Proof.
  induction entries as [|e rest IH]; intros pools w acc coupling pools' acc' coupling' Hc; simpl in Hc.
  - inversion Hc; subst. simpl. lia.
  - destruct (get_at pools (e_res e)) as [p| |] eqn:Eg; simpl in Hc; try discriminate.
    destruct (is_groups p && is_relevant_for_coupling (e_req e)).
    + apply IH in Hc. rewrite app_length in Hc. simpl in *. lia.
    + unfold checked in Hc. destruct (pool_claim p (e_res e) (e_req e) (frac_wit w (e_res e))) as [[p' ra]| |]; simpl in Hc; try discriminate.
      destruct (claim_ok p p' (e_res e) (e_req e) ra) eqn:Eok; try discriminate.
      apply IH in Hc. rewrite app_length in Hc. simpl in *. lia.
Qed.

Lemma claim_coupled_len coupling : forall pools masks w acc pools' acc',
  length masks = length coupling ->
  claim_coupled pools coupling masks w acc = Ok (pools', acc') -> (length acc' = length acc + length coupling)%nat.
Proof.
  induction coupling as [|e rest IH]; intros pools masks w acc pools' acc' Hl Hc; simpl in Hc.
  - inversion Hc; subst. simpl. lia.
  - destruct masks as [|m masks]; [simpl in Hl; discriminate|].
    destruct (get_at pools (e_res e)) as [p| |] eqn:Eg; simpl in Hc; try discriminate.
    unfold checked in Hc. destruct (claim_with_group_mask p (e_res e) (e_req e) m (frac_wit w (e_res e))) as [[p' ra]| |]; simpl in Hc; try discriminate.
    destruct (claim_ok p p' (e_res e) (e_req e) ra) eqn:Eok; try discriminate.
    apply IH in Hc; [|simpl in Hl; lia]. rewrite app_length in Hc. simpl in *. lia.
Qed.

Lemma solver_rows_len free entries : forall rows, solver_rows free entries = Ok rows -> length rows = length entries.
Proof.
  induction entries as [|e rest IH]; intros rows H; simpl in H.
  - inversion H; auto.
  - destruct (e_req e); try discriminate. destruct (get_at free (e_res e)); simpl in H; try discriminate.
    destruct (solver_rows free rest) as [rows'| |]; simpl in H; try discriminate.
    destruct (split amount). inversion H; subst. simpl. f_equal. auto.
Qed.

Lemma masks_feasible_len rows : forall masks, masks_feasible rows masks = true -> length masks = length rows.
Proof.
  induction rows as [|[[per u] f] rows IH]; intros [|m masks] H; simpl in H; try discriminate; auto.
  apply andb_true_iff in H. destruct H as [_ H]. simpl. f_equal. auto.
Qed.

Lemma group_solver_len free entries ws tie ans masks o :
  group_solver free entries ws tie ans = Ok (Some (masks, o)) -> length masks = length entries.
Proof.
  unfold group_solver. intros H.
  destruct (solver_rows free entries) as [rows| |] eqn:Er; simpl in H; try discriminate.
  destruct (weights_objective entries _ ws []); simpl in H; try discriminate.
  destruct ans as [ms|].
  - destruct (masks_feasible rows ms) eqn:Ef; try discriminate.
    destruct (weights_objective entries _ ws ms); simpl in H; try discriminate.
    inversion H; subst. rewrite (masks_feasible_len _ _ Ef). eapply solver_rows_len; eauto.
  - destruct (masks_feasible rows _); discriminate.
Qed.

Lemma claim_resources_len a rq w pools' al : claim_resources a rq w = Ok (pools', al) -> length al = length rq.
Proof.
  unfold claim_resources. intros Hc.
  destruct (claim_direct (a_pools a) rq w [] []) as [[[pools acc] coupling]| |] eqn:Ed; simpl in Hc; try discriminate.
  apply claim_direct_len in Ed. simpl in Ed.
  destruct coupling as [|e coupling].
  - inversion Hc; subst. simpl in Ed. lia.
  - destruct (group_solver (a_free a) (e :: coupling) (a_weights a) true (w_mask w)) as [[[masks obj]|]| |] eqn:Eg; cbn [bind] in Hc; try discriminate.
    destruct (claim_coupled pools (e :: coupling) masks w acc) as [[pools2 acc2]| |] eqn:Ec; cbn [bind] in Hc; try discriminate.
    inversion Hc; subst. apply group_solver_len in Eg. apply claim_coupled_len in Ec; auto.
    rewrite (Permutation_length (isort_perm ralloc_le acc2)). lia.
Qed.

(** C04_exact_amount: every grant consists of exactly one resource allocation per entry of the request,
    each with exactly the requested amount (the full size for `all`), whole indices followed by at most one
    fractional index whose parts add up to the amount (no indices for a sum resource). *)
Theorem exact_amount_thm d s0 ops s rq w s' al :
  init d = Ok s0 -> Forall valid_op ops -> run s0 ops = Ok s -> NoDup (map e_res rq) ->
  step s (OAlloc rq w) = Ok (s', OutGrant al) ->
  exact_amount_set_ok (worker_pools s0) rq al = true.
Proof.
  intros Hi Hv Hr Hnd Hs.
  assert (HF : FullInv (a_pools (s_alloc s0)) s) by (eapply run_full; [apply (init_full d); auto | eauto | eauto]).
  destruct HF as [HI HW]. simpl in Hs. unfold try_allocate in Hs.
  destruct (has_resources (s_alloc s) rq w) as [[ok yard]| |]; simpl in Hs; try discriminate.
  destruct ok; simpl in Hs; [|discriminate].
  destruct (claim_resources _ rq w) as [[pools al']| |] eqn:Ec; simpl in Hs; try discriminate.
  destruct (cf_remove (a_free (s_alloc s)) al') as [free'| |] eqn:Ef; simpl in Hs; try discriminate.
  inversion Hs; subst.
  destruct (claim_resources_full (a_pools (s_alloc s0)) (mkAllocator (a_pools (s_alloc s)) (a_free (s_alloc s)) (a_weights (s_alloc s)) yard (a_all (s_alloc s))) (s_live s) rq w pools al free') as [A B]; auto.
  unfold exact_amount_set_ok, worker_pools. apply andb_true_iff. split.
  - apply N.eqb_eq. unfold len. f_equal. eapply claim_resources_len; eauto.
  - apply forallb_forall. intros ra Hin. rewrite Forall_forall in B. destruct (B ra Hin) as [_ (e & He & Hx)].
    apply existsb_exists. exists e. auto.
Qed.
