(** C16_objective_orders_by_group_count: under the size bounds, the group solver's objective is strictly
    better for fewer groups - so an optimal answer selects the minimum number of groups. *)
From HQ Require Import Base.Prelude Gen.Consts Alloc.Model Alloc.Spec Alloc.Lemmas Alloc.GroupsProofs Alloc.Admission.
Require Import ZifyBool ZifyN ZifyNat.
Open Scope N_scope.
Arguments N.add : simpl never.
Arguments N.mul : simpl never.
Arguments N.eqb : simpl never.
Arguments N.ltb : simpl never.
Arguments N.leb : simpl never.
Arguments N.of_nat : simpl never.
Arguments N.to_nat : simpl never.
Arguments sumN : simpl never.

Lemma sublists_in {A} (l : list A) m x : In m (sublists l) -> In x m -> In x l.
Proof.
  revert m; induction l as [|y l IH]; simpl; intros m Hm Hx.
  - destruct Hm as [<-|[]]. destruct Hx.
  - apply in_app_or in Hm. destruct Hm as [Hm|Hm].
    + apply in_map_iff in Hm. destruct Hm as [m' [<- Hm']]. destruct Hx as [->|Hx]; auto. right. eapply IH; eauto.
    + right. eapply IH; eauto.
Qed.

Lemma seqN_lt s n x : In x (seqN s n) -> x < s + N.of_nat n.
Proof. revert s; induction n; simpl; intros s H; [contradiction|]. destruct H as [<-|H]; [lia|]. apply IHn in H. lia. Qed.

(** sum of a non-negative coefficient over a sub-selection <= sum over all groups *)
Lemma sublists_sum_le per coef : forall l m, In m (sublists l) -> mask_sum per m coef <= mask_sum per l coef.
Proof.
  induction l as [|y l IH]; intros m Hm; simpl in Hm.
  - destruct Hm as [<-|[]]. apply N.le_refl.
  - apply in_app_or in Hm. destruct Hm as [Hm|Hm].
    + apply in_map_iff in Hm. destruct Hm as [m' [<- Hm']]. rewrite !mask_sum_cons. specialize (IH _ Hm').
      destruct (nth_error per (nat_of y)); lia.
    + specialize (IH _ Hm). rewrite mask_sum_cons. destruct (nth_error per (nat_of y)); lia.
Qed.

Definition tieN (uf : N * N) : N := 10 * fst uf * FPU.
Definition bonusN (fr : N) (uf : N * N) : N := if fr <=? snd uf then snd uf * ALLOC_FRAC_MUL * 10 * ALLOC_UNIT_DIV else 0.

Definition in_range (per : list (N * N)) (m : mask) : Prop := forall g, In g m -> g < len per.

Lemma in_range_full per m : In m (sublists (full_mask per)) -> in_range per m.
Proof.
  intros Hm g Hg. pose proof (sublists_in _ _ _ Hm Hg) as H. unfold full_mask in H. apply seqN_lt in H. unfold len. lia.
Qed.

Lemma nth_in_range (per : list (N * N)) g : g < len per -> exists uf, nth_error per (nat_of g) = Some uf.
Proof.
  intros H. destruct (nth_error per (nat_of g)) eqn:E; eauto. apply nth_error_None in E. unfold len, nat_of in *. lia.
Qed.

(** exact value of the per-entry objective *)
Lemma objective_int per m tie :
  in_range per m ->
  mask_objective tie per 0 m = (- GROUP_COST * Z.of_N (len m) - (if tie then Z.of_N (mask_sum per m tieN) else 0))%Z.
Proof.
  induction m as [|g m IH]; intros Hr.
  - simpl. unfold len; simpl. destruct tie; simpl; lia.
  - assert (Hr' : in_range per m) by (intros x Hx; apply Hr; right; auto).
    destruct (nth_in_range per g) as [uf Huf]; [apply Hr; left; auto|].
    simpl mask_objective. rewrite Huf, mask_sum_cons, Huf. fold (mask_objective tie per 0 m). rewrite (IH Hr').
    unfold var_weight, tieN. rewrite N.eqb_refl. unfold len. simpl length. destruct tie; lia.
Qed.

Lemma objective_frac per m tie fr :
  fr <> 0 -> in_range per m ->
  mask_objective tie per fr m = (- GROUP_COST * Z.of_N (len m) + (if tie then Z.of_N (mask_sum per m (bonusN fr)) else 0))%Z.
Proof.
  intros Hfr. induction m as [|g m IH]; intros Hr.
  - simpl. unfold len; simpl. destruct tie; simpl; lia.
  - assert (Hr' : in_range per m) by (intros x Hx; apply Hr; right; auto).
    destruct (nth_in_range per g) as [uf Huf]; [apply Hr; left; auto|].
    simpl mask_objective. rewrite Huf, mask_sum_cons, Huf. fold (mask_objective tie per fr m). rewrite (IH Hr').
    unfold var_weight, bonusN. destruct (N.eqb_spec fr 0); [congruence|].
    unfold len. simpl length. unfold GROUP_COST_FRAC, GROUP_COST_PLAIN, GROUP_COST.
    change ALLOC_GROUP_WEIGHT_FRAC with ALLOC_GROUP_WEIGHT. change ALLOC_GROUP_WEIGHT_PLAIN with ALLOC_GROUP_WEIGHT.
    destruct (fr <=? snd uf); destruct tie; lia.
Qed.

(** the size bounds of DESIGN C16: fewer than 32*1024 whole units in total, fewer than 64 groups *)
Definition bounded (per : list (N * N)) : Prop :=
  sumN (map fst per) < ALLOC_UNIT_DIV * ALLOC_GROUP_WEIGHT /\ len per * ALLOC_FRAC_MUL < ALLOC_GROUP_WEIGHT
  /\ Forall (fun uf => snd uf < FPU) per.

Lemma bonus_total per fr : Forall (fun uf => snd uf < FPU) per ->
  sumN (map (bonusN fr) per) <= len per * (FPU * ALLOC_FRAC_MUL * 10 * ALLOC_UNIT_DIV).
Proof.
  induction 1 as [|uf per Hx _ IH]; cbn [map]; [unfold len; simpl; rewrite sumN_nil; lia|].
  rewrite sumN_cons. unfold len in *. simpl length. unfold bonusN at 1. unfold ALLOC_FRAC_MUL, ALLOC_UNIT_DIV, FPU, FRACTIONS_PER_UNIT in *.
  destruct (fr <=? snd uf); lia.
Qed.

(** C16_objective_orders_by_group_count *)
Theorem objective_orders per fr tie m m' :
  bounded per -> In m (sublists (full_mask per)) -> In m' (sublists (full_mask per)) ->
  len m < len m' -> (mask_objective tie per fr m' < mask_objective tie per fr m)%Z.
Proof.
  intros (B1 & B2 & B3) Hm Hm' Hlt.
  pose proof (in_range_full _ _ Hm) as R. pose proof (in_range_full _ _ Hm') as R'.
  destruct (N.eq_dec fr 0) as [->|Hfr].
  - rewrite !objective_int by auto. destruct tie; [|unfold GROUP_COST, OBJ_SCALE, ALLOC_GROUP_WEIGHT, ALLOC_UNIT_DIV, FPU, FRACTIONS_PER_UNIT; lia].
    pose proof (sublists_sum_le per tieN _ _ Hm) as S. rewrite mask_sum_full in S.
    assert (ST : sumN (map tieN per) = 10 * FPU * sumN (map fst per)).
    { clear. induction per as [|uf per IH]; cbn [map]; rewrite ?sumN_nil, ?sumN_cons; [lia|]. rewrite IH. unfold tieN. lia. }
    rewrite ST in S. unfold GROUP_COST, OBJ_SCALE, ALLOC_GROUP_WEIGHT, ALLOC_UNIT_DIV, FPU, FRACTIONS_PER_UNIT in *. lia.
  - rewrite !objective_frac by auto. destruct tie; [|unfold GROUP_COST, OBJ_SCALE, ALLOC_GROUP_WEIGHT, ALLOC_UNIT_DIV, FPU, FRACTIONS_PER_UNIT; lia].
    pose proof (sublists_sum_le per (bonusN fr) _ _ Hm') as S. rewrite mask_sum_full in S.
    pose proof (bonus_total per fr B3) as BT.
    unfold GROUP_COST, OBJ_SCALE, ALLOC_GROUP_WEIGHT, ALLOC_UNIT_DIV, ALLOC_FRAC_MUL, FPU, FRACTIONS_PER_UNIT in *. lia.
Qed.

(** hence an optimal feasible selection of groups has the minimum number of groups *)
Theorem optimal_is_minimal per units fr tie m :
  bounded per -> In m (sublists (full_mask per)) -> mask_feasible per units fr m = true ->
  (forall m', In m' (sublists (full_mask per)) -> mask_feasible per units fr m' = true ->
              (mask_objective tie per fr m' <= mask_objective tie per fr m)%Z) ->
  min_groups per units fr = Some (len m).
Proof.
  intros HB Hm Hf Hopt. pose proof (min_groups_correct per units fr) as MC.
  destruct (min_groups per units fr) as [k|].
  - destruct MC as [(m0 & Hm0 & Hs0 & Hl0) Hmin]. f_equal.
    rewrite rows_mean_sufficient in Hf. pose proof (Hmin m Hm Hf) as Hge.
    destruct (N.eq_dec k (len m)); auto. exfalso.
    assert (Hlt : len m0 < len m) by lia.
    pose proof (objective_orders per fr tie m0 m HB Hm0 Hm Hlt) as Ho.
    rewrite <- rows_mean_sufficient in Hs0. specialize (Hopt m0 Hm0 Hs0). lia.
  - rewrite rows_mean_sufficient in Hf. rewrite (MC m Hm) in Hf. discriminate.
Qed.

(** strict admission, at the level of one entry without coupling weights: if the objective (without
    tie-breaking terms) of a selection feasible NOW is within the slack of the objective of a selection that is
    optimal for the EMPTY worker, then the amount fits NOW into the minimum number of groups of the empty worker *)
Theorem strict_admission_sound per_now per_all units fr m_now m_all :
  In m_now (sublists (full_mask per_now)) -> In m_all (sublists (full_mask per_all)) ->
  mask_feasible per_now units fr m_now = true ->
  min_groups per_all units fr = Some (len m_all) ->
  (mask_objective false per_all fr m_all - SLACK <= mask_objective false per_now fr m_now)%Z ->
  exists k, min_groups per_now units fr = Some k /\ k <= len m_all.
Proof.
  intros Hn Ha Hf Hmin Hobj.
  pose proof (in_range_full _ _ Hn) as Rn. pose proof (in_range_full _ _ Ha) as Ra.
  assert (Hle : len m_now <= len m_all).
  { destruct (N.eq_dec fr 0) as [->|Hfr].
    - rewrite !objective_int in Hobj by auto. unfold SLACK, GROUP_COST, OBJ_SCALE, ALLOC_GROUP_WEIGHT, ALLOC_SLACK_TENTHS, ALLOC_UNIT_DIV, FPU, FRACTIONS_PER_UNIT in Hobj. lia.
    - rewrite !objective_frac in Hobj by auto. unfold SLACK, GROUP_COST, OBJ_SCALE, ALLOC_GROUP_WEIGHT, ALLOC_SLACK_TENTHS, ALLOC_UNIT_DIV, FPU, FRACTIONS_PER_UNIT in Hobj. lia. }
  pose proof (min_groups_correct per_now units fr) as MC.
  rewrite rows_mean_sufficient in Hf.
  destruct (min_groups per_now units fr) as [k|].
  - destruct MC as [_ Hm]. exists k. split; auto. specialize (Hm m_now Hn Hf). lia.
  - rewrite (MC m_now Hn) in Hf. discriminate.
Qed.
