(** C16 - claim follows policy, for whole grants: every resource allocation of every grant of
    ResourceAllocator::try_allocate satisfies the four shape monitors (scatter-shape, compact-shape, tight-shape,
    min-fraction) relative to the pools BEFORE the grant and to the entry of the request it serves. *)
From Coq Require Import Permutation.
From HQ Require Import Base.Prelude Gen.Consts Alloc.Model Alloc.Spec Alloc.Lemmas Alloc.Group Alloc.Pool Alloc.Inv Alloc.System Alloc.Mirror Alloc.MirrorSystem Alloc.Complete Alloc.CompleteTight Alloc.Examples
  Alloc.PolicyBase Alloc.PolicyFrac Alloc.PolicyScatter Alloc.PolicyTight.
Require Import ZifyBool ZifyN ZifyNat.
Open Scope N_scope.
Arguments N.add : simpl never.
Arguments N.sub : simpl never.
Arguments N.mul : simpl never.
Arguments N.div : simpl never.
Arguments N.modulo : simpl never.
Arguments N.eqb : simpl never.
Arguments N.ltb : simpl never.
Arguments N.leb : simpl never.
Arguments N.of_nat : simpl never.
Arguments N.to_nat : simpl never.
Arguments sumN : simpl never.

(** the four monitors of ocaml/alloc/driver.ml, for one (entry, resource allocation) pair *)
Definition policy_ok (before : list pool) (e : entry) (ra : ralloc) : bool :=
  scatter_ok before e ra && compact_even_ok before e ra && tight_ok before e ra && min_fraction_ok before e ra.

Lemma get_at_nth {A} (l : list A) i x : get_at l i = Ok x -> nth_error l (nat_of i) = Some x.
Proof. intros H. apply get_at_ok in H. tauto. Qed.

(** a non-coupled entry (ResourcePool::claim_resources) *)
Theorem policy_direct before e wit p p' ra :
  get_at before (e_res e) = Ok p ->
  is_groups p && is_relevant_for_coupling (e_req e) = false ->
  pool_claim p (e_res e) (e_req e) wit = Ok (p', ra) ->
  policy_ok before e ra = true.
Proof.
  intros Hg Hnc Hc. apply get_at_nth in Hg.
  assert (Hmf : min_fraction_ok before e ra = true) by (eapply C16_min_fraction_direct; eauto).
  unfold policy_ok. rewrite Hmf, andb_true_r.
  destruct p as [|full g|full gs|full free].
  - discriminate Hc.
  - unfold scatter_ok, compact_even_ok, tight_ok. rewrite Hg. destruct (e_req e) as [[] a|]; reflexivity.
  - destruct (e_req e) as [[] a|] eqn:He; try discriminate Hnc.
    + assert (Hs : scatter_ok before e ra = true).
      { eapply (C16_scatter_shape before e a wit full gs p' ra); eauto. rewrite He. exact Hc. }
      rewrite Hs. unfold compact_even_ok, tight_ok. rewrite He, ?Hg. reflexivity.
    + unfold scatter_ok, compact_even_ok, tight_ok. rewrite He, ?Hg. reflexivity.
  - unfold scatter_ok, compact_even_ok, tight_ok. rewrite Hg. destruct (e_req e) as [[] a|]; reflexivity.
Qed.

(** a coupled entry (ResourcePool::claim_resources_with_group_mask) with a duplicate-free group selection *)
Theorem policy_coupled before e mask wit p p' ra :
  get_at before (e_res e) = Ok p -> NoDup mask ->
  claim_with_group_mask p (e_res e) (e_req e) mask wit = Ok (p', ra) ->
  policy_ok before e ra = true.
Proof.
  intros Hg Hnd Hc. apply get_at_nth in Hg.
  assert (Hmf : min_fraction_ok before e ra = true) by (eapply C16_min_fraction_coupled; eauto).
  unfold policy_ok. rewrite Hmf, andb_true_r.
  destruct p as [|full g|full gs|full free]; try discriminate Hc.
  destruct (e_req e) as [[] a|] eqn:He; try discriminate Hc.
  - assert (Hs : compact_even_ok before e ra = true).
    { eapply (C16_compact_shape before e a mask wit full gs p' ra); eauto. rewrite He. exact Hc. }
    rewrite Hs. unfold scatter_ok, tight_ok. rewrite He, ?Hg. reflexivity.
  - assert (Hs : tight_ok before e ra = true).
    { eapply (C16_tight_shape before e a mask wit full gs p' ra); eauto. rewrite He. exact Hc. }
    rewrite Hs. unfold scatter_ok, compact_even_ok. rewrite He, ?Hg. reflexivity.
  - assert (Hs : compact_even_ok before e ra = true).
    { eapply (C16_compact_shape before e a mask wit full gs p' ra); eauto. rewrite He. exact Hc. }
    rewrite Hs. unfold scatter_ok, tight_ok. rewrite He, ?Hg. reflexivity.
  - assert (Hs : tight_ok before e ra = true).
    { eapply (C16_tight_shape before e a mask wit full gs p' ra); eauto. rewrite He. exact Hc. }
    rewrite Hs. unfold scatter_ok, compact_even_ok. rewrite He, ?Hg. reflexivity.
Qed.

(* ------------------------------------------------------------------------------------------ *)
(** * the two loops of ResourceAllocator::claim_resources *)

Section Grant.
  Variable before : list pool.
  Variable rq0 : request.

  Definition served (ra : ralloc) : Prop :=
    exists e, In e rq0 /\ e_res e = ra_res ra /\ policy_ok before e ra = true.

  Lemma nodup_mid (a : list N) x b : NoDup (a ++ x :: b) -> NoDup (a ++ b) /\ ~ In x a /\ ~ In x b.
  Proof.
    intros H. pose proof (NoDup_remove_1 _ _ _ H). pose proof (NoDup_remove_2 _ _ _ H) as H2.
    split; auto. split; intros Hin; apply H2; apply in_or_app; auto.
  Qed.

  (** first loop: the pools of the entries still to come and of the deferred (coupled) entries are untouched *)
  Lemma claim_direct_policy entries : forall pools w acc coupling pools' acc' coupling',
    incl entries rq0 -> incl coupling rq0 ->
    NoDup (map e_res coupling ++ map e_res entries) ->
    (forall e, In e coupling \/ In e entries -> get_at pools (e_res e) = get_at before (e_res e)) ->
    Forall served acc ->
    claim_direct pools entries w acc coupling = Ok (pools', acc', coupling') ->
    Forall served acc' /\ incl coupling' rq0 /\ NoDup (map e_res coupling')
    /\ (forall e, In e coupling' -> get_at pools' (e_res e) = get_at before (e_res e)).
  Proof.
    induction entries as [|e rest IH]; intros pools w acc coupling pools' acc' coupling' Hi1 Hi2 Hnd Hun Hacc Hc; cbn [claim_direct] in Hc.
    - inversion Hc; subst. cbn [map] in Hnd. rewrite app_nil_r in Hnd. repeat split; auto.
    - assert (Hine : In e rq0) by (apply Hi1; left; auto).
      assert (Hi1' : incl rest rq0) by (intros x Hx; apply Hi1; right; auto).
      destruct (get_at pools (e_res e)) as [p| |] eqn:Eg; cbn [bind] in Hc; try discriminate.
      assert (Hgb : get_at before (e_res e) = Ok p) by (rewrite <- Hun; auto; right; left; auto).
      destruct (is_groups p && is_relevant_for_coupling (e_req e)) eqn:Ecp.
      + eapply IH; [| | | | |exact Hc]; auto.
        * intros x Hx. apply in_app_or in Hx. destruct Hx as [Hx|[Hx|[]]]; [auto|subst; auto].
        * rewrite map_app. cbn [map]. rewrite <- app_assoc. exact Hnd.
        * intros e' [He'|He']; apply Hun; [|right; right; auto].
          apply in_app_or in He'. destruct He' as [He'|[He'|[]]]; [left; auto|subst; right; left; auto].
      + unfold checked in Hc.
        destruct (pool_claim p (e_res e) (e_req e) (frac_wit w (e_res e))) as [[p' ra]| |] eqn:Epc; cbn [bind] in Hc; try discriminate.
        destruct (claim_ok p p' (e_res e) (e_req e) ra) eqn:Eok; try discriminate.
        pose proof (claim_ok_inv _ _ _ _ _ Eok) as (Hres & _).
        cbn [map] in Hnd. destruct (nodup_mid _ _ _ Hnd) as (Hnd' & Hn1 & Hn2).
        eapply IH; [| | | | |exact Hc]; auto.
        * intros e' He'. rewrite get_at_set_at_other; [apply Hun; destruct He'; auto; right; right; auto|].
          intros Heq. destruct He' as [He'|He']; [apply Hn1|apply Hn2]; rewrite Heq; apply in_map; auto.
        * apply Forall_app. split; auto. constructor; [|constructor].
          exists e. split; auto. split; auto. eapply policy_direct; eauto.
  Qed.

  (** second loop: coupling.into_iter().zip(groups) *)
  Lemma claim_coupled_policy coupling : forall pools masks w acc pools' acc',
    incl coupling rq0 -> NoDup (map e_res coupling) ->
    (forall e, In e coupling -> get_at pools (e_res e) = get_at before (e_res e)) ->
    Forall (@NoDup N) masks ->
    Forall served acc ->
    claim_coupled pools coupling masks w acc = Ok (pools', acc') ->
    Forall served acc'.
  Proof.
    induction coupling as [|e rest IH]; intros pools masks w acc pools' acc' Hi Hnd Hun Hm Hacc Hc; cbn [claim_coupled] in Hc.
    - inversion Hc; subst; auto.
    - destruct masks as [|m masks]; [inversion Hc; subst; auto|].
      assert (Hine : In e rq0) by (apply Hi; left; auto).
      assert (Hi' : incl rest rq0) by (intros x Hx; apply Hi; right; auto).
      inversion Hm as [|? ? Hm1 Hm2]; subst.
      destruct (get_at pools (e_res e)) as [p| |] eqn:Eg; cbn [bind] in Hc; try discriminate.
      assert (Hgb : get_at before (e_res e) = Ok p) by (rewrite <- Hun; auto; left; auto).
      unfold checked in Hc.
      destruct (claim_with_group_mask p (e_res e) (e_req e) m (frac_wit w (e_res e))) as [[p' ra]| |] eqn:Epc; cbn [bind] in Hc; try discriminate.
      destruct (claim_ok p p' (e_res e) (e_req e) ra) eqn:Eok; try discriminate.
      pose proof (claim_ok_inv _ _ _ _ _ Eok) as (Hres & _).
      cbn [map] in Hnd. inversion Hnd as [|? ? Hn1 Hnd']; subst.
      eapply IH; [| | | | |exact Hc]; auto.
      + intros e' He'. rewrite get_at_set_at_other; [apply Hun; right; auto|].
        intros Heq. apply Hn1. rewrite Heq. apply in_map. auto.
      + apply Forall_app. split; auto. constructor; [|constructor].
        exists e. split; auto. split; auto. eapply (policy_coupled before e m); eauto.
  Qed.
End Grant.

(** the solver's accepted answers are duplicate-free selections of groups *)
Lemma masks_feasible_nodup rows : forall masks, masks_feasible rows masks = true -> Forall (@NoDup N) masks.
Proof.
  induction rows as [|[[per u] f] rows IH]; intros [|m masks] H; cbn [masks_feasible] in H; try discriminate; [constructor|].
  apply andb_true_iff in H. destruct H as [H H3]. apply andb_true_iff in H. destruct H as [H1 _].
  constructor; auto. eapply increasing_nodup; eauto.
Qed.

Lemma group_solver_nodup free entries ws tie ans masks o :
  group_solver free entries ws tie ans = Ok (Some (masks, o)) -> Forall (@NoDup N) masks.
Proof.
  unfold group_solver. intros H.
  destruct (solver_rows free entries) as [rows| |] eqn:Er; cbn [bind] in H; try discriminate.
  destruct (weights_objective entries _ ws []); cbn [bind] in H; try discriminate.
  destruct ans as [ms|].
  - destruct (masks_feasible rows ms) eqn:Ef; try discriminate.
    destruct (weights_objective entries _ ws ms); cbn [bind] in H; try discriminate.
    inversion H; subst. eapply masks_feasible_nodup; eauto.
  - destruct (masks_feasible rows _); discriminate.
Qed.

(** ResourceAllocator::claim_resources *)
Theorem claim_resources_policy a rq w pools' al :
  NoDup (map e_res rq) ->
  claim_resources a rq w = Ok (pools', al) ->
  Forall (served (a_pools a) rq) al.
Proof.
  intros Hnd Hc. unfold claim_resources in Hc.
  destruct (claim_direct (a_pools a) rq w [] []) as [[[pools acc] coupling]| |] eqn:Ed; cbn [bind] in Hc; try discriminate.
  destruct (claim_direct_policy (a_pools a) rq rq (a_pools a) w [] [] pools acc coupling) as (Hacc & Hic & Hndc & Hun); auto.
  { apply incl_refl. }
  { intros x []. }
  destruct coupling as [|e coupling].
  - inversion Hc; subst. auto.
  - destruct (group_solver (a_free a) (e :: coupling) (a_weights a) true (w_mask w)) as [[[masks obj]|]| |] eqn:Eg; cbn [bind] in Hc; try discriminate.
    destruct (claim_coupled pools (e :: coupling) masks w acc) as [[pools2 acc2]| |] eqn:Ec; cbn [bind] in Hc; try discriminate.
    inversion Hc; subst.
    eapply Permutation_Forall; [apply Permutation_sym, isort_perm|].
    eapply claim_coupled_policy; [| | | | |exact Ec]; eauto.
    eapply group_solver_nodup; eauto.
Qed.

(** C16 "claim follows policy", full statement at the level of the allocator: for EVERY allocator state, EVERY
    request with pairwise distinct resource ids (ResourceRequest::validate) and EVERY accepted witness, each
    resource allocation of a grant of try_allocate serves an entry of the request and satisfies, relative to the
    pools before the grant, all four shape monitors:
    - scatter touches min(units, number of non-empty groups) groups,
    - compact / compact! spread the whole indices evenly over the groups used (two groups differ by more than
      one index only if the smaller one was drained),
    - tight / tight! drain all but at most one of the groups used,
    - the fractional remainder comes from the partly used index of its group with the least fitting free
      fraction, a whole index being split only if no partly used index fits. *)
Theorem C16_claim_follows_policy : forall s rq w s' al,
  NoDup (map e_res rq) ->
  step s (OAlloc rq w) = Ok (s', OutGrant al) ->
  Forall (fun ra => exists e, In e rq /\ e_res e = ra_res ra
                              /\ scatter_ok (a_pools (s_alloc s)) e ra = true
                              /\ compact_even_ok (a_pools (s_alloc s)) e ra = true
                              /\ tight_ok (a_pools (s_alloc s)) e ra = true
                              /\ min_fraction_ok (a_pools (s_alloc s)) e ra = true) al.
Proof.
  intros s rq w s' al Hnd Hs. cbn [step] in Hs. unfold try_allocate in Hs.
  destruct (has_resources (s_alloc s) rq w) as [[ok yard]| |]; cbn [bind] in Hs; try discriminate.
  destruct ok; cbn [negb] in Hs; [|discriminate].
  destruct (claim_resources _ rq w) as [[pools al']| |] eqn:Ec; cbn [bind] in Hs; try discriminate.
  destruct (cf_remove (a_free (s_alloc s)) al') as [free'| |] eqn:Ef; cbn [bind] in Hs; try discriminate.
  inversion Hs; subst.
  apply claim_resources_policy in Ec; auto. cbn [a_pools] in Ec.
  eapply Forall_impl; [|exact Ec]. intros ra (e & He & Hres & Hp).
  unfold policy_ok in Hp. rewrite !andb_true_iff in Hp. destruct Hp as [[[A B] C] D].
  exists e. repeat split; auto.
Qed.

(** in particular in every reachable state of the worker-side system *)
Corollary C16_claim_follows_policy_reachable : forall d s0 ops s rq w s' al,
  init d = Ok s0 -> Forall valid_op ops -> run s0 ops = Ok s -> NoDup (map e_res rq) ->
  step s (OAlloc rq w) = Ok (s', OutGrant al) ->
  Forall (fun ra => exists e, In e rq /\ e_res e = ra_res ra /\ policy_ok (a_pools (s_alloc s)) e ra = true) al.
Proof.
  intros d s0 ops s rq w s' al _ _ _ Hnd Hs.
  eapply Forall_impl; [|eapply C16_claim_follows_policy; eauto].
  intros ra (e & He & Hres & A & B & C & D). exists e. unfold policy_ok. rewrite A, B, C, D. auto.
Qed.

(** non-vacuity: the run of Alloc.Examples (compact + sum, scatter, tight on two groups of two cpus): the third
    grant is made in a reachable state with live allocations *)
Example claim_follows_policy_example :
  exists s0 s s' al,
    init ex_desc = Ok s0 /\ run s0 (firstn 2 ex_ops) = Ok s
    /\ step s (OAlloc [mkEntry 0 (Req Tight 5000)] (mkWitness (Some [[0]]) None None [(0, 0)])) = Ok (s', OutGrant al)
    /\ al = [mkRalloc 0 5000 [mkAidx 0 0 5000]]
    /\ forallb (fun ra => policy_ok (a_pools (s_alloc s)) (mkEntry 0 (Req Tight 5000)) ra) al = true.
Proof.
  eexists. eexists. eexists. eexists.
  split; [vm_compute; reflexivity|]. split; [vm_compute; reflexivity|]. split; [vm_compute; reflexivity|].
  split; vm_compute; reflexivity.
Qed.

Print Assumptions C16_claim_follows_policy.
Print Assumptions C16_claim_follows_policy_reachable.
