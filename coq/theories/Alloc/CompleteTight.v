(** The check [claim_ok] accepts what the tight claim (claim_compact_from_groups) computes. *)
From Coq Require Import Permutation.
From HQ Require Import Base.Prelude Gen.Consts Alloc.Model Alloc.Spec Alloc.Lemmas Alloc.Group Alloc.Pool Alloc.Inv Alloc.System Alloc.Mirror Alloc.MirrorSystem Alloc.Complete.
Require Import ZifyBool ZifyN ZifyNat.
Open Scope N_scope.
Arguments N.add : simpl never.
Arguments N.sub : simpl never.
Arguments N.mul : simpl never.
Arguments N.div : simpl never.
Arguments N.modulo : simpl never.
Arguments N.eqb : simpl never.
Arguments N.ltb : simpl never.
Arguments N.leb : simpl never.
Arguments N.of_nat : simpl never.
Arguments N.to_nat : simpl never.
Arguments sumN : simpl never.

(** a fractional AllocationIndex that is served from a partly used index in the current state *)
Definition entry_based (gs : list group) (F : aidx) : Prop :=
  ai_frac F <> 0 /\ exists g f, get_at gs (ai_group F) = Ok g /\ fget (g_fr g) (ai_index F) = Some f /\ ai_frac F <= f.

Lemma take1_entry g F f : ai_frac F <> 0 -> fget (g_fr g) (ai_index F) = Some f -> ai_frac F <= f ->
  take1 g F = Some (mkGroup (g_idx g) (fset (g_fr g) (ai_index F) (f - ai_frac F))).
Proof.
  intros Hz Hf Hle. unfold take1. destruct (N.eqb_spec (ai_frac F) 0); [congruence|]. rewrite Hf.
  destruct (N.leb_spec (ai_frac F) f); [auto|lia].
Qed.

(** a whole take does not touch the fraction maps *)
Lemma take_whole_keeps_entry gs x gs1 F : whole x -> take_all gs [x] = Some gs1 -> entry_based gs F -> entry_based gs1 F.
Proof.
  intros Hx Ht (Hz & g & f & Hg & Hf & Hle). split; auto. simpl in Ht.
  destruct (get_at gs (ai_group x)) as [gx| |] eqn:Hgx; try discriminate.
  rewrite take1_whole in Ht by auto. destruct (memN (ai_index x) (g_idx gx)); try discriminate. inversion Ht; subst.
  destruct (N.eq_dec (ai_group x) (ai_group F)) as [E|E].
  - rewrite E in *. rewrite Hg in Hgx. inversion Hgx; subst gx.
    eexists _, f. split; [eapply get_at_set_at_same'; eauto|]. simpl. auto.
  - exists g, f. rewrite get_at_set_at_other by auto. auto.
Qed.

Lemma take_swap_entry gs F x : entry_based gs F -> whole x -> take_all gs [F; x] = take_all gs [x; F].
Proof.
  intros (Hz & g & f & Hg & Hf & Hle) Hx.
  destruct (N.eq_dec (ai_group F) (ai_group x)) as [Eg|Eg].
  - rewrite (take_two_same gs F x Eg), (take_two_same gs x F (eq_sym Eg)). rewrite <- Eg, Hg.
    rewrite (take1_entry g F f) by auto. unfold obind. rewrite !take1_whole by auto. simpl.
    destruct (memN (ai_index x) (g_idx g)); auto.
    rewrite (take1_entry _ F f) by auto. simpl. auto.
  - simpl. rewrite Hg. rewrite (take1_entry g F f) by auto.
    rewrite get_at_set_at_other by auto.
    destruct (get_at gs (ai_group x)) as [gx| |] eqn:Hgx; auto.
    destruct (take1 gx x) as [gx'|]; auto.
    rewrite get_at_set_at_other by auto. rewrite Hg. rewrite (take1_entry g F f) by auto.
    rewrite set_at_comm by auto. auto.
Qed.

Lemma take_entry_past_wholes W : forall gs F, Forall whole W -> entry_based gs F ->
  take_all gs ([F] ++ W) = take_all gs (W ++ [F]).
Proof.
  induction W as [|x W IH]; intros gs F Hw He; auto.
  inversion Hw as [|? ? Hx Hw']; subst.
  change ([F] ++ x :: W) with ([F; x] ++ W). rewrite take_all_app, take_swap_entry by auto.
  change ((x :: W) ++ [F]) with ([x] ++ (W ++ [F])). rewrite (take_all_app gs [x]).
  change [x; F] with ([x] ++ [F]). rewrite (take_all_app gs [x] [F]).
  destruct (take_all gs [x]) as [gs1|] eqn:E1; auto.
  rewrite <- (IH gs1 F Hw') by (eapply take_whole_keeps_entry; eauto).
  rewrite take_all_app. auto.
Qed.

(** swap_to_last moves the element at position k to the end (exchanging it with the last one) *)
Lemma swap_to_last_spec {A} (a : list A) x b :
  swap_to_last (a ++ x :: b) (length a) = a ++ match rev b with [] => [x] | y :: r => y :: rev r ++ [x] end.
Proof. induction a as [|z a IH]; simpl; auto. rewrite IH. auto. Qed.

Lemma swapped_perm {A} (b : list A) : Permutation (match rev b with [] => [] | y :: r => y :: rev r end) b.
Proof.
  destruct (rev b) as [|y r] eqn:E.
  - assert (b = []) by (destruct b; auto; simpl in E; destruct (rev b); discriminate). subst; auto.
  - assert (Hb : b = rev r ++ [y]) by (rewrite <- (rev_involutive b), E; reflexivity). rewrite Hb.
    apply Permutation_cons_append.
Qed.

Lemma try_take_fraction_spec gs gi g fr wit out g' out' took :
  get_at gs gi = Ok g -> try_take_fraction g fr gi wit out = Ok (g', out', took) ->
  (took = false /\ g' = g /\ out' = out)
  \/ (took = true /\ fr <> 0 /\ exists F, out' = out ++ [F] /\ ai_frac F = fr /\ ai_group F = gi
      /\ entry_based gs F /\ take_all gs [F] = Some (set_at gs gi g')).
Proof.
  intros Hg Ht. unfold try_take_fraction in Ht.
  destruct (N.eqb_spec fr 0) as [Hz|Hz]; [inversion Ht; subst; auto|].
  destruct (best_fraction_match (g_fr g) fr wit) as [[[i f]|]| |] eqn:Eb; simpl in Ht; try discriminate.
  - inversion Ht; subst. apply bfm_some in Eb. destruct Eb as [Ei Hle]. right. repeat split; auto.
    exists (mkAidx i gi fr). repeat split; auto.
    + exists g, f. auto.
    + simpl. rewrite Hg. rewrite (take1_entry g (mkAidx i gi fr) f) by auto. auto.
  - inversion Ht; subst. auto.
Qed.

Definition segA (fidx fidx' : option nat) (seg : list aidx) : Prop :=
  fidx' = fidx /\ exists ws fs, seg = ws ++ fs /\ Forall whole ws
                 /\ (fs = [] \/ exists F, fs = [F] /\ ai_frac F <> 0 /\ ai_frac F < FPU).
Definition segB (gs : list group) (out : list aidx) (fidx' : option nat) (seg : list aidx) : Prop :=
  exists W1 F W2 gsA, seg = W1 ++ [F] ++ W2 /\ Forall whole W1 /\ Forall whole W2 /\ ai_frac F < FPU
    /\ fidx' = Some (length out + length W1)%nat /\ take_all gs W1 = Some gsA /\ entry_based gsA F.

Lemma whole_sum_mult ws : Forall whole ws -> sumN (map held_ix ws) = len ws * FPU.
Proof. apply sum_whole. Qed.

Lemma seg_no_fraction gs out fidx fidx' seg k :
  sumN (map held_ix seg) = k * FPU -> segA fidx fidx' seg \/ segB gs out fidx' seg ->
  fidx' = fidx /\ Forall whole seg.
Proof.
  intros Hs [(E & ws & fs & -> & Hw & Hf)|(W1 & F & W2 & gsA & -> & Hw1 & Hw2 & HF & _ & _ & (Hz & _))].
  - split; auto. destruct Hf as [->|(F & -> & Hz & Hl)]; [rewrite app_nil_r; auto|]. exfalso.
    rewrite map_app, sumN_app, (sum_whole _ Hw) in Hs. cbn [map] in Hs. rewrite sumN_cons, sumN_nil in Hs.
    unfold held_ix in Hs. destruct (N.eqb_spec (ai_frac F) 0); [congruence|].
    unfold FPU, FRACTIONS_PER_UNIT in *. nia.
  - exfalso. rewrite !map_app, !sumN_app, (sum_whole _ Hw1), (sum_whole _ Hw2) in Hs. cbn [map] in Hs. rewrite sumN_cons, sumN_nil in Hs.
    unfold held_ix in Hs. destruct (N.eqb_spec (ai_frac F) 0); [congruence|].
    unfold FPU, FRACTIONS_PER_UNIT in *. nia.
Qed.

Lemma compact_loop_unfold fuel gs amounts sel remaining wit out fraction_idx :
  compact_loop (S fuel) gs amounts sel remaining wit out fraction_idx =
      match find_min_fit amounts 0 remaining sel with
      | Some (gi, _) =>
          let '(units, fr) := split remaining in
          do g <- get_at gs gi;
          do r <- take_indices (g_idx g) gi units out;
          let '(st, out1) := r in
          do r2 <- take_fraction_index_or_split (mkGroup st (g_fr g)) fr gi wit out1;
          let '(g2, out2) := r2 in
          Ok (set_at gs gi g2, out2, fraction_idx)
      | None =>
          match find_max amounts 0 sel with
          | None => Panic SITE_MAXBY_UNWRAP
          | Some (gi, _) =>
              let amounts' := set_at amounts gi 0 in
              let '(units, fr) := split remaining in
              do g <- get_at gs gi;
              let size := len (g_idx g) in
              if units <? size then Panic SITE_UNDERFLOW
              else
                let units' := units - size in
                do r <- take_indices (g_idx g) gi size out;
                let '(st, out1) := r in
                do r2 <- try_take_fraction (mkGroup st (g_fr g)) fr gi wit out1;
                let '(g2, out2, took) := r2 in
                let fraction_idx' := if took then Some (length out2 - 1)%nat else fraction_idx in
                let fr' := if took then 0 else fr in
                compact_loop fuel (set_at gs gi g2) amounts' sel (mk_amount units' fr') wit out2 fraction_idx'
          end
      end.
Proof. reflexivity. Qed.

Lemma compact_loop_spec fuel : forall gs amounts sel remaining wit out fidx gs' out' fidx',
  gs_wf gs -> compact_loop fuel gs amounts sel remaining wit out fidx = Ok (gs', out', fidx') ->
  exists seg, out' = out ++ seg /\ take_all gs seg = Some gs' /\ sumN (map held_ix seg) = remaining
              /\ (segA fidx fidx' seg \/ segB gs out fidx' seg).
Proof.
  induction fuel as [|fuel IH]; intros gs amounts sel remaining wit out fidx gs' out' fidx' Hwf Hl; [discriminate|].
  rewrite compact_loop_unfold in Hl.
  destruct (split_recompose remaining) as [Hrec Hfr].
  destruct (find_min_fit amounts 0 remaining sel) as [[gi a]|].
  - (* a group that holds the rest *)
    destruct (split remaining) as [units fr] eqn:Es. simpl in Hrec, Hfr.
    destruct (get_at gs gi) as [g| |] eqn:Eg; cbn [bind] in Hl; try discriminate.
    destruct (take_indices (g_idx g) gi units out) as [[st out1]| |] eqn:Et; cbn [bind] in Hl; try discriminate.
    destruct (take_fraction_index_or_split (mkGroup st (g_fr g)) fr gi wit out1) as [[g2 out2]| |] eqn:Ef; cbn [bind] in Hl; try discriminate.
    inversion Hl; subst gs' out' fidx'. clear Hl.
    destruct (take_indices_spec gs gi g units out st out1 Eg Et) as (ws & E1 & Hw & Hlen & Hg0 & Hta). subst out1.
    set (gs1 := set_at gs gi (mkGroup st (g_fr g))) in *.
    assert (Hwf1 : gs_wf gs1) by (eapply take_all_wf; eauto).
    assert (Hg1 : get_at gs1 gi = Ok (mkGroup st (g_fr g))) by (eapply get_at_set_at_same'; eauto).
    assert (Hgw1 : gwf (mkGroup st (g_fr g))) by (apply get_at_ok in Hg1; destruct Hg1; eapply Forall_nth; eauto).
    destruct (take_fraction_spec gs1 gi _ fr wit (out ++ ws) g2 out2 Hg1 Hgw1 Hfr Ef) as [(Hz & -> & ->)|(Hz & F & -> & HF & HgF & HtF)].
    + exists ws. split; auto. split; [unfold gs1 in *; auto|]. split; [rewrite (sum_whole _ Hw); lia|].
      left. split; auto. exists ws, []. rewrite app_nil_r. auto.
    + exists (ws ++ [F]). split; [rewrite app_assoc; auto|]. split.
      * rewrite take_all_app, Hta, HtF. unfold gs1. rewrite set_at_set_at. auto.
      * split.
        -- rewrite map_app, sumN_app, (sum_whole _ Hw). cbn [map]. rewrite sumN_cons, sumN_nil. unfold held_ix.
           destruct (N.eqb_spec (ai_frac F) 0); [congruence|lia].
        -- left. split; auto. exists ws, [F]. repeat split; auto. right. exists F. repeat split; auto; lia.
  - (* take the biggest group entirely *)
    destruct (find_max amounts 0 sel) as [[gi a]|]; [|discriminate].
    destruct (split remaining) as [units fr] eqn:Es. simpl in Hrec, Hfr.
    destruct (get_at gs gi) as [g| |] eqn:Eg; cbn [bind] in Hl; try discriminate.
    destruct (N.ltb_spec units (len (g_idx g))) as [|Hge]; [discriminate|].
    destruct (take_indices (g_idx g) gi (len (g_idx g)) out) as [[st out1]| |] eqn:Et; cbn [bind] in Hl; try discriminate.
    destruct (try_take_fraction (mkGroup st (g_fr g)) fr gi wit out1) as [[[g2 out2] took]| |] eqn:Ef; cbn [bind] in Hl; try discriminate.
    destruct (take_indices_spec gs gi g _ out st out1 Eg Et) as (ws & E1 & Hw & Hlen & Hg0 & Hta). subst out1.
    set (gs1 := set_at gs gi (mkGroup st (g_fr g))) in *.
    assert (Hwf1 : gs_wf gs1) by (eapply take_all_wf; eauto).
    assert (Hg1 : get_at gs1 gi = Ok (mkGroup st (g_fr g))) by (eapply get_at_set_at_same'; eauto).
    destruct (try_take_fraction_spec gs1 gi _ fr wit (out ++ ws) g2 out2 took Hg1 Ef) as [(-> & -> & ->)|(-> & Hz & F & -> & HF & HgF & HeF & HtF)].
    + (* no fitting fraction in this group *)
      assert (Hgs : set_at gs gi (mkGroup st (g_fr g)) = gs1) by reflexivity. rewrite Hgs in Hl.
      destruct (IH _ _ _ _ _ _ _ _ _ _ Hwf1 Hl) as (seg & E & Hts & Hsum & Hcase).
      exists (ws ++ seg). split; [rewrite E, app_assoc; auto|]. split; [rewrite take_all_app, Hta; auto|].
      split; [rewrite map_app, sumN_app, (sum_whole _ Hw), Hsum; unfold mk_amount; unfold FPU, FRACTIONS_PER_UNIT in *; lia|].
      destruct Hcase as [(Ei & ws' & fs' & -> & Hw' & Hf')|(W1 & F & W2 & gsA & -> & Hw1 & Hw2 & HF & Ei & HtA & HeA)].
      * left. split; auto. exists (ws ++ ws'), fs'. rewrite app_assoc. repeat split; auto. apply Forall_app; auto.
      * right. exists (ws ++ W1), F, W2, gsA. rewrite app_assoc.
        split; [auto|]. split; [apply Forall_app; auto|]. split; [auto|]. split; [auto|].
        split; [rewrite Ei, !app_length; f_equal; lia|]. split; [rewrite take_all_app, Hta; auto|auto].
    + (* the fraction comes from a partly used index of this group *)
      assert (Hgs : set_at gs gi g2 = set_at gs1 gi g2) by (unfold gs1; rewrite set_at_set_at; auto). rewrite Hgs in Hl.
      assert (Hwf2 : gs_wf (set_at gs1 gi g2)) by (eapply take_all_wf; [|exact HtF]; auto).
      destruct (IH _ _ _ _ _ _ _ _ _ _ Hwf2 Hl) as (seg & E & Hts & Hsum & Hcase).
      assert (Hk : sumN (map held_ix seg) = (units - len (g_idx g)) * FPU) by (rewrite Hsum; unfold mk_amount; unfold FPU, FRACTIONS_PER_UNIT in *; lia).
      destruct (seg_no_fraction _ _ _ _ _ _ Hk Hcase) as [Ei Hwseg].
      exists (ws ++ [F] ++ seg). split; [rewrite E; rewrite <- !app_assoc; auto|].
      split; [rewrite take_all_app, Hta; change ([F] ++ seg) with ([F] ++ seg); rewrite (take_all_app gs1 [F]), HtF; auto|].
      split.
      * rewrite !map_app, !sumN_app, (sum_whole _ Hw), Hk. cbn [map]. rewrite sumN_cons, sumN_nil. unfold held_ix.
        destruct (N.eqb_spec (ai_frac F) 0); [congruence|]. unfold FPU, FRACTIONS_PER_UNIT in *; lia.
      * right. exists ws, F, seg, gs1.
        split; [auto|]. split; [auto|]. split; [auto|]. split; [lia|].
        split; [rewrite Ei; f_equal; rewrite !app_length; simpl; lia|]. split; auto.
Qed.

Lemma claim_compact_complete gs sel a wit gs' out :
  gs_wf gs -> claim_compact_from_groups a gs sel wit = Ok (gs', out) ->
  shape_ok out = true /\ fold_right N.add 0 (map held_ix out) = a /\ take_all gs out = Some gs'.
Proof.
  intros Hwf Hc. unfold claim_compact_from_groups in Hc.
  destruct (compact_loop (length gs + 2) gs (map group_amount gs) sel a wit [] None) as [[[gs1 raw] fidx]| |] eqn:El; cbn [bind] in Hc; try discriminate.
  inversion Hc; subst gs1 out. clear Hc.
  destruct (compact_loop_spec _ _ _ _ _ _ _ _ _ _ _ Hwf El) as (seg & E & Hts & Hsum & Hcase).
  simpl in E. subst raw. rewrite ra_total_sum.
  destruct Hcase as [(Ei & ws & fs & -> & Hw & Hf)|(W1 & F & W2 & gsA & -> & Hw1 & Hw2 & HF & Ei & HtA & HeA)].
  - subst fidx. split; [apply shape_ok_app; auto; destruct Hf as [->|(F & -> & Hz & Hl)]; auto; right; exists F; auto|]. auto.
  - subst fidx. cbn [length Nat.add]. change (W1 ++ [F] ++ W2) with (W1 ++ F :: W2). rewrite swap_to_last_spec.
    set (W2' := match rev W2 with [] => [] | y :: r => y :: rev r end).
    assert (Hfin : W1 ++ match rev W2 with [] => [F] | y :: r => y :: rev r ++ [F] end = (W1 ++ W2') ++ [F]).
    { unfold W2'. destruct (rev W2); rewrite <- ?app_assoc; simpl; auto. }
    rewrite Hfin.
    assert (Hp2 : Permutation W2' W2) by apply swapped_perm.
    assert (Hw2' : Forall whole W2') by (eapply Permutation_Forall; [apply Permutation_sym; eauto|auto]).
    assert (Hww : Forall whole (W1 ++ W2')) by (apply Forall_app; auto).
    destruct HeA as [Hz HeA'].
    split; [apply shape_ok_app; auto; right; exists F; auto|]. split.
    + rewrite <- Hsum. apply sumN_map_perm.
      change (W1 ++ F :: W2) with (W1 ++ [F] ++ W2).
      rewrite <- app_assoc. apply Permutation_app_head. eapply perm_trans; [apply Permutation_app_comm|].
      simpl. apply perm_skip. auto.
    + change (W1 ++ F :: W2) with (W1 ++ ([F] ++ W2)) in Hts. rewrite take_all_app, HtA in Hts.
      rewrite (take_entry_past_wholes W2 gsA F Hw2 (conj Hz HeA')) in Hts.
      rewrite <- app_assoc. rewrite take_all_app, HtA. rewrite take_all_app in *.
      rewrite (take_all_perm_whole _ _ Hp2 Hw2'). auto.
Qed.

(** group pools: tight / tight! with the groups chosen by the solver *)
Theorem claim_complete_tight full gs rid rq a mask wit p' ra :
  gs_wf gs -> rq = Req Tight a \/ rq = Req ForceTight a ->
  claim_with_group_mask (PGroups full gs) rid rq mask wit = Ok (p', ra) ->
  claim_ok (PGroups full gs) p' rid rq ra = true.
Proof.
  intros Hwf Hrq Hc. unfold claim_with_group_mask in Hc.
  assert (Hc' : (do r <- claim_compact_from_groups a gs (Some mask) wit; let '(gs', out) := r in Ok (PGroups full gs', mkRalloc rid a out)) = Ok (p', ra))
    by (destruct Hrq; subst rq; auto).
  clear Hc. destruct (claim_compact_from_groups a gs (Some mask) wit) as [[gs' out]| |] eqn:E; cbn [bind] in Hc'; try discriminate.
  inversion Hc'; subst. destruct (claim_compact_complete _ _ _ _ _ _ Hwf E) as (S1 & S2 & S3).
  unfold claim_ok, ra_total. cbn [ra_res ra_amount ra_indices pool_full_size pool_groups].
  assert (Hra : req_amount rq full = a) by (destruct Hrq; subst rq; auto). rewrite Hra.
  rewrite !N.eqb_refl, S1, S2, N.eqb_refl, S3. simpl. apply groups_eqb_refl.
Qed.

(* ---------- the gate is transparent ---------- *)
Definition not_all_on_groups (p : pool) (rq : areq) : Prop :=
  match p, rq with PGroups _ _, ReqAll => False | _, _ => True end.

Theorem gate_transparent_direct {A} p rid rq wit (k : pool -> ralloc -> res A) :
  gs_wf (pool_groups p) -> not_all_on_groups p rq ->
  checked (pool_claim p rid rq wit) p rid rq k = (do x <- pool_claim p rid rq wit; k (fst x) (snd x)).
Proof.
  intros Hwf Hna. unfold checked.
  destruct (pool_claim p rid rq wit) as [[p' ra]| |] eqn:E; cbn [bind fst snd]; auto.
  assert (Hok : claim_ok p p' rid rq ra = true).
  { destruct p as [|full g|full gs|full free].
    - discriminate E.
    - apply (claim_complete_indices full g rid rq wit); auto. inversion Hwf; auto.
    - destruct rq as [[] a|]; try discriminate E; try contradiction.
      apply (claim_complete_scatter full gs rid a wit); auto.
    - apply (claim_complete_sum full free rid rq wit); auto. }
  rewrite Hok. auto.
Qed.

Theorem gate_transparent_coupled {A} p rid rq mask wit (k : pool -> ralloc -> res A) :
  gs_wf (pool_groups p) ->
  checked (claim_with_group_mask p rid rq mask wit) p rid rq k = (do x <- claim_with_group_mask p rid rq mask wit; k (fst x) (snd x)).
Proof.
  intros Hwf. unfold checked.
  destruct (claim_with_group_mask p rid rq mask wit) as [[p' ra]| |] eqn:E; cbn [bind fst snd]; auto.
  assert (Hok : claim_ok p p' rid rq ra = true).
  { destruct p as [|full g|full gs|full free]; try discriminate E.
    destruct rq as [[] a|]; try discriminate E.
    - apply (claim_complete_compact full gs rid _ a mask wit); auto.
    - apply (claim_complete_tight full gs rid _ a mask wit); auto.
    - apply (claim_complete_compact full gs rid _ a mask wit); auto.
    - apply (claim_complete_tight full gs rid _ a mask wit); auto. }
  rewrite Hok. auto.
Qed.
