(** C04: the theorems over all reachable states of the allocator model. *)
From Coq Require Import Permutation.
From HQ Require Import Base.Prelude Gen.Consts Alloc.Model Alloc.Spec Alloc.Lemmas Alloc.Group Alloc.Pool Alloc.Inv Alloc.System.
Require Import ZifyBool ZifyN ZifyNat.
Open Scope N_scope.
Arguments N.add : simpl never.
Arguments N.sub : simpl never.
Arguments N.mul : simpl never.
Arguments N.eqb : simpl never.
Arguments N.ltb : simpl never.
Arguments N.leb : simpl never.
Arguments N.of_nat : simpl never.
Arguments N.to_nat : simpl never.
Arguments sumN : simpl never.

(* ---------- the initial state ---------- *)
Definition fresh_group (g : group) : Prop := g_fr g = [] /\ NoDup (g_idx g).
Definition fresh (p : pool) : Prop :=
  match p with PSum f x => x = f | _ => Forall fresh_group (pool_groups p) end.

Lemma seqN_ge s n x : In x (seqN s n) -> s <= x.
Proof. revert s; induction n; simpl; intros s H; [contradiction|]. destruct H as [H|H]; [lia|]. apply IHn in H. lia. Qed.
Lemma seqN_nodup s n : NoDup (seqN s n).
Proof.
  revert s; induction n; simpl; intros s; constructor; auto.
  intros H. apply seqN_ge in H. lia.
Qed.
Lemma nodup_rev (l : list N) : NoDup l -> NoDup (rev l).
Proof. intros H. eapply Permutation_NoDup; [apply Permutation_rev|auto]. Qed.

Lemma groups_from_fresh sizes : forall s, Forall fresh_group (groups_from sizes s).
Proof.
  induction sizes; simpl; intros s; constructor; auto.
  split; simpl; auto. apply nodup_rev, seqN_nodup.
Qed.

Lemma pool_new_fresh k p : pool_new k = Some p -> fresh p.
Proof.
  destruct k; simpl.
  - destruct (nodupb labels); intros H; inversion H; subst. simpl. constructor; auto.
    split; simpl; auto. apply nodup_rev, seqN_nodup.
  - intros H; inversion H; subst. simpl. constructor; auto. split; simpl; auto. apply nodup_rev, seqN_nodup.
  - destruct (nodupb (concat groups)); intros H; inversion H; subst. simpl. apply groups_from_fresh.
  - intros H; inversion H; subst. simpl. auto.
Qed.

Lemma fill_pools_fresh items : forall pools pools', Forall fresh pools -> fill_pools pools items = Ok pools' -> Forall fresh pools'.
Proof.
  induction items as [|[r k] items IH]; simpl; intros pools pools' Hf H.
  - inversion H; subst; auto.
  - destruct (pool_new k) eqn:E; try discriminate. eapply IH; [|eauto].
    apply Forall_set_at; auto. eapply pool_new_fresh; eauto.
Qed.

Lemma fresh_group_GI g gi : fresh_group g -> GI (g_idx g) g (hsum [] gi) (hfany [] gi).
Proof.
  intros [Hfr Hnd]. split.
  - split; [auto|]. split; [rewrite Hfr; apply NoDup_nil|]. split.
    + intros i _. rewrite Hfr. reflexivity.
    + intros i f. rewrite Hfr. simpl. discriminate.
  - split; [|split].
    + intros i Hi. rewrite group_free_in by auto. rewrite hsum_nil. lia.
    + intros i Hi. rewrite Hfr. simpl. repeat split; auto.
    + intros i. rewrite Hfr. simpl. split; [discriminate|congruence].
Qed.

Lemma fresh_GsI gs : Forall fresh_group gs -> GsI (map g_idx gs) gs (hsum []) (hfany []).
Proof.
  intros Hf. split; [rewrite map_length; auto|].
  intros gi u gg Hu Hg Hlt. rewrite nth_error_map, Hg in Hu. inversion Hu; subst u.
  apply fresh_group_GI. eapply Forall_nth; eauto.
Qed.

Lemma fresh_core p : fresh p -> PoolCore p p [] 0.
Proof.
  intros Hf. split; [destruct p; auto|]. split; auto.
  destruct p; simpl in Hf.
  - split; [apply (fresh_GsI []); auto | apply Forall_nil].
  - split; [apply (fresh_GsI [g]); auto | apply Forall_nil].
  - split; [apply (fresh_GsI gs); auto | apply Forall_nil].
  - subst. split; auto. lia.
Qed.

Lemma init_core d s0 : init d = Ok s0 -> CoreInv (a_pools (s_alloc s0)) s0 /\ s_live s0 = [].
Proof.
  unfold init, allocator_new. intros H.
  destruct (existsb _ (d_items d)); simpl in H; try discriminate.
  destruct (max_rid (d_items d)); simpl in H; try discriminate.
  destruct (fill_pools _ (d_items d)) as [pools| |] eqn:Ef; simpl in H; try discriminate.
  destruct (new_weights (d_items d) (d_coupling d)); simpl in H; try discriminate.
  inversion H; subst; simpl. split; auto.
  assert (Hfr : Forall fresh pools).
  { eapply fill_pools_fresh; [|eauto]. apply Forall_forall. intros x Hx. change (PEmpty :: repeat PEmpty (nat_of n)) with (repeat PEmpty (S (nat_of n))) in Hx. apply repeat_spec in Hx. subst. simpl. constructor. }
  split; auto. intros r p0 p Hr H0 H1. simpl in *. assert (p0 = p) by congruence. subst p0.
  unfold HL, TL. simpl. rewrite sumN_nil. apply fresh_core. eapply Forall_nth; eauto.
Qed.

Theorem reachable_core d s0 ops s :
  init d = Ok s0 -> run s0 ops = Ok s -> CoreInv (a_pools (s_alloc s0)) s.
Proof. intros Hi Hr. destruct (init_core _ _ Hi) as [HI _]. eapply run_core; eauto. Qed.

(* ---------- reading the invariant ---------- *)
Lemma TL_sum pools0 live r f x :
  nth_error pools0 (nat_of r) = Some (PSum f x) -> TL pools0 live r = live_sum_amount live r.
Proof.
  intros H. unfold TL, live_sum_amount. f_equal. apply map_ext. intros al. unfold sum_taken. rewrite H. auto.
Qed.

Lemma hsum_zero_group H g i n :
  Forall (fun ix => ai_frac ix < FPU /\ ai_group ix < n) H -> n <= g -> hsum H g i = 0.
Proof.
  intros Hf Hle. unfold hsum. apply sumN_map_zero. intros ix Hin.
  rewrite Forall_forall in Hf. destruct (Hf ix Hin). destruct (N.eqb_spec (ai_group ix) g); [lia|auto].
Qed.

(** the key reading: for every index of the worker, free + held = 100 %; nothing else is held *)
Lemma core_conserved pools0 s r p0 :
  CoreInv pools0 s -> r < len pools0 -> nth_error pools0 (nat_of r) = Some p0 ->
  forall g i,
    (in_universe pools0 r g i = true -> pools_free (a_pools (s_alloc s)) r g i + live_held (s_live s) r g i = FPU)
    /\ (in_universe pools0 r g i = false -> live_held (s_live s) r g i = 0).
Proof.
  intros [L HI] Hr H0 g i.
  assert (Hp : exists p, nth_error (a_pools (s_alloc s)) (nat_of r) = Some p).
  { destruct (nth_error (a_pools (s_alloc s)) (nat_of r)) eqn:E; eauto. apply nth_error_None in E. unfold len, nat_of in *. lia. }
  destruct Hp as [p Hp]. specialize (HI r p0 p Hr H0 Hp). destruct HI as (K & F & C).
  rewrite live_held_flat. fold (HL (s_live s) r). unfold in_universe, pools_free. rewrite H0, Hp.
  unfold pool_universe, pool_free.
  destruct p as [|f gr|f gs|f x].
  - (* empty *) destruct p0; try discriminate K. simpl. destruct C as [_ C].
    split; [destruct (nat_of g); discriminate|]. intros _. eapply hsum_zero_group; eauto. unfold len; simpl; lia.
  - destruct p0 as [|f0 g0| |]; try discriminate K. destruct C as [[Lg HG] Hb]. simpl pool_groups in *.
    destruct (N.ltb_spec g 1) as [Hg|Hg].
    + assert (g = 0) by lia. subst g. simpl.
      specialize (HG 0 (g_idx g0) gr eq_refl eq_refl). destruct HG as (Hwf & Hc & Hout & Hhf); [unfold len; simpl; lia|].
      split; intros Hm.
      * apply memN_in in Hm. apply Hc; auto.
      * apply memN_false in Hm. apply (Hout i); auto.
    + replace (nth_error (map g_idx [g0]) (nat_of g)) with (@None (list N)).
      2:{ symmetry. apply nth_error_None. simpl. unfold nat_of. lia. }
      split; [discriminate|]. intros _. eapply hsum_zero_group; eauto.
  - destruct p0 as [| |f0 gs0|]; try discriminate K. destruct C as [[Lg HG] Hb]. simpl pool_groups in *.
    unfold pool_us in *. simpl pool_groups in *.
    destruct (N.ltb_spec g (len gs)) as [Hg|Hg].
    + destruct (nth_error gs (nat_of g)) as [gr|] eqn:Eg.
      2:{ apply nth_error_None in Eg. unfold len, nat_of in *. lia. }
      destruct (nth_error (map g_idx gs0) (nat_of g)) as [u|] eqn:Eu.
      2:{ apply nth_error_None in Eu. unfold len, nat_of in *. lia. }
      specialize (HG g u gr Eu Eg Hg). destruct HG as (Hwf & Hc & Hout & Hhf).
      split; intros Hm.
      * apply memN_in in Hm. apply Hc; auto.
      * apply memN_false in Hm. apply (Hout i); auto.
    + replace (nth_error (map g_idx gs0) (nat_of g)) with (@None (list N)).
      2:{ symmetry. apply nth_error_None. unfold len, nat_of in *. lia. }
      split; [discriminate|]. intros _. eapply hsum_zero_group; eauto.
  - destruct p0; try discriminate K. destruct C as [_ C]. unfold HL in *. simpl. rewrite C.
    split; [destruct (nat_of g); discriminate | auto].
Qed.

(* ---------- the C04 theorems ---------- *)
Definition worker_pools (s0 : sys) : list pool := a_pools (s_alloc s0).

(** exclusivity: no index of the worker is held beyond 100 %, nothing outside the worker's indices is held *)
Theorem exclusive_thm d s0 ops s r p0 g i :
  init d = Ok s0 -> run s0 ops = Ok s ->
  r < len (worker_pools s0) -> nth_error (worker_pools s0) (nat_of r) = Some p0 ->
  live_held (s_live s) r g i <= FPU
  /\ (in_universe (worker_pools s0) r g i = false -> live_held (s_live s) r g i = 0).
Proof.
  intros Hi Hr Hlt H0. pose proof (reachable_core _ _ _ _ Hi Hr) as HC.
  destruct (core_conserved _ _ _ _ HC Hlt H0 g i) as [A B]. split; auto.
  unfold worker_pools in *. destruct (in_universe (a_pools (s_alloc s0)) r g i) eqn:E; [specialize (A eq_refl); lia | rewrite B; auto; lia].
Qed.

Lemma sum_reading pools0 s r f x :
  CoreInv pools0 s -> r < len pools0 -> nth_error pools0 (nat_of r) = Some (PSum f x) ->
  exists free, nth_error (a_pools (s_alloc s)) (nat_of r) = Some (PSum f free) /\ free + live_sum_amount (s_live s) r = f.
Proof.
  intros [L HI] Hr H0.
  assert (Hp : exists p, nth_error (a_pools (s_alloc s)) (nat_of r) = Some p).
  { destruct (nth_error (a_pools (s_alloc s)) (nat_of r)) eqn:E; eauto. apply nth_error_None in E. unfold len, nat_of in *. lia. }
  destruct Hp as [p Hp]. destruct (HI r _ p Hr H0 Hp) as (K & F & C).
  destruct p; try discriminate K. simpl in F. subst. destruct C as [C _].
  rewrite (TL_sum _ _ _ _ _ H0) in C. eauto.
Qed.

(** sum bound: what is taken from a sum resource never exceeds its size, and free + taken = size *)
Theorem sum_bound_thm d s0 ops s r f x :
  init d = Ok s0 -> run s0 ops = Ok s ->
  r < len (worker_pools s0) -> nth_error (worker_pools s0) (nat_of r) = Some (PSum f x) ->
  live_sum_amount (s_live s) r <= f
  /\ exists free, nth_error (a_pools (s_alloc s)) (nat_of r) = Some (PSum f free) /\ free + live_sum_amount (s_live s) r = f.
Proof.
  intros Hi Hr Hlt H0. pose proof (reachable_core _ _ _ _ Hi Hr) as HC.
  destruct (sum_reading _ _ _ _ _ HC Hlt H0) as (free & A & B). split; [lia|eauto].
Qed.

(** conservation: for every index of the worker, free amount + amount held by running tasks = 100 % *)
Theorem conservation_thm d s0 ops s r p0 g i :
  init d = Ok s0 -> run s0 ops = Ok s ->
  r < len (worker_pools s0) -> nth_error (worker_pools s0) (nat_of r) = Some p0 ->
  in_universe (worker_pools s0) r g i = true ->
  pools_free (a_pools (s_alloc s)) r g i + live_held (s_live s) r g i = FPU.
Proof.
  intros Hi Hr Hlt H0 Hu. pose proof (reachable_core _ _ _ _ Hi Hr) as HC.
  destruct (core_conserved _ _ _ _ HC Hlt H0 g i) as [A B]. auto.
Qed.

Lemma live_held_app live al r g i : live_held (live ++ [al]) r g i = live_held live r g i + alloc_held al r g i.
Proof. unfold live_held. rewrite map_app, sumN_app. cbn [map]. rewrite sumN_cons, sumN_nil. lia. Qed.

Lemma live_held_remove live k al r g i :
  nth_error live k = Some al -> live_held live r g i = live_held (remove_nth live k) r g i + alloc_held al r g i.
Proof.
  unfold live_held. revert k; induction live as [|x live IH]; intros [|k] H; simpl in *; try discriminate.
  - inversion H; subst. rewrite sumN_cons. lia.
  - rewrite !sumN_cons. rewrite (IH k H). lia.
Qed.

Lemma step_alloc_live s rq w s' al : step s (OAlloc rq w) = Ok (s', OutGrant al) -> s_live s' = s_live s ++ [al].
Proof.
  simpl. destruct (try_allocate (s_alloc s) rq w) as [[a' [al'|]]| |]; simpl; intros H; inversion H; subst; auto.
Qed.

Lemma step_release_live s k s' o :
  step s (ORelease k) = Ok (s', o) ->
  exists al, nth_error (s_live s) (nat_of k) = Some al /\ s_live s' = remove_nth (s_live s) (nat_of k).
Proof.
  simpl. destruct (k <? len (s_live s)); try discriminate.
  destruct (nth_error (s_live s) (nat_of k)) as [al|]; try discriminate.
  destruct (release_allocation (s_alloc s) al); simpl; intros H; inversion H; subst. eauto.
Qed.

(** told is held: a grant changes the free state by exactly the indices listed in the allocation *)
Theorem told_is_held_thm d s0 ops s rq w s' al r p0 g i :
  init d = Ok s0 -> run s0 ops = Ok s -> step s (OAlloc rq w) = Ok (s', OutGrant al) ->
  r < len (worker_pools s0) -> nth_error (worker_pools s0) (nat_of r) = Some p0 ->
  in_universe (worker_pools s0) r g i = true ->
  pools_free (a_pools (s_alloc s)) r g i = pools_free (a_pools (s_alloc s')) r g i + alloc_held al r g i.
Proof.
  intros Hi Hr Hs Hlt H0 Hu. pose proof (reachable_core _ _ _ _ Hi Hr) as HC.
  pose proof (step_core _ _ _ _ _ HC Hs) as HC'.
  destruct (core_conserved _ _ _ _ HC Hlt H0 g i) as [A _].
  destruct (core_conserved _ _ _ _ HC' Hlt H0 g i) as [A' _].
  specialize (A Hu). specialize (A' Hu). rewrite (step_alloc_live _ _ _ _ _ Hs), live_held_app in A'. lia.
Qed.

(** release restores: a release gives back exactly what the allocation held ... *)
Theorem release_returns_thm d s0 ops s k s' o r p0 g i :
  init d = Ok s0 -> run s0 ops = Ok s -> step s (ORelease k) = Ok (s', o) ->
  r < len (worker_pools s0) -> nth_error (worker_pools s0) (nat_of r) = Some p0 ->
  in_universe (worker_pools s0) r g i = true ->
  exists al, nth_error (s_live s) (nat_of k) = Some al
             /\ pools_free (a_pools (s_alloc s')) r g i = pools_free (a_pools (s_alloc s)) r g i + alloc_held al r g i.
Proof.
  intros Hi Hr Hs Hlt H0 Hu. pose proof (reachable_core _ _ _ _ Hi Hr) as HC.
  pose proof (step_core _ _ _ _ _ HC Hs) as HC'.
  destruct (step_release_live _ _ _ _ Hs) as (al & Hn & Hl). exists al. split; auto.
  destruct (core_conserved _ _ _ _ HC Hlt H0 g i) as [A _].
  destruct (core_conserved _ _ _ _ HC' Hlt H0 g i) as [A' _].
  specialize (A Hu). specialize (A' Hu). rewrite Hl in A'. rewrite (live_held_remove _ _ _ r g i Hn) in A. lia.
Qed.

(** ... and when nothing is held any more every index of the worker is whole and free again,
    and every sum resource is back at its size *)
Theorem release_all_restores_thm d s0 ops s :
  init d = Ok s0 -> run s0 ops = Ok s -> s_live s = [] ->
  (forall r p0 g i, r < len (worker_pools s0) -> nth_error (worker_pools s0) (nat_of r) = Some p0 ->
                    in_universe (worker_pools s0) r g i = true -> pools_free (a_pools (s_alloc s)) r g i = FPU)
  /\ (forall r f x, r < len (worker_pools s0) -> nth_error (worker_pools s0) (nat_of r) = Some (PSum f x) ->
                    nth_error (a_pools (s_alloc s)) (nat_of r) = Some (PSum f f)).
Proof.
  intros Hi Hr Hl. pose proof (reachable_core _ _ _ _ Hi Hr) as HC. split.
  - intros r p0 g i Hlt H0 Hu. destruct (core_conserved _ _ _ _ HC Hlt H0 g i) as [A _].
    specialize (A Hu). rewrite Hl in A. unfold live_held in A. simpl in A. rewrite sumN_nil in A. lia.
  - intros r f x Hlt H0. destruct (sum_reading _ _ _ _ _ HC Hlt H0) as (free & A & B).
    rewrite Hl in B. unfold live_sum_amount in B. simpl in B. rewrite sumN_nil in B. replace free with f in A by lia. auto.
Qed.

