(** C16 - admission = reference for EVERY request kind the solver is not consulted for (compact, tight, scatter
    with an amount AND `all`), and the part of the agreement that holds for all requests, strict ones included:
    a request is only admitted / granted if the pools contain enough for every entry; is_enabled and try_allocate
    agree.  Extends Alloc.Admission (non-strict policies with an amount) by `all`. *)
From Coq Require Import Permutation.
From HQ Require Import Base.Prelude Gen.Consts Alloc.Model Alloc.Spec Alloc.Lemmas Alloc.Group Alloc.Pool Alloc.Inv Alloc.System Alloc.Mirror Alloc.Theorems Alloc.MirrorSystem Alloc.GroupsProofs Alloc.Admission Alloc.AllFree Alloc.Examples.
Require Import ZifyBool ZifyN ZifyNat.
Open Scope N_scope.
Arguments N.add : simpl never.
Arguments N.sub : simpl never.
Arguments N.mul : simpl never.
Arguments N.div : simpl never.
Arguments N.modulo : simpl never.
Arguments N.eqb : simpl never.
Arguments N.ltb : simpl never.
Arguments N.leb : simpl never.
Arguments N.of_nat : simpl never.
Arguments N.to_nat : simpl never.
Arguments sumN : simpl never.

(** reference for an `all` entry: everything of the resource is free *)
Definition fits_all (pl : pool) : bool :=
  match pl with
  | PEmpty => true
  | PSum full free => free =? full
  | _ => mask_sum (pool_per_group pl) (full_mask (pool_per_group pl)) fst * FPU =? pool_full_size pl
  end.

Definition fits_req (pl : pool) (r : areq) : bool :=
  match r with Req _ a => fits_amount pl a | ReqAll => fits_all pl end.

Lemma entry_fits_req pools e pl :
  nth_error pools (nat_of (e_res e)) = Some pl -> entry_fits pools e = fits_req pl (e_req e).
Proof. intros Hn. unfold entry_fits, fits_req. rewrite Hn. destruct (e_req e) as [pol a|]; destruct pl; reflexivity. Qed.

(* ---------- everything free => no partly used index ---------- *)
Lemma fmax_zero g u h hf : GI u g h hf -> incl u (g_idx g) -> fmax (g_fr g) = 0.
Proof.
  intros ((Hnd & Hndk & Hsf & Hlt) & _ & Hout & _) Hincl.
  apply N.le_antisymm; [|lia]. apply fmax_le. intros k v Hin. exfalso.
  pose proof (in_keys_fget _ _ _ Hndk Hin) as Hg.
  destruct (in_dec N.eq_dec k u) as [Hu|Hu].
  - rewrite (Hsf k (Hincl k Hu)) in Hg. discriminate.
  - destruct (Hout k Hu) as (_ & Hn & _). congruence.
Qed.

Lemma GI_stack_inside g u h hf : GI u g h hf -> NoDup (g_idx g) /\ incl (g_idx g) u.
Proof.
  intros ((Hnd & _) & _ & Hout & _). split; auto.
  intros y Hy. destruct (in_dec N.eq_dec y u) as [|Hn]; auto. destruct (Hout y Hn) as [X _]. contradiction.
Qed.

Lemma all_free_no_fractions us gs h hf :
  GsI us gs h hf ->
  sumN (map (fun g => len (g_idx g)) gs) = sumN (map (fun u : list N => len u) us) ->
  maxsnd (map (fun g => (len (g_idx g), fmax (g_fr g))) gs) = 0.
Proof.
  intros [Lg HG] Hsum.
  assert (Hle : Forall2 (fun x y => x <= y) (map (fun g => len (g_idx g)) gs) (map (fun u : list N => len u) us)).
  { apply Forall2_from_nth; [rewrite !map_length; auto|].
    intros n x y Hx Hy. rewrite nth_error_map in Hx, Hy.
    destruct (nth_error gs n) as [gn|] eqn:En; [|discriminate]. destruct (nth_error us n) as [un|] eqn:Eu; [|discriminate].
    inversion Hx; inversion Hy; subst.
    specialize (HG (N.of_nat n) un gn). rewrite nat_of_of_nat in HG.
    destruct (GI_stack_inside _ _ _ _ (HG Eu En ltac:(apply nth_error_some_lt in En; unfold len; lia))) as [Hnd Hincl].
    pose proof (NoDup_incl_length Hnd Hincl). unfold len. lia. }
  pose proof (sum_le_eq _ _ Hle Hsum) as Heq.
  assert (Hall : forall n gn, nth_error gs n = Some gn -> fmax (g_fr gn) = 0).
  { intros n gn En.
    destruct (nth_error us n) as [un|] eqn:Eu; [|apply nth_error_None in Eu; apply nth_error_some_lt in En; lia].
    assert (Hl : len (g_idx gn) = len un).
    { eapply (Forall2_nth2 _ _ _ n); [exact Heq| |]; rewrite nth_error_map; [rewrite En|rewrite Eu]; reflexivity. }
    specialize (HG (N.of_nat n) un gn). rewrite nat_of_of_nat in HG.
    assert (HGI : GI un gn (h (N.of_nat n)) (hf (N.of_nat n))) by (apply HG; auto; apply nth_error_some_lt in En; unfold len; lia).
    destruct (GI_stack_inside _ _ _ _ HGI) as [Hnd Hincl].
    eapply fmax_zero; eauto. apply NoDup_length_incl; auto. unfold len in Hl. lia. }
  clear - Hall. induction gs as [|g gs IH]; [reflexivity|]. cbn [map maxsnd fold_right snd].
  rewrite (Hall O g eq_refl). fold (maxsnd (map (fun g0 => (len (g_idx g0), fmax (g_fr g0))) gs)).
  rewrite IH; [reflexivity|]. intros n gn Hn. apply (Hall (S n)). auto.
Qed.

Lemma sum_fst_per gs : sumN (map fst (map (fun g => (len (g_idx g), fmax (g_fr g))) gs)) = sumN (map (fun g => len (g_idx g)) gs).
Proof. rewrite map_map. reflexivity. Qed.

(** the admission test of an `all` entry (amount_max_alloc == full size) = everything free *)
Lemma entry_adm_all p0 pl c H taken :
  PoolInv p0 pl c H taken -> cs_nodup c -> sized p0 ->
  exists m, amount_max_alloc c = Ok m /\ (m =? pool_full_size pl) = fits_all pl.
Proof.
  intros (K & F & C) Hn Hsz. destruct pl as [|fl g|fl gs|fl free].
  - destruct C as (_ & Hm & _). inversion Hm; subst. exists 0. split; reflexivity.
  - destruct p0 as [|f0 g0| |]; try discriminate K.
    destruct C as (HG & Hm & Hw & _). cbn [pool_groups] in *.
    destruct (group_like_max _ _ Hm Hw Hn) as (A & B & Cb).
    unfold amount_max_alloc. rewrite B.
    destruct (N.ltb_spec (maxsnd (map (fun g1 => (len (g_idx g1), fmax (g_fr g1))) [g])) FPU) as [_|]; [|lia].
    eexists; split; [reflexivity|]. rewrite A. unfold fits_all, pool_per_group. cbn [pool_groups].
    rewrite mask_sum_full. cbn [pool_full_size] in *. unfold sized, usize in Hsz. cbn [pool_full_size pool_groups] in Hsz.
    rewrite sum_fst_per in *. subst fl.
    set (U := sumN (map (fun g1 => len (g_idx g1)) [g])) in *.
    set (S0 := sumN (map (fun g1 => len (g_idx g1)) [g0])) in *.
    set (Fm := maxsnd (map (fun g1 => (len (g_idx g1), fmax (g_fr g1))) [g])) in *.
    assert (Hz : U = S0 -> Fm = 0).
    { intros E. apply (all_free_no_fractions _ _ _ _ HG). unfold pool_us. cbn [pool_groups]. rewrite map_map. exact E. }
    unfold mk_amount. rewrite Hsz.
    destruct (N.eqb_spec (U * FPU + Fm) (S0 * FPU)) as [E1|E1], (N.eqb_spec (U * FPU) (S0 * FPU)) as [E2|E2]; auto; exfalso.
    + unfold FPU, FRACTIONS_PER_UNIT in *. lia.
    + assert (U = S0) by (unfold FPU, FRACTIONS_PER_UNIT in *; lia). rewrite (Hz H0) in E1. lia.
  - destruct p0 as [| |f0 gs0|]; try discriminate K.
    destruct C as (HG & Hm & Hw & _). cbn [pool_groups] in *.
    destruct (group_like_max _ _ Hm Hw Hn) as (A & B & Cb).
    unfold amount_max_alloc. rewrite B.
    destruct (N.ltb_spec (maxsnd (map (fun g1 => (len (g_idx g1), fmax (g_fr g1))) gs)) FPU) as [_|]; [|lia].
    eexists; split; [reflexivity|]. rewrite A. unfold fits_all, pool_per_group. cbn [pool_groups].
    rewrite mask_sum_full. cbn [pool_full_size] in *. unfold sized, usize in Hsz. cbn [pool_full_size pool_groups] in Hsz.
    rewrite sum_fst_per in *. subst fl.
    set (U := sumN (map (fun g1 => len (g_idx g1)) gs)) in *.
    set (S0 := sumN (map (fun g1 => len (g_idx g1)) gs0)) in *.
    set (Fm := maxsnd (map (fun g1 => (len (g_idx g1), fmax (g_fr g1))) gs)) in *.
    assert (Hz : U = S0 -> Fm = 0).
    { intros E. apply (all_free_no_fractions _ _ _ _ HG). unfold pool_us. cbn [pool_groups]. rewrite map_map. exact E. }
    unfold mk_amount. rewrite Hsz.
    destruct (N.eqb_spec (U * FPU + Fm) (S0 * FPU)) as [E1|E1], (N.eqb_spec (U * FPU) (S0 * FPU)) as [E2|E2]; auto; exfalso.
    + unfold FPU, FRACTIONS_PER_UNIT in *. lia.
    + assert (U = S0) by (unfold FPU, FRACTIONS_PER_UNIT in *; lia). rewrite (Hz H0) in E1. lia.
  - destruct C as (_ & (cg & -> & Hs & Hl & Ho) & _). pose proof (Forall_inv Hn) as Hnk. cbv beta in Hnk.
    unfold amount_max_alloc, cs_max_fraction, cs_units_sum. cbn [fold_right c_units c_fr].
    rewrite (fmax_single _ Hnk Ho). rewrite N.max_0_r.
    destruct (N.ltb_spec (fget0 (c_fr cg) 0) FPU) as [_|]; [|lia].
    eexists; split; [reflexivity|]. unfold mk_amount. rewrite N.add_0_r, Hs. reflexivity.
Qed.

(** the per-entry loop of has_resources_for_request computes the reference, for EVERY kind of entry *)
Lemma hr_entries_ref pools0 pools free Hf Tf entries : forall coupling,
  PoolsInv pools0 pools free Hf Tf -> free_nodup free -> Forall sized pools0 ->
  exists coupling', hr_entries pools free entries coupling = Ok (forallb (entry_fits pools) entries, coupling')
                    /\ (forall e, In e coupling' -> In e coupling \/ In e entries).
Proof.
  induction entries as [|e rest IH]; intros coupling HP Hn Hsz; cbn [hr_entries forallb].
  - exists coupling. split; auto.
  - destruct HP as (L1 & L2 & HP').
    destruct (N.leb_spec (len pools) (e_res e)) as [Hout|Hin].
    + assert (Hnone : nth_error pools (nat_of (e_res e)) = None) by (apply nth_error_None; unfold len, nat_of in *; lia).
      unfold entry_fits at 1. rewrite Hnone. cbn [andb]. exists coupling. split; auto.
    + destruct (get_at_lt pools (e_res e) Hin) as [pl Hpl]. rewrite Hpl. cbn [bind].
      destruct (get_at_lt free (e_res e)) as [c Hc]; [unfold len in *; lia|]. rewrite Hc. cbn [bind].
      pose proof Hpl as Hpl'. apply get_at_ok in Hpl'. destruct Hpl' as [_ Hnp].
      pose proof Hc as Hc'. apply get_at_ok in Hc'. destruct Hc' as [_ Hnc].
      assert (Hr0 : e_res e < len pools0) by (unfold len in *; lia).
      destruct (nth_error pools0 (nat_of (e_res e))) as [p0|] eqn:E0; [|apply nth_error_None in E0; unfold len, nat_of in *; lia].
      pose proof (HP' _ _ _ _ Hr0 E0 Hnp Hnc) as HI.
      assert (Hcn : cs_nodup c) by (eapply Forall_nth; eauto).
      assert (Hs0 : sized p0) by (eapply Forall_nth; eauto).
      rewrite (entry_fits_req pools e pl Hnp).
      assert (Hok : exists m, amount_max_alloc c = Ok m
                /\ match e_req e with Req _ a => a <=? m | ReqAll => m =? pool_full_size pl end = fits_req pl (e_req e)).
      { destruct (e_req e) as [pol a|].
        - destruct (entry_adm _ _ _ _ _ a HI Hcn) as (m & Hm & Hle). exists m. auto.
        - destruct (entry_adm_all _ _ _ _ _ HI Hcn Hs0) as (m & Hm & Hle). exists m. auto. }
      destruct Hok as (m & Hm & Hle). rewrite Hm. cbn [bind]. rewrite Hle.
      destruct (fits_req pl (e_req e)); cbn [andb].
      * destruct (IH (if is_groups pl && is_relevant_for_coupling (e_req e) then coupling ++ [e] else coupling)) as (cp & A & B); auto.
        { split; auto. }
        exists cp. split; [exact A|]. intros x Hx. destruct (B x Hx) as [Hy|Hy]; [|right; right; exact Hy].
        destruct (is_groups pl && is_relevant_for_coupling (e_req e)); [|left; exact Hy].
        apply in_app_or in Hy. destruct Hy as [Hy|[Hy|[]]]; [left; exact Hy | subst; right; left; reflexivity].
      * destruct (is_groups pl && is_relevant_for_coupling (e_req e)); eexists; (split; [reflexivity|]); intros x Hx; [|left; exact Hx].
        apply in_app_or in Hx. destruct Hx as [Hx|[Hx|[]]]; [left; exact Hx | subst; right; left; reflexivity].
Qed.

Definition unforced (rq : request) : bool := forallb (fun e => negb (is_forced (e_req e))) rq.

Section Reachable.
  Variables (d : desc) (s0 : sys) (ops : list op) (s : sys).
  Hypothesis Hi : init d = Ok s0.
  Hypothesis Hv : Forall valid_op ops.
  Hypothesis Hr : run s0 ops = Ok s.

  Lemma hr_entries_reachable rq :
    exists cp, hr_entries (a_pools (s_alloc s)) (a_free (s_alloc s)) rq [] = Ok (request_fits (a_pools (s_alloc s)) rq, cp)
               /\ (forall e, In e cp -> In e rq).
  Proof.
    assert (HF : FullInv (a_pools (s_alloc s0)) s) by (eapply run_full; [apply (init_full d); auto | eauto | eauto]).
    destruct HF as [HI _]. pose proof (reachable_nodup _ _ _ _ Hi Hr) as Hn. pose proof (init_sized _ _ Hi) as Hsz.
    destruct (hr_entries_ref _ _ _ _ _ rq [] HI Hn Hsz) as (cp & A & B).
    exists cp. split; auto. intros e He. destruct (B e He) as [[]|]; auto.
  Qed.

  (** a request that does not fit is refused - whatever its policies, without consulting the solver *)
  Theorem admission_refuses_unfit rq w :
    request_fits (a_pools (s_alloc s)) rq = false ->
    has_resources (s_alloc s) rq w = Ok (false, a_yard (s_alloc s)).
  Proof.
    intros Hf. destruct (hr_entries_reachable rq) as (cp & A & _). unfold has_resources. rewrite A, Hf. reflexivity.
  Qed.

  (** an admitted request fits - whatever its policies (monitor grant-without-room) *)
  Theorem admission_implies_fits rq w yard :
    has_resources (s_alloc s) rq w = Ok (true, yard) -> request_fits (a_pools (s_alloc s)) rq = true.
  Proof.
    intros Hh. destruct (request_fits (a_pools (s_alloc s)) rq) eqn:Hf; auto.
    rewrite (admission_refuses_unfit rq w Hf) in Hh. discriminate.
  Qed.

  (** no strict entry: admission = reference, `all` included (monitors spurious-refusal, grant-without-room) *)
  Theorem admission_iff_feasible_all rq w :
    unforced rq = true ->
    has_resources (s_alloc s) rq w = Ok (request_fits (a_pools (s_alloc s)) rq, a_yard (s_alloc s)).
  Proof.
    intros Hu. destruct (hr_entries_reachable rq) as (cp & A & B). unfold has_resources. rewrite A. cbn [bind].
    destruct (request_fits (a_pools (s_alloc s)) rq); cbn [negb]; auto.
    assert (Hnf : forallb (fun e => negb (is_forced (e_req e))) cp = true).
    { apply forallb_forall. intros e He. unfold unforced in Hu. rewrite forallb_forall in Hu. auto. }
    rewrite Hnf. reflexivity.
  Qed.
End Reachable.

(** is_enabled and try_allocate run the same admission test: called in the same state with the same witnesses
    they agree - for EVERY allocator state and request *)
Theorem enabled_agrees_with_allocate a rq w a1 b a2 r :
  is_enabled a rq w = Ok (a1, b) -> try_allocate a rq w = Ok (a2, r) ->
  b = match r with Some _ => true | None => false end.
Proof.
  unfold is_enabled, try_allocate. destruct (has_resources a rq w) as [[ok yard]| |]; cbn [bind]; try discriminate.
  intros H1 H2. inversion H1; subst. destruct b; cbn [negb] in H2.
  - destruct (claim_resources _ rq w) as [[pools al]| |]; cbn [bind] in H2; try discriminate.
    destruct (cf_remove (a_free a) al); cbn [bind] in H2; try discriminate. inversion H2; subst. reflexivity.
  - inversion H2; subst. reflexivity.
Qed.

Lemma run_snoc ops : forall s0 s o r, run s0 ops = Ok s -> step s o = Ok r -> run s0 (ops ++ [o]) = Ok (fst r).
Proof.
  induction ops as [|x ops IH]; intros s0 s o r Hr Hs; cbn [run app] in *.
  - inversion Hr; subst. rewrite Hs. reflexivity.
  - destruct (step s0 x) as [r0| |]; cbn [bind] in *; try discriminate. eapply IH; eauto.
Qed.

(** C16 admission for requests without a strict entry, at the level of the system steps:
    in every reachable state
    - try_allocate grants EXACTLY when the pools contain enough for every entry (reference [request_fits];
      for an `all` entry: everything of the resource is free) - no spurious refusal, no grant without room;
    - is_enabled answers the reference;
    - hence an is_enabled followed by a try_allocate of the same request agree, whatever the witnesses. *)
Theorem C16_admission_all : forall d s0 ops s rq w,
  init d = Ok s0 -> Forall valid_op ops -> run s0 ops = Ok s -> unforced rq = true ->
  (forall s' o, step s (OAlloc rq w) = Ok (s', o) ->
                if request_fits (a_pools (s_alloc s)) rq then exists al, o = OutGrant al else o = OutNone)
  /\ (forall s' o, step s (OEnabled rq w) = Ok (s', o) ->
                   o = OutEnabled (request_fits (a_pools (s_alloc s)) rq)
                   /\ a_pools (s_alloc s') = a_pools (s_alloc s))
  /\ (forall s1 b w2 s2 o, step s (OEnabled rq w) = Ok (s1, OutEnabled b) -> step s1 (OAlloc rq w2) = Ok (s2, o) ->
                           if b then exists al, o = OutGrant al else o = OutNone).
Proof.
  intros d s0 ops s rq w Hi Hv Hr Hu.
  pose proof (admission_iff_feasible_all d s0 ops s Hi Hv Hr rq) as Hadm.
  assert (Halloc : forall w' s' o, step s (OAlloc rq w') = Ok (s', o) ->
                     if request_fits (a_pools (s_alloc s)) rq then exists al, o = OutGrant al else o = OutNone).
  { intros w' s' o Hs. cbn [step] in Hs. unfold try_allocate in Hs. rewrite (Hadm w' Hu) in Hs. cbn [bind] in Hs.
    destruct (request_fits (a_pools (s_alloc s)) rq); cbn [negb bind] in Hs.
    - destruct (claim_resources _ rq w') as [[pools al]| |]; cbn [bind] in Hs; try discriminate.
      destruct (cf_remove (a_free (s_alloc s)) al); cbn [bind] in Hs; try discriminate. inversion Hs; subst. eauto.
    - inversion Hs; subst. reflexivity. }
  assert (Hen : forall s' o, step s (OEnabled rq w) = Ok (s', o) ->
                  o = OutEnabled (request_fits (a_pools (s_alloc s)) rq) /\ a_pools (s_alloc s') = a_pools (s_alloc s)).
  { intros s' o Hs. cbn [step] in Hs. unfold is_enabled in Hs. rewrite (Hadm w Hu) in Hs. cbn [bind fst snd] in Hs.
    inversion Hs; subst. split; reflexivity. }
  split; [apply Halloc|]. split; [exact Hen|].
  intros s1 b w2 s2 o H1 H2.
  destruct (Hen _ _ H1) as [Hb Hp]. inversion Hb; subst b.
  assert (Hr1 : run s0 (ops ++ [OEnabled rq w]) = Ok s1) by (apply (run_snoc ops s0 s _ (s1, OutEnabled _) Hr H1)).
  assert (Hv1 : Forall valid_op (ops ++ [OEnabled rq w])) by (apply Forall_app; split; auto; constructor; [exact I|constructor]).
  pose proof (admission_iff_feasible_all d s0 _ s1 Hi Hv1 Hr1 rq w2 Hu) as Hadm1.
  rewrite <- Hp.
  cbn [step] in H2. unfold try_allocate in H2. rewrite Hadm1 in H2. cbn [bind] in H2.
  destruct (request_fits (a_pools (s_alloc s1)) rq); cbn [negb bind] in H2.
  - destruct (claim_resources _ rq w2) as [[pools al]| |]; cbn [bind] in H2; try discriminate.
    destruct (cf_remove (a_free (s_alloc s1)) al); cbn [bind] in H2; try discriminate. inversion H2; subst. eauto.
  - inversion H2; subst. reflexivity.
Qed.

(** for EVERY request, strict entries included: a grant is only made if the pools contain enough for every
    entry (monitor grant-without-room), and a request that does not fit is refused without panic *)
Theorem C16_grant_has_room : forall d s0 ops s rq w s' al,
  init d = Ok s0 -> Forall valid_op ops -> run s0 ops = Ok s ->
  step s (OAlloc rq w) = Ok (s', OutGrant al) -> request_fits (a_pools (s_alloc s)) rq = true.
Proof.
  intros d s0 ops s rq w s' al Hi Hv Hr Hs. cbn [step] in Hs. unfold try_allocate in Hs.
  destruct (has_resources (s_alloc s) rq w) as [[ok yard]| |] eqn:Eh; cbn [bind] in Hs; try discriminate.
  destruct ok; cbn [negb] in Hs; [|inversion Hs].
  eapply admission_implies_fits; eauto.
Qed.

Theorem C16_unfit_refused : forall d s0 ops s rq w,
  init d = Ok s0 -> Forall valid_op ops -> run s0 ops = Ok s ->
  request_fits (a_pools (s_alloc s)) rq = false ->
  exists s', step s (OAlloc rq w) = Ok (s', OutNone) /\ step s (OEnabled rq w) = Ok (s', OutEnabled false).
Proof.
  intros d s0 ops s rq w Hi Hv Hr Hf. cbn [step]. unfold try_allocate, is_enabled.
  rewrite (admission_refuses_unfit d s0 ops s Hi Hv Hr rq w Hf). cbn [bind negb fst snd]. eexists. split; reflexivity.
Qed.

(** non-vacuity: in the reachable state after the first grant of Alloc.Examples (1.5 cpus of group 0 taken) an
    `all` request for the cpus is refused and one for the untouched... sum resource is refused as well (0.5 of it is
    taken); after releasing everything `all` is granted *)
Example admission_all_example :
  exists s0 s1 s2,
    init ex_desc = Ok s0 /\ run s0 (firstn 1 ex_ops) = Ok s1 /\ run s0 ex_ops = Ok s2
    /\ request_fits (a_pools (s_alloc s1)) [mkEntry 0 ReqAll] = false
    /\ request_fits (a_pools (s_alloc s2)) [mkEntry 0 ReqAll; mkEntry 1 ReqAll] = true
    /\ (exists s', step s1 (OAlloc [mkEntry 0 ReqAll] no_wit) = Ok (s', OutNone))
    /\ (exists s' al, step s2 (OAlloc [mkEntry 0 ReqAll; mkEntry 1 ReqAll] no_wit) = Ok (s', OutGrant al)).
Proof.
  eexists. eexists. eexists.
  split; [vm_compute; reflexivity|]. split; [vm_compute; reflexivity|]. split; [vm_compute; reflexivity|].
  split; [vm_compute; reflexivity|]. split; [vm_compute; reflexivity|].
  split; [eexists; vm_compute; reflexivity | eexists; eexists; vm_compute; reflexivity].
Qed.

Print Assumptions C16_admission_all.
Print Assumptions C16_grant_has_room.
Print Assumptions C16_unfit_refused.
Print Assumptions enabled_agrees_with_allocate.
