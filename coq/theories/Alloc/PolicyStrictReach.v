(** C16 - strict policies in reachable states (no coupling weights, first admission test of the request,
    answers of the solver minimal per entry): has_resources_for_request admits EXACTLY when the request fits and
    every coupled entry can be served NOW with the minimum number of groups of the EMPTY worker
    (the reference of the monitor strict-refused-at-minimum, as an equivalence). *)
From Coq Require Import Permutation.
From HQ Require Import Base.Prelude Gen.Consts Alloc.Model Alloc.Spec Alloc.Lemmas Alloc.Group Alloc.Pool Alloc.Inv Alloc.System Alloc.Mirror Alloc.Theorems Alloc.MirrorSystem Alloc.GroupsProofs Alloc.Admission Alloc.AllFree Alloc.Objective Alloc.Strict Alloc.Examples
  Alloc.PolicyAdmission Alloc.PolicyStrict.
Require Import ZifyBool ZifyN ZifyNat.
Open Scope N_scope.
Arguments N.add : simpl never.
Arguments N.sub : simpl never.
Arguments N.mul : simpl never.
Arguments N.div : simpl never.
Arguments N.modulo : simpl never.
Arguments N.eqb : simpl never.
Arguments N.ltb : simpl never.
Arguments N.leb : simpl never.
Arguments N.of_nat : simpl never.
Arguments N.to_nat : simpl never.
Arguments sumN : simpl never.

(* ---------- the static part of the allocator ---------- *)
Lemma step_static s o s' out : step s o = Ok (s', out) ->
  a_all (s_alloc s') = a_all (s_alloc s) /\ a_weights (s_alloc s') = a_weights (s_alloc s).
Proof.
  destruct o as [rq w|k|rq w]; cbn [step]; intros H.
  - unfold try_allocate in H. destruct (has_resources (s_alloc s) rq w) as [[ok yard]| |]; cbn [bind] in H; try discriminate.
    destruct ok; cbn [negb bind] in H.
    + destruct (claim_resources _ rq w) as [[pools al]| |]; cbn [bind] in H; try discriminate.
      destruct (cf_remove (a_free (s_alloc s)) al); cbn [bind] in H; try discriminate. inversion H; subst. auto.
    + inversion H; subst. auto.
  - destruct (k <? len (s_live s)); try discriminate. destruct (nth_error (s_live s) (nat_of k)); try discriminate.
    unfold release_allocation in H. destruct (cf_add (a_free (s_alloc s)) a); cbn [bind] in H; try discriminate.
    destruct (release_helper (a_pools (s_alloc s)) a); cbn [bind] in H; try discriminate. inversion H; subst. auto.
  - unfold is_enabled in H. destruct (has_resources (s_alloc s) rq w) as [[ok yard]| |]; cbn [bind] in H; try discriminate.
    inversion H; subst. auto.
Qed.

Lemma run_static ops : forall s s', run s ops = Ok s' ->
  a_all (s_alloc s') = a_all (s_alloc s) /\ a_weights (s_alloc s') = a_weights (s_alloc s).
Proof.
  induction ops as [|o ops IH]; intros s s' H; cbn [run] in H.
  - inversion H; subst. auto.
  - destruct (step s o) as [[s1 out]| |] eqn:Es; cbn [bind fst] in H; try discriminate.
    destruct (step_static _ _ _ _ Es) as [A B]. destruct (IH _ _ H) as [C D]. split; congruence.
Qed.

Lemma init_static d s0 : init d = Ok s0 ->
  Forall fresh (a_pools (s_alloc s0))
  /\ a_all (s_alloc s0) = map concise_state (a_pools (s_alloc s0))
  /\ (d_coupling d = [] -> a_weights (s_alloc s0) = []).
Proof.
  unfold init, allocator_new. intros H.
  destruct (existsb _ (d_items d)); cbn [bind] in H; try discriminate.
  destruct (max_rid (d_items d)); cbn [bind] in H; try discriminate.
  destruct (fill_pools _ (d_items d)) as [pools| |] eqn:Ef; cbn [bind] in H; try discriminate.
  destruct (new_weights (d_items d) (d_coupling d)) as [ws| |] eqn:Ew; cbn [bind] in H; try discriminate.
  inversion H; subst; cbn [s_alloc a_pools a_all a_weights]. split; [|split; auto].
  - eapply fill_pools_fresh; [|eauto]. apply Forall_forall. intros x Hx.
    change (PEmpty :: repeat PEmpty (nat_of n)) with (repeat PEmpty (S (nat_of n))) in Hx. apply repeat_spec in Hx. subst. constructor.
  - intros Hc. rewrite Hc in Ew. cbn [new_weights] in Ew. inversion Ew. reflexivity.
Qed.

(* ---------- the rows of the solver, read off the pools ---------- *)
Definition ref_row (pools : list pool) (e : entry) : list (N * N) * N * N :=
  match nth_error pools (nat_of (e_res e)), e_req e with
  | Some p, Req _ a => (pool_per_group p, fst (split a), snd (split a))
  | _, _ => ([], 0, 0)
  end.

Lemma ref_row_eq pools e full gs pol a :
  nth_error pools (nat_of (e_res e)) = Some (PGroups full gs) -> e_req e = Req pol a ->
  ref_row pools e = (pool_per_group (PGroups full gs), fst (split a), snd (split a)).
Proof. intros H1 H2. unfold ref_row. rewrite H1, H2. reflexivity. Qed.

Lemma mirror_per_group gs c : gs_mirror gs c -> gs_wf gs -> cs_nodup c ->
  amount_max_per_group c = map (fun g => (len (g_idx g), fmax (g_fr g))) gs.
Proof.
  induction 1 as [|g cg gs c [Hu Hf] _ IH]; intros Hwf Hn; [reflexivity|].
  inversion Hwf as [|? ? (Hnd & Hndk & Hsf & Hlt) Hwf']; subst. inversion Hn as [|? ? Hnk Hn']; subst.
  unfold amount_max_per_group in *. cbn [map]. rewrite (IH Hwf' Hn'), Hu. f_equal. f_equal. apply fmax_ext; auto.
Qed.

Lemma is_coupled_inv pools e : is_coupled pools e = true ->
  exists full gs pol a, nth_error pools (nat_of (e_res e)) = Some (PGroups full gs) /\ e_req e = Req pol a.
Proof.
  unfold is_coupled. destruct (nth_error pools (nat_of (e_res e))) as [p|]; [|discriminate].
  intros H. apply andb_true_iff in H. destruct H as [H1 H2].
  destruct p; try discriminate H1. destruct (e_req e) as [pol a|]; [|discriminate H2].
  eexists _, _, _, _. split; reflexivity.
Qed.

Lemma solver_rows_now pools0 pools free Hf Tf cp :
  PoolsInv pools0 pools free Hf Tf -> free_nodup free ->
  Forall (fun e => is_coupled pools e = true) cp ->
  solver_rows free cp = Ok (map (ref_row pools) cp).
Proof.
  intros (L1 & L2 & HP) Hn. induction 1 as [|e cp He _ IH]; [reflexivity|].
  destruct (is_coupled_inv _ _ He) as (full & gs & pol & a & Hp & Hreq).
  cbn [solver_rows map]. rewrite Hreq.
  assert (Hlt : e_res e < len pools) by (apply nth_error_some_lt in Hp; unfold len, nat_of in *; lia).
  destruct (get_at_lt free (e_res e)) as [c Hc]; [unfold len in *; lia|]. rewrite Hc. cbn [bind]. rewrite IH. cbn [bind].
  apply get_at_ok in Hc. destruct Hc as [_ Hnc].
  assert (Hr0 : e_res e < len pools0) by (unfold len in *; lia).
  destruct (nth_error pools0 (nat_of (e_res e))) as [p0|] eqn:E0; [|apply nth_error_None in E0; unfold len, nat_of in *; lia].
  destruct (HP _ _ _ _ Hr0 E0 Hp Hnc) as (K & F & C). destruct C as (_ & Hm & Hw & _). cbn [pool_groups] in *.
  assert (Hcn : cs_nodup c) by (eapply Forall_nth; eauto).
  rewrite (mirror_per_group _ _ Hm Hw Hcn).
  unfold ref_row. rewrite Hp, Hreq. unfold pool_per_group. cbn [pool_groups]. destruct (split a); reflexivity.
Qed.

Lemma solver_rows_all pools0 cp :
  Forall (fun e => is_coupled pools0 e = true) cp ->
  solver_rows (map concise_state pools0) cp = Ok (map (ref_row pools0) cp).
Proof.
  induction 1 as [|e cp He _ IH]; [reflexivity|].
  destruct (is_coupled_inv _ _ He) as (full & gs & pol & a & Hp & Hreq).
  cbn [solver_rows map]. rewrite Hreq.
  assert (Hg : get_at (map concise_state pools0) (e_res e) = Ok (concise_state (PGroups full gs))).
  { apply get_at_ok. split; [unfold len; rewrite map_length; apply nth_error_some_lt in Hp; unfold nat_of in *; lia|].
    rewrite nth_error_map, Hp. reflexivity. }
  rewrite Hg. cbn [bind]. rewrite IH. cbn [bind].
  unfold ref_row. rewrite Hp, Hreq. unfold pool_per_group, amount_max_per_group. cbn [pool_groups concise_state].
  rewrite map_map. cbn [c_units c_fr]. destruct (split a); reflexivity.
Qed.

(* ---------- what fits now fits on the empty worker ---------- *)
Lemma Forall2_length' {A B} (R : A -> B -> Prop) l l' : Forall2 R l l' -> length l = length l'.
Proof. induction 1; cbn [length]; auto. Qed.
Arguments Forall2_length' {A B R l l'} _.
Definition below (n a : N * N) : Prop := fst n + (if snd n =? 0 then 0 else 1) <= fst a.

Lemma mask_sum_below per_now per_all f m :
  Forall2 below per_now per_all -> f <> 0 ->
  mask_sum per_now m fst
  + (if existsb (fun gi => match nth_error per_now (nat_of gi) with Some uf => f <=? snd uf | None => false end) m then 1 else 0)
  <= mask_sum per_all m fst.
Proof.
  intros HB Hf. induction m as [|g m IH]; [cbn [existsb]; unfold mask_sum; cbn [fold_right]; lia|].
  rewrite !mask_sum_cons. cbn [existsb].
  destruct (nth_error per_now (nat_of g)) as [n|] eqn:En.
  - destruct (Forall2_nth _ _ _ _ _ HB En) as (a & Ea & Hna). rewrite Ea. unfold below in Hna.
    destruct (N.leb_spec f (snd n)) as [Hfit|Hnf]; cbn [orb].
    + destruct (N.eqb_spec (snd n) 0); [lia|].
      destruct (existsb _ m); lia.
    + destruct (N.eqb_spec (snd n) 0); destruct (existsb _ m); lia.
  - assert (Ea : nth_error per_all (nat_of g) = None).
    { apply nth_error_None. apply nth_error_None in En. rewrite <- (Forall2_length' HB). auto. }
    rewrite Ea. cbn [orb]. auto.
Qed.

Lemma sufficient_dominated per_now per_all u f m :
  Forall2 below per_now per_all ->
  sufficient per_now u f m = true -> sufficient per_all u f m = true.
Proof.
  intros HB. unfold sufficient. rewrite !andb_true_iff, !orb_true_iff. intros [H1 H2].
  apply N.leb_le in H1.
  destruct (N.eq_dec f 0) as [Hz|Hz].
  - assert (Hle : mask_sum per_now m fst <= mask_sum per_all m fst).
    { clear - HB. induction m as [|g m IH]; [unfold mask_sum; cbn [fold_right]; lia|]. rewrite !mask_sum_cons.
      destruct (nth_error per_now (nat_of g)) as [n|] eqn:En.
      - destruct (Forall2_nth _ _ _ _ _ HB En) as (a & Ea & Hna). rewrite Ea. unfold below in Hna. destruct (snd n =? 0); lia.
      - assert (Ea : nth_error per_all (nat_of g) = None).
        { apply nth_error_None. apply nth_error_None in En. rewrite <- (Forall2_length' HB). auto. }
        rewrite Ea. auto. }
    split; [apply N.leb_le; lia|]. left. left. apply N.eqb_eq. auto.
  - pose proof (mask_sum_below _ _ f m HB Hz) as Hb.
    split; [apply N.leb_le; destruct (existsb _ m); lia|].
    destruct H2 as [[H2|H2]|H2].
    + apply N.eqb_eq in H2. congruence.
    + left. right. apply N.leb_le in H2. apply N.leb_le. destruct (existsb _ m); lia.
    + left. right. rewrite H2 in Hb. apply N.leb_le. lia.
Qed.

Lemma fmax_witness m : fmax m <> 0 -> exists k v, fget m k = Some v.
Proof.
  destruct m as [|[k v] m']; intros H; [exfalso; apply H; reflexivity|].
  exists k, v. cbn [fget]. rewrite N.eqb_refl. reflexivity.
Qed.

(** a group now against the same group of the empty worker *)
Lemma group_below u g h hf : GI u g h hf -> NoDup u ->
  below (len (g_idx g), fmax (g_fr g)) (len u, 0).
Proof.
  intros HGI Hndu. destruct (GI_stack_inside _ _ _ _ HGI) as [Hnd Hincl].
  destruct HGI as ((_ & _ & Hsf & _) & _ & Hout & _).
  unfold below. cbn [fst snd].
  destruct (N.eqb_spec (fmax (g_fr g)) 0) as [Hz|Hz].
  - pose proof (NoDup_incl_length Hnd Hincl). unfold len. lia.
  - destruct (fmax_witness _ Hz) as (k & v & Hk).
    assert (Hku : In k u).
    { destruct (in_dec N.eq_dec k u) as [|Hn]; auto. destruct (Hout k Hn) as (_ & X & _). congruence. }
    assert (Hkg : ~ In k (g_idx g)) by (intros Hin; rewrite (Hsf k Hin) in Hk; discriminate).
    assert (Hnd2 : NoDup (k :: g_idx g)) by (constructor; auto).
    assert (Hincl2 : incl (k :: g_idx g) u) by (intros y [<-|Hy]; auto).
    pose proof (NoDup_incl_length Hnd2 Hincl2) as Hl. cbn [length] in Hl. unfold len. lia.
Qed.

Lemma pool_below p0 p c H taken full gs :
  PoolInv p0 p c H taken -> fresh p0 -> p = PGroups full gs ->
  exists full0 gs0, p0 = PGroups full0 gs0 /\ Forall2 below (pool_per_group p) (pool_per_group p0).
Proof.
  intros (K & F & C) Hfr ->. destruct p0 as [| |full0 gs0|]; try discriminate K.
  exists full0, gs0. split; auto. destruct C as ((Lg & HG) & _). unfold pool_us in *. cbn [pool_groups] in *. rewrite map_length in Lg.
  unfold pool_per_group. cbn [pool_groups]. cbn [fresh pool_groups] in Hfr.
  apply Forall2_from_nth; [rewrite !map_length; auto|].
  intros n x y Hx Hy. rewrite nth_error_map in Hx, Hy.
  destruct (nth_error gs n) as [gn|] eqn:En; [|discriminate]. destruct (nth_error gs0 n) as [g0n|] eqn:E0n; [|discriminate].
  inversion Hx; inversion Hy; subst.
  destruct (Forall_nth _ _ _ _ Hfr E0n) as [Hfr0 Hnd0]. rewrite Hfr0. cbn [fmax].
  eapply group_below; [|exact Hnd0].
  apply (HG (N.of_nat n)); [rewrite nat_of_of_nat, nth_error_map, E0n; reflexivity | rewrite nat_of_of_nat; auto |].
  apply nth_error_some_lt in En. unfold len. lia.
Qed.

Lemma rows_dominated_ref pools0 pools free Hf Tf cp :
  PoolsInv pools0 pools free Hf Tf -> Forall fresh pools0 ->
  Forall (fun e => is_coupled pools e = true) cp ->
  rows_dominated (map (ref_row pools) cp) (map (ref_row pools0) cp)
  /\ Forall (fun e => is_coupled pools0 e = true) cp.
Proof.
  intros (L1 & L2 & HP) Hfr. induction 1 as [|e cp He _ IH]; [split; [exact I|constructor]|].
  destruct IH as [IH1 IH2].
  destruct (is_coupled_inv _ _ He) as (full & gs & pol & a & Hp & Hreq).
  assert (Hlt : e_res e < len pools) by (apply nth_error_some_lt in Hp; unfold len, nat_of in *; lia).
  assert (Hr0 : e_res e < len pools0) by (unfold len in *; lia).
  destruct (nth_error pools0 (nat_of (e_res e))) as [p0|] eqn:E0; [|apply nth_error_None in E0; unfold len, nat_of in *; lia].
  destruct (nth_error free (nat_of (e_res e))) as [c|] eqn:Ec; [|apply nth_error_None in Ec; unfold len, nat_of in *; lia].
  pose proof (HP _ _ _ _ Hr0 E0 Hp Ec) as HI.
  destruct (pool_below _ _ _ _ _ full gs HI (Forall_nth _ _ _ _ Hfr E0) eq_refl) as (full0 & gs0 & -> & HB).
  split.
  - cbn [map]. rewrite (ref_row_eq _ _ _ _ _ _ Hp Hreq), (ref_row_eq _ _ _ _ _ _ E0 Hreq). cbn [rows_dominated].
    split; [reflexivity|]. split; [reflexivity|]. split; [unfold len; f_equal; apply (Forall2_length' HB)|].
    split; [intros m; apply sufficient_dominated; auto|]. exact IH1.
  - constructor; auto. unfold is_coupled. rewrite E0, Hreq. unfold is_coupled in He. rewrite Hp, Hreq in He. exact He.
Qed.

(* ---------- a request that fits has a solution ---------- *)
Lemma increasing_seqN n : forall lo, strictly_increasing_below (seqN lo n) lo (lo + N.of_nat n) = true.
Proof.
  induction n as [|n IH]; intros lo; cbn [seqN strictly_increasing_below]; [reflexivity|].
  specialize (IH (lo + 1)). replace (lo + 1 + N.of_nat n) with (lo + N.of_nat (S n)) in IH by lia. rewrite IH.
  destruct (N.leb_spec lo lo), (N.ltb_spec lo (lo + N.of_nat (S n))); first [lia | reflexivity].
Qed.

Lemma full_masks_feasible pools cp :
  Forall (fun e => is_coupled pools e = true) cp -> forallb (entry_fits pools) cp = true ->
  masks_feasible (map (ref_row pools) cp) (full_masks (map (ref_row pools) cp)) = true.
Proof.
  induction 1 as [|e cp He _ IH]; intros Hfit; [reflexivity|].
  cbn [forallb] in Hfit. apply andb_true_iff in Hfit. destruct Hfit as [Hf1 Hf2].
  destruct (is_coupled_inv _ _ He) as (full & gs & pol & a & Hp & Hreq).
  cbn [map]. rewrite (ref_row_eq _ _ _ _ _ _ Hp Hreq). unfold full_masks. cbn [map masks_feasible fst].
  fold (full_masks (map (ref_row pools) cp)). rewrite (IH Hf2), andb_true_r.
  unfold entry_fits in Hf1. rewrite Hp, Hreq in Hf1. destruct (split a) as [u f]. cbn [fst snd].
  rewrite rows_mean_sufficient, Hf1, andb_true_r.
  unfold full_mask, len. pose proof (increasing_seqN (length (pool_per_group (PGroups full gs))) 0) as X.
  rewrite N.add_0_l in X. exact X.
Qed.

(** the coupled entries collected by the per-entry loop *)
Lemma hr_entries_coupling pools free entries : forall coupling cp,
  hr_entries pools free entries coupling = Ok (true, cp) -> cp = coupling ++ filter (is_coupled pools) entries.
Proof.
  induction entries as [|e rest IH]; intros coupling cp H; cbn [hr_entries] in H.
  - inversion H; subst. cbn [filter]. rewrite app_nil_r. reflexivity.
  - destruct (N.leb_spec (len pools) (e_res e)); [discriminate|].
    destruct (get_at pools (e_res e)) as [p| |] eqn:Ep; cbn [bind] in H; try discriminate.
    destruct (get_at free (e_res e)) as [c| |]; cbn [bind] in H; try discriminate.
    destruct (amount_max_alloc c) as [m| |]; cbn [bind] in H; try discriminate.
    destruct (match e_req e with Req _ a => a <=? m | ReqAll => m =? pool_full_size p end); [|discriminate].
    apply IH in H. subst cp. cbn [filter]. unfold is_coupled at 2. apply get_at_ok in Ep. destruct Ep as [_ Hn]. rewrite Hn.
    destruct (is_groups p && is_relevant_for_coupling (e_req e)); [rewrite <- app_assoc|]; reflexivity.
Qed.

(** the reference of the monitor strict-refused-at-minimum, per coupled entry *)
Definition at_min (pools0 pools : list pool) (e : entry) : bool :=
  match e_req e, nth_error pools (nat_of (e_res e)), nth_error pools0 (nat_of (e_res e)) with
  | Req _ a, Some pb, Some p0 =>
      let '(u, f) := split a in opt_eqb (min_groups (pool_per_group pb) u f) (min_groups (pool_per_group p0) u f)
  | _, _, _ => true
  end.

Lemma row_mins_at_min pools0 pools cp :
  Forall (fun e => is_coupled pools e = true) cp -> Forall (fun e => is_coupled pools0 e = true) cp ->
  list_eqb opt_eqb (row_mins (map (ref_row pools) cp)) (row_mins (map (ref_row pools0) cp)) = forallb (at_min pools0 pools) cp.
Proof.
  induction 1 as [|e cp He _ IH]; intros H0; [reflexivity|]. inversion H0 as [|? ? He0 H0']; subst.
  destruct (is_coupled_inv _ _ He) as (full & gs & pol & a & Hp & Hreq).
  destruct (is_coupled_inv _ _ He0) as (full0 & gs0 & pol0 & a0 & Hp0 & Hreq0).
  cbn [map forallb]. rewrite (ref_row_eq _ _ _ _ _ _ Hp Hreq), (ref_row_eq _ _ _ _ _ _ Hp0 Hreq). unfold at_min at 1.
  rewrite Hp, Hp0, Hreq. cbn [row_mins list_eqb]. rewrite (IH H0'). destruct (split a); reflexivity.
Qed.

(** C16, strict policies, as an equivalence.  In a reachable state of a worker without coupling weights, for the
    first admission test of a request (its yardstick is not cached yet) with at least one strict entry on a
    grouped resource, and answers of the solver that select the minimum number of groups for every coupled entry
    (the reference the monitor solver-suboptimal checks every answer against):
    has_resources_for_request admits the request EXACTLY when the pools contain enough for every entry and every
    coupled entry can be served now with the minimum number of groups of the empty worker. *)
Theorem C16_strict_admission_at_minimum : forall d s0 ops s rq w ok yard,
  init d = Ok s0 -> Forall valid_op ops -> run s0 ops = Ok s ->
  d_coupling d = [] ->
  yard_lookup (a_yard (s_alloc s)) rq = None ->
  existsb (fun e => is_forced (e_req e)) (coupled_entries (a_pools (s_alloc s)) rq) = true ->
  (forall ms, w_adm w = Some ms ->
              minimal_answer (map (ref_row (a_pools (s_alloc s))) (coupled_entries (a_pools (s_alloc s)) rq)) ms) ->
  (forall ms, w_yard w = Some ms ->
              minimal_answer (map (ref_row (a_pools (s_alloc s0))) (coupled_entries (a_pools (s_alloc s)) rq)) ms) ->
  has_resources (s_alloc s) rq w = Ok (ok, yard) ->
  ok = request_fits (a_pools (s_alloc s)) rq
       && forallb (at_min (a_pools (s_alloc s0)) (a_pools (s_alloc s))) (coupled_entries (a_pools (s_alloc s)) rq).
Proof.
  intros d s0 ops s rq w ok yard Hi Hv Hr Hnc Hmiss Hforced Hmin_now Hmin_all Hh.
  destruct (request_fits (a_pools (s_alloc s)) rq) eqn:Hfit.
  2:{ rewrite (admission_refuses_unfit d s0 ops s Hi Hv Hr rq w Hfit) in Hh. inversion Hh; subst. reflexivity. }
  cbn [andb].
  assert (HF : FullInv (a_pools (s_alloc s0)) s) by (eapply run_full; [apply (init_full d); auto | eauto | eauto]).
  destruct HF as [HI _]. pose proof (reachable_nodup _ _ _ _ Hi Hr) as Hn.
  destruct (init_static _ _ Hi) as (Hfr & Hall0 & Hw0). destruct (run_static _ _ _ Hr) as [Hall Hws].
  destruct (hr_entries_reachable d s0 ops s Hi Hv Hr rq) as (cp & Hhr & _). rewrite Hfit in Hhr.
  pose proof (hr_entries_coupling _ _ _ _ _ Hhr) as Hcp. cbn [app] in Hcp. fold (coupled_entries (a_pools (s_alloc s)) rq) in Hcp.
  set (pools := a_pools (s_alloc s)) in *. set (pools0 := a_pools (s_alloc s0)) in *. subst cp.
  set (cp := coupled_entries pools rq) in *.
  assert (Hcpl : Forall (fun e => is_coupled pools e = true) cp).
  { apply Forall_forall. intros e He. unfold cp, coupled_entries in He. apply filter_In in He. tauto. }
  assert (Hnf : forallb (fun e => negb (is_forced (e_req e))) cp = false).
  { apply existsb_exists in Hforced. destruct Hforced as (e & He & Hfe).
    destruct (forallb (fun e0 => negb (is_forced (e_req e0))) cp) eqn:E; auto.
    rewrite forallb_forall in E. specialize (E e He). rewrite Hfe in E. discriminate. }
  assert (Hws0 : a_weights (s_alloc s) = []) by (rewrite Hws; auto).
  destruct (strict_admission_counts _ _ _ _ _ _ Hws0 Hmiss Hhr Hnf Hh) as (rows_now & Hrows & Hcase).
  rewrite (solver_rows_now _ _ _ _ _ _ HI Hn Hcpl) in Hrows. inversion Hrows; subst rows_now. clear Hrows.
  destruct (rows_dominated_ref _ _ _ _ _ _ HI Hfr Hcpl) as [Hdom Hcpl0].
  destruct Hcase as [(_ & Hinf & _)|(ms_now & ms_all & rows_all & Ha & Hy & Hfn & Hrows_all & Hfa & ->)].
  - exfalso. rewrite full_masks_feasible in Hinf; [discriminate|auto|].
    unfold request_fits in Hfit. rewrite forallb_forall in Hfit. apply forallb_forall. intros e He.
    apply Hfit. unfold cp, coupled_entries in He. apply filter_In in He. tauto.
  - rewrite Hall, Hall0 in Hrows_all. fold pools0 in Hrows_all.
    rewrite (solver_rows_all _ _ Hcpl0) in Hrows_all. inversion Hrows_all; subst rows_all. clear Hrows_all.
    rewrite (counts_iff_at_minimum _ _ _ _ Hdom (Hmin_now _ Ha) (Hmin_all _ Hy)).
    apply row_mins_at_min; auto.
Qed.

(** non-vacuity: groups of 2 and 6 indices (the descriptor of Alloc.Examples.ex_strict_desc) after a scatter of 2
    units (1 and 5 whole indices left): `tight! 2` is at its empty-worker minimum (1 group) and is admitted,
    `tight! 6` needs 2 groups now but 1 on the empty worker and is refused *)
Example strict_admission_example :
  exists s0 s,
    init ex_strict_desc = Ok s0 /\ run s0 [OAlloc [mkEntry 0 (Req Scatter 20000)] no_wit] = Ok s
    /\ d_coupling ex_strict_desc = []
    /\ (let rq := [mkEntry 0 (Req ForceTight 20000)] in let w := mkWitness None (Some [[1]]) (Some [[0]]) [] in
        minimal_answer (map (ref_row (a_pools (s_alloc s))) (coupled_entries (a_pools (s_alloc s)) rq)) [[1]]
        /\ minimal_answer (map (ref_row (a_pools (s_alloc s0))) (coupled_entries (a_pools (s_alloc s)) rq)) [[0]]
        /\ has_resources (s_alloc s) rq w = Ok (true, [(rq, (- GROUP_COST * 1 + 0 - SLACK)%Z)])
        /\ forallb (at_min (a_pools (s_alloc s0)) (a_pools (s_alloc s))) (coupled_entries (a_pools (s_alloc s)) rq) = true)
    /\ (let rq := [mkEntry 0 (Req ForceTight 60000)] in let w := mkWitness None (Some [[0; 1]]) (Some [[1]]) [] in
        minimal_answer (map (ref_row (a_pools (s_alloc s))) (coupled_entries (a_pools (s_alloc s)) rq)) [[0; 1]]
        /\ minimal_answer (map (ref_row (a_pools (s_alloc s0))) (coupled_entries (a_pools (s_alloc s)) rq)) [[1]]
        /\ has_resources (s_alloc s) rq w = Ok (false, [(rq, (- GROUP_COST * 1 + 0 - SLACK)%Z)])
        /\ forallb (at_min (a_pools (s_alloc s0)) (a_pools (s_alloc s))) (coupled_entries (a_pools (s_alloc s)) rq) = false).
Proof.
  eexists. eexists.
  split; [vm_compute; reflexivity|]. split; [vm_compute; reflexivity|]. split; [reflexivity|].
  cbv zeta. repeat split; vm_compute; auto.
Qed.

Print Assumptions C16_strict_admission_at_minimum.
