(** C16 group count - the groups an accepted claim uses can hold the amount.
    Whatever a claim function returns and the gate [claim_ok] accepts (whole indices first, at most one fractional
    index last, amounts add up, replaying it on the pool succeeds) takes its indices from a SUFFICIENT set of
    groups; hence the number of groups used is at least the reference minimum [min_groups] of the pool before. *)
From Coq Require Import Permutation.
From HQ Require Import Base.Prelude Gen.Consts Alloc.Model Alloc.Spec Alloc.Lemmas Alloc.Group Alloc.Pool Alloc.Inv Alloc.System Alloc.Mirror Alloc.MirrorSystem Alloc.GroupsProofs Alloc.Complete Alloc.CompleteTight
  Alloc.PolicyBase.
Require Import ZifyBool ZifyN ZifyNat.
Open Scope N_scope.
Arguments N.add : simpl never.
Arguments N.sub : simpl never.
Arguments N.mul : simpl never.
Arguments N.div : simpl never.
Arguments N.modulo : simpl never.
Arguments N.eqb : simpl never.
Arguments N.ltb : simpl never.
Arguments N.leb : simpl never.
Arguments N.of_nat : simpl never.
Arguments N.to_nat : simpl never.
Arguments sumN : simpl never.

(** the groups a list of AllocationIndex touches *)
Definition used (out : list aidx) : list N := dedup (map ai_group out).

Lemma groups_used_eq ra : groups_used ra = len (used (ra_indices ra)).
Proof. reflexivity. Qed.

Lemma in_used g out : In g (used out) <-> exists ix, In ix out /\ ai_group ix = g.
Proof.
  unfold used. rewrite in_dedup, in_map_iff. split; intros (ix & A & B); exists ix; auto.
Qed.

Definition per_of (gs : list group) : list (N * N) := map (fun g => (len (g_idx g), fmax (g_fr g))) gs.

Lemma pool_per_group_groups full gs : pool_per_group (PGroups full gs) = per_of gs.
Proof. reflexivity. Qed.

Lemma nth_per_of gs n : nth_error (per_of gs) n = match nth_error gs n with Some g => Some (len (g_idx g), fmax (g_fr g)) | None => None end.
Proof. unfold per_of. rewrite nth_error_map. destruct (nth_error gs n); reflexivity. Qed.

Lemma mask_sum_lenidx gs l : mask_sum (per_of gs) l fst = sumN (map (lenidx gs) l).
Proof.
  induction l as [|g l IH]; [reflexivity|]. rewrite mask_sum_cons, nth_per_of. cbn [map]. rewrite sumN_cons, IH, lenidx_nth.
  destruct (nth_error gs (nat_of g)); cbn [fst]; lia.
Qed.

(* ---------- sums over a list of groups ---------- *)
Lemma sumN_map_le {A} (f g : A -> N) l : (forall x, In x l -> f x <= g x) -> sumN (map f l) <= sumN (map g l).
Proof.
  induction l as [|x l IH]; intros H; cbn [map]; rewrite ?sumN_cons, ?sumN_nil; [lia|].
  assert (f x <= g x) by (apply H; left; auto). assert (sumN (map f l) <= sumN (map g l)) by (apply IH; intros; apply H; right; auto). lia.
Qed.

Lemma sumN_map_lt {A} (f g : A -> N) l y : (forall x, In x l -> f x <= g x) -> In y l -> f y + 1 <= g y ->
  sumN (map f l) + 1 <= sumN (map g l).
Proof.
  induction l as [|x l IH]; intros H Hy Hlt; [destruct Hy|]. cbn [map]. rewrite !sumN_cons.
  assert (Hx : f x <= g x) by (apply H; left; auto).
  assert (Hl : sumN (map f l) <= sumN (map g l)) by (apply sumN_map_le; intros; apply H; right; auto).
  destruct Hy as [->|Hy]; [lia|]. assert (sumN (map f l) + 1 <= sumN (map g l)) by (apply IH; auto; intros; apply H; right; auto). lia.
Qed.

Lemma sum_indicator g l : NoDup l -> In g l -> sumN (map (fun j => if g =? j then 1 else 0) l) = 1.
Proof.
  induction l as [|x l IH]; intros Hnd Hin; [destruct Hin|]. inversion Hnd as [|? ? Hn Hd]; subst.
  cbn [map]. rewrite sumN_cons. destruct Hin as [->|Hin].
  - rewrite N.eqb_refl. rewrite sumN_map_zero; [lia|]. intros j Hj. destruct (N.eqb_spec g j); [subst; contradiction|reflexivity].
  - rewrite (IH Hd Hin). destruct (N.eqb_spec g x); [subst; contradiction|lia].
Qed.

(** the whole indices, counted per group of a duplicate-free list covering their groups *)
Lemma whole_sum_wc ws l : Forall whole ws -> NoDup l -> (forall ix, In ix ws -> In (ai_group ix) l) ->
  len ws = sumN (map (wc ws) l).
Proof.
  intros Hw Hnd. induction Hw as [|ix ws Hix Hw IH]; intros Hc.
  - rewrite sumN_map_zero; [reflexivity|]. intros; apply wc_nil.
  - assert (E : forall l', sumN (map (wc (ix :: ws)) l') = sumN (map (fun j => if ai_group ix =? j then 1 else 0) l') + sumN (map (wc ws) l')).
    { induction l' as [|j l' IHl]; cbn [map]; rewrite ?sumN_cons, ?sumN_nil; [lia|].
      rewrite IHl, wc_cons. unfold whole in Hix. rewrite Hix, N.eqb_refl, andb_true_r. destruct (ai_group ix =? j); lia. }
    rewrite E, sum_indicator; auto; [|apply Hc; left; auto].
    rewrite <- IH by (intros; apply Hc; right; auto). unfold len. cbn [length]. lia.
Qed.

(* ---------- replaying whole indices ---------- *)
Lemma take_wholes ws : forall gs gs1, Forall whole ws -> take_all gs ws = Some gs1 ->
  (forall g, lenidx gs1 g + wc ws g = lenidx gs g)
  /\ (forall g x1, get_at gs1 g = Ok x1 -> exists x0, get_at gs g = Ok x0 /\ g_fr x1 = g_fr x0).
Proof.
  induction ws as [|ix ws IH]; intros gs gs1 Hw Ht; cbn [take_all] in Ht.
  - inversion Ht; subst. split; [intros g; rewrite wc_nil; lia | intros g x1 H; eauto].
  - inversion Hw as [|? ? Hix Hw']; subst.
    destruct (get_at gs (ai_group ix)) as [g0| |] eqn:Eg; try discriminate.
    rewrite take1_whole in Ht by auto.
    destruct (memN (ai_index ix) (g_idx g0)) eqn:Em; [|discriminate].
    apply memN_in in Em. pose proof (len_removeN _ _ Em) as Hlen.
    destruct (IH _ _ Hw' Ht) as [A B]. split.
    + intros g. pose proof (A g) as Ag. rewrite wc_cons. unfold whole in Hix. rewrite Hix, N.eqb_refl, andb_true_r.
      destruct (N.eqb_spec (ai_group ix) g) as [<-|Hne].
      * rewrite (lenidx_set_at_same _ _ _ _ Eg) in Ag. rewrite (lenidx_get _ _ _ Eg). cbn [g_idx] in Ag. lia.
      * rewrite lenidx_set_at_other in Ag by auto. lia.
    + intros g x1 Hx1. destruct (B g x1 Hx1) as (x' & Hx' & Hfr).
      destruct (N.eq_dec (ai_group ix) g) as [<-|Hne].
      * rewrite (get_at_set_at_same' _ _ _ _ Eg) in Hx'. inversion Hx'; subst x'. exists g0. split; auto.
      * rewrite get_at_set_at_other in Hx' by auto. eauto.
Qed.

Lemma take_all_range out : forall gs gs', take_all gs out = Some gs' -> Forall (fun ix => ai_group ix < len gs) out.
Proof.
  induction out as [|ix out IH]; intros gs gs' Ht; [constructor|]. cbn [take_all] in Ht.
  destruct (get_at gs (ai_group ix)) as [g| |] eqn:Eg; try discriminate.
  destruct (take1 g ix) as [g'|]; try discriminate.
  constructor; [eapply get_at_range; eauto|]. apply IH in Ht. rewrite len_set_at in Ht. exact Ht.
Qed.

(** the groups used by an accepted claim hold the amount *)
Theorem accepted_sufficient gs out a gs' :
  shape_ok out = true -> fold_right N.add 0 (map held_ix out) = a -> take_all gs out = Some gs' ->
  sufficient (per_of gs) (fst (split a)) (snd (split a)) (used out) = true.
Proof.
  intros Hshape Htot Ht.
  destruct (shape_split _ Hshape) as (ws & fs & -> & Hw & Hf).
  rewrite take_all_app in Ht. destruct (take_all gs ws) as [gs1|] eqn:Ews; [|discriminate].
  destruct (take_wholes _ _ _ Hw Ews) as [Hcons Hfr].
  set (U := used (ws ++ fs)).
  assert (HndU : NoDup U) by apply nodup_dedup.
  assert (HinU : forall ix, In ix (ws ++ fs) -> In (ai_group ix) U) by (intros ix Hix; apply in_used; eauto).
  assert (Hlen : len ws = sumN (map (wc ws) U)).
  { apply whole_sum_wc; auto. intros ix Hix. apply HinU. apply in_or_app. auto. }
  assert (Hle : forall g, In g U -> wc ws g <= lenidx gs g) by (intros g _; specialize (Hcons g); lia).
  unfold sufficient. rewrite mask_sum_lenidx.
  destruct Hf as [->|(F & -> & HFz & HFl)].
  - rewrite (total_app ws [] 0) in Htot by auto. subst a. rewrite N.add_0_r.
    replace (len ws * FPU) with (len ws * FPU + 0) by lia. rewrite split_mk by apply FPU_pos. cbn [fst snd].
    rewrite N.eqb_refl. cbn [orb]. rewrite andb_true_r. apply N.leb_le. rewrite Hlen. apply sumN_map_le. auto.
  - rewrite (total_app ws [F] (ai_frac F)) in Htot by (auto; right; split; auto; exists F; auto). subst a.
    rewrite split_mk by auto. cbn [fst snd].
    assert (HFU : In (ai_group F) U) by (apply HinU; apply in_or_app; right; left; auto).
    cbn [take_all] in Ht. destruct (get_at gs1 (ai_group F)) as [g1| |] eqn:Eg1; try discriminate.
    destruct (take1 g1 F) as [g2|] eqn:Et; try discriminate.
    rewrite take1_memN in Et. cbv zeta in Et. destruct (N.eqb_spec (ai_frac F) 0) as [|_]; [congruence|].
    destruct (Hfr _ _ Eg1) as (g0 & Eg0 & Hfr0).
    destruct (fget (g_fr g1) (ai_index F)) as [v|] eqn:Ev.
    + (* served by a partly used index *)
      destruct (N.leb_spec (ai_frac F) v) as [Hfit|]; [|discriminate].
      assert (H1 : (len ws <=? sumN (map (lenidx gs) U)) = true) by (apply N.leb_le; rewrite Hlen; apply sumN_map_le; auto).
      rewrite H1. cbn [andb]. apply orb_true_iff. right.
      apply existsb_exists. exists (ai_group F). split; auto.
      rewrite nth_per_of. apply get_at_ok in Eg0. destruct Eg0 as [_ Hn0]. rewrite Hn0. cbn [snd].
      apply N.leb_le. rewrite Hfr0 in Ev. pose proof (fmax_ge _ _ _ Ev). lia.
    + (* a whole index of the group is split *)
      destruct (memN (ai_index F) (g_idx g1)) eqn:Em; [|discriminate]. apply memN_in in Em.
      assert (Hpos : 0 < lenidx gs1 (ai_group F)) by (rewrite (lenidx_get _ _ _ Eg1); eapply len_pos_in; eauto).
      assert (Hlt : sumN (map (wc ws) U) + 1 <= sumN (map (lenidx gs) U)).
      { apply (sumN_map_lt _ _ _ (ai_group F)); auto. specialize (Hcons (ai_group F)). lia. }
      destruct (N.leb_spec (len ws) (sumN (map (lenidx gs) U))); [|lia].
      destruct (N.leb_spec (len ws + 1) (sumN (map (lenidx gs) U))); [|lia].
      cbn [andb]. rewrite orb_true_r. reflexivity.
Qed.

(* ---------- sufficiency does not depend on the order of the groups ---------- *)
Lemma mask_sum_perm per coef l l' : Permutation l l' -> mask_sum per l coef = mask_sum per l' coef.
Proof.
  induction 1 as [|x l l' _ IH|x y l|l l' l'' _ IH1 _ IH2]; auto; rewrite ?mask_sum_cons.
  - rewrite IH. reflexivity.
  - destruct (nth_error per (nat_of x)), (nth_error per (nat_of y)); lia.
  - congruence.
Qed.

Lemma existsb_perm {A} (p : A -> bool) l l' : Permutation l l' -> existsb p l = existsb p l'.
Proof.
  induction 1 as [|x l l' _ IH|x y l|l l' l'' _ IH1 _ IH2]; auto; cbn [existsb].
  - rewrite IH. reflexivity.
  - destruct (p x), (p y); reflexivity.
  - congruence.
Qed.

Lemma sufficient_perm per u f l l' : Permutation l l' -> sufficient per u f l = sufficient per u f l'.
Proof.
  intros P. unfold sufficient. rewrite (mask_sum_perm per fst _ _ P).
  rewrite (existsb_perm _ _ _ P). reflexivity.
Qed.

Lemma filter_in_sublists {A} (p : A -> bool) l : In (filter p l) (sublists l).
Proof.
  induction l as [|x l IH]; cbn [filter sublists]; [left; reflexivity|].
  apply in_or_app. destruct (p x); [left; apply in_map; auto | right; auto].
Qed.

(** a duplicate-free set of group ids in range, as a selection the reference enumerates *)
Lemma nodup_sorted_rep n l : NoDup l -> (forall g, In g l -> g < N.of_nat n) ->
  exists m, In m (sublists (seqN 0 n)) /\ Permutation m l.
Proof.
  intros Hnd Hr. exists (filter (fun g => memN g l) (seqN 0 n)). split; [apply filter_in_sublists|].
  apply NoDup_Permutation; auto.
  - apply NoDup_filter, nodup_seqN.
  - intros x. rewrite filter_In, in_seqN, memN_in. split; [tauto|]. intros Hx. split; auto. specialize (Hr x Hx). lia.
Qed.

(** a sufficient duplicate-free set of groups has at least [min_groups] elements *)
Theorem sufficient_ge_min per u f l :
  NoDup l -> (forall g, In g l -> g < len per) -> sufficient per u f l = true ->
  exists k, min_groups per u f = Some k /\ k <= len l.
Proof.
  intros Hnd Hr Hs. destruct (nodup_sorted_rep (length per) l Hnd Hr) as (m & Hm & P).
  rewrite <- (sufficient_perm per u f _ _ P) in Hs.
  pose proof (min_groups_correct per u f) as MC. unfold full_mask in MC.
  destruct (min_groups per u f) as [k|].
  - exists k. split; auto. destruct MC as [_ Hmin]. specialize (Hmin m Hm Hs).
    unfold len in *. rewrite <- (Permutation_length P). exact Hmin.
  - rewrite (MC m Hm) in Hs. discriminate.
Qed.

(** every accepted claim on a group pool uses at least the minimum number of groups of the pool before *)
Theorem accepted_ge_min full gs p' rid pol a ra :
  claim_ok (PGroups full gs) p' rid (Req pol a) ra = true ->
  sufficient (per_of gs) (fst (split a)) (snd (split a)) (used (ra_indices ra)) = true
  /\ exists k, min_groups (per_of gs) (fst (split a)) (snd (split a)) = Some k /\ k <= groups_used ra.
Proof.
  intros Hok. destruct (claim_ok_inv _ _ _ _ _ Hok) as (_ & Ham & Hk & _ & Hcl).
  destruct p' as [| |f' gs'|]; try discriminate Hk. destruct Hcl as (Hshape & Htot & Ht). cbn [pool_groups req_amount] in *.
  unfold ra_total in Htot. rewrite Ham in Htot.
  pose proof (accepted_sufficient _ _ _ _ Hshape Htot Ht) as Hs. split; auto.
  rewrite groups_used_eq. apply sufficient_ge_min; auto; [apply nodup_dedup|].
  intros g Hg. apply in_used in Hg. destruct Hg as (ix & Hix & <-).
  pose proof (take_all_range _ _ _ Ht) as Hr. rewrite Forall_forall in Hr. specialize (Hr _ Hix).
  unfold per_of, len in *. rewrite map_length. exact Hr.
Qed.
