(** Strict policies at the level of has_resources_for_request: one strict entry on a grouped resource,
    no coupling weights, first call (cache miss). *)
From HQ Require Import Base.Prelude Gen.Consts Alloc.Model Alloc.Spec Alloc.Lemmas Alloc.GroupsProofs Alloc.Admission Alloc.Objective.
Require Import ZifyBool ZifyN ZifyNat.
Open Scope N_scope.
Arguments N.add : simpl never.
Arguments N.mul : simpl never.
Arguments N.eqb : simpl never.
Arguments N.ltb : simpl never.
Arguments N.leb : simpl never.
Arguments N.of_nat : simpl never.
Arguments N.to_nat : simpl never.
Arguments sumN : simpl never.

(** an answer of the solver (ascending group ids, in range) is a sub-selection of all groups *)
Lemma increasing_in_sublists m : forall lo n,
  strictly_increasing_below m lo (lo + N.of_nat n) = true -> In m (sublists (seqN lo n)).
Proof.
  induction m as [|g m IH]; intros lo n H.
  - apply in_sublists_nil.
  - simpl in H. apply andb_true_iff in H. destruct H as [H H3]. apply andb_true_iff in H. destruct H as [H1 H2].
    revert lo H1 H2 H3. induction n as [|n IHn]; intros lo H1 H2 H3; [lia|].
    simpl. apply in_or_app. destruct (N.eq_dec g lo) as [->|Hne].
    + left. apply in_map. apply IH. replace (lo + 1 + N.of_nat n) with (lo + N.of_nat (S n)) by lia. auto.
    + right. apply IHn; try lia. replace (lo + 1 + N.of_nat n) with (lo + N.of_nat (S n)) by lia. auto.
Qed.

Lemma answer_in_sublists per m : strictly_increasing_below m 0 (len per) = true -> In m (sublists (full_mask per)).
Proof. intros H. unfold full_mask. apply (increasing_in_sublists m 0 (length per)). unfold len in H. rewrite N.add_0_l. auto. Qed.

(** group_solver for one entry without weights *)
Lemma group_solver_single free e a pol tie ms o s :
  e_req e = Req pol a -> get_at free (e_res e) = Ok s ->
  group_solver free [e] [] tie (Some ms) = Ok (Some (ms, o)) ->
  exists m, ms = [m] /\ In m (sublists (full_mask (amount_max_per_group s)))
            /\ mask_feasible (amount_max_per_group s) (fst (split a)) (snd (split a)) m = true
            /\ o = mask_objective tie (amount_max_per_group s) (snd (split a)) m.
Proof.
  intros Hreq Hs H. unfold group_solver in H. simpl in H. rewrite Hreq, Hs in H. cbn [bind] in H. simpl in H.
  change (fst (split a)) with (a / FPU). change (snd (split a)) with (a mod FPU).
  destruct ms as [|m [|m2 ms]]; simpl in H; try discriminate; try (rewrite andb_false_r in H; discriminate).
  rewrite andb_true_r in H.
  destruct (strictly_increasing_below m 0 (len (amount_max_per_group s))) eqn:E1; simpl in H; try discriminate.
  destruct (mask_feasible (amount_max_per_group s) (a / FPU) (a mod FPU) m) eqn:E2; simpl in H; try discriminate.
  inversion H; subst. exists m. split; [auto|]. split; [apply answer_in_sublists; auto|]. split; [auto|]. lia.
Qed.

Lemma group_solver_same free entries ws tie ms ms' o :
  group_solver free entries ws tie (Some ms) = Ok (Some (ms', o)) -> ms' = ms.
Proof.
  unfold group_solver. intros H.
  destruct (solver_rows free entries) as [rows| |]; cbn [bind] in H; try discriminate.
  destruct (weights_objective entries _ ws []); cbn [bind] in H; try discriminate.
  destruct (masks_feasible rows ms); try discriminate.
  destruct (weights_objective entries _ ws ms); cbn [bind] in H; try discriminate.
  inversion H; auto.
Qed.

(** C16_strict_sound at the level of the admission function: if has_resources_for_request admits a request with
    ONE strict entry (first call, no coupling weights) and the solver's answer for the empty worker is optimal
    (it selects [min_groups] groups - checked per answer by the monitor), then the amount fits NOW into at most the
    minimum number of groups of the empty worker. *)
Theorem strict_admitted_sound a e pol amt w yard p s_now s_all :
  (pol = ForceCompact \/ pol = ForceTight) -> e_req e = Req pol amt ->
  a_weights a = [] -> a_yard a = [] ->
  get_at (a_pools a) (e_res e) = Ok p -> is_groups p = true ->
  get_at (a_free a) (e_res e) = Ok s_now -> get_at (a_all a) (e_res e) = Ok s_all ->
  has_resources a [e] w = Ok (true, yard) ->
  (forall m_all, w_yard w = Some [m_all] ->
                 min_groups (amount_max_per_group s_all) (fst (split amt)) (snd (split amt)) = Some (len m_all)) ->
  exists k m_all, w_yard w = Some [m_all]
    /\ min_groups (amount_max_per_group s_now) (fst (split amt)) (snd (split amt)) = Some k /\ k <= len m_all.
Proof.
  intros Hpol Hreq Hws Hy Hp Hg Hsn Hsa Hh Hopt.
  unfold has_resources in Hh. simpl hr_entries in Hh.
  pose proof Hp as Hp'. apply get_at_ok in Hp'. destruct Hp' as [Hlt _].
  destruct (N.leb_spec (len (a_pools a)) (e_res e)); [lia|].
  rewrite Hp, Hsn in Hh. cbn [bind] in Hh.
  destruct (amount_max_alloc s_now) as [mx| |]; cbn [bind] in Hh; try discriminate.
  rewrite Hreq in Hh. rewrite Hg in Hh.
  assert (Hrel : is_relevant_for_coupling (Req pol amt) = true) by (destruct Hpol; subst; auto).
  rewrite Hrel in Hh. simpl andb in Hh. cbn iota in Hh. simpl app in Hh.
  destruct (amt <=? mx); cbn [bind negb] in Hh; [|inversion Hh].
  assert (Hf : forallb (fun e0 => negb (is_forced (e_req e0))) [e] = false).
  { simpl. rewrite Hreq. destruct Hpol; subst; auto. }
  rewrite Hf in Hh. rewrite Hws, Hy in Hh.
  destruct (w_adm w) as [ms|] eqn:Ea.
  2:{ unfold group_solver in Hh. simpl in Hh. rewrite Hreq, Hsn in Hh. cbn [bind] in Hh.
      destruct (split amt); cbn [bind] in Hh. simpl in Hh. destruct (_ && _); simpl in Hh; inversion Hh. }
  destruct (group_solver (a_free a) [e] [] false (Some ms)) as [[[ms' o]|]| |] eqn:Eg; cbn [bind] in Hh; try discriminate.
  assert (ms' = ms) by (eapply group_solver_same; eauto).
  subst ms'. destruct (group_solver_single _ _ _ _ _ _ _ _ Hreq Hsn Eg) as (m_now & -> & Hin_now & Hfeas & ->).
  simpl yard_lookup in Hh.
  destruct (w_yard w) as [ys|] eqn:Ey.
  2:{ unfold group_solver in Hh. simpl in Hh. rewrite Hreq, Hsa in Hh. cbn [bind] in Hh.
      destruct (split amt); cbn [bind] in Hh. simpl in Hh. destruct (_ && _); simpl in Hh; inversion Hh. }
  destruct (group_solver (a_all a) [e] [] false (Some ys)) as [[[ys' oy]|]| |] eqn:Egy; cbn [bind] in Hh; try discriminate.
  assert (ys' = ys) by (eapply group_solver_same; eauto).
  subst ys'. destruct (group_solver_single _ _ _ _ _ _ _ _ Hreq Hsa Egy) as (m_all & -> & Hin_all & Hfeas_all & ->).
  inversion Hh as [[Hle Hyard]]. apply Z.leb_le in Hle.
  destruct (strict_admission_sound (amount_max_per_group s_now) (amount_max_per_group s_all) _ _ m_now m_all Hin_now Hin_all Hfeas (Hopt m_all eq_refl)) as (k & Hk & Hkl); [exact Hle|].
  exists k, m_all. auto.
Qed.
