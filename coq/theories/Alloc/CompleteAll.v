(** The check [claim_ok] accepts claim_all_from_groups when every index of the resource is free
    (which the admission test guarantees: AllFree.all_only_when_free_groups). *)
From Coq Require Import Permutation.
From HQ Require Import Base.Prelude Gen.Consts Alloc.Model Alloc.Spec Alloc.Lemmas Alloc.Group Alloc.Pool Alloc.Inv Alloc.System Alloc.Mirror Alloc.MirrorSystem Alloc.Complete Alloc.AllFree.
Require Import ZifyBool ZifyN ZifyNat.
Open Scope N_scope.
Arguments N.add : simpl never.
Arguments N.mul : simpl never.
Arguments N.eqb : simpl never.
Arguments N.ltb : simpl never.
Arguments N.leb : simpl never.
Arguments N.of_nat : simpl never.
Arguments N.to_nat : simpl never.
Arguments sumN : simpl never.

Lemma perm_removeN i l : In i l -> Permutation l (i :: removeN i l).
Proof.
  induction l as [|x l IH]; simpl; [tauto|]. destruct (N.eqb_spec x i).
  - subst. auto.
  - intros [H|H]; [congruence|]. eapply perm_trans; [apply perm_skip, IH; auto | apply perm_swap].
Qed.

(** taking every index of one group, in any order *)
Lemma take_group_all l : forall gs k g,
  get_at gs k = Ok g -> NoDup (g_idx g) -> Permutation l (g_idx g) ->
  take_all gs (map (fun i => mkAidx i k 0) l) = Some (set_at gs k (mkGroup [] (g_fr g))).
Proof.
  induction l as [|i l IH]; intros gs k g Hg Hnd Hp.
  - apply Permutation_nil in Hp. simpl. f_equal. symmetry. apply set_at_same. destruct g; simpl in *; subst; auto.
  - assert (Hin : In i (g_idx g)) by (eapply Permutation_in; [exact Hp|left; auto]).
    cbn [map take_all ai_group]. rewrite Hg. rewrite take1_whole by reflexivity. cbn [ai_index].
    apply memN_in in Hin. rewrite Hin. apply memN_in in Hin.
    pose proof (IH (set_at gs k (mkGroup (removeN i (g_idx g)) (g_fr g))) k (mkGroup (removeN i (g_idx g)) (g_fr g))) as X.
    simpl in X. rewrite X.
    + rewrite set_at_set_at. auto.
    + eapply get_at_set_at_same'; eauto.
    + apply nodup_removeN; auto.
    + apply (Permutation_cons_inv (a := i)). eapply perm_trans; [exact Hp|]. apply perm_removeN; auto.
Qed.

Lemma claim_all_spec gs' : forall pre gid gs2 out,
  gid = len pre -> Forall gwf gs' ->
  claim_all_from_groups gs' gid = (gs2, out) ->
  take_all (pre ++ gs') out = Some (pre ++ gs2) /\ Forall whole out
  /\ sumN (map held_ix out) = sumN (map (fun g => len (g_idx g)) gs') * FPU.
Proof.
  induction gs' as [|g gs' IH]; intros pre gid gs2 out Hgid Hwf Hc; simpl in Hc.
  - inversion Hc; subst. simpl. rewrite sumN_nil. repeat split; auto. 
  - destruct (claim_all_from_groups gs' (gid + 1)) as [gs3 out3] eqn:E. inversion Hc; subst gs2 out. clear Hc.
    inversion Hwf as [|? ? (Hnd & _) Hwf']; subst.
    assert (Hg : get_at (pre ++ g :: gs') (len pre) = Ok g).
    { apply get_at_ok. split; [rewrite len_app; unfold len; simpl; lia|].
      replace (nat_of (len pre)) with (length pre) by (unfold nat_of, len; lia).
      rewrite nth_error_app2 by lia. rewrite Nat.sub_diag. auto. }
    assert (Hset : set_at (pre ++ g :: gs') (len pre) (mkGroup [] (g_fr g)) = (pre ++ [mkGroup [] (g_fr g)]) ++ gs').
    { apply nth_error_ext. intros n. rewrite nth_error_set_at.
      assert (len pre < len (pre ++ g :: gs')) by (rewrite len_app; unfold len; simpl; lia).
      destruct (N.ltb_spec (len pre) (len (pre ++ g :: gs'))); [|lia]. simpl.
      replace (nat_of (len pre)) with (length pre) by (unfold nat_of, len; lia).
      rewrite <- app_assoc. simpl.
      destruct (Nat.eqb_spec (length pre) n).
      - subst. rewrite nth_error_app2 by lia. rewrite Nat.sub_diag. auto.
      - destruct (Nat.lt_ge_cases n (length pre)).
        + rewrite !nth_error_app1 by lia. auto.
        + rewrite !nth_error_app2 by lia. destruct (n - length pre)%nat eqn:En; [lia|]. auto. }
    destruct (IH (pre ++ [mkGroup [] (g_fr g)]) (len pre + 1) gs3 out3) as (A & B & C); auto.
    { rewrite len_app. unfold len. simpl. lia. }
    split; [|split].
    + rewrite take_all_app. rewrite (take_group_all (rev (g_idx g)) _ _ g Hg Hnd); [|apply Permutation_sym, Permutation_rev].
      rewrite Hset, A. rewrite <- app_assoc. auto.
    + apply Forall_app. split; auto. apply Forall_forall. intros x Hx. apply in_map_iff in Hx. destruct Hx as [? [<- _]]. reflexivity.
    + rewrite map_app, sumN_app, C. cbn [map]. rewrite sumN_cons.
      assert (Hs : sumN (map held_ix (map (fun i => mkAidx i (len pre) 0) (rev (g_idx g)))) = len (g_idx g) * FPU).
      { rewrite sum_whole; [|apply Forall_forall; intros x Hx; apply in_map_iff in Hx; destruct Hx as [? [<- _]]; reflexivity].
        unfold len. rewrite map_length, rev_length. auto. }
      rewrite Hs. lia.
Qed.

Theorem claim_complete_all full gs rid wit p' ra :
  gs_wf gs -> full = usize (PGroups full gs) * FPU ->
  pool_claim (PGroups full gs) rid ReqAll wit = Ok (p', ra) -> claim_ok (PGroups full gs) p' rid ReqAll ra = true.
Proof.
  intros Hwf Hfull Hc. unfold pool_claim in Hc.
  destruct (claim_all_from_groups gs 0) as [gs' out] eqn:E. inversion Hc; subst p' ra. clear Hc.
  destruct (claim_all_spec gs [] 0 gs' out eq_refl Hwf E) as (A & B & C). simpl in A.
  unfold claim_ok, ra_total. cbn [ra_res ra_amount ra_indices pool_full_size pool_groups req_amount].
  rewrite !N.eqb_refl. rewrite ra_total_sum, C. unfold usize in Hfull. simpl in Hfull. rewrite <- Hfull, N.eqb_refl.
  rewrite <- (app_nil_r out) at 1. rewrite (shape_ok_app out []) by auto. rewrite A. simpl. apply groups_eqb_refl.
Qed.
