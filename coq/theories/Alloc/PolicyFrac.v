(** C16 - the min-fraction rule as a theorem: whatever claim function serves a request, the fractional
    remainder is taken from the partly used index of its group with the LEAST free fraction that still fits;
    only if no partly used index fits, a whole free index of the group is split.
    Holds for ALL pools and ALL requests (no invariant is needed). *)
From Coq Require Import Permutation.
From HQ Require Import Base.Prelude Gen.Consts Alloc.Model Alloc.Spec Alloc.Lemmas Alloc.Group Alloc.Pool Alloc.Inv Alloc.System Alloc.Mirror Alloc.MirrorSystem Alloc.Complete Alloc.CompleteTight Alloc.PolicyBase.
Require Import ZifyBool ZifyN ZifyNat.
Open Scope N_scope.
Arguments N.add : simpl never.
Arguments N.sub : simpl never.
Arguments N.mul : simpl never.
Arguments N.div : simpl never.
Arguments N.modulo : simpl never.
Arguments N.eqb : simpl never.
Arguments N.ltb : simpl never.
Arguments N.leb : simpl never.
Arguments N.of_nat : simpl never.
Arguments N.to_nat : simpl never.
Arguments sumN : simpl never.

(** the monitor [min_fraction_ok], per AllocationIndex *)
Definition mf_g (g : group) (ix : aidx) : bool :=
  match cand_min (g_fr g) (ai_frac ix) with
  | Some mn => match fget (g_fr g) (ai_index ix) with Some v => v =? mn | None => false end
  | None => memN (ai_index ix) (g_idx g)
  end.
Definition mf_ix (gs : list group) (ix : aidx) : bool :=
  if ai_frac ix =? 0 then true
  else match nth_error gs (nat_of (ai_group ix)) with Some g => mf_g g ix | None => false end.

Lemma min_fraction_ok_eq before e ra :
  min_fraction_ok before e ra =
  match nth_error before (nat_of (e_res e)) with
  | Some p => forallb (mf_ix (pool_groups p)) (ra_indices ra)
  | None => true
  end.
Proof. reflexivity. Qed.

Definition mfP (gs0 : list group) (ix : aidx) : Prop := mf_ix gs0 ix = true.

Lemma mfP_whole gs0 i gi : mfP gs0 (mkAidx i gi 0).
Proof. reflexivity. Qed.

Lemma mfP_block gs0 gi (l : list N) : Forall (mfP gs0) (map (fun i => mkAidx i gi 0) l).
Proof. apply Forall_forall. intros x Hx. apply in_map_iff in Hx. destruct Hx as [i [<- _]]. apply mfP_whole. Qed.

Lemma mf_match g0 fr wit i f gi :
  best_fraction_match (g_fr g0) fr wit = Ok (Some (i, f)) -> mf_g g0 (mkAidx i gi fr) = true.
Proof.
  intros H. apply bfm_some_min in H. destruct H as [Hc Hf]. unfold mf_g. cbn [ai_frac ai_index].
  rewrite Hc, Hf. apply N.eqb_refl.
Qed.

Lemma mf_split g0 fr wit i gi :
  best_fraction_match (g_fr g0) fr wit = Ok None -> In i (g_idx g0) -> mf_g g0 (mkAidx i gi fr) = true.
Proof.
  intros H Hin. apply bfm_none in H. unfold mf_g. cbn [ai_frac ai_index]. rewrite H. apply memN_in. auto.
Qed.

Lemma mf_ix_intro gs0 gi g0 ix : get_at gs0 gi = Ok g0 -> ai_group ix = gi -> mf_g g0 ix = true -> mfP gs0 ix.
Proof.
  intros Hg Hgi Hm. unfold mfP, mf_ix. destruct (ai_frac ix =? 0); auto.
  apply get_at_ok in Hg. destruct Hg as [_ Hn]. rewrite Hgi, Hn. auto.
Qed.

(** the current groups relative to the groups before the claim, while no fraction has been taken:
    same fraction maps, index stacks only shortened *)
Definition Rel (gs0 gs : list group) : Prop :=
  forall gi g, get_at gs gi = Ok g ->
    exists g0, get_at gs0 gi = Ok g0 /\ g_fr g = g_fr g0 /\ incl (g_idx g) (g_idx g0).

Lemma Rel_refl gs : Rel gs gs.
Proof. intros gi g H. exists g. split; auto. split; auto. apply incl_refl. Qed.

Lemma Rel_set_at gs0 gs gi g g' :
  Rel gs0 gs -> get_at gs gi = Ok g -> g_fr g' = g_fr g -> incl (g_idx g') (g_idx g) -> Rel gs0 (set_at gs gi g').
Proof.
  intros HR Hg Hf Hi gj gg Hgg. destruct (N.eq_dec gi gj) as [->|Hne].
  - rewrite (get_at_set_at_same' _ _ _ _ Hg) in Hgg. inversion Hgg; subst gg.
    destruct (HR _ _ Hg) as (g0 & A & B & C). exists g0. split; auto. split; [congruence|].
    eapply incl_tran; eauto.
  - rewrite get_at_set_at_other in Hgg by auto. auto.
Qed.

(** take_fraction_index_or_split / try_take_fraction on a group whose fraction map is that of [g0] *)
Lemma take_fraction_mf g g0 fr gid wit out g' out' :
  g_fr g = g_fr g0 -> incl (g_idx g) (g_idx g0) ->
  take_fraction_index_or_split g fr gid wit out = Ok (g', out') ->
  (fr = 0 /\ out' = out /\ g' = g)
  \/ (fr <> 0 /\ exists F, out' = out ++ [F] /\ ai_group F = gid /\ ai_frac F = fr /\ mf_g g0 F = true).
Proof.
  intros Hf Hi H. unfold take_fraction_index_or_split in H.
  destruct (N.eqb_spec fr 0) as [Hz|Hz]; [inversion H; subst; auto|]. right. split; auto.
  destruct (best_fraction_match (g_fr g) fr wit) as [[[i f]|]| |] eqn:Eb; cbn [bind] in H; try discriminate.
  - inversion H; subst. eexists. split; [reflexivity|]. cbn [ai_group ai_frac]. repeat split; auto.
    rewrite Hf in Eb. eapply mf_match; eauto.
  - destruct (g_idx g) as [|i rest] eqn:Es; [discriminate|]. inversion H; subst.
    eexists. split; [reflexivity|]. cbn [ai_group ai_frac]. repeat split; auto.
    rewrite Hf in Eb. eapply mf_split; eauto. apply Hi. left; auto.
Qed.

Lemma try_take_fraction_mf g g0 fr gid wit out g' out' took :
  g_fr g = g_fr g0 ->
  try_take_fraction g fr gid wit out = Ok (g', out', took) ->
  (took = false /\ out' = out /\ g' = g)
  \/ (took = true /\ fr <> 0 /\ g_idx g' = g_idx g
      /\ exists F, out' = out ++ [F] /\ ai_group F = gid /\ ai_frac F = fr /\ mf_g g0 F = true).
Proof.
  intros Hf H. unfold try_take_fraction in H.
  destruct (N.eqb_spec fr 0) as [Hz|Hz]; [inversion H; subst; auto|].
  destruct (best_fraction_match (g_fr g) fr wit) as [[[i f]|]| |] eqn:Eb; cbn [bind] in H; try discriminate.
  - inversion H; subst. right. repeat split; auto. eexists. split; [reflexivity|]. cbn [ai_group ai_frac].
    repeat split; auto. rewrite Hf in Eb. eapply mf_match; eauto.
  - inversion H; subst. auto.
Qed.

(** try_take_fraction never touches the index stack *)
Lemma try_take_fraction_idx g fr gid wit out g' out' took :
  try_take_fraction g fr gid wit out = Ok (g', out', took) -> g_idx g' = g_idx g.
Proof.
  intros H. unfold try_take_fraction in H.
  destruct (fr =? 0); [inversion H; subst; auto|].
  destruct (best_fraction_match (g_fr g) fr wit) as [[[i f]|]| |]; cbn [bind] in H; try discriminate; inversion H; subst; auto.
Qed.

(* ------------------------------------------------------------------------------------------ *)
(** * the scatter loop (scatter, compact, compact!) *)

Lemma scatter_loop_mf gs0 fuel : forall gs sel units fr pos wit out gs' out',
  (fr <> 0 -> Rel gs0 gs) -> Forall (mfP gs0) out ->
  scatter_loop fuel gs sel units fr pos wit out = Ok (gs', out') ->
  Forall (mfP gs0) out'.
Proof.
  induction fuel as [|fuel IH]; intros gs sel units fr pos wit out gs' out' HR Hout Hl; cbn [scatter_loop] in Hl.
  - destruct ((units =? 0) && (fr =? 0)); [|discriminate]. inversion Hl; subst; auto.
  - destruct ((units =? 0) && (fr =? 0)) eqn:E0; [inversion Hl; subst; auto|].
    destruct (match sel with Some s => get_at s pos | None => Ok pos end) as [gi| |] eqn:Egi; cbn [bind] in Hl; try discriminate.
    destruct (get_at gs gi) as [g| |] eqn:Eg; cbn [bind] in Hl; try discriminate.
    destruct (N.ltb_spec 0 units) as [Hpos|Hz].
    + (* a whole index *)
      destruct (g_idx g) as [|i rest] eqn:Es.
      * eapply IH; eauto.
      * eapply IH; [| |exact Hl].
        -- intros Hfr. eapply Rel_set_at; eauto. cbn [g_idx]. rewrite Es. apply incl_tl, incl_refl.
        -- apply Forall_app. split; auto. constructor; [apply mfP_whole|constructor].
    + (* the fraction *)
      assert (Hu : units = 0) by lia. subst units.
      assert (Hfr : fr <> 0).
      { intros ->. rewrite N.eqb_refl in E0. discriminate. }
      destruct (HR Hfr _ _ Eg) as (g0 & Hg0 & Hf0 & Hi0).
      destruct (best_fraction_match (g_fr g) fr wit) as [[[i f]|]| |] eqn:Eb; cbn [bind] in Hl; try discriminate.
      * eapply IH; [| |exact Hl]; [intros X; congruence|].
        apply Forall_app. split; auto. constructor; [|constructor].
        eapply mf_ix_intro; eauto. rewrite Hf0 in Eb. eapply mf_match; eauto.
      * destruct (g_idx g) as [|i rest] eqn:Es.
        -- eapply IH; eauto.
        -- eapply IH; [| |exact Hl]; [intros X; congruence|].
           apply Forall_app. split; auto. constructor; [|constructor].
           eapply mf_ix_intro; eauto. rewrite Hf0 in Eb. eapply mf_split; eauto. apply Hi0. left; auto.
Qed.

Lemma claim_scatter_mf a gs sel wit gs' out :
  claim_scatter_from_groups a gs sel wit = Ok (gs', out) -> Forall (mfP gs) out.
Proof.
  intros Hc. unfold claim_scatter_from_groups in Hc. destruct (split a) as [units fr].
  destruct (scatter_loop (scatter_fuel gs sel) gs sel units fr 0 wit []) as [[gs1 raw]| |] eqn:El; cbn [bind] in Hc; try discriminate.
  inversion Hc; subst.
  eapply Permutation_Forall; [apply Permutation_sym, isort_perm|].
  eapply scatter_loop_mf; [| |exact El]; [intros _; apply Rel_refl | constructor].
Qed.

(* ------------------------------------------------------------------------------------------ *)
(** * the compact loop (tight, tight!) *)

Lemma snd_split_mk0 u : snd (split (mk_amount u 0)) = 0.
Proof. unfold mk_amount. rewrite split_mk by apply FPU_pos. reflexivity. Qed.

Lemma compact_loop_mf gs0 fuel : forall gs amounts sel remaining wit out fidx gs' out' fidx',
  (snd (split remaining) <> 0 -> Rel gs0 gs) -> Forall (mfP gs0) out ->
  compact_loop fuel gs amounts sel remaining wit out fidx = Ok (gs', out', fidx') ->
  Forall (mfP gs0) out'.
Proof.
  induction fuel as [|fuel IH]; intros gs amounts sel remaining wit out fidx gs' out' fidx' HR Hout Hl; [discriminate|].
  rewrite compact_loop_unfold in Hl.
  destruct (split_recompose remaining) as [Hrec Hfrlt].
  destruct (find_min_fit amounts 0 remaining sel) as [[gi a]|].
  - destruct (split remaining) as [units fr] eqn:Es. cbn [fst snd] in *.
    destruct (get_at gs gi) as [g| |] eqn:Eg; cbn [bind] in Hl; try discriminate.
    destruct (take_indices (g_idx g) gi units out) as [[st out1]| |] eqn:Et; cbn [bind] in Hl; try discriminate.
    destruct (take_fraction_index_or_split (mkGroup st (g_fr g)) fr gi wit out1) as [[g2 out2]| |] eqn:Ef; cbn [bind] in Hl; try discriminate.
    inversion Hl; subst gs' out' fidx'. clear Hl.
    apply take_indices_inv in Et. destruct Et as (Hle & -> & ->).
    assert (Hout1 : Forall (mfP gs0) (out ++ map (fun i => mkAidx i gi 0) (firstn (nat_of units) (g_idx g))))
      by (apply Forall_app; split; auto; apply mfP_block).
    destruct (N.eq_dec fr 0) as [Hz|Hz].
    + subst fr. unfold take_fraction_index_or_split in Ef. rewrite N.eqb_refl in Ef. inversion Ef; subst. auto.
    + destruct (HR Hz _ _ Eg) as (g0 & Hg0 & Hf0 & Hi0).
      destruct (take_fraction_mf (mkGroup (skipn (nat_of units) (g_idx g)) (g_fr g)) g0 _ _ _ _ _ _ Hf0 (incl_tran (incl_skipn _ _) Hi0) Ef) as [(Hz' & _)|(_ & F & -> & HgF & HfF & Hm)]; [congruence|].
      apply Forall_app. split; auto. constructor; [|constructor]. eapply mf_ix_intro; eauto.
  - destruct (find_max amounts 0 sel) as [[gi a]|]; [|discriminate].
    destruct (split remaining) as [units fr] eqn:Es. cbn [fst snd] in *.
    destruct (get_at gs gi) as [g| |] eqn:Eg; cbn [bind] in Hl; try discriminate.
    destruct (N.ltb_spec units (len (g_idx g))) as [|Hge]; [discriminate|].
    destruct (take_indices (g_idx g) gi (len (g_idx g)) out) as [[st out1]| |] eqn:Et; cbn [bind] in Hl; try discriminate.
    destruct (try_take_fraction (mkGroup st (g_fr g)) fr gi wit out1) as [[[g2 out2] took]| |] eqn:Ef; cbn [bind] in Hl; try discriminate.
    apply take_indices_inv in Et. destruct Et as (Hle & -> & ->).
    assert (Hout1 : Forall (mfP gs0) (out ++ map (fun i => mkAidx i gi 0) (firstn (nat_of (len (g_idx g))) (g_idx g))))
      by (apply Forall_app; split; auto; apply mfP_block).
    destruct (N.eq_dec fr 0) as [Hz|Hz].
    + subst fr. unfold try_take_fraction in Ef. rewrite N.eqb_refl in Ef. inversion Ef; subst.
      eapply IH; [| |exact Hl]; auto.
      intros X. exfalso. apply X. apply snd_split_mk0.
    + destruct (HR Hz _ _ Eg) as (g0 & Hg0 & Hf0 & Hi0).
      destruct (try_take_fraction_mf (mkGroup (skipn (nat_of (len (g_idx g))) (g_idx g)) (g_fr g)) g0 _ _ _ _ _ _ _ Hf0 Ef) as [(-> & -> & ->)|(-> & _ & Hidx & F & -> & HgF & HfF & Hm)].
      * eapply IH; [| |exact Hl]; auto. intros _.
        eapply Rel_set_at; eauto. cbn [g_idx]. apply incl_skipn.
      * eapply IH; [| |exact Hl].
        -- intros X. exfalso. apply X. apply snd_split_mk0.
        -- apply Forall_app. split; auto. constructor; [|constructor]. eapply mf_ix_intro; eauto.
Qed.

Lemma claim_compact_mf a gs sel wit gs' out :
  claim_compact_from_groups a gs sel wit = Ok (gs', out) -> Forall (mfP gs) out.
Proof.
  intros Hc. unfold claim_compact_from_groups in Hc.
  destruct (compact_loop (length gs + 2) gs (map group_amount gs) sel a wit [] None) as [[[gs1 raw] fidx]| |] eqn:El; cbn [bind] in Hc; try discriminate.
  inversion Hc; subst.
  assert (Hraw : Forall (mfP gs) raw).
  { eapply compact_loop_mf; [| |exact El]; [intros _; apply Rel_refl | constructor]. }
  destruct fidx as [k|]; auto.
  eapply Permutation_Forall; [apply Permutation_sym, swap_to_last_perm|]. auto.
Qed.

(* ------------------------------------------------------------------------------------------ *)
(** * all claim functions *)

Lemma claim_all_whole gs : forall gid gs' out, claim_all_from_groups gs gid = (gs', out) -> Forall whole out.
Proof.
  induction gs as [|g gs IH]; intros gid gs' out H; cbn [claim_all_from_groups] in H.
  - inversion H; subst. constructor.
  - destruct (claim_all_from_groups gs (gid + 1)) as [gs'' out''] eqn:E. inversion H; subst.
    apply Forall_app. split; [|eapply IH; eauto].
    apply Forall_forall. intros x Hx. apply in_map_iff in Hx. destruct Hx as [i [<- _]]. reflexivity.
Qed.

Lemma forallb_mf gs out : Forall (mfP gs) out -> forallb (mf_ix gs) out = true.
Proof. intros H. apply forallb_forall. rewrite Forall_forall in H. auto. Qed.

Theorem min_fraction_pool_claim p rid rq wit p' ra :
  pool_claim p rid rq wit = Ok (p', ra) -> forallb (mf_ix (pool_groups p)) (ra_indices ra) = true.
Proof.
  intros Hc. apply forallb_mf. destruct p as [|full g|full gs|full free]; cbn [pool_claim pool_groups] in *.
  - discriminate.
  - destruct (split_recompose (req_amount rq full)) as [_ Hfr].
    destruct (split (req_amount rq full)) as [units fr]. cbn [snd] in Hfr.
    destruct (take_indices (g_idx g) 0 units []) as [[st out1]| |] eqn:Et; cbn [bind] in Hc; try discriminate.
    destruct (take_fraction_index_or_split (mkGroup st (g_fr g)) fr 0 wit out1) as [[g2 out2]| |] eqn:Ef; cbn [bind] in Hc; try discriminate.
    inversion Hc; subst. cbn [ra_indices]. clear Hc.
    apply take_indices_inv in Et. destruct Et as (Hle & -> & ->). cbn [app] in Ef.
    destruct (take_fraction_mf (mkGroup (skipn (nat_of units) (g_idx g)) (g_fr g)) g fr 0 wit _ _ _ eq_refl (incl_skipn _ _) Ef)
      as [(_ & -> & _)|(_ & F & -> & HgF & HfF & Hm)].
    + apply mfP_block.
    + apply Forall_app. split; [apply mfP_block|]. constructor; [|constructor].
      eapply mf_ix_intro; eauto. reflexivity.
  - destruct rq as [[] a|]; try discriminate.
    + destruct (claim_scatter_from_groups a gs None wit) as [[gs' out]| |] eqn:E; cbn [bind] in Hc; try discriminate.
      inversion Hc; subst. cbn [ra_indices]. eapply claim_scatter_mf; eauto.
    + destruct (claim_all_from_groups gs 0) as [gs' out] eqn:E. inversion Hc; subst. cbn [ra_indices].
      apply claim_all_whole in E. eapply Forall_impl; [|exact E].
      intros ix Hx. unfold whole in Hx. unfold mfP, mf_ix. rewrite Hx. reflexivity.
  - destruct (free <? req_amount rq full); [discriminate|]. inversion Hc; subst. constructor.
Qed.

Theorem min_fraction_mask_claim p rid rq mask wit p' ra :
  claim_with_group_mask p rid rq mask wit = Ok (p', ra) -> forallb (mf_ix (pool_groups p)) (ra_indices ra) = true.
Proof.
  intros Hc. apply forallb_mf. destruct p as [|full g|full gs|full free]; cbn [claim_with_group_mask pool_groups] in *; try discriminate.
  destruct rq as [[] a|]; try discriminate.
  - destruct (claim_scatter_from_groups a gs (Some mask) wit) as [[gs' out]| |] eqn:E; cbn [bind] in Hc; try discriminate.
    inversion Hc; subst. eapply claim_scatter_mf; eauto.
  - destruct (claim_compact_from_groups a gs (Some mask) wit) as [[gs' out]| |] eqn:E; cbn [bind] in Hc; try discriminate.
    inversion Hc; subst. eapply claim_compact_mf; eauto.
  - destruct (claim_scatter_from_groups a gs (Some mask) wit) as [[gs' out]| |] eqn:E; cbn [bind] in Hc; try discriminate.
    inversion Hc; subst. eapply claim_scatter_mf; eauto.
  - destruct (claim_compact_from_groups a gs (Some mask) wit) as [[gs' out]| |] eqn:E; cbn [bind] in Hc; try discriminate.
    inversion Hc; subst. eapply claim_compact_mf; eauto.
Qed.

(** The monitor min-fraction as a theorem, for the claim of a non-coupled entry (ResourcePool::claim_resources:
    index pools, sum pools, scatter and `all` on group pools) ... *)
Theorem C16_min_fraction_direct : forall before e wit p p' ra,
  nth_error before (nat_of (e_res e)) = Some p ->
  pool_claim p (e_res e) (e_req e) wit = Ok (p', ra) ->
  min_fraction_ok before e ra = true.
Proof.
  intros before e wit p p' ra Hn Hc. rewrite min_fraction_ok_eq, Hn. eapply min_fraction_pool_claim; eauto.
Qed.

(** ... and for the claim of a coupled entry (claim_resources_with_group_mask: compact, compact!, tight, tight!
    with ANY group mask). *)
Theorem C16_min_fraction_coupled : forall before e mask wit p p' ra,
  nth_error before (nat_of (e_res e)) = Some p ->
  claim_with_group_mask p (e_res e) (e_req e) mask wit = Ok (p', ra) ->
  min_fraction_ok before e ra = true.
Proof.
  intros before e mask wit p p' ra Hn Hc. rewrite min_fraction_ok_eq, Hn. eapply min_fraction_mask_claim; eauto.
Qed.

(** non-vacuity: a tight claim over two groups whose remainder 0.25 is served by the partly used index with the
    least fitting free fraction (0.3 of index 7, not 0.6 of index 8) *)
Example min_fraction_example :
  let gs := [mkGroup [1; 0] []; mkGroup [3] [(8, 6000); (7, 3000)]] in
  let p := PGroups (mk_amount 5 0) gs in
  exists p' ra,
    claim_with_group_mask p 0 (Req Tight 12500) [0; 1] (Some 7) = Ok (p', ra)
    /\ ra_indices ra = [mkAidx 3 1 0; mkAidx 7 1 2500]
    /\ min_fraction_ok [p] (mkEntry 0 (Req Tight 12500)) ra = true.
Proof. vm_compute. eexists _, _. repeat split. Qed.

Print Assumptions C16_min_fraction_direct.
Print Assumptions C16_min_fraction_coupled.
